/-
  QV.Proofs.WriterRecords — the anchor invariant at the level of records and public calls:
  `add_rr`, `add_rrset`, `add_question`, … never panic from a valid state when the hint contract
  holds, re-establish the invariant, keep every valid anchor valid, and leave the anchors /
  `HintPointerVec` entries they promise.
-/
import QV.Proofs.WriterNames

namespace QV.Writer
open QV QV.Wire

/-! ### total-correctness triples (no panic; postcondition on success) -/

def Sp {α} (P : State → Prop) (f : M α) (Q : α → State → Prop) : Prop :=
  ∀ s, P s → (f s).1 ≠ .panic ∧ ∀ a s', f s = (.ok a, s') → Q a s'

theorem sp_bind {α β} {P : State → Prop} {f : M α} {Q : α → State → Prop} {g : α → M β}
    {R : β → State → Prop} (hf : Sp P f Q) (hg : ∀ a, Sp (Q a) (g a) R) : Sp P (f >>= g) R := by
  intro s hp
  obtain ⟨h1, h2⟩ := hf s hp
  simp only [M.bind_apply]
  cases hfs : f s with
  | mk r s1 =>
    rw [hfs] at h1
    cases r with
    | ok a => exact hg a s1 (h2 a s1 hfs)
    | err e => exact ⟨by simp, fun _ _ h => by cases h⟩
    | panic => exact absurd rfl h1

theorem sp_pure {α} {P : State → Prop} (a : α) : Sp P (pure a : M α) (fun b s => b = a ∧ P s) := by
  intro s hp; exact ⟨by simp, fun b s' h => by cases h; exact ⟨rfl, hp⟩⟩

theorem sp_fail {α} {P : State → Prop} {Q : α → State → Prop} (e : WriterErr) : Sp P (M.fail e : M α) Q := by
  intro s _; exact ⟨by simp, fun b s' h => by cases h⟩

theorem sp_gets {α} {P : State → Prop} (f : State → α) : Sp P (M.gets f) (fun a s => a = f s ∧ P s) := by
  intro s hp; exact ⟨by simp, fun b s' h => by cases h; exact ⟨rfl, hp⟩⟩

theorem sp_modify {P : State → Prop} (f : State → State) :
    Sp P (M.modify f) (fun _ s => ∃ s0, P s0 ∧ s = f s0) := by
  intro s hp; exact ⟨by simp, fun b s' h => by cases h; exact ⟨s, hp, rfl⟩⟩

theorem sp_weaken {α} {P P' : State → Prop} {f : M α} {Q Q' : α → State → Prop}
    (h : Sp P f Q) (hp : ∀ s, P' s → P s) (hq : ∀ a s, Q a s → Q' a s) : Sp P' f Q' :=
  fun s hp' => ⟨(h s (hp s hp')).1, fun a s' hf => hq a s' ((h s (hp s hp')).2 a s' hf)⟩

/-- a frame adds `Ext s0` to both sides -/
theorem sp_frame {α} {P : State → Prop} {f : M α} {Q : α → State → Prop} (h : Sp P f Q)
    (hf : Frame f) (s0 : State) :
    Sp (fun s => P s ∧ Ext s0 s) f (fun a s' => Q a s' ∧ Ext s0 s') := by
  intro s ⟨hp, he⟩
  refine ⟨(h s hp).1, fun a s' hfs => ⟨(h s hp).2 a s' hfs, ?_⟩⟩
  have := hf s; rw [hfs] at this
  exact Ext.trans he this

/-- a name-writing routine as a triple -/
theorem sp_of_nameSpec {f : M (Option Prior)} {n : WName} {P : State → Prop}
    (h : ∀ s, P s → NameSpec s n (f s)) :
    Sp P f (fun p s' => ∃ s, P s ∧ WInv s' ∧ (∀ q, p = some q → Den s' q n) ∧ s'.qname = s.qname ∧
      s'.mostRecentOwner = s.mostRecentOwner ∧ s'.mostRecentNameInRdata = s.mostRecentNameInRdata ∧
      f s = (.ok p, s')) := by
  intro s hp
  have hs := h s hp
  refine ⟨hs.nopanic, fun p s' hfs => ?_⟩
  have := hs.ok p (by rw [hfs])
  rw [hfs] at this
  exact ⟨s, hp, this.1, this.2.1, this.2.2.1, this.2.2.2.1, this.2.2.2.2.1, hfs⟩

/-! ### the names inside RDATA -/

/-- the names `write_components` finds in one RDATA, in the order it pushes their pointers onto
    the caller's `HintPointerVec` (mirrors the parse of `writeComponents`) -/
def compNames : List CompType → List UInt8 → List WName
  | [], _ => []
  | .compressibleName :: ts, rd =>
    match WName.parse rd with
    | none => []
    | some (n, rest) => n :: compNames ts rest
  | .uncompressibleName :: ts, rd =>
    match WName.parse rd with
    | none => []
    | some (n, rest) => n :: compNames ts rest
  | .fixedLen k :: ts, rd => if rd.length < k then [] else compNames ts (rd.drop k)

def rdataNames (cls ty : Nat) (rd : List UInt8) : List WName :=
  match componentTypes cls ty with
  | some ts => compNames ts rd
  | none => []

theorem parseLabels_wf : ∀ (fuel : Nat) (b : List UInt8) (ls : List Label) (r : List UInt8),
    WName.parseLabels fuel b = some (ls, r) → ∀ l ∈ ls, 1 ≤ l.length ∧ l.length ≤ Gen.MAX_LABEL_LEN := by
  intro fuel
  induction fuel with
  | zero => intro b ls r h; simp [WName.parseLabels] at h
  | succ f ih =>
    intro b ls r h
    cases b with
    | nil => simp [WName.parseLabels] at h
    | cons x rest =>
      simp only [WName.parseLabels] at h
      by_cases hx0 : x = 0
      · rw [if_pos hx0] at h; cases h; intro l hl; cases hl
      · rw [if_neg hx0] at h
        by_cases hx63 : x.toNat > Gen.MAX_LABEL_LEN
        · rw [if_pos hx63] at h; cases h
        · rw [if_neg hx63] at h
          by_cases hlen : rest.length < x.toNat
          · rw [if_pos hlen] at h; cases h
          · rw [if_neg hlen] at h
            cases hrec : WName.parseLabels f (List.drop x.toNat rest) with
            | none => rw [hrec] at h; cases h
            | some pr =>
              obtain ⟨ls', r'⟩ := pr
              rw [hrec] at h
              cases h
              intro l hl
              simp only [List.mem_cons] at hl
              rcases hl with rfl | hl
              · simp only [List.length_take]
                have : x.toNat ≠ 0 := fun h0 => hx0 ((toNat_eq_zero_iff x).mp h0)
                omega
              · exact ih _ _ _ hrec l hl

theorem parse_wf {b : List UInt8} {n : WName} {r : List UInt8} (h : WName.parse b = some (n, r)) : n.WF := by
  unfold WName.parse at h
  split at h
  · rename_i ls r' hp
    dsimp only at h
    split at h
    · rename_i hlen
      cases h
      exact ⟨parseLabels_wf _ _ _ _ hp, hlen⟩
    · cases h
  · cases h

/-! ### the name writers do not touch the caller's `HintPointerVec` -/

def KeepsHv {α} (f : M α) : Prop := ∀ s, (f s).2.hv = s.hv

theorem keepsHv_bind {α β} {f : M α} {g : α → M β} (hf : KeepsHv f) (hg : ∀ a, KeepsHv (g a)) :
    KeepsHv (f >>= g) := by
  intro s
  have h1 := hf s
  simp only [M.bind_apply]
  cases hfs : f s with
  | mk r s' =>
    rw [hfs] at h1
    cases r with
    | ok a => rw [hg a s']; exact h1
    | err e => exact h1
    | panic => exact h1

theorem keepsHv_pure {α} (a : α) : KeepsHv (pure a : M α) := fun _ => rfl
theorem keepsHv_panic {α} : KeepsHv (M.panic : M α) := fun _ => rfl
theorem keepsHv_gets {α} (f : State → α) : KeepsHv (M.gets f) := fun _ => rfl

theorem keepsHv_tryPush (d : List UInt8) : KeepsHv (tryPush d) := by
  intro s; unfold tryPush; repeat' split
  all_goals rfl

theorem keepsHv_ghostLabels (p : Nat) (l : List Label) (b : Bool) : KeepsHv (ghostLabels p l b) :=
  fun _ => rfl

theorem keepsHv_pushPointer (p : Nat) : KeepsHv (pushPointer p) := by
  unfold pushPointer
  exact keepsHv_bind (keepsHv_gets _) fun _ => keepsHv_bind (keepsHv_tryPush _) fun _ => fun _ => rfl

theorem keepsHv_writeUncompressedName (n : WName) : KeepsHv (writeUncompressedName n) := by
  unfold writeUncompressedName
  exact keepsHv_bind (keepsHv_gets _) fun _ => keepsHv_bind (keepsHv_tryPush _) fun _ =>
    keepsHv_bind (keepsHv_ghostLabels _ _ _) fun _ => keepsHv_pure _

theorem keepsHv_writeCompressedUnhintedName (n : WName) : KeepsHv (writeCompressedUnhintedName n) := by
  unfold writeCompressedUnhintedName
  refine keepsHv_bind (keepsHv_gets _) fun d => keepsHv_bind (keepsHv_gets _) fun c => ?_
  split
  · exact keepsHv_panic
  · exact keepsHv_panic
  · exact keepsHv_writeUncompressedName n
  · split
    · exact keepsHv_bind (keepsHv_pushPointer _) fun _ => keepsHv_pure _
    · exact keepsHv_bind (keepsHv_tryPush _) fun _ => keepsHv_bind (keepsHv_ghostLabels _ _ _) fun _ =>
        keepsHv_bind (keepsHv_pushPointer _) fun _ => keepsHv_pure _

theorem keepsHv_writeUnhintedName (n : WName) : KeepsHv (writeUnhintedName n) := by
  unfold writeUnhintedName
  refine keepsHv_bind (keepsHv_gets _) fun m => ?_
  split
  · exact keepsHv_writeCompressedUnhintedName n
  · exact keepsHv_writeUncompressedName n

theorem keepsHv_pushHinted (p : Prior) : KeepsHv (pushHinted p) :=
  keepsHv_bind (keepsHv_pushPointer _) fun _ => keepsHv_pure _

theorem keepsHv_writeHintedName (h : Hint) (n : WName) : KeepsHv (writeHintedName h n) := by
  unfold writeHintedName
  refine keepsHv_bind (keepsHv_gets _) fun m => ?_
  split
  · exact keepsHv_writeUncompressedName n
  · split
    · exact keepsHv_writeCompressedUnhintedName n
    · split
      · refine keepsHv_bind (keepsHv_gets _) fun q => ?_
        split
        · exact keepsHv_pushHinted _
        · exact keepsHv_writeCompressedUnhintedName n
      · refine keepsHv_bind (keepsHv_gets _) fun q => ?_
        split
        · exact keepsHv_pushHinted _
        · exact keepsHv_writeCompressedUnhintedName n
      · refine keepsHv_bind (keepsHv_gets _) fun q => ?_
        split
        · exact keepsHv_pushHinted _
        · exact keepsHv_writeCompressedUnhintedName n
      · refine keepsHv_bind (keepsHv_gets _) fun q => ?_
        split
        · exact keepsHv_pushHinted _
        · exact keepsHv_writeCompressedUnhintedName n
      · exact keepsHv_writeCompressedUnhintedName n

/-! ### the state of a record being written -/

/-- the caller's `HintPointerVec` (lent empty) holds, entry by entry, valid anchors of the names
    written so far inside RDATA (as far as it has room) -/
def HvTrack (s : State) (names : List WName) : Prop :=
  ∀ v, s.hv = some v → v.length = min names.length Gen.HINT_POINTER_VEC_SIZE ∧
    ∀ (i p : Nat), v[i]? = some (some p) → ∃ n, names[i]? = some n ∧ Den s ⟨p, n.len⟩ n

/-- `s` is an intermediate state of a call that started in `s0`: valid, an extension of `s0`;
    `names` = RDATA names written so far by the call (tracked in the `HintPointerVec` if
    `track`), `loc` = those of the current record -/
structure RecSt (track : Prop) (s0 s : State) (names loc : List WName) (o : Option Prior)
    (on : Option WName) : Prop where
  winv : WInv s
  ext : Ext s0 s
  hv : track → HvTrack s names
  rd : ∀ n, loc.getLast? = some n → ∀ q, s.mostRecentNameInRdata = some q → Den s q n
  /-- the owner anchor is `o`, and (if `on` is given) it denotes that name -/
  own : s.mostRecentOwner = o
  ownDen : ∀ n, on = some n → ∀ q, o = some q → Den s q n
  /-- the QNAME anchor is not touched -/
  qn : s.qname = s0.qname
  /-- the pointer log is sound -/
  log : PtrLogOK s

theorem hvTrack_ext {s s' : State} {names : List WName} (h : HvTrack s names) (e : Ext s s')
    (hhv : s'.hv = s.hv) : HvTrack s' names := by
  unfold HvTrack
  intro v hv
  rw [hhv] at hv
  obtain ⟨h1, h2⟩ := h v hv
  refine ⟨h1, fun i p hp => ?_⟩
  obtain ⟨n, hn, hd⟩ := h2 i p hp
  exact ⟨n, hn, den_ext e hd⟩

/-- a step that extends the state, keeps validity, the vector and the RDATA anchor -/
theorem recSt_step {track : Prop} {s0 s s' : State} {names loc : List WName} {o : Option Prior}
    {on : Option WName}
    (h : RecSt track s0 s names loc o on) (e : Ext s s') (hw : WInv s') (hhv : s'.hv = s.hv)
    (hrd : s'.mostRecentNameInRdata = s.mostRecentNameInRdata)
    (hown : s'.mostRecentOwner = s.mostRecentOwner) (hqn : s'.qname = s.qname := by rfl)
    (hgp : s'.gPtrs = s.gPtrs := by rfl) :
    RecSt track s0 s' names loc o on :=
  ⟨hw, Ext.trans h.ext e, fun t => hvTrack_ext (h.hv t) e hhv,
   fun n hn q hq => den_ext e (h.rd n hn q (by rw [← hrd]; exact hq)),
   by rw [hown]; exact h.own, fun n hn q hq => den_ext e (h.ownDen n hn q hq), by rw [hqn]; exact h.qn,
   ptrLog_ext h.log e hgp⟩

theorem sp_tryPush_rec {track : Prop} {s0 : State} {names loc : List WName} {o : Option Prior}
    {on : Option WName} (d : List UInt8) :
    Sp (fun s => RecSt track s0 s names loc o on) (tryPush d)
      (fun _ s' => RecSt track s0 s' names loc o on) := by
  intro s h
  rw [tryPush_eq d s h.winv.cur_av h.winv.av_size]
  by_cases hd : d.length ≤ s.available - s.cursor
  · rw [if_pos hd]
    refine ⟨by simp, fun a s' hs => ?_⟩
    cases hs
    exact recSt_step h (ext_push s d (by have := h.winv.cur_av; omega)) (winv_push h.winv d hd) rfl rfl rfl
  · rw [if_neg hd]
    exact ⟨by simp, fun a s' hs => by cases hs⟩

theorem ext_setCtx (s : State) (c : NameCtx) : Ext s { s with gCtx := c } := by
  constructor <;> simp

theorem sp_setCtx_rec {track : Prop} {s0 : State} {names loc : List WName} {o : Option Prior}
    {on : Option WName} (c : NameCtx) :
    Sp (fun s => RecSt track s0 s names loc o on) (setCtx c)
      (fun _ s' => RecSt track s0 s' names loc o on) := by
  intro s h
  refine ⟨by simp [setCtx], fun a s' hs => ?_⟩
  simp only [setCtx, M.modify_apply] at hs
  cases hs
  exact recSt_step h (ext_setCtx s c) (winv_ext h.winv (ext_setCtx s c) rfl rfl rfl rfl) rfl rfl rfl

theorem den_anchorOK {s : State} {p : Option Prior} {n : WName} (h : ∀ q, p = some q → Den s q n) :
    AnchorOK s p := fun q hq => ⟨(h q hq).1, (h q hq).2.1, den_priorOK (h q hq)⟩

theorem hvPush_track {s : State} {names : List WName} {p : Option Prior} {n : WName}
    (h : HvTrack s names) (hd : ∀ q, p = some q → Den s q n) :
    HvTrack (hvPush (p.map (·.ptr)) s).2 (names ++ [n]) := by
  have h16 : Gen.HINT_POINTER_VEC_SIZE = 16 := rfl
  unfold HvTrack hvPush
  simp only [M.modify_apply]
  cases hv : s.hv with
  | none => intro v hv'; simp only [hv] at hv'; cases hv'
  | some v =>
    obtain ⟨hl, hall⟩ := h v hv
    simp only []
    by_cases hlt : v.length < Gen.HINT_POINTER_VEC_SIZE
    · rw [if_pos hlt]
      intro v' hv'
      simp only [Option.some.injEq] at hv'
      subst hv'
      have hnl : v.length = names.length := by omega
      refine ⟨by simp; omega, fun i q hq => ?_⟩
      by_cases hi : i < v.length
      · rw [List.getElem?_append_left hi] at hq
        obtain ⟨m, hm, hdm⟩ := hall i q hq
        exact ⟨m, by rw [List.getElem?_append_left (by omega)]; exact hm, hdm⟩
      · rw [List.getElem?_append_right (by omega)] at hq
        have hi0 : i - v.length = 0 := by
          by_cases h0 : i - v.length = 0
          · exact h0
          · rw [List.getElem?_eq_none (by simp; omega)] at hq; cases hq
        rw [hi0] at hq
        simp only [List.getElem?_cons_zero, Option.some.injEq] at hq
        cases hp : p with
        | none => rw [hp] at hq; cases hq
        | some pq =>
          rw [hp] at hq
          simp only [Option.map_some, Option.some.injEq] at hq
          have hdq := hd pq hp
          refine ⟨n, by rw [List.getElem?_append_right (by omega), show i - names.length = 0 by omega]; rfl, ?_⟩
          have : pq = ⟨q, n.len⟩ := by
            cases pq with
            | mk a b =>
              simp only at hq; subst hq
              have := hdq.2.2.1; simp only at this; rw [this]
          rw [← this]; exact hdq
    · rw [if_neg hlt]
      intro v' hv'
      rw [hv] at hv'
      simp only [Option.some.injEq] at hv'
      subst hv'
      refine ⟨by simp; omega, fun i q hq => ?_⟩
      obtain ⟨m, hm, hdm⟩ := hall i q hq
      have : i < names.length := by
        by_cases hi : i < names.length
        · exact hi
        · rw [List.getElem?_eq_none (by omega)] at hm; cases hm
      exact ⟨m, by rw [List.getElem?_append_left this]; exact hm, hdm⟩


theorem ext_setRdata (s : State) (p : Option Prior) : Ext s { s with mostRecentNameInRdata := p } := by
  constructor <;> simp

theorem ext_hvPush (s : State) (p : Option Nat) : Ext s (hvPush p s).2 := frame_hvPush p s

theorem hvPush_gPtrs (s : State) (p : Option Nat) : (hvPush p s).2.gPtrs = s.gPtrs := by
  unfold hvPush
  simp only [M.modify_apply]
  split
  · split <;> rfl
  · rfl

theorem hvPush_fields (s : State) (p : Option Nat) :
    (hvPush p s).2.gLabels = s.gLabels ∧ (hvPush p s).2.octets = s.octets ∧
    (hvPush p s).2.cursor = s.cursor ∧ (hvPush p s).2.qname = s.qname ∧
    (hvPush p s).2.mostRecentOwner = s.mostRecentOwner ∧
    (hvPush p s).2.mostRecentNameInRdata = s.mostRecentNameInRdata := by
  unfold hvPush
  simp only [M.modify_apply]
  split
  · split <;> simp
  · simp

/-- one name component of RDATA: the name is written by `wr` (with or without compression), the
    RDATA anchor is set to what it returns and its pointer is pushed onto the vector -/
theorem sp_nameComp {track : Prop} {s0 : State} {names loc : List WName} {o : Option Prior}
    {on : Option WName} (wr : M (Option Prior))
    (n : WName) (c : NameCtx) (hspec : ∀ s, WInv s → NameSpec s n (wr s)) (hfr : Frame wr)
    (hk : KeepsHv wr) :
    Sp (fun s => RecSt track s0 s names loc o on)
      (do setCtx c
          let p ← wr
          setCtx .none
          M.modify fun s => { s with mostRecentNameInRdata := p }
          hvPush (p.map (·.ptr)))
      (fun _ s' => RecSt track s0 s' (names ++ [n]) (loc ++ [n]) o on) := by
  intro s h
  simp only [M.bind_apply, setCtx, M.modify_apply]
  have h1 : RecSt track s0 { s with gCtx := c } names loc o on :=
    recSt_step h (ext_setCtx s c) (winv_ext h.winv (ext_setCtx s c) rfl rfl rfl rfl) rfl rfl rfl
  have hs := hspec _ h1.winv
  have hf := hfr { s with gCtx := c }
  have hkv := hk { s with gCtx := c }
  cases hw : wr { s with gCtx := c } with
  | mk r s2 =>
    rw [hw] at hs hf hkv
    cases r with
    | panic => exact absurd rfl hs.nopanic
    | err e => exact ⟨by simp, fun a s' hh => by cases hh⟩
    | ok p =>
      obtain ⟨hw2, hden, hq, ho, hr, _, _⟩ := hs.ok p rfl
      simp only []
      refine ⟨?_, fun a s' hh => ?_⟩
      · unfold hvPush; simp only [M.modify_apply]; simp
      · -- the state after the bookkeeping steps
        generalize hs4 : ({ s2 with gCtx := NameCtx.none, mostRecentNameInRdata := p } : State) = s4 at hh
        have e24 : Ext s2 s4 := by rw [← hs4]; constructor <;> simp
        have hden4 : ∀ q, p = some q → Den s4 q n := fun q hq' => den_ext e24 (hden q hq')
        have hw4 : WInv s4 := by
          have w := winv_ext (s' := { s2 with gCtx := NameCtx.none }) hw2 (by constructor <;> simp) rfl rfl rfl rfl
          rw [← hs4]
          exact ⟨w.c12, w.cur_av, w.av_size, w.g12, w.labs, w.qn, w.ow, den_anchorOK (fun q hq' => by
            have := hden q hq'; exact this), w.clabs⟩
        have hh' : (hvPush (p.map (·.ptr)) s4) = (.ok a, s') := hh
        have hs' : s' = (hvPush (p.map (·.ptr)) s4).2 := by rw [hh']
        obtain ⟨f1, f2, f3, f4, f5, f6⟩ := hvPush_fields s4 (p.map (·.ptr))
        have e45 : Ext s4 s' := by rw [hs']; exact ext_hvPush _ _
        have hw5 : WInv s' := by
          rw [hs']
          exact winv_ext hw4 (ext_hvPush _ _) f1 f4 f5 f6
        have e15 : Ext { s with gCtx := c } s' := Ext.trans hf (Ext.trans e24 e45)
        refine ⟨hw5, Ext.trans h1.ext e15, fun t => ?_, ?_,
          by rw [hs', f5, ← hs4]; simp only []; rw [ho]; exact h1.own,
          fun m hm q hq' => den_ext e15 (h1.ownDen m hm q hq'),
          by rw [hs', f4, ← hs4]; simp only []; rw [hq]; exact h1.qn,
          ptrLog_ext (hs.log p rfl h1.log) (Ext.trans e24 e45) (by rw [hs', hvPush_gPtrs, ← hs4])⟩
        · have ht2 : HvTrack s4 names :=
            hvTrack_ext (h1.hv t) (Ext.trans hf e24) (by rw [← hs4]; exact hkv)
          rw [hs']
          exact hvPush_track ht2 hden4
        · intro m hm q hq'
          simp only [List.getLast?_append, List.getLast?_singleton, Option.some_or] at hm
          cases hm
          rw [hs', f6, ← hs4] at hq'
          simp only at hq'
          exact den_ext e45 (hden4 q hq')


theorem M.bind_assoc {α β γ} (x : M α) (f : α → M β) (g : β → M γ) :
    (x >>= f) >>= g = x >>= fun a => f a >>= g := by
  funext s
  simp only [M.bind_apply]
  cases x s with
  | mk r s' => cases r <;> rfl

theorem nameBlock_assoc (c : NameCtx) (wr : M (Option Prior)) (k : M Unit) :
    (do setCtx c
        let p ← wr
        setCtx .none
        M.modify fun s => { s with mostRecentNameInRdata := p }
        hvPush (p.map (·.ptr))
        k) =
    ((do setCtx c
         let p ← wr
         setCtx .none
         M.modify fun s => { s with mostRecentNameInRdata := p }
         hvPush (p.map (·.ptr))) >>= fun _ => k) := by
  simp only [M.bind_assoc]

theorem sp_writeComponents {track : Prop} {s0 : State} :
    ∀ (ts : List CompType) (rd : List UInt8) (names loc : List WName) (o : Option Prior)
      (on : Option WName),
      Sp (fun s => RecSt track s0 s names loc o on) (writeComponents ts rd)
        (fun _ s' => RecSt track s0 s' (names ++ compNames ts rd) (loc ++ compNames ts rd) o on) := by
  intro ts
  induction ts with
  | nil =>
    intro rd names loc o on
    unfold writeComponents
    simp only [compNames, List.append_nil]
    split
    · exact sp_weaken (sp_pure ()) (fun _ h => h) (fun _ _ h => h.2)
    · exact sp_tryPush_rec _
  | cons t ts ih =>
    intro rd names loc o on
    cases t with
    | compressibleName =>
      unfold writeComponents
      simp only [compNames]
      cases hp : WName.parse rd with
      | none => exact sp_fail _
      | some pr =>
        obtain ⟨n, rest⟩ := pr
        simp only []
        rw [nameBlock_assoc]
        refine sp_bind (sp_nameComp (writeUnhintedName n) n _ (fun s hw => writeUnhintedName_spec n s hw (parse_wf hp))
          (frame_writeUnhintedName n) (keepsHv_writeUnhintedName n)) fun _ => ?_
        have := ih rest (names ++ [n]) (loc ++ [n]) o on
        simpa [List.append_assoc] using this
    | uncompressibleName =>
      unfold writeComponents
      simp only [compNames]
      cases hp : WName.parse rd with
      | none => exact sp_fail _
      | some pr =>
        obtain ⟨n, rest⟩ := pr
        simp only []
        rw [nameBlock_assoc]
        refine sp_bind (sp_nameComp (writeUncompressedName n) n _ (fun s hw => writeUncompressedName_spec n s hw (parse_wf hp))
          (frame_writeUncompressedName n) (keepsHv_writeUncompressedName n)) fun _ => ?_
        have := ih rest (names ++ [n]) (loc ++ [n]) o on
        simpa [List.append_assoc] using this
    | fixedLen k =>
      unfold writeComponents
      simp only [compNames]
      split
      · exact sp_fail _
      · exact sp_bind (sp_tryPush_rec _) fun _ => ih _ _ _ _ _


/-! ### one record -/

/-- validity facts move along any map of states that preserves stored names and the bookkeeping -/
theorem den_of_stored {s s' : State} (hst : ∀ p ls, StoredAt s p ls → StoredAt s' p ls)
    {p : Prior} {n : WName} (h : Den s p n) : Den s' p n := by
  obtain ⟨h1, h2, h3, ls, h4, h5⟩ := h
  exact ⟨h1, h2, h3, ls, hst _ _ h4, h5⟩

theorem anchorOK_of_stored {s s' : State} (hst : ∀ p ls, StoredAt s p ls → StoredAt s' p ls)
    {a : Option Prior} (h : AnchorOK s a) : AnchorOK s' a := by
  intro p hp
  obtain ⟨h1, h2, ls, h3, h4⟩ := h p hp
  exact ⟨h1, h2, ls, hst _ _ h3, h4⟩

theorem recSt_patch {track : Prop} {s0 s s' : State} {names loc : List WName} {o : Option Prior}
    {on : Option WName} (h : RecSt track s0 s names loc o on)
    (hst : ∀ p ls, StoredAt s p ls → StoredAt s' p ls) (hcst : ∀ g, CStored s g → CStored s' g)
    (e0 : Ext s0 s')
    (hcur : s'.cursor = s.cursor) (hav : s'.available = s.available) (hsz : s'.octets.size = s.octets.size)
    (hgl : s'.gLabels = s.gLabels) (hq : s'.qname = s.qname) (ho : s'.mostRecentOwner = s.mostRecentOwner)
    (hr : s'.mostRecentNameInRdata = s.mostRecentNameInRdata) (hhv : s'.hv = s.hv)
    (hgp : s'.gPtrs = s.gPtrs) :
    RecSt track s0 s' names loc o on := by
  have w := h.winv
  refine ⟨⟨by rw [hcur]; exact w.c12, by rw [hcur, hav]; exact w.cur_av, by rw [hav, hsz]; exact w.av_size,
    by rw [hgl]; exact w.g12, ?_, by rw [hq]; exact anchorOK_of_stored hst w.qn,
    by rw [ho]; exact anchorOK_of_stored hst w.ow, by rw [hr]; exact anchorOK_of_stored hst w.rd,
    fun g hg => hcst g (w.clabs g (by rw [← hgl]; exact hg))⟩,
    e0, ?_, ?_, by rw [ho]; exact h.own, fun n hn q hq' => den_of_stored hst (h.ownDen n hn q hq'),
    by rw [hq]; exact h.qn, ?_⟩
  · intro g hg
    rw [hgl] at hg
    obtain ⟨ls, hl⟩ := w.labs g hg
    exact ⟨ls, hst _ _ hl⟩
  · intro t v hv
    rw [hhv] at hv
    obtain ⟨h1, h2⟩ := h.hv t v hv
    refine ⟨h1, fun i p hp => ?_⟩
    obtain ⟨n, hn, hd⟩ := h2 i p hp
    exact ⟨n, hn, den_of_stored hst hd⟩
  · intro n hn q hq'
    rw [hr] at hq'
    exact den_of_stored hst (h.rd n hn q hq')
  · intro x hx
    rw [hgp] at hx
    obtain ⟨h1, h2, h3, h4, h5, ls, h6⟩ := h.log x hx
    exact ⟨h1, by rw [hcur]; exact h2, h3, h4, by rw [hgl]; exact h5, ls, hst _ _ h6⟩

/-- writing the RDLENGTH field back does not disturb any stored name -/
theorem storedAt_patch {s s2 : State} (hw : WInv s) (d : List UInt8) (hd : d.length = 2)
    (e : Ext { s with cursor := s.cursor + 2 } s2) (p : Nat) (ls : List Label)
    (h : StoredAt s2 p ls) :
    StoredAt { s2 with octets := writeAt s2.octets s.cursor d } p ls := by
  unfold StoredAt at h ⊢
  have hcur := e.cur
  simp only at hcur
  have hlt : ∀ g, g ∈ s.gLabels → g < s.cursor := fun g hg => by
    obtain ⟨ls', hl⟩ := hw.labs g hg
    exact (nameAt_start hl).2.1
  refine nameAt_frame_gap (a := s.cursor) h ?_ ?_ ?_ (by show s.cursor ≤ s2.cursor; omega)
  · intro g hg hga
    have : g ∈ s.gLabels := by
      rcases e.gnew g hg with h1 | h1
      · exact h1
      · simp only at h1; omega
    obtain ⟨ls', hl⟩ := hw.labs g this
    refine ⟨ls', ?_⟩
    exact nameAt_frame (lo := 0) hl (fun x hx => e.glab x hx) (fun _ _ => Nat.zero_le _)
      (fun i _ hi => e.pre i (by simp only; omega)) (Nat.le_refl _)
  · intro g hg
    rcases e.gnew g hg with h1 | h1
    · left; exact hlt g h1
    · right; simpa using h1
  · intro i hi hor
    show (writeAt s2.octets s.cursor d)[i]? = s2.octets[i]?
    rcases hor with h1 | h1
    · exact writeAt_get_lt _ _ _ _ h1
    · exact writeAt_get_ge _ _ _ _ (by omega)


/-- … nor any chunk-disciplined stored name -/
theorem cstored_patch {s s2 : State} (hw : WInv s) (d : List UInt8) (hd : d.length = 2)
    (e : Ext { s with cursor := s.cursor + 2 } s2) (g : Nat)
    (h : CStored s2 g) :
    CStored { s2 with octets := writeAt s2.octets s.cursor d } g := by
  obtain ⟨ls, h, hb⟩ := h
  refine ⟨ls, ?_, hb⟩
  have hcur := e.cur
  simp only at hcur
  have hlt : ∀ g, g ∈ s.gLabels → g < s.cursor := fun g hg => by
    obtain ⟨ls', hl⟩ := hw.labs g hg
    exact (nameAt_start hl).2.1
  refine nameAtC_frame_gap (a := s.cursor) h ?_ ?_ ?_ (by show s.cursor ≤ s2.cursor; omega)
  · intro g hg hga
    have : g ∈ s.gLabels := by
      rcases e.gnew g hg with h1 | h1
      · exact h1
      · simp only at h1; omega
    obtain ⟨ls', hl⟩ := hw.labs g this
    refine ⟨ls', ?_⟩
    exact nameAt_frame (lo := 0) hl (fun x hx => e.glab x hx) (fun _ _ => Nat.zero_le _)
      (fun i _ hi => e.pre i (by simp only; omega)) (Nat.le_refl _)
  · intro g hg
    rcases e.gnew g hg with h1 | h1
    · left; exact hlt g h1
    · right; simpa using h1
  · intro i hi hor
    show (writeAt s2.octets s.cursor d)[i]? = s2.octets[i]?
    rcases hor with h1 | h1
    · exact writeAt_get_lt _ _ _ _ h1
    · exact writeAt_get_ge _ _ _ _ (by omega)

/-- a hint stays valid along an extension that keeps the anchors and the cursor -/
theorem hintOK_ext {s s' : State} {hint : Hint} {n : WName} (h : HintOK s hint n) (e : Ext s s')
    (hq : s'.qname = s.qname) (ho : s'.mostRecentOwner = s.mostRecentOwner)
    (hr : s'.mostRecentNameInRdata = s.mostRecentNameInRdata) (hc : s'.cursor = s.cursor) :
    HintOK s' hint n := by
  cases hint with
  | qname => intro q hq'; rw [hq] at hq'; exact den_ext e (h q hq')
  | mostRecentOwner => intro q hq'; rw [ho] at hq'; exact den_ext e (h q hq')
  | mostRecentNameInRdata => intro q hq'; rw [hr] at hq'; exact den_ext e (h q hq')
  | explicit p => intro hp; rw [hc] at hp; exact den_ext e (h hp)
  | none => trivial

/-- the owner name of a record: written with its hint, the owner anchor is set to what comes back -/
theorem sp_ownerBlock {track : Prop} {s0 : State} {names loc : List WName} {o : Option Prior}
    {on : Option WName} (hint : Hint) (owner : WName) (hwf : owner.WF) :
    Sp (fun s => RecSt track s0 s names loc o on ∧ HintOK s hint owner)
      (do setCtx .owner
          let p ← writeHintedName hint owner
          setCtx .none
          M.modify fun s => { s with mostRecentOwner := p })
      (fun _ s' => ∃ p, RecSt track s0 s' names [] p (some owner)) := by
  intro s ⟨h, hh⟩
  simp only [M.bind_apply, setCtx, M.modify_apply]
  have e1 := ext_setCtx s .owner
  have h1 : RecSt track s0 { s with gCtx := .owner } names loc o on :=
    recSt_step h e1 (winv_ext h.winv e1 rfl rfl rfl rfl) rfl rfl rfl
  have hh1 : HintOK { s with gCtx := .owner } hint owner := hintOK_ext hh e1 rfl rfl rfl rfl
  have hs := writeHintedName_spec hint owner _ h1.winv hwf hh1
  have hf := frame_writeHintedName hint owner { s with gCtx := .owner }
  have hkv := keepsHv_writeHintedName hint owner { s with gCtx := .owner }
  cases hw : writeHintedName hint owner { s with gCtx := .owner } with
  | mk r s2 =>
    rw [hw] at hs hf hkv
    cases r with
    | panic => exact absurd rfl hs.nopanic
    | err e => exact ⟨by simp, fun a s' hh' => by cases hh'⟩
    | ok p =>
      obtain ⟨hw2, hden, hq, ho, hr, _, _⟩ := hs.ok p rfl
      simp only []
      refine ⟨by simp, fun a s' hh' => ?_⟩
      cases hh'
      have e24 : Ext s2 { s2 with gCtx := NameCtx.none, mostRecentOwner := p } := by
        constructor <;> simp
      have e14 := Ext.trans hf e24
      have w := winv_ext (s' := { s2 with gCtx := NameCtx.none }) hw2 (by constructor <;> simp) rfl rfl rfl rfl
      refine ⟨p, ⟨w.c12, w.cur_av, w.av_size, w.g12, w.labs, w.qn, den_anchorOK hden, w.rd, w.clabs⟩,
        Ext.trans h1.ext e14, fun t => hvTrack_ext (h1.hv t) e14 hkv, (fun n hn => by cases hn), rfl, ?_,
        by show s2.qname = s0.qname; rw [hq]; exact h1.qn,
        ptrLog_ext (hs.log p rfl h1.log) e24 rfl⟩
      intro n hn q hq'
      cases hn
      exact den_ext e24 (hden q hq')

/-- RDLENGTH is reserved, the RDATA written component by component, RDLENGTH written back -/
theorem sp_rdataBlock {track : Prop} {s0 : State} {names : List WName} {o : Option Prior}
    {on : Option WName} (cls ty : Nat) (rd : List UInt8) :
    Sp (fun s => RecSt track s0 s names [] o on)
      (do let av ← M.gets (·.available)
          let rdlengthStart ← M.gets (·.cursor)
          if av < rdlengthStart then M.panic
          else if av - rdlengthStart < 2 then M.fail .Truncation
          else do
            M.modify fun s => { s with cursor := s.cursor + 2 }
            writeRdata cls ty rd
            let cur' ← M.gets (·.cursor)
            if cur' < rdlengthStart + 2 then M.panic
            else write rdlengthStart (u16be ((cur' - rdlengthStart - 2) % 65536)))
      (fun _ s' => RecSt track s0 s' (names ++ rdataNames cls ty rd) (rdataNames cls ty rd) o on) := by
  intro s h
  simp only [M.bind_apply, M.gets_apply]
  have hav := h.winv.cur_av; have hsz := h.winv.av_size
  rw [if_neg (by omega)]
  by_cases hfit : s.available - s.cursor < 2
  · rw [if_pos hfit]; exact ⟨by simp, fun a s' hh => by cases hh⟩
  rw [if_neg hfit]
  simp only [M.bind_apply, M.modify_apply]
  have e1 : Ext s { s with cursor := s.cursor + 2 } := by
    constructor <;> simp
    omega
  have w1 : WInv { s with cursor := s.cursor + 2 } := by
    have w := winv_ext h.winv e1 rfl rfl rfl rfl
    exact ⟨w.c12, by show s.cursor + 2 ≤ s.available; omega, w.av_size, w.g12, w.labs, w.qn, w.ow, w.rd, w.clabs⟩
  have h1 : RecSt track s0 { s with cursor := s.cursor + 2 } names [] o on := recSt_step h e1 w1 rfl rfl rfl
  -- the components
  have hcomp : Sp (fun s => RecSt track s0 s names [] o on) (writeRdata cls ty rd)
      (fun _ s' => RecSt track s0 s' (names ++ rdataNames cls ty rd) (rdataNames cls ty rd) o on) := by
    unfold writeRdata rdataNames
    cases hct : componentTypes cls ty with
    | none => exact absurd hct (by obtain ⟨ts, h⟩ := componentTypes_total cls ty; rw [h]; simp)
    | some ts =>
      simp only []
      have := sp_writeComponents (track := track) (s0 := s0) ts rd names [] o on
      simpa using this
  obtain ⟨hnp, hok⟩ := hcomp _ h1
  have hfr := frame_writeRdata cls ty rd { s with cursor := s.cursor + 2 }
  cases hw : writeRdata cls ty rd { s with cursor := s.cursor + 2 } with
  | mk r s2 =>
    rw [hw] at hnp hfr
    cases r with
    | panic => exact absurd rfl hnp
    | err e => exact ⟨by simp, fun a s' hh => by cases hh⟩
    | ok u =>
      have h2 := hok u s2 hw
      simp only [M.gets_apply]
      have hc2 : s.cursor + 2 ≤ s2.cursor := hfr.cur
      rw [if_neg (by omega)]
      have hsz2 : s2.octets.size = s.octets.size := hfr.size
      have hav2 : s2.available = s.available := hfr.available
      unfold write
      have hlen : (u16be ((s2.cursor - s.cursor - 2) % 65536)).length = 2 := rfl
      rw [if_pos (by rw [hlen, hsz2]; omega)]
      refine ⟨by simp, fun a s' hh => ?_⟩
      cases hh
      refine recSt_patch h2 (fun p ls hst => storedAt_patch h.winv _ hlen hfr p ls hst)
        (fun g hc => cstored_patch h.winv _ hlen hfr g hc) ?_ rfl rfl
        (by simp) rfl rfl rfl rfl rfl rfl
      have := ext_write_above h2.ext s.cursor (u16be ((s2.cursor - s.cursor - 2) % 65536)) h.ext.cur
      unfold write at this
      rw [if_pos (by rw [hlen, hsz2]; omega)] at this
      exact this


theorem sp_exists_lift {α β} {A B : β → State → Prop} {f : M α}
    (h : ∀ p, Sp (A p) f (fun _ s' => B p s')) :
    Sp (fun s => ∃ p, A p s) f (fun _ s' => ∃ p, B p s') := by
  intro s ⟨p, hp⟩
  obtain ⟨a, b⟩ := h p s hp
  exact ⟨a, fun x s' hx => ⟨p, b x s' hx⟩⟩

theorem addRr_eq (hint : Hint) (owner : WName) (ty cls ttl : Nat) (rd : List UInt8) :
    addRr hint owner ty cls ttl rd =
      ((do setCtx .owner
           let p ← writeHintedName hint owner
           setCtx .none
           M.modify fun s => { s with mostRecentOwner := p }) >>= fun _ =>
       tryPushU16 ty >>= fun _ => tryPushU16 cls >>= fun _ => tryPushU32 ttl >>= fun _ =>
       (do let av ← M.gets (·.available)
           let rdlengthStart ← M.gets (·.cursor)
           if av < rdlengthStart then M.panic
           else if av - rdlengthStart < 2 then M.fail .Truncation
           else do
             M.modify fun s => { s with cursor := s.cursor + 2 }
             writeRdata cls ty rd
             let cur' ← M.gets (·.cursor)
             if cur' < rdlengthStart + 2 then M.panic
             else write rdlengthStart (u16be ((cur' - rdlengthStart - 2) % 65536)))) := by
  unfold addRr
  simp only [M.bind_assoc]

/-- **one record.** From a valid state, with a well-formed owner and a valid hint, `add_rr` does
    not panic; on success the state is valid, an extension of the state the call started in,
    the owner anchor denotes the owner, the RDATA anchor the last name inside the RDATA (if any)
    and the `HintPointerVec` the names inside RDATA in order. -/
theorem sp_addRr {track : Prop} {s0 : State} {names : List WName} (hint : Hint) (owner : WName)
    (ty cls ttl : Nat) (rd : List UInt8) (hwf : owner.WF) :
    Sp (fun s => ∃ loc o on, RecSt track s0 s names loc o on ∧ HintOK s hint owner)
      (addRr hint owner ty cls ttl rd)
      (fun _ s' => ∃ p, RecSt track s0 s' (names ++ rdataNames cls ty rd) (rdataNames cls ty rd) p
        (some owner)) := by
  rw [addRr_eq]
  intro s ⟨loc, o, on, h, hh⟩
  refine (sp_bind (R := fun _ s' => ∃ p, RecSt track s0 s' (names ++ rdataNames cls ty rd)
      (rdataNames cls ty rd) p (some owner))
    (sp_ownerBlock (track := track) (s0 := s0) (names := names) (loc := loc) (o := o) (on := on)
      hint owner hwf) fun _ =>
      sp_bind (sp_exists_lift fun p => sp_tryPush_rec (u16be ty)) fun _ =>
      sp_bind (sp_exists_lift fun p => sp_tryPush_rec (u16be cls)) fun _ =>
      sp_bind (sp_exists_lift fun p => sp_tryPush_rec (u32be ttl)) fun _ =>
      sp_exists_lift fun p => sp_rdataBlock cls ty rd) s ⟨h, hh⟩


theorem recSt_ownerHint {track : Prop} {s0 s : State} {names loc : List WName} {p : Option Prior}
    {owner : WName} (h : RecSt track s0 s names loc p (some owner)) : HintOK s .mostRecentOwner owner := by
  intro q hq
  rw [h.own] at hq
  exact h.ownDen owner rfl q hq

/-- **an RRset**: one record after the other, the later ones with `Hint::MostRecentOwner` -/
theorem sp_addRrset {track : Prop} {s0 : State} (owner : WName) (ty cls ttl : Nat) (hwf : owner.WF) :
    ∀ (rds : List (List UInt8)) (hint : Hint) (n : Nat) (names : List WName) (on0 : Option WName),
    Sp (fun s => ∃ loc o, RecSt track s0 s names loc o on0 ∧ HintOK s hint owner)
      (addRrset hint owner ty cls ttl rds n)
      (fun _ s' => ∃ loc p on, RecSt track s0 s' (names ++ rds.flatMap (rdataNames cls ty)) loc p on ∧
        (rds ≠ [] → on = some owner) ∧ (rds = [] → on = on0)) := by
  intro rds
  induction rds with
  | nil =>
    intro hint n names on0
    unfold addRrset
    intro s ⟨loc, o, h, _⟩
    exact ⟨by simp, fun a s' hh => by
      cases hh; exact ⟨loc, o, on0, by simpa using h, fun h => absurd rfl h, fun _ => rfl⟩⟩
  | cons rd rds ih =>
    intro hint n names on0
    unfold addRrset
    refine sp_bind (sp_weaken (sp_addRr hint owner ty cls ttl rd hwf)
      (fun s ⟨loc, o, h, hh⟩ => ⟨loc, o, on0, h, hh⟩) (fun _ _ h => h)) fun _ => ?_
    have := ih .mostRecentOwner (n + 1) (names ++ rdataNames cls ty rd) (some owner)
    refine sp_weaken this ?_ ?_
    · intro s ⟨p, h⟩
      exact ⟨_, p, h, recSt_ownerHint h⟩
    · intro a s ⟨loc, p, on, h, hon, hon0⟩
      refine ⟨loc, p, on, by simpa [List.append_assoc] using h, fun _ => ?_, fun h => by cases h⟩
      cases rds with
      | nil => exact hon0 rfl
      | cons _ _ => exact hon (by simp)


end QV.Writer
