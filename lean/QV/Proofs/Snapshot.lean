/-
  QV.Proofs.Snapshot — the inductive invariant behind C32.
-/
import QV.Model.Snapshot
import QV.Spec.Snapshot

namespace QV.Snapshot
open QV.Spec.Snapshot

variable {C K Req Resp : Type}

/-- per-handler invariant: every value a handler holds is a value of the timeline at the recorded
    version, and that version is not older than the handler's start -/
def HOk (f : C → Option K → Req → Resp) (s : State C K Req Resp) (h : Handler C K Req Resp) : Prop :=
  h.catLo < s.catHist.length ∧ h.keyLo < s.keyHist.length ∧
  match h.pc with
  | .start => True
  | .gotCat c ci => s.catHist[ci]? = some c ∧ h.catLo ≤ ci
  | .gotKeys c ci k ki => s.catHist[ci]? = some c ∧ h.catLo ≤ ci ∧ s.keyHist[ki]? = some k ∧ h.keyLo ≤ ki
  | .done r c ci ko ce ke =>
      s.catHist[ci]? = some c ∧ h.catLo ≤ ci ∧ ci ≤ ce ∧ ce < s.catHist.length ∧ ke < s.keyHist.length ∧
      match ko with
      | none => r = f c none h.req
      | some (k, ki) => r = f c (some k) h.req ∧ s.keyHist[ki]? = some k ∧ h.keyLo ≤ ki ∧ ki ≤ ke

structure Inv (f : C → Option K → Req → Resp) (s : State C K Req Resp) : Prop where
  catLast : s.catHist.getLast? = some s.cat
  keyLast : s.keyHist.getLast? = some s.keys
  hs : ∀ h ∈ s.hs, HOk f s h

theorem getLast?_eq_getElem? {α} (l : List α) : l.getLast? = l[l.length - 1]? := by
  cases l with
  | nil => simp
  | cons a t => simp [List.getLast?_eq_getElem?]

theorem length_pos_of_getLast? {α} {l : List α} {a : α} (h : l.getLast? = some a) : 0 < l.length := by
  cases l with
  | nil => simp at h
  | cons _ _ => simp

/-- appending to the timelines keeps every handler's facts -/
theorem HOk_mono (f : C → Option K → Req → Resp) (s : State C K Req Resp) (h : Handler C K Req Resp)
    (cs : List C) (ks : List K) (c' : C) (k' : K) (hok : HOk f s h) :
    HOk f { s with cat := c', keys := k', catHist := s.catHist ++ cs, keyHist := s.keyHist ++ ks } h := by
  obtain ⟨h1, h2, h3⟩ := hok
  have e1 : ∀ (i : Nat) (c : C), s.catHist[i]? = some c → (s.catHist ++ cs)[i]? = some c := by
    intro i c hc
    have : i < s.catHist.length := by
      rcases Nat.lt_or_ge i s.catHist.length with h | h
      · exact h
      · rw [List.getElem?_eq_none h] at hc; cases hc
    rw [List.getElem?_append_left this]; exact hc
  have e2 : ∀ (i : Nat) (k : K), s.keyHist[i]? = some k → (s.keyHist ++ ks)[i]? = some k := by
    intro i k hk
    have : i < s.keyHist.length := by
      rcases Nat.lt_or_ge i s.keyHist.length with h | h
      · exact h
      · rw [List.getElem?_eq_none h] at hk; cases hk
    rw [List.getElem?_append_left this]; exact hk
  refine ⟨by simp; omega, by simp; omega, ?_⟩
  cases hp : h.pc with
  | start => simp
  | gotCat c ci => rw [hp] at h3; exact ⟨e1 _ _ h3.1, h3.2⟩
  | gotKeys c ci k ki => rw [hp] at h3; exact ⟨e1 _ _ h3.1, h3.2.1, e2 _ _ h3.2.2.1, h3.2.2.2⟩
  | done r c ci ko ce ke =>
    rw [hp] at h3
    obtain ⟨a, b, c1, d, e, g⟩ := h3
    refine ⟨e1 _ _ a, b, c1, by simp; omega, by simp; omega, ?_⟩
    cases ko with
    | none => exact g
    | some p => obtain ⟨k, ki⟩ := p; exact ⟨g.1, e2 _ _ g.2.1, g.2.2⟩

theorem HOk_same (f : C → Option K → Req → Resp) (s : State C K Req Resp) (h : Handler C K Req Resp)
    (hs' : List (Handler C K Req Resp)) (hok : HOk f s h) : HOk f { s with hs := hs' } h := hok

theorem inv_init (f : C → Option K → Req → Resp) (c0 : C) (k0 : K) : Inv f (init c0 k0 : State C K Req Resp) :=
  ⟨rfl, rfl, by intro h hm; simp [init] at hm⟩

theorem cur_cat {f : C → Option K → Req → Resp} {s : State C K Req Resp} (inv : Inv f s) :
    s.catHist[s.catVer]? = some s.cat ∧ s.catVer < s.catHist.length := by
  have := inv.catLast
  rw [getLast?_eq_getElem?] at this
  exact ⟨this, by have := length_pos_of_getLast? inv.catLast; unfold State.catVer; omega⟩

theorem cur_keys {f : C → Option K → Req → Resp} {s : State C K Req Resp} (inv : Inv f s) :
    s.keyHist[s.keyVer]? = some s.keys ∧ s.keyVer < s.keyHist.length := by
  have := inv.keyLast
  rw [getLast?_eq_getElem?] at this
  exact ⟨this, by have := length_pos_of_getLast? inv.keyLast; unfold State.keyVer; omega⟩

theorem idx_lt {α} {l : List α} {i : Nat} {a : α} (h : l[i]? = some a) : i < l.length := by
  rcases Nat.lt_or_ge i l.length with h' | h'
  · exact h'
  · rw [List.getElem?_eq_none h'] at h; cases h

/-- the invariant is inductive -/
theorem inv_step {f : C → Option K → Req → Resp} {s s' : State C K Req Resp}
    (inv : Inv f s) (st : Step f s s') : Inv f s' := by
  have hc := cur_cat inv
  have hk := cur_keys inv
  cases st with
  | spawn req =>
    refine ⟨inv.catLast, inv.keyLast, ?_⟩
    intro h hm
    rcases List.mem_append.mp hm with hm | hm
    · exact inv.hs h hm
    · simp at hm; subst hm
      exact ⟨hc.2, hk.2, trivial⟩
  | readCat i h hi hp =>
    refine ⟨inv.catLast, inv.keyLast, ?_⟩
    intro h' hm
    rcases List.mem_or_eq_of_mem_set hm with hm | rfl
    · exact inv.hs h' hm
    · have ho := inv.hs h (List.mem_of_getElem? hi)
      exact ⟨ho.1, ho.2.1, hc.1, by have := ho.1; show h.catLo ≤ s.catVer; unfold State.catVer; omega⟩
  | readKeys i h c ci hi hp =>
    refine ⟨inv.catLast, inv.keyLast, ?_⟩
    intro h' hm
    rcases List.mem_or_eq_of_mem_set hm with hm | rfl
    · exact inv.hs h' hm
    · have ho := inv.hs h (List.mem_of_getElem? hi)
      obtain ⟨a, b, d⟩ := ho
      rw [hp] at d
      exact ⟨a, b, d.1, d.2, hk.1, by show h.keyLo ≤ s.keyVer; unfold State.keyVer; omega⟩
  | respondNoKeys i h c ci hi hp =>
    refine ⟨inv.catLast, inv.keyLast, ?_⟩
    intro h' hm
    rcases List.mem_or_eq_of_mem_set hm with hm | rfl
    · exact inv.hs h' hm
    · have ho := inv.hs h (List.mem_of_getElem? hi)
      obtain ⟨a, b, d⟩ := ho
      rw [hp] at d
      have := idx_lt d.1
      exact ⟨a, b, d.1, d.2, by unfold State.catVer; omega, hc.2, hk.2, rfl⟩
  | respondKeys i h c ci k ki hi hp =>
    refine ⟨inv.catLast, inv.keyLast, ?_⟩
    intro h' hm
    rcases List.mem_or_eq_of_mem_set hm with hm | rfl
    · exact inv.hs h' hm
    · have ho := inv.hs h (List.mem_of_getElem? hi)
      obtain ⟨a, b, d⟩ := ho
      rw [hp] at d
      have := idx_lt d.1
      have := idx_lt d.2.2.1
      exact ⟨a, b, d.1, d.2.1, by unfold State.catVer; omega, hc.2, hk.2, rfl, d.2.2.1, d.2.2.2,
        by unfold State.keyVer; omega⟩
  | setCat g =>
    refine ⟨by simp, inv.keyLast, ?_⟩
    intro h hm
    have := HOk_mono f s h [g] [] g s.keys (inv.hs h hm)
    simpa using this
  | setKeys k =>
    refine ⟨inv.catLast, by simp, ?_⟩
    intro h hm
    have := HOk_mono f s h [] [k] s.cat k (inv.hs h hm)
    simpa using this

theorem inv_reachable {f : C → Option K → Req → Resp} {c0 : C} {k0 : K} {s : State C K Req Resp}
    (r : Reachable f c0 k0 s) : Inv f s := by
  induction r with
  | init => exact inv_init f c0 k0
  | step _ st ih => exact inv_step ih st

end QV.Snapshot
