/-
  QV.Proofs.HmacLen — output sizes of the Lean SHA-1 / SHA-256 / HMAC re-implementations, for all
  inputs: the final state is serialised as 5 resp. 8 big-endian 32-bit words.
-/
import QV.Model.Tsig

namespace QV.Sha

@[simp] theorem pushWord_size (out : Bytes) (w : UInt32) : (pushWord out w).size = out.size + 4 := by
  simp [pushWord]

theorem sha1_size (msg : Bytes) : (sha1 msg).size = 20 := by
  simp [sha1]

theorem sha256_size (msg : Bytes) : (sha256 msg).size = 32 := by
  simp [sha256]

end QV.Sha

namespace QV.Hmac

theorem hash_size (alg : Alg) (msg : Bytes) : (alg.hash msg).size = alg.outputSize := by
  cases alg
  · exact Sha.sha1_size msg
  · exact Sha.sha256_size msg

/-- HMAC tags have the output size of the hash, for every key and message -/
theorem hmac_size (alg : Alg) (key msg : Bytes) : (hmac alg key msg).size = alg.outputSize := by
  unfold hmac hmacWith
  exact hash_size alg _

end QV.Hmac

namespace QV.Tsig

/-- the MAC primitive of the real code returns tags of `Algorithm::output_size()` octets
    (20 for HMAC-SHA1, 32 for HMAC-SHA256), for all inputs -/
theorem realHmac_length (alg : Algorithm) (key data : Octets) :
    (realHmac alg key data).length = alg.outputSize := by
  unfold realHmac
  rw [Array.length_toList]
  exact Hmac.hmac_size alg _ _

end QV.Tsig
