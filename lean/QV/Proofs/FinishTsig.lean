/-
  QV.Proofs.FinishTsig — `Writer.finish` read backwards, in every compression mode, with a pending
  TSIG record:

      finished message = octets below the cursor (four counts patched)
                         ++ OPT record             (iff the EDNS slot is set)
                         ++ TSIG record            (iff the TSIG slot is set)

  where the TSIG record is  owner ++ TYPE 250 ++ CLASS 255 ++ TTL 0 ++ RDLENGTH ++ RDATA  with the
  RDATA of RFC 8945 §4.2 built from the recorded `TsigRr` and the MAC `macFn ts m`, `m` being exactly
  the octets that precede the TSIG record in the finished message; `owner` is what
  `write_hinted_name(Hint::None, key_name)` wrote — the key name literally, or (compression enabled)
  a literal prefix of it followed by a pointer (`ownerEnc_shape`).

  Nothing is assumed about the state except that `finish` succeeds; there is no layout or mode
  hypothesis (`Proofs/WriterFinish.finish_bytes` is the `Disabled`-mode statement over a layout).
-/
import QV.Proofs.FinishInv
import QV.Proofs.WriterFinish

namespace QV.Writer
open QV QV.Wire

/-! ### appended octets, read off the buffer -/

theorem appB_of_ext {s s' : State} (e : Ext s s') (hsz : s'.cursor ≤ s'.octets.size) :
    AppB s s' (s'.octets.extract s.cursor s'.cursor).toList := by
  have hc := e.cur
  have hl : (s'.octets.extract s.cursor s'.cursor).toList.length = s'.cursor - s.cursor := by
    simp only [Array.length_toList, Array.size_extract]; omega
  refine ⟨by rw [hl]; omega, ?_, e.pre, e.mode⟩
  intro i hi
  rw [hl] at hi
  rw [Array.getElem?_toList, Array.getElem?_extract]
  rw [if_pos (by omega)]

theorem appB_tryPush {d : List UInt8} {s s' : State} {u : Unit} (h : tryPush d s = (.ok u, s')) :
    AppB s s' d ∧ s'.cursor ≤ s'.octets.size ∧ s'.octets.size = s.octets.size ∧
    s'.available = s.available ∧ s'.cursor ≤ s'.available := by
  obtain ⟨r1, r2, r3, r4, r5⟩ := tryPush_inv h
  rw [tryPush_ok d s r1 r2] at h
  simp only [Prod.mk.injEq] at h
  obtain ⟨_, rfl⟩ := h
  refine ⟨⟨rfl, bytesAt_writeAt _ _ _ r2, fun i hi => writeAt_get_lt _ _ _ _ hi, rfl⟩, ?_, by simp, rfl, r1⟩
  simp only [writeAt_size]; exact r2

theorem AppB.size_le {s s' : State} {d : List UInt8} (_ : AppB s s' d) : True := trivial

/-- what `write_hinted_name(hint, n)` appended when it was called in state `s` (with the ghost
    context set to `owner`, as `add_rr` does) -/
def NameEnc (s : State) (hint : Hint) (n : WName) (oe : List UInt8) : Prop :=
  ∃ p s1, writeHintedName hint n { s with gCtx := .owner } = (.ok p, s1) ∧
    oe = (s1.octets.extract s.cursor s1.cursor).toList

/-- **one record without names in its RDATA, any compression mode**: on success `add_rr` has appended
    the owner as `write_hinted_name` encoded it, TYPE, CLASS, TTL, RDLENGTH and the RDATA verbatim -/
theorem appB_addRr_plain (hint : Hint) (owner : WName) (ty cls ttl : Nat) (rd : List UInt8)
    (hty : componentTypes cls ty = some []) (s s' : State) (u : Unit)
    (h : addRr hint owner ty cls ttl rd s = (.ok u, s')) :
    ∃ oe, NameEnc s hint owner oe ∧
      AppB s s' (oe ++ (u16be ty ++ u16be cls ++ u32be ttl ++ u16be (rd.length % 65536) ++ rd)) ∧
      s'.octets.size = s.octets.size ∧ s'.cursor ≤ s'.octets.size := by
  rw [addRr_v0] at h; unfold V0.addRr at h
  obtain ⟨_, sA, hA, h⟩ := bind_ok_inv h
  have eA : sA = { s with gCtx := .owner } := by cases hA; rfl
  subst eA
  obtain ⟨p, s1, h1, h⟩ := bind_ok_inv h
  have x1 := frame_writeHintedName hint owner { s with gCtx := .owner }
  rw [h1] at x1
  obtain ⟨_, s2, h2, h⟩ := bind_ok_inv h
  have e2 : s2 = { s1 with gCtx := .none } := by cases h2; rfl
  subst e2
  obtain ⟨_, s3, h3, h⟩ := bind_ok_inv h
  have e3 : s3 = { s1 with gCtx := .none, mostRecentOwner := p } := by cases h3; rfl
  subst e3
  obtain ⟨_, s5, h5, h⟩ := bind_ok_inv h
  obtain ⟨a5, z5, q5, v5, w5⟩ := appB_tryPush h5
  obtain ⟨_, s6, h6, h⟩ := bind_ok_inv h
  obtain ⟨a6, z6, q6, v6, w6⟩ := appB_tryPush h6
  obtain ⟨_, s7, h7, h⟩ := bind_ok_inv h
  obtain ⟨a7, z7, q7, v7, w7⟩ := appB_tryPush h7
  rw [bind_ok (get_apply _)] at h
  split at h
  · cases h
  · split at h
    · cases h
    · rename_i ha hb
      obtain ⟨_, s8, h8, h⟩ := bind_ok_inv h
      have e8 : s8 = { s7 with cursor := s7.cursor + 2 } := by cases h8; rfl
      subst e8
      rw [show V0.componentTypes cls ty = [] by simp [V0.componentTypes, hty]] at h
      obtain ⟨_, s9, h9, h⟩ := bind_ok_inv h
      rw [bind_ok (get_apply _)] at h
      split at h
      · cases h
      · obtain ⟨hw1, hw2⟩ := write_inv h
        -- the RDATA, pushed verbatim two octets above the RDLENGTH slot
        have k9 : s9.cursor = s7.cursor + 2 + rd.length ∧ s9.octets = writeAt s7.octets (s7.cursor + 2) rd ∧
            s7.cursor + 2 + rd.length ≤ s7.octets.size ∧ s9.mode = s7.mode := by
          unfold writeComponents at h9
          by_cases hre : rd.isEmpty = true
          · rw [if_pos hre] at h9
            have : rd = [] := List.isEmpty_iff.mp hre
            subst this
            cases h9
            refine ⟨rfl, rfl, ?_, rfl⟩
            simp only [List.length_nil, Nat.add_zero]
            rw [u16be_length] at hw1
            exact hw1
          · rw [if_neg hre] at h9
            obtain ⟨r1, r2, r3, r4, r5⟩ := tryPush_inv h9
            rw [tryPush_ok rd _ r1 r2] at h9
            simp only [Prod.mk.injEq] at h9
            obtain ⟨_, rfl⟩ := h9
            exact ⟨rfl, rfl, r2, rfl⟩
        obtain ⟨k1, k2, k3, k4⟩ := k9
        have hlen : (s9.cursor - s7.cursor - 2) % 65536 = rd.length % 65536 := by
          rw [k1]; congr 1; omega
        rw [hlen, k2] at hw2
        -- the block RDLENGTH ++ RDATA
        have a8 : AppB s7 s' (u16be (rd.length % 65536) ++ rd) := by
          have hl2 : (u16be (rd.length % 65536)).length = 2 := rfl
          refine ⟨?_, ?_, ?_, ?_⟩
          · rw [hw2]; show s9.cursor = _
            rw [k1, List.length_append, hl2]; omega
          · rw [hw2]
            show BytesAt (writeAt (writeAt s7.octets (s7.cursor + 2) rd) s7.cursor (u16be (rd.length % 65536)))
              s7.cursor _
            refine bytesAt_append_intro (bytesAt_writeAt _ _ _ (by rw [writeAt_size, hl2]; omega)) ?_
            rw [hl2]
            refine bytesAt_frame (bytesAt_writeAt s7.octets (s7.cursor + 2) rd k3) fun i hi _ => ?_
            exact writeAt_get_ge _ _ _ _ (by rw [hl2]; exact hi)
          · intro i hi
            rw [hw2]
            show (writeAt (writeAt s7.octets (s7.cursor + 2) rd) s7.cursor (u16be (rd.length % 65536)))[i]? = _
            rw [writeAt_get_lt _ _ _ _ hi, writeAt_get_lt _ _ _ _ (by omega)]
          · rw [hw2]; exact k4
        -- the owner
        have hz1 : s1.cursor ≤ s1.octets.size := by
          have c5 : s5.cursor = s1.cursor + 2 := a5.cur
          have q5' : s5.octets.size = s1.octets.size := q5
          omega
        have a1 : AppB s ({ s1 with gCtx := NameCtx.none, mostRecentOwner := p } : State)
            (s1.octets.extract s.cursor s1.cursor).toList := by
          have := appB_of_ext x1 hz1
          exact ⟨this.cur, this.bytes, this.pre, this.mode⟩
        refine ⟨_, ⟨p, s1, h1, rfl⟩, ?_, ?_, ?_⟩
        · have := AppB.trans a1 (AppB.trans a5 (AppB.trans a6 (AppB.trans a7 a8)))
          simpa only [List.append_assoc] using this
        · rw [hw2]
          show (writeAt (writeAt s7.octets _ _) _ _).size = _
          rw [writeAt_size, writeAt_size, q7, q6, q5]
          exact x1.size
        · rw [hw2]
          show s9.cursor ≤ (writeAt (writeAt s7.octets _ _) _ _).size
          rw [writeAt_size, writeAt_size, k1]
          exact k3

/-! ### what `write_hinted_name` appends -/

theorem writeUncompressedName_bytes {n : WName} {s s1 : State} {p : Option Prior}
    (h : writeUncompressedName n s = (.ok p, s1)) :
    s1.octets = writeAt s.octets s.cursor n.wire ∧ s1.cursor = s.cursor + n.wire.length ∧
    s.cursor + n.wire.length ≤ s.octets.size := by
  rw [writeUncompressedName_v0] at h; unfold V0.writeUncompressedName at h
  rcases ht : tryPush n.wire s with ⟨(a | e | _), sx⟩
  · rw [ht] at h
    obtain ⟨r1, r2, _⟩ := tryPush_inv ht
    rw [tryPush_ok _ _ r1 r2] at ht
    simp only [Prod.mk.injEq] at ht
    obtain ⟨_, rfl⟩ := ht
    simp only [ghostLabels, modify_apply, Prod.mk.injEq] at h
    obtain ⟨_, rfl⟩ := h
    exact ⟨rfl, rfl, r2⟩
  · rw [ht] at h; cases h
  · rw [ht] at h; cases h

theorem extract_writeAt_self (a : Bytes) (c : Nat) (d : List UInt8) (h : c + d.length ≤ a.size) :
    ((writeAt a c d).extract c (c + d.length)).toList = d :=
  bytesAt_extract (bytesAt_writeAt a c d h)

theorem pushPointer_bytes {pp : Nat} {s s1 : State} {u : Unit} (h : pushPointer pp s = (.ok u, s1)) :
    s1.octets = writeAt s.octets s.cursor (u16be (49152 + pp)) ∧ s1.cursor = s.cursor + 2 ∧
    s.cursor + 2 ≤ s.octets.size := by
  rw [pushPointer_v0] at h; unfold V0.pushPointer at h
  rcases ht : tryPushU16 (49152 + pp) s with ⟨(a | e | _), sx⟩
  · rw [ht] at h
    unfold tryPushU16 at ht
    obtain ⟨r1, r2, _⟩ := tryPush_inv ht
    rw [tryPush_ok _ _ r1 r2] at ht
    simp only [Prod.mk.injEq] at ht
    obtain ⟨_, rfl⟩ := ht
    simp only [Prod.mk.injEq] at h
    obtain ⟨_, rfl⟩ := h
    exact ⟨rfl, rfl, r2⟩
  · rw [ht] at h; cases h
  · rw [ht] at h; cases h

/-- the three shapes of a name on the wire: literal; a pointer; a literal prefix of the labels and a
    pointer (RFC 1035 §4.1.4) -/
inductive NameShape (n : WName) : List UInt8 → Prop
  | literal : NameShape n n.wire
  | pointer (pp : Nat) : NameShape n (u16be (49152 + pp))
  | prefixPointer (k pp : Nat) (hk : k < n.len) :
      NameShape n ((n.labels.take k).flatMap WName.encLabel ++ u16be (49152 + pp))

theorem writeCompressedUnhintedName_shape {n : WName} {s s1 : State} {p : Option Prior}
    (h : writeCompressedUnhintedName n s = (.ok p, s1)) :
    NameShape n (s1.octets.extract s.cursor s1.cursor).toList := by
  rw [writeCompressedUnhintedName_v0] at h; unfold V0.writeCompressedUnhintedName at h
  split at h
  · cases h
  · cases h
  · obtain ⟨h1, h2, h3⟩ := writeUncompressedName_bytes h
    rw [h1, h2, extract_writeAt_self _ _ _ h3]
    exact .literal
  · rename_i m hdec
    have hcol : m.startColumn < n.labels.length := compressDecision_col hdec
    split at h
    · rcases hp : pushPointer m.priorPointer s with ⟨(a | e | _), sx⟩
      · rw [hp] at h
        simp only [Prod.mk.injEq] at h
        obtain ⟨_, rfl⟩ := h
        obtain ⟨h1, h2, h3⟩ := pushPointer_bytes hp
        rw [h1, h2, show s.cursor + 2 = s.cursor + (u16be (49152 + m.priorPointer)).length from rfl,
          extract_writeAt_self _ _ _ h3]
        exact .pointer _
      · rw [hp] at h; cases h
      · rw [hp] at h; cases h
    · rename_i hcol
      rcases ht : tryPush (n.wireTo m.startColumn) s with ⟨(a | e | _), sx⟩
      · rw [ht] at h
        obtain ⟨r1, r2, _⟩ := tryPush_inv ht
        rw [tryPush_ok _ _ r1 r2] at ht
        simp only [Prod.mk.injEq] at ht
        obtain ⟨_, rfl⟩ := ht
        simp only [ghostLabels, modify_apply] at h
        rcases hp : pushPointer m.priorPointer _ with ⟨(a | e | _), sy⟩
        · rw [hp] at h
          simp only [Prod.mk.injEq] at h
          obtain ⟨_, rfl⟩ := h
          obtain ⟨h1, h2, h3⟩ := pushPointer_bytes hp
          simp only at h1 h2 h3
          rw [h1, h2]
          have hl2 : (u16be (49152 + m.priorPointer)).length = 2 := rfl
          have hb := bytesAt_two s.octets s.cursor (n.wireTo m.startColumn) (u16be (49152 + m.priorPointer))
            (by rw [hl2]; rw [writeAt_size] at h3; exact h3)
          have := bytesAt_extract hb
          rw [List.length_append, hl2, ← Nat.add_assoc] at this
          rw [this]
          by_cases hk : m.startColumn ≥ n.len
          · exact absurd hcol (by unfold WName.len at hk; omega)
          · unfold WName.wireTo
            rw [if_neg hk]
            exact .prefixPointer _ _ (by omega)
        · rw [hp] at h; cases h
        · rw [hp] at h; cases h
      · rw [ht] at h; cases h
      · rw [ht] at h; cases h

theorem nameEnc_literal {s : State} {hint : Hint} {n : WName} {oe : List UInt8}
    (hm : s.mode = .disabled ∨ n.wire.length ≤ 2) (h : NameEnc s hint n oe) : oe = n.wire := by
  obtain ⟨p, s1, h1, rfl⟩ := h
  rw [writeHintedName_v0] at h1; unfold V0.writeHintedName at h1
  rw [if_pos hm] at h1
  obtain ⟨k1, k2, k3⟩ := writeUncompressedName_bytes h1
  rw [k1, k2]
  exact extract_writeAt_self _ _ _ k3

theorem nameEnc_none_shape {s : State} {n : WName} {oe : List UInt8} (h : NameEnc s .none n oe) :
    NameShape n oe := by
  by_cases hm : s.mode = .disabled ∨ n.wire.length ≤ 2
  · rw [nameEnc_literal hm h]; exact .literal
  · obtain ⟨p, s1, h1, rfl⟩ := h
    rw [writeHintedName_v0] at h1; unfold V0.writeHintedName at h1
    rw [if_neg hm] at h1
    split at h1
    · exact writeCompressedUnhintedName_shape (s := { s with gCtx := .owner }) h1
    · simp only at h1
      exact writeCompressedUnhintedName_shape (s := { s with gCtx := .owner }) h1

/-! ### the three parts of `finish_with_mac` -/

/-- the OPT record, in every mode (its owner is the root: never compressed) -/
theorem appB_finishOpt_any (edns : Option Edns) (s s' : State) (h : finishOpt edns s = (.ok (), s')) :
    AppB s s' (optEnc edns) ∧ s'.octets.size = s.octets.size ∧ s'.tsig = s.tsig := by
  unfold finishOpt at h
  cases edns with
  | none => simp only [M.pure_apply] at h; cases h; exact ⟨AppB.refl s, rfl, rfl⟩
  | some e =>
    simp only at h
    obtain ⟨_, s1, h1, h⟩ := bind_ok_inv h
    have e1 : s1 = { s with available := s.available + Gen.OPT_RECORD_SIZE } := by cases h1; rfl
    subst e1
    have h := unwrap_ok_inv h
    have hx := frame_addRr .none WName.root T_OPT e.payload ((e.upper * 16777216) % 4294967296) []
      { s with available := s.available + Gen.OPT_RECORD_SIZE }
    rw [h] at hx
    obtain ⟨oe, hoe, a, hz, _⟩ := appB_addRr_plain .none WName.root T_OPT e.payload
      ((e.upper * 16777216) % 4294967296) [] (by rw [T_OPT_eq]; exact componentTypes_opt41 _) _ _ _ h
    have : oe = WName.root.wire := nameEnc_literal (Or.inr (by rw [root_wire]; decide)) hoe
    subst this
    refine ⟨?_, hz, hx.tsig⟩
    unfold optEnc encRR
    have hl : ([] : List UInt8).length % 65536 = 0 := rfl
    rw [hl] at a
    have e0 : ([] : List UInt8).length % 65536 = 0 := rfl
    simp only [List.append_assoc, e0] at a ⊢
    exact ⟨a.cur, a.bytes, a.pre, a.mode⟩

theorem T_TSIG_eq : T_TSIG = 250 := by decide
theorem QC_ANY_eq' : QC_ANY = 255 := by decide

/-- the TSIG record `finish` appends, with `oe` the encoding of the owner -/
def tsigRecordOctets (oe : List UInt8) (ts : Tsig) (mac : Option (List UInt8)) : List UInt8 :=
  oe ++ (u16be T_TSIG ++ u16be QC_ANY ++ u32be (ttlFrom 0) ++
    u16be ((tsigRdata ts.rr (tsigAlgName ts.mode) (mac.getD [])).length % 65536) ++
    tsigRdata ts.rr (tsigAlgName ts.mode) (mac.getD []))

/-- the MAC `finish` computes: none in `Unsigned` mode, otherwise `macFn` applied to the message so far -/
def finishMac (macFn : Tsig → List UInt8 → List UInt8) (ts : Tsig) (message : List UInt8) :
    Option (List UInt8) :=
  match ts.mode with
  | .unsigned _ => none
  | _ => some (macFn ts message)

theorem appB_tsigTail_any (ts : Tsig) (mac : Option (List UInt8)) (s s' : State)
    (r : Nat × Option (List UInt8))
    (h : (do
      M.modify fun s => { s with tsig := none, available := s.available + ts.reservedLen }
      unwrap (addRr .none ts.rr.keyName T_TSIG QC_ANY (ttlFrom 0)
        (tsigRdata ts.rr (tsigAlgName ts.mode) (mac.getD [])))
      let len ← M.gets (·.cursor)
      pure (len, mac) : M (Nat × Option (List UInt8))) s = (.ok r, s')) :
    ∃ oe, NameEnc { s with tsig := none, available := s.available + ts.reservedLen } .none ts.rr.keyName oe ∧
      AppB s s' (tsigRecordOctets oe ts mac) ∧ r = (s'.cursor, mac) ∧ s'.octets.size = s.octets.size ∧
      s'.cursor ≤ s'.octets.size := by
  simp only [M.bind_apply, M.modify_apply] at h
  unfold unwrap at h
  rcases ha : addRr .none ts.rr.keyName T_TSIG QC_ANY (ttlFrom 0)
      (tsigRdata ts.rr (tsigAlgName ts.mode) (mac.getD []))
      { s with tsig := none, available := s.available + ts.reservedLen } with ⟨(u | e | _), s1⟩
  · rw [ha] at h
    simp only [M.gets_apply, M.pure_apply, Prod.mk.injEq, Out.ok.injEq] at h
    obtain ⟨rfl, rfl⟩ := h
    obtain ⟨oe, hoe, a, hz, hcz⟩ := appB_addRr_plain .none ts.rr.keyName T_TSIG QC_ANY (ttlFrom 0) _
      (componentTypes_tsig _) _ _ _ ha
    exact ⟨oe, hoe, ⟨a.cur, a.bytes, a.pre, a.mode⟩, rfl, hz, hcz⟩
  · rw [ha] at h; cases h
  · rw [ha] at h; cases h

theorem appB_finishTsig_any (macFn : Tsig → List UInt8 → List UInt8) (ts : Tsig) (s s' : State)
    (r : Nat × Option (List UInt8)) (h : finishTsig macFn (some ts) s = (.ok r, s')) :
    ∃ oe, NameEnc { s with tsig := none, available := s.available + ts.reservedLen } .none ts.rr.keyName oe ∧
      s.cursor ≤ s.octets.size ∧
      r.2 = finishMac macFn ts (s.octets.extract 0 s.cursor).toList ∧
      AppB s s' (tsigRecordOctets oe ts r.2) ∧ r.1 = s'.cursor ∧ s'.octets.size = s.octets.size ∧
      s'.cursor ≤ s'.octets.size := by
  unfold finishTsig at h
  simp only [M.bind_apply, M.gets_apply] at h
  by_cases hc : s.cursor > s.octets.size
  · rw [if_pos hc] at h; cases h
  rw [if_neg hc] at h
  simp only [] at h
  cases hmode : ts.mode with
  | request a k =>
    rw [hmode] at h
    simp only [] at h
    obtain ⟨oe, h1, h2, h3, h4, h5⟩ := appB_tsigTail_any ts (some (macFn ts (s.octets.extract 0 s.cursor).toList))
      s s' r (by rw [hmode]; exact h)
    rw [h3]
    exact ⟨oe, h1, by omega, by simp [finishMac, hmode], h2, rfl, h4, h5⟩
  | response a m k =>
    rw [hmode] at h
    simp only [] at h
    obtain ⟨oe, h1, h2, h3, h4, h5⟩ := appB_tsigTail_any ts (some (macFn ts (s.octets.extract 0 s.cursor).toList))
      s s' r (by rw [hmode]; exact h)
    rw [h3]
    exact ⟨oe, h1, by omega, by simp [finishMac, hmode], h2, rfl, h4, h5⟩
  | subsequent a m k =>
    rw [hmode] at h
    simp only [] at h
    obtain ⟨oe, h1, h2, h3, h4, h5⟩ := appB_tsigTail_any ts (some (macFn ts (s.octets.extract 0 s.cursor).toList))
      s s' r (by rw [hmode]; exact h)
    rw [h3]
    exact ⟨oe, h1, by omega, by simp [finishMac, hmode], h2, rfl, h4, h5⟩
  | unsigned n =>
    rw [hmode] at h
    simp only [] at h
    obtain ⟨oe, h1, h2, h3, h4, h5⟩ := appB_tsigTail_any ts none s s' r (by rw [hmode]; exact h)
    rw [h3]
    exact ⟨oe, h1, by omega, by simp [finishMac, hmode], h2, rfl, h4, h5⟩

/-! ### `finish` -/

/-- the octets below the cursor with the four counts patched in -/
def finishPrefix (s : State) : List UInt8 :=
  s.octets.toList.take 4 ++ (u16be s.qdcount ++ u16be s.ancount ++ u16be s.nscount ++ u16be s.arcount) ++
    (s.octets.extract 12 s.cursor).toList

theorem bytesAt_self_extract (oct : Bytes) (a b : Nat) : BytesAt oct a (oct.extract a b).toList := by
  intro i hi
  simp only [Array.length_toList, Array.size_extract] at hi
  rw [Array.getElem?_toList, Array.getElem?_extract, if_pos (by omega)]

theorem size_eq_of_tail {a b : Bytes} (h : ∀ i, 12 ≤ i → a[i]? = b[i]?) (ha : 12 ≤ a.size) (hb : 12 ≤ b.size) :
    a.size = b.size := by
  rcases Nat.lt_trichotomy a.size b.size with hlt | heq | hgt
  · have := h a.size ha
    rw [Array.getElem?_eq_none (Nat.le_refl _), Array.getElem?_eq_getElem hlt] at this
    cases this
  · exact heq
  · have := h b.size hb
    rw [Array.getElem?_eq_none (Nat.le_refl _), Array.getElem?_eq_getElem hgt] at this
    cases this

/-- **`finish` read backwards, every compression mode, with a pending TSIG record.**
    If `finish` succeeds on a writer whose cursor is past the header and whose TSIG slot holds `ts`,
    the finished message is `finishPrefix s ++ OPT ++ TSIG`: the OPT record iff the EDNS slot is set;
    the MAC is `macFn ts` of exactly the octets before the TSIG record (none in `Unsigned` mode); the
    TSIG record's owner is what `write_hinted_name(None, key_name)` wrote in the state `sT` that holds
    exactly those octets, and its RDATA is `tsigRdata` of the recorded RR. -/
theorem finish_octets_tsig (macFn : Tsig → List UInt8 → List UInt8) (s : State) (hc12 : 12 ≤ s.cursor)
    (ts : Tsig) (hts : s.tsig = some ts)
    (m : Bytes) (mac : Option (List UInt8)) (hf : finish s macFn = .ok (m, mac)) :
    s.cursor ≤ s.octets.size ∧
    mac = finishMac macFn ts (finishPrefix s ++ optEnc s.edns) ∧
    ∃ oe sT, NameEnc sT .none ts.rr.keyName oe ∧ sT.mode = s.mode ∧
      (sT.octets.extract 0 sT.cursor).toList = finishPrefix s ++ optEnc s.edns ∧
      sT.cursor = (finishPrefix s ++ optEnc s.edns).length ∧
      m.toList = finishPrefix s ++ optEnc s.edns ++ tsigRecordOctets oe ts mac := by
  unfold finish at hf
  cases hw : finishWithMac macFn s with
  | mk r sF =>
    rw [hw] at hf
    cases r with
    | err e => cases hf
    | panic => cases hf
    | ok p =>
      obtain ⟨len, mc⟩ := p
      simp only [Out.ok.injEq, Prod.mk.injEq] at hf
      obtain ⟨hm, hmc⟩ := hf
      subst hmc
      unfold finishWithMac at hw
      simp only [M.bind_apply, M.gets_apply] at hw
      cases hcn : finishCounts s.qdcount s.ancount s.nscount s.arcount s with
      | mk r1 sA =>
        rw [hcn] at hw
        cases r1 with
        | err e => cases hw
        | panic => cases hw
        | ok u1 =>
          simp only [] at hw
          obtain ⟨kpre, kcnt, kcur, kmode, kedns, ktsig, ksz⟩ := finishCounts_bytes _ _ _ _ s sA hcn
          cases ho : finishOpt s.edns sA with
          | mk r2 s1 =>
            rw [ho] at hw
            cases r2 with
            | err e => cases hw
            | panic => cases hw
            | ok u2 =>
              simp only [] at hw
              obtain ⟨a1, z1, t1⟩ := appB_finishOpt_any s.edns sA s1 ho
              rw [hts] at hw
              obtain ⟨oe, hoe, hcz1, hmacE, a2, hlen, z2, hczF⟩ := appB_finishTsig_any macFn ts s1 sF (len, mc) hw
              simp only at hmacE a2 hlen
              have hl : ∀ x, (u16be x).length = 2 := fun _ => rfl
              have hlen8 : (u16be s.qdcount ++ u16be s.ancount ++ u16be s.nscount ++ u16be s.arcount).length = 8 := rfl
              have hlen4 : (s.octets.toList.take 4).length = 4 := by simp; omega
              have hsA12 : 12 ≤ sA.octets.size := by
                have := kcnt 7 (by rw [hlen8]; omega)
                have h7 : (u16be s.qdcount ++ u16be s.ancount ++ u16be s.nscount ++ u16be s.arcount)[7]? ≠ none := by
                  rw [List.getElem?_eq_getElem (by rw [hlen8]; omega)]; simp
                by_cases hh : 12 ≤ sA.octets.size
                · exact hh
                · exact absurd (by rw [← this]; exact Array.getElem?_eq_none (by omega)) h7
              have zA : sA.octets.size = s.octets.size :=
                size_eq_of_tail (fun i hi => kpre i (Or.inr hi)) hsA12 ksz
              have hcz : s.cursor ≤ s.octets.size := by
                have := a1.cur
                rw [← zA, ← z1, ← kcur]; omega
              -- the prefix as it stands in `s1`
              have q1 : BytesAt s1.octets 0 (s.octets.toList.take 4) := by
                intro i hi
                rw [hlen4] at hi
                rw [Nat.zero_add, a1.pre i (by omega), kpre i (Or.inl (by omega)), List.getElem?_take]
                simp [show i < 4 by omega]
              have q2 : BytesAt s1.octets 4 (u16be s.qdcount ++ u16be s.ancount ++ u16be s.nscount ++
                  u16be s.arcount) := by
                intro i hi
                rw [hlen8] at hi
                rw [a1.pre _ (by omega)]
                exact kcnt i (by rw [hlen8]; exact hi)
              have q3len : (s.octets.extract 12 s.cursor).toList.length = s.cursor - 12 := by
                simp only [Array.length_toList, Array.size_extract]; omega
              have q3 : BytesAt s1.octets 12 (s.octets.extract 12 s.cursor).toList := by
                intro i hi
                rw [q3len] at hi
                rw [a1.pre _ (by omega), kpre _ (Or.inr (by omega))]
                exact bytesAt_self_extract s.octets 12 s.cursor i (by rw [q3len]; exact hi)
              have hpl : (finishPrefix s).length = s.cursor := by
                unfold finishPrefix
                rw [List.length_append, List.length_append, hlen4, hlen8, q3len]; omega
              have qP : BytesAt s1.octets 0 (finishPrefix s) := by
                unfold finishPrefix
                exact bytesAt_append_intro (bytesAt_append_intro q1 (by rw [hlen4]; exact q2))
                  (by rw [List.length_append, hlen4, hlen8]; exact q3)
              have qPO : BytesAt s1.octets 0 (finishPrefix s ++ optEnc s.edns) :=
                bytesAt_append_intro qP (by rw [hpl, Nat.zero_add, ← kcur]; exact a1.bytes)
              have hc1 : s1.cursor = (finishPrefix s ++ optEnc s.edns).length := by
                rw [a1.cur, kcur, List.length_append, hpl]
              have e1 : (s1.octets.extract 0 s1.cursor).toList = finishPrefix s ++ optEnc s.edns := by
                have := bytesAt_extract qPO
                rw [Nat.zero_add, ← hc1] at this
                exact this
              refine ⟨hcz, ?_, oe, _, hoe, ?_, e1, hc1, ?_⟩
              · rw [hmacE, e1]
              · show s1.mode = s.mode
                rw [a1.mode, kmode]
              · have qF : BytesAt sF.octets 0 ((finishPrefix s ++ optEnc s.edns) ++ tsigRecordOctets oe ts mc) := by
                  refine bytesAt_append_intro ?_ (by rw [Nat.zero_add, ← hc1]; exact a2.bytes)
                  intro i hi
                  rw [← hc1] at hi
                  rw [Nat.zero_add, a2.pre i hi]
                  have := qPO i (by rw [← hc1]; exact hi)
                  rw [Nat.zero_add] at this
                  exact this
                have := bytesAt_extract qF
                rw [Nat.zero_add] at this
                rw [← hm, hlen, a2.cur, hc1, ← List.length_append]
                exact this

end QV.Writer
