import QV.Proofs.AuditDecoded
import QV.Proofs.FinishTsigPos
import QV.Proofs.HmacLen

/-!
# C10 (1e): the MAC of a signed response, in the audit's terms

`response_mac_audit`: for a writer whose pending TSIG is in `Response` mode with a key the model found
for the request's key name, the MAC `finish` computes is the audit's `specMac`: HMAC under the audit's
own key (`findKey`) of the RFC 8945 §4.3 digest input over the response's octets before the TSIG record
(position as the independent decoder reports it), with the decoded fields of that record.
-/

namespace QV.ServerContent
open QV QV.Writer QV.Spec QV.ServerScan QV.ServerTsig

theorem hmS_keyCfgOf (key : Server.Key) (data : List UInt8) :
    hmS (keyCfgOf key).sha256 (keyCfgOf key).secret data = Tsig.realHmac key.alg key.secret data := by
  unfold hmS keyCfgOf Tsig.realHmac
  cases h : key.alg <;> simp

theorem findKey_spec_of_model (keys : List Server.Key) (hk : KeysOK keys) (kn : WName) (hkn : kn.WF)
    (a : Tsig.Algorithm) (key : Server.Key)
    (h : Server.findKey keys (Tsig.lowerName kn.wire) a = some key) :
    Spec.ServerTsig.findKey (keys.map keyCfgOf) kn.labels = some (keyCfgOf key) ∧ key.alg = a := by
  rw [findKey_view keys hk kn hkn]
  unfold Server.findKey at h
  cases hf : keys.find? (fun k => k.name == Tsig.lowerName kn.wire) with
  | none => rw [hf] at h; cases h
  | some k =>
    rw [hf] at h
    simp only at h
    by_cases ha : k.alg = a
    · rw [if_pos ha] at h; cases h; exact ⟨rfl, ha⟩
    · rw [if_neg ha] at h; cases h

theorem ofWriter_toWriter (a : Tsig.Algorithm) : ofWriterAlg (Server.toWriterAlg a) = a := by cases a <;> rfl

theorem algName_labels (a : Tsig.Algorithm) : (algName (Server.toWriterAlg a)).labels = algLabels a := by
  cases a <;> decide +kernel

theorem response_mac_audit (keys : List Server.Key) (hk : KeysOK keys) (kn : WName) (hkn : kn.WF)
    (a : Tsig.Algorithm) (key : Server.Key) (hfind : Server.findKey keys (Tsig.lowerName kn.wire) a = some key)
    (F : State) (bd : Body) (hG : Good F bd) (rr : TsigRr) (wf : RrWF rr) (reqMac : List UInt8)
    (hreq : reqMac.length ≤ 65535) (rl : Nat)
    (hts : F.tsig = some ⟨.response (Server.toWriterAlg a) reqMac key.secret, rl, rr⟩)
    (b : Bytes) (mac : Option (List UInt8)) (hf : Writer.finish F Server.macFn = .ok (b, mac))
    (d : DMsg) (hd : specDecodeMsg b = some d) :
    ∃ rest o, d.ar = rest ++ [o] ∧ (mac.getD []).length = a.outputSize ∧
      ∃ k, Spec.ServerTsig.findKey (keys.map keyCfgOf) kn.labels = some k ∧
        ∀ rkn : List (List UInt8), rkn.map (·.map Spec.Tsig.lower) = rr.keyName.labels.map (·.map Spec.Tsig.lower) →
          mac.getD [] = hmS k.sha256 k.secret
            (Spec.Tsig.digestInput .response (b.extract 0 o.pos).toList (rr.originalId % 65536)
              { keyName := rkn, algName := (algName (Server.toWriterAlg a)).labels,
                timeSigned := Spec.Tsig.nat48 rr.timeSigned, fudge := rr.fudge % 65536,
                error := rr.error % 65536, other := if rr.error = XR_BADTIME then rr.serverTime else [] }
              reqMac) := by
  obtain ⟨rest, o, hdar, hmac, hmsg⟩ := tsig_prefix_of_good Server.macFn F bd hG _ hts b mac hf d hd
  obtain ⟨hfk, hka⟩ := findKey_spec_of_model keys hk kn hkn a key hfind
  have hmac' : mac = some (Server.macFn ⟨.response (Server.toWriterAlg a) reqMac key.secret, rl, rr⟩
      (b.extract 0 o.pos).toList) := by rw [hmac]; rfl
  have hrfc := macFnWith_eq_rfc Tsig.realHmac ⟨.response (Server.toWriterAlg a) reqMac key.secret, rl, rr⟩
    (b.extract 0 o.pos).toList (Server.toWriterAlg a) reqMac key.secret rfl wf hreq hmsg
    (fun dd => by rw [Tsig.realHmac_length]; cases (ofWriterAlg (Server.toWriterAlg a)) <;> decide)
  have hmf : Server.macFn ⟨.response (Server.toWriterAlg a) reqMac key.secret, rl, rr⟩ (b.extract 0 o.pos).toList =
      Server.macFnWith Tsig.realHmac ⟨.response (Server.toWriterAlg a) reqMac key.secret, rl, rr⟩ (b.extract 0 o.pos).toList := rfl
  refine ⟨rest, o, hdar, ?_, keyCfgOf key, hfk, fun rkn hrkn => ?_⟩
  · rw [hmac', Option.getD_some, hmf, hrfc, Tsig.realHmac_length, ofWriter_toWriter]
  · rw [hmac', Option.getD_some, hmf, hrfc, hmS_keyCfgOf, hka, ofWriter_toWriter]
    congr 1
    simp only [Spec.Tsig.digestInput]
    have e18 : Writer.XR_BADTIME = 18 := by decide
    have hfu := wf.fudge; have her := wf.error; have hoi := wf.origId
    rw [Nat.mod_eq_of_lt hoi]
    congr 1
    simp only [Spec.Tsig.tsigVariables, respVars, Nat.mod_eq_of_lt hfu, Nat.mod_eq_of_lt her, e18, algName_labels]
    rw [canonName_congr _ _ hrkn]

/-- a name whose wire form is in lower case has lower-case labels -/
theorem flat_lower_fix : ∀ ls : List Label,
    ls.flatMap WName.encLabel = ls.flatMap (fun l => UInt8.ofNat l.length :: l.map Spec.Tsig.lower) →
    ∀ l ∈ ls, l.map Spec.Tsig.lower = l := by
  intro ls
  induction ls with
  | nil => intro _ l hl; cases hl
  | cons x xs ih =>
    intro h l hl
    simp only [List.flatMap_cons, WName.encLabel, List.cons_append, List.cons.injEq, true_and] at h
    obtain ⟨h1, h2⟩ := List.append_inj h (by simp)
    rcases List.mem_cons.mp hl with rfl | hl
    · exact h1.symm
    · exact ih h2 l hl

theorem labels_lower_of_wire (n : WName) (hn : n.WF) (h : Tsig.lowerName n.wire = n.wire) :
    ∀ l ∈ n.labels, l.map Spec.Tsig.lower = l := by
  have := lowerName_wire n hn
  rw [h] at this
  unfold WName.wire Spec.Tsig.canonName at this
  exact flat_lower_fix n.labels (List.append_cancel_right this)

end QV.ServerContent
