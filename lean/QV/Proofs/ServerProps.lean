/-
  QV.Proofs.ServerProps — the request handler's theorems in the form the properties C03, C07, C08,
  C09 quote them: the top-level refinement statement, and what the prescribed response octets
  (`specErrorResponse`) mean field by field.
-/
import QV.Proofs.ServerResp
import QV.Proofs.ScanTsig

namespace QV.ServerScan
open QV QV.Spec.Server

/-! ### the refinement, top level -/

/-- **(R), response part.** For every configuration, transport, buffer and request: if the spec's
    scan answers with FORMERR, BADVERS, NOTIMP, REFUSED or SERVFAIL-for-a-zone-not-loaded, then
    `handle_message` returns exactly the octets `specErrorResponse` prescribes. -/
theorem server_error_response (cfg : Server.Cfg) (tr : Server.Transport) (now bufLen : Nat) (req : Bytes)
    (hbuf : minBuf tr cfg.payload ≤ bufLen) (hpay : 512 ≤ cfg.payload) (hreq : req.size ≤ Rdata.USIZE_MAX)
    (hr : (specScanWith (catKind cfg) cfg.payload req).respond = true)
    (hv : noDataV (specScanWith (catKind cfg) cfg.payload req).verdict = true) :
    ∃ b, Server.handleMessage cfg tr now bufLen req = .ok (some b) ∧
      b.toList = specErrorResponse req cfg.payload (specScanWith (catKind cfg) cfg.payload req) := by
  rw [specScanWith_eq] at hr hv ⊢
  by_cases h12 : req.size < 12
  · simp only [h12, if_true] at hr; cases hr
  · simp only [h12, if_false] at hr hv ⊢
    by_cases hqr : (req.getD 2 0).toNat ≥ 128
    · simp only [hqr, if_true] at hr; cases hr
    · simp only [hqr, if_false] at hr hv ⊢
      exact handleMessage_noData cfg tr now bufLen req hbuf hpay (by omega) (by omega) hreq tsigFacts hr hv

/-! ### reading the prescribed response -/

/-- the flags octet that carries QR, opcode, AA, TC, RD in a response to a request whose
    corresponding octet is `x` -/
def hdr2 (x : UInt8) : UInt8 := 128 ||| (x &&& 120) ||| (if x.toNat / 8 % 16 = 0 then x &&& 1 else 0)

theorem hdr2_bits : ∀ x : UInt8,
    (hdr2 x).toNat / 128 % 2 = 1 ∧ (hdr2 x).toNat / 8 % 16 = x.toNat / 8 % 16 ∧
    (hdr2 x).toNat / 4 % 2 = 0 ∧ (hdr2 x).toNat / 2 % 2 = 0 ∧
    (hdr2 x).toNat % 2 = (if x.toNat / 8 % 16 = 0 then x.toNat % 2 else 0) := by
  apply Wire.forall_uint8; decide +kernel

theorem getD_toList (b : Bytes) (i : Nat) : b.getD i 0 = (b.toList[i]?).getD 0 := by
  rw [Array.getD_eq_getD_getElem?, Array.getElem?_toList]

/-- the question octets of the prescribed response -/
def specQuestionOctets (q : Option Spec.DQuestion) : List UInt8 :=
  match q with
  | none => []
  | some q => q.qname ++ u16be q.qtype ++ u16be q.qclass

/-- the OPT record of the prescribed response -/
def specOptOctets (serverSize : Nat) (sc : Scan) : List UInt8 :=
  if sc.edns then [0, 0, 41] ++ u16be serverSize ++ [UInt8.ofNat (verdictRcode sc.verdict).2, 0, 0, 0, 0, 0] else []

theorem specErrorResponse_eq (req : Bytes) (p : Nat) (sc : Scan) :
    specErrorResponse req p sc =
      [req.getD 0 0, req.getD 1 0, hdr2 (req.getD 2 0), UInt8.ofNat (verdictRcode sc.verdict).1, 0,
       (if sc.question.isSome then 1 else 0), 0, 0, 0, 0, 0, (if sc.edns then 1 else 0)] ++
      specQuestionOctets sc.question ++ specOptOctets p sc := rfl

/-- field by field: what a response equal to the prescribed octets says -/
theorem errResp_facts (req : Bytes) (p : Nat) (sc : Scan) (b : Bytes)
    (hb : b.toList = specErrorResponse req p sc) :
    b.size = 12 + (specQuestionOctets sc.question).length + (specOptOctets p sc).length ∧
    hdr b 0 = hdr req 0 ∧
    b.getD 2 0 = hdr2 (req.getD 2 0) ∧ b.getD 3 0 = UInt8.ofNat (verdictRcode sc.verdict).1 ∧
    hdr b 4 = (if sc.question.isSome then 1 else 0) ∧ hdr b 6 = 0 ∧ hdr b 8 = 0 ∧
    hdr b 10 = (if sc.edns then 1 else 0) ∧
    b.toList.drop 12 = specQuestionOctets sc.question ++ specOptOctets p sc := by
  rw [specErrorResponse_eq] at hb
  have hsz : b.size = b.toList.length := by simp
  refine ⟨by rw [hsz, hb]; simp; omega, ?_, ?_, ?_, ?_, ?_, ?_, ?_, by rw [hb]; simp⟩
  all_goals simp only [hdr, getD_toList, hb]
  all_goals simp
  · cases sc.question <;> simp
  · cases sc.edns <;> simp

theorem flags_arith (v x y rc r : Nat) (hv : v < 256) (hx : x < 256) (hy : y < 256) (hrc : rc < 16)
    (a1 : v / 128 % 2 = 1) (a2 : v / 8 % 16 = x / 8 % 16) (a3 : v / 4 % 2 = 0) (a4 : v / 2 % 2 = 0)
    (a5 : v % 2 = r) :
    (v * 256 + rc) / 32768 % 2 = 1 ∧ (v * 256 + rc) / 2048 % 16 = (x * 256 + y) / 2048 % 16 ∧
    (v * 256 + rc) / 1024 % 2 = 0 ∧ (v * 256 + rc) / 512 % 2 = 0 ∧ (v * 256 + rc) / 256 % 2 = r ∧
    (v * 256 + rc) / 128 % 2 = 0 ∧ (v * 256 + rc) / 16 % 8 = 0 ∧ (v * 256 + rc) % 16 = rc ∧
    (x * 256 + y) / 2048 % 16 = x / 8 % 16 ∧ (x * 256 + y) / 256 % 2 = x % 2 := by
  refine ⟨by omega, by omega, by omega, by omega, by omega, by omega, by omega, by omega, by omega, by omega⟩

/-- numeric header fields of a response whose flag octets are `hdr2 x` and an RCODE below 16 -/
theorem flags_facts (b req : Bytes) (rc : Nat) (hrc : rc < 16)
    (h2 : b.getD 2 0 = hdr2 (req.getD 2 0)) (h3 : b.getD 3 0 = UInt8.ofNat rc) :
    hdr b 2 / 32768 % 2 = 1 ∧ hdr b 2 / 2048 % 16 = hdr req 2 / 2048 % 16 ∧
    hdr b 2 / 1024 % 2 = 0 ∧ hdr b 2 / 512 % 2 = 0 ∧
    hdr b 2 / 256 % 2 = (if hdr req 2 / 2048 % 16 = 0 then hdr req 2 / 256 % 2 else 0) ∧
    hdr b 2 / 128 % 2 = 0 ∧ hdr b 2 / 16 % 8 = 0 ∧ hdr b 2 % 16 = rc := by
  obtain ⟨a1, a2, a3, a4, a5⟩ := hdr2_bits (req.getD 2 0)
  have h3' : (b.getD 3 0).toNat = rc := by
    rw [h3]; simp; omega
  obtain ⟨f1, f2, f3, f4, f5, f6, f7, f8, f9, f10⟩ :=
    flags_arith (hdr2 (req.getD 2 0)).toNat (req.getD 2 0).toNat (req.getD 3 0).toNat rc _
      (hdr2 (req.getD 2 0)).toNat_lt (req.getD 2 0).toNat_lt (req.getD 3 0).toNat_lt hrc a1 a2 a3 a4 a5
  unfold hdr
  rw [h2, h3']
  show _ ∧ _ ∧ _ ∧ _ ∧ _ = (if ((req.getD 2 0).toNat * 256 + (req.getD 3 0).toNat) / 2048 % 16 = 0 then
    ((req.getD 2 0).toNat * 256 + (req.getD 3 0).toNat) / 256 % 2 else 0) ∧ _
  rw [f9, f10]
  exact ⟨f1, by rw [← f9]; exact f2, f3, f4, f5, f6, f7, f8⟩

theorem verdictRcode_lt (v : Verdict) : (verdictRcode v).1 < 16 := by
  cases v <;> simp [verdictRcode]

end QV.ServerScan
