/-
  QV.Proofs.Catalog — helper lemmas relating `QV.Model.Catalog` (the tree) to
  `QV.Spec.Catalog` (the finite map).  The property's theorems are in `QV.Properties.C22`.
-/
import QV.Model.Catalog
import QV.Spec.Catalog

namespace QV.Catalog
open QV QV.Spec.Catalog

set_option linter.unusedSectionVars false
set_option linter.unusedVariables false

/-! ### association lists -/

section AList
variable {κ : Type} [DecidableEq κ] {β : Type}

/-- no key occurs twice (what a `HashMap` guarantees by construction) -/
def NodupKeys (l : List (κ × β)) : Prop := (l.map Prod.fst).Nodup

@[simp] theorem nodupKeys_nil : NodupKeys ([] : List (κ × β)) := by simp [NodupKeys]

theorem nodupKeys_cons {k : κ} {v : β} {l : List (κ × β)} :
    NodupKeys ((k, v) :: l) ↔ (∀ p ∈ l, p.1 ≠ k) ∧ NodupKeys l := by
  simp only [NodupKeys, List.map_cons, List.nodup_cons, List.mem_map, not_exists, not_and]

theorem aget_aset (k k' : κ) (v : β) (l : List (κ × β)) :
    aget k' (aset k v l) = if k' = k then some v else aget k' l := by
  induction l with
  | nil => simp [aset, aget, eq_comm]
  | cons a r ih =>
    obtain ⟨a1, a2⟩ := a
    by_cases h : a1 = k
    · subst h; by_cases h2 : a1 = k' <;> simp [aset, aget, h2, eq_comm]
      intro h3; exact absurd h3.symm h2
    · by_cases h2 : a1 = k'
      · subst h2; simp [aset, aget, h]
      · simp [aset, aget, h, h2, ih]

theorem aget_adel (k k' : κ) (l : List (κ × β)) :
    aget k' (adel k l) = if k' = k then none else aget k' l := by
  induction l with
  | nil => simp [adel, aget]
  | cons a r ih =>
    obtain ⟨a1, a2⟩ := a
    by_cases h : a1 = k
    · subst h; by_cases h2 : a1 = k'
      · subst h2; simp [adel, ih]
      · have : ¬ k' = a1 := fun e => h2 e.symm
        simp [adel, aget, ih, h2, this]
    · by_cases h2 : a1 = k'
      · subst h2; simp [adel, aget, h]
      · simp [adel, aget, h, h2, ih]

theorem mem_aset {k : κ} {v : β} {l : List (κ × β)} {p : κ × β} (h : p ∈ aset k v l) :
    p = (k, v) ∨ p ∈ l := by
  induction l with
  | nil => simp [aset] at h; exact Or.inl h
  | cons a r ih =>
    obtain ⟨a1, a2⟩ := a
    by_cases h1 : a1 = k
    · simp only [aset, h1, if_true, List.mem_cons] at h
      rcases h with h | h
      · exact Or.inl h
      · exact Or.inr (List.mem_cons_of_mem _ h)
    · simp only [aset, h1, if_false, List.mem_cons] at h
      rcases h with h | h
      · subst h; exact Or.inr List.mem_cons_self
      · rcases ih h with h | h
        · exact Or.inl h
        · exact Or.inr (List.mem_cons_of_mem _ h)

theorem mem_adel {k : κ} {l : List (κ × β)} {p : κ × β} (h : p ∈ adel k l) : p ∈ l ∧ p.1 ≠ k := by
  induction l with
  | nil => simp [adel] at h
  | cons a r ih =>
    obtain ⟨a1, a2⟩ := a
    by_cases h1 : a1 = k
    · simp only [adel, h1, if_true] at h
      exact ⟨List.mem_cons_of_mem _ (ih h).1, (ih h).2⟩
    · simp only [adel, h1, if_false, List.mem_cons] at h
      rcases h with h | h
      · subst h; exact ⟨List.mem_cons_self, h1⟩
      · exact ⟨List.mem_cons_of_mem _ (ih h).1, (ih h).2⟩

theorem nodupKeys_aset {k : κ} {v : β} {l : List (κ × β)} (h : NodupKeys l) :
    NodupKeys (aset k v l) := by
  induction l with
  | nil => simp [aset, NodupKeys]
  | cons a r ih =>
    obtain ⟨a1, a2⟩ := a
    rw [nodupKeys_cons] at h
    by_cases h1 : a1 = k
    · subst h1; simp only [aset, if_true]; rw [nodupKeys_cons]; exact h
    · simp only [aset, h1, if_false]; rw [nodupKeys_cons]
      refine ⟨?_, ih h.2⟩
      intro p hp
      rcases mem_aset hp with e | hm
      · subst e; exact fun e => h1 e.symm
      · exact h.1 p hm

theorem nodupKeys_adel {k : κ} {l : List (κ × β)} (h : NodupKeys l) : NodupKeys (adel k l) := by
  induction l with
  | nil => simp [adel]
  | cons a r ih =>
    obtain ⟨a1, a2⟩ := a
    rw [nodupKeys_cons] at h
    by_cases h1 : a1 = k
    · simp only [adel, h1, if_true]; exact ih h.2
    · simp only [adel, h1, if_false]; rw [nodupKeys_cons]
      exact ⟨fun p hp => h.1 p (mem_adel hp).1, ih h.2⟩

theorem mem_of_aget {k : κ} {v : β} {l : List (κ × β)} (h : aget k l = some v) : (k, v) ∈ l := by
  induction l with
  | nil => simp [aget] at h
  | cons a r ih =>
    obtain ⟨a1, a2⟩ := a
    by_cases h1 : a1 = k
    · simp [aget, h1] at h; subst h; subst h1; exact List.mem_cons_self
    · simp [aget, h1] at h; exact List.mem_cons_of_mem _ (ih h)

theorem aget_of_mem {k : κ} {v : β} {l : List (κ × β)} (hn : NodupKeys l) (h : (k, v) ∈ l) :
    aget k l = some v := by
  induction l with
  | nil => simp at h
  | cons a r ih =>
    obtain ⟨a1, a2⟩ := a
    rw [nodupKeys_cons] at hn
    rcases List.mem_cons.mp h with e | hm
    · cases e; simp [aget]
    · have : a1 ≠ k := fun e => hn.1 (k, v) hm e.symm
      simp [aget, this, ih hn.2 hm]

theorem aset_ne_nil (k : κ) (v : β) (l : List (κ × β)) : aset k v l ≠ [] := by
  cases l with
  | nil => simp [aset]
  | cons a r => obtain ⟨a1, a2⟩ := a; by_cases h : a1 = k <;> simp [aset, h]

end AList

variable {μ : Type}

/-! ### the entry stored exactly at a path -/

/-- the entry stored at the node reached by walking `p` from `n` (none if the walk leaves the
    tree or the node holds no entry) -/
def findAt : List Label → Node μ → Option (Entry μ)
  | [], .mk d _ => d
  | l :: p, .mk _ cs =>
    match aget l cs with
    | some sub => findAt p sub
    | none => none

@[simp] theorem findAt_empty (p : List Label) : findAt p (Node.empty : Node μ) = none := by
  cases p <;> simp [findAt, Node.empty, aget]

/-- `insert` changes the binding of its own path and nothing else -/
theorem findAt_insertNode (p q : List Label) (e : Entry μ) (n : Node μ) :
    findAt q (insertNode p e n).1 = if q = p then some e else findAt q n := by
  induction p generalizing q n with
  | nil =>
    obtain ⟨d, cs⟩ := n
    cases q with
    | nil => simp [insertNode, findAt]
    | cons a q => simp [insertNode, findAt]
  | cons l p ih =>
    obtain ⟨d, cs⟩ := n
    cases q with
    | nil => simp [insertNode, findAt]
    | cons a q =>
      simp only [insertNode, findAt, aget_aset]
      by_cases h : a = l
      · subst h
        simp only [if_true, ih]
        by_cases h2 : q = p
        · simp [h2]
        · simp only [h2, if_false, List.cons.injEq, true_and]
          cases hg : aget a cs <;> simp
      · simp [h]

/-- the value `insert` returns is the previous binding -/
theorem insertNode_old (p : List Label) (e : Entry μ) (n : Node μ) :
    (insertNode p e n).2 = findAt p n := by
  induction p generalizing n with
  | nil => obtain ⟨d, cs⟩ := n; simp [insertNode, findAt]
  | cons l p ih =>
    obtain ⟨d, cs⟩ := n
    simp only [insertNode, findAt, ih]
    cases hg : aget l cs <;> simp

/-- a node flagged for removal is empty: no entry, no children (this is exactly what the
    repaired `remove_in_class` guarantees and the defective one did not) -/
theorem removeNode_flag (p : List Label) (n : Node μ) (h : (removeNode p n).2.2 = true) :
    (removeNode p n).1 = Node.empty := by
  induction p generalizing n with
  | nil =>
    obtain ⟨d, cs⟩ := n
    simp [removeNode] at h
    simp [removeNode, Node.empty, h]
  | cons l p ih =>
    obtain ⟨d, cs⟩ := n
    simp only [removeNode] at h ⊢
    cases hg : aget l cs with
    | none => simp [hg] at h
    | some sub =>
      simp only [hg] at h ⊢
      by_cases hf : (removeNode p sub).2.2 = true
      · simp only [hf, if_true] at h ⊢
        simp at h
        simp [Node.empty, h.1, h.2]
      · simp [hf] at h

/-- `remove` deletes the binding of its own path and nothing else -/
theorem findAt_removeNode (p q : List Label) (n : Node μ) :
    findAt q (removeNode p n).1 = if q = p then none else findAt q n := by
  induction p generalizing q n with
  | nil =>
    obtain ⟨d, cs⟩ := n
    cases q with
    | nil => simp [removeNode, findAt]
    | cons a q => simp [removeNode, findAt]
  | cons l p ih =>
    obtain ⟨d, cs⟩ := n
    simp only [removeNode]
    cases hg : aget l cs with
    | none =>
      cases q with
      | nil => simp [findAt]
      | cons a q =>
        by_cases h : a = l
        · subst h; simp [findAt, hg]
        · simp [h]
    | some sub =>
      simp only []
      by_cases hf : (removeNode p sub).2.2 = true
      · have hempty := removeNode_flag p sub hf
        simp only [hf, if_true]
        cases q with
        | nil => simp [findAt]
        | cons a q =>
          simp only [findAt, aget_adel]
          by_cases h : a = l
          · subst h
            simp only [if_true, hg, List.cons.injEq, true_and]
            have := ih q sub
            rw [hempty, findAt_empty] at this
            by_cases h2 : q = p
            · simp [h2]
            · simp only [h2, if_false] at this ⊢; exact this
          · simp [h]
      · rw [if_neg hf]
        cases q with
        | nil => simp [findAt]
        | cons a q =>
          simp only [findAt, aget_aset]
          by_cases h : a = l
          · subst h; simp [hg, ih]
          · simp [h]

/-- the value `remove` returns is the previous binding -/
theorem removeNode_old (p : List Label) (n : Node μ) : (removeNode p n).2.1 = findAt p n := by
  induction p generalizing n with
  | nil => obtain ⟨d, cs⟩ := n; simp [removeNode, findAt]
  | cons l p ih =>
    obtain ⟨d, cs⟩ := n
    simp only [removeNode, findAt]
    cases hg : aget l cs with
    | none => simp
    | some sub =>
      simp only []
      by_cases hf : (removeNode p sub).2.2 = true <;> simp [hf, ih]

/-- `lookup_in_class` along a path extended by one label: the entry at the longer path if there
    is one, else whatever the shorter path gives -/
theorem lookupNode_snoc (q : List Label) (l : Label) (n : Node μ) :
    lookupNode (q ++ [l]) n = (findAt (q ++ [l]) n).or (lookupNode q n) := by
  induction q generalizing n with
  | nil =>
    obtain ⟨d, cs⟩ := n
    simp only [List.nil_append, lookupNode, findAt]
    cases hg : aget l cs with
    | none => simp
    | some sub => obtain ⟨d', cs'⟩ := sub; simp [lookupNode, findAt]
  | cons a q ih =>
    obtain ⟨d, cs⟩ := n
    simp only [List.cons_append, lookupNode, findAt]
    cases hg : aget a cs with
    | none => simp
    | some sub =>
      simp only [ih]
      cases findAt (q ++ [l]) sub <;> simp

/-! ### the tree invariant -/

/-- a node that holds an entry or has a child -/
def Node.NonEmpty : Node μ → Prop
  | .mk d cs => d.isSome = true ∨ cs ≠ []

mutual
/-- what `HashMap` guarantees (no label occurs twice among the children of a node) plus the
    pruning discipline of the catalog (no node below the root is empty) -/
def Node.WF : Node μ → Prop
  | .mk _ cs => NodupKeys cs ∧ WFL cs
def WFL : List (Label × Node μ) → Prop
  | [] => True
  | (_, n) :: r => (n.WF ∧ n.NonEmpty) ∧ WFL r
end

theorem wfl_iff (cs : List (Label × Node μ)) : WFL cs ↔ ∀ p ∈ cs, p.2.WF ∧ p.2.NonEmpty := by
  induction cs with
  | nil => simp [WFL]
  | cons a r ih => obtain ⟨l, n⟩ := a; simp [WFL, ih]

theorem Node.wf_mk (d : Option (Entry μ)) (cs : List (Label × Node μ)) :
    (Node.mk d cs).WF ↔ NodupKeys cs ∧ ∀ p ∈ cs, p.2.WF ∧ p.2.NonEmpty := by
  simp [Node.WF, wfl_iff]

theorem Node.wf_empty : (Node.empty : Node μ).WF := by simp [Node.empty, Node.wf_mk]

theorem wf_of_aget {l : Label} {cs : List (Label × Node μ)} {sub : Node μ}
    (h : ∀ p ∈ cs, p.2.WF ∧ p.2.NonEmpty) (hg : aget l cs = some sub) : sub.WF ∧ sub.NonEmpty :=
  h (l, sub) (mem_of_aget hg)

theorem insertNode_wf (p : List Label) (e : Entry μ) (n : Node μ) (h : n.WF) :
    (insertNode p e n).1.WF ∧ (insertNode p e n).1.NonEmpty := by
  induction p generalizing n with
  | nil =>
    obtain ⟨d, cs⟩ := n
    rw [Node.wf_mk] at h
    simp only [insertNode]
    exact ⟨(Node.wf_mk _ _).mpr h, Or.inl rfl⟩
  | cons l p ih =>
    obtain ⟨d, cs⟩ := n
    rw [Node.wf_mk] at h
    have hsub : ((aget l cs).getD Node.empty).WF := by
      cases hg : aget l cs with
      | none => exact Node.wf_empty
      | some sub => exact (wf_of_aget h.2 hg).1
    have := ih _ hsub
    simp only [insertNode]
    refine ⟨?_, Or.inr (aset_ne_nil _ _ _)⟩
    rw [Node.wf_mk]
    refine ⟨nodupKeys_aset h.1, ?_⟩
    intro q hq
    rcases mem_aset hq with e | hm
    · subst e; exact this
    · exact h.2 q hm

theorem removeNode_wf (p : List Label) (n : Node μ) (h : n.WF) (hne : n.NonEmpty) :
    (removeNode p n).1.WF ∧ ((removeNode p n).2.2 = false → (removeNode p n).1.NonEmpty) := by
  induction p generalizing n with
  | nil =>
    obtain ⟨d, cs⟩ := n
    rw [Node.wf_mk] at h
    simp only [removeNode, Node.wf_mk, Node.NonEmpty]
    refine ⟨h, ?_⟩
    intro hf; right; intro e; subst e; simp at hf
  | cons l p ih =>
    obtain ⟨d, cs⟩ := n
    rw [Node.wf_mk] at h
    simp only [removeNode]
    cases hg : aget l cs with
    | none => simp only []; exact ⟨(Node.wf_mk d cs).mpr h, fun _ => hne⟩
    | some sub =>
      have hs := wf_of_aget h.2 hg
      have := ih sub hs.1 hs.2
      simp only []
      by_cases hf : (removeNode p sub).2.2 = true
      · rw [if_pos hf]
        simp only [Node.wf_mk, Node.NonEmpty]
        refine ⟨⟨nodupKeys_adel h.1, fun q hq => h.2 q (mem_adel hq).1⟩, ?_⟩
        intro hfl
        cases hd : d with
        | some x => simp
        | none =>
          right; intro he
          simp [hd, he] at hfl
      · rw [if_neg hf]
        simp only [Node.wf_mk, Node.NonEmpty]
        refine ⟨⟨nodupKeys_aset h.1, ?_⟩, fun _ => Or.inr (aset_ne_nil _ _ _)⟩
        intro q hq
        rcases mem_aset hq with e | hm
        · subst e; exact ⟨this.1, this.2 (by simpa using hf)⟩
        · exact h.2 q hm

/-! ### enumeration of a tree: every (path, entry) pair once -/

mutual
def Node.toList : Node μ → List (List Label × Entry μ)
  | .mk d cs => (d.toList.map (fun e => ([], e))) ++ toListL cs
def toListL : List (Label × Node μ) → List (List Label × Entry μ)
  | [] => []
  | (l, n) :: r => (n.toList.map (fun pe => (l :: pe.1, pe.2))) ++ toListL r
end

mutual
theorem entries_eq_toList : (n : Node μ) → n.entries = n.toList.map (·.2)
  | .mk d cs => by
    simp only [Node.entries, Node.toList, List.map_append, List.map_map, entriesL_eq_toListL cs]
    cases d <;> simp
theorem entriesL_eq_toListL : (cs : List (Label × Node μ)) → entriesL cs = (toListL cs).map (·.2)
  | [] => by simp [entriesL, toListL]
  | (l, n) :: r => by
    simp only [entriesL, toListL, List.map_append, List.map_map, entries_eq_toList n,
      entriesL_eq_toListL r]
    rfl
end

theorem nodupKeys_tail {a : Label × Node μ} {r : List (Label × Node μ)}
    (h : NodupKeys (a :: r)) : NodupKeys r := by
  obtain ⟨l, n⟩ := a; exact (nodupKeys_cons.mp h).2

mutual
theorem mem_toList : (n : Node μ) → n.WF → ∀ p e, (p, e) ∈ n.toList ↔ findAt p n = some e
  | .mk d cs, h, p, e => by
    have hw := (Node.WF.eq_1 d cs ▸ h : NodupKeys cs ∧ WFL cs)
    have hB := mem_toListL cs hw.1 hw.2 p e
    simp only [Node.toList, List.mem_append, List.mem_map, Prod.mk.injEq, hB]
    cases p with
    | nil =>
      simp only [findAt]
      constructor
      · rintro (⟨x, hx, _, rfl⟩ | ⟨l, q, hq, _⟩)
        · cases d <;> simp_all
        · cases hq
      · intro hd; left; exact ⟨e, by simp [hd], trivial, rfl⟩
    | cons a q =>
      simp only [findAt]
      constructor
      · rintro (⟨x, _, hx, _⟩ | ⟨l, q', hq, sub, hg, hf⟩)
        · cases hx
        · cases hq; simp [hg, hf]
      · intro hf
        right
        cases hg : aget a cs with
        | none => simp [hg] at hf
        | some sub => simp only [hg] at hf; exact ⟨a, q, rfl, sub, hg, hf⟩
theorem mem_toListL : (cs : List (Label × Node μ)) → NodupKeys cs → WFL cs → ∀ q e,
    ((q, e) ∈ toListL cs ↔ ∃ l p, q = l :: p ∧ ∃ sub, aget l cs = some sub ∧ findAt p sub = some e)
  | [], _, _, q, e => by simp [toListL, aget]
  | (l0, n) :: r, hn, hw, q, e => by
    have hw' := (WFL.eq_2 l0 n r ▸ hw : (n.WF ∧ n.NonEmpty) ∧ WFL r)
    have hnk := nodupKeys_cons.mp hn
    have hA := mem_toList n hw'.1.1
    have hB := mem_toListL r hnk.2 hw'.2 q e
    simp only [toListL, List.mem_append, List.mem_map, Prod.mk.injEq, hB]
    constructor
    · rintro (⟨⟨p, x⟩, hx, rfl, rfl⟩ | ⟨l, p, rfl, sub, hg, hf⟩)
      · exact ⟨l0, p, rfl, n, by simp [aget], (hA p x).mp hx⟩
      · have : l0 ≠ l := fun e => hnk.1 (l, sub) (mem_of_aget hg) e.symm
        exact ⟨l, p, rfl, sub, by simp [aget, this, hg], hf⟩
    · rintro ⟨l, p, rfl, sub, hg, hf⟩
      by_cases hl : l0 = l
      · subst hl
        simp [aget] at hg; subst hg
        left; exact ⟨(p, e), (hA p e).mpr hf, rfl, rfl⟩
      · simp [aget, hl] at hg
        right; exact ⟨l, p, rfl, sub, hg, hf⟩
end

mutual
theorem nodup_toList : (n : Node μ) → n.WF → (n.toList.map (·.1)).Nodup
  | .mk d cs, h => by
    have hw := (Node.WF.eq_1 d cs ▸ h : NodupKeys cs ∧ WFL cs)
    have hB := nodup_toListL cs hw.1 hw.2
    simp only [Node.toList, List.map_append, List.map_map, List.nodup_append]
    refine ⟨?_, hB.1, ?_⟩
    · cases d <;> simp
    · intro a ha b hb
      obtain ⟨l, p, rfl, _⟩ := hB.2 b hb
      cases d <;> simp at ha
      subst ha; simp
theorem nodup_toListL : (cs : List (Label × Node μ)) → NodupKeys cs → WFL cs →
    ((toListL cs).map (·.1)).Nodup ∧
      ∀ q ∈ (toListL cs).map (·.1), ∃ l p, q = l :: p ∧ l ∈ cs.map (·.1)
  | [], _, _ => by simp [toListL]
  | (l0, n) :: r, hn, hw => by
    have hw' := (WFL.eq_2 l0 n r ▸ hw : (n.WF ∧ n.NonEmpty) ∧ WFL r)
    have hnk := nodupKeys_cons.mp hn
    have hA := nodup_toList n hw'.1.1
    have hB := nodup_toListL r hnk.2 hw'.2
    simp only [toListL, List.map_append, List.map_map, List.nodup_append]
    refine ⟨⟨?_, hB.1, ?_⟩, ?_⟩
    · have : (List.map ((fun x => x.1) ∘ fun pe : List Label × Entry μ => (l0 :: pe.1, pe.2)) n.toList)
          = (n.toList.map (·.1)).map (fun p => l0 :: p) := by simp [List.map_map]
      rw [this]
      exact List.Pairwise.map _ (fun a b hab hc => hab (by simpa using hc)) hA
    · intro a ha b hb
      obtain ⟨l, p, rfl, hl⟩ := hB.2 b hb
      simp only [List.mem_map, Function.comp] at ha
      obtain ⟨x, _, rfl⟩ := ha
      intro he
      simp only [List.cons.injEq] at he
      obtain ⟨k, hk, rfl⟩ := List.mem_map.mp hl
      exact hnk.1 k hk he.1.symm
    · intro q hq
      rcases List.mem_append.mp hq with hq | hq
      · simp only [List.mem_map, Function.comp] at hq
        obtain ⟨x, _, rfl⟩ := hq
        exact ⟨l0, x.1, rfl, by simp⟩
      · obtain ⟨l, p, rfl, hl⟩ := hB.2 q hq
        exact ⟨l, p, rfl, by simp only [List.map_cons, List.mem_cons]; right; exact hl⟩
end

/-! ### the specification's finite map -/

section SpecMap
variable {ε : Type}

theorem sfind_eq_aget (m : SMap ε) (k : Key) : sfind m k = aget k m := by
  induction m with
  | nil => simp [sfind, aget]
  | cons a r ih => obtain ⟨k', v⟩ := a; simp [sfind, aget, ih]

theorem sfind_serase (m : SMap ε) (k k' : Key) :
    sfind (serase m k) k' = if k' = k then none else sfind m k' := by
  induction m with
  | nil => simp [serase, sfind]
  | cons a r ih =>
    obtain ⟨k0, v⟩ := a
    simp only [serase] at ih
    by_cases h : k0 = k
    · subst h
      by_cases h2 : k' = k0
      · subst h2; simpa [serase, sfind] using ih
      · have : ¬ k0 = k' := fun e => h2 e.symm
        simp [serase, sfind, this, h2] at ih ⊢; exact ih
    · by_cases h2 : k0 = k'
      · subst h2; simp [serase, sfind, h]
      · simp only [serase, List.filter_cons, ne_eq, h, not_false_eq_true, decide_true, if_true,
          sfind, h2, if_false]
        exact ih

theorem sfind_sinsert (m : SMap ε) (k k' : Key) (v : ε) :
    sfind (sinsert m k v) k' = if k' = k then some v else sfind m k' := by
  by_cases h : k' = k
  · subst h; simp [sinsert, sfind]
  · have : ¬ k = k' := fun e => h e.symm
    simp [sinsert, sfind, this, h, sfind_serase]

theorem nodupKeys_serase {m : SMap ε} (k : Key) (h : NodupKeys m) : NodupKeys (serase m k) := by
  unfold NodupKeys serase at *
  exact List.Nodup.sublist (List.Sublist.map _ List.filter_sublist) h

theorem nodupKeys_sinsert {m : SMap ε} (k : Key) (v : ε) (h : NodupKeys m) :
    NodupKeys (sinsert m k v) := by
  unfold sinsert
  rw [nodupKeys_cons]
  refine ⟨?_, nodupKeys_serase k h⟩
  intro p hp
  simp [serase] at hp
  exact hp.2

/-- the executable longest-suffix search computes the declarative longest match -/
theorem longestSuffix_isLongestMatch (m : SMap ε) (cls : Nat) (n : SName) :
    IsLongestMatch m cls n (longestSuffix m cls n) := by
  induction n with
  | nil =>
    simp only [longestSuffix]
    cases h : sfind m (cls, []) with
    | none =>
      simp only [IsLongestMatch]
      intro s hs; simp at hs; subst hs; exact h
    | some e =>
      simp only [IsLongestMatch]
      refine ⟨[], List.suffix_refl _, h, ?_⟩
      intro s' hs' hl; simp at hs'; subst hs'; simp at hl
  | cons l r ih =>
    simp only [longestSuffix]
    cases h : sfind m (cls, l :: r) with
    | some e =>
      simp only [Option.or_some, IsLongestMatch]
      refine ⟨l :: r, List.suffix_refl _, h, ?_⟩
      intro s' hs' hl
      have := hs'.length_le
      omega
    | none =>
      simp only [Option.none_or]
      cases h2 : longestSuffix m cls r with
      | none =>
        rw [h2] at ih
        simp only [IsLongestMatch] at ih ⊢
        intro s hs
        rcases List.suffix_cons_iff.mp hs with e | hs
        · subst e; exact h
        · exact ih s hs
      | some e =>
        rw [h2] at ih
        simp only [IsLongestMatch] at ih ⊢
        obtain ⟨s, hs, hf, hmax⟩ := ih
        refine ⟨s, List.suffix_cons_iff.mpr (Or.inr hs), hf, ?_⟩
        intro s' hs' hl
        rcases List.suffix_cons_iff.mp hs' with e | hs'
        · subst e; exact h
        · exact hmax s' hs' hl

/-- the declarative longest match is unique: `IsLongestMatch` determines the result -/
theorem isLongestMatch_unique (m : SMap ε) (cls : Nat) (n : SName) (r r' : Option ε)
    (h : IsLongestMatch m cls n r) (h' : IsLongestMatch m cls n r') : r = r' := by
  have key : ∀ (a b : Option ε), IsLongestMatch m cls n a → IsLongestMatch m cls n b →
      ∀ e, a = some e → b = some e := by
    intro a b ha hb e he
    subst he
    simp only [IsLongestMatch] at ha
    obtain ⟨s, hs, hf, hmax⟩ := ha
    cases b with
    | none => simp only [IsLongestMatch] at hb; rw [hb s hs] at hf; cases hf
    | some e' =>
      simp only [IsLongestMatch] at hb
      obtain ⟨s', hs', hf', hmax'⟩ := hb
      rcases Nat.lt_trichotomy s.length s'.length with hl | hl | hl
      · rw [hmax s' hs' hl] at hf'; cases hf'
      · have : s = s' := by
          obtain ⟨t, ht⟩ := hs; obtain ⟨t', ht'⟩ := hs'
          have := ht.trans ht'.symm
          exact (List.append_inj' this hl).2
        subst this; rw [hf] at hf'; exact hf'.symm
      · rw [hmax' s hs hl] at hf; cases hf
  cases r with
  | some e => exact (key _ _ h h' e rfl).symm
  | none =>
    cases r' with
    | none => rfl
    | some e' => exact absurd (key _ _ h' h e' rfl) (by simp)

end SpecMap

/-! ### the catalog: abstraction to the finite map -/

/-- the key under which an entry is filed: its class and its case-folded name -/
def keyOf (e : Entry μ) : Key := (e.cls, foldName e.name)

theorem foldName_eq_lowerName (n : DName) : foldName n = lowerName n := rfl

/-- the binding of a key in the tree: walk the class's tree along the reversed name -/
def absFind (c : Cat μ) (k : Key) : Option (Entry μ) :=
  match aget k.1 c with
  | none => none
  | some root => findAt k.2.reverse root

/-- **abstraction function**: the finite map a catalog denotes, as the list of all its
    (key, entry) bindings -/
def abs : Cat μ → SMap (Entry μ)
  | [] => []
  | (cls, root) :: r => root.toList.map (fun pe => ((cls, pe.1.reverse), pe.2)) ++ abs r

/-- structural invariant of the catalog: classes and child labels are not duplicated and no node
    (roots included) is empty -/
def Cat.WF (c : Cat μ) : Prop := NodupKeys c ∧ ∀ p ∈ c, p.2.WF ∧ p.2.NonEmpty

/-- every entry is filed under the key of its own name and class -/
def Cat.Filed (c : Cat μ) : Prop := ∀ k e, absFind c k = some e → keyOf e = k

/-- the invariant of C22 -/
def Cat.Inv (c : Cat μ) : Prop := c.WF ∧ c.Filed

theorem inv_empty : (Cat.empty : Cat μ).Inv := by
  refine ⟨⟨by simp [Cat.empty], by simp [Cat.empty]⟩, ?_⟩
  intro k e h; simp [absFind, Cat.empty, aget] at h

theorem absFind_insert (c : Cat μ) (e : Entry μ) (k : Key) :
    absFind (insert c e).1 k = if k = keyOf e then some e else absFind c k := by
  obtain ⟨kc, kn⟩ := k
  simp only [absFind, insert, aget_aset, keyOf, Prod.mk.injEq]
  by_cases h : kc = e.cls
  · subst h
    simp only [if_true, true_and, findAt_insertNode, pathOf, foldName_eq_lowerName,
      List.reverse_inj]
    by_cases h2 : kn = lowerName e.name
    · simp [h2]
    · simp only [h2, if_false]
      cases aget e.cls c <;> simp
  · simp [h]

theorem insert_old (c : Cat μ) (e : Entry μ) : (insert c e).2 = absFind c (keyOf e) := by
  simp only [insert, insertNode_old, absFind, keyOf, pathOf, foldName_eq_lowerName]
  cases aget e.cls c <;> simp

theorem absFind_remove (c : Cat μ) (n : DName) (cls : Nat) (k : Key) :
    absFind (remove c n cls).1 k = if k = (cls, foldName n) then none else absFind c k := by
  obtain ⟨kc, kn⟩ := k
  simp only [remove, Prod.mk.injEq, foldName_eq_lowerName]
  cases hg : aget cls c with
  | none =>
    simp only [absFind]
    by_cases h : kc = cls
    · subst h; simp [hg]
    · simp [h]
  | some root =>
    simp only []
    by_cases hf : (removeNode (pathOf n) root).2.2 = true
    · rw [if_pos hf]
      simp only [absFind, aget_adel]
      by_cases h : kc = cls
      · subst h
        simp only [if_true, true_and, hg]
        have := findAt_removeNode (pathOf n) kn.reverse root
        rw [removeNode_flag _ _ hf, findAt_empty] at this
        by_cases h2 : kn = lowerName n
        · simp [h2]
        · have h3 : ¬ kn.reverse = pathOf n := by simpa [pathOf, List.reverse_inj] using h2
          simp only [h3, if_false] at this
          simp [h2, this]
      · simp [h]
    · rw [if_neg hf]
      simp only [absFind, aget_aset]
      by_cases h : kc = cls
      · subst h
        simp only [if_true, true_and, hg, findAt_removeNode, pathOf, List.reverse_inj]
      · simp [h]

theorem remove_old (c : Cat μ) (n : DName) (cls : Nat) :
    (remove c n cls).2 = absFind c (cls, foldName n) := by
  simp only [remove, absFind, foldName_eq_lowerName]
  cases hg : aget cls c with
  | none => simp
  | some root =>
    simp only []
    by_cases hf : (removeNode (pathOf n) root).2.2 = true
    · rw [if_pos hf]; simp [removeNode_old, pathOf]
    · rw [if_neg hf]; simp [removeNode_old, pathOf]

theorem wf_insert (c : Cat μ) (e : Entry μ) (h : c.WF) : (insert c e).1.WF := by
  simp only [insert]
  refine ⟨nodupKeys_aset h.1, ?_⟩
  intro q hq
  rcases mem_aset hq with e' | hm
  · subst e'
    apply insertNode_wf
    cases hg : aget e.cls c with
    | none => exact Node.wf_empty
    | some root => exact (h.2 _ (mem_of_aget hg)).1
  · exact h.2 q hm

theorem wf_remove (c : Cat μ) (n : DName) (cls : Nat) (h : c.WF) : (remove c n cls).1.WF := by
  simp only [remove]
  cases hg : aget cls c with
  | none => exact h
  | some root =>
    have hr := h.2 _ (mem_of_aget hg)
    have := removeNode_wf (pathOf n) root hr.1 hr.2
    simp only []
    by_cases hf : (removeNode (pathOf n) root).2.2 = true
    · rw [if_pos hf]
      exact ⟨nodupKeys_adel h.1, fun q hq => h.2 q (mem_adel hq).1⟩
    · rw [if_neg hf]
      refine ⟨nodupKeys_aset h.1, ?_⟩
      intro q hq
      rcases mem_aset hq with e' | hm
      · subst e'; exact ⟨this.1, this.2 (by simpa using hf)⟩
      · exact h.2 q hm

theorem inv_insert (c : Cat μ) (e : Entry μ) (h : c.Inv) : (insert c e).1.Inv := by
  refine ⟨wf_insert c e h.1, ?_⟩
  intro k x hx
  rw [absFind_insert] at hx
  by_cases hk : k = keyOf e
  · simp [hk] at hx; subst hx; exact hk.symm
  · simp [hk] at hx; exact h.2 k x hx

theorem inv_remove (c : Cat μ) (n : DName) (cls : Nat) (h : c.Inv) : (remove c n cls).1.Inv := by
  refine ⟨wf_remove c n cls h.1, ?_⟩
  intro k x hx
  rw [absFind_remove] at hx
  by_cases hk : k = (cls, foldName n)
  · simp [hk] at hx
  · simp [hk] at hx; exact h.2 k x hx

/-! ### lookup and get in terms of the bindings -/

/-- longest-suffix search over an arbitrary binding function (same recursion as the spec's
    `longestSuffix`, which is the instance `f = sfind m`) -/
def lsuf {ε : Type} (f : Key → Option ε) (cls : Nat) : SName → Option ε
  | [] => f (cls, [])
  | l :: r => (f (cls, l :: r)).or (lsuf f cls r)

theorem longestSuffix_eq_lsuf {ε : Type} (m : SMap ε) (cls : Nat) (n : SName) :
    longestSuffix m cls n = lsuf (sfind m) cls n := by
  induction n with
  | nil => rfl
  | cons l r ih => simp [longestSuffix, lsuf, ih]

theorem lsuf_congr {ε : Type} (f g : Key → Option ε) (h : ∀ k, f k = g k) (cls : Nat) (n : SName) :
    lsuf f cls n = lsuf g cls n := by
  induction n with
  | nil => simp [lsuf, h]
  | cons l r ih => simp [lsuf, h, ih]

theorem lsuf_some {ε : Type} (f : Key → Option ε) (cls : Nat) (n : SName) (e : ε)
    (h : lsuf f cls n = some e) : ∃ s, s <:+ n ∧ f (cls, s) = some e := by
  induction n with
  | nil => exact ⟨[], List.suffix_refl _, h⟩
  | cons l r ih =>
    simp only [lsuf] at h
    cases hf : f (cls, l :: r) with
    | some x => rw [hf] at h; simp at h; subst h; exact ⟨l :: r, List.suffix_refl _, hf⟩
    | none =>
      rw [hf] at h; simp at h
      obtain ⟨s, hs, hfs⟩ := ih h
      exact ⟨s, List.suffix_cons_iff.mpr (Or.inr hs), hfs⟩

theorem lookupNode_nil (n : Node μ) : lookupNode [] n = findAt [] n := by
  obtain ⟨d, cs⟩ := n; rfl

theorem lookup_eq_lsuf (c : Cat μ) (n : DName) (cls : Nat) :
    lookup c n cls = lsuf (absFind c) cls (foldName n) := by
  simp only [lookup, pathOf, foldName_eq_lowerName]
  generalize lowerName n = nm
  induction nm with
  | nil =>
    simp only [lsuf, absFind, List.reverse_nil]
    cases aget cls c <;> simp [lookupNode_nil]
  | cons l r ih =>
    simp only [lsuf, ← ih, absFind, List.reverse_cons]
    cases aget cls c with
    | none => simp
    | some root => simp [lookupNode_snoc]

theorem get_eq_absFind (c : Cat μ) (hF : c.Filed) (n : DName) (cls : Nat) :
    get c n cls = absFind c (cls, foldName n) := by
  simp only [get, lookup_eq_lsuf]
  have hlen : (foldName n).length = n.length := by simp [foldName]
  cases hf : absFind c (cls, foldName n) with
  | some e0 =>
    have hl : lsuf (absFind c) cls (foldName n) = some e0 := by
      cases hn : foldName n with
      | nil => simp [lsuf, ← hn, hf]
      | cons l r => simp [lsuf, ← hn, hf]
    have hk := hF _ _ hf
    simp only [keyOf, Prod.mk.injEq] at hk
    have : e0.name.length = n.length := by
      have := congrArg List.length hk.2
      simpa [foldName] using this
    simp [hl, Option.filter, this]
  | none =>
    cases hl : lsuf (absFind c) cls (foldName n) with
    | none => simp [Option.filter]
    | some e =>
      obtain ⟨s, hs, hfs⟩ := lsuf_some _ _ _ _ hl
      have hk := hF _ _ hfs
      simp only [keyOf, Prod.mk.injEq] at hk
      have hne : s ≠ foldName n := by
        intro he; subst he; rw [hf] at hfs; cases hfs
      have hlt : s.length < (foldName n).length := by
        have hle := hs.length_le
        rcases Nat.lt_or_eq_of_le hle with h | h
        · exact h
        · exact absurd (hs.eq_of_length h) hne
      have : e.name.length = s.length := by
        have := congrArg List.length hk.2
        simpa [foldName] using this
      have hne' : ¬ e.name.length = n.length := by omega
      simp [Option.filter, hne']

/-! ### iteration -/

theorem iter_eq_abs (c : Cat μ) : iter c = (abs c).map (·.2) := by
  induction c with
  | nil => rfl
  | cons a r ih =>
    obtain ⟨cls, root⟩ := a
    simp [iter, abs, ih, entries_eq_toList, List.map_map, Function.comp_def]

theorem absFind_cons (cls : Nat) (root : Node μ) (r : Cat μ) (k : Key) :
    absFind ((cls, root) :: r) k = if cls = k.1 then findAt k.2.reverse root else absFind r k := by
  simp only [absFind, aget]
  by_cases h : cls = k.1 <;> simp [h]

theorem mem_abs (c : Cat μ) (h : c.WF) (k : Key) (e : Entry μ) :
    (k, e) ∈ abs c ↔ absFind c k = some e := by
  induction c with
  | nil => simp [abs, absFind, aget]
  | cons a r ih =>
    obtain ⟨cls, root⟩ := a
    have hnk := nodupKeys_cons.mp h.1
    have hr : Cat.WF r := ⟨hnk.2, fun q hq => h.2 q (List.mem_cons_of_mem _ hq)⟩
    have hroot := (h.2 (cls, root) List.mem_cons_self).1
    rw [absFind_cons]
    simp only [abs, List.mem_append, List.mem_map, ih hr]
    obtain ⟨kc, kn⟩ := k
    constructor
    · rintro (⟨⟨p, x⟩, hx, hk⟩ | hx)
      · simp only [Prod.mk.injEq] at hk
        obtain ⟨⟨rfl, rfl⟩, rfl⟩ := hk
        simp [(mem_toList root hroot p x).mp hx]
      · have : cls ≠ kc := by
          intro he; subst he
          simp only [absFind] at hx
          cases hg : aget cls r with
          | none => simp [hg] at hx
          | some sub => exact hnk.1 (cls, sub) (mem_of_aget hg) rfl
        simp [this, hx]
    · intro hx
      by_cases hc : cls = kc
      · subst hc
        simp only [if_true] at hx
        left
        exact ⟨(kn.reverse, e), (mem_toList root hroot _ _).mpr hx, by simp⟩
      · simp only [hc, if_false] at hx
        right; exact hx

theorem abs_keys_class (c : Cat μ) : ∀ k ∈ (abs c).map (·.1), k.1 ∈ c.map (·.1) := by
  induction c with
  | nil => simp [abs]
  | cons a r ih =>
    obtain ⟨cls, root⟩ := a
    intro k hk
    simp only [abs, List.map_append, List.mem_append, List.map_map] at hk
    rcases hk with hk | hk
    · simp only [List.mem_map, Function.comp] at hk
      obtain ⟨x, _, rfl⟩ := hk
      simp
    · simp only [List.map_cons, List.mem_cons]; right; exact ih k hk

theorem nodupKeys_abs (c : Cat μ) (h : c.WF) : NodupKeys (abs c) := by
  induction c with
  | nil => simp [abs]
  | cons a r ih =>
    obtain ⟨cls, root⟩ := a
    have hnk := nodupKeys_cons.mp h.1
    have hr : Cat.WF r := ⟨hnk.2, fun q hq => h.2 q (List.mem_cons_of_mem _ hq)⟩
    have hroot := (h.2 (cls, root) List.mem_cons_self).1
    unfold NodupKeys
    simp only [abs, List.map_append, List.map_map, List.nodup_append]
    refine ⟨?_, ih hr, ?_⟩
    · have : (List.map ((fun x => x.1) ∘ fun pe : List Label × Entry μ => ((cls, pe.1.reverse), pe.2))
          root.toList) = (root.toList.map (·.1)).map (fun p => (cls, p.reverse)) := by
        simp [List.map_map]
      rw [this]
      exact List.Pairwise.map _ (fun a b hab hc => hab (by simpa using hc)) (nodup_toList root hroot)
    · intro k hk k' hk' he
      subst he
      simp only [List.mem_map, Function.comp] at hk
      obtain ⟨x, _, rfl⟩ := hk
      have := abs_keys_class r _ hk'
      simp only [List.mem_map] at this
      obtain ⟨q, hq, hqe⟩ := this
      exact hnk.1 q hq hqe

/-- two duplicate-free association lists with the same bindings are permutations of each other -/
theorem perm_of_bindings {ε : Type} {l1 l2 : SMap ε} (h1 : NodupKeys l1) (h2 : NodupKeys l2)
    (h : ∀ k, sfind l1 k = sfind l2 k) : l1.Perm l2 := by
  have n1 : l1.Nodup := List.Pairwise.of_map Prod.fst (fun a b hab he => hab (by rw [he])) h1
  have n2 : l2.Nodup := List.Pairwise.of_map Prod.fst (fun a b hab he => hab (by rw [he])) h2
  rw [List.perm_ext_iff_of_nodup n1 n2]
  intro ⟨k, v⟩
  constructor
  · intro hm
    have := aget_of_mem h1 hm
    rw [← sfind_eq_aget, h, sfind_eq_aget] at this
    exact mem_of_aget this
  · intro hm
    have := aget_of_mem h2 hm
    rw [← sfind_eq_aget, ← h, sfind_eq_aget] at this
    exact mem_of_aget this

theorem sfind_abs (c : Cat μ) (h : c.WF) (k : Key) : sfind (abs c) k = absFind c k := by
  rw [sfind_eq_aget]
  cases hf : absFind c k with
  | some e => exact aget_of_mem (nodupKeys_abs c h) ((mem_abs c h k e).mpr hf)
  | none =>
    cases hg : aget k (abs c) with
    | none => rfl
    | some e => rw [(mem_abs c h k e).mp (mem_of_aget hg)] at hf; cases hf

/-! ### histories: the tree refines the map -/

/-- the specification's reading of one operation -/
def specStep (m : SMap (Entry μ)) : Op μ → SMap (Entry μ)
  | .insert e => sinsert m (keyOf e) e
  | .remove n cls => serase m (cls, foldName n)

/-- the finite map after a history -/
def specRun (ops : List (Op μ)) : SMap (Entry μ) := ops.foldl specStep []

/-- simulation relation between a catalog tree and a finite map -/
def Refines (c : Cat μ) (m : SMap (Entry μ)) : Prop :=
  c.Inv ∧ NodupKeys m ∧ ∀ k, absFind c k = sfind m k

theorem refines_step (c : Cat μ) (m : SMap (Entry μ)) (op : Op μ) (h : Refines c m) :
    Refines (step c op) (specStep m op) := by
  obtain ⟨hi, hn, hf⟩ := h
  cases op with
  | insert e =>
    refine ⟨inv_insert c e hi, nodupKeys_sinsert _ _ hn, ?_⟩
    intro k; simp only [step, specStep, absFind_insert, sfind_sinsert, hf]
  | remove n cls =>
    refine ⟨inv_remove c n cls hi, nodupKeys_serase _ hn, ?_⟩
    intro k; simp only [step, specStep, absFind_remove, sfind_serase, hf]

theorem refines_foldl (ops : List (Op μ)) (c : Cat μ) (m : SMap (Entry μ)) (h : Refines c m) :
    Refines (ops.foldl step c) (ops.foldl specStep m) := by
  induction ops generalizing c m with
  | nil => exact h
  | cons op r ih => exact ih _ _ (refines_step c m op h)

theorem refines_run (ops : List (Op μ)) : Refines (run ops) (specRun ops) :=
  refines_foldl ops _ _ ⟨inv_empty, by simp, fun k => by simp [absFind, Cat.empty, aget, sfind]⟩

/-! ### SingleZoneCatalog helpers -/

theorem zip_all_eq_iff {α : Type} [BEq α] [LawfulBEq α] (a b : List α) (h : a.length = b.length) :
    (a.zip b).all (fun p => p.1 == p.2) = true ↔ a = b := by
  induction a generalizing b with
  | nil => cases b <;> simp_all
  | cons x a ih =>
    cases b with
    | nil => simp at h
    | cons y b =>
      simp only [List.length_cons, Nat.add_right_cancel_iff] at h
      simp [ih b h]

theorem zip_all_prefix_iff {α : Type} [BEq α] [LawfulBEq α] (a b : List α) (h : b.length ≤ a.length) :
    (a.zip b).all (fun p => p.1 == p.2) = true ↔ b <+: a := by
  induction a generalizing b with
  | nil => cases b <;> simp_all
  | cons x a ih =>
    cases b with
    | nil => simp
    | cons y b =>
      simp only [List.length_cons, Nat.add_le_add_iff_right] at h
      simp only [List.zip_cons_cons, List.all_cons, beq_iff_eq, Bool.and_eq_true, ih b h,
        List.cons_prefix_cons]
      exact ⟨fun ⟨h1, h2⟩ => ⟨h1.symm, h2⟩, fun ⟨h1, h2⟩ => ⟨h1.symm, h2⟩⟩

theorem longestSuffix_single {ε : Type} (k : Key) (e : ε) (cls : Nat) (nm : SName) :
    longestSuffix (single k e) cls nm = if k.1 = cls ∧ k.2 <:+ nm then some e else none := by
  obtain ⟨kc, kn⟩ := k
  induction nm with
  | nil =>
    simp only [longestSuffix, single, sfind, Prod.mk.injEq, List.suffix_nil]
  | cons l r ih =>
    simp only [longestSuffix]
    rw [ih]
    simp only [single, sfind, Prod.mk.injEq, List.suffix_cons_iff]
    by_cases hc : kc = cls
    · by_cases h1 : kn = l :: r
      · simp [hc, h1]
      · simp [hc, h1]
    · simp [hc]

theorem eqOrSubdomainOf_iff (n o : DName) :
    eqOrSubdomainOf n o = true ↔ lowerName o <:+ lowerName n := by
  simp only [eqOrSubdomainOf, Bool.and_eq_true, decide_eq_true_eq, ge_iff_le,
    Nat.add_le_add_iff_right]
  constructor
  · intro ⟨hl, ha⟩
    have h2 : (lowerName o).reverse.length ≤ (lowerName n).reverse.length := by
      simpa [lowerName] using hl
    exact List.reverse_prefix.mp ((zip_all_prefix_iff _ _ h2).mp ha)
  · intro hs
    have hl : o.length ≤ n.length := by simpa [lowerName] using hs.length_le
    have h2 : (lowerName o).reverse.length ≤ (lowerName n).reverse.length := by
      simpa [lowerName] using hl
    exact ⟨hl, (zip_all_prefix_iff _ _ h2).mpr (List.reverse_prefix.mpr hs)⟩

theorem nameEq_iff (a b : DName) : nameEq a b = true ↔ lowerName a = lowerName b := by
  simp only [nameEq, Bool.and_eq_true, beq_iff_eq, Nat.add_right_cancel_iff]
  constructor
  · intro ⟨hl, ha⟩
    have h2 : (lowerName a).length = (lowerName b).length := by simpa [lowerName] using hl
    exact (zip_all_eq_iff _ _ h2).mp ha
  · intro hs
    have hl : a.length = b.length := by simpa [lowerName] using congrArg List.length hs
    have h2 : (lowerName a).length = (lowerName b).length := by simpa [lowerName] using hl
    exact ⟨hl, (zip_all_eq_iff _ _ h2).mpr hs⟩

end QV.Catalog
