/-
  QV.Proofs.RequestView — the request-side link of C10 (1a), specification side: on a request whose
  scan reaches an acceptable TSIG record (`specScanWith … = tsigReached`), the audit's own walk
  `Spec.ServerTsig.findTsig` ends at that very record.
-/
import QV.Spec.ServerTsig
import QV.Proofs.ScanRefine
import QV.Proofs.ScanTsigCont
import QV.Proofs.ServerSignedTable

namespace QV.ServerScan
open QV QV.Spec.Server QV.Spec.ServerTsig QV.Wire QV.Reader QV.Writer

/-- what the delimitation of a record says about its extent -/
theorem delim_extent (req : Bytes) (pos : Nat) (d : Spec.Server.Delim) (h : Spec.Server.specDelimit req pos = some d) :
    d.pos = pos ∧ d.next = d.ownerEnd + 10 + d.rdlen ∧ d.next ≤ req.size := by
  rw [specDelimit_eq] at h
  split at h
  · split at h
    · rename_i hc
      simp only [Option.some.injEq] at h
      rw [← h]
      exact ⟨rfl, rfl, hc.2⟩
    · cases h
  · cases h


theorem walk_pos_ge (msg : Bytes) : ∀ (n pos : Nat) (d : Delim), walk msg n pos = some d → pos ≤ d.pos := by
  intro n
  induction n with
  | zero => intro pos d h; simp [walk] at h
  | succ n ih =>
    intro pos d h
    unfold walk at h
    cases hd : specDelimit msg pos with
    | none => rw [hd] at h; cases h
    | some d0 =>
      rw [hd] at h
      simp only at h
      obtain ⟨e1, e2, _⟩ := delim_extent msg pos d0 hd
      split at h
      · cases h; omega
      · have := ih d0.next d h
        have : d0.ownerEnd ≥ d0.pos := by
          rw [specDelimit_eq] at hd
          split at hd
          · split at hd
            · simp only [Option.some.injEq] at hd; rw [← hd]; simp
            · cases hd
          · cases hd
        omega

theorem scanPlain_ge (msg : Bytes) : ∀ (n pos p2 : Nat), scanPlain msg n pos = some p2 → pos ≤ p2 := by
  intro n
  induction n with
  | zero => intro pos p2 h; simp only [scanPlain, Option.some.injEq] at h; omega
  | succ n ih =>
    intro pos p2 h
    unfold scanPlain at h
    cases hd : specDelimit msg pos with
    | none => rw [hd] at h; cases h
    | some d0 =>
      rw [hd] at h
      simp only at h
      obtain ⟨e1, e2, _⟩ := delim_extent msg pos d0 hd
      split at h
      · cases h
      · have := ih d0.next p2 h
        have : d0.ownerEnd ≥ d0.pos := by
          rw [specDelimit_eq] at hd
          split at hd
          · split at hd
            · simp only [Option.some.injEq] at hd; rw [← hd]; simp
            · cases hd
          · cases hd
        omega

/-- the walk passes over the answer / authority records the scan accepted -/
theorem walk_scanPlain (msg : Bytes) : ∀ (n pos p2 m : Nat), scanPlain msg n pos = some p2 → 1 ≤ m →
    walk msg (n + m) pos = walk msg m p2 := by
  intro n
  induction n with
  | zero =>
    intro pos p2 m h _
    simp only [scanPlain, Option.some.injEq] at h
    rw [h, Nat.zero_add]
  | succ n ih =>
    intro pos p2 m h hm
    unfold scanPlain at h
    cases hd : specDelimit msg pos with
    | none => rw [hd] at h; cases h
    | some d =>
      rw [hd] at h
      simp only at h
      split at h
      · cases h
      · have key : walk msg (n + 1 + m) pos = walk msg (n + m) d.next := by
          rw [show n + 1 + m = (n + m) + 1 by omega]
          simp only [walk, hd]
          rw [if_neg (by omega)]
        rw [key]
        exact ih d.next p2 m h hm

/-- the walk ends at the TSIG record the additional-section scan stops at -/
theorem walk_scanAr (msg : Bytes) (S : Nat) : ∀ (n total pos : Nat) (e : Bool) (lim : Nat) (e' : Bool) (l' : Nat),
    scanAr msg S n total pos e lim = (.tsig, e', l') →
    ∃ d, walk msg n pos = some d ∧ d.ty = 250 ∧ d.cls = 255 ∧ d.rawTtl = 0 ∧
      (Spec.specDecodeName msg d.pos).isSome ∧ tsigRdataOk msg (d.ownerEnd + 10) d.next = true ∧
      specDelimit msg d.pos = some d := by
  intro n
  induction n with
  | zero => intro total pos e lim e' l' h; simp [scanAr] at h
  | succ n ih =>
    intro total pos e lim e' l' h
    unfold scanAr at h
    cases hd : specDelimit msg pos with
    | none => rw [hd] at h; simp at h
    | some d =>
      rw [hd] at h
      simp only at h
      have hdpos : d.pos = pos := by
        unfold specDelimit at hd
        repeat' split at hd
        all_goals first | (cases hd; done) | (simp only [Option.some.injEq] at hd; rw [← hd])
      by_cases h41 : d.ty = 41
      · rw [if_pos h41] at h
        have hstep : ∀ dT, walk msg n d.next = some dT → walk msg (n + 1) pos = some dT := by
          intro dT hw
          simp only [walk, hd]
          by_cases hn : n = 0
          · subst hn; simp [walk] at hw
          · rw [if_neg hn]; exact hw
        cases e with
        | true => simp at h
        | false =>
          simp only [Bool.false_eq_true, if_false] at h
          cases hdn : Spec.specDecodeName msg pos with
          | none => rw [hdn] at h; simp at h
          | some v =>
            obtain ⟨owner, a, b⟩ := v
            rw [hdn] at h
            simp only at h
            by_cases ho : optRdataOk msg (d.rdlen + 1) (d.ownerEnd + 10) d.next = true
            · simp only [ho, Bool.not_true, Bool.false_eq_true, if_false] at h
              by_cases hown : owner ≠ [0]
              · rw [if_pos hown] at h; simp at h
              · rw [if_neg hown] at h
                by_cases hver : d.rawTtl / 65536 % 256 ≠ 0
                · rw [if_pos hver] at h; simp at h
                · rw [if_neg hver] at h
                  obtain ⟨dT, hw, rest⟩ := ih total d.next true _ e' l' h
                  exact ⟨dT, hstep dT hw, rest⟩
            · have : optRdataOk msg (d.rdlen + 1) (d.ownerEnd + 10) d.next = false := by simpa using ho
              simp only [this, Bool.not_false, if_true] at h
              simp at h
      · rw [if_neg h41] at h
        by_cases h250 : d.ty = 250
        · rw [if_pos h250] at h
          split at h
          · simp at h
          · rename_i hn0
            have hn : n = 0 := by simpa using hn0
            split at h
            · simp at h
            · rename_i v hv
              split at h
              · simp at h
              · rename_i hok
                split at h
                · simp at h
                · rename_i hcl
                  refine ⟨d, ?_, h250, by omega, by omega, by rw [hdpos, hv]; rfl, by simpa using hok, by rw [hdpos]; exact hd⟩
                  unfold walk
                  rw [hd]
                  simp [hn]
        · rw [if_neg h250] at h
          obtain ⟨dT, hw, rest⟩ := ih total d.next e lim e' l' h
          refine ⟨dT, ?_, rest⟩
          unfold walk
          rw [hd]
          simp only
          by_cases hn : n = 0
          · subst hn; simp [walk] at hw
          · rw [if_neg hn]; exact hw

/-- **the audit's walk finds the TSIG record the scan reached**: for a request whose scan ends with
    `tsigReached`, `findTsig` returns the delimitation `d` of that record — TYPE 250, CLASS ANY, TTL 0,
    an owner that decodes, RDATA of the RFC 8945 §4.2 layout — reached from the position `p1` after the
    question over the answer / authority records (`scanPlain`) and the records of the additional
    section before it; `e`, `l` are the EDNS flag and UDP limit the scan had when it reached it -/
theorem findTsig_of_tsigReached (lookup : List UInt8 → Nat → Option ZoneKind) (S : Nat) (req : Bytes)
    (hr : (specScanWith lookup S req).respond = true) (hv : (specScanWith lookup S req).verdict = .tsigReached) :
    ∃ d p1 p2, findTsig req = some d ∧ d.ty = 250 ∧ d.cls = 255 ∧ d.rawTtl = 0 ∧
      (Spec.specDecodeName req d.pos).isSome ∧ tsigRdataOk req (d.ownerEnd + 10) d.next = true ∧
      specDelimit req d.pos = some d ∧
      scanPlain req (hdr req 6 + hdr req 8) p1 = some p2 ∧
      walk req (hdr req 10) p2 = some d ∧
      (scanAr req S (hdr req 10) (hdr req 10) p2 false 512).1 = .tsig ∧ 12 ≤ d.pos := by
  rw [specScanWith_eq] at hr hv
  by_cases h12 : req.size < 12
  · simp only [h12, if_true] at hr; cases hr
  simp only [h12, if_false] at hr hv
  by_cases hqr : (req.getD 2 0).toNat ≥ 128
  · simp only [hqr, if_true] at hr; cases hr
  simp only [hqr, if_false] at hr hv
  unfold specBody at hr hv
  by_cases hqd : hdr req 4 > 1
  · simp only [hqd, if_true] at hr; cases hr
  simp only [hqd, if_false] at hr hv
  generalize hqres : (if hdr req 4 = 0 then some ((none : Option Spec.DQuestion), 12)
      else match Spec.specQuestionAt req 12 with
        | some (w, t, c, nx) => some (some ⟨w, t, c⟩, nx)
        | none => none) = qres at hr hv
  cases qres with
  | none => simp only at hv; cases hv
  | some qp =>
    obtain ⟨q, p1⟩ := qp
    simp only at hv
    unfold specTail at hv
    cases hpl : scanPlain req (hdr req 6 + hdr req 8) p1 with
    | none => rw [hpl] at hv; cases hv
    | some p2 =>
      rw [hpl] at hv
      simp only at hv
      generalize hres : scanAr req S (hdr req 10) (hdr req 10) p2 false 512 = res at hv
      obtain ⟨en, e, l⟩ := res
      cases en with
      | formErr => cases hv
      | badVers => cases hv
      | done p3 =>
        simp only at hv
        repeat' split at hv
        all_goals cases hv
      | tsig =>
        obtain ⟨d, hw, g1, g2, g3, g4, g5, g6⟩ := walk_scanAr req S _ _ _ _ _ _ _ hres
        have har1 : 1 ≤ hdr req 10 := by
          by_cases h0 : hdr req 10 = 0
          · rw [h0] at hw; simp [walk] at hw
          · omega
        have hp1ge : 12 ≤ p1 := by
          by_cases h0 : hdr req 4 = 0
          · rw [if_pos h0] at hqres
            simp only [Option.some.injEq, Prod.mk.injEq] at hqres
            omega
          · rw [if_neg h0] at hqres
            cases hsq : Spec.specQuestionAt req 12 with
            | none => rw [hsq] at hqres; cases hqres
            | some v =>
              obtain ⟨w, t, c, nx⟩ := v
              rw [hsq] at hqres
              simp only [Option.some.injEq, Prod.mk.injEq] at hqres
              obtain ⟨p, _, _, hnx, _⟩ := specQuestionAt_some req 12 w t c nx hsq
              omega
        have hpos12 : 12 ≤ d.pos := by
          have := scanPlain_ge req _ p1 p2 hpl
          have := walk_pos_ge req _ p2 d hw
          omega
        refine ⟨d, p1, p2, ?_, g1, g2, g3, g4, g5, g6, hpl, hw, by rw [hres], hpos12⟩
        unfold findTsig
        simp only
        have hfin : walk req (hdr req 6 + hdr req 8 + hdr req 10) p1 = some d := by
          rw [walk_scanPlain req _ p1 p2 _ hpl har1]; exact hw
        by_cases h0 : hdr req 4 = 0
        · rw [if_pos h0] at hqres
          simp only [Option.some.injEq, Prod.mk.injEq] at hqres
          simp only [h0, if_true]
          rw [hqres.2]; exact hfin
        · rw [if_neg h0] at hqres
          simp only [h0, if_false]
          cases hsq : Spec.specQuestionAt req 12 with
          | none => rw [hsq] at hqres; cases hqres
          | some v =>
            obtain ⟨w, t, c, nx⟩ := v
            rw [hsq] at hqres
            simp only [Option.some.injEq, Prod.mk.injEq] at hqres
            simp only
            rw [hqres.2]; exact hfin

/-! ### the model's TSIG record is the one the audit's walk finds -/

theorem hwc_tsig_view (cfg : Server.Cfg) (tr : Server.Transport) (now : Nat) (req : Bytes) (h12 : 12 ≤ req.size)
    (sH : State) (hH : HdrOk sH tr cfg.payload) (hreq : req.size ≤ Rdata.USIZE_MAX)
    (hv : (specBody (catKind cfg) cfg.payload req).verdict = .tsigReached) :
    ∃ (t : Tsig.ReadTsigRr) (mw : Bytes) (r' : Reader) (question : Option (WName × Nat × Nat)),
      r'.octets = req ∧ r'.cursor ≤ req.size ∧
      QRel (specBody (catKind cfg) cfg.payload req).question question ∧
      Server.handleWithContext cfg tr now ⟨req, 12, none⟩ sH =
        afterTsig cfg tr req (specBody (catKind cfg) cfg.payload req).question question
          ((req.getD 2 0).toNat / 8 % 16) r'.cursor
          (Server.tsigAfter cfg now t mw r'
            (arSt (qSt sH (specBody (catKind cfg) cfg.payload req).question) tr cfg.payload
              (specBody (catKind cfg) cfg.payload req).edns (specBody (catKind cfg) cfg.payload req).limitUdp)) ∧
      ∃ d, Spec.ServerTsig.findTsig req = some d ∧ TsigView req d t mw r' := by
  obtain ⟨hqd, han, hns, har, _, hop, _, _⟩ := reader_header req h12
  have hi0 : Inv (⟨req, 12, none⟩ : Reader) := ⟨h12, h12⟩
  have hbH := base_of_hdr sH tr cfg.payload hH
  rw [Server.handleWithContext_split]
  unfold Server.handleWithContext'
  simp only [hqd, han, hns, har, hop, opcode_bits]
  by_cases hq0 : Spec.Server.hdr req 4 = 0
  · have hsc : specBody (catKind cfg) cfg.payload req = specTail (catKind cfg) cfg.payload req none 12
        (Spec.Server.hdr req 6) (Spec.Server.hdr req 8) (Spec.Server.hdr req 10) ((req.getD 2 0).toNat / 8 % 16) := by
      unfold specBody
      simp only [hq0, show ¬ (0 > 1) by omega, if_false, if_true]
    have hq : (specBody (catKind cfg) cfg.payload req).question = none := by
      rw [hsc]; unfold specTail
      repeat' split
      all_goals rfl
    simp only [hq0, if_true]
    rw [hsc] at hv
    obtain ⟨t, mw, r', h1, h2, h3, p2, dT, hpl, hwalk, hview⟩ := scanAndDispatch_tsig_view cfg tr now req none none trivial ⟨req, 12, none⟩ hi0 rfl
      sH hbH hreq tsigFacts (Spec.Server.hdr req 6) (Spec.Server.hdr req 8) (Spec.Server.hdr req 10)
      ((req.getD 2 0).toNat / 8 % 16) (by rw [hH.cursor]; exact Nat.le_refl _)
      (by rw [hH.rrStart]; exact Nat.le_refl _) hv
    have hfind : Spec.ServerTsig.findTsig req = some dT := by
      have har1 : 1 ≤ Spec.Server.hdr req 10 := by
        by_cases h0 : Spec.Server.hdr req 10 = 0
        · rw [h0] at hwalk; simp [Spec.ServerTsig.walk] at hwalk
        · omega
      unfold Spec.ServerTsig.findTsig
      simp only [hq0, if_true]
      rw [walk_scanPlain req _ 12 p2 _ hpl har1]; exact hwalk
    refine ⟨t, mw, r', none, h1, h2, by rw [hq]; trivial, ?_, dT, hfind, hview⟩
    rw [hq, ← hsc] at *
    rw [bind_ok (show Server.addQuestionOrServfail none sH = (.ok true, sH) from rfl)]
    simp only [Bool.not_true, Bool.false_eq_true, if_false]
    rw [hsc]
    exact h3
  · by_cases hq1 : Spec.Server.hdr req 4 = 1
    · simp only [hq1, show ¬ ((1 : Nat) = 0) by omega, if_false, if_true]
      have hrq := readQuestion_spec (⟨req, 12, none⟩ : Reader)
      cases hsq : Spec.specQuestionAt req 12 with
      | none =>
        exfalso
        have : specBody (catKind cfg) cfg.payload req = { respond := true, verdict := .formErr } := by
          unfold specBody
          simp only [hq1, show ¬ ((1 : Nat) > 1) by omega, if_false, show ¬ ((1 : Nat) = 0) by omega, hsq]
        rw [this] at hv; cases hv
      | some v =>
        obtain ⟨w, t, c, nx⟩ := v
        rw [show (⟨req, 12, none⟩ : Reader).octets = req from rfl,
          show (⟨req, 12, none⟩ : Reader).cursor = 12 from rfl, hsq] at hrq
        simp only at hrq
        obtain ⟨p, hp, hpw, hnx, hnxs, hwl⟩ := specQuestionAt_some req 12 w t c nx hsq
        obtain ⟨qn, hqn, hqw⟩ := wname_of_parse req 12 p hp
        rw [hpw] at hqn hqw
        have hsc : specBody (catKind cfg) cfg.payload req = specTail (catKind cfg) cfg.payload req (some ⟨w, t, c⟩) nx
            (Spec.Server.hdr req 6) (Spec.Server.hdr req 8) (Spec.Server.hdr req 10) ((req.getD 2 0).toNat / 8 % 16) := by
          unfold specBody
          simp only [hq1, show ¬ ((1 : Nat) > 1) by omega, if_false, show ¬ ((1 : Nat) = 0) by omega, hsq]
        have hq : (specBody (catKind cfg) cfg.payload req).question = some ⟨w, t, c⟩ := by
          rw [hsc]; unfold specTail
          repeat' split
          all_goals rfl
        obtain ⟨hadd, hbase, _, hcur, _, _, _, _, hrrs⟩ := qSt_some sH tr cfg.payload hH ⟨w, t, c⟩ qn hqn hqw hwl
        simp only [hrq, hqn]
        have hQ : Server.addQuestionOrServfail (some (qn, t, c)) sH = (.ok true, qSt sH (some ⟨w, t, c⟩)) := by
          show (match addQuestion qn t c sH with
            | (.ok (), s') => ((.ok true : Out WriterErr Bool), s')
            | (.err _, s') => (do setRcode (Server.RC "SERVFAIL"); pure false : M Bool) s'
            | (.panic, s') => (.panic, s')) = _
          rw [hadd]
        rw [hsc] at hv
        obtain ⟨t', mw, r', h1, h2, h3, p2, dT, hpl, hwalk, hview⟩ := scanAndDispatch_tsig_view cfg tr now req (some ⟨w, t, c⟩) (some (qn, t, c))
          ⟨hqn, rfl, rfl⟩ ⟨req, nx, none⟩ ⟨h12, hnxs⟩ rfl _ hbase hreq tsigFacts
          (Spec.Server.hdr req 6) (Spec.Server.hdr req 8) (Spec.Server.hdr req 10) ((req.getD 2 0).toNat / 8 % 16)
          (by rw [hcur]; omega) (by rw [hrrs]; omega) hv
        have hfind : Spec.ServerTsig.findTsig req = some dT := by
          have har1 : 1 ≤ Spec.Server.hdr req 10 := by
            by_cases h0 : Spec.Server.hdr req 10 = 0
            · rw [h0] at hwalk; simp [Spec.ServerTsig.walk] at hwalk
            · omega
          unfold Spec.ServerTsig.findTsig
          simp only [hq1, show ¬ ((1 : Nat) = 0) by omega, if_false, hsq]
          rw [walk_scanPlain req _ nx p2 _ hpl har1]; exact hwalk
        refine ⟨t', mw, r', some (qn, t, c), h1, h2, by rw [hq]; exact ⟨hqn, rfl, rfl⟩, ?_, dT, hfind, hview⟩
        rw [bind_ok hQ]
        simp only [Bool.not_true, Bool.false_eq_true, if_false]
        rw [hq, hsc]
        exact h3
    · exfalso
      have hgt : Spec.Server.hdr req 4 > 1 := by omega
      have : specBody (catKind cfg) cfg.payload req = { respond := false } := by
        unfold specBody
        simp only [hgt, if_true]
      rw [this] at hv; cases hv


/-- **the run of `handle_message` on a signed request, with the TSIG record exposed**: the `t`, `mw`,
    `r'` of `TsigRun` are `ReadTsigRr::try_from` of the record `d` that the audit's `findTsig` finds,
    the request up to it, and the reader after it -/
theorem tsigRun_view (cfg : Server.Cfg) (tr : Server.Transport) (now bufLen : Nat) (req : Bytes)
    (hbuf : minBuf tr cfg.payload ≤ bufLen) (hpay : 512 ≤ cfg.payload) (hreq : req.size ≤ Rdata.USIZE_MAX)
    (hr : (Spec.Server.specScanWith (catKind cfg) cfg.payload req).respond = true)
    (hv : (Spec.Server.specScanWith (catKind cfg) cfg.payload req).verdict = .tsigReached) :
    ∃ t mw r' question d, ServerContent.TsigRun cfg tr now bufLen req t mw r' question ∧
      Spec.ServerTsig.findTsig req = some d ∧ TsigView req d t mw r' := by
  obtain ⟨h12, hqr, hsce⟩ := specScanWith_respond _ _ _ hr
  have hv' := hv
  rw [hsce] at hv'
  have hH := hdrSt_ok bufLen tr cfg.payload (Spec.Server.hdr req 0) (((req.getD 2 0).toNat &&& 120) >>> 3)
    (((req.getD 2 0).toNat &&& 1) != 0) hbuf hpay
  obtain ⟨t, mw, r', question, h1, h2, h3, h4, d, hfind, hview⟩ := hwc_tsig_view cfg tr now req h12 _ hH hreq hv'
  refine ⟨t, mw, r', question, d, ⟨h1, h2, by rw [hsce]; exact h3, ?_⟩, hfind, hview⟩
  unfold preTsigState
  rw [hsce]
  rw [handleMessage_eq cfg tr now bufLen req hbuf hpay h12 hqr, h4]
  generalize afterTsig _ _ _ _ _ _ _ _ = X
  rcases X with ⟨(bb | e | _), w1⟩
  · cases bb
    · rfl
    · simp only
      generalize Writer.finish w1 Server.macFn = f
      rcases f with ⟨b, m⟩ | e | _ <;> rfl
  · rfl
  · rfl

end QV.ServerScan
