/-
  QV.Proofs.ServerScan — layer L1 of C01: the scan phase of `handle_message_with_context`
  (question, answer/authority scan, additional scan with OPT and TSIG handling).

  Every reader call is made on a reader satisfying `Reader.Inv` (C15), so none panics; the
  `PeekRr` accessors are in range after a successful `peek_rr`; the names the reader returns convert
  to `WName`s (C14); `set_extended_rcode` cannot fail after `set_edns`; `index != arcount - 1` does
  not underflow; `ReadTsigRr::try_from` is only applied to validated TSIG RDATA; `verify_request`
  is only applied to a message whose ARCOUNT counts the TSIG record; the time is representable
  (environment assumption `now < 2^48`).
-/
import QV.Proofs.ServerWriter
import QV.Proofs.WriterV0
import QV.Properties.C15

namespace QV.ServerSafety
open QV QV.Writer QV.Server QV.Reader QV.Wire

variable (W : WriterSafe)


/-! ### the reader side of the scan -/

/-- what the server needs from `Rdata::read` (C18 `C18_read_no_panic`): no panic for an RDLENGTH
    that fits a `u16` and a region whose end is a `usize` -/
def RdataSafe : Prop :=
  ∀ c t (msg : Bytes) cur len, len ≤ 65535 → cur + len < 2^64 → Rdata.read c t msg cur len ≠ .panic

/-- … which is C18's theorem about the RDATA model -/
theorem rdataSafe : RdataSafe := fun c t msg cur len h1 h2 =>
  C18.C18_read_no_panic c t msg cur len h1 (by unfold Rdata.USIZE_MAX; omega)

theorem be16_lt (b : Bytes) (i : Nat) : be16 b i < 65536 := by
  unfold be16
  have h1 := (b.getD i 0).toNat_lt
  have h2 := (b.getD (i+1) 0).toNat_lt
  omega

/-- `PeekRr::parse` spelled out after a successful `peek_rr` -/
theorem peek_parse_eq (rdr : RdRead) (r : Reader) (p : PeekRr) (h : peekRr r = .ok p) :
    p.parse rdr =
      match parseCompressed r.octets r.cursor with
      | .panic => (.panic, r)
      | .err e => (.err (.InvalidOwner e), r)
      | .ok n =>
        match rdr (be16 r.octets (p.ownerEnd + 2)) (be16 r.octets p.ownerEnd) r.octets (p.ownerEnd + 10)
                (be16 r.octets (p.ownerEnd + 8)) with
        | .panic => (.panic, r)
        | .err e => (.err (.InvalidRdata e), r)
        | .ok rd => (.ok ⟨n.wire, be16 r.octets p.ownerEnd, be16 r.octets (p.ownerEnd + 2),
                      Reader.ttlFrom (be32 r.octets (p.ownerEnd + 4)), rd⟩, { r with cursor := p.rrEnd }) := by
  obtain ⟨hr0, a1, a2, a3, a4, a5, a6, a7⟩ := C15.C15_peek_accessors r p h
  unfold PeekRr.parse PeekRr.owner
  rw [hr0]
  cases hp : parseCompressed r.octets r.cursor with
  | panic => rfl
  | err e => rfl
  | ok n =>
    simp only [a1, a2, a4, a5]
    cases rdr (be16 r.octets (p.ownerEnd + 2)) (be16 r.octets p.ownerEnd) r.octets (p.ownerEnd + 10)
        (be16 r.octets (p.ownerEnd + 8)) <;> rfl

theorem rdRead_no_panic (hrd : RdataSafe) (c t : Nat) (msg : Bytes) (cur len : Nat)
    (h1 : len ≤ 65535) (h2 : cur + len < 2^64) : rdRead c t msg cur len ≠ .panic := by
  unfold rdRead
  cases h : Rdata.read c t msg cur len with
  | panic => exact absurd h (hrd c t msg cur len h1 h2)
  | err e => simp
  | ok b => simp

/-- `peek_rr().parse()` with the real RDATA reader: never a panic; on success the reader has
    moved to the end of the record -/
theorem peek_parse_safe (hrd : RdataSafe) (r : Reader) (hsz : r.octets.size < 2^64) (p : PeekRr)
    (h : peekRr r = .ok p) :
    (p.parse rdRead).1 ≠ .panic ∧
    (∀ rr r', p.parse rdRead = (.ok rr, r') →
      r' = { r with cursor := p.rrEnd } ∧ rr.rrType = be16 r.octets p.ownerEnd ∧
      (∃ n, parseCompressed r.octets r.cursor = .ok n ∧ rr.owner = n.wire) ∧
      rdRead rr.cls rr.rrType r.octets (p.ownerEnd + 10) (be16 r.octets (p.ownerEnd + 8)) = .ok rr.rdata ∧
      rr.cls = be16 r.octets (p.ownerEnd + 2)) := by
  obtain ⟨hr0, a1, a2, a3, a4, a5, a6, a7⟩ := C15.C15_peek_accessors r p h
  rw [peek_parse_eq rdRead r p h]
  cases hp : parseCompressed r.octets r.cursor with
  | panic => exact absurd hp (C14.C14_no_panic _ _)
  | err e => exact ⟨by simp, fun rr r' hh => by cases hh⟩
  | ok n =>
    simp only
    have hb := be16_lt r.octets (p.ownerEnd + 8)
    cases h5 : rdRead (be16 r.octets (p.ownerEnd + 2)) (be16 r.octets p.ownerEnd) r.octets (p.ownerEnd + 10)
        (be16 r.octets (p.ownerEnd + 8)) with
    | panic => exact absurd h5 (rdRead_no_panic hrd _ _ _ _ _ (by omega) (by omega))
    | err e => exact ⟨by simp, fun rr r' hh => by cases hh⟩
    | ok rd =>
      refine ⟨by simp, fun rr r' hh => ?_⟩
      simp only [Prod.mk.injEq, Out.ok.injEq] at hh
      obtain ⟨rfl, rfl⟩ := hh
      exact ⟨rfl, rfl, ⟨n, rfl, rfl⟩, h5, rfl⟩



/-! ### answer + authority scan -/

/-- `scanAnNs` with the reader's panics made explicit (the model folds them into "FORMERR") -/
def scanAnNsP : Nat → Reader → Out Unit (Option Reader)
  | 0, r => .ok (some r)
  | n+1, r =>
    match Reader.peekRr r with
    | .ok p =>
      match p.rrType with
      | .ok t => if t = T "OPT" ∨ t = T "TSIG" then .ok none else scanAnNsP n p.skip
      | .err _ => .ok none
      | .panic => .panic
    | .err _ => .ok none
    | .panic => .panic

theorem peek_skip_inv (r : Reader) (hi : Reader.Inv r) (p : PeekRr) (h : peekRr r = .ok p) :
    Reader.Inv p.skip ∧ p.skip.octets = r.octets := by
  obtain ⟨hr0, _, _, _, _, _, _, a7⟩ := C15.C15_peek_accessors r p h
  unfold PeekRr.skip
  rw [hr0]
  exact ⟨⟨hi.1, a7⟩, rfl⟩

/-- on a reader satisfying the invariant no call of the answer/authority scan panics, so the
    model's `scanAnNs` (which has no panic outcome) loses nothing -/
theorem scanAnNs_no_panic (n : Nat) (r : Reader) (hi : Reader.Inv r) :
    scanAnNsP n r = .ok (scanAnNs n r) := by
  induction n generalizing r with
  | zero => rfl
  | succ n ih =>
    unfold scanAnNsP scanAnNs
    cases hp : peekRr r with
    | panic => exact absurd hp (C15.C15_peek_rr_no_panic r hi)
    | err e => rfl
    | ok p =>
      obtain ⟨_, a1, _⟩ := C15.C15_peek_accessors r p hp
      simp only [a1]
      split
      · rfl
      · exact ih _ (peek_skip_inv r hi p hp).1

theorem scanAnNs_inv (n : Nat) (r r' : Reader) (hi : Reader.Inv r) (h : scanAnNs n r = some r') :
    Reader.Inv r' ∧ r'.octets = r.octets := by
  induction n generalizing r with
  | zero => simp [scanAnNs] at h; subst h; exact ⟨hi, rfl⟩
  | succ n ih =>
    unfold scanAnNs at h
    cases hp : peekRr r with
    | panic => rw [hp] at h; cases h
    | err e => rw [hp] at h; cases h
    | ok p =>
      rw [hp] at h
      obtain ⟨_, a1, _⟩ := C15.C15_peek_accessors r p hp
      simp only [a1] at h
      split at h
      · cases h
      · obtain ⟨h1, h2⟩ := peek_skip_inv r hi p hp
        obtain ⟨g1, g2⟩ := ih _ h1 h
        exact ⟨g1, g2.trans h2⟩

/-! ### writer calls: what holds by unfolding -/

theorem setEdns_ok_edns (p : Nat) (s s1 : State) (h : setEdns p s = (.ok (), s1)) : s1.edns.isSome := by
  unfold setEdns at h
  split at h
  · cases h
  · split at h
    · cases h
    · split at h
      · cases h
      · cases h; rfl

theorem setLimit_edns (v : Nat) (s : State) : (setLimit v s).2.edns = s.edns := by
  unfold setLimit
  dsimp only
  repeat' split
  all_goals rfl

theorem setExtendedRcode_not_err (v : Nat) (hv : v ≤ 4095) (s : State) (he : s.edns.isSome) :
    ∀ e, (setExtendedRcode v s).1 ≠ .err e := by
  intro e
  rw [setExtendedRcode_v0]; unfold V0.setExtendedRcode
  cases hs : s.edns with
  | none => rw [hs] at he; cases he
  | some ed =>
    simp only
    have : ¬ v > 4095 := by omega
    simp only [this, if_false]
    unfold setHdr
    by_cases hh : Gen.RCODE_BYTE < s.octets.size
    · simp [hh]
    · simp [hh]

theorem safe_unwrap {α : Type} {f : M α} {s : State} {Q : α → State → Prop} (h : Safe W f s Q)
    (hne : ∀ e, (f s).1 ≠ .err e) : Safe W (Writer.unwrap f) s Q := by
  obtain ⟨h1, h2, h3, h4⟩ := h
  unfold Safe
  dsimp only [Writer.unwrap]
  generalize f s = r at h1 h2 h3 h4 hne
  obtain ⟨o, s'⟩ := r
  cases o with
  | ok a => exact ⟨by simp, h2, h3, fun b hb => by cases hb; exact h4 a rfl⟩
  | err e => exact absurd rfl (hne e)
  | panic => exact absurd rfl h1



/-! ### TSIG: what the scan relies on -/

theorem T_consts : T "TSIG" = Gen.TYPE_TSIG ∧ T "TSIG" = 250 ∧ T "OPT" = 41 := by decide

/-- RDATA of type TSIG that `Rdata::read` accepted passed `validate_as_tsig` -/
theorem read_tsig_valid (c : Nat) (msg : Bytes) (cur len : Nat) (b : Bytes)
    (h : Rdata.read c 250 msg cur len = .ok b) : Rdata.validateAsTsig b = .ok () := by
  have hl : Rdata.lookup Gen.rdataReadArms Gen.rdataReadDefault c 250 = "without_decompression:validate_as_tsig" := by
    simp [Rdata.lookup, Gen.rdataReadArms]
  unfold Rdata.read at h
  rw [hl] at h
  simp only [Rdata.readHandler] at h
  simp only [show ("without_decompression:validate_as_tsig" = "with_decompression:read_name_rdata") = False by decide,
    show ("without_decompression:validate_as_tsig" = "with_decompression:read_ch_a") = False by decide,
    show ("without_decompression:validate_as_tsig" = "with_decompression:read_soa") = False by decide,
    show ("without_decompression:validate_as_tsig" = "with_decompression:read_minfo") = False by decide,
    show ("without_decompression:validate_as_tsig" = "with_decompression:read_mx") = False by decide,
    show ("without_decompression:validate_as_tsig" = "with_decompression:read_in_srv") = False by decide,
    show ("without_decompression:validate_as_tsig" = "without_decompression:validate_as_in_a") = False by decide,
    show ("without_decompression:validate_as_tsig" = "without_decompression:validate_as_in_wks") = False by decide,
    show ("without_decompression:validate_as_tsig" = "without_decompression:validate_as_hinfo") = False by decide,
    show ("without_decompression:validate_as_tsig" = "without_decompression:validate_as_txt") = False by decide,
    show ("without_decompression:validate_as_tsig" = "without_decompression:validate_as_in_aaaa") = False by decide,
    show ("without_decompression:validate_as_tsig" = "without_decompression:validate_as_opt") = False by decide,
    if_false, if_true] at h
  unfold Rdata.withoutDecompression at h
  cases h1 : Rdata.prepareToReadRdata msg cur len with
  | panic => rw [h1] at h; cases h
  | err e => rw [h1] at h; cases h
  | ok buf =>
    rw [h1] at h
    simp only [Out.bind_ok] at h
    cases h2 : Rdata.sliceFrom buf cur with
    | panic => rw [h2] at h; cases h
    | err e => rw [h2] at h; cases h
    | ok sl =>
      rw [h2] at h
      simp only [Out.bind_ok] at h
      cases h3 : Rdata.mkRdata sl with
      | panic => rw [h3] at h; cases h
      | err e => rw [h3] at h; cases h
      | ok rd =>
        rw [h3] at h
        simp only [Out.bind_ok] at h
        cases h4 : Rdata.validateAsTsig rd with
        | panic => rw [h4] at h; cases h
        | err e => rw [h4] at h; cases h
        | ok u =>
          rw [h4] at h
          simp only [Out.bind_ok] at h
          cases h
          exact h4



theorem validateAsTsig_ok (b : Bytes) (h : Rdata.validateAsTsig b = .ok ()) :
    ∃ p, parseUncompressed b false = .ok p ∧ p.len + 10 ≤ b.size := by
  unfold Rdata.validateAsTsig at h
  cases hv : validateUncompressed b false with
  | panic => rw [hv] at h; cases h
  | err e => rw [hv] at h; cases h
  | ok alg =>
    rw [hv] at h
    simp only [Rdata.liftName, Out.mapErr, Out.bind_ok] at h
    obtain ⟨p, hp, hl⟩ := (C14.C14_validate_ok_iff b false alg).mp hv
    refine ⟨p, hp, ?_⟩
    by_cases h10 : alg + 10 ≤ b.size
    · omega
    · simp only [h10, if_false] at h; cases h

/-- `ReadTsigRr::try_from` on a record of type TSIG whose RDATA the reader validated: never
    `NotTsig`, never one of its `expect`s -/
theorem tsig_tryFrom_cases (owner : List UInt8) (cls ttl : Nat) (b : Bytes)
    (hv : Rdata.validateAsTsig b = .ok ()) :
    Tsig.ReadTsigRr.tryFrom owner (T "TSIG") cls ttl b.toList = .err .FormErr ∨
    ∃ p, parseUncompressed b false = .ok p ∧
      Tsig.ReadTsigRr.tryFrom owner (T "TSIG") cls ttl b.toList =
        .ok ⟨Tsig.lowerName owner, Tsig.lowerName p.wire, (Tsig.rd16 b.toList (p.len + 8)).toNat, b.toList⟩ := by
  obtain ⟨p, hp, hl⟩ := validateAsTsig_ok b hv
  unfold Tsig.ReadTsigRr.tryFrom
  have e1 : ¬ (T "TSIG" ≠ Gen.TYPE_TSIG) := by decide
  simp only [e1, if_false]
  by_cases hc : cls ≠ Gen.QCLASS_ANY ∨ ttl ≠ 0
  · left; simp only [hc, if_true]
  · right
    refine ⟨p, hp, ?_⟩
    simp only [hc, if_false, Array.toArray_toList, hp]
    have : ¬ (b.toList.length < p.len + 10) := by simp; omega
    simp only [this, if_false]



theorem lowerU8_idem : ∀ b : UInt8, lowerU8 (lowerU8 b) = lowerU8 b := by
  apply forall_uint8
  decide +kernel

theorem lowerName_idem (w : List UInt8) : Tsig.lowerName (Tsig.lowerName w) = Tsig.lowerName w := by
  simp [Tsig.lowerName, lowerU8_idem]

theorem fromName_lower (w : List UInt8) (alg : Tsig.Algorithm)
    (h : Tsig.Algorithm.fromName (Tsig.lowerName w) = some alg) : Tsig.lowerName w = alg.name := by
  unfold Tsig.Algorithm.fromName at h
  rw [lowerName_idem] at h
  split at h
  · cases h; assumption
  · split at h
    · cases h; assumption
    · cases h

/-- `verify_request` does not panic when the algorithm is the record's own and the covered
    message has a header whose ARCOUNT counts the TSIG record (`ARCOUNT − 1`) -/
theorem verifyRequest_no_panic (hm : Tsig.Algorithm → Tsig.Octets → Tsig.Octets → Tsig.Octets)
    (r : Tsig.ReadTsigRr) (message : Tsig.Octets) (alg : Tsig.Algorithm) (key : Tsig.Octets)
    (now : Tsig.TimeSigned) (ha : r.algorithm = alg.name) (hl : 12 ≤ message.length)
    (har : Tsig.rd16 message Gen.ARCOUNT_START ≠ 0) :
    Tsig.verifyRequest hm r message alg key now ≠ .panic := by
  unfold Tsig.verifyRequest Tsig.verificationCore
  simp only [ha, ne_eq, not_true_eq_false, if_false]
  have hin : ∃ d, (Tsig.requestInput message r.originalId r.vars : Out Tsig.VerificationError Tsig.Octets) = .ok d := by
    unfold Tsig.requestInput Tsig.addModifiedMessage
    have c : Gen.ARCOUNT_START = 10 ∧ Gen.ARCOUNT_END = 12 := by decide
    have h1 : ¬ message.length < Gen.ARCOUNT_START := by rw [c.1]; omega
    have h2 : ¬ message.length < Gen.ARCOUNT_END := by rw [c.2]; omega
    simp only [h1, h2, har, if_false]
    exact ⟨_, rfl⟩
  obtain ⟨d, hd⟩ := hin
  rw [hd]
  cases hc : Tsig.checkMacSize alg r.macSize with
  | panic => unfold Tsig.checkMacSize at hc; simp only at hc; split at hc <;> cases hc
  | err e => simp
  | ok u =>
    simp only [Out.bind_ok]
    split
    · unfold Tsig.checkTime; simp only; split <;> simp
    · simp




theorem safe_congr {ε α : Type} {f g : State → Out ε α × State} {s : State} {Q : α → State → Prop}
    (h : f s = g s) (hg : Safe W g s Q) : Safe W f s Q := by
  unfold Safe at hg ⊢; rw [h]; exact hg

theorem safe_setRcode (v : Nat) (s : State) (hi : W.I s) : Safe W (setRcode v) s (fun _ _ => True) :=
  safe_call W (.setRcode v) s hi trivial

theorem safe_setBit (b m : Nat) (v : Bool) (hb : b < Gen.HEADER_SIZE) (s : State) (hi : W.I s) :
    Safe W (setBit b m v) s (fun _ _ => True) :=
  safe_call W (.setBit b m v) s hi hb

theorem safe_setTc (v : Bool) (s : State) (hi : W.I s) : Safe W (setTc v) s (fun _ _ => True) :=
  safe_setBit W _ _ v (by decide) s hi

theorem safe_setAa (v : Bool) (s : State) (hi : W.I s) : Safe W (setAa v) s (fun _ _ => True) :=
  safe_setBit W _ _ v (by decide) s hi

/-- `set_rcode(x); return` in the scan: the result is "stop" -/
theorem safe_rcode_none {β : Type} (v : Nat) (s : State) (hi : W.I s) {Q : Option β → State → Prop}
    (hq : ∀ s', Q none s') :
    Safe W (do setRcode v; pure (none : Option β) : M (Option β)) s Q :=
  safe_bind_M W (safe_setRcode W v s hi) (fun _ s' hi' _ _ => safe_pure_M W none s' hi' (hq s'))

/-- `set_tsig_or_truncate` -/
theorem safe_setTsigOrTruncate (m : TsigMode) (rr : TsigRr) (s : State) (hi : W.I s)
    (hp : (Call.setTsig m rr).Pre W.Den s) : Safe W (setTsigOrTruncate m rr) s (fun _ _ => True) := by
  obtain ⟨h1, h2, h3⟩ := W.call (.setTsig m rr) s hi hp
  have e : (Call.setTsig m rr).run = setTsig m rr := rfl
  rw [e] at h1 h2 h3
  unfold Safe
  dsimp only [setTsigOrTruncate]
  generalize setTsig m rr s = r at h1 h2 h3
  obtain ⟨o, s'⟩ := r
  cases o with
  | ok a => exact ⟨by simp, h2, h3, fun _ _ => trivial⟩
  | panic => exact absurd rfl h1
  | err e =>
    have hs : Safe W (do setRcode (RC "NOERROR"); setTc true; pure false : M Bool) s' (fun _ _ => True) :=
      safe_bind_M W (safe_setRcode W _ s' h2) (fun _ s1 hi1 _ _ =>
        safe_bind_M W (safe_setTc W true s1 hi1) (fun _ s2 hi2 _ _ =>
          safe_pure_M W false s2 hi2 (Q := fun _ _ => True) trivial))
    obtain ⟨g1, g2, g3, _⟩ := hs
    exact ⟨g1, g2, h3.trans g3, fun _ _ => trivial⟩

theorem asSlice_length (t : Tsig.TimeSigned) : t.asSlice.length = 6 := rfl

theorem utf1 : "hmac-sha1".toUTF8.toList = [104, 109, 97, 99, 45, 115, 104, 97, 49] := by decide +kernel
theorem utf2 : "hmac-sha256".toUTF8.toList = [104, 109, 97, 99, 45, 115, 104, 97, 50, 53, 54] := by
  decide +kernel

theorem algName_WF (a : Alg) : (algName a).WF := by
  cases a
  · unfold algName; rw [utf1]; decide
  · unfold algName; rw [utf2]; decide

theorem algName_parses (alg : Hmac.Alg) :
    ∃ n, WName.parse (Tsig.Algorithm.name alg) = some (n, []) ∧ n.WF := by
  cases alg
  · exact ⟨⟨[[104, 109, 97, 99, 45, 115, 104, 97, 49]]⟩, by decide, by decide⟩
  · exact ⟨⟨[[104, 109, 97, 99, 45, 115, 104, 97, 50, 53, 54]]⟩, by decide, by decide⟩

/-- `PreparedTsigRr::new_from_read` always exists and meets the contract of `set_tsig` -/
theorem preparedFromRead_ok (r : Tsig.ReadTsigRr) (now : Tsig.TimeSigned) (e : Nat) (kn : WName)
    (hk : WName.parse r.keyName = some (kn, [])) :
    ∃ prep, preparedFromRead r now e = some prep ∧ prep.keyName = kn ∧ prep.timeSigned.length = 6 ∧
      prep.serverTime.length = 6 := by
  unfold preparedFromRead
  rw [hk]
  refine ⟨_, rfl, rfl, ?_, rfl⟩
  dsimp only
  split <;> rfl


end QV.ServerSafety
