/-
  QV.Proofs.ZoneLookup — the tree walk `lookup_impl` equals the specification's lookup.

  Two steps: (i) under `Rel`, the walk over the tree is the same walk over the flat list
  (`walkF`); (ii) that walk computes `specLookupBase` (cut = first NS owner on the way down,
  closest encloser = last existing name on the way down).
-/
import QV.Proofs.ZoneRefine

namespace QV.Zone
open QV QV.NameL QV.Spec.Zone

/-! ### (i) tree walk = flat walk -/

/-- the walk of `lookup_impl`, reading the flat list instead of the tree -/
def walkF (s : SZone) (sbc : Bool) : Name → List Label → Bool → Base
  | nm, path, atApex =>
    match (if !atApex && !sbc then rrset s nm NS else none) with
    | some ns => .referral nm ns
    | none =>
      match path with
      | [] => .found (rrsetsAt s nm) none
      | l :: rest =>
        if nameExists s (l :: nm) then walkF s sbc (l :: nm) rest false
        else if nameExists s (asterisk :: nm) then
          .found (rrsetsAt s (asterisk :: nm)) (some (asterisk :: nm))
        else .nxDomain

theorem find_snoc (root : Node) (pre : List Label) (rr : List Rrset) (ch : List (Label × Node)) (l : Label)
    (h : find root pre = some (.mk rr ch)) : find root (pre ++ [l]) = childGet ch l := by
  induction pre generalizing root with
  | nil =>
    simp only [find] at h; cases h
    simp only [List.nil_append, find]
    cases childGet ch l <;> rfl
  | cons a pre ih =>
    obtain ⟨rr0, ch0⟩ := root
    simp only [find, List.cons_append] at h ⊢
    cases hc : childGet ch0 a with
    | none => simp [hc] at h
    | some c => simp only [hc] at h ⊢; exact ih c h

theorem T_NS_eq : Gen.T_NS = NS := by decide
theorem T_CNAME_eq : Gen.T_CNAME = CNAME := by decide
theorem T_A_eq : Gen.T_A = A := by decide
theorem T_AAAA_eq : Gen.T_AAAA = AAAA := by decide
theorem T_SOA_eq : Gen.T_SOA = SOA := by decide
theorem T_MX_eq : Gen.T_MX = MX := by decide
theorem CLASS_IN_eq : Gen.CLASS_IN = IN := by decide
theorem CLASS_CH_eq : Gen.CLASS_CH = CH := by decide

theorem lookupImpl_eq_walk {z : Zone} {s : SZone} (h : Rel z s) (sbc : Bool) :
    ∀ (path pre : List Label) (node : Node) (atApex : Bool), find z.root pre = some node →
      lookupImpl sbc node (nameAt s.apex pre) path atApex = walkF s sbc (nameAt s.apex pre) path atApex := by
  intro path
  induction path with
  | nil =>
    intro pre node atApex hf
    obtain ⟨rr, ch⟩ := node
    have hrrs : rrs z.root pre = some rr := by simp [rrs, hf, Node.rrsets]
    have hlk := h.look pre rr NS hrrs
    have heq := h.rrs_eq pre
    rw [hrrs] at heq
    have hrr : rr = rrsetsAt s (nameAt s.apex pre) := by
      split at heq
      · exact Option.some.inj heq
      · cases heq
    unfold lookupImpl walkF
    rw [T_NS_eq, hlk]
    cases (if (!atApex && !sbc) = true then rrset s (nameAt s.apex pre) NS else none) with
    | some ns => rfl
    | none => simp [hrr]
  | cons l rest ih =>
    intro pre node atApex hf
    obtain ⟨rr, ch⟩ := node
    have hrrs : rrs z.root pre = some rr := by simp [rrs, hf, Node.rrsets]
    have hlk := h.look pre rr NS hrrs
    have hchild : ∀ l', find z.root (pre ++ [l']) = childGet ch l' := fun l' => find_snoc z.root pre rr ch l' hf
    have hex : ∀ l', (childGet ch l').isSome = nameExists s (l' :: nameAt s.apex pre) := by
      intro l'
      have := h.ex (pre ++ [l'])
      rw [nameAt_cons] at this
      rw [← this, rrs, hchild]; simp
    unfold lookupImpl walkF
    rw [T_NS_eq, hlk]
    cases (if (!atApex && !sbc) = true then rrset s (nameAt s.apex pre) NS else none) with
    | some ns => rfl
    | none =>
      simp only
      cases hc : childGet ch l with
      | some sub =>
        have : nameExists s (l :: nameAt s.apex pre) = true := by rw [← hex l, hc]; rfl
        simp only [this, if_true]
        have := ih (pre ++ [l]) sub false (by rw [hchild, hc])
        rw [nameAt_cons] at this
        exact this
      | none =>
        have : nameExists s (l :: nameAt s.apex pre) = false := by rw [← hex l, hc]; rfl
        simp only [this, Bool.false_eq_true, if_false]
        cases hw : childGet ch asterisk with
        | some w =>
          have hwe : nameExists s (asterisk :: nameAt s.apex pre) = true := by rw [← hex asterisk, hw]; rfl
          simp only [hwe, if_true]
          have heq := h.rrs_eq (pre ++ [asterisk])
          rw [nameAt_cons, hwe, rrs, hchild, hw] at heq
          simp at heq
          rw [heq]
        | none =>
          have hwe : nameExists s (asterisk :: nameAt s.apex pre) = false := by rw [← hex asterisk, hw]; rfl
          simp [hwe]

/-! ### (ii) flat walk = `specLookupBase` -/

/-- the names visited below `nm` when following `path` -/
def ext : Name → List Label → List Name
  | _, [] => []
  | nm, l :: rest => (l :: nm) :: ext (l :: nm) rest

theorem tails_append (nm : Name) (path : List Label) :
    tails (path.reverse ++ nm) = (ext nm path).reverse ++ tails nm := by
  induction path generalizing nm with
  | nil => simp [ext]
  | cons l rest ih =>
    have : (l :: rest).reverse ++ nm = rest.reverse ++ (l :: nm) := by simp
    rw [this, ih (l :: nm)]
    simp [ext, tails]

theorem mem_tails {e n : Name} (h : e ∈ tails n) : e <:+ n := by
  induction n with
  | nil => simp [tails] at h; subst h; exact List.suffix_refl _
  | cons l n ih =>
    simp only [tails, List.mem_cons] at h
    rcases h with h | h
    · subst h; exact List.suffix_refl _
    · exact (ih h).trans (List.suffix_cons l n)

theorem self_mem_tails (n : Name) : n ∈ tails n := by cases n <;> simp [tails]

theorem mem_ext {nm : Name} {path : List Label} {e : Name} (h : e ∈ ext nm path) :
    nm <:+ e ∧ nm.length < e.length ∧ e <:+ path.reverse ++ nm := by
  induction path generalizing nm with
  | nil => simp [ext] at h
  | cons l rest ih =>
    simp only [ext, List.mem_cons] at h
    have hrw : (l :: rest).reverse ++ nm = rest.reverse ++ (l :: nm) := by simp
    rcases h with h | h
    · subst h
      refine ⟨List.suffix_cons l nm, by simp, ?_⟩
      rw [hrw]; exact List.suffix_append _ _
    · obtain ⟨h1, h2, h3⟩ := ih h
      refine ⟨(List.suffix_cons l nm).trans h1, by simp at h2; omega, ?_⟩
      rw [hrw]; exact h3

theorem mem_ext_cons {nm : Name} {l : Label} {rest : List Label} {e : Name} (h : e ∈ ext nm (l :: rest)) :
    (l :: nm) <:+ e := by
  simp only [ext, List.mem_cons] at h
  rcases h with h | h
  · subst h; exact List.suffix_refl _
  · exact (mem_ext h).1

theorem filter_tails_apex (apex : Name) : (tails apex).filter (fun s => apex.isSuffixOf s) = [apex] := by
  have : ∀ n : Name, n.length < apex.length ∨ n = apex →
      (tails n).filter (fun s => apex.isSuffixOf s) = if n = apex then [apex] else [] := by
    intro n
    induction n with
    | nil =>
      intro h
      by_cases ha : apex = []
      · subst ha; simp [tails]
      · have : ([] : Name) ≠ apex := fun e => ha e.symm
        simp [tails, this, ha]
    | cons l n ih =>
      intro h
      simp only [tails, List.filter_cons]
      by_cases he : l :: n = apex
      · subst he
        have : n ≠ l :: n := fun e => by have := congrArg List.length e; simp at this
        simp [ih (Or.inl (by simp)), this]
      · have hlen : (l :: n).length < apex.length := by rcases h with h | h; exact h; exact absurd h he
        have hn : ¬ apex <:+ l :: n := fun hs => by have := hs.length_le; omega
        have hb : apex.isSuffixOf (l :: n) = false := by
          cases hb : apex.isSuffixOf (l :: n) with
          | false => rfl
          | true => exact absurd (List.isSuffixOf_iff_suffix.mp hb) hn
        have hne : n ≠ apex := fun e => by subst e; simp only [List.length_cons] at hlen; omega
        simp [hb, he, ih (Or.inl (by simp at hlen; omega)), hne]
  simpa using this apex (Or.inr rfl)

theorem pathBelow_apex (apex : Name) : pathBelow apex apex = [] := by
  unfold pathBelow
  have h1 : (tails apex).filter (fun s => apex.isSuffixOf s && s != apex)
      = ((tails apex).filter (fun s => apex.isSuffixOf s)).filter (fun s => s != apex) := by
    rw [List.filter_filter]; congr 1; funext s; exact Bool.and_comm _ _
  rw [h1, filter_tails_apex]; simp

theorem filter_ext_all {apex nm : Name} (ha : apex <:+ nm) (path : List Label) (f : Name → Bool)
    (hf : ∀ e, apex <:+ e → apex.length < e.length → f e = true) : (ext nm path).filter f = ext nm path := by
  rw [List.filter_eq_self]
  intro e he
  obtain ⟨h1, h2, _⟩ := mem_ext he
  exact hf e (ha.trans h1) (by have := ha.length_le; omega)

theorem pathBelow_append {apex nm : Name} (ha : apex <:+ nm) (path : List Label) :
    pathBelow apex (path.reverse ++ nm) = pathBelow apex nm ++ ext nm path := by
  unfold pathBelow
  rw [tails_append, List.filter_append, List.reverse_append, List.filter_reverse, List.reverse_reverse]
  congr 1
  apply filter_ext_all ha
  intro e h1 h2
  have : e ≠ apex := fun e' => by subst e'; omega
  simp [List.isSuffixOf_iff_suffix.mpr h1, this]

theorem closestEncloser_append {s : SZone} {nm : Name} (ha : s.apex <:+ nm) (path : List Label) :
    closestEncloser s (path.reverse ++ nm) =
      ((ext nm path).reverse ++ (tails nm).filter (fun e => s.apex.isSuffixOf e)).find? (nameExists s) := by
  unfold closestEncloser
  have hf := filter_ext_all ha path (fun e => s.apex.isSuffixOf e)
    (by intro e h1 _; exact List.isSuffixOf_iff_suffix.mpr h1)
  rw [tails_append, List.filter_append, List.filter_reverse, hf]

theorem nameExists_false_below {s : SZone} {m e : Name} (hm : nameExists s m = false) (ha : s.apex <:+ m)
    (he : m <:+ e) : nameExists s e = false := by
  cases h : nameExists s e with
  | false => rfl
  | true =>
    have := ((nameExists_iff s e).mp h).up he ha
    rw [← nameExists_iff, hm] at this; cases this

theorem owns_false_of_not_exists {s : SZone} {e : Name} (h : nameExists s e = false) (t : Nat) : owns s e t = false := by
  cases ho : owns s e t with
  | false => rfl
  | true =>
    have := ((owns_iff s e t).mp ho).exists
    rw [← nameExists_iff, h] at this; cases this

theorem owns_of_rrset {s : SZone} {n : Name} {t : Nat} : owns s n t = (rrset s n t).isSome := by
  cases hr : rrset s n t with
  | none =>
    have := (rrset_eq_none s n t).mp hr
    cases ho : owns s n t with
    | false => rfl
    | true => exact absurd ((owns_iff s n t).mp ho) this
  | some x => exact (owns_iff s n t).mpr (rrset_some_owns hr)

/-- the flat walk from `nm` along `path` answers for the name `n = path.reverse ++ nm`, provided
    the candidates for the cut and for the closest encloser that are still to be examined are
    the ones the walk is going to visit -/
theorem walkF_eq_spec (s : SZone) (sbc : Bool) (n : Name) :
    ∀ (path : List Label) (nm : Name) (atApex : Bool),
      path.reverse ++ nm = n → s.apex <:+ nm → nameExists s nm = true →
      (sbc = false → specCut s n = ((if atApex then [] else [nm]) ++ ext nm path).find? (fun c => owns s c NS)) →
      closestEncloser s n = ((ext nm path).reverse ++ [nm]).find? (nameExists s) →
      walkF s sbc nm path atApex = specLookupBase s n sbc := by
  intro path
  induction path with
  | nil =>
    intro nm atApex hn ha hex hcut hce
    simp only [List.reverse_nil, List.nil_append] at hn
    subst hn
    have hsuf : s.apex.isSuffixOf nm = true := List.isSuffixOf_iff_suffix.mpr ha
    unfold walkF specLookupBase
    simp only [hsuf, Bool.not_true, Bool.false_eq_true, if_false]
    cases sbc with
    | true => simp [hex]
    | false =>
      have hcut' := hcut rfl
      simp only [ext, List.append_nil] at hcut'
      cases atApex with
      | true =>
        simp only [if_true, List.find?_nil] at hcut'
        simp [hcut', hex]
      | false =>
        simp only [Bool.false_eq_true, if_false, List.find?_cons, List.find?_nil, owns_of_rrset] at hcut'
        cases hr : rrset s nm NS with
        | some ns => simp [hr] at hcut'; simp [hr, hcut']
        | none => simp [hr] at hcut'; simp [hcut', hex]
  | cons l rest ih =>
    intro nm atApex hn ha hex hcut hce
    have hn' : rest.reverse ++ (l :: nm) = n := by rw [← hn]; simp
    have han : s.apex <:+ n := by rw [← hn]; exact ha.trans (List.suffix_append _ _)
    have hsuf : s.apex.isSuffixOf n = true := List.isSuffixOf_iff_suffix.mpr han
    have ha' : s.apex <:+ l :: nm := ha.trans (List.suffix_cons l nm)
    unfold walkF
    -- the NS test at `nm`
    by_cases href : ∃ ns, (if (!atApex && !sbc) = true then rrset s nm NS else none) = some ns
    · obtain ⟨ns, hns⟩ := href
      rw [hns]
      have hb : (!atApex && !sbc) = true := by
        cases hb : (!atApex && !sbc) with
        | true => rfl
        | false => rw [hb] at hns; simp at hns
      rw [hb, if_pos rfl] at hns
      simp only [Bool.and_eq_true, Bool.not_eq_true'] at hb
      obtain ⟨hat, hs⟩ := hb
      subst hat; subst hs
      have hcut' := hcut rfl
      simp only [Bool.false_eq_true, if_false, List.cons_append, List.nil_append, List.find?_cons, owns_of_rrset, hns,
        Option.isSome_some] at hcut'
      unfold specLookupBase
      simp [hsuf, hcut', hns]
    · have hnone : (if (!atApex && !sbc) = true then rrset s nm NS else none) = none := by
        cases hh : (if (!atApex && !sbc) = true then rrset s nm NS else none) with
        | none => rfl
        | some ns => exact absurd ⟨ns, hh⟩ href
      rw [hnone]
      simp only
      -- candidates for the cut no longer include `nm`
      have hcut2 : sbc = false → specCut s n = (ext nm (l :: rest)).find? (fun c => owns s c NS) := by
        intro hs
        rw [hcut hs]
        cases atApex with
        | true => simp
        | false =>
          subst hs
          simp only [Bool.not_false, Bool.and_self, if_true] at hnone
          simp [owns_of_rrset, hnone]
      by_cases hch : nameExists s (l :: nm) = true
      · simp only [hch, if_true]
        apply ih (l :: nm) false hn' ha' hch
        · intro hs; rw [hcut2 hs]; simp [ext]
        · rw [hce]
          simp only [ext, List.reverse_cons, List.append_assoc, List.cons_append, List.nil_append]
          rw [List.find?_append, List.find?_append]
          simp [hch]
      · have hch' : nameExists s (l :: nm) = false := by simpa using hch
        simp only [hch', Bool.false_eq_true, if_false]
        -- nothing at or below `l :: nm` exists
        have hnone_ext : ∀ e ∈ ext nm (l :: rest), nameExists s e = false :=
          fun e he => nameExists_false_below hch' ha' (mem_ext_cons he)
        have hcutnone : sbc = false → specCut s n = none := by
          intro hs
          rw [hcut2 hs, List.find?_eq_none]
          intro e he
          simp [owns_false_of_not_exists (hnone_ext e he)]
        have hnex : nameExists s n = false := by
          apply nameExists_false_below hch' ha'
          rw [← hn']; exact List.suffix_append _ _
        have hce' : closestEncloser s n = some nm := by
          rw [hce, List.find?_append]
          have : (ext nm (l :: rest)).reverse.find? (nameExists s) = none := by
            rw [List.find?_eq_none]
            intro e he
            simp [hnone_ext e (List.mem_reverse.mp he)]
          simp [this, hex]
        unfold specLookupBase
        simp only [hsuf, Bool.not_true, Bool.false_eq_true, if_false, hnex, hce']
        cases sbc with
        | true => simp
        | false => simp [hcutnone rfl]

/-- the tree walk of a zone related to `s` computes the specification's node search -/
theorem lookupImpl_eq_spec {z : Zone} {s : SZone} (h : Rel z s) (sbc : Bool) (n : Name) (hn : s.apex <:+ n) :
    lookupImpl sbc z.root z.apex (relPath z.apex.length n) true = specLookupBase s n sbc := by
  have h0 := lookupImpl_eq_walk h sbc (relPath s.apex.length n) [] z.root true rfl
  simp only [nameAt, List.reverse_nil, List.nil_append] at h0
  rw [h.apex, h0]
  have hrel : (relPath s.apex.length n).reverse ++ s.apex = n := nameAt_relPath s.apex n hn
  apply walkF_eq_spec s sbc n _ s.apex true hrel (List.suffix_refl _)
  · simp [nameExists]
  · intro _
    simp only [if_true, List.nil_append]
    unfold specCut
    rw [← hrel, pathBelow_append (List.suffix_refl _), pathBelow_apex, hrel]; simp
  · rw [← hrel, closestEncloser_append (List.suffix_refl _), filter_tails_apex, hrel]

/-! ### reachable zones -/

theorem Rel.build {z : Zone} {s : SZone} (h : Rel z s) (eqv : Eqv) (rs : List Rec) :
    Rel (build eqv z rs) (specBuild eqv s rs) := by
  induction rs generalizing z s with
  | nil => exact h
  | cons r rs ih =>
    simp only [QV.Zone.build, specBuild, List.foldl_cons]
    exact ih (h.add eqv r).1

theorem Rel.reachable (eqv : Eqv) (apex : Name) (cls : Nat) (glue : GluePolicy) (rs : List Rec) :
    Rel (QV.Zone.build eqv (Zone.new apex cls glue) rs) (specBuild eqv ⟨apex, cls, glue, []⟩ rs) :=
  (Rel.init apex cls glue).build eqv rs

/-- `lookup_base` = the specification's node search, whenever the lookup's precondition holds -/
theorem lookupBase_eq_spec {z : Zone} {s : SZone} (h : Rel z s) (n : Name) (o : Opts)
    (hc : constrained s n o = true) :
    lookupBase z n o = .ok (specLookupBase s n o.searchBelowCuts) := by
  unfold lookupBase
  rw [h.apex]
  by_cases hz : s.apex <:+ n
  · have e1 : eqOrSubdomainOf n s.apex = true := (eqOrSubdomainOf_iff _ _).mpr hz
    have hl : ¬ n.length < s.apex.length := by have := hz.length_le; omega
    simp only [e1, Bool.not_true, Bool.and_false, Bool.false_eq_true, if_false, hl]
    have := lookupImpl_eq_spec h o.searchBelowCuts n hz
    rw [h.apex] at this
    rw [this]
  · have e1 : eqOrSubdomainOf n s.apex = false := by
      cases he : eqOrSubdomainOf n s.apex with
      | false => rfl
      | true => exact absurd ((eqOrSubdomainOf_iff _ _).mp he) hz
    have e2 : s.apex.isSuffixOf n = false := by
      cases he : s.apex.isSuffixOf n with
      | false => rfl
      | true => exact absurd (List.isSuffixOf_iff_suffix.mp he) hz
    have hu : o.unchecked = false := by
      simp only [constrained, e2, Bool.or_false, Bool.not_eq_true'] at hc; exact hc
    simp [hu, e1, specLookupBase, e2]

theorem lookup_eq_spec {z : Zone} {s : SZone} (h : Rel z s) (n : Name) (t : Nat) (o : Opts)
    (hc : constrained s n o = true) : lookup z n t o = .ok (specLookup s n t o) := by
  unfold lookup specLookup
  rw [lookupBase_eq_spec h n o hc]
  cases specLookupBase s n o.searchBelowCuts with
  | found rrsets sos =>
    simp only [lookupRrset_eq_findType, T_CNAME_eq]
    cases findType rrsets t with
    | some x => rfl
    | none => cases findType rrsets CNAME <;> rfl
  | referral c ns => rfl
  | nxDomain => rfl
  | wrongZone => rfl

theorem lookupAddrs_eq_spec {z : Zone} {s : SZone} (h : Rel z s) (n : Name) (o : Opts)
    (hc : constrained s n o = true) : lookupAddrs z n o = .ok (specLookupAddrs s n o) := by
  unfold lookupAddrs specLookupAddrs
  rw [lookupBase_eq_spec h n o hc]
  cases specLookupBase s n o.searchBelowCuts with
  | found rrsets sos => simp only [lookupRrset_eq_findType, T_A_eq, T_AAAA_eq, CLASS_IN_eq, h.cls]
  | referral c ns => rfl
  | nxDomain => rfl
  | wrongZone => rfl

theorem lookupAll_eq_spec {z : Zone} {s : SZone} (h : Rel z s) (n : Name) (o : Opts)
    (hc : constrained s n o = true) : lookupAll z n o = .ok (specLookupAll s n o) := by
  unfold lookupAll specLookupAll
  rw [lookupBase_eq_spec h n o hc]
  cases specLookupBase s n o.searchBelowCuts <;> rfl

end QV.Zone
