/-
  QV.Proofs.WriterRdata — when does the writer report `InvalidRdata`?  Exactly when the RDATA
  cannot be split into the components of its type (`compsOK`): a name component does not parse as
  an uncompressed name, or a fixed-length component is longer than what is left. No other step of
  `add_rr` / `add_rrset` returns that error. (Used by the request-handler proofs, C05.)
-/
import QV.Proofs.Writer

namespace QV.Writer
open QV QV.Wire

/-- the RDATA can be split along the component list (mirrors the failure branches of
    `Components::next` as driven by `write_components`) -/
def compsOK : List CompType → List UInt8 → Bool
  | [], _ => true
  | .compressibleName :: ts, rd =>
    match WName.parse rd with
    | none => false
    | some (_, rest) => compsOK ts rest
  | .uncompressibleName :: ts, rd =>
    match WName.parse rd with
    | none => false
    | some (_, rest) => compsOK ts rest
  | .fixedLen k :: ts, rd => decide (k ≤ rd.length) && compsOK ts (rd.drop k)

/-- `rdataOK cls ty rd`: the RDATA is well formed for what `Rdata::components(class, type)` expects -/
def rdataOK (cls ty : Nat) (rd : List UInt8) : Bool :=
  match componentTypes cls ty with
  | some ts => compsOK ts rd
  | none => true

/-- `f` never reports `InvalidRdata` -/
def NoInv {α} (f : M α) : Prop := ∀ s, (f s).1 ≠ .err .InvalidRdata

theorem noInv_bind {α β} {f : M α} {g : α → M β} (hf : NoInv f) (hg : ∀ a, NoInv (g a)) :
    NoInv (f >>= g) := by
  intro s h
  simp only [M.bind_apply] at h
  cases hfs : f s with
  | mk r s1 =>
    rw [hfs] at h
    cases r with
    | ok a => exact hg a s1 h
    | err e => simp only [Out.err.injEq] at h; subst h; exact hf s (by rw [hfs])
    | panic => cases h

theorem noInv_pure {α} (a : α) : NoInv (pure a : M α) := fun s h => by cases h
theorem noInv_panic {α} : NoInv (M.panic : M α) := fun s h => by cases h
theorem noInv_gets {α} (f : State → α) : NoInv (M.gets f) := fun s h => by cases h
theorem noInv_modify (f : State → State) : NoInv (M.modify f) := fun s h => by cases h
theorem noInv_fail {α} (e : WriterErr) (he : e ≠ .InvalidRdata) : NoInv (M.fail e : M α) :=
  fun s h => by simp only [M.fail_apply, Out.err.injEq] at h; exact he h

theorem noInv_tryPush (d : List UInt8) : NoInv (tryPush d) := by
  intro s h
  unfold tryPush at h
  split at h
  · cases h
  · split at h
    · split at h <;> cases h
    · cases h

theorem noInv_write (pos : Nat) (d : List UInt8) : NoInv (write pos d) := by
  intro s h; unfold write at h; split at h <;> cases h

theorem noInv_pushPointer (p : Nat) : NoInv (pushPointer p) := by
  unfold pushPointer
  exact noInv_bind (noInv_gets _) fun _ => noInv_bind (noInv_tryPush _) fun _ => noInv_modify _

theorem noInv_writeUncompressedName (n : WName) : NoInv (writeUncompressedName n) := by
  unfold writeUncompressedName
  exact noInv_bind (noInv_gets _) fun _ => noInv_bind (noInv_tryPush _) fun _ =>
    noInv_bind (noInv_modify _) fun _ => noInv_pure _

theorem noInv_writeCompressedUnhintedName (n : WName) : NoInv (writeCompressedUnhintedName n) := by
  unfold writeCompressedUnhintedName
  refine noInv_bind (noInv_gets _) fun d => noInv_bind (noInv_gets _) fun c => ?_
  split
  · exact noInv_panic
  · exact noInv_panic
  · exact noInv_writeUncompressedName n
  · split
    · exact noInv_bind (noInv_pushPointer _) fun _ => noInv_pure _
    · exact noInv_bind (noInv_tryPush _) fun _ => noInv_bind (noInv_modify _) fun _ =>
        noInv_bind (noInv_pushPointer _) fun _ => noInv_pure _

theorem noInv_writeUnhintedName (n : WName) : NoInv (writeUnhintedName n) := by
  unfold writeUnhintedName
  refine noInv_bind (noInv_gets _) fun m => ?_
  split
  · exact noInv_writeCompressedUnhintedName n
  · exact noInv_writeUncompressedName n

theorem noInv_pushHinted (p : Prior) : NoInv (pushHinted p) :=
  noInv_bind (noInv_pushPointer _) fun _ => noInv_pure _

theorem noInv_writeHintedName (h : Hint) (n : WName) : NoInv (writeHintedName h n) := by
  unfold writeHintedName
  refine noInv_bind (noInv_gets _) fun m => ?_
  split
  · exact noInv_writeUncompressedName n
  · split
    · exact noInv_writeCompressedUnhintedName n
    · split
      · refine noInv_bind (noInv_gets _) fun q => ?_
        split
        · exact noInv_pushHinted _
        · exact noInv_writeCompressedUnhintedName n
      · refine noInv_bind (noInv_gets _) fun q => ?_
        split
        · exact noInv_pushHinted _
        · exact noInv_writeCompressedUnhintedName n
      · refine noInv_bind (noInv_gets _) fun q => ?_
        split
        · exact noInv_pushHinted _
        · exact noInv_writeCompressedUnhintedName n
      · refine noInv_bind (noInv_gets _) fun q => ?_
        split
        · exact noInv_pushHinted _
        · exact noInv_writeCompressedUnhintedName n
      · exact noInv_writeCompressedUnhintedName n

/-- what the outcome of a step says about `ok : Bool` ("the RDATA seen so far splits"):
    success needs it, `InvalidRdata` refutes it -/
def Tells {α} (ok : Bool) (f : M α) : Prop :=
  ∀ s, ((∃ a, (f s).1 = .ok a) → ok = true) ∧ ((f s).1 = .err .InvalidRdata → ok = false)

theorem tells_of_noInv {α} {f : M α} (h : NoInv f) : Tells true f :=
  fun s => ⟨fun _ => rfl, fun he => absurd he (h s)⟩

/-- sequencing: a step that cannot report `InvalidRdata`, then one that tells about `ok` -/
theorem tells_bind {α β} {ok : Bool} {f : M α} {g : α → M β} (hf : NoInv f) (hg : ∀ a, Tells ok (g a)) :
    Tells ok (f >>= g) := by
  intro s
  simp only [M.bind_apply]
  cases hfs : f s with
  | mk r s1 =>
    cases r with
    | ok a => exact hg a s1
    | err e =>
      refine ⟨(fun ⟨a, h⟩ => by cases h), fun h => ?_⟩
      simp only [Out.err.injEq] at h; subst h
      exact absurd (by rw [hfs]) (hf s)
    | panic => exact ⟨(fun ⟨a, h⟩ => by cases h), fun h => by cases h⟩

theorem tells_writeComponents (ts : List CompType) (rd : List UInt8) :
    Tells (compsOK ts rd) (writeComponents ts rd) := by
  induction ts generalizing rd with
  | nil =>
    unfold writeComponents compsOK
    split
    · exact tells_of_noInv (noInv_pure _)
    · exact tells_of_noInv (noInv_tryPush _)
  | cons t ts ih =>
    cases t with
    | compressibleName =>
      unfold writeComponents compsOK
      cases hp : WName.parse rd with
      | none => exact fun s => ⟨(fun ⟨a, h⟩ => by cases h), fun _ => rfl⟩
      | some pr =>
        obtain ⟨n, rest⟩ := pr
        simp only []
        exact tells_bind (noInv_modify _) fun _ => tells_bind (noInv_writeUnhintedName n) fun p =>
          tells_bind (noInv_modify _) fun _ => tells_bind (noInv_modify _) fun _ =>
          tells_bind (noInv_modify _) fun _ => ih rest
    | uncompressibleName =>
      unfold writeComponents compsOK
      cases hp : WName.parse rd with
      | none => exact fun s => ⟨(fun ⟨a, h⟩ => by cases h), fun _ => rfl⟩
      | some pr =>
        obtain ⟨n, rest⟩ := pr
        simp only []
        exact tells_bind (noInv_modify _) fun _ => tells_bind (noInv_writeUncompressedName n) fun p =>
          tells_bind (noInv_modify _) fun _ => tells_bind (noInv_modify _) fun _ =>
          tells_bind (noInv_modify _) fun _ => ih rest
    | fixedLen k =>
      unfold writeComponents compsOK
      by_cases hk : rd.length < k
      · rw [if_pos hk]
        have : decide (k ≤ rd.length) = false := by simp; omega
        rw [this]
        exact fun s => ⟨(fun ⟨a, h⟩ => by cases h), fun _ => rfl⟩
      · rw [if_neg hk]
        have : decide (k ≤ rd.length) = true := by simp; omega
        rw [this, Bool.true_and]
        exact tells_bind (noInv_tryPush _) fun _ => ih _

theorem tells_and {α β} {a b : Bool} {f : M α} {g : α → M β} (hf : Tells a f) (hg : ∀ x, Tells b (g x)) :
    Tells (a && b) (f >>= g) := by
  intro s
  simp only [M.bind_apply]
  have h1 := hf s
  cases hfs : f s with
  | mk r s1 =>
    rw [hfs] at h1
    cases r with
    | ok x =>
      have ha := h1.1 ⟨x, rfl⟩
      have h2 := hg x s1
      refine ⟨fun h => ?_, fun h => ?_⟩
      · rw [ha, h2.1 h]; rfl
      · rw [h2.2 h]; simp
    | err e =>
      refine ⟨(fun ⟨y, h⟩ => by cases h), fun h => ?_⟩
      simp only [Out.err.injEq] at h; subst h
      rw [h1.2 rfl]; rfl
    | panic => exact ⟨(fun ⟨y, h⟩ => by cases h), fun h => by cases h⟩

theorem tells_then {α β} {ok : Bool} {f : M α} {g : α → M β} (hf : Tells ok f) (hg : ∀ x, NoInv (g x)) :
    Tells ok (f >>= g) := by
  have := tells_and hf (fun x => tells_of_noInv (hg x))
  simpa using this

theorem tells_writeRdata (cls ty : Nat) (rd : List UInt8) : Tells (rdataOK cls ty rd) (writeRdata cls ty rd) := by
  unfold writeRdata rdataOK
  cases componentTypes cls ty with
  | some ts => exact tells_writeComponents ts rd
  | none => exact tells_of_noInv noInv_panic

theorem tells_addRr (hint : Hint) (owner : WName) (ty cls ttl : Nat) (rd : List UInt8) :
    Tells (rdataOK cls ty rd) (addRr hint owner ty cls ttl rd) := by
  unfold addRr
  refine tells_bind (noInv_modify _) fun _ => tells_bind (noInv_writeHintedName _ _) fun p =>
    tells_bind (noInv_modify _) fun _ => tells_bind (noInv_modify _) fun _ =>
    tells_bind (noInv_tryPush _) fun _ => tells_bind (noInv_tryPush _) fun _ =>
    tells_bind (noInv_tryPush _) fun _ => tells_bind (noInv_gets _) fun av =>
    tells_bind (noInv_gets _) fun st => ?_
  split
  · intro s; exact ⟨(fun ⟨a, hh⟩ => by cases hh), fun hh => by cases hh⟩
  · split
    · intro s; exact ⟨(fun ⟨a, hh⟩ => by cases hh), fun hh => by cases hh⟩
    · refine tells_bind (noInv_modify _) fun _ => tells_then (tells_writeRdata cls ty rd) fun _ =>
        noInv_bind (noInv_gets _) fun c => ?_
      split
      · exact noInv_panic
      · exact noInv_write _ _

theorem tells_addRrset (owner : WName) (ty cls ttl : Nat) :
    ∀ (rds : List (List UInt8)) (hint : Hint) (n : Nat),
      Tells (rds.all (rdataOK cls ty)) (addRrset hint owner ty cls ttl rds n) := by
  intro rds
  induction rds with
  | nil => intro hint n; exact tells_of_noInv (noInv_pure n)
  | cons rd rds ih =>
    intro hint n
    unfold addRrset
    simp only [List.all_cons]
    exact tells_and (tells_addRr hint owner ty cls ttl rd) fun _ => ih _ _

theorem noInv_changeSection (sec : RrSection) : NoInv (changeSection sec) := by
  intro s h
  unfold changeSection at h
  split at h <;> cases h

theorem withRollback_fst' {α} (f : M α) (s : State) : (withRollback f s).1 = (f s).1 := by
  unfold withRollback
  cases f s with
  | mk r s' => cases r <;> rfl

/-- **`add_*_rr`**: it can succeed only if the RDATA splits into the components of its type, and
    it reports `InvalidRdata` only if it does not -/
theorem addRrOp_rdata (sec : RrSection) (hint : Hint) (owner : WName) (ty cls ttl : Nat)
    (rd : List UInt8) (s : State) :
    ((addRrOp sec hint owner ty cls ttl rd s).1 = .ok () → rdataOK cls ty rd = true) ∧
    ((addRrOp sec hint owner ty cls ttl rd s).1 = .err .InvalidRdata → rdataOK cls ty rd = false) := by
  unfold addRrOp
  rw [withRollback_fst']
  have ht : Tells (rdataOK cls ty rd) (do
      changeSection sec
      addRr hint owner ty cls (ttlFrom ttl) rd
      let c ← M.gets (getCount sec)
      if c + 1 > 65535 then M.fail .CountOverflow else setCount sec (c + 1)) :=
    tells_bind (noInv_changeSection sec) fun _ => tells_then (tells_addRr _ _ _ _ _ _) fun _ =>
      noInv_bind (noInv_gets _) fun c => by
        split
        · exact noInv_fail _ (by simp)
        · cases sec <;> exact noInv_modify _
  exact ⟨fun h => (ht s).1 ⟨(), h⟩, (ht s).2⟩

/-- the same for `add_*_rrset`: all / not all RDATAs of the set split -/
theorem addRrsetOp_rdata (sec : RrSection) (hint : Hint) (owner : WName) (ty cls ttl : Nat)
    (rds : List (List UInt8)) (s : State) :
    ((addRrsetOp sec hint owner ty cls ttl rds s).1 = .ok () → rds.all (rdataOK cls ty) = true) ∧
    ((addRrsetOp sec hint owner ty cls ttl rds s).1 = .err .InvalidRdata →
      rds.all (rdataOK cls ty) = false) := by
  unfold addRrsetOp
  rw [withRollback_fst']
  have ht : Tells (rds.all (rdataOK cls ty)) (do
      changeSection sec
      let n ← addRrset hint owner ty cls (ttlFrom ttl) rds 0
      let c ← M.gets (getCount sec)
      if n > 65535 then M.fail .CountOverflow
      else if c + n > 65535 then M.fail .CountOverflow
      else setCount sec (c + n)) :=
    tells_bind (noInv_changeSection sec) fun _ => tells_then (tells_addRrset _ _ _ _ _ _ _) fun n =>
      noInv_bind (noInv_gets _) fun c => by
        split
        · exact noInv_fail _ (by simp)
        · split
          · exact noInv_fail _ (by simp)
          · cases sec <;> exact noInv_modify _
  exact ⟨fun h => (ht s).1 ⟨(), h⟩, (ht s).2⟩

end QV.Writer
