/-
  QV.Proofs.ServerEcho — C03 at full strength for *every* response: whatever
  `handle_message_with_context` does after the question (the scans, OPT and TSIG processing, the
  dispatch, a zone's answer) and whatever `finish` appends, the response's ID, QR, opcode, RD, RA,
  Z/AD/CD and its question section are those the header copy and `add_question` wrote.
-/
import QV.Proofs.FrameServer
import QV.Proofs.FinishInv
import QV.Proofs.QuestionOctets

namespace QV.ServerScan
open QV QV.Wire QV.Reader QV.Writer

/-- what the writer holds when `handle_message_with_context` returns with `send_response` set -/
structure EchoSt (bufLen id opcode : Nat) (rd : Bool) (q : Option Spec.DQuestion) (w1 : State) : Prop where
  cur : 12 + (qOctets q).length ≤ w1.cursor
  rrs : 12 + (qOctets q).length ≤ w1.rrStart
  size : w1.octets.size = bufLen
  fits : 12 + (qOctets q).length ≤ bufLen
  o0 : w1.octets[0]? = some (UInt8.ofNat (id / 256 % 256))
  o1 : w1.octets[1]? = some (UInt8.ofNat (id % 256))
  o2 : w1.octets.getD 2 0 &&& 0xF9 = h2val opcode rd &&& 0xF9
  o3 : w1.octets.getD 3 0 &&& 0xF0 = 0
  qd : w1.qdcount = (if q.isSome then 1 else 0)
  body : ∀ j, j < (qOctets q).length → w1.octets[12 + j]? = (qOctets q)[j]?

/-- from the state after the question, through anything that frames -/
theorem echo_of_frame (bufLen : Nat) (tr : Server.Transport) (payload id opcode : Nat) (rd : Bool)
    (hbuf : minBuf tr payload ≤ bufLen) (hpay : 512 ≤ payload) (msg : Bytes) (q : Option Spec.DQuestion)
    (hq : ∀ x, q = some x → ∃ nx, Spec.specQuestionAt msg 12 = some (x.qname, x.qtype, x.qclass, nx))
    (w1 : State)
    (hfr : Fr false (12 + (qOctets q).length) (qSt (hdrSt (w0 bufLen (lim0 tr)) id opcode rd) q) w1) :
    EchoSt bufLen id opcode rd q w1 := by
  obtain ⟨hbase, hcur, o0, o1, o2, h30, hs3, hQ, hqd, han, hns, har, hrrs, hsz⟩ :=
    s1_facts bufLen tr payload id opcode rd hbuf hpay msg q hq
  generalize qSt (hdrSt (w0 bufLen (lim0 tr)) id opcode rd) q = s1 at *
  have hfit : 12 + (qOctets q).length ≤ bufLen := by
    have := hbase.room; have := hbase.avail; have := hbase.sizeL; omega
  have h2 : s1.octets.getD 2 0 = h2val opcode rd := by
    rw [Array.getD_eq_getD_getElem?, o2]; rfl
  refine ⟨hfr.cur, by rw [hfr.rrStart, hrrs]; exact Nat.le_refl _, by rw [hfr.size, hsz], hfit, ?_, ?_, ?_, ?_, ?_, ?_⟩
  · rw [hfr.body 0 (by omega) (by omega) (by omega)]; exact o0
  · rw [hfr.body 1 (by omega) (by omega) (by omega)]; exact o1
  · rw [hfr.o2, h2]
  · rw [hfr.o3, h30]; rfl
  · rw [hfr.qd]; exact hqd
  · intro j hj
    rw [hfr.body (12 + j) (by omega) (by omega) (by omega)]
    exact hQ j hj

theorem hwc_echo (cfg : Server.Cfg) (tr : Server.Transport) (now bufLen : Nat) (req : Bytes)
    (hbuf : minBuf tr cfg.payload ≤ bufLen) (hpay : 512 ≤ cfg.payload) (h12 : 12 ≤ req.size)
    (id opcode : Nat) (rd : Bool) (w1 : State)
    (h : Server.handleWithContext cfg tr now ⟨req, 12, none⟩ (hdrSt (w0 bufLen (lim0 tr)) id opcode rd) = (.ok true, w1)) :
    EchoSt bufLen id opcode rd (specBody (catKind cfg) cfg.payload req).question w1 := by
  obtain ⟨hqd, han, hns, har, _, hop, _, _⟩ := reader_header req h12
  have hH := hdrSt_ok bufLen tr cfg.payload id opcode rd hbuf hpay
  rw [Server.handleWithContext_split] at h
  unfold Server.handleWithContext' at h
  simp only [hqd, han, hns, har, hop] at h
  -- the state after the question and the frame of everything that follows
  have key : ∀ (q : Option Spec.DQuestion) (question : Option (WName × Nat × Nat)) (r1 : Reader)
      (hq : ∀ x, q = some x → ∃ nx, Spec.specQuestionAt req 12 = some (x.qname, x.qtype, x.qclass, nx)),
      Server.scanAndDispatch cfg tr now (Spec.Server.hdr req 6) (Spec.Server.hdr req 8) (Spec.Server.hdr req 10)
        (((req.getD 2 0).toNat &&& 120) >>> 3) question r1 (qSt (hdrSt (w0 bufLen (lim0 tr)) id opcode rd) q) =
        (.ok true, w1) → EchoSt bufLen id opcode rd q w1 := by
    intro q question r1 hq hsd
    obtain ⟨_, hcur, _, _, _, _, _, _, _, _, _, _, hrrs, _⟩ :=
      s1_facts bufLen tr cfg.payload id opcode rd hbuf hpay req q hq
    have := Server.framed_scanAndDispatch (12 + (qOctets q).length) (by omega) cfg tr now
      (Spec.Server.hdr req 6) (Spec.Server.hdr req 8) (Spec.Server.hdr req 10)
      (((req.getD 2 0).toNat &&& 120) >>> 3) question r1 (qSt (hdrSt (w0 bufLen (lim0 tr)) id opcode rd) q)
      (by rw [hcur]; exact Nat.le_refl _) (by rw [hrrs]; exact Nat.le_refl _)
    rw [hsd] at this
    exact echo_of_frame bufLen tr cfg.payload id opcode rd hbuf hpay req q hq w1 this
  by_cases hq0 : Spec.Server.hdr req 4 = 0
  · have hsq : (specBody (catKind cfg) cfg.payload req).question = none := by
      unfold specBody
      simp only [hq0, show ¬ (0 > 1) by omega, if_false, if_true]
      exact (specTail_props _ _ _ _ _ _ _ _ _).2.2.2
    rw [hsq]
    simp only [hq0, if_true] at h
    rw [bind_ok (show Server.addQuestionOrServfail none _ = (.ok true, _) from rfl)] at h
    simp only [Bool.not_true, Bool.false_eq_true, if_false] at h
    exact key none none _ (fun x hx => by cases hx) h
  · by_cases hq1 : Spec.Server.hdr req 4 = 1
    · simp only [hq1, show ¬ ((1 : Nat) = 0) by omega, if_false, if_true] at h
      have hrq := readQuestion_spec (⟨req, 12, none⟩ : Reader)
      cases hsq : Spec.specQuestionAt req 12 with
      | none =>
        rw [show (⟨req, 12, none⟩ : Reader).octets = req from rfl,
          show (⟨req, 12, none⟩ : Reader).cursor = 12 from rfl, hsq] at hrq
        obtain ⟨x, hx⟩ := hrq
        have hsqq : (specBody (catKind cfg) cfg.payload req).question = none := by
          unfold specBody
          simp only [hq1, show ¬ ((1 : Nat) > 1) by omega, if_false, show ¬ ((1 : Nat) = 0) by omega, hsq]
        rw [hsqq]
        simp only [hx, RC_FORMERR] at h
        -- FORMERR on the header-only writer
        have hcs : (hdrSt (w0 bufLen (lim0 tr)) id opcode rd).cursor = 12 := hH.cursor
        have hrs : (hdrSt (w0 bufLen (lim0 tr)) id opcode rd).rrStart = 12 := hH.rrStart
        have := framed_bind (k := false) (framed_setRcode 12 (by omega) 1 (by omega)) (fun _ => framed_pure 12 true)
          (hdrSt (w0 bufLen (lim0 tr)) id opcode rd) (by rw [hcs]; exact Nat.le_refl _) (by rw [hrs]; exact Nat.le_refl _)
        have h' : (setRcode 1 >>= fun _ => pure true : M Bool) (hdrSt (w0 bufLen (lim0 tr)) id opcode rd) =
            (.ok true, w1) := h
        rw [h'] at this
        exact echo_of_frame bufLen tr cfg.payload id opcode rd hbuf hpay req none (fun x hx => by cases hx) w1 this
      | some v =>
        obtain ⟨w, t, c, nx⟩ := v
        rw [show (⟨req, 12, none⟩ : Reader).octets = req from rfl,
          show (⟨req, 12, none⟩ : Reader).cursor = 12 from rfl, hsq] at hrq
        simp only at hrq
        obtain ⟨p, hp, hpw, hnx, hnxs, hwl⟩ := specQuestionAt_some req 12 w t c nx hsq
        obtain ⟨qn, hqn, hqw⟩ := wname_of_parse req 12 p hp
        rw [hpw] at hqn hqw
        have hsqq : (specBody (catKind cfg) cfg.payload req).question = some ⟨w, t, c⟩ := by
          unfold specBody
          simp only [hq1, show ¬ ((1 : Nat) > 1) by omega, if_false, show ¬ ((1 : Nat) = 0) by omega, hsq]
          exact (specTail_props _ _ _ _ _ _ _ _ _).2.2.2
        rw [hsqq]
        obtain ⟨hadd, _⟩ := qSt_some _ tr cfg.payload hH ⟨w, t, c⟩ qn hqn hqw hwl
        simp only [hrq, hqn] at h
        have hQ : Server.addQuestionOrServfail (some (qn, t, c)) (hdrSt (w0 bufLen (lim0 tr)) id opcode rd) =
            (.ok true, qSt (hdrSt (w0 bufLen (lim0 tr)) id opcode rd) (some ⟨w, t, c⟩)) := by
          show (match addQuestion qn t c _ with
            | (.ok (), s') => ((.ok true : Out WriterErr Bool), s')
            | (.err _, s') => (do setRcode (Server.RC "SERVFAIL"); pure false : M Bool) s'
            | (.panic, s') => (.panic, s')) = _
          rw [hadd]
        rw [bind_ok hQ] at h
        simp only [Bool.not_true, Bool.false_eq_true, if_false] at h
        exact key (some ⟨w, t, c⟩) _ _ (fun x hx => by cases hx; exact ⟨nx, hsq⟩) h
    · simp only [hq0, hq1, if_false] at h
      cases h


/-! ### the response -/

theorem mask2_facts : ∀ x y : UInt8, x &&& 0xF9 = y &&& 0xF9 →
    x.toNat / 128 % 2 = y.toNat / 128 % 2 ∧ x.toNat / 8 % 16 = y.toNat / 8 % 16 ∧ x.toNat % 2 = y.toNat % 2 := by
  apply Wire.forall_uint8; intro n hn
  apply Wire.forall_uint8; revert n; decide +kernel

theorem mask3_facts : ∀ x : UInt8, x &&& 0xF0 = 0 → x.toNat < 16 := by
  apply Wire.forall_uint8; decide +kernel

theorem echo_arith (v2 v3 x y h r : Nat) (hv2 : v2 < 256) (hx : x < 256) (hy : y < 256) (m4 : v3 < 16)
    (m1 : v2 / 128 % 2 = h / 128 % 2) (m2 : v2 / 8 % 16 = h / 8 % 16) (m3 : v2 % 2 = h % 2)
    (a1 : h / 128 % 2 = 1) (a2 : h / 8 % 16 = x / 8 % 16) (a5 : h % 2 = r) :
    (v2 * 256 + v3) / 32768 % 2 = 1 ∧ (v2 * 256 + v3) / 2048 % 16 = (x * 256 + y) / 2048 % 16 ∧
    (v2 * 256 + v3) / 256 % 2 = r ∧ (v2 * 256 + v3) / 128 % 2 = 0 ∧ (v2 * 256 + v3) / 16 % 8 = 0 ∧
    (x * 256 + y) / 2048 % 16 = x / 8 % 16 ∧ (x * 256 + y) / 256 % 2 = x % 2 := by
  refine ⟨by omega, by omega, by omega, by omega, by omega, by omega, by omega⟩

/-- **every response echoes the header and the question.** Whatever the request, the catalog, the
    keys, the clock, the transport: if `handle_message` returns a response, its ID and opcode are the
    request's, QR is set, RD is the request's for opcode QUERY and clear otherwise, RA and Z/AD/CD
    are clear, QDCOUNT is 1 exactly when the spec's scan decoded a question, and the question
    section is that question's (uncompressed) encoding. -/
theorem response_echo (cfg : Server.Cfg) (tr : Server.Transport) (now bufLen : Nat) (req : Bytes)
    (hbuf : minBuf tr cfg.payload ≤ bufLen) (hpay : 512 ≤ cfg.payload) (b : Bytes)
    (h : Server.handleMessage cfg tr now bufLen req = .ok (some b)) :
    Spec.Server.hdr b 0 = Spec.Server.hdr req 0 ∧
    Spec.Server.hdr b 2 / 32768 % 2 = 1 ∧
    Spec.Server.hdr b 2 / 2048 % 16 = Spec.Server.hdr req 2 / 2048 % 16 ∧
    Spec.Server.hdr b 2 / 256 % 2 =
      (if Spec.Server.hdr req 2 / 2048 % 16 = 0 then Spec.Server.hdr req 2 / 256 % 2 else 0) ∧
    Spec.Server.hdr b 2 / 128 % 2 = 0 ∧ Spec.Server.hdr b 2 / 16 % 8 = 0 ∧
    Spec.Server.hdr b 4 =
      (if (Spec.Server.specScanWith (catKind cfg) cfg.payload req).question.isSome then 1 else 0) ∧
    (b.toList.drop 12).take (qOctets (Spec.Server.specScanWith (catKind cfg) cfg.payload req).question).length =
      qOctets (Spec.Server.specScanWith (catKind cfg) cfg.payload req).question := by
  have h12 : 12 ≤ req.size := by
    by_cases hc : req.size < 12
    · rw [handleMessage_short cfg tr now bufLen req hbuf hc] at h; cases h
    · omega
  have hqr : (req.getD 2 0).toNat < 128 := by
    by_cases hc : (req.getD 2 0).toNat ≥ 128
    · rw [handleMessage_qr cfg tr now bufLen req hbuf h12 hc] at h; cases h
    · omega
  rw [specScanWith_eq]
  simp only [show ¬ req.size < 12 by omega, show ¬ (req.getD 2 0).toNat ≥ 128 by omega, if_false]
  rw [handleMessage_eq cfg tr now bufLen req hbuf hpay h12 hqr] at h
  rcases hh : Server.handleWithContext cfg tr now ⟨req, 12, none⟩
      (hdrSt (w0 bufLen (lim0 tr)) (Spec.Server.hdr req 0) (((req.getD 2 0).toNat &&& 120) >>> 3)
        (((req.getD 2 0).toNat &&& 1) != 0)) with ⟨(bb | e | _), w1⟩
  · rw [hh] at h
    cases bb with
    | false => simp only at h; cases h
    | true =>
      simp only at h
      have hE := hwc_echo cfg tr now bufLen req hbuf hpay h12 _ _ _ w1 hh
      generalize (specBody (catKind cfg) cfg.payload req).question = q at hE ⊢
      rcases hf : Writer.finish w1 Server.macFn with ⟨bytes, mac⟩ | e | _
      · rw [hf] at h
        simp only [Out.ok.injEq, Option.some.injEq] at h
        subst h
        obtain ⟨f1, f2, f3, f4, f5, f6⟩ := finish_frame (12 + (qOctets q).length) (by omega) w1 Server.macFn
          hE.cur hE.rrs (by rw [hE.size]; exact hE.fits) bytes mac hf
        -- octets 0..5 of the response
        have b0 : bytes.getD 0 0 = UInt8.ofNat (Spec.Server.hdr req 0 / 256 % 256) := by
          rw [Array.getD_eq_getD_getElem?, f2 0 (by omega) (by omega), hE.o0]; rfl
        have b1 : bytes.getD 1 0 = UInt8.ofNat (Spec.Server.hdr req 0 % 256) := by
          rw [Array.getD_eq_getD_getElem?, f2 1 (by omega) (by omega), hE.o1]; rfl
        have hid : u16be (Spec.Server.hdr req 0) = [req.getD 0 0, req.getD 1 0] := u16be_hdr _ _
        have e0 : UInt8.ofNat (Spec.Server.hdr req 0 / 256 % 256) = req.getD 0 0 := by
          have h := hid; unfold u16be at h; exact (List.cons.inj h).1
        have e1 : UInt8.ofNat (Spec.Server.hdr req 0 % 256) = req.getD 1 0 := by
          have h := hid; unfold u16be at h; exact (List.cons.inj (List.cons.inj h).2).1
        have b2 : bytes.getD 2 0 &&& 0xF9 = hdr2 (req.getD 2 0) &&& 0xF9 := by
          rw [f3, hE.o2, h2_spec]; rfl
        have b3 : bytes.getD 3 0 &&& 0xF0 = 0 := by rw [f4, hE.o3]
        obtain ⟨m1, m2, m3⟩ := mask2_facts _ _ b2
        have m4 := mask3_facts _ b3
        obtain ⟨a1, a2, _, _, a5⟩ := hdr2_bits (req.getD 2 0)
        have hx := (req.getD 2 0).toNat_lt
        have hy := (req.getD 3 0).toNat_lt
        have hv := (bytes.getD 2 0).toNat_lt
        have b4 : bytes.getD 4 0 = UInt8.ofNat (w1.qdcount / 256 % 256) := by
          rw [Array.getD_eq_getD_getElem?, f5]; rfl
        have b5 : bytes.getD 5 0 = UInt8.ofNat (w1.qdcount % 256) := by
          rw [Array.getD_eq_getD_getElem?, f6]; rfl
        obtain ⟨g1, g2, g3, g4, g5, g6, g7⟩ := echo_arith (bytes.getD 2 0).toNat (bytes.getD 3 0).toNat
          (req.getD 2 0).toNat (req.getD 3 0).toNat (hdr2 (req.getD 2 0)).toNat _ hv hx hy m4 m1 m2 m3 a1 a2 a5
        refine ⟨?_, ?_, ?_, ?_, ?_, ?_, ?_, ?_⟩
        · unfold Spec.Server.hdr; rw [b0, b1, e0, e1]
        · exact g1
        · exact g2
        · show _ = (if ((req.getD 2 0).toNat * 256 + (req.getD 3 0).toNat) / 2048 % 16 = 0 then
            ((req.getD 2 0).toNat * 256 + (req.getD 3 0).toNat) / 256 % 2 else 0)
          rw [g6, g7]; exact g3
        · exact g4
        · exact g5
        · unfold Spec.Server.hdr
          rw [b4, b5, hE.qd]
          cases q <;> simp
        · apply List.ext_getElem?
          intro j
          rw [List.getElem?_take]
          by_cases hj : j < (qOctets q).length
          · rw [if_pos hj, List.getElem?_drop, Array.getElem?_toList, f2 (12 + j) (by omega) (by omega), hE.body j hj]
          · rw [if_neg hj, List.getElem?_eq_none (by omega)]
      · rw [hf] at h; cases h
      · rw [hf] at h; cases h
  · rw [hh] at h; cases h
  · rw [hh] at h; cases h


/-! ### the EDNS and TSIG slots when a loaded zone answers -/

theorem specTail_none_not_answer (lookup : List UInt8 → Nat → Option Spec.Server.ZoneKind) (S : Nat) (msg : Bytes)
    (p1 an ns ar op : Nat) : (specTail lookup S msg none p1 an ns ar op).verdict ≠ .answer := by
  unfold specTail
  repeat' split
  all_goals first | (simp; done) | simp_all

/-- **when a loaded zone answers** (verdict `answer`): whatever the zone holds and whatever the
    answering phase does (records, CNAME chains, referrals, negative answers, SERVFAIL and truncation
    epilogues), the writer that `finish` receives has an empty TSIG slot, and its EDNS slot is set —
    with the server's payload size — exactly when the scan reached an OPT record -/
theorem hwc_answer_slot (cfg : Server.Cfg) (tr : Server.Transport) (now bufLen : Nat) (req : Bytes)
    (hbuf : minBuf tr cfg.payload ≤ bufLen) (hpay : 512 ≤ cfg.payload) (h12 : 12 ≤ req.size)
    (hreq : req.size ≤ Rdata.USIZE_MAX) (id opcode : Nat) (rd : Bool)
    (hv : (specBody (catKind cfg) cfg.payload req).verdict = .answer) :
    ((Server.handleWithContext cfg tr now ⟨req, 12, none⟩ (hdrSt (w0 bufLen (lim0 tr)) id opcode rd)).2).tsig = none ∧
    ((Server.handleWithContext cfg tr now ⟨req, 12, none⟩ (hdrSt (w0 bufLen (lim0 tr)) id opcode rd)).2).edns.map
        (·.payload) = (if (specBody (catKind cfg) cfg.payload req).edns then some cfg.payload else none) := by
  obtain ⟨hqd, han, hns, har, _, hop, _, _⟩ := reader_header req h12
  have hH := hdrSt_ok bufLen tr cfg.payload id opcode rd hbuf hpay
  rw [Server.handleWithContext_split]
  unfold Server.handleWithContext'
  simp only [hqd, han, hns, har, hop, opcode_bits]
  by_cases hq0 : Spec.Server.hdr req 4 = 0
  · exfalso
    have : specBody (catKind cfg) cfg.payload req = specTail (catKind cfg) cfg.payload req none 12
        (Spec.Server.hdr req 6) (Spec.Server.hdr req 8) (Spec.Server.hdr req 10) ((req.getD 2 0).toNat / 8 % 16) := by
      unfold specBody
      simp only [hq0, show ¬ (0 > 1) by omega, if_false, if_true]
    rw [this] at hv
    exact specTail_none_not_answer _ _ _ _ _ _ _ _ hv
  · by_cases hq1 : Spec.Server.hdr req 4 = 1
    · simp only [hq1, show ¬ ((1 : Nat) = 0) by omega, if_false, if_true]
      have hrq := readQuestion_spec (⟨req, 12, none⟩ : Reader)
      cases hsq : Spec.specQuestionAt req 12 with
      | none =>
        exfalso
        have : specBody (catKind cfg) cfg.payload req = { respond := true, verdict := .formErr } := by
          unfold specBody
          simp only [hq1, show ¬ ((1 : Nat) > 1) by omega, if_false, show ¬ ((1 : Nat) = 0) by omega, hsq]
        rw [this] at hv; cases hv
      | some v =>
        obtain ⟨w, t, c, nx⟩ := v
        rw [show (⟨req, 12, none⟩ : Reader).octets = req from rfl,
          show (⟨req, 12, none⟩ : Reader).cursor = 12 from rfl, hsq] at hrq
        simp only at hrq
        obtain ⟨p, hp, hpw, hnx, hnxs, hwl⟩ := specQuestionAt_some req 12 w t c nx hsq
        obtain ⟨qn, hqn, hqw⟩ := wname_of_parse req 12 p hp
        rw [hpw] at hqn hqw
        have hsc : specBody (catKind cfg) cfg.payload req = specTail (catKind cfg) cfg.payload req (some ⟨w, t, c⟩) nx
            (Spec.Server.hdr req 6) (Spec.Server.hdr req 8) (Spec.Server.hdr req 10) ((req.getD 2 0).toNat / 8 % 16) := by
          unfold specBody
          simp only [hq1, show ¬ ((1 : Nat) > 1) by omega, if_false, show ¬ ((1 : Nat) = 0) by omega, hsq]
        rw [hsc] at hv ⊢
        obtain ⟨hadd, hbase, _, hcur, _, _, _, _, hrrs⟩ := qSt_some _ tr cfg.payload hH ⟨w, t, c⟩ qn hqn hqw hwl
        simp only [hrq, hqn]
        have hQ : Server.addQuestionOrServfail (some (qn, t, c)) (hdrSt (w0 bufLen (lim0 tr)) id opcode rd) =
            (.ok true, qSt (hdrSt (w0 bufLen (lim0 tr)) id opcode rd) (some ⟨w, t, c⟩)) := by
          show (match addQuestion qn t c _ with
            | (.ok (), s') => ((.ok true : Out WriterErr Bool), s')
            | (.err _, s') => (do setRcode (Server.RC "SERVFAIL"); pure false : M Bool) s'
            | (.panic, s') => (.panic, s')) = _
          rw [hadd]
        rw [bind_ok hQ]
        simp only [Bool.not_true, Bool.false_eq_true, if_false]
        rw [scanAndDispatch_answer cfg tr now req (some ⟨w, t, c⟩) (some (qn, t, c))
          ⟨req, nx, none⟩ ⟨h12, hnxs⟩ rfl _ hbase hreq tsigFacts _ _ _ _ hv]
        -- the answering phase keeps the TSIG slot and the EDNS payload size
        generalize hs1 : qSt (hdrSt (w0 bufLen (lim0 tr)) id opcode rd) (some ⟨w, t, c⟩) = s1 at *
        generalize hsce : (specTail (catKind cfg) cfg.payload req (some ⟨w, t, c⟩) nx (Spec.Server.hdr req 6)
          (Spec.Server.hdr req 8) (Spec.Server.hdr req 10) ((req.getD 2 0).toNat / 8 % 16)).edns = e
        generalize hscl : (specTail (catKind cfg) cfg.payload req (some ⟨w, t, c⟩) nx (Spec.Server.hdr req 6)
          (Spec.Server.hdr req 8) (Spec.Server.hdr req 10) ((req.getD 2 0).toNat / 8 % 16)).limitUdp = l
        obtain ⟨f1, f2, f3, _, _, _, _, f8⟩ := arSt_fields s1 tr cfg.payload e l
        have hfr := framed_bind (k := true) (Server.framed_handleQuery (12 + w.length + 4) (by omega) cfg
          (some (qn, t, c)) tr) (fun _ => framed_pure (12 + w.length + 4) true) (arSt s1 tr cfg.payload e l)
          (by rw [f2, hcur]; exact Nat.le_refl _)
          (by
            have : (arSt s1 tr cfg.payload e l).rrStart = s1.rrStart := by cases e <;> cases tr <;> rfl
            rw [this, hrrs]; exact Nat.le_refl _)
        obtain ⟨k1, k2⟩ := hfr.keep rfl
        refine ⟨by rw [k1, f3]; exact hbase.tsig, ?_⟩
        rw [k2, f8, hbase.edns]
        cases e <;> rfl
    · exfalso
      have hgt : Spec.Server.hdr req 4 > 1 := by omega
      have : specBody (catKind cfg) cfg.payload req = { respond := false } := by
        unfold specBody
        simp only [hgt, if_true]
      rw [this] at hv; cases hv


/-- the writer at the moment `handle_message_with_context` returns, i.e. what `finish` receives -/
def answerState (cfg : Server.Cfg) (tr : Server.Transport) (now bufLen : Nat) (req : Bytes) : State :=
  (Server.handleWithContext cfg tr now ⟨req, 12, none⟩
    (hdrSt (w0 bufLen (lim0 tr)) (Spec.Server.hdr req 0) (((req.getD 2 0).toNat &&& 120) >>> 3)
      (((req.getD 2 0).toNat &&& 1) != 0))).2

/-- **the end of a response that a loaded zone produces** (verdict `answer`): with `w1` the writer
    the answering phase leaves, the response is `w1`'s content up to its cursor (counts filled in)
    and then — exactly when the scan reached an OPT — the eleven octets of one OPT record: owner root,
    TYPE 41, CLASS = the server's payload size, version 0, flags 0, RDLENGTH 0.  Nothing else is
    appended (no TSIG record). -/
theorem answer_finish (cfg : Server.Cfg) (tr : Server.Transport) (now bufLen : Nat) (req : Bytes)
    (hbuf : minBuf tr cfg.payload ≤ bufLen) (hpay : 512 ≤ cfg.payload) (hreq : req.size ≤ Rdata.USIZE_MAX)
    (hv : (Spec.Server.specScanWith (catKind cfg) cfg.payload req).verdict = .answer)
    (b : Bytes) (h : Server.handleMessage cfg tr now bufLen req = .ok (some b)) :
    if (Spec.Server.specScanWith (catKind cfg) cfg.payload req).edns then
      b.size = (answerState cfg tr now bufLen req).cursor + 11 ∧
      (∀ i, i < (answerState cfg tr now bufLen req).cursor →
        b[i]? = (withCounts (answerState cfg tr now bufLen req))[i]?) ∧
      ∃ x : UInt8, b.toList.drop (answerState cfg tr now bufLen req).cursor =
        [0] ++ u16be 41 ++ u16be cfg.payload ++ [x, 0, 0, 0] ++ u16be 0
    else
      b = (withCounts (answerState cfg tr now bufLen req)).extract 0 (answerState cfg tr now bufLen req).cursor := by
  have h12 : 12 ≤ req.size := by
    by_cases hc : req.size < 12
    · rw [handleMessage_short cfg tr now bufLen req hbuf hc] at h; cases h
    · omega
  have hqr : (req.getD 2 0).toNat < 128 := by
    by_cases hc : (req.getD 2 0).toNat ≥ 128
    · rw [handleMessage_qr cfg tr now bufLen req hbuf h12 hc] at h; cases h
    · omega
  rw [specScanWith_eq] at hv ⊢
  simp only [show ¬ req.size < 12 by omega, show ¬ (req.getD 2 0).toNat ≥ 128 by omega, if_false] at hv ⊢
  obtain ⟨ht, he⟩ := hwc_answer_slot cfg tr now bufLen req hbuf hpay h12 hreq (Spec.Server.hdr req 0)
    (((req.getD 2 0).toNat &&& 120) >>> 3) (((req.getD 2 0).toNat &&& 1) != 0) hv
  rw [handleMessage_eq cfg tr now bufLen req hbuf hpay h12 hqr] at h
  unfold answerState
  rcases hh : Server.handleWithContext cfg tr now ⟨req, 12, none⟩
      (hdrSt (w0 bufLen (lim0 tr)) (Spec.Server.hdr req 0) (((req.getD 2 0).toNat &&& 120) >>> 3)
        (((req.getD 2 0).toNat &&& 1) != 0)) with ⟨(bb | e | _), w1⟩
  · rw [hh] at h ht he
    simp only at ht he ⊢
    cases bb with
    | false => simp only at h; cases h
    | true =>
      simp only at h
      have hE := hwc_echo cfg tr now bufLen req hbuf hpay h12 _ _ _ w1 hh
      rcases hf : Writer.finish w1 Server.macFn with ⟨bytes, mac⟩ | e | _
      · rw [hf] at h
        simp only [Out.ok.injEq, Option.some.injEq] at h
        subst h
        have hsz : 12 ≤ w1.octets.size := by
          have := hE.fits; rw [hE.size]; omega
        obtain ⟨_, ft⟩ := finish_inv_tail w1 Server.macFn ht hsz bytes mac hf
        cases hed : (specBody (catKind cfg) cfg.payload req).edns with
        | false =>
          rw [hed] at he
          simp only [Bool.false_eq_true, if_false, Option.map_eq_none_iff] at he ⊢
          rw [he] at ft
          exact ft
        | true =>
          rw [hed] at he
          simp only [if_true] at he ⊢
          rcases hw : w1.edns with _ | ed
          · rw [hw] at he; cases he
          · rw [hw] at he ft
            simp only [Option.map_some, Option.some.injEq] at he
            simp only at ft
            refine ⟨ft.1, ft.2.2, UInt8.ofNat ed.upper, ?_⟩
            rw [ft.2.1, optRecord_shape, he]
      · rw [hf] at h; cases h
      · rw [hf] at h; cases h
  · rw [hh] at h; cases h
  · rw [hh] at h; cases h

end QV.ServerScan
