/-
  QV.Proofs.Frame — frame lemmas for the writer model: the operations the answering phase of the
  server issues (`add_*_rr`, `add_*_rrset`, `set_aa`, `set_tc`, `set_rcode`, `clear_rrs`) never touch
  the ID, QR, opcode, RD, RA, Z/AD/CD bits, the question octets, QDCOUNT, `rr_start`, the TSIG slot or
  the EDNS payload size, and never move the cursor below the start of the records.
-/
import QV.Proofs.WriterView
import QV.Proofs.Wire

namespace QV.Writer
open QV

/-- what is preserved from `s` to `s'`, relative to a bound `b` (the start of the records) -/
structure Fr (k : Bool) (b : Nat) (s s' : State) : Prop where
  size : s'.octets.size = s.octets.size
  body : ∀ i, i < b → i ≠ 2 → i ≠ 3 → s'.octets[i]? = s.octets[i]?
  o2 : (s'.octets.getD 2 0) &&& 0xF9 = (s.octets.getD 2 0) &&& 0xF9
  o3 : (s'.octets.getD 3 0) &&& 0xF0 = (s.octets.getD 3 0) &&& 0xF0
  qd : s'.qdcount = s.qdcount
  rrStart : s'.rrStart = s.rrStart
  cur : b ≤ s'.cursor
  /-- with `k`: the TSIG slot and the EDNS payload size are preserved too -/
  keep : k = true → s'.tsig = s.tsig ∧ s'.edns.map (·.payload) = s.edns.map (·.payload)

theorem Fr.refl (k : Bool) (b : Nat) (s : State) (h : b ≤ s.cursor) : Fr k b s s :=
  ⟨rfl, fun _ _ _ _ => rfl, rfl, rfl, rfl, rfl, h, fun _ => ⟨rfl, rfl⟩⟩

theorem Fr.trans {k : Bool} {b : Nat} {s s' s'' : State} (h1 : Fr k b s s') (h2 : Fr k b s' s'') : Fr k b s s'' :=
  ⟨h2.size.trans h1.size, fun i a c d => (h2.body i a c d).trans (h1.body i a c d), h2.o2.trans h1.o2,
   h2.o3.trans h1.o3, h2.qd.trans h1.qd, h2.rrStart.trans h1.rrStart, h2.cur,
   fun hk => ⟨((h2.keep hk).1).trans (h1.keep hk).1, ((h2.keep hk).2).trans (h1.keep hk).2⟩⟩

theorem Fr.weaken {k : Bool} {b : Nat} {s s' : State} (h : Fr k b s s') : Fr false b s s' :=
  ⟨h.size, h.body, h.o2, h.o3, h.qd, h.rrStart, h.cur, fun hk => by cases hk⟩

/-- the computation `m`, started in `s` (cursor and `rr_start` at or above `b ≥ 4`), frames -/
def FramedAt {α} (k : Bool) (b : Nat) (m : M α) (s : State) : Prop :=
  b ≤ s.cursor → b ≤ s.rrStart → Fr k b s (m s).2

def Framed {α} (k : Bool) (b : Nat) (m : M α) : Prop := ∀ s, FramedAt k b m s

theorem Framed.weaken {α} {k : Bool} {b : Nat} {m : M α} (h : Framed k b m) : Framed false b m :=
  fun s hc hr => (h s hc hr).weaken

variable {k : Bool}

theorem framedAt_bind {α β} {b : Nat} {x : M α} {f : α → M β} {s : State}
    (hx : FramedAt k b x s) (hf : b ≤ s.cursor → ∀ a s', x s = (.ok a, s') → FramedAt k b (f a) s') :
    FramedAt k b (x >>= f) s := by
  intro hc hr
  have h1 := hx hc hr
  rw [bind_apply]
  rcases hxs : x s with ⟨(a | e | _), s1⟩
  · rw [hxs] at h1
    simp only
    have := hf hc a s1 hxs h1.cur (by rw [h1.rrStart]; exact hr)
    exact h1.trans this
  · rw [hxs] at h1; exact h1
  · rw [hxs] at h1; exact h1

theorem framed_bind {α β} {b : Nat} {x : M α} {f : α → M β} (hx : Framed k b x) (hf : ∀ a, Framed k b (f a)) :
    Framed k b (x >>= f) := fun s => framedAt_bind (hx s) (fun _ a s' _ => hf a s')

theorem framed_pure {α} (b : Nat) (a : α) : Framed k b (pure a : M α) := fun s hc _ => Fr.refl _ b s hc
theorem framed_fail {α} (b : Nat) (e : WriterErr) : Framed k b (M.fail e : M α) := fun s hc _ => Fr.refl _ b s hc
theorem framed_panic {α} (b : Nat) : Framed k b (M.panic : M α) := fun s hc _ => Fr.refl _ b s hc
theorem framed_get (b : Nat) : Framed k b M.get := fun s hc _ => Fr.refl _ b s hc

/-- a state update that leaves the framed fields alone -/
theorem framed_modify (b : Nat) (f : State → State)
    (hf : ∀ s, (f s).octets = s.octets ∧ (f s).qdcount = s.qdcount ∧ (f s).rrStart = s.rrStart ∧
      (b ≤ s.cursor → b ≤ s.rrStart → b ≤ (f s).cursor) ∧
      (k = true → (f s).tsig = s.tsig ∧ (f s).edns.map (·.payload) = s.edns.map (·.payload))) :
    Framed k b (M.modify f) := by
  intro s hc hr
  obtain ⟨h1, h2, h3, h6, h7⟩ := hf s
  show Fr k b s (f s)
  exact ⟨by rw [h1], fun _ _ _ _ => by rw [h1], by rw [h1], by rw [h1], h2, h3, h6 hc hr, h7⟩

theorem framed_ite {α} (b : Nat) (c : Prop) [Decidable c] (x y : M α) (hx : Framed k b x) (hy : Framed k b y) :
    Framed k b (if c then x else y) := by
  split <;> assumption

/-! ### writes at or above the bound -/

theorem fr_writeAt (b : Nat) (hb : 4 ≤ b) (s : State) (pos : Nat) (data : List UInt8) (hp : b ≤ pos) (hc : b ≤ s.cursor) :
    Fr k b s { s with octets := writeAt s.octets pos data } := by
  have hget : ∀ i, i < b → (writeAt s.octets pos data)[i]? = s.octets[i]? := by
    intro i hi
    rw [writeAt_getElem?, if_neg (by omega)]
  refine ⟨writeAt_size _ _ _, fun i hi _ _ => hget i hi, ?_, ?_, rfl, rfl, hc, fun _ => ⟨rfl, rfl⟩⟩
  · show (writeAt s.octets pos data).getD 2 0 &&& 0xF9 = _
    rw [Array.getD_eq_getD_getElem?, Array.getD_eq_getD_getElem?, hget 2 (by omega)]
  · show (writeAt s.octets pos data).getD 3 0 &&& 0xF0 = _
    rw [Array.getD_eq_getD_getElem?, Array.getD_eq_getD_getElem?, hget 3 (by omega)]

theorem framedAt_write (b : Nat) (hb : 4 ≤ b) (pos : Nat) (data : List UInt8) (s : State) (hp : b ≤ pos) :
    FramedAt k b (write pos data) s := by
  intro hc _
  unfold write
  split
  · exact fr_writeAt b hb s pos data hp hc
  · exact Fr.refl _ b s hc

theorem framed_tryPush (b : Nat) (hb : 4 ≤ b) (data : List UInt8) : Framed k b (tryPush data) := by
  intro s hc hr
  rw [tryPush_v0]; unfold V0.tryPush
  split
  · exact Fr.refl _ b s hc
  · split
    · have := framedAt_write (k := k) b hb s.cursor data s hc hc hr
      rcases hw : write s.cursor data s with ⟨(a | e | _), s1⟩
      · rw [hw] at this
        simp only
        have hcur : b ≤ s1.cursor := this.cur
        exact ⟨this.size, this.body, this.o2, this.o3, this.qd, this.rrStart,
          by show b ≤ s1.cursor + data.length; omega, this.keep⟩
      · rw [hw] at this; exact this
      · rw [hw] at this; exact this
    · exact Fr.refl _ b s hc


theorem framed_tryPushU16 (b : Nat) (hb : 4 ≤ b) (v : Nat) : Framed k b (tryPushU16 v) := framed_tryPush b hb _
theorem framed_tryPushU32 (b : Nat) (hb : 4 ≤ b) (v : Nat) : Framed k b (tryPushU32 v) := framed_tryPush b hb _

/-- an update of ghost / compression bookkeeping fields only -/
theorem fr_same (b : Nat) (s s' : State) (h1 : s'.octets = s.octets) (h2 : s'.qdcount = s.qdcount)
    (h3 : s'.rrStart = s.rrStart) (h6 : b ≤ s'.cursor)
    (h7 : k = true → s'.tsig = s.tsig ∧ s'.edns.map (·.payload) = s.edns.map (·.payload)) :
    Fr k b s s' :=
  ⟨by rw [h1], fun _ _ _ _ => by rw [h1], by rw [h1], by rw [h1], h2, h3, h6, h7⟩

theorem framed_setCtx (b : Nat) (c : NameCtx) : Framed k b (setCtx c) :=
  fun s hc _ => fr_same b s _ rfl rfl rfl hc (fun _ => ⟨rfl, rfl⟩)

theorem framed_hvPush (b : Nat) (p : Option Nat) : Framed k b (hvPush p) := by
  intro s hc _
  show Fr k b s (match s.hv with
    | some v => if v.length < Gen.HINT_POINTER_VEC_SIZE then { s with hv := some (v ++ [p]) } else s
    | none => s)
  split
  · split
    · exact fr_same b s _ rfl rfl rfl hc (fun _ => ⟨rfl, rfl⟩)
    · exact Fr.refl _ b s hc
  · exact Fr.refl _ b s hc

theorem framed_ghostLabels (b : Nat) (pos : Nat) (ls : List Label) (r : Bool) : Framed k b (ghostLabels pos ls r) :=
  fun s hc _ => fr_same b s _ rfl rfl rfl hc (fun _ => ⟨rfl, rfl⟩)

theorem framed_pushPointer (b : Nat) (hb : 4 ≤ b) (p : Nat) : Framed k b (pushPointer p) := by
  intro s hc hr
  rw [pushPointer_v0]; unfold V0.pushPointer
  have := framed_tryPushU16 (k := k) b hb (49152 + p) s hc hr
  rcases hw : tryPushU16 (49152 + p) s with ⟨(a | e | _), s1⟩
  · rw [hw] at this
    simp only
    exact this.trans (fr_same b s1 _ rfl rfl rfl this.cur (fun _ => ⟨rfl, rfl⟩))
  · rw [hw] at this; exact this
  · rw [hw] at this; exact this

theorem framed_writeUncompressedName (b : Nat) (hb : 4 ≤ b) (n : WName) : Framed k b (writeUncompressedName n) := by
  intro s hc hr
  rw [writeUncompressedName_v0]; unfold V0.writeUncompressedName
  have := framed_tryPush (k := k) b hb n.wire s hc hr
  rcases hw : tryPush n.wire s with ⟨(a | e | _), s1⟩
  · rw [hw] at this
    simp only
    have h2 := framed_ghostLabels (k := k) b s.cursor n.labels true s1 this.cur (by rw [this.rrStart]; exact hr)
    rcases hg : ghostLabels s.cursor n.labels true s1 with ⟨r, s2⟩
    rw [hg] at h2
    exact this.trans h2
  · rw [hw] at this; exact this
  · rw [hw] at this; exact this

theorem framed_writeCompressedUnhintedName (b : Nat) (hb : 4 ≤ b) (n : WName) :
    Framed k b (writeCompressedUnhintedName n) := by
  intro s hc hr
  rw [writeCompressedUnhintedName_v0]; unfold V0.writeCompressedUnhintedName
  split
  · exact Fr.refl _ b s hc
  · exact Fr.refl _ b s hc
  · exact framed_writeUncompressedName b hb n s hc hr
  · rename_i m _
    split
    · have := framed_pushPointer (k := k) b hb m.priorPointer s hc hr
      rcases hw : pushPointer m.priorPointer s with ⟨(a | e | _), s1⟩
      · rw [hw] at this; exact this
      · rw [hw] at this; exact this
      · rw [hw] at this; exact this
    · have h1 := framed_tryPush (k := k) b hb (n.wireTo m.startColumn) s hc hr
      rcases hw : tryPush (n.wireTo m.startColumn) s with ⟨(a | e | _), s1⟩
      · rw [hw] at h1
        simp only
        have h2 := framed_ghostLabels (k := k) b s.cursor (n.labels.take m.startColumn) false s1 h1.cur
          (by rw [h1.rrStart]; exact hr)
        rcases hg : ghostLabels s.cursor (n.labels.take m.startColumn) false s1 with ⟨r, s2⟩
        rw [hg] at h2
        simp only
        have h12 := h1.trans h2
        have h3 := framed_pushPointer (k := k) b hb m.priorPointer s2 h12.cur (by rw [h12.rrStart]; exact hr)
        rcases hp : pushPointer m.priorPointer s2 with ⟨(a | e | _), s3⟩
        · rw [hp] at h3; exact h12.trans h3
        · rw [hp] at h3; exact h12.trans h3
        · rw [hp] at h3; exact h12.trans h3
      · rw [hw] at h1; exact h1
      · rw [hw] at h1; exact h1

theorem framed_writeUnhintedName (b : Nat) (hb : 4 ≤ b) (n : WName) : Framed k b (writeUnhintedName n) := by
  intro s hc hr
  rw [writeUnhintedName_v0]; unfold V0.writeUnhintedName
  split
  · exact framed_writeCompressedUnhintedName b hb n s hc hr
  · exact framed_writeUncompressedName b hb n s hc hr

theorem framed_pushHinted (b : Nat) (hb : 4 ≤ b) (p : Prior) : Framed k b (pushHinted p) := by
  intro s hc hr
  rw [pushHinted_v0]; unfold V0.pushHinted
  have := framed_pushPointer (k := k) b hb p.ptr s hc hr
  rcases hw : pushPointer p.ptr s with ⟨(a | e | _), s1⟩
  · rw [hw] at this; exact this
  · rw [hw] at this; exact this
  · rw [hw] at this; exact this

theorem framed_writeHintedName (b : Nat) (hb : 4 ≤ b) (hint : Hint) (n : WName) :
    Framed k b (writeHintedName hint n) := by
  intro s hc hr
  rw [writeHintedName_v0]; unfold V0.writeHintedName
  split
  · exact framed_writeUncompressedName b hb n s hc hr
  · split
    · exact framed_writeCompressedUnhintedName b hb n s hc hr
    · split
      · split
        · exact framed_pushHinted b hb _ s hc hr
        · exact framed_writeCompressedUnhintedName b hb n s hc hr
      · split
        · exact framed_pushHinted b hb _ s hc hr
        · exact framed_writeCompressedUnhintedName b hb n s hc hr
      · split
        · exact framed_pushHinted b hb _ s hc hr
        · exact framed_writeCompressedUnhintedName b hb n s hc hr
      · split
        · exact framed_pushHinted b hb _ s hc hr
        · exact framed_writeCompressedUnhintedName b hb n s hc hr
      · exact framed_writeCompressedUnhintedName b hb n s hc hr


/-! ### records -/

theorem framed_writeComponents (b : Nat) (hb : 4 ≤ b) : ∀ (ts : List CompType) (rdata : List UInt8),
    Framed k b (writeComponents ts rdata) := by
  intro ts
  induction ts with
  | nil =>
    intro rdata
    unfold writeComponents
    split
    · exact framed_pure b ()
    · exact framed_tryPush b hb rdata
  | cons t ts ih =>
    intro rdata
    cases t with
    | compressibleName =>
      unfold writeComponents
      split
      · exact framed_fail b _
      · rename_i n rest _
        refine framed_bind (framed_setCtx b _) fun _ => ?_
        refine framed_bind (framed_writeUnhintedName b hb n) fun p => ?_
        refine framed_bind (framed_setCtx b _) fun _ => ?_
        refine framed_bind (framed_modify b _ fun s => ⟨rfl, rfl, rfl, fun h _ => h, fun _ => ⟨rfl, rfl⟩⟩) fun _ => ?_
        refine framed_bind (framed_hvPush b _) fun _ => ?_
        exact ih rest
    | uncompressibleName =>
      unfold writeComponents
      split
      · exact framed_fail b _
      · rename_i n rest _
        refine framed_bind (framed_setCtx b _) fun _ => ?_
        refine framed_bind (framed_writeUncompressedName b hb n) fun p => ?_
        refine framed_bind (framed_setCtx b _) fun _ => ?_
        refine framed_bind (framed_modify b _ fun s => ⟨rfl, rfl, rfl, fun h _ => h, fun _ => ⟨rfl, rfl⟩⟩) fun _ => ?_
        refine framed_bind (framed_hvPush b _) fun _ => ?_
        exact ih rest
    | fixedLen k =>
      unfold writeComponents
      split
      · exact framed_fail b _
      · refine framed_bind (framed_tryPush b hb _) fun _ => ?_
        exact ih _

theorem framed_addRr (b : Nat) (hb : 4 ≤ b) (hint : Hint) (owner : WName) (ty cls ttl : Nat) (rdata : List UInt8) :
    Framed k b (addRr hint owner ty cls ttl rdata) := by
  rw [addRr_v0]; unfold V0.addRr
  refine framed_bind (framed_setCtx b _) fun _ => ?_
  refine framed_bind (framed_writeHintedName b hb hint owner) fun p => ?_
  refine framed_bind (framed_setCtx b _) fun _ => ?_
  refine framed_bind (framed_modify b _ fun s => ⟨rfl, rfl, rfl, fun h _ => h, fun _ => ⟨rfl, rfl⟩⟩) fun _ => ?_
  refine framed_bind (framed_tryPushU16 b hb ty) fun _ => ?_
  refine framed_bind (framed_tryPushU16 b hb cls) fun _ => ?_
  refine framed_bind (framed_tryPushU32 b hb ttl) fun _ => ?_
  intro s0
  refine framedAt_bind (framed_get b s0) fun hc0 s s' hget => ?_
  have hs : s = s0 ∧ s' = s0 := by
    rw [get_apply] at hget; cases hget; exact ⟨rfl, rfl⟩
  rw [hs.1, hs.2]
  split
  · exact framed_panic b s0
  · split
    · exact framed_fail b _ s0
    · refine framedAt_bind (framed_modify b (fun s => { s with cursor := s.cursor + 2 })
          (fun s => ⟨rfl, rfl, rfl, fun h _ => by show b ≤ s.cursor + 2; omega, fun _ => ⟨rfl, rfl⟩⟩) s0)
        fun _ _ s1 _ => ?_
      refine framedAt_bind (framed_writeComponents b hb _ _ s1) fun _ _ s2 _ => ?_
      refine framedAt_bind (framed_get b s2) fun _ s3 s4 _ => ?_
      split
      · exact framed_panic b s4
      · exact framedAt_write b hb s0.cursor _ s4 hc0

theorem framed_addRrset (b : Nat) (hb : 4 ≤ b) (owner : WName) (ty cls ttl : Nat) :
    ∀ (rds : List (List UInt8)) (hint : Hint) (n : Nat), Framed k b (addRrset hint owner ty cls ttl rds n) := by
  intro rds
  induction rds with
  | nil => intro hint n; unfold addRrset; exact framed_pure b n
  | cons rd rds ih =>
    intro hint n
    unfold addRrset
    refine framed_bind (framed_addRr b hb hint owner ty cls ttl rd) fun _ => ?_
    exact ih _ _

/-- `with_rollback`: on failure the cursor goes back to where it was (at or above the bound) -/
theorem framed_withRollback {α} (b : Nat) (f : M α) (hf : Framed k b f) : Framed k b (withRollback f) := by
  intro s hc hr
  unfold withRollback
  have := hf s hc hr
  rcases hfs : f s with ⟨(a | e | _), s1⟩
  · rw [hfs] at this; exact this
  · rw [hfs] at this
    simp only
    exact this.trans (fr_same b s1 _ rfl rfl rfl hc (fun _ => ⟨rfl, rfl⟩))
  · rw [hfs] at this; exact this

theorem framed_changeSection (b : Nat) (sec : RrSection) : Framed k b (changeSection sec) := by
  intro s hc _
  unfold changeSection
  repeat' split
  all_goals first | exact Fr.refl _ b s hc | exact fr_same b s _ rfl rfl rfl hc (fun _ => ⟨rfl, rfl⟩)

theorem framed_setCount (b : Nat) (sec : RrSection) (n : Nat) : Framed k b (setCount sec n) := by
  intro s hc _
  show Fr k b s (match sec with
    | .answer => { s with ancount := n }
    | .authority => { s with nscount := n }
    | .additional => { s with arcount := n })
  cases sec <;> exact fr_same b s _ rfl rfl rfl hc (fun _ => ⟨rfl, rfl⟩)

theorem framed_addRrOp (b : Nat) (hb : 4 ≤ b) (sec : RrSection) (hint : Hint) (owner : WName) (ty cls ttlRaw : Nat)
    (rdata : List UInt8) : Framed k b (addRrOp sec hint owner ty cls ttlRaw rdata) := by
  rw [addRrOp_v0]; unfold V0.addRrOp
  apply framed_withRollback
  refine framed_bind (framed_changeSection b sec) fun _ => ?_
  refine framed_bind (framed_addRr b hb _ _ _ _ _ _) fun _ => ?_
  refine framed_bind (framed_get b) fun s => ?_
  split
  · exact framed_fail b _
  · exact framed_setCount b _ _

theorem framed_addRrsetOp (b : Nat) (hb : 4 ≤ b) (sec : RrSection) (hint : Hint) (owner : WName) (ty cls ttlRaw : Nat)
    (rdatas : List (List UInt8)) : Framed k b (addRrsetOp sec hint owner ty cls ttlRaw rdatas) := by
  rw [addRrsetOp_v0]; unfold V0.addRrsetOp
  apply framed_withRollback
  refine framed_bind (framed_changeSection b sec) fun _ => ?_
  refine framed_bind (framed_addRrset b hb _ _ _ _ _ _ _) fun n => ?_
  refine framed_bind (framed_get b) fun s => ?_
  split
  · exact framed_fail b _
  · split
    · exact framed_fail b _
    · exact framed_setCount b _ _

/-- `clear_rrs`: the cursor returns to `rr_start` -/
theorem framed_clearRrs (b : Nat) : Framed k b clearRrs :=
  fun s _ hr => fr_same b s _ rfl rfl rfl hr (fun _ => ⟨rfl, rfl⟩)

/-! ### AA, TC, RCODE -/

theorem and_masks : ∀ x : UInt8,
    ((x ||| 4) &&& 0xF9 = x &&& 0xF9) ∧ ((x &&& ~~~4) &&& 0xF9 = x &&& 0xF9) ∧
    ((x ||| 2) &&& 0xF9 = x &&& 0xF9) ∧ ((x &&& ~~~2) &&& 0xF9 = x &&& 0xF9) := by
  apply Wire.forall_uint8; decide +kernel

theorem rcode_mask : ∀ x : UInt8, ∀ r : Fin 16,
    ((x &&& ~~~15) ||| UInt8.ofNat r.val) &&& 0xF0 = x &&& 0xF0 := by
  apply Wire.forall_uint8; decide +kernel

/-- a header-octet update that keeps the masked bits of octets 2 and 3 -/
theorem framed_setHdr (b : Nat) (hb : 4 ≤ b) (i : Nat) (f : UInt8 → UInt8)
    (hi : i = 2 ∨ i = 3) (h2 : i = 2 → ∀ x, f x &&& 0xF9 = x &&& 0xF9) (h3 : i = 3 → ∀ x, f x &&& 0xF0 = x &&& 0xF0) :
    Framed k b (setHdr i f) := by
  intro s hc _
  unfold setHdr
  split
  · rename_i hlt
    have hget : ∀ j, j ≠ i → (s.octets.set i (f s.octets[i]))[j]? = s.octets[j]? := by
      intro j hj
      rw [Array.getElem?_set]; simp [Ne.symm hj]
    have hself : (s.octets.set i (f s.octets[i])).getD i 0 = f (s.octets.getD i 0) := by
      simp [Array.getD, hlt]
    refine ⟨by simp, fun j _ j2 j3 => hget j (by rcases hi with rfl | rfl <;> assumption), ?_, ?_, rfl, rfl, hc, fun _ => ⟨rfl, rfl⟩⟩
    · rcases hi with rfl | rfl
      · show (s.octets.set 2 _).getD 2 0 &&& 0xF9 = _
        rw [hself, h2 rfl]
      · show (s.octets.set 3 _).getD 2 0 &&& 0xF9 = _
        rw [Array.getD_eq_getD_getElem?, hget 2 (by omega), ← Array.getD_eq_getD_getElem?]
    · rcases hi with rfl | rfl
      · show (s.octets.set 2 _).getD 3 0 &&& 0xF0 = _
        rw [Array.getD_eq_getD_getElem?, hget 3 (by omega), ← Array.getD_eq_getD_getElem?]
      · show (s.octets.set 3 _).getD 3 0 &&& 0xF0 = _
        rw [hself, h3 rfl]
  · exact Fr.refl _ b s hc

theorem framed_setAa (b : Nat) (hb : 4 ≤ b) (v : Bool) : Framed k b (setAa v) := by
  unfold setAa setBit
  refine framed_setHdr b hb _ _ (Or.inl rfl) (fun _ x => ?_) (fun h => by cases h)
  cases v
  · exact (and_masks x).2.1
  · exact (and_masks x).1

theorem framed_setTc (b : Nat) (hb : 4 ≤ b) (v : Bool) : Framed k b (setTc v) := by
  unfold setTc setBit
  refine framed_setHdr b hb _ _ (Or.inl rfl) (fun _ x => ?_) (fun h => by cases h)
  cases v
  · exact (and_masks x).2.2.2
  · exact (and_masks x).2.2.1

/-- `set_rcode` with an RCODE below 16 (every `Rcode` is) -/
theorem framed_setRcode (b : Nat) (hb : 4 ≤ b) (rc : Nat) (hrc : rc < 16) : Framed k b (setRcode rc) := by
  unfold setRcode
  refine framed_bind (framed_setHdr b hb _ _ (Or.inr rfl) (fun h => by cases h) (fun _ x => rcode_mask x ⟨rc, hrc⟩))
    fun _ => ?_
  intro s hc _
  show Fr k b s (match s.edns with
    | some e => { s with edns := some { e with upper := 0 } }
    | none => s)
  cases he : s.edns with
  | none => exact Fr.refl _ b s hc
  | some e => exact fr_same b s _ rfl rfl rfl hc (fun _ => ⟨rfl, by simp [he]⟩)


/-! ### the EDNS / TSIG / limit operations of the scan -/

theorem framed_setEdns (b : Nat) (payload : Nat) : Framed false b (setEdns payload) := by
  intro s hc _
  unfold setEdns
  repeat' split
  all_goals first | exact Fr.refl _ b s hc | exact fr_same b s _ rfl rfl rfl hc (fun h => by cases h)

theorem framed_setLimit (b : Nat) (nl : Nat) : Framed false b (setLimit nl) := by
  intro s hc _
  unfold setLimit
  split
  · dsimp only
    split
    · exact Fr.refl _ b s hc
    · exact fr_same b s _ rfl rfl rfl hc (fun h => by cases h)
  · split
    · exact Fr.refl _ b s hc
    · dsimp only
      repeat' split
      all_goals first | exact Fr.refl _ b s hc | exact fr_same b s _ rfl rfl rfl hc (fun h => by cases h)

theorem framed_setTsig (b : Nat) (mode : TsigMode) (rr : TsigRr) : Framed false b (setTsig mode rr) := by
  intro s hc _
  rw [setTsig_v0]; unfold V0.setTsig
  split
  · exact Fr.refl _ b s hc
  · dsimp only
    repeat' split
    all_goals first | exact Fr.refl _ b s hc | exact fr_same b s _ rfl rfl rfl hc (fun h => by cases h)

theorem xrcode_mask : ∀ x y : UInt8, ((x &&& ~~~15) ||| (y &&& 15)) &&& 0xF0 = x &&& 0xF0 := by
  apply Wire.forall_uint8; intro n hn
  apply Wire.forall_uint8; revert n; decide +kernel

theorem framed_setExtendedRcode (b : Nat) (hb : 4 ≤ b) (raw : Nat) : Framed k b (setExtendedRcode raw) := by
  intro s hc hr
  rw [setExtendedRcode_v0]; unfold V0.setExtendedRcode
  split
  · rename_i e0 hedns
    split
    · exact Fr.refl _ b s hc
    · have := framed_setHdr (k := k) b hb Gen.RCODE_BYTE
        (fun b => (b &&& ~~~ (UInt8.ofNat Gen.RCODE_MASK)) ||| (UInt8.ofNat (raw % 256) &&& UInt8.ofNat Gen.RCODE_MASK))
        (Or.inr rfl) (fun h => by cases h) (fun _ x => xrcode_mask x _) s hc hr
      rcases hh : setHdr Gen.RCODE_BYTE
        (fun b => (b &&& ~~~ (UInt8.ofNat Gen.RCODE_MASK)) ||| (UInt8.ofNat (raw % 256) &&& UInt8.ofNat Gen.RCODE_MASK)) s
        with ⟨(a | e | _), s1⟩
      · rw [hh] at this
        simp only
        have hk1 : Fr k b s s1 := this
        exact this.trans (fr_same b s1 _ rfl rfl rfl this.cur
          (fun hk => ⟨rfl, by rw [(hk1.keep hk).2, hedns]; rfl⟩))
      · rw [hh] at this; exact this
      · rw [hh] at this; exact this
  · exact Fr.refl _ b s hc

theorem framed_unwrap {α} (b : Nat) (m : M α) (h : Framed k b m) : Framed k b (unwrap m) := by
  intro s hc hr
  have := h s hc hr
  unfold unwrap
  rcases hm : m s with ⟨(a | e | _), s1⟩ <;> (rw [hm] at this; exact this)


/-! ### `finish` frames -/

/-- the TSIG part of `finish_with_mac` -/
def finishTsigPart (macFn : Tsig → List UInt8 → List UInt8) (t : Option Tsig) : M (Nat × Option (List UInt8)) :=
  match t with
  | some ts => do
    let s1 ← M.get
    if s1.cursor > s1.octets.size then M.panic
    else do
      let message := (s1.octets.extract 0 s1.cursor).toList
      let mac : Option (List UInt8) := match ts.mode with
        | .unsigned _ => none
        | _ => some (macFn ts message)
      let rdata := tsigRdata ts.rr (tsigAlgName ts.mode) (mac.getD [])
      M.modify fun s => { s with tsig := none, available := s.available + ts.reservedLen }
      unwrap (addRr .none ts.rr.keyName T_TSIG QC_ANY (ttlFrom 0) rdata)
      let s2 ← M.get
      pure (s2.cursor, mac)
  | none => do
    let s2 ← M.get
    pure (s2.cursor, none)

/-- the EDNS part of `finish_with_mac` -/
def finishEdnsPart (e : Option Edns) : M Unit :=
  match e with
  | some e => do
    M.modify fun s => { s with available := s.available + Gen.OPT_RECORD_SIZE }
    unwrap (addRr .none WName.root T_OPT e.payload ((e.upper * 16777216) % 4294967296) [])
  | none => pure ()

theorem finishWithMac_eq (macFn : Tsig → List UInt8 → List UInt8) (s : State) :
    finishWithMac macFn s =
      (do write Gen.QDCOUNT_START (u16be s.qdcount); write Gen.ANCOUNT_START (u16be s.ancount)
          write Gen.NSCOUNT_START (u16be s.nscount); write Gen.ARCOUNT_START (u16be s.arcount)
          finishEdnsPart s.edns; finishTsigPart macFn s.tsig) s := by
  rw [finishWithMac_v0]; unfold V0.finishWithMac
  rw [bind_ok (get_apply s)]
  generalize s.edns = e
  generalize s.tsig = t
  cases e <;> rfl

theorem framed_finishEdnsPart (b : Nat) (hb : 4 ≤ b) (e : Option Edns) : Framed k b (finishEdnsPart e) := by
  unfold finishEdnsPart
  split
  · exact framed_bind (framed_modify b _ fun s => ⟨rfl, rfl, rfl, fun h _ => h, fun _ => ⟨rfl, rfl⟩⟩) fun _ =>
      framed_unwrap b _ (framed_addRr b hb _ _ _ _ _ _)
  · exact framed_pure b ()

theorem framed_finishTsigPart (b : Nat) (hb : 4 ≤ b) (macFn : Tsig → List UInt8 → List UInt8) (t : Option Tsig) :
    Framed false b (finishTsigPart macFn t) := by
  unfold finishTsigPart
  split
  · refine framed_bind (framed_get b) fun s1 => ?_
    split
    · exact framed_panic b
    · refine framed_bind (framed_modify b _ fun s => ⟨rfl, rfl, rfl, fun h _ => h, fun h => by cases h⟩) fun _ => ?_
      refine framed_bind (framed_unwrap b _ (framed_addRr b hb _ _ _ _ _ _)) fun _ => ?_
      exact framed_bind (framed_get b) fun s2 => framed_pure b _
  · exact framed_bind (framed_get b) fun s2 => framed_pure b _

/-- the length `finish_with_mac` returns is the final cursor -/
theorem finishTsigPart_len (macFn : Tsig → List UInt8 → List UInt8) (t : Option Tsig) (s s' : State) (len : Nat)
    (mac : Option (List UInt8)) (h : finishTsigPart macFn t s = (.ok (len, mac), s')) : len = s'.cursor := by
  unfold finishTsigPart at h
  split at h
  · rw [bind_ok (get_apply s)] at h
    split at h
    · cases h
    · rw [bind_ok (modify_apply _ _)] at h
      rw [bind_apply] at h
      split at h
      · rename_i a s1 _
        rw [bind_ok (get_apply s1), pure_apply] at h
        cases h; rfl
      · cases h
      · cases h
  · rw [bind_ok (get_apply s), pure_apply] at h
    cases h; rfl

/-- **`finish` frames.** If `finish` succeeds on a writer whose records start at `b ≥ 12`, the
    finished message has at least `b` octets; its octets 0, 1 and `12 … b-1` (the question) are the
    buffer's, the flag octets agree on QR/opcode/RD and on RA/Z/AD/CD, and octets 4–5 are QDCOUNT. -/
theorem finish_frame (b : Nat) (hb : 12 ≤ b) (s : State) (macFn : Tsig → List UInt8 → List UInt8)
    (hc : b ≤ s.cursor) (hr : b ≤ s.rrStart) (hsz : b ≤ s.octets.size)
    (bytes : Bytes) (mac : Option (List UInt8)) (h : finish s macFn = .ok (bytes, mac)) :
    b ≤ bytes.size ∧
    (∀ i, i < b → (i < 2 ∨ 12 ≤ i) → bytes[i]? = s.octets[i]?) ∧
    (bytes.getD 2 0 &&& 0xF9 = s.octets.getD 2 0 &&& 0xF9) ∧
    (bytes.getD 3 0 &&& 0xF0 = s.octets.getD 3 0 &&& 0xF0) ∧
    bytes[4]? = (u16be s.qdcount)[0]? ∧ bytes[5]? = (u16be s.qdcount)[1]? := by
  unfold finish at h
  rw [finishWithMac_eq] at h
  have c : Gen.QDCOUNT_START = 4 ∧ Gen.ANCOUNT_START = 6 ∧ Gen.NSCOUNT_START = 8 ∧ Gen.ARCOUNT_START = 10 :=
    ⟨rfl, rfl, rfl, rfl⟩
  obtain ⟨c1, c2, c3, c4⟩ := c
  rw [c1, c2, c3, c4, writeCounts_k s _ (by omega)] at h
  -- the state after the counts
  generalize hs4 : ({ s with octets := withCounts s } : State) = s4 at h
  have ho4 : s4.octets = withCounts s := by rw [← hs4]
  have hc4 : s4.cursor = s.cursor := by rw [← hs4]
  have hr4 : s4.rrStart = s.rrStart := by rw [← hs4]
  have hget4 : ∀ i, (i < 4 ∨ 12 ≤ i) → (withCounts s)[i]? = s.octets[i]? := by
    intro i hi
    unfold withCounts
    rw [writeAt_getElem?, if_neg (by rw [u16be_length]; omega), writeAt_getElem?, if_neg (by rw [u16be_length]; omega),
      writeAt_getElem?, if_neg (by rw [u16be_length]; omega), writeAt_getElem?, if_neg (by rw [u16be_length]; omega)]
  have hsz4 : (withCounts s).size = s.octets.size := by simp [withCounts, writeAt_size]
  have hq4 : (withCounts s)[4]? = (u16be s.qdcount)[0]? ∧ (withCounts s)[5]? = (u16be s.qdcount)[1]? := by
    unfold withCounts
    constructor
    · rw [writeAt_getElem?, if_neg (by rw [u16be_length]; omega), writeAt_getElem?, if_neg (by rw [u16be_length]; omega),
        writeAt_getElem?, if_neg (by rw [u16be_length]; omega), writeAt_getElem?, if_pos (by rw [u16be_length]; omega)]
    · rw [writeAt_getElem?, if_neg (by rw [u16be_length]; omega), writeAt_getElem?, if_neg (by rw [u16be_length]; omega),
        writeAt_getElem?, if_neg (by rw [u16be_length]; omega), writeAt_getElem?, if_pos (by rw [u16be_length]; omega)]
  -- the EDNS and TSIG parts frame
  have hfr := framedAt_bind ((framed_finishEdnsPart (k := false) b (by omega) s.edns) s4)
    (fun _ _ s' _ => framed_finishTsigPart b (by omega) macFn s.tsig s') (by rw [hc4]; exact hc) (by rw [hr4]; exact hr)
  rcases hres : (finishEdnsPart s.edns >>= fun _ => finishTsigPart macFn s.tsig) s4 with ⟨(r | e | _), s'⟩
  · rw [hres] at h hfr
    obtain ⟨len, mac'⟩ := r
    have hbytes : bytes = s'.octets.extract 0 len := by
      simp only [Out.ok.injEq, Prod.mk.injEq] at h
      exact h.1.symm
    have hfr' : Fr false b s4 s' := hfr
    -- the returned length is the final cursor
    have hlen : len = s'.cursor := by
      rw [bind_apply] at hres
      split at hres
      · exact finishTsigPart_len macFn s.tsig _ _ _ _ hres
      · cases hres
      · cases hres
    have hcur := hfr'.cur
    have hs' : s'.octets.size = s.octets.size := by rw [hfr'.size, ho4, hsz4]
    have hget : ∀ i, i < b → bytes[i]? = s'.octets[i]? := by
      intro i hi
      rw [hbytes, Array.getElem?_extract]
      rw [if_pos (by omega)]
      simp
    have hgetD : ∀ i, i < b → bytes.getD i 0 = s'.octets.getD i 0 := by
      intro i hi
      rw [Array.getD_eq_getD_getElem?, Array.getD_eq_getD_getElem?, hget i hi]
    have hD4 : ∀ i, (i < 4 ∨ 12 ≤ i) → s4.octets.getD i 0 = s.octets.getD i 0 := by
      intro i hi
      rw [Array.getD_eq_getD_getElem?, Array.getD_eq_getD_getElem?, ho4, hget4 i hi]
    refine ⟨?_, ?_, ?_, ?_, ?_, ?_⟩
    · rw [hbytes, Array.size_extract]; omega
    · intro i hi hr'
      rw [hget i hi, hfr'.body i hi (by omega) (by omega), ho4]
      exact hget4 i (by omega)
    · rw [hgetD 2 (by omega), hfr'.o2, hD4 2 (by omega)]
    · rw [hgetD 3 (by omega), hfr'.o3, hD4 3 (by omega)]
    · rw [hget 4 (by omega), hfr'.body 4 (by omega) (by omega) (by omega), ho4]; exact hq4.1
    · rw [hget 5 (by omega), hfr'.body 5 (by omega) (by omega) (by omega), ho4]; exact hq4.2
  · rw [hres] at h; cases h
  · rw [hres] at h; cases h

end QV.Writer
