/-
  QV.Proofs.WriterSession — the invariant `I` over whole sessions (`step`, `run`): for every
  sequence of public calls that respects the documented hint contract, no call panics and every
  state reached is valid (C12 invariant ∧ C13 anchors ∧ sound pointer log).
-/
import QV.Proofs.WriterSafe

namespace QV.Writer
open QV QV.Wire QV.ServerSafety

/-- the documented precondition of one public call, in the session state `ss`: names are
    well-formed `Name`s, the hint given for an owner is valid (`HintOK`, with explicit hints
    resolved through the caller's `HintPointerVec`s), TSIG times are 48-bit values -/
def OpOK (ss : Session) : Op → Prop
  | .addQuestion n _ _ => n.WF
  | .addRr _ h o _ _ _ _ _ => o.WF ∧ Writer.HintOK ss.w (resolveHint ss.hvs h) o
  | .addRrset _ h o _ _ _ _ _ => o.WF ∧ Writer.HintOK ss.w (resolveHint ss.hvs h) o
  | .setTsig m rr => rr.keyName.WF ∧ (tsigAlgName m).WF ∧ rr.timeSigned.length = 6 ∧ rr.serverTime.length = 6
  | .updateTimeSigned t => t.length = 6
  | _ => True

/-- a whole sequence of calls respects the contract (each call in the state it is made in) -/
def Respects : Session → List Op → Prop
  | _, [] => True
  | ss, op :: ops => OpOK ss op ∧ Respects (step ss op).2 ops

theorem liftW_I {f : M Unit} {ss : Session}
    (h : (f ss.w).1 ≠ .panic ∧ I (f ss.w).2) : (liftW ss f).1 ≠ .panic ∧ I (liftW ss f).2.w := by
  unfold liftW
  cases hf : f ss.w with
  | mk r s1 => rw [hf] at h; exact h

theorem safe_setMode (m : CMode) (s : State) (hI : I s) :
    (setCompressionMode m s).1 ≠ .panic ∧ I (setCompressionMode m s).2 := by
  have hinv := (total_setCompressionMode m s).2 hI.inv
  refine ⟨by simp [setCompressionMode], ?_⟩
  exact i_keeps hI (keeps_same rfl rfl rfl rfl rfl rfl rfl) hinv hI.tsig

theorem safe_clearRrs (s : State) (hI : I s) : (clearRrs s).1 ≠ .panic ∧ I (clearRrs s).2 :=
  ⟨by simp [clearRrs], clearRrs_i s hI⟩

theorem safe_updateTimeSigned (t : List UInt8) (ht : t.length = 6) (s : State) (hI : I s) :
    (updateTimeSigned t s).1 ≠ .panic ∧ I (updateTimeSigned t s).2 := by
  have hinv := (clean_updateTimeSigned t s).2 hI.inv
  unfold updateTimeSigned at hinv ⊢
  cases hts : s.tsig with
  | none => simp only [hts] at hinv ⊢; exact ⟨by simp, hI⟩
  | some ts =>
    simp only [hts] at hinv ⊢
    refine ⟨by simp, i_keeps hI (keeps_same rfl rfl rfl rfl rfl rfl rfl) hinv ?_⟩
    intro ts' hts'
    simp only [Option.some.injEq] at hts'
    subst hts'
    obtain ⟨a, b, c, d, e⟩ := hI.tsig ts hts
    exact ⟨by simpa [reservedLenOf, signedLen, unsignedLen] using a, b, c, ht, e⟩

/-- a writer re-created from the template of `s` keeps everything names depend on -/
theorem tryFromTemplateImpl_keeps {s s' : State} {t : Template} (buf : Bytes) (ts : Option Tsig)
    (h : Inv s) (ht : intoTemplate s = .ok t) (h' : tryFromTemplateImpl buf t ts = .ok s') :
    Keeps s s' := by
  have h1 := h.hdr; have h2 := h.cur_av; have h3 := h.av_lim; have h4 := h.lim_size
  unfold intoTemplate at ht
  rw [if_neg (by omega), if_neg (by omega)] at ht
  cases ht
  unfold tryFromTemplateImpl at h'
  simp only [extract_toList_length _ _ (show s.cursor ≤ s.octets.size by omega)] at h'
  split at h'
  · cases h'
  · split at h'
    · cases h'
    · rename_i g1 g2
      cases h'
      have hpre : ∀ i, i < s.cursor →
          (writeAt buf 0 (s.octets.extract 0 s.cursor).toList)[i]? = s.octets[i]? := by
        intro i hi
        have := writeAt_get_in buf 0 (List.take s.cursor s.octets.toList) i (by simp; omega) (by simp; omega)
        simp only [Nat.zero_add] at this
        simp only [Array.toList_extract, List.extract_eq_take_drop, Nat.sub_zero, List.drop_zero]
        rw [this, List.getElem?_take]
        simp [show i < s.cursor by omega]
      refine ⟨?_, rfl, rfl, rfl, rfl, rfl, rfl, rfl, ?_⟩
      · intro c hc p ls hn
        exact nameAt_frame (lo := 0) hn (fun _ hx => hx) (fun _ _ => Nat.zero_le _)
          (fun i _ hi => hpre i (by omega)) (Nat.le_refl _)
      · intro g ⟨ls, hn, hb⟩
        exact ⟨ls, nameAtC_frame (lo := 0) hn (fun _ hx => hx) (fun _ _ => Nat.zero_le _)
          (fun i _ hi => hpre i hi) (Nat.le_refl _), hb⟩

theorem tryFromTemplateImpl_tsig {s' : State} {t : Template} (buf : Bytes) (ts : Option Tsig)
    (h' : tryFromTemplateImpl buf t ts = .ok s') : s'.tsig = ts := by
  unfold tryFromTemplateImpl at h'
  dsimp only at h'
  split at h'
  · cases h'
  · split at h'
    · cases h'
    · cases h'; rfl

theorem tryFromTemplateImpl_nopanic {s : State} {t : Template} (buf : Bytes) (ts : Option Tsig)
    (h : Inv s) (ht : intoTemplate s = .ok t) : tryFromTemplateImpl buf t ts ≠ .panic := by
  have h1 := h.hdr; have h2 := h.cur_av; have h3 := h.av_lim; have h4 := h.lim_size
  unfold intoTemplate at ht
  rw [if_neg (by omega), if_neg (by omega)] at ht
  cases ht
  unfold tryFromTemplateImpl
  simp only [extract_toList_length _ _ (show s.cursor ≤ s.octets.size by omega)]
  split
  · simp
  · rename_i g1
    rw [if_neg (by omega)]
    simp


/-- the TSIG configuration a template constructor may install: the stored one, or the same with
    the mode switched to `Subsequent` (same algorithm, hence same reservation) -/
def TsigLike (old new : Option Tsig) : Prop :=
  new = old ∨ ∃ ts0 ts1, old = some ts0 ∧ new = some ts1 ∧ ts1.rr = ts0.rr ∧
    ts1.reservedLen = ts0.reservedLen ∧ reservedLenOf ts1.mode ts1.rr = reservedLenOf ts0.mode ts0.rr ∧
    tsigAlgName ts1.mode = tsigAlgName ts0.mode

theorem tsigOK_like {s s' : State} (h : TsigOK s) (hl : TsigLike s.tsig s'.tsig) : TsigOK s' := by
  rcases hl with he | ⟨ts0, ts1, h0, h1, hrr, hres, hlen, halg⟩
  · exact tsigOK_of_eq h he
  · intro ts hts
    rw [h1] at hts
    cases hts
    obtain ⟨a, b, c, d, e⟩ := h ts0 h0
    exact ⟨by rw [hres, hlen]; exact a, by rw [hrr]; exact b, by rw [halg]; exact c, by rw [hrr]; exact d,
      by rw [hrr]; exact e⟩

/-- what `retemplate` needs to know about the constructor it is given -/
def MkOK (mk : Bytes → Template → Out WriterErr State) : Prop :=
  (∀ buf t s', mk buf t = .ok s' → ∃ ts, tryFromTemplateImpl buf t ts = .ok s' ∧ TsigLike t.tsig ts) ∧
  (∀ buf t, (∀ ts, tryFromTemplateImpl buf t ts ≠ .panic) → mk buf t ≠ .panic)

theorem mkOK_tryFromTemplate : MkOK tryFromTemplate :=
  ⟨fun buf t s' h => ⟨t.tsig, h, Or.inl rfl⟩, fun buf t h => h t.tsig⟩

theorem mkOK_subsequent (mac : List UInt8) : MkOK (fun b t => tryFromTemplateAsTsigSubsequent b t mac) := by
  constructor
  · intro buf t s' h
    simp only [tryFromTemplateAsTsigSubsequent] at h
    cases hts : t.tsig with
    | none => rw [hts] at h; cases h
    | some ts0 =>
      rw [hts] at h
      simp only at h
      cases hm : ts0.mode with
      | request a k =>
        rw [hm] at h
        exact ⟨_, h, Or.inr ⟨ts0, _, rfl, rfl, rfl, rfl, by simp [reservedLenOf, hm], by simp [tsigAlgName, hm]⟩⟩
      | response a m k =>
        rw [hm] at h
        exact ⟨_, h, Or.inr ⟨ts0, _, rfl, rfl, rfl, rfl, by simp [reservedLenOf, hm], by simp [tsigAlgName, hm]⟩⟩
      | subsequent a m k =>
        rw [hm] at h
        exact ⟨_, h, Or.inr ⟨ts0, _, rfl, rfl, rfl, rfl, by simp [reservedLenOf, hm], by simp [tsigAlgName, hm]⟩⟩
      | unsigned n => rw [hm] at h; cases h
  · intro buf t h
    simp only [tryFromTemplateAsTsigSubsequent]
    cases hts : t.tsig with
    | none => simp
    | some ts0 =>
      simp only
      cases hm : ts0.mode with
      | request a k => exact h _
      | response a m k => exact h _
      | subsequent a m k => exact h _
      | unsigned n => simp

theorem retemplate_I (ss : Session) (n : Nat) (fill : UInt8)
    (mk : Bytes → Template → Out WriterErr State) (hmk : MkOK mk) (hI : I ss.w) :
    (retemplate ss n fill mk).1 ≠ .panic ∧ I (retemplate ss n fill mk).2.w := by
  have hinv := hI.inv
  obtain ⟨t, ht⟩ := intoTemplate_ok hinv
  have htt := intoTemplate_tsig ht
  have hnp : ∀ buf ts, tryFromTemplateImpl buf t ts ≠ .panic :=
    fun buf ts => tryFromTemplateImpl_nopanic buf ts hinv ht
  -- any successful construction from the template gives a valid writer
  have good : ∀ buf ts s', tryFromTemplateImpl buf t ts = .ok s' → TsigLike t.tsig ts → I s' := by
    intro buf ts s' h' hl
    have hk := tryFromTemplateImpl_keeps buf ts hinv ht h'
    have htsig := tryFromTemplateImpl_tsig buf ts h'
    have hinv' : Inv s' := by
      refine tryFromTemplateImpl_inv buf ts hinv ht ?_ ?_ h'
      · rcases hl with he | ⟨ts0, ts1, h0, h1, _, hres, _, _⟩
        · rw [he, htt]
        · rw [h1, ← htt, h0]; simp [tsigReserved, hres]
      · rcases hl with he | ⟨ts0, ts1, h0, h1, _, _, _, _⟩
        · rw [he, htt]
        · rw [h1, ← htt, h0]; rfl
    exact i_keeps hI hk hinv' (tsigOK_like hI.tsig (by rw [htsig, ← htt]; exact hl))
  unfold retemplate
  rw [ht]
  simp only []
  obtain ⟨sf, hsf⟩ := tryFromTemplate_fallback_ok fill hinv ht
  have hIf : I sf := good _ _ _ hsf (Or.inl rfl)
  cases hm : mk (Array.replicate n fill) t with
  | ok s' =>
    simp only []
    obtain ⟨ts, h1, h2⟩ := hmk.1 _ _ _ hm
    exact ⟨by simp, good _ _ _ h1 h2⟩
  | err e =>
    simp only []
    rw [hsf]
    exact ⟨by simp, hIf⟩
  | panic => exact absurd hm (hmk.2 _ _ (hnp _))


theorem safe_setBit (b m : Nat) (v : Bool) (hb : b < 12) (s : State) (hI : I s) :
    (setBit b m v s).1 ≠ .panic ∧ I (setBit b m v s).2 ∧ Mono Den s (setBit b m v s).2 :=
  safe_setHdr b _ hb s hI

theorem withHv_I {f : M Unit} (ss : Session) (slot : Option Nat)
    (h : (f { ss.w with hv := slot.map (hvGet ss.hvs) }).1 ≠ .panic ∧
      I (f { ss.w with hv := slot.map (hvGet ss.hvs) }).2) :
    (withHv ss slot f).1 ≠ .panic ∧ I (withHv ss slot f).2.w := by
  rw [withHv_fst, withHv_w]
  exact ⟨h.1, i_hv _ none h.2⟩

/-- **every public call**, made from a valid state with its documented precondition, does not
    panic and leaves a valid state — whatever it returns -/
theorem step_I (ss : Session) (op : Op) (hI : I ss.w) (hop : OpOK ss op) :
    (step ss op).1 ≠ .panic ∧ I (step ss op).2.w := by
  cases op with
  | setId v =>
    have := safe_write_hdr Gen.ID_START (u16be v) (by show _ + 2 ≤ 12; decide) ss.w hI
    exact liftW_I ⟨this.1, this.2.1⟩
  | setQr b => have := safe_setBit Gen.QR_BYTE Gen.QR_MASK b (by decide) ss.w hI; exact liftW_I ⟨this.1, this.2.1⟩
  | setAa b => have := safe_setBit Gen.AA_BYTE Gen.AA_MASK b (by decide) ss.w hI; exact liftW_I ⟨this.1, this.2.1⟩
  | setTc b => have := safe_setBit Gen.TC_BYTE Gen.TC_MASK b (by decide) ss.w hI; exact liftW_I ⟨this.1, this.2.1⟩
  | setRd b => have := safe_setBit Gen.RD_BYTE Gen.RD_MASK b (by decide) ss.w hI; exact liftW_I ⟨this.1, this.2.1⟩
  | setRa b => have := safe_setBit Gen.RA_BYTE Gen.RA_MASK b (by decide) ss.w hI; exact liftW_I ⟨this.1, this.2.1⟩
  | setOpcode v =>
    have := safe_setHdr Gen.OPCODE_BYTE (fun b => (b &&& ~~~ (UInt8.ofNat Gen.OPCODE_MASK)) ||| (UInt8.ofNat v <<< UInt8.ofNat Gen.OPCODE_SHIFT)) (by decide) ss.w hI
    exact liftW_I ⟨this.1, this.2.1⟩
  | setRcode v => have := safe_setRcode v ss.w hI; exact liftW_I ⟨this.1, this.2.1⟩
  | setExtendedRcode v => have := safe_setExtendedRcode v ss.w hI; exact liftW_I ⟨this.1, this.2.1⟩
  | setLimit v => have := safe_setLimit v ss.w hI; exact liftW_I ⟨this.1, this.2.1⟩
  | setMode m => exact liftW_I (safe_setMode m ss.w hI)
  | addQuestion n t c =>
    have := addQuestion_full n t c ss.w hI hop
    exact liftW_I ⟨this.1, this.2.1⟩
  | addRr sec h o ty cls ttl rd hv =>
    have := addRrOp_full sec (resolveHint ss.hvs h) o ty cls ttl rd _ (i_hv ss.w (hv.map (hvGet ss.hvs)) hI) hop.1 hop.2
    exact withHv_I ss hv ⟨this.1, this.2.1⟩
  | addRrset sec h o ty cls ttl rds hv =>
    have := addRrsetOp_full sec (resolveHint ss.hvs h) o ty cls ttl rds _ (i_hv ss.w (hv.map (hvGet ss.hvs)) hI) hop.1 hop.2
    exact withHv_I ss hv ⟨this.1, this.2.1⟩
  | clearRrs => exact liftW_I (safe_clearRrs ss.w hI)
  | setEdns p => have := safe_setEdns p ss.w hI; exact liftW_I ⟨this.1, this.2.1⟩
  | setTsig m rr => have := safe_setTsig m rr ss.w hI hop; exact liftW_I ⟨this.1, this.2.1⟩
  | updateTimeSigned t => exact liftW_I (safe_updateTimeSigned t hop ss.w hI)
  | template n fill => exact retemplate_I ss n fill _ mkOK_tryFromTemplate hI
  | templateSubsequent n fill mac => exact retemplate_I ss n fill _ (mkOK_subsequent mac) hI
  | getters => exact ⟨by simp [step], hI⟩

/-- **for all sequences of calls that respect the contract**: no call panics (in particular the
    `panic!("invalid pointer found during compression")` is unreachable) and the final state is
    valid -/
theorem run_I (ss : Session) (ops : List Op) (hI : I ss.w) (hr : Respects ss ops) :
    (∀ r ∈ (run ss ops).2, r ≠ .panic) ∧ I (run ss ops).1.w := by
  induction ops generalizing ss with
  | nil => exact ⟨(fun r hr => by cases hr), hI⟩
  | cons op ops ih =>
    obtain ⟨hop, hrest⟩ := hr
    obtain ⟨hnp, hI'⟩ := step_I ss op hI hop
    unfold run
    cases hs : step ss op with
    | mk r ss' =>
      rw [hs] at hnp hI' hrest
      cases r with
      | panic => exact absurd rfl hnp
      | ok u =>
        simp only []
        obtain ⟨h1, h2⟩ := ih ss' hI' hrest
        cases hrun : run ss' ops with
        | mk ss'' rs =>
          rw [hrun] at h1 h2
          refine ⟨fun r hr => ?_, h2⟩
          simp only [List.mem_cons] at hr
          rcases hr with rfl | hr
          · simp
          · exact h1 r hr
      | err e =>
        simp only []
        obtain ⟨h1, h2⟩ := ih ss' hI' hrest
        cases hrun : run ss' ops with
        | mk ss'' rs =>
          rw [hrun] at h1 h2
          refine ⟨fun r hr => ?_, h2⟩
          simp only [List.mem_cons] at hr
          rcases hr with rfl | hr
          · simp
          · exact h1 r hr

end QV.Writer

namespace QV.Writer
open QV QV.Wire QV.ServerSafety

/-! ### (e) at the level of public calls -/

/-- the size of what a call adds to the message when nothing is compressed (for `set_edns` /
    `set_tsig`: the space they reserve) -/
def uncompressedLen : Op → Nat
  | .addQuestion n _ _ => n.wire.length + 4
  | .addRr _ _ o _ _ _ rd _ => rrLen o rd
  | .addRrset _ _ o _ _ _ rds _ => (rds.map (rrLen o)).sum
  | .setEdns _ => Gen.OPT_RECORD_SIZE
  | .setTsig m rr => reservedLenOf m rr
  | _ => 0

def isTemplateOp : Op → Bool
  | .template _ _ => true
  | .templateSubsequent _ _ _ => true
  | _ => false

/-- **(e)** for every state, every call (other than re-creating the writer on another buffer)
    and every hint, valid or not: `Err(Truncation)` is returned only if the uncompressed
    encoding does not fit between the cursor and `available` -/
theorem step_truncation (ss : Session) (op : Op) (ht : isTemplateOp op = false)
    (h : (step ss op).1 = .err .Truncation) :
    ss.w.available < ss.w.cursor + uncompressedLen op := by
  cases op with
  | setId v => exact absurd h ((liftW_total (total_write _ _) ss).2 _)
  | setQr b => exact absurd h ((liftW_total (total_setBit _ _ _) ss).2 _)
  | setAa b => exact absurd h ((liftW_total (total_setBit _ _ _) ss).2 _)
  | setTc b => exact absurd h ((liftW_total (total_setBit _ _ _) ss).2 _)
  | setRd b => exact absurd h ((liftW_total (total_setBit _ _ _) ss).2 _)
  | setRa b => exact absurd h ((liftW_total (total_setBit _ _ _) ss).2 _)
  | setOpcode v => exact absurd h ((liftW_total (total_setHdr _ _) ss).2 _)
  | setRcode v => exact absurd h ((liftW_total (total_setRcode _) ss).2 _)
  | setExtendedRcode v =>
    simp only [step, liftW] at h
    unfold setExtendedRcode at h
    simp only [M.bind_apply, M.gets_apply] at h
    cases he : ss.w.edns with
    | none => rw [he] at h; cases h
    | some e =>
      rw [he] at h
      simp only [] at h
      split at h
      · cases h
      · simp only [M.bind_apply, setHdr] at h
        by_cases hlt : Gen.RCODE_BYTE < ss.w.octets.size
        · simp only [dif_pos hlt, M.modify_apply] at h; cases h
        · simp only [dif_neg hlt] at h; cases h
  | setLimit v => exact absurd h ((liftW_total (total_setLimit _) ss).2 _)
  | setMode m => exact absurd h ((liftW_total (total_setCompressionMode _) ss).2 _)
  | addQuestion n t c =>
    simp only [step, liftW] at h
    cases hq : addQuestion n t c ss.w with
    | mk r s1 =>
      rw [hq] at h
      exact addQuestion_truncation n t c ss.w (by rw [hq]; exact h)
  | addRr sec hn o ty cls ttl rd hv =>
    simp only [step] at h
    rw [withHv_fst] at h
    exact addRrOp_truncation _ _ _ _ _ _ _ { ss.w with hv := hv.map (hvGet ss.hvs) } h
  | addRrset sec hn o ty cls ttl rds hv =>
    simp only [step] at h
    rw [withHv_fst] at h
    exact addRrsetOp_truncation _ _ _ _ _ _ _ { ss.w with hv := hv.map (hvGet ss.hvs) } h
  | clearRrs => exact absurd h ((liftW_total total_clearRrs ss).2 _)
  | setEdns p =>
    simp only [step, liftW] at h
    cases hq : setEdns p ss.w with
    | mk r s1 =>
      rw [hq] at h
      exact setEdns_truncation p ss.w (by rw [hq]; exact h)
  | setTsig m rr =>
    simp only [step, liftW] at h
    cases hq : setTsig m rr ss.w with
    | mk r s1 =>
      rw [hq] at h
      exact setTsig_truncation m rr ss.w (by rw [hq]; exact h)
  | updateTimeSigned t =>
    simp only [step, liftW] at h
    unfold updateTimeSigned at h
    split at h <;> cases h
  | template n fill => cases ht
  | templateSubsequent n fill mac => cases ht
  | getters => cases h

end QV.Writer
