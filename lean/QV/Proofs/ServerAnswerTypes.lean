/-
  QV.Proofs.ServerAnswerTypes — what the answer phase can put into the additional section: only
  address records. Every `add_additional_rrset` call of query.rs is made by `add_additional_addresses`
  with type A, or AAAA (class IN) — for every zone, query and writer behaviour. Hence no record of
  another type (in particular no OPT / TSIG-typed record stored in a zone) can reach the additional
  section from zone data (helper of C09).
-/
import QV.Proofs.ServerAnswer

namespace QV.ServerAnswer
open QV QV.Writer QV.Server QV.Zone

/-- a logged call that adds to the additional section adds A or AAAA records -/
def AddrTy (e : Ev) : Prop := ∀ a, e = .add a → a.sec = .additional → a.ty = Gen.T_A ∨ a.ty = Gen.T_AAAA

theorem Logs.hdrOp (ev : Ev) (m : M Unit) (P : Ev → Prop) (hev : P ev) (hbad : P .bad) :
    Logs (PM.hdrOp ev m) P (fun _ => True) := by
  intro ps
  unfold PM.hdrOp
  rcases h : m ps.w with ⟨(u | e | _), w'⟩
  · exact ⟨[ev], by simp, by simpa using hev, by simp⟩
  · exact ⟨[.bad], by simp, by simpa using hbad, by simp⟩
  · exact ⟨[.bad], by simp, by simpa using hbad, by simp⟩

theorem addrTy_nonadd {e : Ev} (h : ∀ a, e ≠ .add a) : AddrTy e := fun a ha => absurd ha (h a)

theorem LogsT.setAa (b : Bool) : Logs (PM.setAa b) AddrTy (fun _ => True) :=
  Logs.hdrOp _ _ _ (addrTy_nonadd (by simp)) (addrTy_nonadd (by simp))

theorem LogsT.setRcode (v : Nat) : Logs (PM.setRcode v) AddrTy (fun _ => True) :=
  Logs.hdrOp _ _ _ (addrTy_nonadd (by simp)) (addrTy_nonadd (by simp))

/-- a call that does not touch the additional section, or adds addresses to it -/
theorem LogsT.addRrs (opt : Bool) (sec : RrSection) (hint : Hint) (owner : WName) (ty cls ttl : Nat)
    (rds : List (List UInt8)) (h : sec = .additional → ty = Gen.T_A ∨ ty = Gen.T_AAAA) :
    Logs (PM.addRrs opt sec hint owner ty cls ttl rds) AddrTy (fun _ => True) :=
  Logs.addRrs opt sec hint owner ty cls ttl rds AddrTy (fun r a ha hs => by cases ha; exact h hs)

theorem LogsT.addRr1 (sec : RrSection) (hint : Hint) (owner : WName) (ty cls ttl : Nat) (rd : List UInt8)
    (h : sec ≠ .additional) : Logs (PM.addRr1 sec hint owner ty cls ttl rd) AddrTy (fun _ => True) := by
  unfold PM.addRr1
  refine Logs.bind (Logs.addCall _ _ AddrTy (fun r a ha hs => ?_))
    (fun _ _ => Logs.weaken (Logs.pure () _) (fun _ h => h) (fun _ _ => True.intro))
  cases ha
  exact absurd hs h

theorem logsT_pure {α} (a : α) : Logs (Pure.pure a : PM α) AddrTy (fun _ => True) :=
  Logs.weaken (Logs.pure a _) (fun _ h => h) (fun _ _ => True.intro)

theorem LogsT.readName (rd : List UInt8) (start : Nat) : Logs (readNameFromRdata rd start) AddrTy (fun _ => True) :=
  Logs.readName rd start AddrTy

theorem LogsT.aaaaPart (z : Zone.Zone) (hint : Hint) (owner : WName) (opt : Bool) (aaaa : Option Rrset) :
    Logs (Server.addAaaa z hint owner opt aaaa) AddrTy (fun _ => True) := by
  unfold Server.addAaaa
  split
  · cases aaaa with
    | none => exact logsT_pure ()
    | some r =>
      exact Logs.bind (LogsT.addRrs opt .additional hint owner _ _ _ _ (fun _ => Or.inr rfl)) (fun _ _ => logsT_pure ())
  · exact logsT_pure ()

theorem LogsT.addrs (z : Zone.Zone) (hint : Hint) (owner : WName) (sbc opt : Bool) :
    Logs (addAdditionalAddresses z hint owner sbc opt) AddrTy (fun _ => True) := by
  unfold addAdditionalAddresses
  split
  · next a aaaa sos _ =>
    cases a with
    | none => exact LogsT.aaaaPart z hint owner opt aaaa
    | some r =>
      refine Logs.bind (LogsT.addRrs opt .additional hint owner _ _ _ _ (fun _ => Or.inl rfl)) (fun o _ => ?_)
      cases o with
      | none => exact logsT_pure ()
      | some x => exact LogsT.aaaaPart z _ owner opt aaaa
  · exact logsT_pure ()
  · exact logsT_pure ()
  · exact Logs.panic _ _

theorem LogsT.additionalLoop (z : Zone.Zone) (start : Nat) (hv : Option HV) (rds : List (List UInt8)) (idx : Nat) :
    Logs (Server.additionalLoop z start hv rds idx) AddrTy (fun _ => True) := by
  induction rds generalizing idx with
  | nil => unfold Server.additionalLoop; exact logsT_pure ()
  | cons rd rest ih =>
    unfold Server.additionalLoop
    exact Logs.bind (LogsT.readName rd start) (fun n _ =>
      Logs.bind (LogsT.addrs z _ n false true) (fun _ _ => ih (idx + 1)))

theorem LogsT.additionalProcessing (z : Zone.Zone) (t : Nat) (s : Rrset) (hv : Option HV) :
    Logs (doAdditionalSectionProcessing z t s hv) AddrTy (fun _ => True) := by
  unfold doAdditionalSectionProcessing
  split
  · exact logsT_pure ()
  · split
    · exact LogsT.additionalLoop z 0 hv s.rdatas 0
    · split
      · exact LogsT.additionalLoop z 2 hv s.rdatas 0
      · split
        · exact LogsT.additionalLoop z 6 hv s.rdatas 0
        · exact logsT_pure ()

theorem LogsT.readSoaMinimum (rd : List UInt8) : Logs (Server.readSoaMinimum rd) AddrTy (fun _ => True) := by
  unfold Server.readSoaMinimum
  have hf : ∀ {α}, Logs (PM.fail .servFail : PM α) AddrTy (fun _ => True) := fun {α} => Logs.fail _ _ _
  split
  · split
    · split
      · exact hf
      · dsimp only
        split
        · exact logsT_pure _
        · exact hf
    · exact hf
  · exact hf

theorem LogsT.negativeSoa (z : Zone.Zone) : Logs (addNegativeCachingSoa z) AddrTy (fun _ => True) := by
  unfold addNegativeCachingSoa
  split
  · exact Logs.fail _ _ _
  · split
    · exact Logs.fail _ _ _
    · exact Logs.bind (LogsT.readSoaMinimum _) (fun m _ => LogsT.addRr1 .authority _ _ _ _ _ _ (by simp))

theorem LogsT.classifyNs (child : WName) (rds : List (List UInt8)) (idx : Nat) :
    Logs (Server.classifyNs child rds idx) AddrTy (fun _ => True) :=
  Logs.weaken (Logs.classifyNs child rds idx AddrTy) (fun _ h => h) (fun _ _ => True.intro)

theorem LogsT.glueLoop (z : Zone.Zone) (hv : HV) (opt : Bool) (l : List (Nat × WName)) :
    Logs (Server.glueLoop z hv opt l) AddrTy (fun _ => True) := by
  induction l with
  | nil => unfold Server.glueLoop; exact logsT_pure ()
  | cons p rest ih =>
    unfold Server.glueLoop
    exact Logs.bind (LogsT.addrs z _ p.2 true opt) (fun _ _ => ih)

theorem LogsT.referral (z : Zone.Zone) (child : NameL.Name) (ns : Rrset) :
    Logs (doReferral z child ns) AddrTy (fun _ => True) := by
  unfold doReferral
  refine Logs.bind (LogsT.addRrs false .authority .none _ _ _ _ _ (by simp)) (fun hv _ =>
    Logs.bind (LogsT.classifyNs _ ns.rdatas 0) (fun p _ => ?_))
  obtain ⟨g, a⟩ := p
  simp only []
  exact Logs.bind (LogsT.glueLoop z _ false g) (fun _ _ => LogsT.glueLoop z _ true a)

theorem LogsT.followCname (z : Zone.Zone) (qname : WName) (qtype : Nat) :
    ∀ (fuel : Nat) (cn : Rrset) (os : List WName),
      Logs (Server.followCname z qname qtype fuel cn os) AddrTy (fun _ => True) := by
  intro fuel
  induction fuel with
  | zero => intro cn os; unfold Server.followCname; exact Logs.fail _ _ _
  | succ f ih =>
    intro cn os
    rw [Server.followCname]
    split
    · exact Logs.fail _ _ _
    · split
      · split
        · exact Logs.fail _ _ _
        · refine Logs.bind (LogsT.addRr1 .answer _ _ _ _ _ _ (by simp)) (fun _ _ => ?_)
          split
          · exact Logs.bind (LogsT.addRrs false .answer _ _ _ _ _ _ (by simp))
              (fun hv _ => LogsT.additionalProcessing z qtype _ hv)
          · split
            · exact ih _ _
            · exact Logs.fail _ _ _
          · exact LogsT.referral z _ _
          · exact LogsT.negativeSoa z
          · exact Logs.bind (LogsT.setRcode _) (fun _ _ => LogsT.negativeSoa z)
          · exact logsT_pure ()
          · exact logsT_pure ()
          · exact Logs.panic _ _
      · exact Logs.fail _ _ _

theorem LogsT.answer (z : Zone.Zone) (qname : WName) (qtype : Nat) :
    Logs (Server.answer z qname qtype) AddrTy (fun _ => True) := by
  unfold Server.answer
  split
  · exact Logs.bind (LogsT.setAa true) (fun _ _ => Logs.bind (LogsT.addRrs false .answer _ _ _ _ _ _ (by simp))
      (fun hv _ => LogsT.additionalProcessing z qtype _ hv))
  · unfold Server.doCname
    exact Logs.bind (LogsT.setAa true) (fun _ _ => LogsT.followCname z qname qtype _ _ _)
  · exact LogsT.referral z _ _
  · exact Logs.bind (LogsT.setAa true) (fun _ _ => LogsT.negativeSoa z)
  · exact Logs.bind (LogsT.setRcode _) (fun _ _ => Logs.bind (LogsT.setAa true) (fun _ _ => LogsT.negativeSoa z))
  · exact Logs.panic _ _
  · exact Logs.panic _ _
  · exact Logs.panic _ _

theorem LogsT.answerAnyLoop (z : Zone.Zone) (qname : WName) (rrsets : List Rrset) (n : Nat) :
    Logs (Server.answerAnyLoop z qname rrsets n) AddrTy (fun _ => True) := by
  induction rrsets generalizing n with
  | nil => unfold Server.answerAnyLoop; exact logsT_pure _
  | cons r rest ih =>
    unfold Server.answerAnyLoop
    exact Logs.bind (LogsT.addRrs false .answer _ _ _ _ _ _ (by simp)) (fun _ _ => ih (n + 1))

theorem LogsT.answerAny (z : Zone.Zone) (qname : WName) : Logs (Server.answerAny z qname) AddrTy (fun _ => True) := by
  unfold Server.answerAny
  split
  · refine Logs.bind (LogsT.setAa true) (fun _ _ => Logs.bind (LogsT.answerAnyLoop z qname _ 0) (fun n _ => ?_))
    split
    · exact LogsT.negativeSoa z
    · exact logsT_pure ()
  · exact LogsT.referral z _ _
  · exact Logs.bind (LogsT.setRcode _) (fun _ _ => Logs.bind (LogsT.setAa true) (fun _ _ => LogsT.negativeSoa z))
  · exact Logs.panic _ _
  · exact Logs.panic _ _
  · exact Logs.panic _ _

theorem LogsT.inner (z : Zone.Zone) (qname : WName) (qtype : Nat) :
    Logs (inner z qname qtype) AddrTy (fun _ => True) := by
  unfold ServerAnswer.inner
  split
  · exact LogsT.answerAny z qname
  · exact LogsT.answer z qname qtype

/-- from the calls to the view: if every additional-section call of a log adds A / AAAA records,
    every record of the view's additional section has type 1 or 28 -/
theorem view_additional_types (log : List Ev) (h : ∀ e ∈ log, AddrTy e) :
    ∀ r ∈ (view log).additional, r.rtype = 1 ∨ r.rtype = 28 := by
  have key : ∀ (l : List Ev) (v : View), (∀ e ∈ l, AddrTy e) → (∀ r ∈ v.additional, r.rtype = 1 ∨ r.rtype = 28) →
      ∀ r ∈ (l.foldl View.step v).additional, r.rtype = 1 ∨ r.rtype = 28 := by
    intro l
    induction l with
    | nil => intro v _ hv; exact hv
    | cons e rest ih =>
      intro v hl hv
      rw [List.foldl_cons]
      refine ih _ (fun x hx => hl x (List.mem_cons_of_mem _ hx)) ?_
      have he := hl e List.mem_cons_self
      cases e with
      | add a =>
        simp only [View.step]
        split
        · cases hs : a.sec with
          | answer => simpa [View.addTo] using hv
          | authority => simpa [View.addTo] using hv
          | additional =>
            simp only [View.addTo]
            intro r hr
            rcases List.mem_append.mp hr with h1 | h1
            · exact hv r h1
            · simp only [evRecords, List.mem_map] at h1
              obtain ⟨rd, _, rfl⟩ := h1
              exact he a rfl hs
        · exact hv
      | aa b => exact hv
      | rcode x => exact hv
      | tc b => exact hv
      | clear => intro r hr; simp [View.step] at hr
      | bad => exact hv
  exact key log {} h (by intro r hr; simp at hr)

end QV.ServerAnswer
