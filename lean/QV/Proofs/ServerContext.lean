/-
  QV.Proofs.ServerContext — layer L1 of C01, continued: the additional-section scan (`scanAr`) and
  `handle_message_with_context` as a whole, *given* that the QUERY handler is safe (`QuerySafe`,
  proved in QV.Proofs.ServerQuery).
-/
import QV.Proofs.ServerTsigSafe

namespace QV.ServerSafety
open QV QV.Writer QV.Server QV.Reader QV.Wire

variable (W : WriterSafe)

/-- continue with `g` from the state `s1` that `f` reached by a safe step -/
theorem safe_after {ε α : Type} {f g : State → Out ε α × State} {s s1 : State} {Q : α → State → Prop}
    (h : f s = g s1) (hm : Mono W.Den s s1) (hg : Safe W g s1 Q) : Safe W f s Q := by
  obtain ⟨g1, g2, g3, g4⟩ := hg
  unfold Safe; rw [h]
  exact ⟨g1, g2, hm.trans g3, g4⟩

theorem peek_bounds (r : Reader) (p : PeekRr) (h : peekRr r = .ok p) :
    p.reader = r ∧ r.cursor ≤ p.ownerEnd ∧ p.ownerEnd + 10 ≤ p.rrEnd ∧ p.rrEnd ≤ r.octets.size := by
  unfold peekRr at h
  cases hd : delimitRr r with
  | panic => rw [hd] at h; cases h
  | err e => rw [hd] at h; cases h
  | ok v =>
    obtain ⟨oe, re⟩ := v
    rw [hd] at h; cases h
    have := C15.delimitRr_bounds r oe re hd
    exact ⟨rfl, this.1, this.2.1, this.2.2⟩

theorem RInv.advance {r : Reader} (hi : RInv r) {p : PeekRr} (h : peekRr r = .ok p) :
    RInv { r with cursor := p.rrEnd } := by
  obtain ⟨_, b1, b2, b3⟩ := peek_bounds r p h
  exact ⟨⟨hi.1.1, b3⟩, by have := hi.2.1; show 12 ≤ p.rrEnd; omega, hi.2.2⟩

theorem skip_eq (r : Reader) (p : PeekRr) (h : peekRr r = .ok p) : p.skip = { r with cursor := p.rrEnd } := by
  unfold PeekRr.skip; rw [(peek_bounds r p h).1]

/-- the `Safe` triple of a `Call` with a frame fact as postcondition -/
theorem safe_call_post (c : Call) (s : State) (hi : W.I s) (hp : c.Pre W.Den s) {Q : State → Prop}
    (hq : Q (c.run s).2) : Safe W c.run s (fun _ s' => Q s') := by
  obtain ⟨h1, h2, h3⟩ := W.call c s hi hp
  exact ⟨h1, h2, h3, fun _ _ => hq⟩

/-- `validate_opt` and what follows it in the OPT branch -/
theorem safe_optTail (tr : Transport) (payload cls raw : Nat) (owner : List UInt8)
    (k : M (Option ScanSt)) {Q : Option ScanSt → State → Prop} (hQ : ∀ s', Q none s')
    (s1 : State) (hi1 : W.I s1) (he : s1.edns.isSome)
    (hk : ∀ s2, W.I s2 → Mono W.Den s1 s2 → Safe W k s2 Q) (hcls : cls ≤ 65535) :
    Safe W (do
        if tr = Transport.udp then setLimit (max 512 (min cls payload)) else pure ()
        if owner ≠ [0] then do
          Writer.unwrap (setExtendedRcode (XRC "FORMERR"))
          pure none
        else if raw / 65536 % 256 ≠ 0 then do
          Writer.unwrap (setExtendedRcode (XRC "BADVERSBADSIG"))
          pure none
        else k : M (Option ScanSt)) s1 Q := by
  have ext : ∀ s2, W.I s2 → s2.edns.isSome → ∀ v, v ≤ 4095 →
      Safe W (do Writer.unwrap (setExtendedRcode v); pure none : M (Option ScanSt)) s2 Q := by
    intro s2 hi2 he2 v hv
    have hc : Safe W (setExtendedRcode v) s2 (fun _ _ => True) := safe_call W (.setExtendedRcode v) s2 hi2 trivial
    exact safe_bind_M W (safe_unwrap W hc (setExtendedRcode_not_err v hv s2 he2))
      (fun _ s3 hi3 _ _ => safe_pure_M W none s3 hi3 (hQ s3))
  have tail : ∀ s2, W.I s2 → Mono W.Den s1 s2 → s2.edns.isSome →
      Safe W (if owner ≠ [0] then do
          Writer.unwrap (setExtendedRcode (XRC "FORMERR"))
          pure none
        else if raw / 65536 % 256 ≠ 0 then do
          Writer.unwrap (setExtendedRcode (XRC "BADVERSBADSIG"))
          pure none
        else k : M (Option ScanSt)) s2 Q := by
    intro s2 hi2 hm2 he2
    split
    · exact ext s2 hi2 he2 _ (by decide)
    · split
      · exact ext s2 hi2 he2 _ (by decide)
      · exact hk s2 hi2 hm2
  dsimp only
  split
  · have step1 : Safe W (setLimit (max 512 (min cls payload))) s1 (fun _ s' => s'.edns.isSome) :=
      safe_call_post W (.setLimit (max 512 (min cls payload))) s1 hi1
        (by show max 512 (min cls payload) ≤ 65535; omega)
        (Q := fun s' => s'.edns.isSome) (by show (setLimit _ s1).2.edns.isSome; rw [setLimit_edns]; exact he)
    exact safe_bind_M W step1 (fun _ s2 hi2 hm2 he2 => tail s2 hi2 hm2 he2)
  · exact tail s1 hi1 (Mono.refl _ _) he

/-- **the additional-section scan never panics** and leaves the reader in order -/
theorem scanAr_safe (cfg : Cfg) (tr : Transport) (now : Nat) (hnow : now < 2^48) (arcount : Nat) :
    ∀ (n index : Nat) (st : ScanSt) (s : State), RInv st.r →
      be16 st.r.octets Gen.ARCOUNT_START = arcount → index + n = arcount → W.I s →
      Safe W (scanAr cfg tr now arcount n index st) s
        (fun res _ => ∀ st', res = some st' → RInv st'.r ∧ st'.r.octets = st.r.octets) := by
  intro n
  induction n with
  | zero =>
    intro index st s hr _ _ hI
    exact safe_pure_M W (some st) s hI (fun st' h => by cases h; exact ⟨hr, rfl⟩)
  | succ n ih =>
    intro index st s hr hoct hidx hI
    have stop : ∀ (v : Nat) s', W.I s' → Safe W (do setRcode v; pure none : M (Option ScanSt)) s'
        (fun res _ => ∀ st', res = some st' → RInv st'.r ∧ st'.r.octets = st.r.octets) :=
      fun v s' hi' => safe_rcode_none W v s' hi' (fun _ st' h => by cases h)
    cases hp : peekRr st.r with
    | panic => exact absurd hp (C15.C15_peek_rr_no_panic st.r hr.1)
    | err e =>
      refine safe_congr W ?_ (stop (RC "FORMERR") s hI)
      simp only [scanAr, hp]
    | ok p =>
      obtain ⟨hr0, a1, a2, a3, a4, a5, a6, a7⟩ := C15.C15_peek_accessors st.r p hp
      have hadv := hr.advance hp
      -- the recursive call on the reader positioned after this record
      have recur : ∀ (so : Bool) s', W.I s' →
          Safe W (scanAr cfg tr now arcount n (index + 1) { r := { st.r with cursor := p.rrEnd }, seenOpt := so }) s'
            (fun res _ => ∀ st', res = some st' → RInv st'.r ∧ st'.r.octets = st.r.octets) :=
        fun so s' hi' => ih (index + 1) _ s' hadv hoct (by omega) hi'
      by_cases hopt : be16 st.r.octets p.ownerEnd = T "OPT"
      · -- OPT
        by_cases hseen : st.seenOpt = true
        · refine safe_congr W ?_ (stop (RC "FORMERR") s hI)
          simp only [scanAr, hp, a1, hopt, if_true, hseen]
        · obtain ⟨h1, h2, h3⟩ := W.call (.setEdns cfg.payload) s hI trivial
          have e : (Call.setEdns cfg.payload).run = setEdns cfg.payload := rfl
          rw [e] at h1 h2 h3
          generalize hse : setEdns cfg.payload s = res at h1 h2 h3
          obtain ⟨o, s1⟩ := res
          cases o with
          | panic => exact absurd rfl h1
          | err e' =>
            refine safe_after W (g := (do setRcode (RC "SERVFAIL"); pure none : M (Option ScanSt))) ?_ h3
              (stop _ s1 h2)
            simp only [scanAr, hp, a1, hopt, if_true, hseen, hse]
            rfl
          | ok u =>
            have he1 : s1.edns.isSome := setEdns_ok_edns _ _ _ hse
            obtain ⟨hpp, hpo⟩ := peek_parse_safe rdataSafe st.r hr.2.2 p hp
            generalize hpr : p.parse rdRead = pr at hpp hpo
            obtain ⟨o2, r''⟩ := pr
            cases o2 with
            | panic => exact absurd rfl hpp
            | err e2 =>
              refine safe_after W (g := (do setRcode (RC "FORMERR"); pure none : M (Option ScanSt))) ?_ h3
                (stop _ s1 h2)
              simp only [scanAr, hp, a1, hopt, if_true, hseen, hse, a3, hpr]
              rfl
            | ok opt =>
              obtain ⟨hr', _, _, _, hclsEq⟩ := hpo opt r'' rfl
              subst hr'
              refine safe_after W ?_ h3 (safe_optTail W tr cfg.payload opt.cls (be32 st.r.octets (p.ownerEnd + 4))
                opt.owner _ (fun _ st' h => by cases h) s1 h2 he1
                (fun s2 hi2 _ => recur true s2 hi2)
                (by rw [hclsEq]; have := be16_lt st.r.octets (p.ownerEnd + 2); omega))
              simp only [scanAr, hp, a1, hopt, if_true, hseen, hse, a3, hpr]
              rfl
      · by_cases htsig : be16 st.r.octets p.ownerEnd = T "TSIG"
        · -- TSIG
          have hne : ¬ (T "TSIG" = T "OPT") := by decide
          by_cases hlast : index ≠ arcount - 1
          · refine safe_congr W ?_ (stop (RC "FORMERR") s hI)
            simp only [scanAr, hp, a1, htsig, hne, if_false, if_true]; rw [if_pos hlast]
          · have har : 1 ≤ be16 st.r.octets Gen.ARCOUNT_START := by rw [hoct]; omega
            obtain ⟨g1, g2, g3, g4⟩ := handleTsig_safe W cfg now hnow st.r hr p hp (by rw [a1, htsig])
              (be32 st.r.octets (p.ownerEnd + 4)) har s hI
            generalize hht : handleTsig cfg now p (be32 st.r.octets (p.ownerEnd + 4)) s = res at g1 g2 g3 g4
            obtain ⟨o, s1⟩ := res
            cases o with
            | panic => exact absurd rfl g1
            | err e' =>
              unfold Safe
              have : scanAr cfg tr now arcount (n + 1) index st s = (.err e', s1) := by
                simp only [scanAr, hp, a1, htsig, hne, if_false, if_true]; rw [if_neg hlast]; simp only [a3, hht]
              rw [this]
              exact ⟨by simp, g2, g3, fun a ha => by cases ha⟩
            | ok ro =>
              cases ro with
              | none =>
                unfold Safe
                have : scanAr cfg tr now arcount (n + 1) index st s = (.ok none, s1) := by
                  simp only [scanAr, hp, a1, htsig, hne, if_false, if_true]; rw [if_neg hlast]; simp only [a3, hht]
                rw [this]
                exact ⟨by simp, g2, g3, fun a ha => by cases ha; intro st' h; cases h⟩
              | some r' =>
                have hr' := g4 (some r') rfl r' rfl
                subst hr'
                refine safe_after W ?_ g3 (recur st.seenOpt s1 g2)
                simp only [scanAr, hp, a1, htsig, hne, if_false, if_true]; rw [if_neg hlast]; simp only [a3, hht]
        · -- any other record: skip it
          refine safe_congr W ?_ (recur st.seenOpt s hI)
          simp only [scanAr, hp, a1, hopt, if_false, htsig, skip_eq st.r p hp]

/-! ### `handle_message_with_context` -/

theorem scanAnNs_rinv (n : Nat) (r r' : Reader) (hi : RInv r) (h : scanAnNs n r = some r') :
    RInv r' ∧ r'.octets = r.octets := by
  induction n generalizing r with
  | zero => simp [scanAnNs] at h; subst h; exact ⟨hi, rfl⟩
  | succ n ih =>
    unfold scanAnNs at h
    cases hp : peekRr r with
    | panic => rw [hp] at h; cases h
    | err e => rw [hp] at h; cases h
    | ok p =>
      rw [hp] at h
      obtain ⟨_, a1, _⟩ := C15.C15_peek_accessors r p hp
      simp only [a1] at h
      split at h
      · cases h
      · rw [skip_eq r p hp] at h
        obtain ⟨g1, g2⟩ := ih _ (hi.advance hp) h
        exact ⟨g1, g2⟩

/-- no panic and the invariant again (the anchors may have been reassigned: `add_question`) -/
def Safe0 {ε α : Type} (f : State → Out ε α × State) (s : State) : Prop :=
  (f s).1 ≠ .panic ∧ W.I (f s).2

theorem Safe.safe0 {ε α : Type} {f : State → Out ε α × State} {s : State} {Q : α → State → Prop}
    (h : Safe W f s Q) : Safe0 W f s := ⟨h.1, h.2.1⟩

theorem safe0_congr {ε α : Type} {f g : State → Out ε α × State} {s : State}
    (h : f s = g s) (hg : Safe0 W g s) : Safe0 W f s := by
  unfold Safe0 at hg ⊢; rw [h]; exact hg

/-- a first step that may reassign anchors, followed by a rest that is safe from wherever it
    starts -/
theorem safe0_bind_M {α β : Type} {x : M α} {g : α → M β} {s : State} {Q : α → State → Prop}
    (hx : (x s).1 ≠ .panic ∧ W.I (x s).2 ∧ ∀ a, (x s).1 = .ok a → Q a (x s).2)
    (hg : ∀ a s', W.I s' → Q a s' → Safe0 W (g a) s') : Safe0 W (x >>= g) s := by
  obtain ⟨h1, h2, h4⟩ := hx
  unfold Safe0
  rw [M.bind_apply]
  generalize x s = r at h1 h2 h4
  obtain ⟨o, s'⟩ := r
  cases o with
  | ok a => exact hg a s' h2 (h4 a rfl)
  | err e => exact ⟨by simp, h2⟩
  | panic => exact absurd rfl h1

theorem safe_bind0_M {α β : Type} {x : M α} {g : α → M β} {s : State} {Q : α → State → Prop}
    (hx : Safe W x s Q) (hg : ∀ a s', W.I s' → Mono W.Den s s' → Q a s' → Safe0 W (g a) s') :
    Safe0 W (x >>= g) s :=
  safe0_bind_M W (Q := fun a s' => Mono W.Den s s' ∧ Q a s') ⟨hx.1, hx.2.1, fun a ha => ⟨hx.2.2.1, hx.2.2.2 a ha⟩⟩
    (fun a s' hi' hq => hg a s' hi' hq.1 hq.2)

/-- what the scan phase needs from the QUERY handler (proved in QV.Proofs.ServerQuery) -/
def QuerySafe (cfg : Cfg) (tr : Transport) : Prop :=
  ∀ (qn : WName) (qt qc : Nat) (s : State), W.I s → qn.WF → HintOK W.Den s .qname qn →
    Safe0 W (handleQuery cfg (some (qn, qt, qc)) tr) s

theorem readQuestion_ok (r : Reader) (q : Question) (r1 : Reader) (h : readQuestion r = (.ok q, r1)) :
    ∃ p, parseCompressed r.octets r.cursor = .ok p ∧ q.qname = p.wire ∧
      r1 = { r with cursor := r.cursor + p.len + 4 } := by
  unfold readQuestion at h
  cases hp : parseCompressed r.octets r.cursor with
  | panic => rw [hp] at h; cases h
  | err e => rw [hp] at h; cases h
  | ok p =>
    rw [hp] at h
    simp only at h
    cases h1 : readU16At r.octets (r.cursor + p.len) with
    | panic => rw [h1] at h; cases h
    | err e => rw [h1] at h; cases h
    | ok qt =>
      rw [h1] at h
      simp only at h
      cases h2 : readU16At r.octets (r.cursor + p.len + 2) with
      | panic => rw [h2] at h; cases h
      | err e => rw [h2] at h; cases h
      | ok qc =>
        rw [h2] at h
        simp only [Prod.mk.injEq, Out.ok.injEq] at h
        obtain ⟨rfl, rfl⟩ := h
        exact ⟨p, rfl, rfl, rfl⟩

theorem opcode_ok (r : Reader) (hi : Reader.Inv r) : ∃ v, opcode r = .ok v := by
  have hnp := (C15.C15_header_no_panic r hi).2.2.2.2.2.2.2.2.2.2.1
  cases h : opcode r with
  | ok v => exact ⟨v, rfl⟩
  | panic => exact absurd h hnp
  | err e =>
    unfold opcode idx at h
    by_cases hb : Gen.OPCODE_BYTE < r.octets.size
    · simp only [hb, dite_true] at h
      split at h <;> cases h
    · simp only [hb, dite_false] at h
      cases h

/-- **L1**: the scan phase (and with `QuerySafe` all of `handle_message_with_context`) never
    panics, from a fresh writer (question section, no question yet) -/
theorem handleWithContext_safe (cfg : Cfg) (tr : Transport) (now : Nat) (hnow : now < 2^48)
    (hq : QuerySafe W cfg tr) (r0 : Reader) (hr : RInv r0) (s : State) (hI : W.I s)
    (hsect : s.sect = .question) (hqd : s.qdcount = 0) :
    Safe0 W (handleWithContext cfg tr now r0) s := by
  obtain ⟨_, _, e4, e6, e8, e10⟩ := C15.C15_header_fields r0 hr.1
  obtain ⟨opc, hopc⟩ := opcode_ok r0 hr.1
  have fin : ∀ (v : Nat) s', W.I s' → Safe W (do setRcode v; pure true : M Bool) s' (fun _ _ => True) :=
    fun v s' hi' => safe_bind_M W (safe_setRcode W v s' hi')
      (fun _ s2 hi2 _ _ => safe_pure_M W true s2 hi2 trivial)
  -- everything after the question has been dealt with
  have main : ∀ (question : Option (WName × Nat × Nat)) (r1 : Reader) (addQ : M Bool), RInv r1 →
      r1.octets = r0.octets →
      (∀ s, W.I s → s.sect = .question → s.qdcount = 0 →
        (addQ s).1 ≠ .panic ∧ W.I (addQ s).2 ∧ ∀ ok, (addQ s).1 = .ok ok →
          (ok = true → ∀ qn qt qc, question = some (qn, qt, qc) →
            qn.WF ∧ HintOK W.Den (addQ s).2 .qname qn)) →
      Safe0 W (do
        let okQ ← addQ
        if !okQ then pure true
        else
          let r2 := Reader.setMark r1
          match scanAnNs (be16 r0.octets 6 + be16 r0.octets 8) r2 with
          | none => do setRcode (RC "FORMERR"); pure true
          | some r3 => do
            let st ← scanAr cfg tr now (be16 r0.octets 10) (be16 r0.octets 10) 0 { r := r3 }
            match st with
            | none => pure true
            | some st' =>
              if !Reader.atEom st'.r then do setRcode (RC "FORMERR"); pure true
              else do
                if opc = 0 then handleQuery cfg question tr else setRcode (RC "NOTIMP")
                pure true : M Bool) s := by
    intro question r1 addQ hr1 ho1 haddQ
    refine safe0_bind_M W
      (Q := fun ok s' => ok = true → ∀ qn qt qc, question = some (qn, qt, qc) →
        qn.WF ∧ HintOK W.Den s' .qname qn) (haddQ s hI hsect hqd) (fun okQ s1 hi1 hQ1 => ?_)
    cases okQ with
    | false => exact (safe_pure_M W true s1 hi1 (Q := fun _ _ => True) trivial).safe0
    | true =>
      simp only [Bool.not_true, Bool.false_eq_true, if_false]
      have hr2 : RInv (Reader.setMark r1) := hr1
      cases hsc : scanAnNs (be16 r0.octets 6 + be16 r0.octets 8) (Reader.setMark r1) with
      | none => exact (fin _ s1 hi1).safe0
      | some r3 =>
        obtain ⟨hr3, ho3⟩ := scanAnNs_rinv _ _ _ hr2 hsc
        have c10 : Gen.ARCOUNT_START = 10 := by decide
        have hoct : be16 r3.octets Gen.ARCOUNT_START = be16 r0.octets 10 := by
          rw [ho3, c10]; show be16 r1.octets 10 = _; rw [ho1]
        refine safe_bind0_M W (scanAr_safe W cfg tr now hnow _ _ 0 { r := r3 } s1 hr3 hoct (by omega) hi1)
          (fun st s2 hi2 hm2 _ => ?_)
        cases st with
        | none => exact (safe_pure_M W true s2 hi2 (Q := fun _ _ => True) trivial).safe0
        | some st' =>
          simp only
          split
          · exact (fin _ s2 hi2).safe0
          · have done : ∀ (m : M Unit), Safe0 W m s2 → Safe0 W (do m; pure true : M Bool) s2 :=
              fun m hm => safe0_bind_M W (Q := fun _ _ => True) ⟨hm.1, hm.2, fun _ _ => trivial⟩
                (fun _ s3 hi3 _ => (safe_pure_M W true s3 hi3 (Q := fun _ _ => True) trivial).safe0)
            split
            · refine done _ ?_
              cases question with
              | none => exact (safe_setRcode W _ s2 hi2).safe0
              | some q =>
                obtain ⟨qn, qt, qc⟩ := q
                obtain ⟨hwf, hh⟩ := hQ1 rfl qn qt qc rfl
                exact hq qn qt qc s2 hi2 hwf (hintOK_qname_mono W hh hm2)
            · exact done _ (safe_setRcode W _ s2 hi2).safe0
  -- the question
  by_cases hqd0 : be16 r0.octets 4 = 0
  · have := main none r0 (pure true) hr rfl
      (fun s' hi' _ _ => ⟨by simp [pure], hi', fun _ _ _ qn qt qc h => by cases h⟩)
    refine safe0_congr W ?_ this
    simp only [handleWithContext, e4, e6, e8, e10, hopc, hqd0, if_true]
    rfl
  · by_cases hqd1 : be16 r0.octets 4 = 1
    · have hrq := C15.C15_read_question_no_panic r0 hr.1
      generalize hrd : readQuestion r0 = rq at hrq
      obtain ⟨o, r1⟩ := rq
      cases o with
      | panic => exact absurd rfl hrq
      | err e =>
        have e1 : RC "FORMERR" = 1 := by decide
        refine (safe_congr W ?_ (fin (RC "FORMERR") s hI)).safe0
        simp only [handleWithContext, e4, e6, e8, e10, hopc, hqd1, hrd, e1]
        rfl
      | ok q =>
        obtain ⟨pq, hpq, hqn, hr1⟩ := readQuestion_ok r0 q r1 hrd
        obtain ⟨qn, hwf, _, hparse⟩ := parsed_wname _ _ pq hpq
        rw [← hqn] at hparse
        have hinv1 := C15.C15_read_question_inv r0 hr.1
        rw [hrd] at hinv1
        have hr1' : RInv r1 := ⟨hinv1, by rw [hr1]; have := hr.2.1; show 12 ≤ r0.cursor + pq.len + 4; omega,
          by rw [hr1]; exact hr.2.2⟩
        have haddQ : ∀ s, W.I s → s.sect = .question → s.qdcount = 0 →
            let addQ : M Bool := fun s => match addQuestion qn q.qtype q.qclass s with
              | (.ok (), s') => (.ok true, s')
              | (.err _, s') => (do setRcode (RC "SERVFAIL"); pure false : M Bool) s'
              | (.panic, s') => (.panic, s')
            (addQ s).1 ≠ .panic ∧ W.I (addQ s).2 ∧ ∀ ok, (addQ s).1 = .ok ok →
              (ok = true → ∀ qn' qt qc, some (qn, q.qtype, q.qclass) = some (qn', qt, qc) →
                qn'.WF ∧ HintOK W.Den (addQ s).2 .qname qn') := by
          intro s hi hs hq0
          obtain ⟨g1, g2, g3, g4⟩ := W.addQuestion qn q.qtype q.qclass s hi hwf
          dsimp only
          generalize addQuestion qn q.qtype q.qclass s = res at g1 g2 g3 g4
          obtain ⟨o, s'⟩ := res
          cases o with
          | panic => exact absurd rfl g1
          | ok u =>
            refine ⟨by simp, g2, fun a ha _ qn' qt qc he => ?_⟩
            cases he; exact ⟨hwf, g4 rfl hs hq0⟩
          | err e =>
            have hs : Safe W (do setRcode (RC "SERVFAIL"); pure false : M Bool) s' (fun ok _ => ok = false) :=
              safe_bind_M W (safe_setRcode W _ s' g2) (fun _ s2 hi2 _ _ => safe_pure_M W false s2 hi2 rfl)
            obtain ⟨k1, k2, k3, k4⟩ := hs
            refine ⟨k1, k2, fun a ha hat => ?_⟩
            have := k4 a ha; rw [this] at hat; cases hat
        have := main (some (qn, q.qtype, q.qclass)) r1 _ hr1' (by rw [hr1]) haddQ
        refine safe0_congr W ?_ this
        simp only [handleWithContext, e4, e6, e8, e10, hopc, hqd1, hrd, hparse]
        rfl
    · unfold Safe0
      have : handleWithContext cfg tr now r0 s = (.ok false, s) := by
        simp only [handleWithContext, e4, e6, e8, e10, hopc, hqd0, hqd1, if_false]
      rw [this]
      exact ⟨by simp, hI⟩

end QV.ServerSafety
