/-
  QV.Proofs.WriterBridge — definitions shared by the driver (`QV.Driver.Writer`) and the property
  files: how a model session is observed (`runModel`: the status of every call, the finished
  messages) and how model-level calls are expressed in the specification's vocabulary
  (`toSpecOp`).  No proofs; imports only the model and the spec (linked into the driver).
-/
import QV.Model.Writer
import QV.Spec.Message

namespace QV.Driver
open QV QV.Writer

def b01 (b : Bool) : String := if b then "1" else "0"

def gettersStr (s : State) : String :=
  s!"g={getId s}.{b01 (getBit s Gen.QR_BYTE Gen.QR_MASK)}{b01 (getBit s Gen.AA_BYTE Gen.AA_MASK)}" ++
  s!"{b01 (getBit s Gen.TC_BYTE Gen.TC_MASK)}{b01 (getBit s Gen.RD_BYTE Gen.RD_MASK)}" ++
  s!"{b01 (getBit s Gen.RA_BYTE Gen.RA_MASK)}.{getOpcode s}.{getRcode s}.{getExtendedRcode s}." ++
  s!"{s.qdcount}.{s.ancount}.{s.nscount}.{s.arcount}"

def statusStr : Out WriterErr Unit → String
  | .ok _ => "ok"
  | .err e => "err:" ++ e.toString
  | .panic => "panic"

/-- outcome of running a session through the model -/
structure ModelRun where
  statuses : List String
  msg : Option Bytes          -- `none` after a panic
  mac : Option (List UInt8)
  /-- finished messages of the prefixes that end before each `clear_rrs` -/
  pre : List Bytes := []

/-- run the ops one call at a time (the driver needs the intermediate state for `g`) -/
def runModel (ss : Session) (ops : List Op) (mac : Option (List UInt8)) (fin : Bool) : ModelRun :=
  let macFn : Tsig → List UInt8 → List UInt8 := fun _ _ => mac.getD []
  let rec go (ss : Session) : List Op → List String → List Bytes → ModelRun
    | [], acc, pre =>
      if fin then
        match finish ss.w macFn with
        | .ok (m, mc) => ⟨(("ok" :: acc).reverse), some m, mc, pre.reverse⟩
        | _ => ⟨(("panic" :: acc).reverse), none, none, pre.reverse⟩
      else ⟨acc.reverse, none, none, pre.reverse⟩
    | op :: rest, acc, pre =>
      match op with
      | .getters => go ss rest (gettersStr ss.w :: acc) pre
      | _ =>
        let pre' := match op with
          | .clearRrs => (match finish ss.w macFn with
                          | .ok (m, _) => m :: pre
                          | _ => #[] :: pre)
          | _ => pre
        match step ss op with
        | (.panic, _) => ⟨(("panic" :: acc).reverse), none, none, pre'.reverse⟩
        | (r, ss') => go ss' rest (statusStr r :: acc) pre'
  go ss ops [] []


/-! ### conversion of model-level ops to the specification's vocabulary -/

def toSpecMode : CMode → Spec.Message.Mode
  | .standard => .standard
  | .casePreserving => .casePreserving
  | .disabled => .disabled

def secNum : RrSection → Nat
  | .answer => 1
  | .authority => 2
  | .additional => 3

def algNum : Alg → Nat
  | .hmacSha1 => 1
  | .hmacSha256 => 256

def toSpecOp : Op → Spec.Message.SOp
  | .setId v => .setId v
  | .setQr b => .setFlag .qr b
  | .setAa b => .setFlag .aa b
  | .setTc b => .setFlag .tc b
  | .setRd b => .setFlag .rd b
  | .setRa b => .setFlag .ra b
  | .setOpcode v => .setOpcode v
  | .setRcode v => .setRcode v
  | .setExtendedRcode v => .setExtRcode v
  | .setLimit v => .setLimit v
  | .setMode m => .setMode (toSpecMode m)
  | .addQuestion n t c => .addQuestion n.wire t c
  | .addRr sec _ o ty cls ttl rd _ => .addRrs (secNum sec) o.wire ty cls ttl [rd]
  | .addRrset sec _ o ty cls ttl rds _ => .addRrs (secNum sec) o.wire ty cls ttl rds
  | .clearRrs => .clearRrs
  | .setEdns p => .setEdns p
  | .setTsig m rr =>
    let (sg, alg) : Option Nat × Spec.Message.Name := match m with
      | .request a _ | .response a _ _ | .subsequent a _ _ =>
        (some (Spec.Message.algOutputSize (algNum a)), Spec.Message.algWireName (algNum a))
      | .unsigned n => (none, n.wire)
    .setTsig sg alg rr.keyName.wire rr.timeSigned rr.fudge rr.originalId rr.error rr.serverTime
  | .updateTimeSigned t => .updateTime t
  | .template n _ => .template n
  | .templateSubsequent n _ _ => .templateSubsequent n
  | .getters => .getters


end QV.Driver
