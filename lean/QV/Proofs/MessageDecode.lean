/-
  QV.Proofs.MessageDecode — the spec's RFC 1035 decoder (`QV.Spec.Message.specDecodeMsg`) reads
  back a canonically (uncompressed) encoded message: names, questions, records with their RDATA
  expanded along the RFC layouts, the whole message. Used for C12 (d): refinement in `Disabled`
  mode.
-/
import QV.Spec.Message
import QV.Proofs.WriterFinish
import QV.Proofs.WriterRdata
namespace QV.Writer
open QV QV.Wire QV.Spec QV.Spec.Message

theorem bytesAt_lt {msg : Bytes} {pos : Nat} {d : List UInt8} (h : BytesAt msg pos d) {i : Nat}
    (hi : i < d.length) : pos + i < msg.size := by
  have := h i hi
  rw [List.getElem?_eq_getElem hi] at this
  exact getElem?_some_lt this

theorem bytesAt_get {msg : Bytes} {pos : Nat} {d : List UInt8} (h : BytesAt msg pos d) {i : Nat}
    (hi : i < d.length) : msg[pos + i]? = some d[i] := by
  rw [h i hi, List.getElem?_eq_getElem hi]

theorem bytesAt_getD {msg : Bytes} {pos : Nat} {d : List UInt8} (h : BytesAt msg pos d) {i : Nat}
    (hi : i < d.length) : msg.getD (pos + i) 0 = d[i] := by
  have := bytesAt_get h hi
  have hl := bytesAt_lt h hi
  simp only [Array.getD, hl, dite_true]
  rw [Array.getElem?_eq_getElem hl] at this
  exact Option.some.inj this

theorem be16_of_bytesAt {msg : Bytes} {pos n : Nat} (h : BytesAt msg pos (u16be n)) (hn : n < 65536) :
    be16 msg pos = n := by
  have h0 := bytesAt_getD h (i := 0) (by simp [u16be])
  have h1 := bytesAt_getD h (i := 1) (by simp [u16be])
  simp only [Nat.add_zero] at h0
  unfold be16
  rw [h0, h1]
  simp only [u16be, List.getElem_cons_zero, List.getElem_cons_succ, UInt8.toNat_ofNat']
  omega

theorem be32_of_bytesAt {msg : Bytes} {pos n : Nat} (h : BytesAt msg pos (u32be n)) (hn : n < 4294967296) :
    be32 msg pos = n := by
  have h0 := bytesAt_getD h (i := 0) (by simp [u32be])
  have h1 := bytesAt_getD h (i := 1) (by simp [u32be])
  have h2 := bytesAt_getD h (i := 2) (by simp [u32be])
  have h3 := bytesAt_getD h (i := 3) (by simp [u32be])
  simp only [Nat.add_zero] at h0
  unfold be32
  rw [h0, h1, h2, h3]
  simp only [u32be, List.getElem_cons_zero, List.getElem_cons_succ, UInt8.toNat_ofNat']
  omega


/-! ### names -/

def labelsOK (ls : List Label) : Prop := ∀ l ∈ ls, 1 ≤ l.length ∧ l.length ≤ 63

theorem encLabel_len_toNat {l : Label} (h : l.length ≤ 63) : (UInt8.ofNat l.length).toNat = l.length := by
  rw [UInt8.toNat_ofNat']; omega

theorem flatMap_enc_length_ge (ls : List Label) : ls.length ≤ (ls.flatMap WName.encLabel).length := by
  induction ls with
  | nil => simp
  | cons l ls ih =>
    rw [List.flatMap_cons, List.length_append, List.length_cons]
    simp only [WName.encLabel, List.length_cons]; omega

/-- the decoder walks a literally stored name label by label -/
theorem specWalk_labels (msg : Bytes) (cs : Nat) : ∀ (ls : List Label) (pos fuel : Nat), labelsOK ls →
    BytesAt msg pos (ls.flatMap WName.encLabel ++ [0]) → ls.length < fuel →
    specWalk msg fuel pos cs = some (ls.map WName.encLabel ++ [[0]], (ls.flatMap WName.encLabel).length + 1) := by
  intro ls
  induction ls with
  | nil =>
    intro pos fuel _ hb hf
    obtain ⟨f, rfl⟩ : ∃ f, fuel = f + 1 := ⟨fuel - 1, by simp at hf; omega⟩
    have h0 := bytesAt_get hb (i := 0) (by simp)
    simp only [Nat.add_zero] at h0
    simp [specWalk, h0]
  | cons l ls ih =>
    intro pos fuel hok hb hf
    obtain ⟨f, rfl⟩ : ∃ f, fuel = f + 1 := ⟨fuel - 1, by simp at hf; omega⟩
    have hl := hok l List.mem_cons_self
    have hb' : BytesAt msg pos (WName.encLabel l ++ (ls.flatMap WName.encLabel ++ [0])) := by
      simpa [List.flatMap_cons, List.append_assoc] using hb
    obtain ⟨b1, b2⟩ := bytesAt_append hb'
    have h0 := bytesAt_get b1 (i := 0) (by simp [WName.encLabel])
    simp only [Nat.add_zero, WName.encLabel, List.getElem_cons_zero] at h0
    have hlen : (WName.encLabel l).length = l.length + 1 := by simp [WName.encLabel]
    rw [hlen] at b2
    have hnext := bytesAt_lt b2 (i := 0) (by simp)
    have hne : UInt8.ofNat l.length ≠ 0 := by
      intro hc
      have := congrArg UInt8.toNat hc
      rw [encLabel_len_toNat hl.2] at this
      have h00 : (0 : UInt8).toNat = 0 := rfl
      omega
    have hex : (msg.extract pos (pos + l.length + 1)).toList = WName.encLabel l := by
      have := bytesAt_extract b1
      rw [hlen] at this
      exact this
    have hrec := ih (pos + l.length + 1) f (fun x hx => hok x (List.mem_cons_of_mem _ hx))
      (by rw [show pos + l.length + 1 = pos + (l.length + 1) by omega]; exact b2) (by simp at hf; omega)
    unfold specWalk
    simp only [h0, hne, if_false, encLabel_len_toNat hl.2, hl.2, if_true]
    rw [if_pos (by have := hlen; omega), hrec]
    simp only [hex, List.map_cons, List.cons_append, List.flatMap_cons, List.length_append, hlen]
    congr 2

theorem WName.wire_eq (n : WName) : n.wire = n.labels.flatMap WName.encLabel ++ [0] := rfl

theorem wf_labelsOK {n : WName} (h : n.WF) : labelsOK n.labels := h.1

theorem wire_flatten (n : WName) : (n.labels.map WName.encLabel ++ [[0]]).flatten = n.wire := by
  simp [WName.wire, List.flatMap_def]

/-- **the RFC 1035 decoder reads back a literally stored name** -/
theorem specDecodeName_wire (msg : Bytes) (n : WName) (hwf : n.WF) (pos : Nat)
    (hb : BytesAt msg pos n.wire) :
    specDecodeName msg pos = some (n.wire, n.len, n.wire.length) := by
  have hlen : n.labels.length < n.wire.length := by
    have := flatMap_enc_length_ge n.labels
    rw [WName.wire_eq, List.length_append]; simp only [List.length_cons, List.length_nil]; omega
  have hsz : pos + n.wire.length ≤ msg.size := by
    have := bytesAt_lt hb (i := n.wire.length - 1) (by omega)
    omega
  have hfuel : n.labels.length < msg.size * msg.size + msg.size + 2 := by omega
  unfold specDecodeName
  rw [specWalk_labels msg pos n.labels pos _ hwf.1 hb hfuel]
  simp only [wire_flatten]
  have h255 : n.wire.length ≤ 255 := hwf.2
  rw [if_pos h255]
  simp [WName.len, WName.wire]

theorem physical_labels (msg : Bytes) : ∀ (ls : List Label) (pos fuel : Nat) (acc : List Nat), labelsOK ls →
    BytesAt msg pos (ls.flatMap WName.encLabel ++ [0]) → ls.length < fuel →
    ∃ r, physical msg fuel pos acc = some (r, none) := by
  intro ls
  induction ls with
  | nil =>
    intro pos fuel acc _ hb hf
    obtain ⟨f, rfl⟩ : ∃ f, fuel = f + 1 := ⟨fuel - 1, by simp at hf; omega⟩
    have h0 := bytesAt_get hb (i := 0) (by simp)
    simp only [Nat.add_zero, List.flatMap_nil, List.nil_append, List.getElem_cons_zero] at h0
    exact ⟨(pos :: acc).reverse, by simp [physical, h0]⟩
  | cons l ls ih =>
    intro pos fuel acc hok hb hf
    obtain ⟨f, rfl⟩ : ∃ f, fuel = f + 1 := ⟨fuel - 1, by simp at hf; omega⟩
    have hl := hok l List.mem_cons_self
    have hb' : BytesAt msg pos (WName.encLabel l ++ (ls.flatMap WName.encLabel ++ [0])) := by
      simpa [List.flatMap_cons, List.append_assoc] using hb
    obtain ⟨b1, b2⟩ := bytesAt_append hb'
    have h0 := bytesAt_get b1 (i := 0) (by simp [WName.encLabel])
    simp only [Nat.add_zero, WName.encLabel, List.getElem_cons_zero] at h0
    have hlen : (WName.encLabel l).length = l.length + 1 := by simp [WName.encLabel]
    rw [hlen] at b2
    have hne : UInt8.ofNat l.length ≠ 0 := by
      intro hc
      have := congrArg UInt8.toNat hc
      rw [encLabel_len_toNat hl.2] at this
      have h00 : (0 : UInt8).toNat = 0 := rfl
      omega
    obtain ⟨r, hr⟩ := ih (pos + l.length + 1) f (pos :: acc) (fun x hx => hok x (List.mem_cons_of_mem _ hx))
      (by rw [show pos + l.length + 1 = pos + (l.length + 1) by omega]; exact b2) (by simp at hf; omega)
    refine ⟨r, ?_⟩
    unfold physical
    simp only [h0, hne, if_false, encLabel_len_toNat hl.2, hl.2, if_true]
    exact hr

theorem flatMap_enc_length_ge2 (ls : List Label) (h : labelsOK ls) :
    2 * ls.length ≤ (ls.flatMap WName.encLabel).length := by
  induction ls with
  | nil => simp
  | cons l ls ih =>
    have := ih (fun x hx => h x (List.mem_cons_of_mem _ hx))
    have hl := h l List.mem_cons_self
    rw [List.flatMap_cons, List.length_append, List.length_cons]
    simp only [WName.encLabel, List.length_cons]; omega

theorem wf_labels_lt {n : WName} (h : n.WF) : n.labels.length < 130 := by
  have := flatMap_enc_length_ge2 n.labels h.1
  have h2 : n.wire.length ≤ 255 := h.2
  rw [WName.wire_eq, List.length_append] at h2
  simp only [List.length_cons, List.length_nil] at h2
  omega

theorem decodeNameAt_wire (msg : Bytes) (n : WName) (hwf : n.WF) (pos : Nat) (place : Where) (item : Nat)
    (hb : BytesAt msg pos n.wire) :
    ∃ occ, decodeNameAt msg pos place item = some (n.wire, n.wire.length, occ) := by
  obtain ⟨r, hr⟩ := physical_labels msg n.labels pos 130 [] hwf.1 hb (wf_labels_lt hwf)
  unfold decodeNameAt
  rw [specDecodeName_wire msg n hwf pos hb, hr]
  exact ⟨_, rfl⟩


/-! ### a name given in uncompressed form (the spec's own reading of the caller's RDATA) -/

theorem specWalkU_labels (b : Bytes) : ∀ (ls : List Label) (pos fuel : Nat), labelsOK ls →
    BytesAt b pos (ls.flatMap WName.encLabel ++ [0]) → ls.length < fuel →
    specWalkU b fuel pos = some (ls.map WName.encLabel ++ [[0]]) := by
  intro ls
  induction ls with
  | nil =>
    intro pos fuel _ hb hf
    obtain ⟨f, rfl⟩ : ∃ f, fuel = f + 1 := ⟨fuel - 1, by simp at hf; omega⟩
    have h0 := bytesAt_get hb (i := 0) (by simp)
    simp only [Nat.add_zero] at h0
    simp [specWalkU, h0]
  | cons l ls ih =>
    intro pos fuel hok hb hf
    obtain ⟨f, rfl⟩ : ∃ f, fuel = f + 1 := ⟨fuel - 1, by simp at hf; omega⟩
    have hl := hok l List.mem_cons_self
    have hb' : BytesAt b pos (WName.encLabel l ++ (ls.flatMap WName.encLabel ++ [0])) := by
      simpa [List.flatMap_cons, List.append_assoc] using hb
    obtain ⟨b1, b2⟩ := bytesAt_append hb'
    have h0 := bytesAt_get b1 (i := 0) (by simp [WName.encLabel])
    simp only [Nat.add_zero, WName.encLabel, List.getElem_cons_zero] at h0
    have hlen : (WName.encLabel l).length = l.length + 1 := by simp [WName.encLabel]
    rw [hlen] at b2
    have hne : UInt8.ofNat l.length ≠ 0 := by
      intro hc
      have := congrArg UInt8.toNat hc
      rw [encLabel_len_toNat hl.2] at this
      have h00 : (0 : UInt8).toNat = 0 := rfl
      omega
    have hex : (b.extract pos (pos + l.length + 1)).toList = WName.encLabel l := by
      have := bytesAt_extract b1
      rw [hlen] at this
      exact this
    have hrec := ih (pos + l.length + 1) f (fun x hx => hok x (List.mem_cons_of_mem _ hx))
      (by rw [show pos + l.length + 1 = pos + (l.length + 1) by omega]; exact b2) (by simp at hf; omega)
    unfold specWalkU
    simp only [h0, hne, if_false, encLabel_len_toNat hl.2, hl.2, if_true]
    rw [hrec]
    simp only [hex, List.map_cons, List.cons_append]

theorem bytesAt_toArray (d rest : List UInt8) : BytesAt (d ++ rest).toArray 0 d := by
  intro i hi
  simp [List.getElem?_append_left hi]

/-- the spec reads a given uncompressed name off the head of the caller's RDATA -/
theorem takeName_wire (n : WName) (hwf : n.WF) (rest : List UInt8) :
    takeName (n.wire ++ rest) = some (n.wire, rest) := by
  have hb := bytesAt_toArray n.wire rest
  have hlen : n.labels.length < (n.wire ++ rest).toArray.size + 1 := by
    have := flatMap_enc_length_ge n.labels
    rw [List.size_toArray, List.length_append, WName.wire_eq, List.length_append]; omega
  have h255 : n.wire.length ≤ 255 := hwf.2
  unfold takeName specDecodeUncompressed
  rw [specWalkU_labels _ n.labels 0 _ hwf.1 hb hlen]
  simp only [wire_flatten]
  rw [if_pos ⟨h255, by simp, by simp⟩]
  simp

/-! ### questions -/

def specQ (q : QRec) : Question := ⟨q.qname.wire, q.qtype, q.qclass⟩

/-- the question is a value of the Rust types (`Name`, 16-bit type and class) -/
def QRec.Typed (q : QRec) : Prop := q.qname.WF ∧ q.qtype < 65536 ∧ q.qclass < 65536

theorem encQs_cons (q : QRec) (qs : List QRec) :
    encQs (q :: qs) = q.qname.wire ++ u16be q.qtype ++ u16be q.qclass ++ encQs qs := by
  simp [encQs, encQ]

theorem decodeQuestions_enc (msg : Bytes) : ∀ (qs : List QRec) (pos : Nat) (acc : List Question) (a : Acc),
    (∀ q ∈ qs, q.Typed) → BytesAt msg pos (encQs qs) →
    ∃ a', decodeQuestions msg qs.length pos acc a =
      some (pos + (encQs qs).length, acc.reverse ++ qs.map specQ, a') := by
  intro qs
  induction qs with
  | nil => intro pos acc a _ _; exact ⟨a, by simp [decodeQuestions, encQs]⟩
  | cons q qs ih =>
    intro pos acc a ht hb
    obtain ⟨hwf, hty, hcl⟩ := ht q List.mem_cons_self
    rw [encQs_cons] at hb ⊢
    obtain ⟨b123, b4⟩ := bytesAt_append hb
    obtain ⟨b12, b3⟩ := bytesAt_append b123
    obtain ⟨b1, b2⟩ := bytesAt_append b12
    obtain ⟨occ, hocc⟩ := decodeNameAt_wire msg q.qname hwf pos .qname a.item b1
    have hl2 : ∀ x, (u16be x).length = 2 := fun _ => rfl
    have hsz : pos + q.qname.wire.length + 4 ≤ msg.size := by
      have := bytesAt_lt b3 (i := 1) (by simp [hl2])
      simp only [List.length_append, hl2] at this
      omega
    have e1 := be16_of_bytesAt b2 hty
    have e2 : be16 msg (pos + q.qname.wire.length + 2) = q.qclass := by
      have := be16_of_bytesAt b3 hcl
      simpa only [List.length_append, hl2, Nat.add_assoc] using this
    simp only [List.length_append, hl2] at b4
    obtain ⟨a', ha'⟩ := ih (pos + q.qname.wire.length + 4) (⟨q.qname.wire, q.qtype, q.qclass⟩ :: acc)
      { extents := (pos, pos + q.qname.wire.length + 4) :: a.extents, names := occ :: a.names, item := a.item + 1 }
      (fun x hx => ht x (List.mem_cons_of_mem _ hx))
      (by rw [show pos + q.qname.wire.length + 4 = pos + (q.qname.wire.length + 2 + 2) by omega]; exact b4)
    refine ⟨a', ?_⟩
    rw [List.length_cons]
    unfold decodeQuestions
    simp only [hocc]
    rw [if_pos hsz, e1, e2, ha']
    simp only [List.length_append, hl2, List.reverse_cons, List.map_cons, specQ, List.append_assoc,
      List.cons_append, List.nil_append]
    rw [show pos + q.qname.wire.length + 4 + (encQs qs).length =
      pos + (q.qname.wire.length + (2 + (2 + (encQs qs).length))) by omega]

/-! ### RDATA -/

def layToComp : QV.Spec.Message.Lay → CompType
  | .cname => .compressibleName
  | .uname => .uncompressibleName
  | .fixed n => .fixedLen n

/-- **the implementation's RDATA component table is the RFC's**: for every class and type the
    generated `Rdata::components` table lists exactly the fields of RFC 1035 §3.3 / RFC 2782 /
    the Chaosnet A record, with the compressible names being those RFC 3597 §4 allows -/
theorem componentTypes_layout (cls ty : Nat) :
    componentTypes cls ty = some ((layoutOf ty cls).map layToComp) := by
  rw [componentTypes_eq, lookup_arms]
  unfold layoutOf
  by_cases h1 : ty = 2 ∨ ty = 3 ∨ ty = 4 ∨ ty = 5 ∨ ty = 7 ∨ ty = 8 ∨ ty = 9 ∨ ty = 12
  · rw [if_pos h1, if_pos h1]; decide
  rw [if_neg h1, if_neg h1]
  by_cases h3 : ty = 6
  · subst h3; simp only [Nat.reduceEqDiff, false_and, if_false, if_true, true_or]; decide
  by_cases h4 : ty = 14
  · subst h4; simp only [Nat.reduceEqDiff, false_and, if_false, if_true, or_true]; decide
  by_cases h5 : ty = 15
  · subst h5; simp only [Nat.reduceEqDiff, false_and, if_false, if_true, or_self]; decide
  by_cases h6 : ty = 33 ∧ cls = 1
  · obtain ⟨rfl, rfl⟩ := h6; decide
  by_cases h2 : ty = 1 ∧ cls = 3
  · obtain ⟨rfl, rfl⟩ := h2; decide
  simp only [h2, h3, h4, h5, h6, if_false, or_self]; decide


theorem bytesAt_le {msg : Bytes} {pos : Nat} {d : List UInt8} (h : BytesAt msg pos d) (hne : d ≠ []) :
    pos + d.length ≤ msg.size := by
  have hl : 0 < d.length := List.length_pos_iff.mpr hne
  have := bytesAt_lt h (i := d.length - 1) (by omega)
  omega

/-- the decoder's reading of RDATA stored literally = the spec's reading of the RDATA given -/
theorem decodeFields_given (msg : Bytes) (item stop : Nat) : ∀ (lay : List QV.Spec.Message.Lay)
    (rd : List UInt8) (pos : Nat) (fs : List Field) (ns : List NameOcc),
    compsOK (lay.map layToComp) rd = true → BytesAt msg pos rd → stop = pos + rd.length → stop ≤ msg.size →
    ∃ gf ns', givenFields lay rd = some gf ∧
      decodeFields msg item stop lay pos fs ns = some (fs.reverse ++ gf, ns') := by
  intro lay
  induction lay with
  | nil =>
    intro rd pos fs ns _ hb hst _
    refine ⟨[.bytes rd], ns.reverse, rfl, ?_⟩
    unfold decodeFields
    rw [if_pos (by omega), hst, bytesAt_extract hb]
    simp
  | cons l lay ih =>
    intro rd pos fs ns hok hb hst hsz
    cases l with
    | fixed n =>
      simp only [List.map_cons, layToComp, compsOK, Bool.and_eq_true, decide_eq_true_eq] at hok
      obtain ⟨hn, hok'⟩ := hok
      have hsplit : rd = rd.take n ++ rd.drop n := (List.take_append_drop n rd).symm
      have htl : (rd.take n).length = n := by simp; omega
      have hb2 : BytesAt msg pos (rd.take n ++ rd.drop n) := by rw [← hsplit]; exact hb
      obtain ⟨b1, b2⟩ := bytesAt_append hb2
      rw [htl] at b2
      have hex : (msg.extract pos (pos + n)).toList = rd.take n := by
        have := bytesAt_extract b1; rw [htl] at this; exact this
      obtain ⟨gf, ns', hg, hd⟩ := ih (rd.drop n) (pos + n) (.bytes (rd.take n) :: fs) ns hok' b2
        (by rw [hst, List.length_drop]; omega) hsz
      refine ⟨.bytes (rd.take n) :: gf, ns', ?_, ?_⟩
      · unfold givenFields
        rw [if_neg (by omega), hg]; rfl
      · unfold decodeFields
        rw [if_pos (by omega), hex, hd]
        simp
    | cname =>
      simp only [List.map_cons, layToComp, compsOK] at hok
      cases hp : WName.parse rd with
      | none => rw [hp] at hok; cases hok
      | some pr =>
        obtain ⟨n, rest⟩ := pr
        rw [hp] at hok
        simp only [] at hok
        have hc := parse_content hp
        have hwf := parse_wf hp
        subst hc
        obtain ⟨b1, b2⟩ := bytesAt_append hb
        obtain ⟨occ, hocc⟩ := decodeNameAt_wire msg n hwf pos .rdataCompressible item b1
        obtain ⟨gf, ns', hg, hd⟩ := ih rest (pos + n.wire.length) (.name n.wire :: fs) (occ :: ns) hok b2
          (by rw [hst, List.length_append]; omega) hsz
        refine ⟨.name n.wire :: gf, ns', ?_, ?_⟩
        · unfold givenFields
          rw [takeName_wire n hwf rest]
          simp only [hg]; rfl
        · unfold decodeFields
          simp only [hocc]
          rw [if_pos (by rw [hst, List.length_append]; omega), hd]
          simp
    | uname =>
      simp only [List.map_cons, layToComp, compsOK] at hok
      cases hp : WName.parse rd with
      | none => rw [hp] at hok; cases hok
      | some pr =>
        obtain ⟨n, rest⟩ := pr
        rw [hp] at hok
        simp only [] at hok
        have hc := parse_content hp
        have hwf := parse_wf hp
        subst hc
        obtain ⟨b1, b2⟩ := bytesAt_append hb
        obtain ⟨occ, hocc⟩ := decodeNameAt_wire msg n hwf pos .rdataUncompressible item b1
        obtain ⟨gf, ns', hg, hd⟩ := ih rest (pos + n.wire.length) (.name n.wire :: fs) (occ :: ns) hok b2
          (by rw [hst, List.length_append]; omega) hsz
        refine ⟨.name n.wire :: gf, ns', ?_, ?_⟩
        · unfold givenFields
          rw [takeName_wire n hwf rest]
          simp only [hg]; rfl
        · unfold decodeFields
          simp only [hocc]
          rw [if_pos (by rw [hst, List.length_append]; omega), hd]
          simp

/-- RDATA the writer accepts is RDATA the spec can read (its layout is that of the RFC) -/
theorem givenRdata_of_rdataOK (cls ty : Nat) (rd : List UInt8) (hok : rdataOK cls ty rd = true) :
    (givenRdata ty cls rd).isSome = true := by
  unfold rdataOK at hok
  rw [componentTypes_layout] at hok
  simp only [] at hok
  obtain ⟨gf, _, hg, _⟩ := decodeFields_given rd.toArray 0 rd.length (layoutOf ty cls) rd 0 [] [] hok
    (by intro i hi; simp) (by omega) (by simp)
  simp [givenRdata, hg]

theorem decodeRdata_given (msg : Bytes) (item ty cls pos : Nat) (rd : List UInt8)
    (hok : rdataOK cls ty rd = true) (hb : BytesAt msg pos rd) (hsz : pos + rd.length ≤ msg.size) :
    ∃ fs ns, givenRdata ty cls rd = some fs ∧ decodeRdata msg item ty cls pos rd.length = some (fs, ns) := by
  unfold rdataOK at hok
  rw [componentTypes_layout] at hok
  simp only [] at hok
  obtain ⟨gf, ns', hg, hd⟩ := decodeFields_given msg item (pos + rd.length) (layoutOf ty cls) rd pos [] [] hok
    hb rfl hsz
  refine ⟨normFields gf, ns', by simp [givenRdata, hg], ?_⟩
  unfold decodeRdata
  simp only [hd, List.reverse_nil, List.nil_append]


/-! ### records -/

/-- the record is a value of the Rust types (`Name`, 16-bit type and class, 32-bit TTL, `Rdata` of
    at most 65535 octets) and its RDATA is well formed for its type -/
def RRec.Typed (r : RRec) : Prop :=
  r.owner.WF ∧ r.ty < 65536 ∧ r.cls < 65536 ∧ r.ttl < 4294967296 ∧ r.rdata.length < 65536 ∧
  rdataOK r.cls r.ty r.rdata = true

/-- what a record given to the writer means (the spec's own reading of its RDATA) -/
def specR (r : RRec) : Record :=
  ⟨r.owner.wire, r.ty, r.cls, r.ttl, (givenRdata r.ty r.cls r.rdata).getD []⟩

theorem encRRs_cons (r : RRec) (rs : List RRec) :
    encRRs (r :: rs) = r.owner.wire ++ u16be r.ty ++ u16be r.cls ++ u32be r.ttl ++
      u16be (r.rdata.length % 65536) ++ r.rdata ++ encRRs rs := by
  simp [encRRs, encRR]

theorem decodeRecords_enc (msg : Bytes) : ∀ (rs : List RRec) (pos : Nat) (acc : List Record) (a : Acc),
    (∀ r ∈ rs, r.Typed) → BytesAt msg pos (encRRs rs) → pos + (encRRs rs).length ≤ msg.size →
    ∃ a', decodeRecords msg rs.length pos acc a =
      some (pos + (encRRs rs).length, acc.reverse ++ rs.map specR, a') := by
  intro rs
  induction rs with
  | nil => intro pos acc a _ _ _; exact ⟨a, by simp [decodeRecords, encRRs]⟩
  | cons r rs ih =>
    intro pos acc a ht hb hsz
    obtain ⟨hwf, hty, hcl, httl, hrl, hok⟩ := ht r List.mem_cons_self
    rw [encRRs_cons] at hb hsz ⊢
    obtain ⟨b16, b7⟩ := bytesAt_append hb
    obtain ⟨b15, b6⟩ := bytesAt_append b16
    obtain ⟨b14, b5⟩ := bytesAt_append b15
    obtain ⟨b13, b4⟩ := bytesAt_append b14
    obtain ⟨b12, b3⟩ := bytesAt_append b13
    obtain ⟨b1, b2⟩ := bytesAt_append b12
    have hl2 : ∀ x, (u16be x).length = 2 := fun _ => rfl
    have hl4 : ∀ x, (u32be x).length = 4 := fun _ => rfl
    simp only [List.length_append, hl2, hl4] at b3 b4 b5 b6 b7 hsz
    obtain ⟨occ, hocc⟩ := decodeNameAt_wire msg r.owner hwf pos .owner a.item b1
    have e1 := be16_of_bytesAt b2 hty
    have e2 : be16 msg (pos + r.owner.wire.length + 2) = r.cls := be16_of_bytesAt b3 hcl
    have e3 : be32 msg (pos + r.owner.wire.length + 4) = r.ttl := by
      have := be32_of_bytesAt b4 httl
      rw [show pos + (r.owner.wire.length + 2 + 2) = pos + r.owner.wire.length + 4 by omega] at this
      exact this
    have e4 : be16 msg (pos + r.owner.wire.length + 8) = r.rdata.length := by
      have := be16_of_bytesAt b5 (Nat.mod_lt _ (by omega))
      rw [show pos + (r.owner.wire.length + 2 + 2 + 4) = pos + r.owner.wire.length + 8 by omega,
        Nat.mod_eq_of_lt hrl] at this
      exact this
    have b6' : BytesAt msg (pos + r.owner.wire.length + 10) r.rdata := by
      rw [show pos + r.owner.wire.length + 10 = pos + (r.owner.wire.length + 2 + 2 + 4 + 2) by omega]
      exact b6
    obtain ⟨fs, ns, hg, hd⟩ := decodeRdata_given msg a.item r.ty r.cls (pos + r.owner.wire.length + 10) r.rdata
      hok b6' (by omega)
    obtain ⟨a', ha'⟩ := ih (pos + r.owner.wire.length + 10 + r.rdata.length)
      (⟨r.owner.wire, r.ty, r.cls, r.ttl, fs⟩ :: acc)
      { extents := (pos, pos + r.owner.wire.length + 10 + r.rdata.length) :: a.extents,
        names := ns.reverse ++ (occ :: a.names), item := a.item + 1 }
      (fun x hx => ht x (List.mem_cons_of_mem _ hx))
      (by rw [show pos + r.owner.wire.length + 10 + r.rdata.length =
            pos + (r.owner.wire.length + 2 + 2 + 4 + 2 + r.rdata.length) by omega]; exact b7)
      (by omega)
    refine ⟨a', ?_⟩
    rw [List.length_cons]
    unfold decodeRecords
    simp only [hocc]
    rw [if_pos (by omega)]
    simp only [e1, e2, e3, e4]
    rw [if_pos (by omega)]
    simp only [hd]
    rw [ha']
    simp only [List.length_append, hl2, hl4, List.reverse_cons, List.map_cons, specR, hg, Option.getD_some,
      List.append_assoc, List.cons_append, List.nil_append]
    rw [show pos + r.owner.wire.length + 10 + r.rdata.length + (encRRs rs).length =
      pos + (r.owner.wire.length + (2 + (2 + (4 + (2 + (r.rdata.length + (encRRs rs).length)))))) by omega]


/-! ### whole messages -/

/-- RFC 1035 §4.1.1: the header fields held in the first four octets -/
def specHeader (o : Bytes) : Header :=
  { id := be16 o 0, qr := bit (o.getD 2 0) 128, opcode := ((o.getD 2 0).toNat / 8) % 16,
    aa := bit (o.getD 2 0) 4, tc := bit (o.getD 2 0) 2, rd := bit (o.getD 2 0) 1,
    ra := bit (o.getD 3 0) 128, z := ((o.getD 3 0).toNat / 16) % 8, rcode := (o.getD 3 0).toNat % 16 }

/-- **the RFC 1035 decoder reads back a canonically encoded message** -/
theorem specDecodeMsg_enc (msg : Bytes) (qs : List QRec) (an ns ar : List RRec)
    (hq : ∀ q ∈ qs, q.Typed) (han : ∀ r ∈ an, r.Typed) (hns : ∀ r ∈ ns, r.Typed) (har : ∀ r ∈ ar, r.Typed)
    (cq : qs.length < 65536) (can : an.length < 65536) (cns : ns.length < 65536) (car : ar.length < 65536)
    (hc : BytesAt msg 4 (u16be qs.length ++ u16be an.length ++ u16be ns.length ++ u16be ar.length))
    (hb : BytesAt msg 12 (encQs qs ++ encRRs an ++ encRRs ns ++ encRRs ar))
    (hsz : msg.size = 12 + (encQs qs ++ encRRs an ++ encRRs ns ++ encRRs ar).length) :
    ∃ d, specDecodeMsg msg = some d ∧
      d.msg = ⟨specHeader msg, qs.map specQ, an.map specR, ns.map specR, ar.map specR⟩ := by
  have hl2 : ∀ x, (u16be x).length = 2 := fun _ => rfl
  obtain ⟨c123, c4⟩ := bytesAt_append hc
  obtain ⟨c12, c3⟩ := bytesAt_append c123
  obtain ⟨c1, c2⟩ := bytesAt_append c12
  simp only [List.length_append, hl2] at c2 c3 c4
  have e1 := be16_of_bytesAt c1 cq
  have e2 : be16 msg 6 = an.length := be16_of_bytesAt c2 can
  have e3 : be16 msg 8 = ns.length := be16_of_bytesAt c3 cns
  have e4 : be16 msg 10 = ar.length := be16_of_bytesAt c4 car
  obtain ⟨b123, b4⟩ := bytesAt_append hb
  obtain ⟨b12, b3⟩ := bytesAt_append b123
  obtain ⟨b1, b2⟩ := bytesAt_append b12
  simp only [List.length_append] at b3 b4 hsz
  obtain ⟨a1, h1⟩ := decodeQuestions_enc msg qs 12 [] {} hq b1
  obtain ⟨a2, h2⟩ := decodeRecords_enc msg an (12 + (encQs qs).length) [] a1 han b2 (by omega)
  obtain ⟨a3, h3⟩ := decodeRecords_enc msg ns (12 + (encQs qs).length + (encRRs an).length) [] a2 hns
    (by rw [Nat.add_assoc]; exact b3) (by omega)
  obtain ⟨a4, h4⟩ := decodeRecords_enc msg ar
    (12 + (encQs qs).length + (encRRs an).length + (encRRs ns).length) [] a3 har
    (by rw [Nat.add_assoc, Nat.add_assoc, ← Nat.add_assoc (encQs qs).length]; exact b4) (by omega)
  unfold specDecodeMsg
  rw [if_neg (by omega)]
  simp only [e1, e2, e3, e4, h1, h2, h3, h4]
  rw [if_pos (by omega)]
  exact ⟨_, rfl, by simp [specHeader]⟩

end QV.Writer
