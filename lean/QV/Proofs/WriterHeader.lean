/-
  QV.Proofs.WriterHeader — C12 (d), header part: what every call does to the header fields of
  RFC 1035 §4.1.1 (as the specification's decoder reads them off the first four octets). Bit
  manipulation facts are proved by exhaustion over the 256 octet values.
-/
import QV.Proofs.WriterRefine
namespace QV.Writer
open QV QV.Wire QV.Spec QV.Spec.Message QV.ServerSafety

/-! ### header octets → header fields (RFC 1035 §4.1.1) -/

/-- the fields held in the third header octet: QR, OPCODE, AA, TC, RD -/
def byte2 (o : UInt8) : Bool × Nat × Bool × Bool × Bool :=
  (bit o 128, o.toNat / 8 % 16, bit o 4, bit o 2, bit o 1)

/-- the fields held in the fourth header octet: RA, Z, RCODE -/
def byte3 (o : UInt8) : Bool × Nat × Nat := (bit o 128, o.toNat / 16 % 8, o.toNat % 16)

def mkHeader (id : Nat) (b2 : Bool × Nat × Bool × Bool × Bool) (b3 : Bool × Nat × Nat) : Header :=
  { id := id, qr := b2.1, opcode := b2.2.1, aa := b2.2.2.1, tc := b2.2.2.2.1, rd := b2.2.2.2.2,
    ra := b3.1, z := b3.2.1, rcode := b3.2.2 }

theorem specHeader_eq (o : Bytes) :
    specHeader o = mkHeader (be16 o 0) (byte2 (o.getD 2 0)) (byte3 (o.getD 3 0)) := rfl

theorem u8_all (P : UInt8 → Prop) (h : ∀ n : Fin 256, P (UInt8.ofNat n.val)) : ∀ o : UInt8, P o := by
  intro o
  have := h ⟨o.toNat, o.toNat_lt⟩
  simpa using this

set_option maxRecDepth 100000 in
theorem byte2_qr : ∀ o : UInt8,
    byte2 (o ||| UInt8.ofNat Gen.QR_MASK) = (true, (byte2 o).2) ∧
    byte2 (o &&& ~~~ UInt8.ofNat Gen.QR_MASK) = (false, (byte2 o).2) := by
  apply u8_all; decide

set_option maxRecDepth 100000 in
theorem byte2_aa : ∀ o : UInt8,
    byte2 (o ||| UInt8.ofNat Gen.AA_MASK) = ((byte2 o).1, (byte2 o).2.1, true, (byte2 o).2.2.2) ∧
    byte2 (o &&& ~~~ UInt8.ofNat Gen.AA_MASK) = ((byte2 o).1, (byte2 o).2.1, false, (byte2 o).2.2.2) := by
  apply u8_all; decide

set_option maxRecDepth 100000 in
theorem byte2_tc : ∀ o : UInt8,
    byte2 (o ||| UInt8.ofNat Gen.TC_MASK) = ((byte2 o).1, (byte2 o).2.1, (byte2 o).2.2.1, true, (byte2 o).2.2.2.2) ∧
    byte2 (o &&& ~~~ UInt8.ofNat Gen.TC_MASK) = ((byte2 o).1, (byte2 o).2.1, (byte2 o).2.2.1, false, (byte2 o).2.2.2.2) := by
  apply u8_all; decide

set_option maxRecDepth 100000 in
theorem byte2_rd : ∀ o : UInt8,
    byte2 (o ||| UInt8.ofNat Gen.RD_MASK) = ((byte2 o).1, (byte2 o).2.1, (byte2 o).2.2.1, (byte2 o).2.2.2.1, true) ∧
    byte2 (o &&& ~~~ UInt8.ofNat Gen.RD_MASK) = ((byte2 o).1, (byte2 o).2.1, (byte2 o).2.2.1, (byte2 o).2.2.2.1, false) := by
  apply u8_all; decide

set_option maxRecDepth 100000 in
theorem byte2_opcode : ∀ o : UInt8, ∀ v : Fin 16,
    byte2 ((o &&& ~~~ UInt8.ofNat Gen.OPCODE_MASK) ||| (UInt8.ofNat v.val <<< UInt8.ofNat Gen.OPCODE_SHIFT)) =
      ((byte2 o).1, v.val, (byte2 o).2.2) := by
  apply u8_all; decide

set_option maxRecDepth 100000 in
theorem byte3_ra : ∀ o : UInt8,
    byte3 (o ||| UInt8.ofNat Gen.RA_MASK) = (true, (byte3 o).2) ∧
    byte3 (o &&& ~~~ UInt8.ofNat Gen.RA_MASK) = (false, (byte3 o).2) := by
  apply u8_all; decide

set_option maxRecDepth 100000 in
theorem byte3_rcode : ∀ o : UInt8, ∀ v : Fin 16,
    byte3 ((o &&& ~~~ UInt8.ofNat Gen.RCODE_MASK) ||| UInt8.ofNat v.val) = ((byte3 o).1, (byte3 o).2.1, v.val) := by
  apply u8_all; decide

set_option maxRecDepth 100000 in
theorem and_rcode_mask : ∀ r : UInt8, r &&& UInt8.ofNat Gen.RCODE_MASK = UInt8.ofNat (r.toNat % 16) := by
  apply u8_all; decide


/-! ### the header octets under the calls -/

theorem getD_of_getElem? {o o' : Bytes} {i : Nat} (h : o'[i]? = o[i]?) : o'.getD i 0 = o.getD i 0 := by
  rw [Array.getD_eq_getD_getElem?, Array.getD_eq_getD_getElem?, h]

/-- the first four octets are unchanged -/
def Hdr4 (o o' : Bytes) : Prop := ∀ i, i < 4 → o'[i]? = o[i]?

theorem specHeader_hdr4 {o o' : Bytes} (h : Hdr4 o o') : specHeader o' = specHeader o := by
  simp only [specHeader, be16, getD_of_getElem? (h 0 (by omega)), getD_of_getElem? (h 1 (by omega)),
    getD_of_getElem? (h 2 (by omega)), getD_of_getElem? (h 3 (by omega))]

theorem getD_set (o : Bytes) (i j : Nat) (h : i < o.size) (v : UInt8) :
    (o.set i v h).getD j 0 = if i = j then v else o.getD j 0 := by
  rw [Array.getD_eq_getD_getElem?, Array.getD_eq_getD_getElem?, Array.getElem?_set]
  split <;> simp_all

theorem setHdr_ok (i : Nat) (f : UInt8 → UInt8) (s : State) (h : i < s.octets.size) :
    setHdr i f s = (.ok (), { s with octets := s.octets.set i (f (s.octets.getD i 0)) h }) := by
  unfold setHdr
  rw [dif_pos h]
  simp [Array.getD, h]

theorem specHeader_set2 (o : Bytes) (h : 2 < o.size) (v : UInt8) :
    specHeader (o.set 2 v h) = mkHeader (be16 o 0) (byte2 v) (byte3 (o.getD 3 0)) := by
  rw [specHeader_eq]
  simp only [be16, getD_set]
  simp

theorem specHeader_set3 (o : Bytes) (h : 3 < o.size) (v : UInt8) :
    specHeader (o.set 3 v h) = mkHeader (be16 o 0) (byte2 (o.getD 2 0)) (byte3 v) := by
  rw [specHeader_eq]
  simp only [be16, getD_set]
  simp


/-- the effect of a successful call on the header (RFC 1035 §4.1.1) -/
def hdrStep (h : Header) : Op → Header
  | .setId v => { h with id := v }
  | .setQr b => { h with qr := b }
  | .setAa b => { h with aa := b }
  | .setTc b => { h with tc := b }
  | .setRd b => { h with rd := b }
  | .setRa b => { h with ra := b }
  | .setOpcode v => { h with opcode := v }
  | .setRcode v => { h with rcode := v }
  | .setExtendedRcode v => { h with rcode := v % 16 }
  | _ => h

theorem hdr4_of_pre {s s' : State} (hc : 12 ≤ s.cursor) (h : ∀ i, i < s.cursor → s'.octets[i]? = s.octets[i]?) :
    Hdr4 s.octets s'.octets := fun i hi => h i (by omega)

/-- a writer re-created from the template of `s` holds the octets of `s` -/
theorem template_pre {s s' : State} {t : Template} (hi : Inv s) (buf : Bytes) (ts : Option Tsig)
    (ht : intoTemplate s = .ok t) (h' : tryFromTemplateImpl buf t ts = .ok s') :
    ∀ i, i < s.cursor → s'.octets[i]? = s.octets[i]? := by
  have h1 := hi.hdr; have h2 := hi.cur_av; have h3 := hi.av_lim; have h4 := hi.lim_size
  unfold intoTemplate at ht
  rw [if_neg (by omega), if_neg (by omega)] at ht
  cases ht
  unfold tryFromTemplateImpl at h'
  simp only [extract_toList_length _ _ (show s.cursor ≤ s.octets.size by omega)] at h'
  split at h'
  · cases h'
  · split at h'
    · cases h'
    · rename_i g1 g2
      cases h'
      intro i hi'
      have := writeAt_get_in buf 0 (List.take s.cursor s.octets.toList) i (by simp; omega) (by simp; omega)
      simp only [Nat.zero_add] at this
      simp only [Array.toList_extract, List.extract_eq_take_drop, Nat.sub_zero, List.drop_zero]
      rw [this, List.getElem?_take]
      simp [hi']


theorem hdr_setHdr2 (s : State) (f : UInt8 → UInt8) (h : 2 < s.octets.size) :
    specHeader (setHdr 2 f s).2.octets =
      mkHeader (be16 s.octets 0) (byte2 (f (s.octets.getD 2 0))) (byte3 (s.octets.getD 3 0)) := by
  rw [setHdr_ok 2 f s h]
  exact specHeader_set2 s.octets h _

theorem hdr_setHdr3 (s : State) (f : UInt8 → UInt8) (h : 3 < s.octets.size) :
    specHeader (setHdr 3 f s).2.octets =
      mkHeader (be16 s.octets 0) (byte2 (s.octets.getD 2 0)) (byte3 (f (s.octets.getD 3 0))) := by
  rw [setHdr_ok 3 f s h]
  exact specHeader_set3 s.octets h _

theorem liftW_w (ss : Session) (f : M Unit) : (liftW ss f).2.w = (f ss.w).2 := by
  unfold liftW
  cases f ss.w with
  | mk r s1 => rfl

theorem liftW_fst (ss : Session) (f : M Unit) : (liftW ss f).1 = (f ss.w).1 := by
  unfold liftW
  cases f ss.w with
  | mk r s1 => rfl


theorem setRcode_octets (v : Nat) (s : State) (h : 3 < s.octets.size) :
    (setRcode v s).2.octets =
      (setHdr Gen.RCODE_BYTE (fun b => (b &&& ~~~ (UInt8.ofNat Gen.RCODE_MASK)) ||| UInt8.ofNat v) s).2.octets := by
  unfold setRcode
  simp only [M.bind_apply]
  rw [setHdr_ok Gen.RCODE_BYTE _ s h]
  simp only [M.modify_apply]
  split <;> rfl

theorem setLimit_octets (v : Nat) (s : State) : (setLimit v s).2.octets = s.octets := by
  unfold setLimit
  repeat' (first | rfl | split | dsimp only)

theorem setEdns_octets (p : Nat) (s : State) : (setEdns p s).2.octets = s.octets := by
  unfold setEdns
  repeat' split
  all_goals rfl

theorem setTsig_octets (m : TsigMode) (rr : TsigRr) (s : State) : (setTsig m rr s).2.octets = s.octets := by
  unfold setTsig
  repeat' split
  all_goals rfl

theorem updateTimeSigned_octets (t : List UInt8) (s : State) : (updateTimeSigned t s).2.octets = s.octets := by
  unfold updateTimeSigned
  split <;> rfl

theorem setCount_octets (sec : RrSection) (n : Nat) (s : State) : (setCount sec n s).2.octets = s.octets := by
  cases sec <;> rfl

theorem hdr_retemplate (ss : Session) (n : Nat) (fill : UInt8) (mk : Bytes → Template → Out WriterErr State)
    (hmk : MkOK mk) (hi : Inv ss.w) (hok : (retemplate ss n fill mk).1 = .ok ()) :
    specHeader (retemplate ss n fill mk).2.w.octets = specHeader ss.w.octets := by
  obtain ⟨t, ht⟩ := intoTemplate_ok hi
  obtain ⟨sf, hsf⟩ := tryFromTemplate_fallback_ok fill hi ht
  unfold retemplate at hok ⊢
  rw [ht] at hok ⊢
  simp only [] at hok ⊢
  cases hm : mk (Array.replicate n fill) t with
  | ok s' =>
    simp only []
    obtain ⟨ts, h1, _⟩ := hmk.1 _ _ _ hm
    exact specHeader_hdr4 (hdr4_of_pre hi.hdr (template_pre hi _ ts ht h1))
  | err e => rw [hm] at hok; simp only [] at hok; rw [hsf] at hok; cases hok
  | panic => rw [hm] at hok; simp only [] at hok; rw [hsf] at hok; cases hok

/-- **every call does to the header exactly what it says**: the header setters set their field
    and nothing else; every other call, and every failed call, leaves the header alone -/
theorem hdr_step (ss : Session) (op : Op) (hi : Inv ss.w) (ht : op.Typed) (hnp : (step ss op).1 ≠ .panic) :
    specHeader (step ss op).2.w.octets =
      if (step ss op).1 = .ok () then hdrStep (specHeader ss.w.octets) op else specHeader ss.w.octets := by
  have h12 := hi.hdr
  have hsz : 12 ≤ ss.w.octets.size := by
    have := hi.cur_av; have := hi.av_lim; have := hi.lim_size; omega
  by_cases herr : ∃ e, (step ss op).1 = .err e
  · obtain ⟨e, he⟩ := herr
    rw [he]
    simp only [reduceCtorEq, if_false]
    exact specHeader_hdr4 (hdr4_of_pre h12 (step_err_same ss op hi e he).pre)
  have hok : (step ss op).1 = .ok () := by
    cases hr : (step ss op).1 with
    | ok u => rfl
    | err e => exact absurd ⟨e, hr⟩ herr
    | panic => exact absurd hr hnp
  rw [hok]
  simp only [if_true]
  have same : ∀ {f : M Unit}, (∀ s, (f s).2.octets = s.octets) →
      specHeader (liftW ss f).2.w.octets = specHeader ss.w.octets := by
    intro f hf
    rw [liftW_w, hf]
  cases op with
  | setId v =>
    simp only [step]
    rw [liftW_w]
    unfold setId write
    show specHeader (if 0 + (u16be v).length ≤ ss.w.octets.size then
      ((Out.ok () : Out WriterErr Unit), { ss.w with octets := writeAt ss.w.octets 0 (u16be v) }) else (.panic, ss.w)).2.octets = _
    rw [if_pos (by show 0 + 2 ≤ _; omega)]
    simp only [hdrStep]
    rw [specHeader_eq, specHeader_eq]
    have hb := bytesAt_writeAt ss.w.octets 0 (u16be v) (by show 0 + 2 ≤ _; omega)
    rw [be16_of_bytesAt hb ht,
      getD_of_getElem? (writeAt_get_ge ss.w.octets 0 (u16be v) 2 (by show 0 + 2 ≤ 2; omega)),
      getD_of_getElem? (writeAt_get_ge ss.w.octets 0 (u16be v) 3 (by show 0 + 2 ≤ 3; omega))]
    simp only [mkHeader]
  | setQr b =>
    simp only [step]
    rw [liftW_w]
    unfold setQr setBit
    show specHeader (setHdr 2 _ ss.w).2.octets = _
    rw [hdr_setHdr2 _ _ (by omega), specHeader_eq]
    cases b
    · simp only [Bool.false_eq_true, if_false]; rw [(byte2_qr _).2]; simp only [hdrStep, mkHeader]
    · simp only [if_true]; rw [(byte2_qr _).1]; simp only [hdrStep, mkHeader]
  | setAa b =>
    simp only [step]
    rw [liftW_w]
    unfold setAa setBit
    show specHeader (setHdr 2 _ ss.w).2.octets = _
    rw [hdr_setHdr2 _ _ (by omega), specHeader_eq]
    cases b
    · simp only [Bool.false_eq_true, if_false]; rw [(byte2_aa _).2]; simp only [hdrStep, mkHeader]
    · simp only [if_true]; rw [(byte2_aa _).1]; simp only [hdrStep, mkHeader]
  | setTc b =>
    simp only [step]
    rw [liftW_w]
    unfold setTc setBit
    show specHeader (setHdr 2 _ ss.w).2.octets = _
    rw [hdr_setHdr2 _ _ (by omega), specHeader_eq]
    cases b
    · simp only [Bool.false_eq_true, if_false]; rw [(byte2_tc _).2]; simp only [hdrStep, mkHeader]
    · simp only [if_true]; rw [(byte2_tc _).1]; simp only [hdrStep, mkHeader]
  | setRd b =>
    simp only [step]
    rw [liftW_w]
    unfold setRd setBit
    show specHeader (setHdr 2 _ ss.w).2.octets = _
    rw [hdr_setHdr2 _ _ (by omega), specHeader_eq]
    cases b
    · simp only [Bool.false_eq_true, if_false]; rw [(byte2_rd _).2]; simp only [hdrStep, mkHeader]
    · simp only [if_true]; rw [(byte2_rd _).1]; simp only [hdrStep, mkHeader]
  | setRa b =>
    simp only [step]
    rw [liftW_w]
    unfold setRa setBit
    show specHeader (setHdr 3 _ ss.w).2.octets = _
    rw [hdr_setHdr3 _ _ (by omega), specHeader_eq]
    cases b
    · simp only [Bool.false_eq_true, if_false]; rw [(byte3_ra _).2]; simp only [hdrStep, mkHeader]
    · simp only [if_true]; rw [(byte3_ra _).1]; simp only [hdrStep, mkHeader]
  | setOpcode v =>
    simp only [step]
    rw [liftW_w]
    unfold setOpcode
    show specHeader (setHdr 2 _ ss.w).2.octets = _
    rw [hdr_setHdr2 _ _ (by omega), specHeader_eq]
    have := byte2_opcode (ss.w.octets.getD 2 0) ⟨v, ht⟩
    simp only [] at this
    rw [this]; simp only [hdrStep, mkHeader]
  | setRcode v =>
    simp only [step]
    rw [liftW_w, setRcode_octets v ss.w (by omega)]
    show specHeader (setHdr 3 _ ss.w).2.octets = _
    rw [hdr_setHdr3 _ _ (by omega), specHeader_eq]
    have := byte3_rcode (ss.w.octets.getD 3 0) ⟨v, ht⟩
    simp only [] at this
    rw [this]; simp only [hdrStep, mkHeader]
  | setExtendedRcode v =>
    simp only [step] at hok ⊢
    rw [liftW_fst] at hok
    rw [liftW_w]
    unfold setExtendedRcode at hok ⊢
    simp only [M.bind_apply, M.gets_apply] at hok ⊢
    cases he : ss.w.edns with
    | none => rw [he] at hok; cases hok
    | some e =>
      rw [he] at hok
      simp only [] at hok ⊢
      by_cases hv : v > 4095
      · rw [if_pos hv] at hok; cases hok
      rw [if_neg hv]
      simp only [M.bind_apply]
      rw [setHdr_ok Gen.RCODE_BYTE _ ss.w (by show 3 < _; omega)]
      simp only [M.modify_apply]
      refine Eq.trans (specHeader_set3 ss.w.octets (by omega) _) ?_
      rw [specHeader_eq, and_rcode_mask, UInt8.toNat_ofNat']
      have hlt : v % 256 % 256 % 16 < 16 := by omega
      have := byte3_rcode (ss.w.octets.getD 3 0) ⟨v % 256 % 256 % 16, hlt⟩
      simp only [] at this
      rw [show Gen.RCODE_BYTE = 3 from rfl, this]
      simp only [hdrStep, mkHeader]
      congr 1
      omega
  | setLimit v => simp only [step]; rw [liftW_w, setLimit_octets]; rfl
  | setMode m => rfl
  | addQuestion n t c =>
    simp only [step] at hok ⊢
    rw [liftW_fst] at hok
    rw [liftW_w]
    cases hq : addQuestion n t c ss.w with
    | mk r s1 =>
      rw [hq] at hok
      simp only at hok
      subst hok
      obtain ⟨s3, _, hb, hs'⟩ := addQuestion_ok_inv n t c ss.w s1 hq
      have e := frame_addQuestionBody n t c ss.w
      rw [hb] at e
      subst hs'
      exact specHeader_hdr4 (hdr4_of_pre h12 e.pre)
  | addRr sec hn o ty cls ttl rd hv =>
    simp only [step] at hok ⊢
    rw [withHv_fst] at hok
    rw [withHv_w]
    cases hq : addRrOp sec (resolveHint ss.hvs hn) o ty cls ttl rd { ss.w with hv := hv.map (hvGet ss.hvs) } with
    | mk r s1 =>
      rw [hq] at hok
      simp only at hok
      subst hok
      obtain ⟨s2, s3, h1, h2, _, hs'⟩ := addRrOp_ok_inv sec _ o ty cls ttl rd _ s1 hq
      have e1 := frame_changeSection sec { ss.w with hv := hv.map (hvGet ss.hvs) }
      rw [h1] at e1
      have e2 := frame_addRr (resolveHint ss.hvs hn) o ty cls (ttlFrom ttl) rd s2
      rw [h2] at e2
      have e := Ext.trans e1 e2
      subst hs'
      show specHeader (setCount sec _ s3).2.octets = _
      rw [setCount_octets]
      exact specHeader_hdr4 (hdr4_of_pre (s := { ss.w with hv := hv.map (hvGet ss.hvs) }) h12 e.pre)
  | addRrset sec hn o ty cls ttl rds hv =>
    simp only [step] at hok ⊢
    rw [withHv_fst] at hok
    rw [withHv_w]
    cases hq : addRrsetOp sec (resolveHint ss.hvs hn) o ty cls ttl rds { ss.w with hv := hv.map (hvGet ss.hvs) } with
    | mk r s1 =>
      rw [hq] at hok
      simp only at hok
      subst hok
      obtain ⟨s2, s3, n, h1, h2, _, hs'⟩ := addRrsetOp_ok_inv sec _ o ty cls ttl rds _ s1 hq
      have e1 := frame_changeSection sec { ss.w with hv := hv.map (hvGet ss.hvs) }
      rw [h1] at e1
      have e2 := frame_addRrset (resolveHint ss.hvs hn) o ty cls (ttlFrom ttl) rds 0 s2
      rw [h2] at e2
      have e := Ext.trans e1 e2
      subst hs'
      show specHeader (setCount sec _ s3).2.octets = _
      rw [setCount_octets]
      exact specHeader_hdr4 (hdr4_of_pre (s := { ss.w with hv := hv.map (hvGet ss.hvs) }) h12 e.pre)
  | clearRrs => rfl
  | setEdns p => simp only [step]; rw [liftW_w, setEdns_octets]; rfl
  | setTsig m rr => simp only [step]; rw [liftW_w, setTsig_octets]; rfl
  | updateTimeSigned t => simp only [step]; rw [liftW_w, updateTimeSigned_octets]; rfl
  | template n fill => exact hdr_retemplate ss n fill _ mkOK_tryFromTemplate hi hok
  | templateSubsequent n fill mac => exact hdr_retemplate ss n fill _ (mkOK_subsequent mac) hi hok
  | getters => rfl


/-- the header after a sequence of calls with the given outcomes -/
def hdrRun (h : Header) : List Op → List (Out WriterErr Unit) → Header
  | op :: ops, r :: rs => hdrRun (if r = .ok () then hdrStep h op else h) ops rs
  | _, _ => h

/-- **for all sequences of calls** that do not panic: the header held in the buffer is the one
    built up by the header setters that succeeded, in order -/
theorem hdr_run (ss : Session) (ops : List Op) (hi : Inv ss.w) (ht : ∀ op ∈ ops, op.Typed)
    (hnp : ∀ r ∈ (run ss ops).2, r ≠ .panic) :
    specHeader (run ss ops).1.w.octets = hdrRun (specHeader ss.w.octets) ops (run ss ops).2 := by
  induction ops generalizing ss with
  | nil => rfl
  | cons op ops ih =>
    unfold run at hnp ⊢
    have hstep := hdr_step ss op hi (ht op List.mem_cons_self)
    have hinv := step_inv ss op hi
    cases hs : step ss op with
    | mk r ss' =>
      rw [hs] at hstep hinv hnp
      cases r with
      | panic => exact absurd rfl (hnp _ (by simp))
      | ok u =>
        simp only [] at hnp ⊢
        have h' := hstep (by simp)
        cases hrun : run ss' ops with
        | mk ss'' rs =>
          rw [hrun] at hnp
          have := ih ss' hinv (fun o ho => ht o (List.mem_cons_of_mem _ ho))
            (by rw [hrun]; exact fun r hr => hnp r (List.mem_cons_of_mem _ hr))
          rw [hrun] at this
          simp only [hdrRun, if_true]
          rw [this, h']
          simp
      | err e =>
        simp only [] at hnp ⊢
        have h' := hstep (by simp)
        cases hrun : run ss' ops with
        | mk ss'' rs =>
          rw [hrun] at hnp
          have := ih ss' hinv (fun o ho => ht o (List.mem_cons_of_mem _ ho))
            (by rw [hrun]; exact fun r hr => hnp r (List.mem_cons_of_mem _ hr))
          rw [hrun] at this
          have hne : (Out.err e : Out WriterErr Unit) ≠ .ok () := by simp
          simp only [hdrRun, if_neg hne]
          rw [this, h']
          simp

/-- a new writer has the all-zero header -/
theorem hdr_new (buf : Bytes) (limit : Nat) (s : State) (h : Writer.new buf limit = .ok s) :
    specHeader s.octets = ⟨0, false, 0, false, false, false, false, 0, 0⟩ := by
  unfold Writer.new at h
  dsimp only at h
  split at h
  · cases h
  · rename_i hl
    have hs := congrArg State.octets (Out.ok.inj h)
    simp only at hs
    have h12 : Gen.HEADER_SIZE = 12 := rfl
    have hsz : 12 ≤ buf.size := by omega
    have hb := bytesAt_writeAt buf 0 (List.replicate Gen.HEADER_SIZE 0) (by simp; omega)
    have g : ∀ i, i < 12 → (zeroHeader buf).getD i 0 = 0 := by
      intro i hi
      have := bytesAt_getD hb (i := i) (by simp; omega)
      rw [Nat.zero_add] at this
      unfold zeroHeader
      rw [this]; simp
    rw [← hs]
    simp only [specHeader, be16, g 0 (by omega), g 1 (by omega), g 2 (by omega), g 3 (by omega)]
    decide

end QV.Writer
