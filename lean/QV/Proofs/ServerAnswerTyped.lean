/-
  QV.Proofs.ServerAnswerTyped — the records the answering logic hands to the writer have 16-bit TYPEs,
  provided the question's QTYPE and the zone's RRsets do (the API's `Type` is a `u16`; the model's
  types are naturals).  The same pass as Proofs/ServerAnswerHdrLog.lean with another predicate; needed
  by the decoder congruence of C10 row 3 (a record of type 65536 + 2 is written opaque but decoded as
  type 2).
-/
import QV.Proofs.ServerAnswerHdrLog
import QV.Proofs.ServerAnswerContent

namespace QV.ServerAnswer
open QV QV.Writer QV.Server QV.Zone QV.ServerSafety

/-- a logged `add_*` call has a 16-bit TYPE -/
def TyEv (e : Ev) : Prop := ∀ a, e = .add a → a.ty < 65536

theorem tyEv_hdr {e : Ev} (h : ∀ a, e ≠ .add a) : TyEv e := fun a ha => absurd ha (h a)

theorem LogsY.setAa (b : Bool) : Logs (PM.setAa b) TyEv (fun _ => True) :=
  Logs.hdrOp _ _ _ (tyEv_hdr (by simp)) (tyEv_hdr (by simp))

theorem LogsY.setRcode (v : Nat) : Logs (PM.setRcode v) TyEv (fun _ => True) :=
  Logs.hdrOp _ _ _ (tyEv_hdr (by simp)) (tyEv_hdr (by simp))

theorem LogsY.addRrs (opt : Bool) (sec : RrSection) (hint : Hint) (owner : WName) (ty cls ttl : Nat)
    (rds : List (List UInt8)) (h : ty < 65536) :
    Logs (PM.addRrs opt sec hint owner ty cls ttl rds) TyEv (fun _ => True) :=
  Logs.addRrs opt sec hint owner ty cls ttl rds TyEv (fun r a ha => by cases ha; exact h)

theorem LogsY.addRr1 (sec : RrSection) (hint : Hint) (owner : WName) (ty cls ttl : Nat) (rd : List UInt8)
    (h : ty < 65536) : Logs (PM.addRr1 sec hint owner ty cls ttl rd) TyEv (fun _ => True) := by
  unfold PM.addRr1
  exact Logs.bind (Logs.addCall _ _ TyEv (fun r a ha => by cases ha; exact h))
    (fun _ _ => Logs.weaken (Logs.pure () _) (fun _ h => h) (fun _ _ => True.intro))

theorem logsY_pure {α} (a : α) : Logs (Pure.pure a : PM α) TyEv (fun _ => True) :=
  Logs.weaken (Logs.pure a _) (fun _ h => h) (fun _ _ => True.intro)

theorem LogsY.readName (rd : List UInt8) (start : Nat) : Logs (readNameFromRdata rd start) TyEv (fun _ => True) :=
  Logs.readName rd start TyEv

theorem LogsY.aaaaPart (z : Zone.Zone) (hint : Hint) (owner : WName) (opt : Bool) (aaaa : Option Rrset) :
    Logs (Server.addAaaa z hint owner opt aaaa) TyEv (fun _ => True) := by
  unfold Server.addAaaa
  split
  · cases aaaa with
    | none => exact logsY_pure ()
    | some r =>
      exact Logs.bind (LogsY.addRrs opt .additional hint owner _ _ _ _ (by decide)) (fun _ _ => logsY_pure ())
  · exact logsY_pure ()

theorem LogsY.addrs (z : Zone.Zone) (hint : Hint) (owner : WName) (sbc opt : Bool) :
    Logs (addAdditionalAddresses z hint owner sbc opt) TyEv (fun _ => True) := by
  unfold addAdditionalAddresses
  split
  · next a aaaa sos _ =>
    cases a with
    | none => exact LogsY.aaaaPart z hint owner opt aaaa
    | some r =>
      refine Logs.bind (LogsY.addRrs opt .additional hint owner _ _ _ _ (by decide)) (fun o _ => ?_)
      cases o with
      | none => exact logsY_pure ()
      | some x => exact LogsY.aaaaPart z _ owner opt aaaa
  · exact logsY_pure ()
  · exact logsY_pure ()
  · exact Logs.panic _ _

theorem LogsY.additionalLoop (z : Zone.Zone) (start : Nat) (hv : Option HV) (rds : List (List UInt8)) (idx : Nat) :
    Logs (Server.additionalLoop z start hv rds idx) TyEv (fun _ => True) := by
  induction rds generalizing idx with
  | nil => unfold Server.additionalLoop; exact logsY_pure ()
  | cons rd rest ih =>
    unfold Server.additionalLoop
    exact Logs.bind (LogsY.readName rd start) (fun n _ =>
      Logs.bind (LogsY.addrs z _ n false true) (fun _ _ => ih (idx + 1)))

theorem LogsY.additionalProcessing (z : Zone.Zone) (t : Nat) (s : Rrset) (hv : Option HV) :
    Logs (doAdditionalSectionProcessing z t s hv) TyEv (fun _ => True) := by
  unfold doAdditionalSectionProcessing
  split
  · exact logsY_pure ()
  · split
    · exact LogsY.additionalLoop z 0 hv s.rdatas 0
    · split
      · exact LogsY.additionalLoop z 2 hv s.rdatas 0
      · split
        · exact LogsY.additionalLoop z 6 hv s.rdatas 0
        · exact logsY_pure ()

theorem LogsY.readSoaMinimum (rd : List UInt8) : Logs (Server.readSoaMinimum rd) TyEv (fun _ => True) := by
  unfold Server.readSoaMinimum
  have hf : ∀ {α}, Logs (PM.fail .servFail : PM α) TyEv (fun _ => True) := fun {α} => Logs.fail _ _ _
  split
  · split
    · split
      · exact hf
      · dsimp only
        split
        · exact logsY_pure _
        · exact hf
    · exact hf
  · exact hf

theorem LogsY.negativeSoa (z : Zone.Zone) : Logs (addNegativeCachingSoa z) TyEv (fun _ => True) := by
  unfold addNegativeCachingSoa
  split
  · exact Logs.fail _ _ _
  · split
    · exact Logs.fail _ _ _
    · exact Logs.bind (LogsY.readSoaMinimum _) (fun m _ => LogsY.addRr1 .authority _ _ _ _ _ _ (by first | assumption | decide))

theorem LogsY.classifyNs (child : WName) (rds : List (List UInt8)) (idx : Nat) :
    Logs (Server.classifyNs child rds idx) TyEv (fun _ => True) :=
  Logs.weaken (Logs.classifyNs child rds idx TyEv) (fun _ h => h) (fun _ _ => True.intro)

theorem LogsY.glueLoop (z : Zone.Zone) (hv : HV) (opt : Bool) (l : List (Nat × WName)) :
    Logs (Server.glueLoop z hv opt l) TyEv (fun _ => True) := by
  induction l with
  | nil => unfold Server.glueLoop; exact logsY_pure ()
  | cons p rest ih =>
    unfold Server.glueLoop
    exact Logs.bind (LogsY.addrs z _ p.2 true opt) (fun _ _ => ih)

theorem LogsY.referral (z : Zone.Zone) (child : NameL.Name) (ns : Rrset) :
    Logs (doReferral z child ns) TyEv (fun _ => True) := by
  unfold doReferral
  refine Logs.bind (LogsY.addRrs false .authority .none _ _ _ _ _ (by first | assumption | decide)) (fun hv _ =>
    Logs.bind (LogsY.classifyNs _ ns.rdatas 0) (fun p _ => ?_))
  obtain ⟨g, a⟩ := p
  simp only []
  exact Logs.bind (LogsY.glueLoop z _ false g) (fun _ _ => LogsY.glueLoop z _ true a)

theorem LogsY.followCname (z : Zone.Zone) (qname : WName) (qtype : Nat) (hq : qtype < 65536) :
    ∀ (fuel : Nat) (cn : Rrset) (os : List WName),
      Logs (Server.followCname z qname qtype fuel cn os) TyEv (fun _ => True) := by
  intro fuel
  induction fuel with
  | zero => intro cn os; unfold Server.followCname; exact Logs.fail _ _ _
  | succ f ih =>
    intro cn os
    rw [Server.followCname]
    split
    · exact Logs.fail _ _ _
    · split
      · split
        · exact Logs.fail _ _ _
        · refine Logs.bind (LogsY.addRr1 .answer _ _ _ _ _ _ (by first | assumption | decide)) (fun _ _ => ?_)
          split
          · exact Logs.bind (LogsY.addRrs false .answer _ _ _ _ _ _ (by first | assumption | decide))
              (fun hv _ => LogsY.additionalProcessing z qtype _ hv)
          · split
            · exact ih _ _
            · exact Logs.fail _ _ _
          · exact LogsY.referral z _ _
          · exact LogsY.negativeSoa z
          · exact Logs.bind (LogsY.setRcode _) (fun _ _ => LogsY.negativeSoa z)
          · exact logsY_pure ()
          · exact logsY_pure ()
          · exact Logs.panic _ _
      · exact Logs.fail _ _ _

theorem LogsY.answer (z : Zone.Zone) (qname : WName) (qtype : Nat) (hq : qtype < 65536) :
    Logs (Server.answer z qname qtype) TyEv (fun _ => True) := by
  unfold Server.answer
  split
  · exact Logs.bind (LogsY.setAa true) (fun _ _ => Logs.bind (LogsY.addRrs false .answer _ _ _ _ _ _ (by first | assumption | decide))
      (fun hv _ => LogsY.additionalProcessing z qtype _ hv))
  · unfold Server.doCname
    exact Logs.bind (LogsY.setAa true) (fun _ _ => LogsY.followCname z qname qtype hq _ _ _)
  · exact LogsY.referral z _ _
  · exact Logs.bind (LogsY.setAa true) (fun _ _ => LogsY.negativeSoa z)
  · exact Logs.bind (LogsY.setRcode _) (fun _ _ => Logs.bind (LogsY.setAa true) (fun _ _ => LogsY.negativeSoa z))
  · exact Logs.panic _ _
  · exact Logs.panic _ _
  · exact Logs.panic _ _

theorem LogsY.answerAnyLoop (z : Zone.Zone) (qname : WName) (rrsets : List Rrset) (n : Nat)
    (hr : ∀ r ∈ rrsets, r.rtype < 65536) :
    Logs (Server.answerAnyLoop z qname rrsets n) TyEv (fun _ => True) := by
  induction rrsets generalizing n with
  | nil => unfold Server.answerAnyLoop; exact logsY_pure _
  | cons r rest ih =>
    unfold Server.answerAnyLoop
    exact Logs.bind (LogsY.addRrs false .answer _ _ _ _ _ _ (hr r (by simp)))
      (fun _ _ => ih (n + 1) (fun x hx => hr x (by simp [hx])))

/-- what `lookup_all` finds comes from the tree -/
theorem lookupAll_found_P (P : Zone.Rrset → Prop) (z : Zone.Zone) (h : NodeOK P z.root) (name : NameL.Name)
    (o : Zone.Opts) (rrsets : List Zone.Rrset) (sos : Option NameL.Name)
    (hl : Zone.lookupAll z name o = .ok (.found rrsets sos)) : ∀ r ∈ rrsets, P r := by
  unfold Zone.lookupAll at hl
  rcases hb : Zone.lookupBase z name o with (b | e | _)
  · rw [hb] at hl
    unfold Zone.lookupBase at hb
    split at hb
    · cases hb; simp at hl
    · split at hb
      · cases hb
      · cases hb
        obtain ⟨_, g2, _⟩ := lookupImpl_spec P o.searchBelowCuts (Zone.relPath z.apex.length name) z.root z.apex true h
        generalize Zone.lookupImpl o.searchBelowCuts z.root z.apex (Zone.relPath z.apex.length name) true = res at hl g2
        cases res with
        | found rr ss => simp only at hl; cases hl; exact g2 _ _ rfl
        | referral c ns => simp at hl
        | nxDomain => simp at hl
        | wrongZone => simp at hl
  · rw [hb] at hl; simp at hl
  · rw [hb] at hl; simp at hl

theorem LogsY.answerAny (z : Zone.Zone) (hz : NodeOK (fun r => r.rtype < 65536) z.root) (qname : WName) :
    Logs (Server.answerAny z qname) TyEv (fun _ => True) := by
  unfold Server.answerAny
  split
  · next rrsets sos hl =>
    refine Logs.bind (LogsY.setAa true) (fun _ _ => Logs.bind
      (LogsY.answerAnyLoop z qname _ 0 (lookupAll_found_P _ z hz _ _ _ _ hl)) (fun n _ => ?_))
    split
    · exact LogsY.negativeSoa z
    · exact logsY_pure ()
  · exact LogsY.referral z _ _
  · exact Logs.bind (LogsY.setRcode _) (fun _ _ => Logs.bind (LogsY.setAa true) (fun _ _ => LogsY.negativeSoa z))
  · exact Logs.panic _ _
  · exact Logs.panic _ _
  · exact Logs.panic _ _

theorem LogsY.inner (z : Zone.Zone) (hz : NodeOK (fun r => r.rtype < 65536) z.root) (qname : WName) (qtype : Nat)
    (hq : qtype < 65536) : Logs (inner z qname qtype) TyEv (fun _ => True) := by
  unfold ServerAnswer.inner
  split
  · exact LogsY.answerAny z hz qname
  · exact LogsY.answer z qname qtype hq

end QV.ServerAnswer
