/-
  QV.Proofs.ServerNoErr — a structural fact about the server model used by C01's assembly: the
  `M`-level computation of `handle_message_with_context` never *returns* a `writer::Error` (in Rust
  it returns `()`: every fallible writer call is matched on, `?` occurs only inside the
  `ProcessingResult` functions whose errors `handle_non_axfr_query` handles). The model's
  `handleMessage` lumps "the program returned `Err`" with "panic"; this file shows that branch
  unreachable, for every state and input (no invariant is needed).
-/
import QV.Model.Server

namespace QV.ServerSafety
open QV QV.Writer QV.Server

/-- never `Err(_)` (it may be `Ok` or a panic) -/
structure NoErr {α : Type} (f : M α) : Prop where
  h : ∀ s e, (f s).1 ≠ .err e

theorem noErr_pure {α : Type} (a : α) : NoErr (pure a : M α) := ⟨fun _ _ => by simp [pure]⟩

theorem noErr_panic {α : Type} : NoErr (M.panic : M α) := ⟨fun _ _ => by simp [M.panic]⟩

theorem noErr_bind {α β : Type} {x : M α} {g : α → M β} (hx : NoErr x) (hg : ∀ a, NoErr (g a)) :
    NoErr (x >>= g) := by
  constructor
  intro s e
  show (match x s with
    | (.ok a, s') => g a s'
    | (.err e, s') => (.err e, s')
    | (.panic, s') => (.panic, s')).1 ≠ .err e
  have := hx.h s
  generalize x s = r at this
  obtain ⟨o, s'⟩ := r
  cases o with
  | ok a => exact (hg a).h s' e
  | err e' => exact absurd rfl (this e')
  | panic => simp

theorem noErr_modify (f : State → State) : NoErr (M.modify f) := ⟨fun _ _ => by simp [M.modify]⟩

theorem noErr_setHdr (i : Nat) (f : UInt8 → UInt8) : NoErr (setHdr i f) := by
  constructor; intro s e; unfold setHdr; split <;> simp

theorem noErr_write (pos : Nat) (d : List UInt8) : NoErr (write pos d) := by
  constructor; intro s e; unfold write; split <;> simp

theorem noErr_setId (v : Nat) : NoErr (setId v) := noErr_write _ _
theorem noErr_setBit (b m : Nat) (v : Bool) : NoErr (setBit b m v) := noErr_setHdr _ _
theorem noErr_setQr (v : Bool) : NoErr (setQr v) := noErr_setBit _ _ _
theorem noErr_setAa (v : Bool) : NoErr (setAa v) := noErr_setBit _ _ _
theorem noErr_setTc (v : Bool) : NoErr (setTc v) := noErr_setBit _ _ _
theorem noErr_setRd (v : Bool) : NoErr (setRd v) := noErr_setBit _ _ _
theorem noErr_setOpcode (v : Nat) : NoErr (setOpcode v) := noErr_setHdr _ _

theorem noErr_setRcode (v : Nat) : NoErr (setRcode v) :=
  noErr_bind (noErr_setHdr _ _) (fun _ => noErr_modify _)

theorem noErr_clearRrs : NoErr clearRrs := noErr_modify _

theorem noErr_setLimit (v : Nat) : NoErr (setLimit v) := by
  constructor; intro s e; unfold setLimit; dsimp only; repeat' split
  all_goals simp

theorem noErr_unwrap {α : Type} (f : M α) : NoErr (Writer.unwrap f) := by
  constructor; intro s e; unfold Writer.unwrap
  generalize f s = r
  obtain ⟨o, s'⟩ := r
  cases o <;> simp

/-- one step of the structural proof -/
syntax "noerr_step" : tactic
macro_rules
  | `(tactic| noerr_step) => `(tactic| first
      | exact noErr_pure _
      | exact noErr_panic
      | exact noErr_setRcode _
      | exact noErr_setBit _ _ _
      | exact noErr_setAa _
      | exact noErr_setTc _
      | exact noErr_setLimit _
      | exact noErr_unwrap _
      | exact noErr_clearRrs
      | assumption
      | (refine noErr_bind ?_ ?_)
      | (intro _)
      | split)

theorem noErr_setTsigOrTruncate (m : TsigMode) (rr : TsigRr) : NoErr (setTsigOrTruncate m rr) := by
  constructor
  intro s e
  unfold setTsigOrTruncate
  generalize setTsig m rr s = r
  obtain ⟨o, s'⟩ := r
  cases o with
  | ok a => simp
  | panic => simp
  | err e' =>
    have : NoErr (do setRcode (RC "NOERROR"); setTc true; pure false : M Bool) := by
      repeat' noerr_step
    exact this.h s' e

/-- an `M` function given as `fun s => …` whose value at each `s` is that of a `NoErr` program -/
theorem NoErr.at {α : Type} {f : M α} (h : NoErr f) (s : State) (e : WriterErr) : (f s).1 ≠ .err e := h.h s e

theorem noErr_tsigBadKey (tsigRr : Tsig.ReadTsigRr) (nowT : Tsig.TimeSigned) : NoErr (tsigBadKey tsigRr nowT) := by
  unfold tsigBadKey
  repeat' (first | exact noErr_setTsigOrTruncate _ _ | noerr_step)

theorem noErr_tsigVerifyAndWrite (hm : Tsig.Algorithm → Tsig.Octets → Tsig.Octets → Tsig.Octets)
    (tsigRr : Tsig.ReadTsigRr) (message : List UInt8) (alg : Hmac.Alg) (secret : List UInt8)
    (nowT : Tsig.TimeSigned) (r' : Reader.Reader) :
    NoErr (tsigVerifyAndWrite hm tsigRr message alg secret nowT r') := by
  constructor
  intro s e
  unfold tsigVerifyAndWrite
  repeat' split
  all_goals first
    | (simp; done)
    | (refine NoErr.at ?_ s e
       repeat' (first | exact noErr_setTsigOrTruncate _ _ | noerr_step))

theorem noErr_tsigProcess (hm : Tsig.Algorithm → Tsig.Octets → Tsig.Octets → Tsig.Octets) (keys : List Key)
    (nowT : Tsig.TimeSigned) (tsigRr : Tsig.ReadTsigRr) (message : List UInt8) (r' : Reader.Reader) :
    NoErr (tsigProcess hm keys nowT tsigRr message r') := by
  unfold tsigProcess
  repeat' split
  all_goals first
    | exact noErr_tsigBadKey _ _
    | exact noErr_tsigVerifyAndWrite _ _ _ _ _ _ _

theorem noErr_handleTsig (cfg : Cfg) (now : Nat) (p : Reader.PeekRr) (raw : Nat) :
    NoErr (handleTsig cfg now p raw) := by
  constructor
  intro s e
  unfold handleTsig
  repeat' split
  all_goals first
    | (simp; done)
    | exact (noErr_tsigProcess _ _ _ _ _ _).h s e
    | (refine NoErr.at ?_ s e
       repeat' noerr_step)

theorem noErr_scanAr (cfg : Cfg) (tr : Transport) (now arcount : Nat) :
    ∀ (n index : Nat) (st : ScanSt), NoErr (scanAr cfg tr now arcount n index st) := by
  intro n
  induction n with
  | zero => intro index st; exact noErr_pure _
  | succ n ih =>
    intro index st
    constructor
    intro s e
    unfold scanAr
    dsimp only
    repeat' split
    all_goals first
      | (simp; done)
      | exact (ih _ _).h _ e
      | (have h := ‹handleTsig _ _ _ _ _ = (Out.err _, _)›
         exact absurd (congrArg Prod.fst h) ((noErr_handleTsig _ _ _ _).h _ _))
      | (refine NoErr.at ?_ _ e
         repeat' noerr_step
         all_goals exact ih _ _)

/-- never `Err(_)`, for computations of the answer phase (writer + ghost log) -/
structure NoErrP {α : Type} (f : PM α) : Prop where
  h : ∀ s e, (f s).1 ≠ .err e

theorem noErrP_hdrOp (ev : Ev) {m : M Unit} (hm : NoErr m) : NoErrP (PM.hdrOp ev m) := by
  constructor
  intro s e
  unfold PM.hdrOp
  have := hm.h s.w
  generalize m s.w = r at this
  obtain ⟨o, w'⟩ := r
  cases o with
  | ok a => simp
  | err e' => exact absurd rfl (this e')
  | panic => simp

theorem noErrP_bind {α β : Type} {x : PM α} {g : α → PM β} (hx : NoErrP x) (hg : ∀ a, NoErrP (g a)) :
    NoErrP (x >>= g) := by
  constructor
  intro s e
  show (match x s with
    | (.ok a, s') => g a s'
    | (.err e, s') => (.err e, s')
    | (.panic, s') => (.panic, s')).1 ≠ .err e
  have := hx.h s
  generalize x s = r at this
  obtain ⟨o, s'⟩ := r
  cases o with
  | ok a => exact (hg a).h s' e
  | err e' => exact absurd rfl (this e')
  | panic => simp

/-- the epilogues of `handle_non_axfr_query` turn every `ProcessingError` into a response -/
theorem noErrP_handleNonAxfrQueryL (z : Zone.Zone) (qname : WName) (qtype : Nat) (tr : Transport) :
    NoErrP (handleNonAxfrQueryL z qname qtype tr) := by
  have aa := fun b => noErrP_hdrOp (.aa b) (noErr_setAa b)
  have rc := fun v => noErrP_hdrOp (.rcode v) (noErr_setRcode v)
  have tc := fun b => noErrP_hdrOp (.tc b) (noErr_setTc b)
  have cl := noErrP_hdrOp .clear noErr_clearRrs
  have ep1 : NoErrP (do PM.setAa false; PM.setRcode (RC "SERVFAIL"); PM.clearRrs : PM Unit) :=
    noErrP_bind (aa false) (fun _ => noErrP_bind (rc _) (fun _ => cl))
  have ep2 : NoErrP (do
      PM.clearRrs
      if tr = Transport.tcp then do PM.setAa false; PM.setRcode (RC "SERVFAIL")
      else PM.setTc true : PM Unit) :=
    noErrP_bind cl (fun _ => by
      split
      · exact noErrP_bind (aa false) (fun _ => rc _)
      · exact tc true)
  constructor
  intro s e
  unfold handleNonAxfrQueryL
  dsimp only
  generalize (if qtype = QT "ANY" then answerAny z qname s else answer z qname qtype s) = res
  obtain ⟨o, s'⟩ := res
  cases o with
  | ok u => simp
  | panic => simp
  | err pe =>
    cases pe with
    | servFail => exact ep1.h s' e
    | truncation => exact ep2.h s' e

theorem noErr_handleNonAxfrQuery (z : Zone.Zone) (qname : WName) (qtype : Nat) (tr : Transport) :
    NoErr (handleNonAxfrQuery z qname qtype tr) := by
  constructor
  intro s e
  unfold handleNonAxfrQuery
  have := (noErrP_handleNonAxfrQueryL z qname qtype tr).h { w := s }
  generalize handleNonAxfrQueryL z qname qtype tr { w := s } = res at this
  obtain ⟨o, s'⟩ := res
  cases o with
  | ok u => simp
  | panic => simp
  | err pe => exact absurd rfl (this pe)

theorem noErr_handleQuery (cfg : Cfg) (question : Option (WName × Nat × Nat)) (tr : Transport) :
    NoErr (handleQuery cfg question tr) := by
  unfold handleQuery
  repeat' split
  all_goals first
    | exact noErr_setRcode _
    | exact noErr_handleNonAxfrQuery _ _ _ _
    | exact noErr_panic

/-- the question step of `handle_message_with_context` (`add_question` failing is SERVFAIL) -/
theorem noErr_addQ (qn : WName) (qt qc : Nat) :
    NoErr (fun s => match addQuestion qn qt qc s with
      | (.ok (), s') => (.ok true, s')
      | (.err _, s') => (do setRcode (RC "SERVFAIL"); pure false : M Bool) s'
      | (.panic, s') => (.panic, s') : M Bool) := by
  constructor
  intro s e
  show (match addQuestion qn qt qc s with
      | (.ok (), s') => ((.ok true, s') : Out WriterErr Bool × State)
      | (.err _, s') => (do setRcode (RC "SERVFAIL"); pure false : M Bool) s'
      | (.panic, s') => (.panic, s')).1 ≠ .err e
  generalize addQuestion qn qt qc s = r
  obtain ⟨o, s'⟩ := r
  cases o with
  | ok a => simp
  | panic => simp
  | err e' =>
    have : NoErr (do setRcode (RC "SERVFAIL"); pure false : M Bool) := by repeat' noerr_step
    exact this.h s' e

theorem noErr_handleWithContext (cfg : Cfg) (tr : Transport) (now : Nat) (r0 : Reader.Reader) :
    NoErr (handleWithContext cfg tr now r0) := by
  constructor
  intro s e
  unfold handleWithContext
  dsimp only
  repeat' split
  all_goals first
    | (simp; done)
    | (refine NoErr.at ?_ _ e
       repeat' noerr_step
       all_goals first
         | exact noErr_scanAr _ _ _ _ _ _ _
         | exact noErr_handleQuery _ _ _
         | exact noErr_addQ _ _ _)

end QV.ServerSafety
