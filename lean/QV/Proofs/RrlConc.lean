/-
  QV.Proofs.RrlConc — the invariant behind C28: in every reachable state of a burst running the
  code as written (`progLocked`), the outcomes decided so far are exactly what a sequential run
  of that many requests produces, whatever the interleaving.
-/
import QV.Model.RrlConc
import QV.Proofs.Rrl
namespace QV.Rrl.Conc
open QV QV.Rrl

theorem countP_set {α : Type} (q : α → Bool) (l : List α) (i : Nat) (a : α) (h : i < l.length) :
    (l.set i a).countP q + (if q l[i] then 1 else 0) = l.countP q + (if q a then 1 else 0) := by
  induction l generalizing i with
  | nil => simp at h
  | cons x xs ih =>
    cases i with
    | zero =>
      simp only [List.set_cons_zero, List.countP_cons, List.getElem_cons_zero]
      omega
    | succ j =>
      have hj : j < xs.length := by simpa using h
      have := ih j hj
      simp only [List.set_cons_succ, List.countP_cons, List.getElem_cons_succ]
      omega

/-- tokens used on the key's bucket (a foreign entry counts as empty) -/
def used (key : Key) (e : Entry) : Nat := if e.key = key then e.count else 0

/-- the entry is consistent with the burst's one-second window -/
def Good (env : Env) (n : Nat) (e : Entry) : Prop :=
  e.key = env.key → e.count ≤ capOf env.p env.key.category ∧
    ∀ i, i < n → (env.inputs i).now < e.last_refill + NANOS_PER_SEC

/-- all `n` requests read the clock within one second of each other -/
def WithinOneSecond (env : Env) (n : Nat) : Prop :=
  ∀ i j, i < n → j < n → (env.inputs i).now < (env.inputs j).now + NANOS_PER_SEC

theorem critical_section {env : Env} {n : Nat} (hv : env.p.Valid) (hw : WithinOneSecond env n)
    (e : Entry) (hg : Good env n e) (i : Nat) (hi : i < n) :
    ∃ e' a, processBucket env.p env.key env.key.category e (env.inputs i).now (env.inputs i).rnd = .ok (e', a) ∧
      Good env n e' ∧
      (used env.key e < capOf env.p env.key.category → a = .Send ∧ used env.key e' = used env.key e + 1) ∧
      (capOf env.p env.key.category ≤ used env.key e →
        a = verdict env.p (env.inputs i).rnd false ∧ used env.key e' = used env.key e) := by
  have hcap := hv.cap_u32 env.key.category
  have hpos := hv.cap_pos env.key.category
  have hns : 0 < NANOS_PER_SEC := by decide
  by_cases hk : e.key = env.key
  · obtain ⟨hc, hwin⟩ := hg hk
    have hlt := hwin i hi
    have hs : ¬ ((env.inputs i).now - e.last_refill ≥ NANOS_PER_SEC) := by omega
    unfold processBucket
    simp only [hk, if_true, rateAndLimit_ok hv, hs, if_false]
    by_cases hlim : e.count ≥ capOf env.p env.key.category
    · simp only [hlim, if_true]
      refine ⟨e, verdict env.p (env.inputs i).rnd false, ?_, ?_, ?_, ?_⟩
      · unfold verdict; cases shouldSlip env.p (env.inputs i).rnd <;> simp
      · intro _; exact ⟨hc, hwin⟩
      · intro h; simp [used, hk] at h; omega
      · intro _; exact ⟨rfl, rfl⟩
    · have h1 : e.count + 1 ≤ U32_MAX := by omega
      simp only [hlim, if_false, h1, if_true]
      refine ⟨_, .Send, rfl, ?_, ?_, ?_⟩
      · intro _; exact ⟨by simp only; omega, hwin⟩
      · intro _; simp [used, hk]
      · intro h; simp [used, hk] at h; omega
  · refine ⟨_, .Send, processBucket_create _ _ _ _ _ _ hk, ?_, ?_, ?_⟩
    · intro _
      refine ⟨by simp only; omega, ?_⟩
      intro j hj
      exact hw j i hj hi
    · intro _; simp [used, hk]
    · intro h; simp [used, hk] at h; omega


/-- invariant of every reachable state of a burst running `progLocked` -/
structure Inv (env : Env) (n u₀ : Nat) (s : State) : Prop where
  len : s.threads.length = n
  good : Good env n s.entry
  done_eq : s.sent + s.slipped + s.dropped = s.threads.countP (fun t => decide (3 ≤ t.pc))
  sent_eq : s.sent = min (s.sent + s.slipped + s.dropped) (capOf env.p env.key.category - u₀)
  used_eq : used env.key s.entry = min (u₀ + (s.sent + s.slipped + s.dropped)) (capOf env.p env.key.category)
  slip0 : env.p.slip = 0 → s.slipped = 0
  slip1 : env.p.slip = 1 → s.dropped = 0
  pcs : ∀ j t, s.threads[j]? = some t →
    t.pc ≤ 4 ∧ ((1 ≤ t.pc ∧ t.pc ≤ 3) ↔ s.lock = some j) ∧
    (t.pc = 2 → ∃ r, t.snap = some r ∧
      processBucket env.p env.key env.key.category s.entry (env.inputs j).now (env.inputs j).rnd = .ok r)
  owner : ∀ k, s.lock = some k → ∃ t, s.threads[k]? = some t

theorem getElem?_set' {α : Type} (l : List α) (i j : Nat) (a : α) (hi : i < l.length) :
    (l.set i a)[j]? = if j = i then some a else l[j]? := by
  by_cases h : j = i
  · subst h; simp [hi]
  · simp [h, List.getElem?_set_ne (Ne.symm h)]

theorem inv_step {env : Env} {n u₀ : Nat} (hprog : env.prog = progLocked) (hv : env.p.Valid)
    (hw : WithinOneSecond env n) (s s' : State) (i : Nat) (hinv : Inv env n u₀ s)
    (hstep : step env s i = some s') : Inv env n u₀ s' := by
  unfold step at hstep
  cases hti : s.threads[i]? with
  | none => simp [hti] at hstep
  | some t =>
    have hil : i < s.threads.length := by
      have := List.getElem?_eq_some_iff.mp hti; exact this.1
    have hget : s.threads[i] = t := (List.getElem?_eq_some_iff.mp hti).2
    have hin : i < n := by rw [← hinv.len]; exact hil
    obtain ⟨hpc4, hlock, hsnap⟩ := hinv.pcs i t hti
    simp only [hti, hprog] at hstep
    have hcnt := fun t' => countP_set (fun t => decide (3 ≤ t.pc)) s.threads i t' hil
    simp only [hget] at hcnt
    -- other threads are outside the critical section whenever thread `i` is inside or enters it
    have others : ∀ j tj, j ≠ i → s.threads[j]? = some tj → (s.lock = none ∨ s.lock = some i) →
        ¬ (1 ≤ tj.pc ∧ tj.pc ≤ 3) := by
      intro j tj hji hj hl hin'
      have := (hinv.pcs j tj hj).2.1.mp hin'
      rcases hl with hl | hl <;> rw [hl] at this <;> simp at this
      exact hji this.symm
    rcases Nat.lt_or_ge t.pc 1 with h0 | h1
    · -- pc = 0 : lock
      have hinstr : progLocked[t.pc]? = some .lock := by
        have : t.pc = 0 := by omega
        rw [this]; rfl
      simp only [hinstr] at hstep
      by_cases hl : s.lock = none
      · simp only [hl, if_true, Option.some.injEq] at hstep
        subst hstep
        have e1 : decide (3 ≤ t.pc + 1) = false := by simp; omega
        have e2 : decide (3 ≤ t.pc) = false := by simp; omega
        refine ⟨by simp [hinv.len], hinv.good, ?_, hinv.sent_eq, hinv.used_eq, hinv.slip0, hinv.slip1, ?_,
          fun k hk => by cases hk; exact ⟨_, by rw [getElem?_set' _ _ _ _ hil, if_pos rfl]⟩⟩
        · have := hcnt { t with pc := t.pc + 1 }
          simp only [e1, e2] at this
          simp only
          rw [hinv.done_eq]; simpa using this.symm
        · intro j tj hj
          simp only [getElem?_set' _ _ _ _ hil] at hj
          by_cases hji : j = i
          · subst hji
            simp only [if_true, Option.some.injEq] at hj
            subst hj
            refine ⟨by simp only; omega, ⟨fun _ => rfl, fun _ => by simp only; omega⟩, fun h => by simp only at h; omega⟩
          · simp only [hji, if_false] at hj
            have hout := others j tj hji hj (Or.inl hl)
            refine ⟨(hinv.pcs j tj hj).1, ?_, fun h2 => absurd ⟨by omega, by omega⟩ hout⟩
            simp only [Option.some.injEq]
            exact ⟨fun h => absurd h hout, fun h => absurd h.symm hji⟩
      · simp [hl] at hstep
    · have hmine : s.lock = some i ∨ t.pc = 4 := by
        by_cases h4 : t.pc = 4
        · exact Or.inr h4
        · exact Or.inl (hlock.mp ⟨h1, by omega⟩)
      rcases Nat.lt_or_ge t.pc 2 with h1' | h2
      · -- pc = 1 : read
        have hpc : t.pc = 1 := by omega
        have hinstr : progLocked[t.pc]? = some .read := by rw [hpc]; rfl
        have hli : s.lock = some i := hlock.mp ⟨by omega, by omega⟩
        simp only [hinstr] at hstep
        obtain ⟨e', a, hpb, _, _, _⟩ := critical_section hv hw s.entry hinv.good i hin
        simp only [hpb, Option.some.injEq] at hstep
        subst hstep
        have e1 : decide (3 ≤ t.pc + 1) = false := by simp; omega
        have e2 : decide (3 ≤ t.pc) = false := by simp; omega
        refine ⟨by simp [hinv.len], hinv.good, ?_, hinv.sent_eq, hinv.used_eq, hinv.slip0, hinv.slip1, ?_,
          fun k hk => by rw [hli] at hk; cases hk; exact ⟨_, by rw [getElem?_set' _ _ _ _ hil, if_pos rfl]⟩⟩
        · have := hcnt { pc := t.pc + 1, snap := some (e', a) }
          simp only [e1, e2] at this
          simp only
          rw [hinv.done_eq]; simpa using this.symm
        · intro j tj hj
          simp only [getElem?_set' _ _ _ _ hil] at hj
          by_cases hji : j = i
          · subst hji
            simp only [if_true, Option.some.injEq] at hj
            subst hj
            refine ⟨by simp only; omega, ⟨fun _ => hli, fun _ => by simp only; omega⟩, fun _ => ⟨_, rfl, hpb⟩⟩
          · simp only [hji, if_false] at hj
            have hout := others j tj hji hj (Or.inr hli)
            refine ⟨(hinv.pcs j tj hj).1, (hinv.pcs j tj hj).2.1, fun h2 => absurd ⟨by omega, by omega⟩ hout⟩
      · rcases Nat.lt_or_ge t.pc 3 with h2' | h3
        · -- pc = 2 : write
          have hpc : t.pc = 2 := by omega
          have hinstr : progLocked[t.pc]? = some .write := by rw [hpc]; rfl
          have hli : s.lock = some i := hlock.mp ⟨by omega, by omega⟩
          obtain ⟨r, hr, hpbr⟩ := hsnap hpc
          obtain ⟨e', a, hpb, hgood', hlt, hge⟩ := critical_section hv hw s.entry hinv.good i hin
          rw [hpb] at hpbr
          cases hpbr
          rw [hr] at hstep
          simp only [hinstr, Option.some.injEq] at hstep
          subst hstep
          have e1 : decide (3 ≤ t.pc + 1) = true := by simp; omega
          have e2 : decide (3 ≤ t.pc) = false := by simp; omega
          have hc := hcnt { pc := t.pc + 1, snap := some (e', a) }
          simp only [e1, e2, ↓reduceIte, Bool.false_eq_true] at hc
          have hdone := hinv.done_eq
          have hsent := hinv.sent_eq
          have hused := hinv.used_eq
          have hpcs' : ∀ j tj, (s.threads.set i { pc := t.pc + 1, snap := some (e', a) })[j]? = some tj →
              tj.pc ≤ 4 ∧ ((1 ≤ tj.pc ∧ tj.pc ≤ 3) ↔ s.lock = some j) ∧
              (tj.pc = 2 → ∃ r, tj.snap = some r ∧
                processBucket env.p env.key env.key.category e' (env.inputs j).now (env.inputs j).rnd = .ok r) := by
            intro j tj hj
            simp only [getElem?_set' _ _ _ _ hil] at hj
            by_cases hji : j = i
            · subst hji
              simp only [if_true, Option.some.injEq] at hj
              subst hj
              refine ⟨by simp only; omega, ⟨fun _ => hli, fun _ => by simp only; omega⟩, fun h => by simp only at h; omega⟩
            · simp only [hji, if_false] at hj
              have hout := others j tj hji hj (Or.inr hli)
              exact ⟨(hinv.pcs j tj hj).1, (hinv.pcs j tj hj).2.1, fun h2 => absurd ⟨by omega, by omega⟩ hout⟩
          have hown' : ∀ k, s.lock = some k →
              ∃ t', (s.threads.set i { pc := t.pc + 1, snap := some (e', a) })[k]? = some t' :=
            fun k hk => by rw [hli] at hk; cases hk; exact ⟨_, by rw [getElem?_set' _ _ _ _ hil, if_pos rfl]⟩
          have hs0 := hinv.slip0
          have hs1 := hinv.slip1
          rcases Nat.lt_or_ge (used env.key s.entry) (capOf env.p env.key.category) with hu | hu
          · obtain ⟨ha, hu'⟩ := hlt hu
            subst ha
            simp only [State.count]
            refine ⟨by simp [hinv.len], hgood', ?_, ?_, ?_, hs0, hs1, hpcs', hown'⟩ <;> simp only <;> omega
          · obtain ⟨ha, hu'⟩ := hge hu
            cases hsl : shouldSlip env.p (env.inputs i).rnd
            · have ha' : a = .Drop := by rw [ha]; simp [verdict, hsl]
              subst ha'
              have hne1 : env.p.slip ≠ 1 := by
                intro h; simp [shouldSlip, h] at hsl
              simp only [State.count]
              refine ⟨by simp [hinv.len], hgood', ?_, ?_, ?_, hs0, fun h => absurd h hne1, hpcs', hown'⟩ <;>
                simp only <;> omega
            · have ha' : a = .Slip := by rw [ha]; simp [verdict, hsl]
              subst ha'
              have hne0 : env.p.slip ≠ 0 := by
                intro h; simp [shouldSlip, h] at hsl
              simp only [State.count]
              refine ⟨by simp [hinv.len], hgood', ?_, ?_, ?_, fun h => absurd h hne0, hs1, hpcs', hown'⟩ <;>
                simp only <;> omega
        · rcases Nat.lt_or_ge t.pc 4 with h3' | h4
          · -- pc = 3 : unlock
            have hpc : t.pc = 3 := by omega
            have hinstr : progLocked[t.pc]? = some .unlock := by rw [hpc]; rfl
            have hli : s.lock = some i := hlock.mp ⟨by omega, by omega⟩
            simp only [hinstr, hli, if_true, Option.some.injEq] at hstep
            subst hstep
            have e1 : decide (3 ≤ t.pc + 1) = true := by simp; omega
            have e2 : decide (3 ≤ t.pc) = true := by simp; omega
            have hc := hcnt { t with pc := t.pc + 1 }
            simp only [e1, e2, ↓reduceIte] at hc
            refine ⟨by simp [hinv.len], hinv.good, ?_, hinv.sent_eq, hinv.used_eq, hinv.slip0, hinv.slip1, ?_,
              fun k hk => by simp at hk⟩
            · simp only
              rw [hinv.done_eq]; omega
            · intro j tj hj
              simp only [getElem?_set' _ _ _ _ hil] at hj
              by_cases hji : j = i
              · subst hji
                simp only [if_true, Option.some.injEq] at hj
                subst hj
                refine ⟨by simp only; omega, ⟨fun h => by simp only at h; omega, fun h => by simp at h⟩,
                  fun h => by simp only at h; omega⟩
              · simp only [hji, if_false] at hj
                have hout := others j tj hji hj (Or.inr hli)
                refine ⟨(hinv.pcs j tj hj).1, ⟨fun h => absurd h hout, fun h => by simp at h⟩,
                  fun h2 => absurd ⟨by omega, by omega⟩ hout⟩
          · -- pc = 4 : the thread has finished
            have hpc : t.pc = 4 := by omega
            have hinstr : progLocked[t.pc]? = none := by rw [hpc]; rfl
            simp [hinstr] at hstep


theorem used_le_cap {env : Env} {n : Nat} (e : Entry) (hg : Good env n e) :
    used env.key e ≤ capOf env.p env.key.category := by
  unfold used
  by_cases hk : e.key = env.key
  · simp [hk]; exact (hg hk).1
  · simp [hk]

theorem inv_init {env : Env} {n : Nat} (e₀ : Entry) (hg : Good env n e₀) :
    Inv env n (used env.key e₀) (init e₀ n) := by
  have hu := used_le_cap e₀ hg
  refine ⟨by simp [init], hg, ?_, by simp [init], ?_, by simp [init], by simp [init], ?_,
    fun k hk => by simp [init] at hk⟩
  · simp [init, List.countP_replicate]
  · simp only [init]; omega
  · intro j t hj
    simp only [init, List.getElem?_replicate] at hj
    split at hj
    · cases hj
      simp [init]
    · cases hj

theorem inv_exec {env : Env} {n u₀ : Nat} (hprog : env.prog = progLocked) (hv : env.p.Valid)
    (hw : WithinOneSecond env n) (sched : List Nat) :
    ∀ s s', Inv env n u₀ s → exec env s sched = some s' → Inv env n u₀ s' := by
  induction sched with
  | nil => intro s s' hinv h; simp only [exec, Option.some.injEq] at h; subst h; exact hinv
  | cons i rest ih =>
    intro s s' hinv h
    simp only [exec] at h
    cases hs : step env s i with
    | none => simp [hs] at h
    | some s1 =>
      simp only [hs] at h
      exact ih s1 s' (inv_step hprog hv hw s s1 i hinv hs) h

/-- as long as some thread has not finished, some thread can move: the burst never deadlocks -/
theorem progress {env : Env} {n u₀ : Nat} (hprog : env.prog = progLocked) (hv : env.p.Valid)
    (hw : WithinOneSecond env n) (s : State) (hinv : Inv env n u₀ s) (hnf : ¬ finished env s) :
    ∃ i s', step env s i = some s' := by
  have hlen : env.prog.length = 4 := by rw [hprog]; rfl
  have pick : ∃ j t, s.threads[j]? = some t ∧ (s.lock = some j ∨ (s.lock = none ∧ t.pc = 0)) := by
    cases hl : s.lock with
    | some i =>
      obtain ⟨t, ht⟩ := hinv.owner i hl
      exact ⟨i, t, ht, Or.inl rfl⟩
    | none =>
      have : ∃ t, t ∈ s.threads ∧ t.pc ≠ 4 := by
        apply Decidable.byContradiction
        intro hno
        apply hnf
        intro t ht
        rw [hlen]
        exact Decidable.byContradiction fun hne => hno ⟨t, ht, hne⟩
      obtain ⟨t, ht, hne⟩ := this
      obtain ⟨j, hj⟩ := List.mem_iff_getElem?.mp ht
      obtain ⟨h4, hlk, _⟩ := hinv.pcs j t hj
      have : ¬ (1 ≤ t.pc ∧ t.pc ≤ 3) := fun h => by have := hlk.mp h; rw [hl] at this; cases this
      exact ⟨j, t, hj, Or.inr ⟨rfl, by omega⟩⟩
  obtain ⟨j, t, hj, hcase⟩ := pick
  have hjl : j < s.threads.length := (List.getElem?_eq_some_iff.mp hj).1
  have hjn : j < n := by rw [← hinv.len]; exact hjl
  obtain ⟨h4, hlk, hsnap⟩ := hinv.pcs j t hj
  refine ⟨j, ?_⟩
  unfold step
  simp only [hj, hprog]
  rcases hcase with hl | ⟨hl, hpc⟩
  · have hin := hlk.mpr hl
    rcases Nat.lt_or_ge t.pc 2 with h | h
    · have hpc : t.pc = 1 := by omega
      have hinstr : progLocked[t.pc]? = some .read := by rw [hpc]; rfl
      obtain ⟨e', a, hpb, _⟩ := critical_section hv hw s.entry hinv.good j hjn
      simp only [hinstr, hpb]
      exact ⟨_, rfl⟩
    · rcases Nat.lt_or_ge t.pc 3 with h' | h'
      · have hpc : t.pc = 2 := by omega
        have hinstr : progLocked[t.pc]? = some .write := by rw [hpc]; rfl
        obtain ⟨r, hr, _⟩ := hsnap hpc
        obtain ⟨e', a⟩ := r
        simp only [hinstr, hr]
        exact ⟨_, rfl⟩
      · have hpc : t.pc = 3 := by omega
        have hinstr : progLocked[t.pc]? = some .unlock := by rw [hpc]; rfl
        simp only [hinstr, hl, if_true]
        exact ⟨_, rfl⟩
  · have hinstr : progLocked[t.pc]? = some .lock := by rw [hpc]; rfl
    simp only [hinstr, hl, if_true]
    exact ⟨_, rfl⟩

end QV.Rrl.Conc
