/-
  QV.Proofs.ServerScratchIndep — `ScratchIndepI` (`QV.Proofs.ServerAnswerTwoRunI`), case by case:
  the header calls (`QV.Proofs.WriterScratch`) and `add_*_rr` (`QV.Proofs.WriterThread`) have the
  same outcome on two writers that agree below the cursor and leave them agreeing below the cursor.
  The bounds `cursor ≤ available ≤ |octets|` of the first writer are hypotheses (the writer's own
  invariant gives them; `FieldsOnly` alone lets `available` be arbitrary).
-/
import QV.Proofs.ServerAnswerTwoRunI
import QV.Proofs.WriterThread

namespace QV.ServerContent
open QV QV.Writer QV.Server QV.ServerSafety QV.ServerAnswer

theorem same_wo {s t : State} (h : Same s t) (hhv : s.hv = t.hv) : t = wo s t.octets := by
  obtain ⟨_, _, c1, c2, c3, c4, c5, c6, c7, c8, c9, c10, c11, c12, c13, c14, c15, c16, c17, c18⟩ := h
  cases s; cases t
  simp only [wo] at *
  subst c1 c2 c3 c4 c5 c6 c7 c8 c9 c10 c11 c12 c13 c14 c15 c16 c17 c18 hhv
  rfl

theorem rl_of_same {s t : State} (h : Same s t) : Rl none s t.octets :=
  ⟨h.size, fun i hi _ => h.pre i hi⟩

theorem same_of_rl {s : State} {o : Bytes} (h : Rl none s o) : Same s (wo s o) :=
  ⟨h.size, fun i hi => h.pre i hi (outside_none i), rfl, rfl, rfl, rfl, rfl, rfl, rfl, rfl, rfl, rfl, rfl, rfl, rfl,
    rfl, rfl, rfl, rfl, rfl⟩

/-- **`ScratchIndepI` for `add_*_rr`** (with the bounds of the first writer) -/
theorem scratchIndepI_addRr (sec : RrSection) (h : Hint) (o : WName) (ty cls ttl : Nat) (rd : List UInt8)
    (u s t : State) (hI : Writer.I u) (hpre : o.WF ∧ HintOK Writer.Den u h o) (hf : FieldsOnly u s)
    (hb1 : s.cursor ≤ s.available) (hb2 : s.available ≤ s.octets.size) (hS : Same s t) (hhv : s.hv = t.hv) :
    ((AnsCall.addRr sec h o ty cls ttl rd).run t).1 = ((AnsCall.addRr sec h o ty cls ttl rd).run s).1 ∧
      Same ((AnsCall.addRr sec h o ty cls ttl rd).run s).2 ((AnsCall.addRr sec h o ty cls ttl rd).run t).2 ∧
      ((AnsCall.addRr sec h o ty cls ttl rd).run s).2.hv = ((AnsCall.addRr sec h o ty cls ttl rd).run t).2.hv := by
  obtain ⟨l, a, ts, ar, rfl⟩ := hf.1
  have w := hI.winv
  have hw : WInv { u with limit := l, available := a, tsig := ts, arcount := ar } :=
    ⟨w.c12, hb1, hb2, w.g12, w.labs, w.qn, w.ow, w.rd, w.clabs⟩
  have hl : PtrLogOK { u with limit := l, available := a, tsig := ts, arcount := ar } := hI.log
  have hh : Writer.HintOK { u with limit := l, available := a, tsig := ts, arcount := ar } h o :=
    (hintOK_iff u h o).mp hpre.2
  obtain ⟨o', e, r⟩ := addRrOp_scratch sec h o ty cls ttl rd _ t.octets hw hl hpre.1 hh (rl_of_same hS)
  have ht := same_wo hS hhv
  show (addRrOp sec h o ty cls ttl rd t).1 = _ ∧ Same _ (addRrOp sec h o ty cls ttl rd t).2 ∧ _ = (addRrOp sec h o ty cls ttl rd t).2.hv
  rw [ht, e]
  exact ⟨rfl, same_of_rl r, rfl⟩

/-- **`ScratchIndepI` for `add_*_rrset`** (with the bounds of the first writer) -/
theorem scratchIndepI_addRrset (sec : RrSection) (h : Hint) (o : WName) (ty cls ttl : Nat) (rds : List (List UInt8))
    (u s t : State) (hI : Writer.I u) (hpre : o.WF ∧ HintOK Writer.Den u h o) (hf : FieldsOnly u s)
    (hb1 : s.cursor ≤ s.available) (hb2 : s.available ≤ s.octets.size) (hS : Same s t) (hhv : s.hv = t.hv) :
    ((AnsCall.addRrset sec h o ty cls ttl rds).run t).1 = ((AnsCall.addRrset sec h o ty cls ttl rds).run s).1 ∧
      Same ((AnsCall.addRrset sec h o ty cls ttl rds).run s).2 ((AnsCall.addRrset sec h o ty cls ttl rds).run t).2 ∧
      ((AnsCall.addRrset sec h o ty cls ttl rds).run s).2.hv = ((AnsCall.addRrset sec h o ty cls ttl rds).run t).2.hv := by
  obtain ⟨l, a, ts, ar, rfl⟩ := hf.1
  have w := hI.winv
  have hw : WInv { u with limit := l, available := a, tsig := ts, arcount := ar } :=
    ⟨w.c12, hb1, hb2, w.g12, w.labs, w.qn, w.ow, w.rd, w.clabs⟩
  have hl : PtrLogOK { u with limit := l, available := a, tsig := ts, arcount := ar } := hI.log
  have hh : Writer.HintOK { u with limit := l, available := a, tsig := ts, arcount := ar } h o :=
    (hintOK_iff u h o).mp hpre.2
  obtain ⟨o', e, r⟩ := addRrsetOp_scratch sec h o ty cls ttl rds _ t.octets hw hl hpre.1 hh (rl_of_same hS)
  have ht := same_wo hS hhv
  show (addRrsetOp sec h o ty cls ttl rds t).1 = _ ∧ Same _ (addRrsetOp sec h o ty cls ttl rds t).2 ∧
    _ = (addRrsetOp sec h o ty cls ttl rds t).2.hv
  rw [ht, e]
  exact ⟨rfl, same_of_rl r, rfl⟩

/-- **`ScratchIndepI`, with the bounds `cursor ≤ available ≤ |octets|` of the first writer** — every
    call of the answering phase -/
theorem scratchIndepI_bounded (c : AnsCall) (u s t : State) (hI : Writer.I u) (hpre : AnsPre c u)
    (hf : FieldsOnly u s) (hb1 : s.cursor ≤ s.available) (hb2 : s.available ≤ s.octets.size) (hS : Same s t)
    (hhv : s.hv = t.hv) :
    (c.run t).1 = (c.run s).1 ∧ Same (c.run s).2 (c.run t).2 ∧ (c.run s).2.hv = (c.run t).2.hv := by
  have h12 : 12 ≤ s.cursor := by
    obtain ⟨l, a, ts, ar, rfl⟩ := hf.1
    exact hI.winv.c12
  cases c with
  | setAa b => exact scratch_setAa b s t h12 hS hhv
  | setRcode v => exact scratch_setRcode v s t h12 hS hhv
  | addRr sec h o ty cls ttl rd => exact scratchIndepI_addRr sec h o ty cls ttl rd u s t hI hpre hf hb1 hb2 hS hhv
  | addRrset sec h o ty cls ttl rds => exact scratchIndepI_addRrset sec h o ty cls ttl rds u s t hI hpre hf hb1 hb2 hS hhv

/-- **`ScratchIndepI` holds**: octets at or above the cursor are scratch space that no call of the
    answering phase reads (the named writer-level hypothesis of `C10_full_of`, discharged) -/
theorem scratchIndepI : ScratchIndepI :=
  fun c u s t hI hpre hf hS hhv => scratchIndepI_bounded c u s t hI hpre hf hf.2.1 hf.2.2 hS hhv

end QV.ServerContent
