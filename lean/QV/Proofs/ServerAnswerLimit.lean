/-
  QV.Proofs.ServerAnswerLimit — limit monotonicity of the writer for the calls of the answer phase
  (C04 T3): the octets a record-adding call writes do not depend on the size limit; a call that
  succeeds with more room and ends within the smaller room succeeds with the smaller room too and
  leaves the same state (up to the limit itself).

  `lift d s` = the state `s` with `d` more octets of room (`limit`, `available` raised by `d`).
  `Sim f`: whenever `f (lift d s)` succeeds and ends with the cursor within `s.available`, `f s`
  succeeds with the same value and `f (lift d s)` ends in `lift d` of where `f s` ends.
-/
import QV.Proofs.ServerAnswerCap

namespace QV.ServerAnswer
open QV QV.Writer QV.Server

/-- the same writer with `d` more octets of room -/
def lift (d : Nat) (s : State) : State := { s with limit := s.limit + d, available := s.available + d }

/-- limit-independence of `f` on runs that fit the smaller room -/
def Sim {α} (f : M α) : Prop :=
  ∀ (d : Nat) (s : State) (a : α) (t : State), f (lift d s) = (.ok a, t) → t.cursor ≤ s.available →
    ∃ s', f s = (.ok a, s') ∧ t = lift d s'

/-- the cursor only advances and `available` is untouched, whatever the outcome -/
def CA {α} (f : M α) : Prop := ∀ s, s.cursor ≤ (f s).2.cursor ∧ (f s).2.available = s.available

theorem ca_of_frame {α} {f : M α} (h : Frame f) : CA f := fun s => ⟨(h s).cur, (h s).available⟩

theorem ca_bind {α β} {f : M α} {g : α → M β} (hf : CA f) (hg : ∀ a, CA (g a)) : CA (f >>= g) := by
  intro s
  have h1 := hf s
  simp only [M.bind_apply]
  cases hfs : f s with
  | mk r s1 =>
    rw [hfs] at h1
    cases r with
    | ok a =>
      have h2 := hg a s1
      simp only [] at h1 ⊢
      exact ⟨Nat.le_trans h1.1 h2.1, by rw [h2.2, h1.2]⟩
    | err e => exact h1
    | panic => exact h1

/-- `Sim` together with `CA` -/
def SimF {α} (f : M α) : Prop := Sim f ∧ CA f

theorem simF_bind {α β} {f : M α} {g : α → M β} (hf : SimF f) (hg : ∀ a, SimF (g a)) : SimF (f >>= g) := by
  refine ⟨?_, ca_bind hf.2 (fun a => (hg a).2)⟩
  intro d s b t h hc
  simp only [M.bind_apply] at h ⊢
  cases hfs : f (lift d s) with
  | mk r t1 =>
    rw [hfs] at h
    cases r with
    | ok a =>
      simp only [] at h
      have e1 := (hg a).2 t1
      rw [h] at e1
      obtain ⟨s1, hs1, ht1⟩ := hf.1 d s a t1 hfs (Nat.le_trans e1.1 hc)
      have e0 := hf.2 s
      rw [hs1] at e0
      rw [ht1] at h
      obtain ⟨s', hs', ht⟩ := (hg a).1 d s1 b t h (by rw [e0.2]; exact hc)
      exact ⟨s', by rw [hs1]; exact hs', ht⟩
    | err e => cases h
    | panic => cases h

theorem simF_pure {α} (a : α) : SimF (pure a : M α) :=
  ⟨fun d s b t h _ => by simp only [M.pure_apply] at h ⊢; cases h; exact ⟨s, rfl, rfl⟩, ca_of_frame (frame_pure a)⟩

theorem simF_fail {α} (e : WriterErr) : SimF (M.fail e : M α) :=
  ⟨fun d s b t h _ => (by cases h), ca_of_frame (frame_fail e)⟩

theorem simF_panic {α} : SimF (M.panic : M α) :=
  ⟨fun d s b t h _ => (by cases h), ca_of_frame frame_panic⟩

/-- reading something that does not depend on the room -/
theorem simF_gets {α} (f : State → α) (hf : ∀ d s, f (lift d s) = f s) : SimF (M.gets f) :=
  ⟨fun d s b t h _ => by
    simp only [M.gets_apply] at h ⊢
    cases h
    exact ⟨s, by rw [hf], rfl⟩, ca_of_frame (frame_gets f)⟩

theorem simF_gets_bind {α β} {f : State → α} {g : α → M β} (hf : ∀ d s, f (lift d s) = f s)
    (hg : ∀ a, SimF (g a)) : SimF (M.gets f >>= g) := simF_bind (simF_gets f hf) hg

/-- a modification that commutes with `lift` -/
theorem simF_modify (f : State → State) (hc : ∀ d s, f (lift d s) = lift d (f s))
    (he : ∀ s, s.cursor ≤ (f s).cursor ∧ (f s).available = s.available) : SimF (M.modify f) :=
  ⟨fun d s b t h _ => by
    simp only [M.modify_apply] at h ⊢
    cases h
    exact ⟨f s, rfl, hc d s⟩, fun s => he s⟩

theorem simF_tryPush (dd : List UInt8) : SimF (tryPush dd) := by
  refine ⟨?_, ca_of_frame (frame_tryPush dd)⟩
  intro d s b t h hc
  unfold tryPush at h
  split at h
  · cases h
  · next h1 =>
    split at h
    · next h2 =>
      split at h
      · next h3 =>
        cases h
        have h1' : ¬ s.available + d < s.cursor := h1
        have h2' : s.available + d - s.cursor ≥ dd.length := h2
        have h3' : s.cursor + dd.length ≤ s.octets.size := h3
        have hc' : s.cursor + dd.length ≤ s.available := hc
        unfold tryPush
        rw [if_neg (by omega), if_pos (by omega), if_pos h3']
        exact ⟨_, rfl, rfl⟩
      · cases h
    · cases h

theorem simF_write (pos : Nat) (dd : List UInt8) : SimF (write pos dd) := by
  refine ⟨?_, ?_⟩
  · intro d s b t h _
    unfold write at h
    split at h
    · next hh =>
      cases h
      have hh' : pos + dd.length ≤ s.octets.size := hh
      unfold write
      rw [if_pos hh']
      exact ⟨_, rfl, rfl⟩
    · cases h
  · intro s
    unfold write
    split <;> exact ⟨Nat.le_refl _, rfl⟩

theorem simF_setCtx (c : NameCtx) : SimF (setCtx c) :=
  simF_modify _ (fun _ _ => rfl) (fun _ => ⟨Nat.le_refl _, rfl⟩)

theorem simF_ghostLabels (p : Nat) (l : List Label) (b : Bool) : SimF (ghostLabels p l b) :=
  simF_modify _ (fun _ _ => rfl) (fun _ => ⟨Nat.le_refl _, rfl⟩)

theorem simF_hvPush (p : Option Nat) : SimF (hvPush p) := by
  unfold hvPush
  refine simF_modify _ (fun d s => ?_) (fun s => ?_)
  · show (match s.hv with
      | some v => if v.length < Gen.HINT_POINTER_VEC_SIZE then { lift d s with hv := some (v ++ [p]) } else lift d s
      | none => lift d s) = _
    cases s.hv with
    | none => rfl
    | some v => simp only []; split <;> rfl
  · cases hh : s.hv with
    | none => simp [hh]
    | some v => simp only [hh]; split <;> exact ⟨Nat.le_refl _, rfl⟩

theorem simF_pushPointer (p : Nat) : SimF (pushPointer p) := by
  unfold pushPointer
  exact simF_gets_bind (fun _ _ => rfl) fun ev => simF_bind (simF_tryPush _) fun _ =>
    simF_modify _ (fun _ _ => rfl) (fun _ => ⟨Nat.le_refl _, rfl⟩)

theorem simF_writeUncompressedName (n : WName) : SimF (writeUncompressedName n) := by
  unfold writeUncompressedName
  exact simF_gets_bind (fun _ _ => rfl) fun cur => simF_bind (simF_tryPush _) fun _ =>
    simF_bind (simF_ghostLabels _ _ _) fun _ => simF_pure _

theorem simF_writeCompressedUnhintedName (n : WName) : SimF (writeCompressedUnhintedName n) := by
  unfold writeCompressedUnhintedName
  refine simF_gets_bind (fun _ _ => rfl) fun dcs => simF_gets_bind (fun _ _ => rfl) fun cur => ?_
  cases dcs with
  | panic => exact simF_panic
  | err e => exact simF_panic
  | ok r =>
    cases r with
    | none => exact simF_writeUncompressedName n
    | some m =>
      simp only []
      split
      · exact simF_bind (simF_pushPointer _) fun _ => simF_pure _
      · exact simF_bind (simF_tryPush _) fun _ => simF_bind (simF_ghostLabels _ _ _) fun _ =>
          simF_bind (simF_pushPointer _) fun _ => simF_pure _

theorem simF_writeUnhintedName (n : WName) : SimF (writeUnhintedName n) := by
  unfold writeUnhintedName
  refine simF_gets_bind (fun _ _ => rfl) fun mode => ?_
  split
  · exact simF_writeCompressedUnhintedName n
  · exact simF_writeUncompressedName n

theorem simF_pushHinted (p : Prior) : SimF (pushHinted p) := by
  unfold pushHinted
  exact simF_bind (simF_pushPointer _) fun _ => simF_pure _

theorem simF_writeHintedName (h : Hint) (n : WName) : SimF (writeHintedName h n) := by
  unfold writeHintedName
  refine simF_gets_bind (fun _ _ => rfl) fun mode => ?_
  split
  · exact simF_writeUncompressedName n
  · split
    · exact simF_writeCompressedUnhintedName n
    · cases h with
      | qname =>
        refine simF_gets_bind (fun _ _ => rfl) fun q => ?_
        cases q with
        | some q => exact simF_pushHinted q
        | none => exact simF_writeCompressedUnhintedName n
      | mostRecentOwner =>
        refine simF_gets_bind (fun _ _ => rfl) fun q => ?_
        cases q with
        | some q => exact simF_pushHinted q
        | none => exact simF_writeCompressedUnhintedName n
      | mostRecentNameInRdata =>
        refine simF_gets_bind (fun _ _ => rfl) fun q => ?_
        cases q with
        | some q => exact simF_pushHinted q
        | none => exact simF_writeCompressedUnhintedName n
      | explicit p =>
        refine simF_gets_bind (fun _ _ => rfl) fun cur => ?_
        split
        · exact simF_pushHinted _
        · exact simF_writeCompressedUnhintedName n
      | none => exact simF_writeCompressedUnhintedName n

theorem simF_writeComponents (ts : List CompType) (rd : List UInt8) : SimF (writeComponents ts rd) := by
  induction ts generalizing rd with
  | nil =>
    unfold writeComponents
    split
    · exact simF_pure _
    · exact simF_tryPush _
  | cons t ts ih =>
    cases t with
    | compressibleName =>
      unfold writeComponents
      cases WName.parse rd with
      | none => exact simF_fail _
      | some p =>
        obtain ⟨n, rest⟩ := p
        exact simF_bind (simF_setCtx _) fun _ => simF_bind (simF_writeUnhintedName n) fun p =>
          simF_bind (simF_setCtx _) fun _ =>
          simF_bind (simF_modify _ (fun _ _ => rfl) (fun _ => ⟨Nat.le_refl _, rfl⟩)) fun _ =>
          simF_bind (simF_hvPush _) fun _ => ih rest
    | uncompressibleName =>
      unfold writeComponents
      cases WName.parse rd with
      | none => exact simF_fail _
      | some p =>
        obtain ⟨n, rest⟩ := p
        exact simF_bind (simF_setCtx _) fun _ => simF_bind (simF_writeUncompressedName n) fun p =>
          simF_bind (simF_setCtx _) fun _ =>
          simF_bind (simF_modify _ (fun _ _ => rfl) (fun _ => ⟨Nat.le_refl _, rfl⟩)) fun _ =>
          simF_bind (simF_hvPush _) fun _ => ih rest
    | fixedLen k =>
      unfold writeComponents
      split
      · exact simF_fail _
      · exact simF_bind (simF_tryPush _) fun _ => ih _

theorem simF_writeRdata (cls ty : Nat) (rd : List UInt8) : SimF (writeRdata cls ty rd) := by
  unfold writeRdata
  cases componentTypes cls ty with
  | none => exact simF_panic
  | some ts => exact simF_writeComponents ts rd

/-- the part of `add_rr` after the RDLENGTH placeholder was reserved at `st` -/
def rrTail (cls ty : Nat) (rd : List UInt8) (st : Nat) : M Unit := do
  M.modify fun s => { s with cursor := s.cursor + 2 }
  writeRdata cls ty rd
  let cur' ← M.gets (·.cursor)
  if cur' < st + 2 then M.panic
  else write st (u16be ((cur' - st - 2) % 65536))

theorem simF_rrTail (cls ty : Nat) (rd : List UInt8) (st : Nat) : SimF (rrTail cls ty rd st) := by
  unfold rrTail
  refine simF_bind (simF_modify _ (fun _ _ => rfl) (fun s => ⟨by simp, rfl⟩)) fun _ =>
    simF_bind (simF_writeRdata cls ty rd) fun _ => simF_gets_bind (fun _ _ => rfl) fun cur' => ?_
  split
  · exact simF_panic
  · exact simF_write _ _

theorem nice_rrTail (cls ty : Nat) (rd : List UInt8) (st : Nat) : Nice 2 (rrTail cls ty rd st) := by
  unfold rrTail
  refine nice_bind_left
    (nice_modify 2 (fun s => { s with cursor := s.cursor + 2 }) (fun _ => rfl) (fun _ => Nat.le_refl _))
    (fun _ => nice_bind0 (nice_writeRdata cls ty rd) fun _ => nice_gets_bind fun cur' => ?_)
  split
  · exact nice_panic
  · exact nice_write _ _

/-- the RDLENGTH check of `add_rr` reads `available`: with more room it passes more easily, but a
    run that ends within the smaller room passes it there too -/
def rrCheck (cls ty : Nat) (rd : List UInt8) : M Unit := do
  let av ← M.gets (·.available)
  let st ← M.gets (·.cursor)
  if av < st then M.panic
  else if av - st < 2 then M.fail .Truncation
  else rrTail cls ty rd st

theorem simF_rrCheck (cls ty : Nat) (rd : List UInt8) : SimF (rrCheck cls ty rd) := by
  refine ⟨?_, ?_⟩
  · intro d s a t h hc
    unfold rrCheck at h ⊢
    simp only [M.bind_apply, M.gets_apply] at h ⊢
    have hav : (lift d s).available = s.available + d := rfl
    have hcu : (lift d s).cursor = s.cursor := rfl
    rw [hav, hcu] at h
    by_cases h1 : s.available + d < s.cursor
    · rw [if_pos h1] at h; cases h
    · rw [if_neg h1] at h
      by_cases h2 : s.available + d - s.cursor < 2
      · rw [if_pos h2] at h; cases h
      · rw [if_neg h2] at h
        have hg := (nice_rrTail cls ty rd s.cursor (lift d s)).2.2 a (by rw [h])
        rw [h] at hg
        simp only [] at hg
        have hcu' : (lift d s).cursor = s.cursor := rfl
        rw [hcu'] at hg
        rw [if_neg (by omega), if_neg (by omega)]
        exact (simF_rrTail cls ty rd s.cursor).1 d s a t h hc
  · intro s
    unfold rrCheck
    simp only [M.bind_apply, M.gets_apply]
    split
    · exact ⟨Nat.le_refl _, rfl⟩
    · split
      · exact ⟨Nat.le_refl _, rfl⟩
      · exact (simF_rrTail cls ty rd s.cursor).2 s

theorem addRr_eq (hint : Hint) (owner : WName) (ty cls ttl : Nat) (rd : List UInt8) :
    addRr hint owner ty cls ttl rd = (do
      setCtx .owner
      let p ← writeHintedName hint owner
      setCtx .none
      M.modify fun s => { s with mostRecentOwner := p }
      tryPushU16 ty
      tryPushU16 cls
      tryPushU32 ttl
      rrCheck cls ty rd) := rfl

theorem simF_addRr (hint : Hint) (owner : WName) (ty cls ttl : Nat) (rd : List UInt8) :
    SimF (addRr hint owner ty cls ttl rd) := by
  rw [addRr_eq]
  exact simF_bind (simF_setCtx _) fun _ => simF_bind (simF_writeHintedName hint owner) fun p =>
    simF_bind (simF_setCtx _) fun _ =>
    simF_bind (simF_modify _ (fun _ _ => rfl) (fun _ => ⟨Nat.le_refl _, rfl⟩)) fun _ =>
    simF_bind (simF_tryPush _) fun _ => simF_bind (simF_tryPush _) fun _ =>
    simF_bind (simF_tryPush _) fun _ => simF_rrCheck cls ty rd

theorem simF_addRrset (owner : WName) (ty cls ttl : Nat) :
    ∀ (rds : List (List UInt8)) (hint : Hint) (n : Nat), SimF (addRrset hint owner ty cls ttl rds n) := by
  intro rds
  induction rds with
  | nil => intro hint n; unfold addRrset; exact simF_pure _
  | cons rd rest ih =>
    intro hint n
    unfold addRrset
    exact simF_bind (simF_addRr hint owner ty cls ttl rd) fun _ => ih _ _

theorem simF_changeSection (sec : RrSection) : SimF (changeSection sec) := by
  refine ⟨?_, ca_of_frame (frame_changeSection sec)⟩
  intro d s a t h _
  unfold changeSection at h ⊢
  have hs : (lift d s).sect = s.sect := rfl
  rw [hs] at h
  cases sec <;> cases hsec : s.sect <;> simp only [hsec] at h ⊢ <;> cases h <;> exact ⟨_, rfl, rfl⟩

theorem simF_setCount (sec : RrSection) (n : Nat) : SimF (setCount sec n) := by
  unfold setCount
  refine simF_modify _ (fun d s => ?_) (fun s => ?_) <;> cases sec <;> first | rfl | exact ⟨Nat.le_refl _, rfl⟩

/-- `with_rollback` passes successes through -/
theorem sim_withRollback {α} {f : M α} (hf : Sim f) : Sim (withRollback f) := by
  intro d s a t h hc
  rw [withRollback_apply] at h ⊢
  cases hfs : f (lift d s) with
  | mk r t1 =>
    rw [hfs] at h
    cases r with
    | ok b =>
      simp only [] at h
      cases h
      obtain ⟨s', hs', ht⟩ := hf d s a t hfs hc
      rw [hs']
      exact ⟨s', rfl, ht⟩
    | err e => cases h
    | panic => cases h

theorem getCount_lift (sec : RrSection) (d : Nat) (s : State) : getCount sec (lift d s) = getCount sec s := by
  cases sec <;> rfl

/-- **`add_*_rrset` does not depend on the limit** -/
theorem sim_addRrsetOp (sec : RrSection) (hint : Hint) (owner : WName) (ty cls ttl : Nat)
    (rds : List (List UInt8)) : Sim (addRrsetOp sec hint owner ty cls ttl rds) := by
  unfold addRrsetOp
  refine sim_withRollback (simF_bind (simF_changeSection sec) fun _ =>
    simF_bind (simF_addRrset owner ty cls (ttlFrom ttl) rds hint 0) fun n =>
    simF_gets_bind (fun d s => getCount_lift sec d s) fun c => ?_).1
  split
  · exact simF_fail _
  · split
    · exact simF_fail _
    · exact simF_setCount _ _

/-- **`add_*_rr` does not depend on the limit** -/
theorem sim_addRrOp (sec : RrSection) (hint : Hint) (owner : WName) (ty cls ttl : Nat)
    (rd : List UInt8) : Sim (addRrOp sec hint owner ty cls ttl rd) := by
  unfold addRrOp
  refine sim_withRollback (simF_bind (simF_changeSection sec) fun _ =>
    simF_bind (simF_addRr hint owner ty cls (ttlFrom ttl) rd) fun _ =>
    simF_gets_bind (fun d s => getCount_lift sec d s) fun c => ?_).1
  split
  · exact simF_fail _
  · exact simF_setCount _ _

/-! ### header operations, and sequences of answer-phase calls -/

theorem sim_setHdr (i : Nat) (f : UInt8 → UInt8) : Sim (setHdr i f) := by
  intro d s a t h _
  unfold setHdr at h
  split at h
  · next hh =>
    cases h
    have hh' : i < s.octets.size := hh
    unfold setHdr
    rw [dif_pos hh']
    exact ⟨_, rfl, rfl⟩
  · cases h

theorem ca_setHdr (i : Nat) (f : UInt8 → UInt8) : CA (setHdr i f) := by
  intro s; unfold setHdr; split <;> exact ⟨Nat.le_refl _, rfl⟩

theorem simF_setRcode (v : Nat) : SimF (setRcode v) := by
  unfold setRcode
  refine simF_bind ⟨sim_setHdr _ _, ca_setHdr _ _⟩ fun _ => simF_modify _ (fun d s => ?_) (fun s => ?_)
  · show (match s.edns with
      | some e => { lift d s with edns := some { e with upper := 0 } }
      | none => lift d s) = _
    cases s.edns <;> rfl
  · cases he : s.edns <;> simp [he]

/-- the calls the answer phase makes when nothing fails -/
inductive AnsCall where
  | setAa (b : Bool)
  | setRcode (v : Nat)
  | addRr (sec : RrSection) (hint : Hint) (owner : WName) (ty cls ttl : Nat) (rdata : List UInt8)
  | addRrset (sec : RrSection) (hint : Hint) (owner : WName) (ty cls ttl : Nat) (rdatas : List (List UInt8))

def AnsCall.run : AnsCall → M Unit
  | .setAa b => Writer.setAa b
  | .setRcode v => Writer.setRcode v
  | .addRr sec h o ty cls ttl rd => addRrOp sec h o ty cls ttl rd
  | .addRrset sec h o ty cls ttl rds => addRrsetOp sec h o ty cls ttl rds

theorem sim_ansCall (c : AnsCall) : Sim c.run := by
  cases c with
  | setAa b => exact (show Sim (setBit Gen.AA_BYTE Gen.AA_MASK b) from by unfold setBit; exact sim_setHdr _ _)
  | setRcode v => exact (simF_setRcode v).1
  | addRr sec h o ty cls ttl rd => exact sim_addRrOp sec h o ty cls ttl rd
  | addRrset sec h o ty cls ttl rds => exact sim_addRrsetOp sec h o ty cls ttl rds

/-- a successful call only advances the cursor and leaves `available` alone -/
theorem ansCall_ok_ca (c : AnsCall) (s s' : State) (h : c.run s = (.ok (), s')) :
    s.cursor ≤ s'.cursor ∧ s'.available = s.available := by
  cases c with
  | setAa b =>
    have hca : CA (setBit Gen.AA_BYTE Gen.AA_MASK b) := by unfold setBit; exact ca_setHdr _ _
    have := hca s
    have e : AnsCall.run (.setAa b) s = setBit Gen.AA_BYTE Gen.AA_MASK b s := rfl
    rw [e] at h; rw [h] at this; exact this
  | setRcode v => have := (simF_setRcode v).2 s
                  have e : AnsCall.run (.setRcode v) s = Writer.setRcode v s := rfl
                  rw [e] at h; rw [h] at this; exact this
  | addRr sec hh o ty cls ttl rd =>
    have := addRrOp_cases sec hh o ty cls ttl rd s
    have e : AnsCall.run (.addRr sec hh o ty cls ttl rd) s = addRrOp sec hh o ty cls ttl rd s := rfl
    rw [e] at h; rw [h] at this
    obtain ⟨s1, e1, _, hs'⟩ := this
    rw [hs']
    cases sec <;> exact ⟨e1.cur, e1.available⟩
  | addRrset sec hh o ty cls ttl rds =>
    have := addRrsetOp_cases sec hh o ty cls ttl rds s
    have e : AnsCall.run (.addRrset sec hh o ty cls ttl rds) s = addRrsetOp sec hh o ty cls ttl rds s := rfl
    rw [e] at h; rw [h] at this
    obtain ⟨s1, n, e1, _, hs'⟩ := this
    rw [hs']
    cases sec <;> exact ⟨e1.cur, e1.available⟩

/-- run a sequence of calls, stopping at the first that does not succeed -/
def runCalls : List AnsCall → State → Out WriterErr Unit × State
  | [], s => (.ok (), s)
  | c :: cs, s =>
    match c.run s with
    | (.ok (), s') => runCalls cs s'
    | r => r

theorem runCalls_ok_ca : ∀ (cs : List AnsCall) (s s' : State), runCalls cs s = (.ok (), s') →
    s.cursor ≤ s'.cursor ∧ s'.available = s.available := by
  intro cs
  induction cs with
  | nil => intro s s' h; simp only [runCalls] at h; cases h; exact ⟨Nat.le_refl _, rfl⟩
  | cons c cs ih =>
    intro s s' h
    simp only [runCalls] at h
    rcases hc : c.run s with ⟨(u | e | _), s1⟩
    · rw [hc] at h
      have h1 := ansCall_ok_ca c s s1 hc
      have h2 := ih s1 s' h
      exact ⟨Nat.le_trans h1.1 h2.1, by rw [h2.2, h1.2]⟩
    · rw [hc] at h; cases h
    · rw [hc] at h; cases h

/-- **limit monotonicity for a sequence of answer-phase calls**: if every call succeeds with `d`
    more octets of room and the result fits the smaller room, every call succeeds with the
    smaller room too, and the two final states differ only in the room (same cursor, same octets,
    same counts, same header) -/
theorem sim_runCalls : ∀ (cs : List AnsCall) (d : Nat) (s t : State),
    runCalls cs (lift d s) = (.ok (), t) → t.cursor ≤ s.available →
    ∃ s', runCalls cs s = (.ok (), s') ∧ t = lift d s' := by
  intro cs
  induction cs with
  | nil => intro d s t h _; simp only [runCalls] at h ⊢; cases h; exact ⟨s, rfl, rfl⟩
  | cons c cs ih =>
    intro d s t h hc
    simp only [runCalls] at h ⊢
    rcases hr : c.run (lift d s) with ⟨(u | e | _), t1⟩
    · rw [hr] at h
      have hmono := runCalls_ok_ca cs t1 t h
      obtain ⟨s1, hs1, ht1⟩ := sim_ansCall c d s () t1 hr (Nat.le_trans hmono.1 hc)
      have h1 := ansCall_ok_ca c s s1 hs1
      rw [ht1] at h
      obtain ⟨s', hs', ht⟩ := ih d s1 t h (by rw [h1.2]; exact hc)
      rw [hs1]
      exact ⟨s', hs', ht⟩
    · rw [hr] at h; cases h
    · rw [hr] at h; cases h

/-! ## the answer phase of the server does not depend on the limit

  `SimP m`: if `m`, started with `d` more octets of room, succeeds, logs only accepted calls (no
  call failed — in particular no optional one was dropped) and ends within the smaller room, then
  started with the smaller room it succeeds with the same value, the same log, and the same final
  writer up to the room. -/

/-- every logged call was accepted, and no header operation failed -/
def OkEv (e : Ev) : Prop := e ≠ .bad ∧ ∀ x, e = .add x → x.res = .ok ()

def SimP {α} (m : PM α) : Prop :=
  ∀ (d : Nat) (w : State) (log : List Ev) (a : α) (pt : PS),
    m ⟨lift d w, log⟩ = (.ok a, pt) → (∀ e ∈ pt.log, OkEv e) → pt.w.cursor ≤ w.available →
    ∃ ps', m ⟨w, log⟩ = (.ok a, ps') ∧ pt = ⟨lift d ps'.w, ps'.log⟩

/-- on success the cursor only advanced, `available` is untouched and the log only grew -/
def CAP {α} (m : PM α) : Prop :=
  ∀ (ps : PS) (a : α) (ps' : PS), m ps = (.ok a, ps') →
    ps.w.cursor ≤ ps'.w.cursor ∧ ps'.w.available = ps.w.available ∧ ∃ evs, ps'.log = ps.log ++ evs

def SimPF {α} (m : PM α) : Prop := SimP m ∧ CAP m

theorem simPF_pure {α} (a : α) : SimPF (Pure.pure a : PM α) := by
  refine ⟨?_, ?_⟩
  · intro d w log b pt h _ _
    simp only [pure_def] at h ⊢
    cases h
    exact ⟨_, rfl, rfl⟩
  · intro ps b ps' h
    simp only [pure_def] at h
    cases h
    exact ⟨Nat.le_refl _, rfl, [], by simp⟩

theorem simPF_fail {α} (e : PErr) : SimPF (PM.fail e : PM α) :=
  ⟨fun d w log b pt h _ _ => by simp [PM.fail] at h, fun ps b ps' h => by simp [PM.fail] at h⟩

theorem simPF_panic {α} : SimPF (PM.panic : PM α) :=
  ⟨fun d w log b pt h _ _ => by simp [PM.panic] at h, fun ps b ps' h => by simp [PM.panic] at h⟩

theorem simPF_bind {α β} {m : PM α} {f : α → PM β} (hm : SimPF m) (hf : ∀ a, SimPF (f a)) : SimPF (m >>= f) := by
  refine ⟨?_, ?_⟩
  · intro d w log b pt h hok hc
    rw [bind_def] at h ⊢
    rcases hmm : m ⟨lift d w, log⟩ with ⟨(a | e | _), pt1⟩
    · rw [hmm] at h
      simp only [] at h
      obtain ⟨c1, c2, evs2, c3⟩ := (hf a).2 pt1 b pt h
      have hok1 : ∀ e ∈ pt1.log, OkEv e := fun e he => hok e (by rw [c3]; exact List.mem_append_left _ he)
      obtain ⟨ps1, hs1, hpt1⟩ := hm.1 d w log a pt1 hmm hok1 (Nat.le_trans c1 hc)
      obtain ⟨b1, b2, _⟩ := hm.2 ⟨w, log⟩ a ps1 hs1
      rw [hpt1] at h
      obtain ⟨ps', hs', hpt⟩ := (hf a).1 d ps1.w ps1.log b pt h hok (by rw [b2]; exact hc)
      rw [hs1]
      exact ⟨ps', hs', hpt⟩
    · rw [hmm] at h; simp at h
    · rw [hmm] at h; simp at h
  · intro ps b ps' h
    rw [bind_def] at h
    rcases hmm : m ps with ⟨(a | e | _), ps1⟩
    · rw [hmm] at h
      simp only [] at h
      obtain ⟨a1, a2, evs1, a3⟩ := hm.2 ps a ps1 hmm
      obtain ⟨c1, c2, evs2, c3⟩ := (hf a).2 ps1 b ps' h
      exact ⟨Nat.le_trans a1 c1, by rw [c2, a2], evs1 ++ evs2, by rw [c3, a3, List.append_assoc]⟩
    · rw [hmm] at h; simp at h
    · rw [hmm] at h; simp at h

/-- a header operation that does not look at the room -/
theorem simPF_hdrOp (ev : Ev) (m : M Unit) (hs : Sim m) (hca : CA m) : SimPF (PM.hdrOp ev m) := by
  refine ⟨?_, ?_⟩
  · intro d w log b pt h _ hc
    unfold PM.hdrOp at h ⊢
    simp only [] at h ⊢
    rcases hm : m (lift d w) with ⟨(u | e | _), t⟩
    · rw [hm] at h
      simp only [] at h
      cases h
      obtain ⟨s', hs', ht⟩ := hs d w () t hm hc
      rw [hs']
      exact ⟨_, rfl, by rw [ht]⟩
    · rw [hm] at h; simp at h
    · rw [hm] at h; simp at h
  · intro ps b ps' h
    unfold PM.hdrOp at h
    have := hca ps.w
    rcases hm : m ps.w with ⟨(u | e | _), t⟩
    · rw [hm] at h this
      simp only [] at h
      cases h
      exact ⟨this.1, this.2, [ev], rfl⟩
    · rw [hm] at h; simp at h
    · rw [hm] at h; simp at h

theorem simPF_setAa (b : Bool) : SimPF (PM.setAa b) :=
  simPF_hdrOp _ _ (by unfold Writer.setAa setBit; exact sim_setHdr _ _) (by unfold Writer.setAa setBit; exact ca_setHdr _ _)

theorem simPF_setRcode (v : Nat) : SimPF (PM.setRcode v) :=
  simPF_hdrOp _ _ (simF_setRcode v).1 (simF_setRcode v).2

/-- what a record-adding writer call must satisfy: limit-independent; on success the cursor only
    advances; on failure the state is rolled back -/
structure AddOp (f : M Unit) : Prop where
  sim : Sim f
  ok : ∀ s s', f s = (.ok (), s') → s.cursor ≤ s'.cursor ∧ s'.available = s.available
  err : ∀ s e s', f s = (.err e, s') → s'.cursor = s.cursor ∧ s'.available = s.available

theorem addOp_rrset (sec : RrSection) (hint : Hint) (owner : WName) (ty cls ttl : Nat) (rds : List (List UInt8)) :
    AddOp (addRrsetOp sec hint owner ty cls ttl rds) := by
  refine ⟨sim_addRrsetOp sec hint owner ty cls ttl rds, fun s s' h => ?_, fun s e s' h => ?_⟩
  · have := addRrsetOp_cases sec hint owner ty cls ttl rds s
    rw [h] at this
    obtain ⟨s1, n, e1, _, hs'⟩ := this
    rw [hs']
    cases sec <;> exact ⟨e1.cur, e1.available⟩
  · have := addRrsetOp_cases sec hint owner ty cls ttl rds s
    rw [h] at this
    exact ⟨this.cursor, this.available⟩

theorem addOp_rr (sec : RrSection) (hint : Hint) (owner : WName) (ty cls ttl : Nat) (rd : List UInt8) :
    AddOp (addRrOp sec hint owner ty cls ttl rd) := by
  refine ⟨sim_addRrOp sec hint owner ty cls ttl rd, fun s s' h => ?_, fun s e s' h => ?_⟩
  · have := addRrOp_cases sec hint owner ty cls ttl rd s
    rw [h] at this
    obtain ⟨s1, e1, _, hs'⟩ := this
    rw [hs']
    cases sec <;> exact ⟨e1.cur, e1.available⟩
  · have := addRrOp_cases sec hint owner ty cls ttl rd s
    rw [h] at this
    exact ⟨this.cursor, this.available⟩

theorem simPF_addCall (ev : AddEv) (f : M Unit) (hf : AddOp f) : SimPF (PM.addCall ev (Server.withHv [] f)) := by
  refine ⟨?_, ?_⟩
  · intro d w log b pt h hok hc
    unfold PM.addCall Server.withHv at h ⊢
    simp only [] at h ⊢
    have hl : ({ lift d w with hv := some [] } : State) = lift d { w with hv := some [] } := rfl
    rw [hl] at h
    rcases hm : f (lift d { w with hv := some [] }) with ⟨(u | e | _), t⟩
    · rw [hm] at h
      simp only [] at h
      cases h
      obtain ⟨s', hs', ht⟩ := hf.sim d { w with hv := some [] } () t hm hc
      subst ht
      rw [hs']
      exact ⟨_, rfl, rfl⟩
    · rw [hm] at h
      simp only [] at h
      split at h
      · -- a swallowed `Truncation`: the log then holds a failed call
        cases h
        have := hok (.add { ev with res := .err e }) (by simp)
        exact absurd (this.2 _ rfl) (by simp)
      · cases h
    · rw [hm] at h; simp at h
  · intro ps b ps' h
    unfold PM.addCall Server.withHv at h
    simp only [] at h
    rcases hm : f { ps.w with hv := some [] } with ⟨(u | e | _), t⟩
    · rw [hm] at h
      simp only [] at h
      cases h
      have := hf.ok _ _ hm
      exact ⟨this.1, this.2, _, rfl⟩
    · rw [hm] at h
      simp only [] at h
      have := hf.err _ _ _ hm
      split at h
      · cases h
        exact ⟨by rw [this.1]; exact Nat.le_refl _, this.2, _, rfl⟩
      · cases h
    · rw [hm] at h; simp at h

theorem simPF_addRrs (opt : Bool) (sec : RrSection) (hint : Hint) (owner : WName) (ty cls ttl : Nat)
    (rds : List (List UInt8)) : SimPF (PM.addRrs opt sec hint owner ty cls ttl rds) :=
  simPF_addCall _ _ (addOp_rrset sec hint owner ty cls ttl rds)

theorem simPF_addRr1 (sec : RrSection) (hint : Hint) (owner : WName) (ty cls ttl : Nat) (rd : List UInt8) :
    SimPF (PM.addRr1 sec hint owner ty cls ttl rd) := by
  unfold PM.addRr1
  exact simPF_bind (simPF_addCall _ _ (addOp_rr sec hint owner ty cls ttl rd)) (fun _ => simPF_pure ())

/-! ### the functions of query.rs -/

theorem simPF_readName (rd : List UInt8) (start : Nat) : SimPF (readNameFromRdata rd start) := by
  unfold readNameFromRdata
  split
  · exact simPF_fail _
  · split
    · exact simPF_pure _
    · exact simPF_fail _

theorem simPF_aaaaPart (z : Zone.Zone) (hint : Hint) (owner : WName) (opt : Bool) (aaaa : Option Zone.Rrset) :
    SimPF (Server.addAaaa z hint owner opt aaaa) := by
  unfold Server.addAaaa
  split
  · cases aaaa with
    | none => exact simPF_pure ()
    | some r => exact simPF_bind (simPF_addRrs opt .additional hint owner _ _ _ _) (fun _ => simPF_pure ())
  · exact simPF_pure ()

theorem simPF_addrs (z : Zone.Zone) (hint : Hint) (owner : WName) (sbc opt : Bool) :
    SimPF (addAdditionalAddresses z hint owner sbc opt) := by
  unfold addAdditionalAddresses
  split
  · next a aaaa sos _ =>
    cases a with
    | none => exact simPF_aaaaPart z hint owner opt aaaa
    | some r =>
      refine simPF_bind (simPF_addRrs opt .additional hint owner _ _ _ _) (fun o => ?_)
      cases o with
      | none => exact simPF_pure ()
      | some x => exact simPF_aaaaPart z _ owner opt aaaa
  · exact simPF_pure ()
  · exact simPF_pure ()
  · exact simPF_panic

theorem simPF_additionalLoop (z : Zone.Zone) (start : Nat) (hv : Option HV) (rds : List (List UInt8)) (idx : Nat) :
    SimPF (Server.additionalLoop z start hv rds idx) := by
  induction rds generalizing idx with
  | nil => unfold Server.additionalLoop; exact simPF_pure ()
  | cons rd rest ih =>
    unfold Server.additionalLoop
    exact simPF_bind (simPF_readName rd start) (fun n =>
      simPF_bind (simPF_addrs z _ n false true) (fun _ => ih (idx + 1)))

theorem simPF_additionalProcessing (z : Zone.Zone) (t : Nat) (s : Zone.Rrset) (hv : Option HV) :
    SimPF (doAdditionalSectionProcessing z t s hv) := by
  unfold doAdditionalSectionProcessing
  split
  · exact simPF_pure ()
  · split
    · exact simPF_additionalLoop z 0 hv s.rdatas 0
    · split
      · exact simPF_additionalLoop z 2 hv s.rdatas 0
      · split
        · exact simPF_additionalLoop z 6 hv s.rdatas 0
        · exact simPF_pure ()

theorem simPF_readSoaMinimum (rd : List UInt8) : SimPF (Server.readSoaMinimum rd) := by
  unfold Server.readSoaMinimum
  split
  · split
    · split
      · exact simPF_fail _
      · dsimp only
        split
        · exact simPF_pure _
        · exact simPF_fail _
    · exact simPF_fail _
  · exact simPF_fail _

theorem simPF_negativeSoa (z : Zone.Zone) : SimPF (addNegativeCachingSoa z) := by
  unfold addNegativeCachingSoa
  split
  · exact simPF_fail _
  · split
    · exact simPF_fail _
    · exact simPF_bind (simPF_readSoaMinimum _) (fun m => simPF_addRr1 .authority _ _ _ _ _ _)

theorem simPF_classifyNs (child : WName) (rds : List (List UInt8)) (idx : Nat) :
    SimPF (Server.classifyNs child rds idx) := by
  induction rds generalizing idx with
  | nil => unfold Server.classifyNs; exact simPF_pure _
  | cons rd rest ih =>
    unfold Server.classifyNs
    refine simPF_bind (simPF_readName rd 0) (fun n => simPF_bind (ih (idx + 1)) (fun p => ?_))
    obtain ⟨g, a⟩ := p
    simp only []
    split
    · exact simPF_pure _
    · exact simPF_pure _

theorem simPF_glueLoop (z : Zone.Zone) (hv : HV) (opt : Bool) (l : List (Nat × WName)) :
    SimPF (Server.glueLoop z hv opt l) := by
  induction l with
  | nil => unfold Server.glueLoop; exact simPF_pure ()
  | cons p rest ih =>
    unfold Server.glueLoop
    exact simPF_bind (simPF_addrs z _ p.2 true opt) (fun _ => ih)

theorem simPF_referral (z : Zone.Zone) (child : NameL.Name) (ns : Zone.Rrset) : SimPF (doReferral z child ns) := by
  unfold doReferral
  refine simPF_bind (simPF_addRrs false .authority .none _ _ _ _ _) (fun hv =>
    simPF_bind (simPF_classifyNs _ ns.rdatas 0) (fun p => ?_))
  obtain ⟨g, a⟩ := p
  simp only []
  exact simPF_bind (simPF_glueLoop z _ false g) (fun _ => simPF_glueLoop z _ true a)

theorem simPF_followCname (z : Zone.Zone) (qname : WName) (qtype : Nat) :
    ∀ (fuel : Nat) (cn : Zone.Rrset) (os : List WName), SimPF (Server.followCname z qname qtype fuel cn os) := by
  intro fuel
  induction fuel with
  | zero => intro cn os; unfold Server.followCname; exact simPF_fail _
  | succ f ih =>
    intro cn os
    rw [Server.followCname]
    split
    · exact simPF_fail _
    · split
      · split
        · exact simPF_fail _
        · refine simPF_bind (simPF_addRr1 .answer _ _ _ _ _ _) (fun _ => ?_)
          split
          · exact simPF_bind (simPF_addRrs false .answer _ _ _ _ _ _)
              (fun hv => simPF_additionalProcessing z qtype _ hv)
          · split
            · exact ih _ _
            · exact simPF_fail _
          · exact simPF_referral z _ _
          · exact simPF_negativeSoa z
          · exact simPF_bind (simPF_setRcode _) (fun _ => simPF_negativeSoa z)
          · exact simPF_pure ()
          · exact simPF_pure ()
          · exact simPF_panic
      · exact simPF_fail _

theorem simPF_answer (z : Zone.Zone) (qname : WName) (qtype : Nat) : SimPF (Server.answer z qname qtype) := by
  unfold Server.answer
  split
  · exact simPF_bind (simPF_setAa true) (fun _ => simPF_bind (simPF_addRrs false .answer _ _ _ _ _ _)
      (fun hv => simPF_additionalProcessing z qtype _ hv))
  · unfold Server.doCname
    exact simPF_bind (simPF_setAa true) (fun _ => simPF_followCname z qname qtype _ _ _)
  · exact simPF_referral z _ _
  · exact simPF_bind (simPF_setAa true) (fun _ => simPF_negativeSoa z)
  · exact simPF_bind (simPF_setRcode _) (fun _ => simPF_bind (simPF_setAa true) (fun _ => simPF_negativeSoa z))
  · exact simPF_panic
  · exact simPF_panic
  · exact simPF_panic

theorem simPF_answerAnyLoop (z : Zone.Zone) (qname : WName) (rrsets : List Zone.Rrset) (n : Nat) :
    SimPF (Server.answerAnyLoop z qname rrsets n) := by
  induction rrsets generalizing n with
  | nil => unfold Server.answerAnyLoop; exact simPF_pure _
  | cons r rest ih =>
    unfold Server.answerAnyLoop
    exact simPF_bind (simPF_addRrs false .answer _ _ _ _ _ _) (fun _ => ih (n + 1))

theorem simPF_answerAny (z : Zone.Zone) (qname : WName) : SimPF (Server.answerAny z qname) := by
  unfold Server.answerAny
  split
  · refine simPF_bind (simPF_setAa true) (fun _ => simPF_bind (simPF_answerAnyLoop z qname _ 0) (fun n => ?_))
    split
    · exact simPF_negativeSoa z
    · exact simPF_pure ()
  · exact simPF_referral z _ _
  · exact simPF_bind (simPF_setRcode _) (fun _ => simPF_bind (simPF_setAa true) (fun _ => simPF_negativeSoa z))
  · exact simPF_panic
  · exact simPF_panic
  · exact simPF_panic

theorem simPF_inner (z : Zone.Zone) (qname : WName) (qtype : Nat) : SimPF (inner z qname qtype) := by
  unfold ServerAnswer.inner
  split
  · exact simPF_answerAny z qname
  · exact simPF_answer z qname qtype

/-- **the answering logic does not depend on the limit**: if, with `d` more octets of room, it
    succeeds with every call accepted (the complete answer: nothing failed, nothing optional was
    dropped) and the result fits the smaller room, then with the smaller room it makes the same
    calls with the same results — the same log, hence the same RCODE, AA and sections — and
    leaves the same octets. Over TCP and UDP (after `set_limit`) the writers differ exactly by
    such a `d`: this is "the UDP response equals the TCP response whenever the latter fits". -/
theorem inner_limit_independent (z : Zone.Zone) (qname : WName) (qtype : Nat) (d : Nat) (w : State) (pt : PS)
    (h : inner z qname qtype ⟨lift d w, []⟩ = (.ok (), pt)) (hok : ∀ e ∈ pt.log, OkEv e)
    (hc : pt.w.cursor ≤ w.available) :
    ∃ ps', inner z qname qtype ⟨w, []⟩ = (.ok (), ps') ∧ ps'.log = pt.log ∧ pt.w = lift d ps'.w := by
  obtain ⟨ps', h1, h2⟩ := (simPF_inner z qname qtype).1 d w [] () pt h hok hc
  exact ⟨ps', h1, by rw [h2], by rw [h2]⟩

end QV.ServerAnswer
