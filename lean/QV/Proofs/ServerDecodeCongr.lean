/-
  QV.Proofs.ServerDecodeCongr — the decoder congruence `DecodeCongr` of
  `QV.Proofs.ServerSignedCompare`, proved for bodies whose answer / authority records have 16-bit
  types (`decodeCongr_typed`): two `Good` writers with the same body that agree below the cursor
  (`modS`, `lift`, `Same`) finish into messages whose decodings carry the same answer and
  authority records and the same additional records apart from OPT and TSIG.

  Both decodings read the same octets: the records of the layout chain lie below the common cursor,
  `finish` keeps them (`finishWithMac_pres`), and the decoder reads a chain from those octets only
  (`decodeRrs_det`, `QV.Proofs.WriterDecodeCongr`). The additional records are address records:
  decoded exactly as given (`RMatch`).
-/
import QV.Proofs.ServerSignedCompare
import QV.Proofs.WriterDecodeCongr

namespace QV.ServerContent
open QV QV.Wire QV.Writer QV.Server QV.ServerSafety QV.ServerScan QV.ServerAnswer QV.Spec QV.ServerTsig
open QV.Spec.Server QV.Spec.ServerTsig

theorem tsigLower_eq (b : UInt8) : QV.Spec.Tsig.lower b = lowerU8 b := by
  revert b; apply forall_uint8; decide +kernel

/-- the key of a record given, as the audit builds it from an exact decoding -/
def givenKey (r : RRec) : RrKey :=
  ⟨r.owner.wire.map lowerU8, r.ty % 65536, r.cls % 65536, r.ttl % 4294967296, r.rdata⟩

theorem addr_no_cname (cls ty : Nat) (h : ty = 1 ∨ ty = 28) :
    ∀ ts, componentTypes cls ty = some ts → CompType.compressibleName ∉ ts := by
  intro ts hct
  rw [componentTypes_layout] at hct
  simp only [Option.some.injEq] at hct
  subst hct
  unfold Message.layoutOf
  rcases h with rfl | rfl
  · simp only [Nat.reduceEqDiff, or_self, if_false, false_and]
    split <;> simp [layToComp]
  · simp [layToComp]

/-- address records are decoded exactly; OPT and TSIG records are not "plain" -/
theorem plainRrs_of_match : ∀ (its : List RItC) (ds : List DRr) (A B : List RRec), All2 RMatch its ds →
    its.map (·.r) = A ++ B → (∀ r ∈ A, r.ty = 1 ∨ r.ty = 28) → (∀ r ∈ B, r.ty = 41 ∨ r.ty = 250) →
    plainRrs ds = A.map givenKey := by
  intro its ds A B h
  induction h generalizing A B with
  | nil =>
    intro hm _ _
    have : A = [] := by
      cases A with
      | nil => rfl
      | cons a as => simp at hm
    subst this
    rfl
  | @cons it dr its ds hh _ ih =>
    intro hm hA hB
    obtain ⟨g1, _, g3, g4, g5, _, g7⟩ := hh
    cases A with
    | nil =>
      simp only [List.nil_append, List.map_cons] at hm
      cases B with
      | nil => cases hm
      | cons b bs =>
        simp only [List.cons.injEq] at hm
        obtain ⟨hrb, hrest⟩ := hm
        have := ih [] bs (by simpa using hrest) (fun _ hx => by cases hx)
          (fun r hx => hB r (List.mem_cons_of_mem _ hx))
        have hty : dr.ty = 41 ∨ dr.ty = 250 := by
          rcases hB b List.mem_cons_self with e | e <;> rw [g3, hrb, e] <;> simp
        unfold plainRrs at this ⊢
        rw [List.filter_cons]
        have hf : (decide (dr.ty ≠ 41 ∧ dr.ty ≠ 250)) = false := by
          rcases hty with e | e <;> simp [e]
        rw [hf]
        exact this
    | cons a as =>
      simp only [List.cons_append, List.map_cons, List.cons.injEq] at hm
      obtain ⟨hra, hrest⟩ := hm
      have hta := hA a List.mem_cons_self
      have := ih as B hrest (fun r hx => hA r (List.mem_cons_of_mem _ hx)) hB
      have hlt : it.r.ty < 65536 := by rw [hra]; rcases hta with e | e <;> omega
      have hrd := (g7 hlt _ (componentTypes_total it.r.cls it.r.ty).choose_spec
        (addr_no_cname _ _ (by rw [hra]; exact hta) _ (componentTypes_total it.r.cls it.r.ty).choose_spec)).1
      have hty : dr.ty = a.ty := by rw [g3, hra, Nat.mod_eq_of_lt (by rcases hta with e | e <;> omega)]
      unfold plainRrs at this ⊢
      rw [List.filter_cons]
      have hf : (decide (dr.ty ≠ 41 ∧ dr.ty ≠ 250)) = true := by
        rw [hty]; rcases hta with e | e <;> simp [e]
      rw [hf]
      simp only [if_true, List.map_cons, this]
      have hk : rrKey dr = givenKey a := by
        have hown : dr.owner.map QV.Spec.Tsig.lower = it.r.owner.wire.map lowerU8 := by
          rw [← g1]
          exact List.map_congr_left (fun b _ => tsigLower_eq b)
        unfold rrKey givenKey
        rw [g3, g4, g5, hrd, hown, ← hra]
      rw [hk]

theorem optRecs'_ty (e : Option Edns) : ∀ r ∈ optRecs' e, r.ty = 41 ∨ r.ty = 250 := by
  intro r hr
  cases e with
  | none => cases hr
  | some e =>
    simp only [optRecs', List.mem_singleton] at hr
    subst hr
    left
    show Writer.T_OPT = 41
    decide +kernel

theorem tsigRecs_ty (t : Option Writer.Tsig) (mac : Option (List UInt8)) : ∀ r ∈ tsigRecs t mac, r.ty = 41 ∨ r.ty = 250 := by
  intro r hr
  cases t with
  | none => cases hr
  | some t =>
    simp only [tsigRecs, List.mem_singleton] at hr
    subst hr
    right
    show Writer.T_TSIG = 250
    decide +kernel

theorem decodeRrs_pos_le (msg : Bytes) : ∀ (n p : Nat) (l : List DRr) (p' : Nat),
    decodeRrs msg n p = some (l, p') → p ≤ p' := by
  intro n
  induction n with
  | zero => intro p l p' h; simp only [decodeRrs, Option.some.injEq, Prod.mk.injEq] at h; omega
  | succ n ih =>
    intro p l p' h
    simp only [decodeRrs] at h
    split at h
    · split at h
      · split at h
        · split at h
          · rename_i hrec
            have := ih _ _ _ hrec
            simp only [Option.some.injEq, Prod.mk.injEq] at h
            omega
          · cases h
        · cases h
      · cases h
    · cases h

/-- **`DecodeCongr` for bodies with 16-bit answer / authority types** -/
theorem decodeCongr_typed (F1 F2 t0 : State) (bd : Body) (L : Nat) (T : Option Writer.Tsig) (R : Nat)
    (b1 b2 : Bytes) (m1 m2 : Option (List UInt8)) (d1 d2 : DMsg)
    (hG1 : Good F1 bd) (hG2 : Good F2 bd) (har : ∀ r ∈ bd.ar, r.ty = 1 ∨ r.ty = 28)
    (hty : ∀ r ∈ bd.an ++ bd.ns, r.ty < 65536)
    (hms : modS L T F2 = lift R t0) (hS : Same F1 t0)
    (hf1 : Writer.finish F1 Server.macFn = .ok (b1, m1)) (hf2 : Writer.finish F2 Server.macFn = .ok (b2, m2))
    (hd1 : specDecodeMsg b1 = some d1) (hd2 : specDecodeMsg b2 = some d2) :
    d1.an.map rrKey = d2.an.map rrKey ∧ d1.ns.map rrKey = d2.ns.map rrKey ∧ plainRrs d1.ar = plainRrs d2.ar := by
  obtain ⟨hI1, hl1, mb1, hL1⟩ := hG1
  obtain ⟨hI2, hl2, mb2, hL2⟩ := hG2
  have hsz1 : b1.size ≤ 65535 := by have := finish_size_le_limit _ _ hI1.inv b1 m1 hf1; omega
  have hsz2 : b2.size ≤ 65535 := by have := finish_size_le_limit _ _ hI2.inv b2 m2 hf2; omega
  obtain ⟨e1, _, _, _, iar1, he1, _, _, _, hiar1, _, _, _, hmr1, _, _, sF1, len1, p21, p31, hw1, hb1, wF1, hda1, hdn1⟩ :=
    finish_decodes_core Server.macFn F1 bd mb1 hI1 hL1 b1 m1 hf1 hsz1
  obtain ⟨e2, _, _, _, iar2, he2, _, _, _, hiar2, _, _, _, hmr2, _, _, sF2, len2, p22, p32, hw2, hb2, wF2, hda2, hdn2⟩ :=
    finish_decodes_core Server.macFn F2 bd mb2 hI2 hL2 b2 m2 hf2 hsz2
  rw [hd1] at he1
  rw [hd2] at he2
  cases he1
  cases he2
  -- the fields the two writers share
  have fo : F2.octets = t0.octets := by have := congrArg State.octets hms; simpa [modS, lift] using this
  have fc : F2.cursor = t0.cursor := by have := congrArg State.cursor hms; simpa [modS, lift] using this
  have fg : F2.gLabels = t0.gLabels := by have := congrArg State.gLabels hms; simpa [modS, lift] using this
  have fr : F2.rrStart = t0.rrStart := by have := congrArg State.rrStart hms; simpa [modS, lift] using this
  have fa : F2.ancount = t0.ancount := by have := congrArg State.ancount hms; simpa [modS, lift] using this
  have fn : F2.nscount = t0.nscount := by have := congrArg State.nscount hms; simpa [modS, lift] using this
  have hcur : F1.cursor = F2.cursor := by rw [fc, hS.cursor]
  have hrr : F1.rrStart = F2.rrStart := by rw [fr, hS.rrStart]
  have han : F1.ancount = F2.ancount := by rw [fa, hS.an]
  have hns : F1.nscount = F2.nscount := by rw [fn, hS.ns]
  have hP21 : Pres F2 F1 := by
    refine ⟨fun i _ hi => ?_, by omega, fun g hg => ?_⟩
    · have := hS.pre i (by omega)
      rw [fo]; exact this.symm
    · rw [fg, hS.gLabels] at hg; exact hg
  have hPF1 : Pres F2 sF1 := Pres.trans hP21 (finishWithMac_pres _ F1 hI1 _ _ _ hw1)
  have hPF2 : Pres F2 sF2 := finishWithMac_pres _ F2 hI2 _ _ _ hw2
  -- the chain of the common writer
  have hc65 : F2.cursor ≤ 65535 := by have := hI2.inv.cur_av; have := hI2.inv.av_lim; omega
  obtain ⟨rs, hr, hrm, _, _, _⟩ := hL2.r hc65
  obtain ⟨qs, hq, _⟩ := hL2.q
  have h12 : 12 ≤ F2.rrStart := qchainC_le hq
  have htyp : ∀ it ∈ rs, it.r.ty < 65536 := by
    intro it hx
    have hmem : it.r ∈ rs.map (·.r) := List.mem_map_of_mem hx
    rw [hrm] at hmem
    rcases List.mem_append.mp hmem with h | h
    · exact hty _ h
    · rcases har _ h with e | e <;> omega
  have hrl : rs.length = bd.an.length + bd.ns.length + bd.ar.length := by
    have := congrArg List.length hrm
    simp only [List.length_map, List.length_append] at this
    omega
  have hanl : F2.ancount = bd.an.length := hL2.an
  have hnsl : F2.nscount = bd.ns.length := hL2.ns
  subst hb1 hb2
  -- the answer section
  have ean1 := decodeRrs_det hI2.winv wF1 hPF1 rs _ _ hr (Nat.le_refl _) h12 htyp F2.ancount (by omega)
  have ean2 := decodeRrs_det hI2.winv wF2 hPF2 rs _ _ hr (Nat.le_refl _) h12 htyp F2.ancount (by omega)
  rw [han, hrr, ean1] at hda1
  rw [ean2] at hda2
  rw [hda1] at hda2
  simp only [Option.some.injEq, Prod.mk.injEq] at hda2
  obtain ⟨hanEq, hp2⟩ := hda2
  -- the authority section
  obtain ⟨la, p2, hdA, _, hch2⟩ := decodeRrs_chainCX F2 hI2.winv rs _ _ hr (Nat.le_refl _) F2.ancount (by omega)
  rw [hdA] at hda1
  simp only [Option.some.injEq, Prod.mk.injEq] at hda1
  obtain ⟨_, hp21⟩ := hda1
  have hp2le : F2.rrStart ≤ p2 := decodeRrs_pos_le _ _ _ _ _ hdA
  have hty2 : ∀ it ∈ rs.drop F2.ancount, it.r.ty < 65536 := fun it hx => htyp it (List.mem_of_mem_drop hx)
  have ens1 := decodeRrs_det hI2.winv wF1 hPF1 _ _ _ hch2 (Nat.le_refl _) (by omega) hty2 F2.nscount
    (by rw [List.length_drop]; omega)
  have ens2 := decodeRrs_det hI2.winv wF2 hPF2 _ _ _ hch2 (Nat.le_refl _) (by omega) hty2 F2.nscount
    (by rw [List.length_drop]; omega)
  rw [hns, ← hp21, ens1] at hdn1
  rw [← hp2, ← hp21, ens2] at hdn2
  rw [hdn1] at hdn2
  simp only [Option.some.injEq, Prod.mk.injEq] at hdn2
  refine ⟨by rw [hanEq], by rw [hdn2.1], ?_⟩
  -- the additional section
  rw [plainRrs_of_match iar1 d1.ar bd.ar _ (hmr1.imp (fun _ _ hx => hx.1)) (by rw [hiar1, List.append_assoc]) har
      (fun r hx => by
        rcases List.mem_append.mp hx with h | h
        · exact optRecs'_ty _ r h
        · exact tsigRecs_ty _ _ r h),
    plainRrs_of_match iar2 d2.ar bd.ar _ (hmr2.imp (fun _ _ hx => hx.1)) (by rw [hiar2, List.append_assoc]) har
      (fun r hx => by
        rcases List.mem_append.mp hx with h | h
        · exact optRecs'_ty _ r h
        · exact tsigRecs_ty _ _ r h)]

/-- `DecodeCongr` with the one hypothesis it lacks: the answer / authority records of the body have
    16-bit types (values of the Rust API's `Type`). Without it the statement is not true of the
    model: a record of type `65536 + 2` is written as opaque RDATA but decoded as an NS record, and
    the decoder then follows whatever the opaque octets say, possibly into the header octets in
    which the two messages differ (ARCOUNT). -/
def DecodeCongrT : Prop :=
  ∀ (F1 F2 t0 : State) (bd : Body) (L : Nat) (T : Option Writer.Tsig) (R : Nat) (b1 b2 : Bytes)
    (m1 m2 : Option (List UInt8)) (d1 d2 : DMsg),
    Good F1 bd → Good F2 bd → (∀ r ∈ bd.ar, r.ty = 1 ∨ r.ty = 28) → (∀ r ∈ bd.an ++ bd.ns, r.ty < 65536) →
    modS L T F2 = lift R t0 → Same F1 t0 →
    Writer.finish F1 Server.macFn = .ok (b1, m1) → Writer.finish F2 Server.macFn = .ok (b2, m2) →
    specDecodeMsg b1 = some d1 → specDecodeMsg b2 = some d2 →
    d1.an.map rrKey = d2.an.map rrKey ∧ d1.ns.map rrKey = d2.ns.map rrKey ∧ plainRrs d1.ar = plainRrs d2.ar

theorem decodeCongrT : DecodeCongrT :=
  fun F1 F2 t0 bd L T R b1 b2 m1 m2 d1 d2 hG1 hG2 har hty hms hS hf1 hf2 hd1 hd2 =>
    decodeCongr_typed F1 F2 t0 bd L T R b1 b2 m1 m2 d1 d2 hG1 hG2 har hty hms hS hf1 hf2 hd1 hd2

end QV.ServerContent
