/-
  QV.Proofs.Pool — inductive invariants of the pool transition system (C29).

  Counting invariants are stated with `List.countP` over the per-thread local states, so they hold
  for any number of threads; each step moves one thread (a `List.set`), possibly appends one
  (spawn), wakes one (`notify_one`: a second `List.set`) or wakes all waiters of a condvar
  (`List.map`).
-/
import QV.Model.Pool

namespace QV.Pool

/-! ### counting predicates -/

/-- counted in `available_workers` -/
def isReg : Local → Bool
  | .wWait _ | .wWoken _ _ | .wInP _ true _ => true
  | _ => false

/-- counted in `available_workers` and not asleep: will look at the queue before deregistering -/
def isAwake : Local → Bool
  | .wWoken _ _ | .wInP _ true _ => true
  | _ => false

/-- a thread of the group that has not yet run `end_thread` -/
def isLive : Local → Bool
  | .wWantP _ | .wInP _ _ _ | .wWait _ | .wWoken _ _ | .wRun _ _ | .wRunning _ _ | .auxStart _
  | .auxRunning _ | .endWantG | .endInG | .rhWantG _ | .rhInG _ | .rhInG2 | .rhWait => true
  | _ => false

def holdsP : Local → Bool
  | .subInP _ | .sosInP _ | .shInP | .pshInP | .wInP _ _ _ => true
  | _ => false

def holdsG : Local → Bool
  | .spInG _ | .sosInG _ | .sosInG2 _ | .shInG | .shInP | .shInG2 | .pshInG | .awInG | .endInG
  | .rhInG _ | .rhInG2 => true
  | _ => false

/-! ### list lemmas -/

theorem get_lt {α} {l : List α} {i : Nat} {a : α} (h : l[i]? = some a) : i < l.length := by
  rcases Nat.lt_or_ge i l.length with h' | h'
  · exact h'
  · rw [List.getElem?_eq_none h'] at h; cases h

theorem get_eq {α} {l : List α} {i : Nat} {a : α} (h : l[i]? = some a) : l[i]'(get_lt h) = a := by
  have := get_lt h
  rw [List.getElem?_eq_getElem this] at h
  exact Option.some.inj h

/-- moving one thread from local state `a` to `b` changes a count by `[p b] - [p a]` -/
theorem countP_move (p : Local → Bool) (l : List Local) (t : Nat) (a b : Local) (h : l[t]? = some a) :
    (l.set t b).countP p + (if p a then 1 else 0) = l.countP p + (if p b then 1 else 0) := by
  have hlt := get_lt h
  have heq := get_eq h
  rw [List.countP_set hlt, heq]
  have hpos : p a = true → 0 < l.countP p := by
    intro hp
    exact List.countP_pos_iff.mpr ⟨a, List.mem_of_getElem? h, hp⟩
  by_cases hp : p a = true
  · have := hpos hp
    simp [hp]; omega
  · simp [hp]

theorem get_set_self {α} {l : List α} {t : Nat} {a b : α} (h : l[t]? = some a) : (l.set t b)[t]? = some b := by
  simp [get_lt h]

theorem get_set_ne {α} {l : List α} {t u : Nat} {b : α} (h : t ≠ u) : (l.set t b)[u]? = l[u]? := by
  simp [h]

theorem idx_ne {α} {l : List α} {t u : Nat} {a b : α} (h1 : l[t]? = some a) (h2 : l[u]? = some b) (hne : a ≠ b) :
    t ≠ u := by
  intro e; subst e; rw [h1] at h2; exact hne (Option.some.inj h2)

/-! ### waking -/

@[simp] theorem isReg_wakeTask (l : Local) : isReg (wakeTask l) = isReg l := by cases l <;> rfl
@[simp] theorem isAwake_wakeTask (l : Local) : isAwake (wakeTask l) = isReg l := by
  cases l <;> first | rfl | (rename_i w r t; cases r <;> rfl)
@[simp] theorem isLive_wakeTask (l : Local) : isLive (wakeTask l) = isLive l := by cases l <;> rfl
@[simp] theorem holdsP_wakeTask (l : Local) : holdsP (wakeTask l) = holdsP l := by cases l <;> rfl
@[simp] theorem holdsG_wakeTask (l : Local) : holdsG (wakeTask l) = holdsG l := by cases l <;> rfl
@[simp] theorem isWWait_wakeTask (l : Local) : isWWait (wakeTask l) = false := by cases l <;> rfl

@[simp] theorem isReg_wakeAvail (l : Local) : isReg (wakeAvail l) = isReg l := by cases l <;> rfl
@[simp] theorem isAwake_wakeAvail (l : Local) : isAwake (wakeAvail l) = isAwake l := by cases l <;> rfl
@[simp] theorem isLive_wakeAvail (l : Local) : isLive (wakeAvail l) = isLive l := by cases l <;> rfl
@[simp] theorem holdsP_wakeAvail (l : Local) : holdsP (wakeAvail l) = holdsP l := by cases l <;> rfl
@[simp] theorem holdsG_wakeAvail (l : Local) : holdsG (wakeAvail l) = holdsG l := by cases l <;> rfl
@[simp] theorem isWWait_wakeAvail (l : Local) : isWWait (wakeAvail l) = isWWait l := by cases l <;> rfl
@[simp] theorem isSubWait_wakeAvail (l : Local) : isSubWait (wakeAvail l) = false := by cases l <;> rfl

@[simp] theorem isReg_wakeShut (l : Local) : isReg (wakeShut l) = isReg l := by cases l <;> rfl
@[simp] theorem isAwake_wakeShut (l : Local) : isAwake (wakeShut l) = isAwake l := by cases l <;> rfl
@[simp] theorem isLive_wakeShut (l : Local) : isLive (wakeShut l) = isLive l := by cases l <;> rfl
@[simp] theorem holdsP_wakeShut (l : Local) : holdsP (wakeShut l) = holdsP l := by cases l <;> rfl
@[simp] theorem holdsG_wakeShut (l : Local) : holdsG (wakeShut l) = holdsG l := by cases l <;> rfl
@[simp] theorem isWWait_wakeShut (l : Local) : isWWait (wakeShut l) = isWWait l := by cases l <;> rfl
@[simp] theorem isSubWait_wakeShut (l : Local) : isSubWait (wakeShut l) = isSubWait l := by cases l <;> rfl
@[simp] theorem isSubWait_wakeTask (l : Local) : isSubWait (wakeTask l) = isSubWait l := by cases l <;> rfl

theorem countP_map_eq (p q : Local → Bool) (f : Local → Local) (l : List Local) (h : ∀ x, p (f x) = q x) :
    (l.map f).countP p = l.countP q := by
  rw [List.countP_map]
  congr 1
  funext x
  exact h x

/-- what `notify_one` does: nothing when nobody waits, else exactly one waiter is moved -/
theorem notifyOne_spec {isW : Local → Bool} {wake : Local → Local} {ths ths' : List Local} {target : Option Nat}
    (h : notifyOne isW wake ths target = some ths') :
    (target = none ∧ ths.countP isW = 0 ∧ ths' = ths) ∨
    (∃ u l, target = some u ∧ ths[u]? = some l ∧ isW l = true ∧ ths' = ths.set u (wake l)) := by
  unfold notifyOne at h
  cases target with
  | none =>
    by_cases hc : ths.countP isW = 0
    · simp only [hc, ↓reduceIte] at h
      exact Or.inl ⟨rfl, hc, (Option.some.inj h).symm⟩
    · simp only [hc, ↓reduceIte] at h; cases h
  | some u =>
    simp only at h
    cases hu : ths[u]? with
    | none => rw [hu] at h; cases h
    | some l =>
      rw [hu] at h
      simp only at h
      by_cases hw : isW l = true
      · simp only [hw, ↓reduceIte] at h
        exact Or.inr ⟨u, l, rfl, hu, hw, (Option.some.inj h).symm⟩
      · simp only [hw] at h; cases h

/-- rewriting form of `countP_move` (the subtraction never truncates, see `countP_pos_get`) -/
theorem countP_set_get {p : Local → Bool} {l : List Local} {t : Nat} {a : Local} (b : Local) (h : l[t]? = some a) :
    (l.set t b).countP p = l.countP p - (if p a then 1 else 0) + (if p b then 1 else 0) := by
  have := countP_move p l t a b h
  have pos : p a = true → 0 < l.countP p := fun hp =>
    List.countP_pos_iff.mpr ⟨a, List.mem_of_getElem? h, hp⟩
  by_cases hp : p a = true
  · have := pos hp
    simp only [hp, ↓reduceIte] at *
    omega
  · have hp' : p a = false := by simpa using hp
    simp only [hp', Bool.false_eq_true, ↓reduceIte] at *
    omega

theorem countP_pos_get (p : Local → Bool) {l : List Local} {t : Nat} {a : Local} (h : l[t]? = some a) :
    (if p a then 1 else 0) ≤ l.countP p := by
  by_cases hp : p a = true
  · simp only [hp, ↓reduceIte]
    exact List.countP_pos_iff.mpr ⟨a, List.mem_of_getElem? h, hp⟩
  · simp [hp]

@[simp] theorem countP_isReg_wakeTask (l : List Local) : (l.map wakeTask).countP isReg = l.countP isReg :=
  countP_map_eq _ _ _ l (by intro x; simp)
@[simp] theorem countP_isAwake_wakeTask (l : List Local) : (l.map wakeTask).countP isAwake = l.countP isReg :=
  countP_map_eq _ _ _ l (by intro x; simp)
@[simp] theorem countP_isLive_wakeTask (l : List Local) : (l.map wakeTask).countP isLive = l.countP isLive :=
  countP_map_eq _ _ _ l (by intro x; simp)
@[simp] theorem countP_isReg_wakeAvail (l : List Local) : (l.map wakeAvail).countP isReg = l.countP isReg :=
  countP_map_eq _ _ _ l (by intro x; simp)
@[simp] theorem countP_isAwake_wakeAvail (l : List Local) : (l.map wakeAvail).countP isAwake = l.countP isAwake :=
  countP_map_eq _ _ _ l (by intro x; simp)
@[simp] theorem countP_isLive_wakeAvail (l : List Local) : (l.map wakeAvail).countP isLive = l.countP isLive :=
  countP_map_eq _ _ _ l (by intro x; simp)
@[simp] theorem countP_isReg_wakeShut (l : List Local) : (l.map wakeShut).countP isReg = l.countP isReg :=
  countP_map_eq _ _ _ l (by intro x; simp)
@[simp] theorem countP_isAwake_wakeShut (l : List Local) : (l.map wakeShut).countP isAwake = l.countP isAwake :=
  countP_map_eq _ _ _ l (by intro x; simp)
@[simp] theorem countP_isLive_wakeShut (l : List Local) : (l.map wakeShut).countP isLive = l.countP isLive :=
  countP_map_eq _ _ _ l (by intro x; simp)

@[simp] theorem countP_holdsP_wakeTask (l : List Local) : (l.map wakeTask).countP holdsP = l.countP holdsP :=
  countP_map_eq _ _ _ l (by intro x; simp)
@[simp] theorem countP_holdsP_wakeAvail (l : List Local) : (l.map wakeAvail).countP holdsP = l.countP holdsP :=
  countP_map_eq _ _ _ l (by intro x; simp)
@[simp] theorem countP_holdsP_wakeShut (l : List Local) : (l.map wakeShut).countP holdsP = l.countP holdsP :=
  countP_map_eq _ _ _ l (by intro x; simp)
@[simp] theorem countP_holdsG_wakeTask (l : List Local) : (l.map wakeTask).countP holdsG = l.countP holdsG :=
  countP_map_eq _ _ _ l (by intro x; simp)
@[simp] theorem countP_holdsG_wakeAvail (l : List Local) : (l.map wakeAvail).countP holdsG = l.countP holdsG :=
  countP_map_eq _ _ _ l (by intro x; simp)
@[simp] theorem countP_holdsG_wakeShut (l : List Local) : (l.map wakeShut).countP holdsG = l.countP holdsG :=
  countP_map_eq _ _ _ l (by intro x; simp)

/-- 1 if the mutex is held -/
def lockN (o : Option Nat) : Nat := if o.isSome then 1 else 0
@[simp] theorem lockN_none : lockN none = 0 := rfl
@[simp] theorem lockN_some (t : Nat) : lockN (some t) = 1 := rfl
theorem lockN_le_one (o : Option Nat) : lockN o ≤ 1 := by cases o <;> simp

theorem countP_endThread (p : Local → Bool) (hp : ∀ x, p (wakeShut x) = p x) (s : State) :
    (endThread s).threads.countP p = s.threads.countP p := by
  unfold endThread
  simp only
  split
  · exact countP_map_eq _ _ _ _ hp
  · rfl

@[simp] theorem endThread_available (s : State) : (endThread s).available = s.available := rfl
@[simp] theorem endThread_stale (s : State) : (endThread s).stale = s.stale := rfl
@[simp] theorem endThread_pShutting (s : State) : (endThread s).pShutting = s.pShutting := rfl
@[simp] theorem endThread_queue (s : State) : (endThread s).queue = s.queue := rfl
@[simp] theorem endThread_threadCount (s : State) : (endThread s).threadCount = s.threadCount - 1 := rfl
@[simp] theorem endThread_tasks (s : State) : (endThread s).tasks = s.tasks := rfl
@[simp] theorem endThread_runs (s : State) : (endThread s).runs = s.runs := rfl
@[simp] theorem endThread_gShutting (s : State) : (endThread s).gShutting = s.gShutting := rfl
@[simp] theorem endThread_hasPool (s : State) : (endThread s).hasPool = s.hasPool := rfl
@[simp] theorem endThread_gLock (s : State) : (endThread s).gLock = s.gLock := rfl
@[simp] theorem endThread_pLock (s : State) : (endThread s).pLock = s.pLock := rfl


/-! ### the counting invariant -/

structure CInv (s : State) : Prop where
  /-- `available_workers` = registered workers (+ those that left on shutdown without decrementing) -/
  avail : s.available = s.threads.countP isReg + s.stale
  stale : 0 < s.stale → s.pShutting = true
  /-- every queued task has an awake registered worker that will look at the queue (D11 broke this) -/
  queue : s.queue.length ≤ s.threads.countP isAwake
  /-- `thread_count` = group threads that have not ended -/
  live : s.threadCount = s.threads.countP isLive
  /-- mutual exclusion: the threads inside a critical section of a mutex are exactly its holder -/
  lockP : s.threads.countP holdsP = lockN s.pLock
  lockG : s.threads.countP holdsG = lockN s.gLock

/-- closes a goal about counts after thread `t` (with `hg : s.threads[t]? = some a`) moved -/
macro "count_close" hg:ident : tactic => `(tactic| (
  have q1 := countP_pos_get isReg $hg
  have q2 := countP_pos_get isAwake $hg
  have q3 := countP_pos_get isLive $hg
  have q4 := countP_pos_get holdsP $hg
  have q5 := countP_pos_get holdsG $hg
  simp only [countP_holdsP_wakeTask, countP_holdsP_wakeAvail, countP_holdsP_wakeShut, countP_holdsG_wakeTask,
    countP_holdsG_wakeAvail, countP_holdsG_wakeShut, countP_endThread holdsP holdsP_wakeShut,
    countP_endThread holdsG holdsG_wakeShut, endThread_gLock, endThread_pLock, lockN_none, lockN_some,
    countP_isReg_wakeTask, countP_isAwake_wakeTask, countP_isLive_wakeTask, countP_isReg_wakeAvail,
    countP_isAwake_wakeAvail, countP_isLive_wakeAvail, countP_isReg_wakeShut, countP_isAwake_wakeShut,
    countP_isLive_wakeShut, countP_endThread isReg isReg_wakeShut, countP_endThread isAwake isAwake_wakeShut,
    countP_endThread isLive isLive_wakeShut, endThread_available, endThread_stale, endThread_pShutting,
    endThread_queue, endThread_threadCount,
    countP_set_get _ $hg, List.countP_append, List.countP_cons, List.countP_nil]
  simp only [isReg, isAwake, isLive, holdsP, holdsG, Bool.false_eq_true, ↓reduceIte, Nat.add_zero, Nat.sub_zero, Nat.zero_le] at q1 q2 q3 q4 q5 ⊢
  try omega))

theorem cinv_init : CInv init := ⟨rfl, by simp [init], by simp [init], rfl, rfl, rfl⟩

theorem cinv_acq {s s' : State} {t : Nat} (h : CInv s) (hn : nextAcq s t = some s') : CInv s' := by
  unfold nextAcq at hn
  cases hg : s.threads[t]? with
  | none => simp [hg] at hn
  | some l =>
    simp only [hg] at hn
    obtain ⟨h1, h2, h3, h4, h5, h6⟩ := h
    have l1 := lockN_le_one s.pLock
    have l2 := lockN_le_one s.gLock
    cases l <;> try simp at hn
    all_goals (
      obtain ⟨hgd, rfl⟩ := hn
      simp only [hgd, lockN_none] at h5 h6
      refine ⟨?_, ?_, ?_, ?_, ?_, ?_⟩ <;> simp only [State.setT]
      all_goals first | exact h2 | count_close hg)

theorem cinv_spawn {s s' : State} {t : Nat} {fails : Bool} (h : CInv s) (hn : nextSpawn s t fails = some s') : CInv s' := by
  unfold nextSpawn at hn
  cases hg : s.threads[t]? with
  | none => simp [hg] at hn
  | some l =>
    simp only [hg] at hn
    obtain ⟨h1, h2, h3, h4, h5, h6⟩ := h
    have l1 := lockN_le_one s.pLock
    have l2 := lockN_le_one s.gLock
    cases l <;> try simp at hn
    case spInG n =>
      cases n <;> simp at hn
      obtain ⟨hgd, rfl⟩ := hn
      refine ⟨?_, ?_, ?_, ?_, ?_, ?_⟩ <;> simp only [State.setT]
      all_goals first | exact h2 | count_close hg
    case sosInG k =>
      obtain ⟨hgd, hn⟩ := hn
      cases fails <;> simp at hn <;> subst hn <;> refine ⟨?_, ?_, ?_, ?_, ?_, ?_⟩ <;> simp only [State.setT]
      all_goals first | exact h2 | count_close hg
    case rhInG f =>
      obtain ⟨hgd, hn⟩ := hn
      cases fails <;> simp at hn <;> subst hn <;> refine ⟨?_, ?_, ?_, ?_, ?_, ?_⟩ <;> simp only [State.setT]
      all_goals first | exact h2 | count_close hg

theorem cinv_simple {s s' : State} {t : Nat} (h : CInv s)
    (hn : nextTimeout s t = some s' ∨ nextSpurious s t = some s' ∨ nextRun s t = some s' ∨
      (∃ cfg, nextFin cfg s t = some s')) : CInv s' := by
  obtain ⟨h1, h2, h3, h4, h5, h6⟩ := h
  have l1 := lockN_le_one s.pLock
  have l2 := lockN_le_one s.gLock
  cases hg : s.threads[t]? with
  | none =>
    rcases hn with hn | hn | hn | ⟨cfg, hn⟩ <;>
      simp [nextTimeout, nextSpurious, nextRun, nextFin, hg] at hn
  | some l =>
    rcases hn with hn | hn | hn | ⟨cfg, hn⟩
    · unfold nextTimeout at hn
      rw [hg] at hn
      cases l <;> try simp at hn
      case wWait w =>
        cases w <;> simp at hn
        subst hn
        refine ⟨?_, ?_, ?_, ?_, ?_, ?_⟩ <;> simp only [State.setT]
        all_goals first | exact h2 | count_close hg
      case rhWait =>
        subst hn
        refine ⟨?_, ?_, ?_, ?_, ?_, ?_⟩ <;> simp only [State.setT]
        all_goals first | exact h2 | count_close hg
    · unfold nextSpurious at hn
      rw [hg] at hn
      cases l <;> try simp at hn
      all_goals (
        subst hn
        refine ⟨?_, ?_, ?_, ?_, ?_, ?_⟩ <;> simp only [State.setT]
        all_goals first | exact h2 | count_close hg)
    · unfold nextRun at hn
      rw [hg] at hn
      cases l <;> try simp at hn
      all_goals (
        subst hn
        refine ⟨?_, ?_, ?_, ?_, ?_, ?_⟩ <;> simp only [State.setT]
        all_goals first | exact h2 | count_close hg)
    · unfold nextFin at hn
      rw [hg] at hn
      cases l <;> try simp at hn
      case wRunning w k =>
        subst hn
        refine ⟨?_, ?_, ?_, ?_, ?_, ?_⟩ <;> simp only [State.setT]
        all_goals first | exact h2 | count_close hg
      case auxRunning k =>
        subst hn
        cases cfg.linger <;> refine ⟨?_, ?_, ?_, ?_, ?_, ?_⟩ <;> simp only [State.setT]
        all_goals first | exact h2 | count_close hg

/-- closes a count goal after thread `t` moved (`hg`) and then thread `u` was woken (`hu`, a fact
    about the list after the first move) -/
macro "count_close2" hg:ident hu:ident : tactic => `(tactic| (
  have q1 := countP_pos_get isReg $hg
  have q2 := countP_pos_get isAwake $hg
  have q3 := countP_pos_get isLive $hg
  have r1 := countP_pos_get isReg $hu
  have r2 := countP_pos_get isAwake $hu
  have r3 := countP_pos_get isLive $hu
  have q4 := countP_pos_get holdsP $hg
  have q5 := countP_pos_get holdsG $hg
  have r4 := countP_pos_get holdsP $hu
  have r5 := countP_pos_get holdsG $hu
  simp only [countP_set_get _ $hu] at r1 r2 r3 r4 r5 ⊢
  simp only [countP_set_get _ $hg, List.countP_append, List.countP_cons, List.countP_nil, lockN_none, lockN_some] at r1 r2 r3 r4 r5 ⊢
  simp only [isReg, isAwake, isLive, holdsP, holdsG, wakeTask, wakeAvail, Bool.false_eq_true, ↓reduceIte, Nat.add_zero, Nat.sub_zero, Nat.zero_le] at q1 q2 q3 q4 q5 r1 r2 r3 r4 r5 ⊢
  try omega))

theorem isWWait_eq {l : Local} (h : isWWait l = true) : ∃ w, l = .wWait w := by
  cases l <;> simp [isWWait] at h
  exact ⟨_, rfl⟩

theorem isSubWait_eq {l : Local} (h : isSubWait l = true) : ∃ k, l = .subWait k := by
  cases l <;> simp [isSubWait] at h
  exact ⟨_, rfl⟩

/-- sleeping registered workers are exactly `isWWait`: registered = awake + asleep -/
theorem reg_eq_awake_add_wait (l : List Local) : l.countP isReg = l.countP isAwake + l.countP isWWait := by
  induction l with
  | nil => rfl
  | cons a t ih =>
    simp only [List.countP_cons, ih]
    cases a <;> simp [isReg, isAwake, isWWait] <;> try omega
    rename_i w r to
    cases r <;> simp <;> omega

theorem cinv_push {s s' : State} {t k : Nat} {target : Option Nat} {a : Local} (h : CInv s)
    (hg : s.threads[t]? = some a) (ha : a = .subInP k ∨ a = .sosInP k) (hav : s.available > s.queue.length)
    (hsh : s.pShutting = false)
    (hn : pushTask s t k target = some s') : CInv s' := by
  obtain ⟨h1, h2, h3, h4, h5, h6⟩ := h
  have l1 := lockN_le_one s.pLock
  have l2 := lockN_le_one s.gLock
  have hst : s.stale = 0 := by
    rcases Nat.eq_zero_or_pos s.stale with h0 | h0
    · exact h0
    · have := h2 h0; rw [hsh] at this; cases this
  unfold pushTask at hn
  rw [Option.map_eq_some_iff] at hn
  obtain ⟨ths, hno, rfl⟩ := hn
  have hsplit := reg_eq_awake_add_wait s.threads
  rcases ha with rfl | rfl
  all_goals (
    have e1 := countP_set_get (p := isReg) .idle hg
    have e2 := countP_set_get (p := isAwake) .idle hg
    have e3 := countP_set_get (p := isLive) .idle hg
    have e4 := countP_set_get (p := isWWait) .idle hg
    have e5 := countP_set_get (p := holdsP) .idle hg
    have e6 := countP_set_get (p := holdsG) .idle hg
    have p5 := countP_pos_get holdsP hg
    rcases notifyOne_spec hno with ⟨_, hz, rfl⟩ | ⟨u, l, _, hu, hw, rfl⟩
    · -- nobody sleeps: every registered worker is awake
      simp only [isReg, isAwake, isLive, isWWait, holdsP, holdsG, Bool.false_eq_true, ↓reduceIte, Nat.add_zero, Nat.sub_zero] at e1 e2 e3 e4 e5 e6 p5
      refine ⟨?_, h2, ?_, ?_, ?_, ?_⟩ <;> simp only [List.length_append, List.length_cons, List.length_nil, lockN_none]
      all_goals omega
    · obtain ⟨w, rfl⟩ := isWWait_eq hw
      have f1 := countP_set_get (p := isReg) (wakeTask (.wWait w)) hu
      have f2 := countP_set_get (p := isAwake) (wakeTask (.wWait w)) hu
      have f3 := countP_set_get (p := isLive) (wakeTask (.wWait w)) hu
      have f5 := countP_set_get (p := holdsP) (wakeTask (.wWait w)) hu
      have f6 := countP_set_get (p := holdsG) (wakeTask (.wWait w)) hu
      have r1 := countP_pos_get isReg hu
      have r3 := countP_pos_get isLive hu
      simp only [isReg, isAwake, isLive, isWWait, holdsP, holdsG, wakeTask, Bool.false_eq_true, ↓reduceIte, Nat.add_zero, Nat.sub_zero] at e1 e2 e3 e4 e5 e6 p5 f1 f2 f3 f5 f6 r1 r3
      refine ⟨?_, h2, ?_, ?_, ?_, ?_⟩ <;> simp only [List.length_append, List.length_cons, List.length_nil, wakeTask, lockN_none]
      all_goals omega)

theorem cinv_relWorker {cfg : Cfg} {s s' : State} {t : Nat} {w : WKind} {reg to : Bool} {target : Option Nat} {dl : Bool}
    (hf : cfg.fixed = true) (h : CInv s) (hg : s.threads[t]? = some (.wInP w reg to))
    (hn : relWorker cfg s t w reg to target dl = some s') : CInv s' := by
  obtain ⟨h1, h2, h3, h4, h5, h6⟩ := h
  have l1 := lockN_le_one s.pLock
  have l2 := lockN_le_one s.gLock
  unfold relWorker relWorkerBody at hn
  cases reg
  · cases to <;> cases hq : s.queue <;> cases hps : s.pShutting <;> cases w <;> cases dl <;>
      simp [hf, hq, hps, State.setT, Option.map_eq_some_iff] at hn <;>
      rw [hq] at h3 <;> rw [hps] at h2 <;> (try simp only [List.length_cons, List.length_nil] at h3)
    all_goals (
      obtain ⟨ths, hno, rfl⟩ := hn
      rcases notifyOne_spec hno with ⟨_, _, rfl⟩ | ⟨u, l, _, hu, hw, rfl⟩
      · refine ⟨?_, ?_, ?_, ?_, ?_, ?_⟩ <;> (try simp only [List.length_cons, List.length_nil])
        all_goals first | exact h2 | (intro _; rfl) | (intro _; trivial) | count_close hg
      · obtain ⟨k', rfl⟩ := isSubWait_eq hw
        refine ⟨?_, ?_, ?_, ?_, ?_, ?_⟩ <;> (try simp only [List.length_cons, List.length_nil])
        all_goals first | exact h2 | (intro _; rfl) | (intro _; trivial) | count_close2 hg hu)
  · cases to <;> cases hq : s.queue <;> cases hps : s.pShutting <;> cases w <;> cases dl <;>
      simp [hf, hq, hps, State.setT] at hn <;>
      rw [hq] at h3 <;> rw [hps] at h2 <;> (try simp only [List.length_cons, List.length_nil] at h3)
    all_goals (
      obtain ⟨_, rfl⟩ := hn
      refine ⟨?_, ?_, ?_, ?_, ?_, ?_⟩ <;> (try simp only [List.length_cons, List.length_nil])
      all_goals first | exact h2 | (intro _; rfl) | (intro _; trivial) | count_close hg)

theorem cinv_rel {cfg : Cfg} {s s' : State} {t : Nat} {target : Option Nat} {flag : Bool}
    (hf : cfg.fixed = true) (h : CInv s) (hn : nextRel cfg s t target flag = some s') : CInv s' := by
  unfold nextRel at hn
  cases hg : s.threads[t]? with
  | none => simp [hg] at hn
  | some l =>
    simp only [hg] at hn
    cases l <;> try simp [-List.map_set, -List.map_map] at hn
    case spInG n =>
      cases n <;> simp at hn
      obtain ⟨_, rfl⟩ := hn
      obtain ⟨h1, h2, h3, h4, h5, h6⟩ := h
      have l1 := lockN_le_one s.pLock
      have l2 := lockN_le_one s.gLock
      refine ⟨?_, ?_, ?_, ?_, ?_, ?_⟩ <;> simp only [State.setT]
      all_goals first | exact h2 | count_close hg
    case subInP k =>
      by_cases hps : s.pShutting = true
      · simp [hps] at hn
        obtain ⟨_, rfl⟩ := hn
        obtain ⟨h1, h2, h3, h4, h5, h6⟩ := h
        have l1 := lockN_le_one s.pLock
        have l2 := lockN_le_one s.gLock
        refine ⟨?_, ?_, ?_, ?_, ?_, ?_⟩ <;> simp only [State.setT]
        all_goals first | exact h2 | count_close hg
      · have hps' : s.pShutting = false := by simpa using hps
        simp [hps'] at hn
        by_cases hav : s.queue.length < s.available
        · simp [hav] at hn
          exact cinv_push h hg (Or.inl rfl) hav hps' hn
        · simp [hav] at hn
          obtain ⟨_, rfl⟩ := hn
          obtain ⟨h1, h2, h3, h4, h5, h6⟩ := h
          have l1 := lockN_le_one s.pLock
          have l2 := lockN_le_one s.gLock
          refine ⟨?_, ?_, ?_, ?_, ?_, ?_⟩ <;> simp only [State.setT]
          all_goals first | exact h2 | count_close hg
    case sosInP k =>
      by_cases hps : s.pShutting = true
      · simp [hps] at hn
        obtain ⟨_, rfl⟩ := hn
        obtain ⟨h1, h2, h3, h4, h5, h6⟩ := h
        have l1 := lockN_le_one s.pLock
        have l2 := lockN_le_one s.gLock
        refine ⟨?_, ?_, ?_, ?_, ?_, ?_⟩ <;> simp only [State.setT]
        all_goals first | exact h2 | count_close hg
      · have hps' : s.pShutting = false := by simpa using hps
        simp [hps'] at hn
        by_cases hav : s.queue.length < s.available
        · simp [hav] at hn
          exact cinv_push h hg (Or.inr rfl) hav hps' hn
        · simp [hav] at hn
          obtain ⟨_, rfl⟩ := hn
          obtain ⟨h1, h2, h3, h4, h5, h6⟩ := h
          have l1 := lockN_le_one s.pLock
          have l2 := lockN_le_one s.gLock
          refine ⟨?_, ?_, ?_, ?_, ?_, ?_⟩ <;> simp only [State.setT]
          all_goals first | exact h2 | count_close hg
    case wInP w reg to => exact cinv_relWorker hf h hg hn
    case sosInG k =>
      obtain ⟨_, _, rfl⟩ := hn
      obtain ⟨h1, h2, h3, h4, h5, h6⟩ := h
      have l1 := lockN_le_one s.pLock
      have l2 := lockN_le_one s.gLock
      refine ⟨?_, ?_, ?_, ?_, ?_, ?_⟩ <;> simp only [State.setT]
      all_goals first | exact h2 | count_close hg
    case sosInG2 k =>
      obtain ⟨_, rfl⟩ := hn
      obtain ⟨h1, h2, h3, h4, h5, h6⟩ := h
      have l1 := lockN_le_one s.pLock
      have l2 := lockN_le_one s.gLock
      refine ⟨?_, ?_, ?_, ?_, ?_, ?_⟩ <;> simp only [State.setT]
      all_goals first | exact h2 | count_close hg
    case shInG =>
      obtain ⟨_, _, rfl⟩ := hn
      obtain ⟨h1, h2, h3, h4, h5, h6⟩ := h
      have l1 := lockN_le_one s.pLock
      have l2 := lockN_le_one s.gLock
      refine ⟨?_, ?_, ?_, ?_, ?_, ?_⟩ <;> simp only [State.setT]
      all_goals first | exact h2 | count_close hg
    case shInP =>
      obtain ⟨_, rfl⟩ := hn
      obtain ⟨h1, h2, h3, h4, h5, h6⟩ := h
      have l1 := lockN_le_one s.pLock
      have l2 := lockN_le_one s.gLock
      have hsplit := reg_eq_awake_add_wait s.threads
      refine ⟨?_, ?_, ?_, ?_, ?_, ?_⟩ <;> simp only [State.setT]
      all_goals first | (intro _; trivial) | count_close hg
    case shInG2 =>
      obtain ⟨_, rfl⟩ := hn
      obtain ⟨h1, h2, h3, h4, h5, h6⟩ := h
      have l1 := lockN_le_one s.pLock
      have l2 := lockN_le_one s.gLock
      refine ⟨?_, ?_, ?_, ?_, ?_, ?_⟩ <;> simp only [State.setT]
      all_goals first | exact h2 | count_close hg
    case pshInG =>
      obtain ⟨_, _, rfl⟩ := hn
      obtain ⟨h1, h2, h3, h4, h5, h6⟩ := h
      have l1 := lockN_le_one s.pLock
      have l2 := lockN_le_one s.gLock
      refine ⟨?_, ?_, ?_, ?_, ?_, ?_⟩ <;> simp only [State.setT]
      all_goals first | exact h2 | count_close hg
    case pshInP =>
      obtain ⟨_, rfl⟩ := hn
      obtain ⟨h1, h2, h3, h4, h5, h6⟩ := h
      have l1 := lockN_le_one s.pLock
      have l2 := lockN_le_one s.gLock
      have hsplit := reg_eq_awake_add_wait s.threads
      refine ⟨?_, ?_, ?_, ?_, ?_, ?_⟩ <;> simp only [State.setT]
      all_goals first | (intro _; trivial) | count_close hg
    case awInG =>
      obtain ⟨h1, h2, h3, h4, h5, h6⟩ := h
      have l1 := lockN_le_one s.pLock
      have l2 := lockN_le_one s.gLock
      split at hn <;> simp at hn <;> obtain ⟨_, rfl⟩ := hn <;>
        refine ⟨?_, ?_, ?_, ?_, ?_, ?_⟩ <;> simp only [State.setT]
      all_goals first | exact h2 | count_close hg
    case endInG =>
      obtain ⟨_, rfl⟩ := hn
      obtain ⟨h1, h2, h3, h4, h5, h6⟩ := h
      have l1 := lockN_le_one s.pLock
      have l2 := lockN_le_one s.gLock
      refine ⟨?_, ?_, ?_, ?_, ?_, ?_⟩ <;> simp only [State.setT]
      all_goals first | exact h2 | count_close hg
    case rhInG f =>
      obtain ⟨h1, h2, h3, h4, h5, h6⟩ := h
      have l1 := lockN_le_one s.pLock
      have l2 := lockN_le_one s.gLock
      split at hn
      · simp at hn
        obtain ⟨_, rfl⟩ := hn
        refine ⟨?_, ?_, ?_, ?_, ?_, ?_⟩ <;> simp only [State.setT]
        all_goals first | exact h2 | count_close hg
      · split at hn <;> simp at hn
        obtain ⟨_, rfl⟩ := hn
        refine ⟨?_, ?_, ?_, ?_, ?_, ?_⟩ <;> simp only [State.setT]
        all_goals first | exact h2 | count_close hg
    case rhInG2 =>
      obtain ⟨_, rfl⟩ := hn
      obtain ⟨h1, h2, h3, h4, h5, h6⟩ := h
      have l1 := lockN_le_one s.pLock
      have l2 := lockN_le_one s.gLock
      refine ⟨?_, ?_, ?_, ?_, ?_, ?_⟩ <;> simp only [State.setT]
      all_goals first | exact h2 | count_close hg

theorem isIdle_get {s : State} {t : Nat} (h : isIdle s t = true) : s.threads[t]? = some .idle := by
  unfold isIdle at h
  simpa using h

theorem cinv_next {cfg : Cfg} {s s' : State} {l : Label} (hf : cfg.fixed = true) (h : CInv s)
    (hn : next cfg s l = some s') : CInv s' := by
  cases l with
  | arrive =>
    simp [next] at hn; subst hn
    obtain ⟨h1, h2, h3, h4, h5, h6⟩ := h
    have l1 := lockN_le_one s.pLock
    have l2 := lockN_le_one s.gLock
    refine ⟨?_, h2, ?_, ?_, ?_, ?_⟩ <;> simp [List.countP_append, isReg, isAwake, isLive] <;> assumption
  | acq t => exact cinv_acq h hn
  | spawn t f => exact cinv_spawn h hn
  | rel t tg fl => exact cinv_rel hf h hn
  | timeout t => exact cinv_simple h (Or.inl hn)
  | spurious t => exact cinv_simple h (Or.inr (Or.inl hn))
  | run t => exact cinv_simple h (Or.inr (Or.inr (Or.inl hn)))
  | fin t => exact cinv_simple h (Or.inr (Or.inr (Or.inr ⟨cfg, hn⟩)))
  | callStartPool t n =>
    simp only [next] at hn
    split at hn <;> simp at hn
    rename_i hc; simp at hc
    have hg := isIdle_get hc.1
    subst hn
    obtain ⟨h1, h2, h3, h4, h5, h6⟩ := h
    have l1 := lockN_le_one s.pLock
    have l2 := lockN_le_one s.gLock
    refine ⟨?_, ?_, ?_, ?_, ?_, ?_⟩ <;> simp only [State.setT]
    all_goals first | exact h2 | count_close hg
  | callSubmit t =>
    simp only [next] at hn
    split at hn <;> simp at hn
    rename_i hc; simp at hc
    have hg := isIdle_get hc.1
    subst hn
    obtain ⟨h1, h2, h3, h4, h5, h6⟩ := h
    have l1 := lockN_le_one s.pLock
    have l2 := lockN_le_one s.gLock
    refine ⟨?_, ?_, ?_, ?_, ?_, ?_⟩ <;> simp only [State.setT]
    all_goals first | exact h2 | count_close hg
  | callSos t =>
    simp only [next] at hn
    split at hn <;> simp at hn
    rename_i hc; simp at hc
    have hg := isIdle_get hc.1
    subst hn
    obtain ⟨h1, h2, h3, h4, h5, h6⟩ := h
    have l1 := lockN_le_one s.pLock
    have l2 := lockN_le_one s.gLock
    refine ⟨?_, ?_, ?_, ?_, ?_, ?_⟩ <;> simp only [State.setT]
    all_goals first | exact h2 | count_close hg
  | callShutdown t =>
    simp only [next] at hn
    split at hn <;> simp at hn
    rename_i hc; simp at hc
    have hg := isIdle_get hc.1.1
    subst hn
    obtain ⟨h1, h2, h3, h4, h5, h6⟩ := h
    have l1 := lockN_le_one s.pLock
    have l2 := lockN_le_one s.gLock
    refine ⟨?_, ?_, ?_, ?_, ?_, ?_⟩ <;> simp only [State.setT]
    all_goals first | exact h2 | count_close hg
  | callPoolShutdown t =>
    simp only [next] at hn
    split at hn <;> simp at hn
    rename_i hc; simp at hc
    have hg := isIdle_get hc.1.1.1
    subst hn
    obtain ⟨h1, h2, h3, h4, h5, h6⟩ := h
    have l1 := lockN_le_one s.pLock
    have l2 := lockN_le_one s.gLock
    refine ⟨?_, ?_, ?_, ?_, ?_, ?_⟩ <;> simp only [State.setT]
    all_goals first | exact h2 | count_close hg
  | callAwait t =>
    simp only [next] at hn
    split at hn <;> simp at hn
    rename_i hc
    have hg := isIdle_get hc
    subst hn
    obtain ⟨h1, h2, h3, h4, h5, h6⟩ := h
    have l1 := lockN_le_one s.pLock
    have l2 := lockN_le_one s.gLock
    refine ⟨?_, ?_, ?_, ?_, ?_, ?_⟩ <;> simp only [State.setT]
    all_goals first | exact h2 | count_close hg

theorem cinv_reachable {cfg : Cfg} (hf : cfg.fixed = true) {s : State} (hr : Reachable cfg s) : CInv s := by
  induction hr with
  | init => exact cinv_init
  | step _ st ih => obtain ⟨l, hl⟩ := st; exact cinv_next hf ih hl

end QV.Pool
