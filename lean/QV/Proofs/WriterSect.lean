/-
  QV.Proofs.WriterSect — the record-writing routines do not touch the section (`add_*_rr` changes
  it once, before writing).
-/
import QV.Proofs.WriterRecords

namespace QV.Writer
open QV QV.Wire

def KeepsSect {α} (f : M α) : Prop := ∀ s, (f s).2.sect = s.sect

theorem keepsSect_bind {α β} {f : M α} {g : α → M β} (hf : KeepsSect f) (hg : ∀ a, KeepsSect (g a)) :
    KeepsSect (f >>= g) := by
  intro s
  have h1 := hf s
  simp only [M.bind_apply]
  cases hfs : f s with
  | mk r s' =>
    rw [hfs] at h1
    cases r with
    | ok a => rw [hg a s']; exact h1
    | err e => exact h1
    | panic => exact h1

theorem keepsSect_pure {α} (a : α) : KeepsSect (pure a : M α) := fun _ => rfl
theorem keepsSect_panic {α} : KeepsSect (M.panic : M α) := fun _ => rfl
theorem keepsSect_gets {α} (f : State → α) : KeepsSect (M.gets f) := fun _ => rfl

theorem keepsSect_tryPush (d : List UInt8) : KeepsSect (tryPush d) := by
  intro s; unfold tryPush; repeat' split
  all_goals rfl

theorem keepsSect_ghostLabels (p : Nat) (l : List Label) (b : Bool) : KeepsSect (ghostLabels p l b) :=
  fun _ => rfl

theorem keepsSect_pushPointer (p : Nat) : KeepsSect (pushPointer p) := by
  unfold pushPointer
  exact keepsSect_bind (keepsSect_gets _) fun _ => keepsSect_bind (keepsSect_tryPush _) fun _ => fun _ => rfl

theorem keepsSect_writeUncompressedName (n : WName) : KeepsSect (writeUncompressedName n) := by
  unfold writeUncompressedName
  exact keepsSect_bind (keepsSect_gets _) fun _ => keepsSect_bind (keepsSect_tryPush _) fun _ =>
    keepsSect_bind (keepsSect_ghostLabels _ _ _) fun _ => keepsSect_pure _

theorem keepsSect_writeCompressedUnhintedName (n : WName) : KeepsSect (writeCompressedUnhintedName n) := by
  unfold writeCompressedUnhintedName
  refine keepsSect_bind (keepsSect_gets _) fun d => keepsSect_bind (keepsSect_gets _) fun c => ?_
  split
  · exact keepsSect_panic
  · exact keepsSect_panic
  · exact keepsSect_writeUncompressedName n
  · split
    · exact keepsSect_bind (keepsSect_pushPointer _) fun _ => keepsSect_pure _
    · exact keepsSect_bind (keepsSect_tryPush _) fun _ => keepsSect_bind (keepsSect_ghostLabels _ _ _) fun _ =>
        keepsSect_bind (keepsSect_pushPointer _) fun _ => keepsSect_pure _

theorem keepsSect_writeUnhintedName (n : WName) : KeepsSect (writeUnhintedName n) := by
  unfold writeUnhintedName
  refine keepsSect_bind (keepsSect_gets _) fun m => ?_
  split
  · exact keepsSect_writeCompressedUnhintedName n
  · exact keepsSect_writeUncompressedName n

theorem keepsSect_pushHinted (p : Prior) : KeepsSect (pushHinted p) :=
  keepsSect_bind (keepsSect_pushPointer _) fun _ => keepsSect_pure _

theorem keepsSect_writeHintedName (h : Hint) (n : WName) : KeepsSect (writeHintedName h n) := by
  unfold writeHintedName
  refine keepsSect_bind (keepsSect_gets _) fun m => ?_
  split
  · exact keepsSect_writeUncompressedName n
  · split
    · exact keepsSect_writeCompressedUnhintedName n
    · split
      · refine keepsSect_bind (keepsSect_gets _) fun q => ?_
        split
        · exact keepsSect_pushHinted _
        · exact keepsSect_writeCompressedUnhintedName n
      · refine keepsSect_bind (keepsSect_gets _) fun q => ?_
        split
        · exact keepsSect_pushHinted _
        · exact keepsSect_writeCompressedUnhintedName n
      · refine keepsSect_bind (keepsSect_gets _) fun q => ?_
        split
        · exact keepsSect_pushHinted _
        · exact keepsSect_writeCompressedUnhintedName n
      · refine keepsSect_bind (keepsSect_gets _) fun q => ?_
        split
        · exact keepsSect_pushHinted _
        · exact keepsSect_writeCompressedUnhintedName n
      · exact keepsSect_writeCompressedUnhintedName n


theorem keepsSect_fail {α} (e : WriterErr) : KeepsSect (M.fail e : M α) := fun _ => rfl
theorem keepsSect_modify (f : State → State) (h : ∀ s, (f s).sect = s.sect) : KeepsSect (M.modify f) := h

theorem keepsSect_setCtx (c : NameCtx) : KeepsSect (setCtx c) := fun _ => rfl

theorem keepsSect_hvPush (p : Option Nat) : KeepsSect (hvPush p) := by
  intro s
  unfold hvPush
  simp only [M.modify_apply]
  split
  · split <;> rfl
  · rfl

theorem keepsSect_write (pos : Nat) (d : List UInt8) : KeepsSect (write pos d) := by
  intro s; unfold write; split <;> rfl

theorem keepsSect_writeComponents : ∀ (ts : List CompType) (rd : List UInt8), KeepsSect (writeComponents ts rd) := by
  intro ts
  induction ts with
  | nil =>
    intro rd
    unfold writeComponents
    split
    · exact keepsSect_pure _
    · exact keepsSect_tryPush _
  | cons t ts ih =>
    intro rd
    cases t with
    | compressibleName =>
      unfold writeComponents
      split
      · exact keepsSect_fail _
      · exact keepsSect_bind (keepsSect_setCtx _) fun _ => keepsSect_bind (keepsSect_writeUnhintedName _) fun p =>
          keepsSect_bind (keepsSect_setCtx _) fun _ => keepsSect_bind (keepsSect_modify _ fun _ => rfl) fun _ =>
          keepsSect_bind (keepsSect_hvPush _) fun _ => ih _
    | uncompressibleName =>
      unfold writeComponents
      split
      · exact keepsSect_fail _
      · exact keepsSect_bind (keepsSect_setCtx _) fun _ => keepsSect_bind (keepsSect_writeUncompressedName _) fun p =>
          keepsSect_bind (keepsSect_setCtx _) fun _ => keepsSect_bind (keepsSect_modify _ fun _ => rfl) fun _ =>
          keepsSect_bind (keepsSect_hvPush _) fun _ => ih _
    | fixedLen k =>
      unfold writeComponents
      split
      · exact keepsSect_fail _
      · exact keepsSect_bind (keepsSect_tryPush _) fun _ => ih _

theorem keepsSect_writeRdata (cls ty : Nat) (rd : List UInt8) : KeepsSect (writeRdata cls ty rd) := by
  unfold writeRdata
  split
  · exact keepsSect_writeComponents _ _
  · exact keepsSect_panic

theorem keepsSect_addRr (hint : Hint) (owner : WName) (ty cls ttl : Nat) (rd : List UInt8) :
    KeepsSect (addRr hint owner ty cls ttl rd) := by
  unfold addRr
  refine keepsSect_bind (keepsSect_setCtx _) fun _ => keepsSect_bind (keepsSect_writeHintedName _ _) fun p =>
    keepsSect_bind (keepsSect_setCtx _) fun _ => keepsSect_bind (keepsSect_modify _ fun _ => rfl) fun _ =>
    keepsSect_bind (keepsSect_tryPush _) fun _ => keepsSect_bind (keepsSect_tryPush _) fun _ =>
    keepsSect_bind (keepsSect_tryPush _) fun _ => keepsSect_bind (keepsSect_gets _) fun av =>
    keepsSect_bind (keepsSect_gets _) fun st => ?_
  split
  · exact keepsSect_panic
  · split
    · exact keepsSect_fail _
    · refine keepsSect_bind (keepsSect_modify _ fun _ => rfl) fun _ =>
        keepsSect_bind (keepsSect_writeRdata _ _ _) fun _ => keepsSect_bind (keepsSect_gets _) fun c => ?_
      split
      · exact keepsSect_panic
      · exact keepsSect_write _ _

theorem keepsSect_addRrset (owner : WName) (ty cls ttl : Nat) :
    ∀ (rds : List (List UInt8)) (hint : Hint) (n : Nat), KeepsSect (addRrset hint owner ty cls ttl rds n) := by
  intro rds
  induction rds with
  | nil => intro hint n; unfold addRrset; exact keepsSect_pure _
  | cons rd rds ih =>
    intro hint n
    unfold addRrset
    exact keepsSect_bind (keepsSect_addRr _ _ _ _ _ _) fun _ => ih _ _

theorem keepsSect_addQuestionBody (qn : WName) (qt qc : Nat) : KeepsSect (addQuestionBody qn qt qc) := by
  unfold addQuestionBody
  refine keepsSect_bind (keepsSect_setCtx _) fun _ => keepsSect_bind (keepsSect_writeUnhintedName _) fun p =>
    keepsSect_bind (keepsSect_setCtx _) fun _ => keepsSect_bind (keepsSect_modify _ fun s => ?_) fun _ =>
    keepsSect_bind (keepsSect_tryPush _) fun _ => keepsSect_tryPush _
  split <;> rfl

end QV.Writer
