/-
  QV.Proofs.AuditWalk — the executable audit `Spec.ServerTsig.auditResponse`, walked clause by
  clause: given the decoded facts of a row of the TSIG decision table, the audit returns no tag.
-/
import QV.Proofs.RequestFits
import QV.Proofs.ServerSignedTable

namespace QV.ServerScan
open QV QV.Spec.ServerTsig QV.Spec.Tsig QV.Writer

/-- the audit's "the reply fits" -/
def auditNeed (sc : Spec.Server.Scan) (rv : ReqView) : Nat :=
  12 + (match sc.question with | some q => q.qname.length + 4 | none => 0) + (if sc.edns then 11 else 0) +
    (canonName rv.keyName).length + 10 + (canonName rv.fields.algName).length + 16 +
    (match rv.outcome with
      | .authenticated => ((outputSizeOf rv.fields.algName).getD 0, 0)
      | .badTime => ((outputSizeOf rv.fields.algName).getD 0, 6)
      | _ => (0, 0)).1 +
    (match rv.outcome with
      | .authenticated => ((outputSizeOf rv.fields.algName).getD 0, 0)
      | .badTime => ((outputSizeOf rv.fields.algName).getD 0, 6)
      | _ => (0, 0)).2

def auditLimit (sc : Spec.Server.Scan) (udp : Bool) : Nat := if udp then sc.limitUdp else 65535

/-- **the "does not fit" clauses**: TC set, extended RCODE 0, no data, no TSIG record ⇒ no tag -/
theorem auditResponse_nofit (hm : Hm) (sc : Spec.Server.Scan) (rv : ReqView) (now : Nat) (udp : Bool) (reqId : Nat) (cmp : Bool)
    (b : Bytes) (plain : Resp) (d : Spec.DMsg) (hd : Spec.specDecodeMsg b = some d)
    (hfit : ¬ auditNeed sc rv ≤ auditLimit sc udp)
    (htc : d.tc = true) (hrc : d.rcode = 0) (hnd : Spec.Server.noData d = true)
    (hopt : ∀ o ∈ d.ar, o.ty = 41 → o.rawTtl / 16777216 = 0)
    (hts : d.ar.filter (fun r => r.ty = 250) = []) :
    (auditResponse hm sc rv now udp reqId cmp (.bytes b) plain).1 = [] := by
  unfold auditNeed auditLimit at hfit
  unfold auditResponse
  simp only [hd]
  rw [if_pos]
  · simp only [htc, Bool.not_true, Bool.false_eq_true, if_false, hrc, hnd, hts, ne_eq, not_true_eq_false,
      List.append_nil, List.nil_append]
    rw [if_neg]
    rw [Classical.not_not]
    split
    · rename_i o ho
      have hm : o ∈ d.ar.filter (fun r => decide (r.ty = 41)) := by rw [ho]; simp
      obtain ⟨h1, h2⟩ := List.mem_filter.mp hm
      rw [hopt o h1 (by simpa using h2)]
    · rfl
  · simp only [Bool.not_eq_true', decide_eq_false_iff_not]
    exact hfit

/-! ### the audit's `need` is the model's reserved length -/

/-- MAC and other-data lengths the audit expects for an outcome -/
def macOther (out : Nat) : Outcome → Nat × Nat
  | .authenticated => (out, 0)
  | .badTime => (out, 6)
  | _ => (0, 0)

theorem algName_wire (a : Tsig.Algorithm) : (algName (Server.toWriterAlg a)).wire = a.name := by
  cases a <;> decide +kernel

theorem algOutputSize_eq (a : Tsig.Algorithm) : algOutputSize (Server.toWriterAlg a) = a.outputSize := by
  cases a <;> rfl

theorem fromName_length (alg : WName) (a : Tsig.Algorithm)
    (h : Tsig.Algorithm.fromName (Tsig.lowerName alg.wire) = some a) : a.name.length = alg.wire.length := by
  have := ServerTsig.fromName_some _ _ h
  rw [lowerName_idem] at this
  rw [← this]; simp [Tsig.lowerName]

/-- a rejected request: the reserved length of the reply TSIG the decision table prescribes, in the
    audit's terms -/
theorem reserved_of_stop (keys : List Server.Key) (nowT : Tsig.TimeSigned) (kn alg : WName) (halg : alg.WF)
    (rest mw : List UInt8) (kn' an : WName) (hk : kn'.wire.length = kn.wire.length)
    (ha : an.wire.length = alg.wire.length) (rc : Nat) (mode : TsigMode) (rr : TsigRr)
    (h : tsigStopReply Tsig.realHmac keys nowT (viewRr kn alg rest) mw kn' an = some (rc, mode, rr)) :
    ServerTsig.reservedLen mode rr = kn.wire.length + 10 + alg.wire.length + 16 +
      (macOther ((outputSizeOf alg.labels).getD 0) (modelOutcome keys nowT kn alg rest mw)).1 +
      (macOther ((outputSizeOf alg.labels).getD 0) (modelOutcome keys nowT kn alg rest mw)).2 := by
  unfold tsigStopReply at h
  unfold modelOutcome
  have e1 : (viewRr kn alg rest).algorithm = Tsig.lowerName alg.wire := rfl
  have e2 : (viewRr kn alg rest).keyName = Tsig.lowerName kn.wire := rfl
  rw [e1, e2] at h
  rw [outputSizeOf_view alg halg]
  cases hfrom : Tsig.Algorithm.fromName (Tsig.lowerName alg.wire) with
  | none =>
    rw [hfrom] at h
    simp only [Option.some.injEq, Prod.mk.injEq] at h
    obtain ⟨_, rfl, rfl⟩ := h
    rw [reservedLen_unsigned _ _ (by show (17 : Nat) ≠ 18; omega)]
    simp only [macOther]
    show kn'.wire.length + 10 + an.wire.length + 16 + 0 + 0 = _
    omega
  | some a =>
    rw [hfrom] at h
    simp only at h ⊢
    have hal := fromName_length alg a hfrom
    have haw := algName_wire a
    cases hfind : Server.findKey keys (Tsig.lowerName kn.wire) a with
    | none =>
      rw [hfind] at h
      simp only [Option.some.injEq, Prod.mk.injEq] at h
      obtain ⟨_, rfl, rfl⟩ := h
      rw [reservedLen_unsigned _ _ (by show (17 : Nat) ≠ 18; omega)]
      simp only [macOther]
      show kn'.wire.length + 10 + an.wire.length + 16 + 0 + 0 = _
      omega
    | some key =>
      rw [hfind] at h
      simp only at h ⊢
      rcases hv : Tsig.verifyRequest Tsig.realHmac (viewRr kn alg rest) mw a key.secret nowT with u | e | _
      · rw [hv] at h; cases h
      · rw [hv] at h
        cases e with
        | FormErr =>
          simp only [Option.some.injEq, Prod.mk.injEq] at h
          obtain ⟨_, rfl, rfl⟩ := h
          rw [reservedLen_unsigned _ _ (by show (16 : Nat) ≠ 18; omega), haw]
          simp only [macOther]
          show kn'.wire.length + 10 + a.name.length + 16 + 0 + 0 = _
          omega
        | BadSig =>
          simp only [Option.some.injEq, Prod.mk.injEq] at h
          obtain ⟨_, rfl, rfl⟩ := h
          rw [reservedLen_unsigned _ _ (by show (16 : Nat) ≠ 18; omega), haw]
          simp only [macOther]
          show kn'.wire.length + 10 + a.name.length + 16 + 0 + 0 = _
          omega
        | BadTime =>
          simp only [Option.some.injEq, Prod.mk.injEq] at h
          obtain ⟨_, rfl, rfl⟩ := h
          rw [reservedLen_response, haw, algOutputSize_eq]
          simp only [macOther, Option.map_some, Option.getD_some]
          show kn'.wire.length + 10 + a.name.length + 16 + a.outputSize + (if (18 : Nat) = 18 then 6 else 0) = _
          simp only [if_true]
          omega
      · rw [hv] at h; cases h

/-- an authenticated request: the reserved length of the response TSIG -/
theorem reserved_of_auth (kn alg : WName) (halg : alg.WF) (kn' : WName) (hk : kn'.wire.length = kn.wire.length)
    (a : Tsig.Algorithm) (ha : Tsig.Algorithm.fromName (Tsig.lowerName alg.wire) = some a)
    (m sec : List UInt8) (t : Tsig.ReadTsigRr) (nowT : Tsig.TimeSigned) :
    ServerTsig.reservedLen (.response (Server.toWriterAlg a) m sec) (ServerTsig.prepOf kn' t nowT 0) =
      kn.wire.length + 10 + alg.wire.length + 16 +
      (macOther ((outputSizeOf alg.labels).getD 0) .authenticated).1 +
      (macOther ((outputSizeOf alg.labels).getD 0) .authenticated).2 := by
  rw [reservedLen_response, algName_wire, algOutputSize_eq, outputSizeOf_view alg halg, ha]
  have := fromName_length alg a ha
  simp only [macOther, Option.map_some, Option.getD_some]
  show kn'.wire.length + 10 + a.name.length + 16 + a.outputSize + (if (0 : Nat) = 18 then 6 else 0) = _
  simp only [show ¬ ((0 : Nat) = 18) by omega, if_false]
  omega

/-- the audit's `need`, for the view `C10_audit_outcome` gives, in the model's terms -/
theorem auditNeed_eq (scA scM : Spec.Server.Scan) (hq : scA.question = scM.question) (he : scA.edns = scM.edns)
    (kn alg : WName) (hkn : kn.WF) (halg : alg.WF) (rest pre : List UInt8) (key : Option KeyCfg) (o : Outcome) :
    auditNeed scA ⟨kn.labels, fieldsOf alg.labels rest, pre, o, key⟩ =
      12 + (qOctets scM.question).length + (if scM.edns then 11 else 0) +
        (kn.wire.length + 10 + alg.wire.length + 16 + (macOther ((outputSizeOf alg.labels).getD 0) o).1 +
          (macOther ((outputSizeOf alg.labels).getD 0) o).2) := by
  unfold auditNeed
  have e0 : (fieldsOf alg.labels rest).algName = alg.labels := rfl
  simp only [e0, hq, he, canonName_length kn hkn, canonName_length alg halg]
  have hql : (match scM.question with | some q => q.qname.length + 4 | none => 0) = (qOctets scM.question).length := by
    cases scM.question with
    | none => rfl
    | some q => simp [qOctets, u16be]
  rw [hql]
  cases o <;> simp only [macOther] <;> omega

theorem auditLimit_eq (scA scM : Spec.Server.Scan) (hl : scA.limitUdp = scM.limitUdp) (tr : Server.Transport) :
    auditLimit scA (decide (tr = .udp)) = (match tr with | .udp => scM.limitUdp | .tcp => 65535) := by
  unfold auditLimit
  cases tr <;> simp [hl]

/-! ### the branch "the reply fits", rejected requests -/

/-- the TSIG error the audit expects -/
def expErr : Outcome → Nat
  | .authenticated => 0 | .badKey => 17 | .formErr => 16 | .badSig => 16 | .badTime => 18

/-- the RCODE the audit expects of a rejected request -/
def expRc : Outcome → Nat
  | .formErr => 1 | _ => 9

/-- the extended RCODE of the audit is the header's when every OPT record has extended-RCODE octet 0 -/
theorem ext_zero (l : List Spec.DRr) (h : ∀ x ∈ l, x.rawTtl / 16777216 = 0) :
    (match l with | [o] => o.rawTtl / 16777216 | _ => 0) = 0 := by
  match l with
  | [] => rfl
  | [o] => exact h o (by simp)
  | _ :: _ :: _ => rfl

/-- **the audit of a rejected request whose reply fits**: every clause of `auditResponse`, as
    hypotheses on the decoded response -/
theorem auditResponse_rejected (hm : Hm) (sc : Spec.Server.Scan) (kn : List Octets) (f : RdataFields) (pre : Octets)
    (o : Outcome) (key : Option KeyCfg) (now : Nat) (udp : Bool) (reqId : Nat) (cmp : Bool) (b : Bytes) (plain : Resp)
    (d : Spec.DMsg) (t : Spec.DRr) (rf : RdataFields) (rkn : List Octets)
    (hd : Spec.specDecodeMsg b = some d) (hfit : auditNeed sc ⟨kn, f, pre, o, key⟩ ≤ auditLimit sc udp)
    (ho : o ≠ .authenticated)
    (hts : d.ar.filter (fun r => r.ty = 250) = [t]) (hp : parseRdata t.rdata = some rf)
    (hl : labelsOf t.owner = some rkn)
    (hlast : d.ar.getLast?.map (·.ty) = some 250) (hcls : t.cls = 255) (httl : t.rawTtl = 0)
    (hkn : rkn.map (·.map lower) = kn.map (·.map lower))
    (halg : rf.algName.map (·.map lower) = f.algName.map (·.map lower))
    (hfudge : rf.fudge = 300) (hoid : rf.originalId = f.originalId) (hid : d.id = reqId)
    (herr : rf.error = expErr o) (hopt : ∀ x ∈ d.ar, x.ty = 41 → x.rawTtl / 16777216 = 0)
    (hrc : d.rcode = expRc o)
    (hmac : o ≠ .badTime → rf.mac = [])
    (hmacT : o = .badTime → rf.mac.length = (outputSizeOf f.algName).getD 0 ∧
      ∃ k, key = some k ∧ rf.mac = hm k.sha256 k.secret
        (digestInput .response (b.extract 0 t.pos).toList rf.originalId
          { keyName := rkn, algName := rf.algName, timeSigned := rf.timeSigned, fudge := rf.fudge,
            error := rf.error, other := rf.other } f.mac))
    (hother : o ≠ .badTime → rf.other = [] ∧ rf.timeSigned = now)
    (hotherT : o = .badTime → rf.other = u48 now ∧ rf.timeSigned = f.timeSigned)
    (hnd : Spec.Server.noData d = true) (htc : d.tc = false) (haa : d.aa = false) :
    (auditResponse hm sc ⟨kn, f, pre, o, key⟩ now udp reqId cmp (.bytes b) plain).1 = [] := by
  unfold auditNeed auditLimit at hfit
  have hx := ext_zero (d.ar.filter (fun r => r.ty = 41)) (fun x hx => by
    rw [List.mem_filter] at hx; exact hopt x hx.1 (of_decide_eq_true hx.2))
  unfold auditResponse
  simp only [hd]
  rw [if_neg]
  · simp only [hts, hp, hl]
    cases o
    · exact absurd rfl ho
    · simp only [expErr, expRc] at herr hrc
      have hm0 := hmac (by decide)
      obtain ⟨ho1, ho2⟩ := hother (by decide)
      simp [hlast, hcls, httl, hkn, halg, hfudge, hoid, hid, herr, hrc, hm0, ho1, ho2, hnd, htc, haa]
      exact Nat.mul_eq_zero.mpr (Or.inr hx)
    · simp only [expErr, expRc] at herr hrc
      have hm0 := hmac (by decide)
      obtain ⟨ho1, ho2⟩ := hother (by decide)
      simp [hlast, hcls, httl, hkn, halg, hfudge, hoid, hid, herr, hrc, hm0, ho1, ho2, hnd, htc, haa]
      exact Nat.mul_eq_zero.mpr (Or.inr hx)
    · simp only [expErr, expRc] at herr hrc
      have hm0 := hmac (by decide)
      obtain ⟨ho1, ho2⟩ := hother (by decide)
      simp [hlast, hcls, httl, hkn, halg, hfudge, hoid, hid, herr, hrc, hm0, ho1, ho2, hnd, htc, haa]
      exact Nat.mul_eq_zero.mpr (Or.inr hx)
    · simp only [expErr, expRc] at herr hrc
      obtain ⟨hm1, k, hk, hm2⟩ := hmacT rfl
      obtain ⟨ho1, ho2⟩ := hotherT rfl
      simp [hlast, hcls, httl, hkn, halg, hfudge, hoid, hid, herr, hrc, hk, ho1, ho2, hnd, htc, haa]
      refine ⟨Nat.mul_eq_zero.mpr (Or.inr hx), hm1, ?_⟩
      rw [hm2]
      simp [hoid, ho2, hfudge, herr, ho1]
  · simp only [Bool.not_eq_true', decide_eq_false_iff_not, Classical.not_not]; exact hfit

/-! ### the branch "the reply fits", authenticated requests -/

/-- the audit's clause "answered normally" (the response to the request without its TSIG RR being
    `plain`), as a proposition on the decoded response -/
def AnsweredNormally (d : Spec.DMsg) (udp cmp : Bool) (tl lim : Nat) (plain : Resp) : Prop :=
  ∀ pb pd, plain = .bytes pb → Spec.specDecodeMsg pb = some pd →
    (d.tc = true → udp = true ∧ Spec.Server.noData d = true) ∧
    (d.tc = false → pd.tc = false → cmp = true → pb.size + tl ≤ lim → (pd.rcode = 2 → d.rcode = 2) →
      d.rcode = pd.rcode ∧ d.aa = pd.aa ∧ sameMultiset (d.an.map rrKey) (pd.an.map rrKey) = true ∧
      sameMultiset (d.ns.map rrKey) (pd.ns.map rrKey) = true ∧
      subMultiset (plainRrs d.ar) (plainRrs pd.ar) = true)

/-- **the audit of an authenticated request whose reply fits**: every clause of `auditResponse`, as
    hypotheses on the decoded response -/
theorem auditResponse_authenticated (hm : Hm) (sc : Spec.Server.Scan) (kn : List Octets) (f : RdataFields)
    (pre : Octets) (key : Option KeyCfg) (now : Nat) (udp : Bool) (reqId : Nat) (cmp : Bool) (b : Bytes)
    (plain : Resp) (d : Spec.DMsg) (t : Spec.DRr) (rf : RdataFields) (rkn : List Octets)
    (hd : Spec.specDecodeMsg b = some d)
    (hfit : auditNeed sc ⟨kn, f, pre, .authenticated, key⟩ ≤ auditLimit sc udp)
    (hts : d.ar.filter (fun r => r.ty = 250) = [t]) (hp : parseRdata t.rdata = some rf)
    (hl : labelsOf t.owner = some rkn)
    (hlast : d.ar.getLast?.map (·.ty) = some 250) (hcls : t.cls = 255) (httl : t.rawTtl = 0)
    (hkn : rkn.map (·.map lower) = kn.map (·.map lower))
    (halg : rf.algName.map (·.map lower) = f.algName.map (·.map lower))
    (hfudge : rf.fudge = 300) (hoid : rf.originalId = f.originalId) (hid : d.id = reqId)
    (herr : rf.error = 0) (hopt : ∀ x ∈ d.ar, x.ty = 41 → x.rawTtl / 16777216 = 0)
    (hrc : d.rcode ≠ 9)
    (hmacl : rf.mac.length = (outputSizeOf f.algName).getD 0)
    (hmac : ∃ k, key = some k ∧ rf.mac = hm k.sha256 k.secret
        (digestInput .response (b.extract 0 t.pos).toList rf.originalId
          { keyName := rkn, algName := rf.algName, timeSigned := rf.timeSigned, fudge := rf.fudge,
            error := rf.error, other := rf.other } f.mac))
    (hother : rf.other = []) (htime : rf.timeSigned = now)
    (hdata : AnsweredNormally d udp cmp ((canonName kn).length + 10 + (canonName f.algName).length + 16 +
      (outputSizeOf f.algName).getD 0 + 0) (if udp then sc.limitUdp else 65535) plain) :
    (auditResponse hm sc ⟨kn, f, pre, .authenticated, key⟩ now udp reqId cmp (.bytes b) plain).1 = [] := by
  unfold auditNeed auditLimit at hfit
  have hx := ext_zero (d.ar.filter (fun r => r.ty = 41)) (fun x hx => by
    rw [List.mem_filter] at hx; exact hopt x hx.1 (of_decide_eq_true hx.2))
  obtain ⟨k, hk, hm2⟩ := hmac
  have hext : d.rcode + 16 * (match d.ar.filter (fun r => r.ty = 41) with | [o] => o.rawTtl / 16777216 | _ => 0) ≠ 9 := by
    rw [hx]; omega
  unfold auditResponse
  simp only [hd]
  rw [if_neg]
  · simp only [hts, hp, hl]
    simp [hlast, hcls, httl, hkn, halg, hfudge, hoid, hid, herr, hother, htime, hmacl, hk]
    refine ⟨hext, ?_, ?_⟩
    · rw [hm2]; simp [hoid, htime, hfudge, herr, hother]
    · cases plain with
      | none => rfl
      | panic => rfl
      | bytes pb =>
        simp only
        cases hpd : Spec.specDecodeMsg pb with
        | none => rfl
        | some pd =>
          obtain ⟨d1, d2⟩ := hdata pb pd rfl hpd
          simp only
          by_cases htc : d.tc = true
          · obtain ⟨e1, e2⟩ := d1 htc
            simp [htc, e1, e2]
          · have htc' : d.tc = false := by cases hh : d.tc <;> simp_all
            by_cases hptc : pd.tc = true
            · simp [htc', hptc]
            · have hptc' : pd.tc = false := by cases hh : pd.tc <;> simp_all
              cases cmp with
              | false => simp [htc', hptc']
              | true =>
                simp [htc', hptc']
                intro h1 h2
                obtain ⟨f1, f2, f3, f4, f5⟩ := d2 htc' hptc' rfl (by omega) h2
                exact ⟨⟨f1, f2⟩, f3, f4, f5⟩
  · simp only [Bool.not_eq_true', decide_eq_false_iff_not, Classical.not_not]; exact hfit

end QV.ServerScan

namespace QV.ServerContent
open QV QV.Wire QV.Reader QV.Writer QV.Server QV.ServerSafety QV.ServerScan QV.ServerAnswer QV.Spec.Resolve QV.Spec QV.ServerTsig

theorem stRcode_edns (rc : Nat) (s : State) :
    (stRcode rc s).edns = s.edns.map (fun e => { e with upper := 0 }) := by
  unfold stRcode stHdr; cases s.edns <;> rfl

theorem truncSt_edns (s : State) : (truncSt s).edns = s.edns.map (fun e => { e with upper := 0 }) := by
  unfold truncSt
  show (stRcode 0 s).edns = _
  exact stRcode_edns 0 s

/-- `signed_nofit_final_of_run` with the whole EDNS slot: the extended-RCODE octet is 0 -/
theorem signed_nofit_final_upper (cfg : Cfg) (tr : Transport) (now bufLen : Nat) (req : Bytes)
    (hbuf : minBuf tr cfg.payload ≤ bufLen) (hpay : 512 ≤ cfg.payload) (hp16 : cfg.payload ≤ 65535)
    (hr : (Spec.Server.specScanWith (catKind cfg) cfg.payload req).respond = true)
    (t : Tsig.ReadTsigRr) (mw : Bytes) (r' : Reader.Reader) (question : Option (WName × Nat × Nat))
    (hrun : TsigRun cfg tr now bufLen req t mw r' question) :
      ∀ nowT kn, Tsig.TimeSigned.tryFromUnix now = some nowT → WName.parse t.keyName = some (kn, []) →
        NoFit cfg nowT t mw kn (preTsigState cfg tr bufLen req) →
        ∀ b, Server.handleMessage cfg tr now bufLen req = .ok (some b) →
          ∃ F mac, Writer.finish F Server.macFn = .ok (b, mac) ∧
            Good F (qBody (Spec.Server.specScanWith (catKind cfg) cfg.payload req).question) ∧
            F.tsig = none ∧
            F.edns =
              (if (Spec.Server.specScanWith (catKind cfg) cfg.payload req).edns then some ⟨cfg.payload, 0⟩ else none) ∧
            HdrView F { tc := true } := by
  obtain ⟨h1, h2, _, h4⟩ := hrun
  intro nowT kn hnow hkn hnf b hb
  obtain ⟨_, _, hsce⟩ := specScanWith_respond _ _ _ hr
  unfold preTsigState at hnf h4
  rw [hsce] at hnf h4 ⊢
  generalize hsc : specBody (catKind cfg) cfg.payload req = sc at *
  obtain ⟨_, p2, p3⟩ := specBody_props (catKind cfg) cfg.payload req
  rw [hsc] at p2 p3
  have hq : ∀ x, sc.question = some x → ∃ nx, Spec.specQuestionAt req 12 = some (x.qname, x.qtype, x.qclass, nx) :=
    fun x hx => specBody_question (catKind cfg) cfg.payload req x (by rw [hsc]; exact hx)
  obtain ⟨hbase, _, _, _, _, _, hs3, _⟩ :=
    s1_facts bufLen tr cfg.payload (Spec.Server.hdr req 0) (((req.getD 2 0).toNat &&& 120) >>> 3)
      (((req.getD 2 0).toNat &&& 1) != 0) hbuf hpay req sc.question hq
  have g1 := good_s1 bufLen tr cfg.payload (Spec.Server.hdr req 0) (((req.getD 2 0).toNat &&& 120) >>> 3)
      (((req.getD 2 0).toNat &&& 1) != 0) hbuf hpay req sc.question hq
  have hv0 := hdrView_scan_state bufLen tr cfg.payload (Spec.Server.hdr req 0) (((req.getD 2 0).toNat &&& 120) >>> 3)
      (((req.getD 2 0).toNat &&& 1) != 0) hbuf hpay req sc.question hq sc.edns sc.limitUdp
  generalize qSt (hdrSt (w0 bufLen (lim0 tr)) (Spec.Server.hdr req 0) (((req.getD 2 0).toNat &&& 120) >>> 3)
      (((req.getD 2 0).toNat &&& 1) != 0)) sc.question = s1 at *
  have h3s : 3 < (arSt s1 tr cfg.payload sc.edns sc.limitUdp).octets.size := by rw [arSt_size]; exact hs3
  have gA := good_arSt s1 tr cfg.payload sc.edns sc.limitUdp _ g1 hbase p2 p3 hp16
  obtain ⟨_, _, f3, _, _, _, _, f8⟩ := arSt_fields s1 tr cfg.payload sc.edns sc.limitUdp
  -- the state the TSIG step leaves
  have hT : ∃ rc, Server.tsigAfter cfg now t mw r' (arSt s1 tr cfg.payload sc.edns sc.limitUdp) =
      (.ok none, truncSt (stRcode rc (arSt s1 tr cfg.payload sc.edns sc.limitUdp))) := by
    unfold Server.tsigAfter
    rw [hnow]
    rcases hnf with ⟨an, rc, mode, rr, han, hrep, hf⟩ | ⟨alg, key, ha, hk, hver, hf⟩
    · exact ⟨rc, tsigProcess_nofit_stop Tsig.realHmac cfg.keys _ h3s t mw.toList nowT r' kn an hkn han rc mode rr hrep hf⟩
    · exact ⟨0, tsigProcess_nofit_ok Tsig.realHmac cfg.keys _ h3s t mw.toList nowT r' kn hkn alg key ha hk hver hf⟩
  obtain ⟨rc, hT⟩ := hT
  rw [hT, hb] at h4
  simp only [afterTsig] at h4
  have gB := good_stRcode rc _ _ gA h3s
  have gC := good_truncSt _ _ gB (by rw [stRcode_size]; exact h3s)
  obtain ⟨t1, t2, _⟩ := truncSt_fields (stRcode rc (arSt s1 tr cfg.payload sc.edns sc.limitUdp))
  obtain ⟨u1, u2⟩ := stRcode_fields rc (arSt s1 tr cfg.payload sc.edns sc.limitUdp)
  rcases hfin : Writer.finish (truncSt (stRcode rc (arSt s1 tr cfg.payload sc.edns sc.limitUdp))) Server.macFn
    with ⟨bytes, mac⟩ | e | _
  · rw [hfin] at h4
    simp only [Out.ok.injEq, Option.some.injEq] at h4
    subst h4
    refine ⟨_, mac, hfin, gC, by rw [t1, u1, f3]; exact hbase.tsig, ?_, hdrView_truncSt rc _ h3s hv0⟩
    rw [truncSt_edns, stRcode_edns, f8, hbase.edns]
    cases sc.edns <;> rfl
  · rw [hfin] at h4; cases h4
  · rw [hfin] at h4; cases h4


end QV.ServerContent
