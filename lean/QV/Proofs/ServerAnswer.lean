/-
  QV.Proofs.ServerAnswer — helper lemmas for C05 / C04: the answer phase of the server model
  (`QV.Server.answer`, `answerAny`, `handleNonAxfrQueryL`) against `QV.Spec.Resolve.specResolve`.

  The model runs in `PM` = writer state + ghost operation log (`PS.log : List Ev`). `view` abstracts
  a log to what a decoder sees of the response: RCODE, AA, TC and the three sections as record lists
  (records of calls that the writer accepted; `clear_rrs` empties the sections).

  All statements quantify over *arbitrary* writer behaviour: the result of every writer call is
  whatever the writer model returns in the current state; the lemmas only use the recorded result.
-/
import QV.Model.Server
import QV.Spec.Resolve
import QV.Proofs.ZoneLookup
import QV.Proofs.ZoneIter
import QV.Proofs.Wire

namespace QV.ServerAnswer
open QV QV.Writer QV.Server QV.Zone QV.Spec.Zone QV.Spec.Resolve

/-! ### the view of an operation log -/

structure View where
  rcode : Nat := 0
  aa : Bool := false
  tc : Bool := false
  answer : List RR := []
  authority : List RR := []
  additional : List RR := []
  deriving DecidableEq, Repr

/-- the records of one writer call (owner case-folded) -/
def evRecords (e : AddEv) : List RR := e.rdatas.map (fun rd => ⟨fold e.owner, e.ty, e.cls, e.ttl, rd⟩)

def View.addTo (v : View) (sec : RrSection) (rs : List RR) : View :=
  match sec with
  | .answer => { v with answer := v.answer ++ rs }
  | .authority => { v with authority := v.authority ++ rs }
  | .additional => { v with additional := v.additional ++ rs }

def View.step (v : View) : Ev → View
  | .add e => (match e.res with
    | .ok () => v.addTo e.sec (evRecords e)
    | _ => v)                          -- a failed call is rolled back by the writer
  | .aa b => { v with aa := b }
  | .rcode r => { v with rcode := r }
  | .tc b => { v with tc := b }
  | .clear => { v with answer := [], authority := [], additional := [] }
  | .bad => v

/-- **the abstraction**: what the operations logged so far amount to -/
def view (log : List Ev) : View := log.foldl View.step {}

def View.ofResolution (r : Resolution) : View :=
  { rcode := r.rcode, aa := r.aa, tc := false, answer := r.answer, authority := r.authority,
    additional := r.additional }

/-! ### what is assumed of the writer calls in a run -/

/-- a logged call did not hit a capacity limit (`Truncation`, `CountOverflow`), was not out of
    order and did not panic; and the writer's RDATA check agrees with the specification's
    `renderable`: accepted ⇒ every RDATA renderable, `InvalidRdata` ⇒ some RDATA not renderable
    (`writer_rdata_faithful` proves the latter two of the writer model). -/
def GoodEv : Ev → Prop
  | .add e => (e.res = .ok () ∧ e.rdatas.all (renderable e.cls e.ty) = true) ∨
              (e.res = .err .InvalidRdata ∧ e.rdatas.all (renderable e.cls e.ty) = false)
  | .bad => False
  | _ => True

def GoodLog (evs : List Ev) : Prop := ∀ e ∈ evs, GoodEv e

theorem GoodLog.append {a b : List Ev} : GoodLog (a ++ b) ↔ GoodLog a ∧ GoodLog b := by
  simp [GoodLog, or_imp, forall_and]

theorem GoodLog.nil : GoodLog [] := by simp [GoodLog]

theorem GoodLog.cons {a : Ev} {b : List Ev} : GoodLog (a :: b) ↔ GoodEv a ∧ GoodLog b := by
  simp [GoodLog]

/-! ### deltas: what a successful stretch of the answer phase does to a view -/

structure Delta where
  an : List RR := []
  ns : List RR := []
  ar : List RR := []
  aa : Option Bool := none
  rcode : Option Nat := none
  deriving DecidableEq, Repr

def Delta.apply (d : Delta) (v : View) : View :=
  { rcode := d.rcode.getD v.rcode, aa := d.aa.getD v.aa, tc := v.tc,
    answer := v.answer ++ d.an, authority := v.authority ++ d.ns, additional := v.additional ++ d.ar }

def Delta.seq (a b : Delta) : Delta :=
  { an := a.an ++ b.an, ns := a.ns ++ b.ns, ar := a.ar ++ b.ar,
    aa := b.aa.orElse (fun _ => a.aa), rcode := b.rcode.orElse (fun _ => a.rcode) }

theorem Delta.apply_seq (a b : Delta) (v : View) : (a.seq b).apply v = b.apply (a.apply v) := by
  cases a with | mk an ns ar aa rc =>
  cases b with | mk an' ns' ar' aa' rc' =>
  cases aa' <;> cases rc' <;> simp [Delta.apply, Delta.seq, List.append_assoc]

theorem Delta.apply_nil (v : View) : ({} : Delta).apply v = v := by
  simp [Delta.apply]

theorem Delta.seq_nil_left (d : Delta) : ({} : Delta).seq d = d := by
  cases d with | mk an ns ar aa rc => cases aa <;> cases rc <;> simp [Delta.seq]

theorem Delta.seq_nil_right (d : Delta) : d.seq {} = d := by
  cases d with | mk an ns ar aa rc => simp [Delta.seq]

theorem Delta.seq_assoc (a b c : Delta) : (a.seq b).seq c = a.seq (b.seq c) := by
  cases a with | mk an ns ar aa rc =>
  cases b with | mk an' ns' ar' aa' rc' =>
  cases c with | mk an'' ns'' ar'' aa'' rc'' =>
  cases aa'' <;> cases rc'' <;> simp [Delta.seq, List.append_assoc]

/-- the delta of adding `rs` to section `sec` -/
def Delta.add (sec : RrSection) (rs : List RR) : Delta :=
  match sec with
  | .answer => { an := rs }
  | .authority => { ns := rs }
  | .additional => { ar := rs }

theorem Delta.add_apply (sec : RrSection) (rs : List RR) (v : View) :
    (Delta.add sec rs).apply v = v.addTo sec rs := by
  cases sec <;> simp [Delta.add, Delta.apply, View.addTo]

theorem Delta.add_append (sec : RrSection) (a b : List RR) :
    Delta.add sec (a ++ b) = (Delta.add sec a).seq (Delta.add sec b) := by
  cases sec <;> simp [Delta.add, Delta.seq]

theorem Delta.add_nil (sec : RrSection) : Delta.add sec [] = {} := by
  cases sec <;> rfl

/-- optional deltas: `none` = the specification says SERVFAIL -/
abbrev OD := Option Delta

def OD.seq (a b : OD) : OD :=
  match a, b with
  | some x, some y => some (x.seq y)
  | _, _ => none

@[simp] theorem OD.seq_none_left (b : OD) : OD.seq none b = none := rfl
@[simp] theorem OD.seq_none_right (a : OD) : OD.seq a none = none := by cases a <;> rfl
@[simp] theorem OD.seq_some (x y : Delta) : OD.seq (some x) (some y) = some (x.seq y) := rfl
@[simp] theorem OD.seq_id_left (b : OD) : OD.seq (some {}) b = b := by
  cases b <;> simp [OD.seq, Delta.seq_nil_left]
@[simp] theorem OD.seq_id_right (a : OD) : OD.seq a (some {}) = a := by
  cases a <;> simp [OD.seq, Delta.seq_nil_right]
theorem OD.seq_assoc (a b c : OD) : OD.seq (OD.seq a b) c = OD.seq a (OD.seq b c) := by
  cases a <;> cases b <;> cases c <;> simp [OD.seq, Delta.seq_assoc]

/-- add `rs` to `sec` if every record is renderable, else SERVFAIL -/
def okAdd (sec : RrSection) (rs : List RR) : OD :=
  if allRenderable rs then some (Delta.add sec rs) else none

theorem allRenderable_append (a b : List RR) :
    allRenderable (a ++ b) = (allRenderable a && allRenderable b) := by
  simp [allRenderable, List.all_append]

theorem okAdd_append (sec : RrSection) (a b : List RR) :
    okAdd sec (a ++ b) = OD.seq (okAdd sec a) (okAdd sec b) := by
  unfold okAdd
  rw [allRenderable_append]
  cases allRenderable a <;> cases allRenderable b <;> simp [Delta.add_append]

theorem okAdd_nil (sec : RrSection) : okAdd sec [] = some {} := by
  simp [okAdd, allRenderable, Delta.add_nil]

/-! ### `Does`: a computation of the answer phase against an optional delta -/

/-- the recorded result of a call agrees with the specification's `renderable` on its RDATA:
    accepted ⇒ every RDATA renderable; `InvalidRdata` ⇒ some RDATA not renderable -/
def FaithRes (a : AddEv) : Prop :=
  (a.res = .ok () → a.rdatas.all (renderable a.cls a.ty) = true) ∧
  (a.res = .err .InvalidRdata → a.rdatas.all (renderable a.cls a.ty) = false)

/-- **what C05 needs of the writer** (a statement about `QV.Model.Writer` alone, to be discharged
    there): `add_*_rrset` / `add_*_rr` accept a call only if the embedded names of every RDATA can
    be located (`Rdata::components` succeeds), and report `InvalidRdata` only if some cannot. -/
def WriterRdataFaithful : Prop :=
  ∀ (sec : RrSection) (hint : Hint) (owner : WName) (ty cls ttl : Nat) (w : State),
    (∀ rds : List (List UInt8),
      ((addRrsetOp sec hint owner ty cls ttl rds w).1 = .ok () → rds.all (renderable cls ty) = true) ∧
      ((addRrsetOp sec hint owner ty cls ttl rds w).1 = .err .InvalidRdata → rds.all (renderable cls ty) = false)) ∧
    (∀ rd : List UInt8,
      ((addRrOp sec hint owner ty cls ttl rd w).1 = .ok () → renderable cls ty rd = true) ∧
      ((addRrOp sec hint owner ty cls ttl rd w).1 = .err .InvalidRdata → renderable cls ty rd = false))

/-- nothing in `evs` touches TC or clears the sections; optional calls (inside
    `execute_allowing_truncation`) only ever concern the additional section; the recorded results
    are faithful about RDATA if the writer is (`WriterRdataFaithful`) -/
def Inv (evs : List Ev) : Prop :=
  ∀ e ∈ evs, (∀ b, e ≠ .tc b) ∧ e ≠ .clear ∧
    (∀ a, e = .add a → (a.optional = true → a.sec = .additional) ∧ (WriterRdataFaithful → FaithRes a))

theorem Inv.nil : Inv [] := by simp [Inv]
theorem Inv.append {a b : List Ev} (ha : Inv a) (hb : Inv b) : Inv (a ++ b) := by
  intro e he
  rcases List.mem_append.mp he with h | h
  · exact ha e h
  · exact hb e h

/-- `m`, started in any state, appends events `evs` (invariantly harmless: `Inv`), yields only
    values satisfying `post`, and — if every appended event is good — behaves as `S` prescribes:
    succeeds with the effect of the delta, or fails with `ServFail` when `S = none`. -/
def Does {α} (m : PM α) (S : OD) (post : α → Prop) : Prop :=
  ∀ ps : PS, ∃ evs, (m ps).2.log = ps.log ++ evs ∧ Inv evs ∧
    (∀ a, (m ps).1 = .ok a → post a) ∧
    (GoodLog evs →
      match S with
      | some d => (∃ a, (m ps).1 = .ok a) ∧ ∀ v, evs.foldl View.step v = d.apply v
      | none => (m ps).1 = .err .servFail)

theorem bind_def {α β} (x : PM α) (f : α → PM β) (s : PS) :
    (x >>= f) s = match x s with
      | (.ok a, s') => f a s'
      | (.err e, s') => (.err e, s')
      | (.panic, s') => (.panic, s') := rfl

theorem pure_def {α} (a : α) (s : PS) : (pure a : PM α) s = (.ok a, s) := rfl

theorem Does.pure {α} (a : α) : Does (pure a : PM α) (some {}) (fun x => x = a) := by
  intro ps
  refine ⟨[], by simp [pure_def], Inv.nil, ?_, ?_⟩
  · intro x hx; simp [pure_def] at hx; exact hx.symm
  · intro _; exact ⟨⟨a, rfl⟩, fun v => by simp [Delta.apply_nil]⟩

theorem Does.fail {α} (post : α → Prop) : Does (PM.fail .servFail : PM α) none post := by
  intro ps
  refine ⟨[], by simp [PM.fail], Inv.nil, ?_, ?_⟩
  · intro x hx; simp [PM.fail] at hx
  · intro _; rfl

theorem Does.weaken {α} {m : PM α} {S : OD} {p q : α → Prop} (h : Does m S p) (hpq : ∀ a, p a → q a) :
    Does m S q := by
  intro ps
  obtain ⟨evs, h1, h2, h3, h4⟩ := h ps
  exact ⟨evs, h1, h2, fun a ha => hpq a (h3 a ha), h4⟩

theorem Does.bind {α β} {m : PM α} {f : α → PM β} {S1 S2 : OD} {p1 : α → Prop} {p2 : β → Prop}
    (h1 : Does m S1 p1) (h2 : ∀ a, p1 a → Does (f a) S2 p2) : Does (m >>= f) (OD.seq S1 S2) p2 := by
  intro ps
  obtain ⟨evs1, hl1, hi1, hp1, hc1⟩ := h1 ps
  rw [bind_def]
  rcases hm : m ps with ⟨(a | e | _), ps1⟩
  · -- `m` succeeded
    rw [hm] at hl1 hp1 hc1
    have hpa : p1 a := hp1 a rfl
    obtain ⟨evs2, hl2, hi2, hp2, hc2⟩ := h2 a hpa ps1
    refine ⟨evs1 ++ evs2, ?_, hi1.append hi2, hp2, ?_⟩
    · simp only [] at hl1 ⊢; rw [hl2, hl1, List.append_assoc]
    · intro hg
      obtain ⟨hg1, hg2⟩ := GoodLog.append.mp hg
      have c1 := hc1 hg1
      have c2 := hc2 hg2
      cases S1 with
      | none => simp at c1
      | some d1 =>
        cases S2 with
        | none => simpa using c2
        | some d2 =>
          simp only [OD.seq_some]
          refine ⟨c2.1, fun v => ?_⟩
          rw [List.foldl_append, c1.2 v, c2.2, Delta.apply_seq]
  · -- `m` failed
    rw [hm] at hl1 hc1
    refine ⟨evs1, hl1, hi1, by intro x hx; simp at hx, ?_⟩
    intro hg
    have c1 := hc1 hg
    cases S1 with
    | none => simpa using c1
    | some d1 => simp at c1
  · rw [hm] at hl1 hc1
    refine ⟨evs1, hl1, hi1, by intro x hx; simp at hx, ?_⟩
    intro hg
    have c1 := hc1 hg
    cases S1 with
    | none => simp at c1
    | some d1 => simp at c1

/-- change the optional delta to an equal one -/
theorem Does.congr {α} {m : PM α} {S S' : OD} {p : α → Prop} (h : Does m S p) (e : S = S') : Does m S' p :=
  e ▸ h

/-! ### the primitives -/

theorem Does.hdrOp (ev : Ev) (m : M Unit) (d : Delta) (hinv : Inv [ev])
    (hstep : ∀ v, View.step v ev = d.apply v) : Does (PM.hdrOp ev m) (some d) (fun _ => True) := by
  intro ps
  unfold PM.hdrOp
  rcases h : m ps.w with ⟨(u | e | _), w'⟩
  · refine ⟨[ev], by simp, hinv, by simp, ?_⟩
    intro _
    exact ⟨⟨(), by simp⟩, fun v => by simp [hstep]⟩
  · refine ⟨[.bad], by simp, by simp [Inv], by simp, ?_⟩
    intro hg; exact absurd (hg .bad (by simp)) (by simp [GoodEv])
  · refine ⟨[.bad], by simp, by simp [Inv], by simp, ?_⟩
    intro hg; exact absurd (hg .bad (by simp)) (by simp [GoodEv])

theorem Does.setAa (b : Bool) : Does (PM.setAa b) (some { aa := some b }) (fun _ => True) :=
  Does.hdrOp _ _ _ (by simp [Inv]) (by intro v; simp [View.step, Delta.apply])

theorem Does.setRcode (r : Nat) : Does (PM.setRcode r) (some { rcode := some r }) (fun _ => True) :=
  Does.hdrOp _ _ _ (by simp [Inv]) (by intro v; simp [View.step, Delta.apply])

/-- the records of an RRset handed to the writer, as the specification lists them -/
theorem evRecords_eq (sec : RrSection) (owner : WName) (ty cls ttl : Nat) (rds : List (List UInt8)) (o : Bool)
    (res : Out WriterErr Unit) :
    evRecords ⟨sec, owner, ty, cls, ttl, rds, o, res⟩ = Spec.Resolve.rrs (fold owner) ty cls ⟨ty, ttl, rds⟩ := by
  simp [evRecords, Spec.Resolve.rrs]

theorem allRenderable_rrs (owner : NameL.Name) (ty cls : Nat) (s : Rrset) :
    allRenderable (Spec.Resolve.rrs owner ty cls s) = s.rdatas.all (renderable cls ty) := by
  simp [allRenderable, Spec.Resolve.rrs, List.all_map, Function.comp_def]

/-- the result of the writer call `m` is faithful about the RDATA of `ev` -/
def FaithCall (ev : AddEv) (m : M HV) : Prop :=
  ∀ w, (∀ hv, (m w).1 = .ok hv → ev.rdatas.all (renderable ev.cls ev.ty) = true) ∧
       ((m w).1 = .err .InvalidRdata → ev.rdatas.all (renderable ev.cls ev.ty) = false)

theorem inv_addEv (ev : AddEv) (m : M HV) (hopt : ev.optional = true → ev.sec = .additional)
    (hm : WriterRdataFaithful → FaithCall ev m) (w : State) (r : Out WriterErr Unit)
    (hr : r = match (m w).1 with | .ok _ => .ok () | .err e => .err e | .panic => .panic) :
    Inv [Ev.add { ev with res := r }] := by
  intro e he
  simp only [List.mem_singleton] at he
  subst he
  refine ⟨by simp, by simp, ?_⟩
  intro a ha
  cases ha
  refine ⟨hopt, fun hW => ⟨?_, ?_⟩⟩
  · intro h1
    simp only [] at h1
    rw [hr] at h1
    rcases h : (m w).1 with hv | e | _
    · exact (hm hW w).1 hv h
    · rw [h] at h1; cases h1
    · rw [h] at h1; cases h1
  · intro h1
    simp only [] at h1
    rw [hr] at h1
    rcases h : (m w).1 with hv | e | _
    · rw [h] at h1; cases h1
    · rw [h] at h1; cases h1; exact (hm hW w).2 h
    · rw [h] at h1; cases h1

/-- one logged writer call -/
theorem Does.addCall (ev : AddEv) (m : M HV) (hopt : ev.optional = true → ev.sec = .additional)
    (hm : WriterRdataFaithful → FaithCall ev m) :
    Does (PM.addCall ev m) (okAdd ev.sec (evRecords ev)) (fun _ => True) := by
  intro ps
  unfold PM.addCall
  have hrec : ∀ r, evRecords { ev with res := r } = evRecords ev := fun r => rfl
  have hren : allRenderable (evRecords ev) = ev.rdatas.all (renderable ev.cls ev.ty) := by
    simp [allRenderable, evRecords, List.all_map, Function.comp_def]
  rcases h : m ps.w with ⟨(hv | e | _), w'⟩
  · refine ⟨[.add { ev with res := .ok () }], by simp, (inv_addEv ev m hopt hm ps.w _ (by simp [h])), by simp, ?_⟩
    intro hg
    have g := hg _ (List.mem_singleton.mpr rfl)
    simp only [GoodEv] at g
    rcases g with ⟨_, g⟩ | ⟨g, _⟩
    · simp only [okAdd, hren, g, if_true]
      refine ⟨⟨some hv, rfl⟩, fun v => ?_⟩
      simp [View.step, Delta.add_apply, hrec]
    · cases g
  · refine ⟨[.add { ev with res := .err e }], ?_, (inv_addEv ev m hopt hm ps.w _ (by simp [h])), ?_, ?_⟩
    · simp only []; split <;> rfl
    · intro a ha; trivial
    · intro hg
      have g := hg _ (List.mem_singleton.mpr rfl)
      simp only [GoodEv] at g
      rcases g with ⟨g, _⟩ | ⟨g, g2⟩
      · cases g
      · cases g
        simp only [okAdd, hren, g2]
        simp [PErr.ofWriter]
  · refine ⟨[.add { ev with res := .panic }], by simp, (inv_addEv ev m hopt hm ps.w _ (by simp [h])), by simp, ?_⟩
    intro hg
    have g := hg _ (List.mem_singleton.mpr rfl)
    simp only [GoodEv] at g
    rcases g with ⟨g, _⟩ | ⟨g, _⟩ <;> cases g

theorem faith_addRrs (hW : WriterRdataFaithful) (sec : RrSection) (hint : Hint) (owner : WName) (ty cls ttl : Nat)
    (rds : List (List UInt8)) (opt : Bool) (r : Out WriterErr Unit) :
    FaithCall ⟨sec, owner, ty, cls, ttl, rds, opt, r⟩ (withHv [] (addRrsetOp sec hint owner ty cls ttl rds)) := by
  intro w
  have h := (hW sec hint owner ty cls ttl { w with hv := some [] }).1 rds
  unfold Server.withHv
  rcases hr : addRrsetOp sec hint owner ty cls ttl rds { w with hv := some [] } with ⟨(u | e | _), w'⟩
  · rw [hr] at h; exact ⟨fun _ _ => h.1 rfl, by simp⟩
  · rw [hr] at h
    refine ⟨by simp, ?_⟩
    intro he
    simp only [Out.err.injEq] at he
    subst he
    exact h.2 rfl
  · exact ⟨by simp, by simp⟩

theorem faith_addRr1 (hW : WriterRdataFaithful) (sec : RrSection) (hint : Hint) (owner : WName) (ty cls ttl : Nat)
    (rd : List UInt8) (opt : Bool) (r : Out WriterErr Unit) :
    FaithCall ⟨sec, owner, ty, cls, ttl, [rd], opt, r⟩ (withHv [] (addRrOp sec hint owner ty cls ttl rd)) := by
  intro w
  have h := (hW sec hint owner ty cls ttl { w with hv := some [] }).2 rd
  unfold Server.withHv
  rcases hr : addRrOp sec hint owner ty cls ttl rd { w with hv := some [] } with ⟨(u | e | _), w'⟩
  · rw [hr] at h; exact ⟨fun _ _ => by simpa using h.1 rfl, by simp⟩
  · rw [hr] at h
    refine ⟨by simp, ?_⟩
    intro he
    simp only [Out.err.injEq] at he
    subst he
    simpa using h.2 rfl
  · exact ⟨by simp, by simp⟩

theorem Does.addRrs (opt : Bool) (sec : RrSection) (hint : Hint) (owner : WName) (ty cls ttl : Nat)
    (rds : List (List UInt8)) (hopt : opt = true → sec = .additional) :
    Does (PM.addRrs opt sec hint owner ty cls ttl rds)
      (okAdd sec (Spec.Resolve.rrs (fold owner) ty cls ⟨ty, ttl, rds⟩)) (fun _ => True) := by
  have := Does.addCall ⟨sec, owner, ty, cls, ttl, rds, opt, .ok ()⟩
    (withHv [] (addRrsetOp sec hint owner ty cls ttl rds)) hopt (fun hW => faith_addRrs hW sec hint owner ty cls ttl rds opt _)
  rw [evRecords_eq] at this
  exact this

theorem Does.addRr1 (sec : RrSection) (hint : Hint) (owner : WName) (ty cls ttl : Nat) (rd : List UInt8) :
    Does (PM.addRr1 sec hint owner ty cls ttl rd)
      (okAdd sec [⟨fold owner, ty, cls, ttl, rd⟩]) (fun _ => True) := by
  unfold PM.addRr1
  have h := Does.addCall ⟨sec, owner, ty, cls, ttl, [rd], false, .ok ()⟩
    (withHv [] (addRrOp sec hint owner ty cls ttl rd)) (by simp) (fun hW => faith_addRr1 hW sec hint owner ty cls ttl rd false _)
  have h2 : Does _ _ (fun _ : Unit => True) :=
    Does.bind h (fun a _ => Does.weaken (Does.pure ()) (fun _ _ => True.intro))
  rw [OD.seq_id_right] at h2
  exact h2

/-! ### names in RDATA: the writer's structural parser and the specification's -/

theorem parseLabels_eq (fuel : Nat) (b : List UInt8) : WName.parseLabels fuel b = labelsAt fuel b := by
  induction fuel generalizing b with
  | zero => rfl
  | succ f ih =>
    cases b with
    | nil => rfl
    | cons l rest =>
      simp only [WName.parseLabels, labelsAt, ih]
      have : Gen.MAX_LABEL_LEN = 63 := rfl
      rw [this]
      rfl

theorem wire_length (ls : List Label) : (WName.mk ls).wire.length = wireLen ls := by
  simp only [WName.wire, wireLen, List.length_append, List.length_singleton]
  congr 1
  induction ls with
  | nil => rfl
  | cons l ls ih => simp [List.flatMap_cons, WName.encLabel, ih]; omega

theorem parse_eq (b : List UInt8) :
    WName.parse b = match labelsAt (b.length + 1) b with
      | some (ls, r) => if wireLen ls ≤ 255 then some (⟨ls⟩, r) else none
      | none => none := by
  unfold WName.parse
  rw [parseLabels_eq]
  have : Gen.MAX_WIRE_LEN = 255 := rfl
  cases labelsAt (b.length + 1) b with
  | none => rfl
  | some p => simp only [wire_length, this]

theorem nameAt_eq (b : List UInt8) : Spec.Resolve.nameAt b = (WName.parse b).map (fun p => (fold p.1, p.2)) := by
  rw [parse_eq]
  unfold Spec.Resolve.nameAt
  cases labelsAt (b.length + 1) b with
  | none => rfl
  | some p =>
    by_cases h : wireLen p.1 ≤ 255 <;> simp [h, fold]

theorem exactName_eq (b : List UInt8) :
    exactName b = match WName.parse b with
      | some (n, []) => some (fold n)
      | _ => none := by
  unfold exactName
  rw [nameAt_eq]
  rcases WName.parse b with _ | ⟨n, r⟩
  · rfl
  · cases r <;> rfl

theorem labelsAt_wire (fuel : Nat) (b : List UInt8) (ls : List Label) (r : List UInt8)
    (h : labelsAt fuel b = some (ls, r)) : b = ls.flatMap WName.encLabel ++ [0] ++ r := by
  induction fuel generalizing b ls r with
  | zero => simp [labelsAt] at h
  | succ f ih =>
    cases b with
    | nil => simp [labelsAt] at h
    | cons l rest =>
      simp only [labelsAt] at h
      split at h
      · next hl => cases h; simp [hl]
      · split at h
        · cases h
        · split at h
          · cases h
          · next h1 h2 h3 =>
            rcases hr : labelsAt f (List.drop l.toNat rest) with _ | ⟨ls', r'⟩
            · rw [hr] at h; cases h
            · rw [hr] at h
              cases h
              have e := ih _ _ _ hr
              have hlen : (List.take l.toNat rest).length = l.toNat := by
                rw [List.length_take]; omega
              simp only [List.flatMap_cons, WName.encLabel, hlen, List.cons_append, List.append_assoc]
              have hl : UInt8.ofNat l.toNat = l := by simp
              rw [hl]
              congr 1
              have := List.take_append_drop l.toNat rest
              conv => lhs; rw [← this, e]
              simp [List.append_assoc]

theorem parse_wire (b : List UInt8) (n : WName) (h : WName.parse b = some (n, [])) : n.wire = b := by
  rw [parse_eq] at h
  rcases hl : labelsAt (b.length + 1) b with _ | ⟨ls, r⟩
  · rw [hl] at h; cases h
  · rw [hl] at h
    simp only [] at h
    split at h
    · cases h
      have := labelsAt_wire _ _ _ _ hl
      simp [WName.wire, this]
    · cases h

/-- the name a record's RDATA holds from offset `start` on (`read_name_from_rdata`) -/
def targetAt (start : Nat) (rd : List UInt8) : Option NameL.Name :=
  if rd.length < start then none else exactName (rd.drop start)

theorem targetOf_eq (t : Nat) (rd : List UInt8) :
    targetOf t rd = if t = MX then targetAt 2 rd else if t = SRV then targetAt 6 rd else targetAt 0 rd := by
  unfold targetOf targetAt
  simp

theorem Does.readName (rd : List UInt8) (start : Nat) :
    Does (readNameFromRdata rd start) (if (targetAt start rd).isSome then some {} else none)
      (fun n => targetAt start rd = some (fold n)) := by
  unfold readNameFromRdata targetAt
  by_cases hs : start > rd.length
  · have : rd.length < start := hs
    simp only [hs, if_true]
    exact Does.fail _
  · have : ¬ rd.length < start := hs
    simp only [hs, if_false]
    rw [exactName_eq]
    rcases hp : WName.parse (List.drop start rd) with _ | ⟨n, r⟩
    · simpa using Does.fail _
    · cases r with
      | nil =>
        simp only [Option.isSome_some, if_true]
        exact Does.weaken (Does.pure n) (fun a ha => by rw [ha])
      | cons x xs => simpa using Does.fail _

/-! ### a call whose `Truncation` may be swallowed, followed by a continuation -/

theorem Does.bindOpt {β} (ev : AddEv) (m : M HV) (hopt : ev.optional = true → ev.sec = .additional)
    (hm : WriterRdataFaithful → FaithCall ev m) {k : HV → PM β} {b : β} {S2 : OD} {p2 : β → Prop} (hk : ∀ x, Does (k x) S2 p2) (hb : p2 b) :
    Does (PM.addCall ev m >>= fun o => match o with
            | some x => k x
            | none => (Pure.pure b : PM β))
      (OD.seq (okAdd ev.sec (evRecords ev)) S2) p2 := by
  intro ps
  have hrec : ∀ r, evRecords { ev with res := r } = evRecords ev := fun r => rfl
  have hren : allRenderable (evRecords ev) = ev.rdatas.all (renderable ev.cls ev.ty) := by
    simp [allRenderable, evRecords, List.all_map, Function.comp_def]
  rw [bind_def]
  unfold PM.addCall
  rcases h : m ps.w with ⟨(hv | e | _), w'⟩
  · -- accepted: continue with `k hv`
    simp only []
    obtain ⟨evs2, hl2, hi2, hp2, hc2⟩ := hk hv { w := w', log := ps.log ++ [.add { ev with res := .ok () }] }
    refine ⟨[.add { ev with res := .ok () }] ++ evs2, ?_, (inv_addEv ev m hopt hm ps.w _ (by simp [h])).append hi2, hp2, ?_⟩
    · rw [hl2]; simp
    · intro hg
      obtain ⟨hg1, hg2⟩ := GoodLog.append.mp hg
      have g := hg1 _ (List.mem_singleton.mpr rfl)
      simp only [GoodEv] at g
      rcases g with ⟨_, g⟩ | ⟨g, _⟩
      · have c2 := hc2 hg2
        simp only [okAdd, hren, g, if_true]
        cases S2 with
        | none => simpa using c2
        | some d2 =>
          simp only [OD.seq_some]
          refine ⟨c2.1, fun v => ?_⟩
          rw [List.foldl_append, c2.2, Delta.apply_seq]
          simp [View.step, Delta.add_apply, hrec]
      · cases g
  · by_cases ht : ev.optional = true ∧ e = .Truncation
    · -- swallowed
      simp only []
      rw [if_pos ht]
      refine ⟨[.add { ev with res := .err e }], by simp [pure_def], (inv_addEv ev m hopt hm ps.w _ (by simp [h])), ?_, ?_⟩
      · intro a ha; simp [pure_def] at ha; rw [← ha]; exact hb
      · intro hg
        have g := hg _ (List.mem_singleton.mpr rfl)
        simp only [GoodEv] at g
        rcases g with ⟨g, _⟩ | ⟨g, _⟩
        · cases g
        · rw [ht.2] at g; cases g
    · simp only []
      rw [if_neg ht]
      refine ⟨[.add { ev with res := .err e }], by simp, (inv_addEv ev m hopt hm ps.w _ (by simp [h])), by simp, ?_⟩
      intro hg
      have g := hg _ (List.mem_singleton.mpr rfl)
      simp only [GoodEv] at g
      rcases g with ⟨g, _⟩ | ⟨g, g2⟩
      · cases g
      · cases g
        simp [okAdd, hren, g2, PErr.ofWriter]
  · simp only []
    refine ⟨[.add { ev with res := .panic }], by simp, (inv_addEv ev m hopt hm ps.w _ (by simp [h])), by simp, ?_⟩
    intro hg
    have g := hg _ (List.mem_singleton.mpr rfl)
    simp only [GoodEv] at g
    rcases g with ⟨g, _⟩ | ⟨g, _⟩ <;> cases g

/-! ### address records (`add_additional_addresses`) -/

theorem Does.aaaaPart (z : Zone.Zone) (sz : SZone) (hc : z.cls = sz.cls) (hint : Hint) (owner : WName) (opt : Bool)
    (aaaa : Option Rrset) :
    Does (addAaaa z hint owner opt aaaa)
      (okAdd .additional (if sz.cls = IN then optRrs (fold owner) AAAA IN aaaa else [])) (fun _ => True) := by
  unfold addAaaa
  rw [CLASS_IN_eq, hc, T_AAAA_eq]
  by_cases hin : sz.cls = IN
  · simp only [hin, if_true]
    cases aaaa with
    | none => simpa [optRrs, okAdd_nil] using Does.weaken (Does.pure ()) (fun _ _ => True.intro)
    | some r =>
      have h1 := Does.addRrs opt .additional hint owner AAAA IN r.ttl r.rdatas (fun _ => rfl)
      have h2 : Does _ _ (fun _ : Unit => True) :=
        Does.bind h1 (fun a _ => Does.weaken (Does.pure ()) (fun _ _ => True.intro))
      rw [OD.seq_id_right] at h2
      have e : Spec.Resolve.rrs (fold owner) AAAA IN ⟨AAAA, r.ttl, r.rdatas⟩ = optRrs (fold owner) AAAA IN (some r) := by
        simp [optRrs, Spec.Resolve.rrs]
      rw [e] at h2
      exact h2
  · simp only [hin, if_false]
    simpa [okAdd_nil] using Does.weaken (Does.pure ()) (fun _ _ => True.intro)

theorem Does.addrs {z : Zone.Zone} {sz : SZone} (hR : Rel z sz) (hint : Hint) (owner : WName) (sbc opt : Bool) :
    Does (addAdditionalAddresses z hint owner sbc opt)
      (okAdd .additional (addrRRs sz (fold owner) sbc)) (fun _ => True) := by
  unfold addAdditionalAddresses addrRRs
  rw [lookupAddrs_eq_spec hR (fold owner) ⟨false, sbc⟩ (by simp [constrained])]
  cases specLookupAddrs sz (fold owner) ⟨false, sbc⟩ with
  | found a aaaa sos =>
    simp only []
    cases a with
    | none =>
      simpa [optRrs] using Does.aaaaPart z sz hR.cls hint owner opt aaaa
    | some r =>
      simp only []
      rw [okAdd_append]
      have hk := Does.aaaaPart z sz hR.cls Hint.mostRecentOwner owner opt aaaa
      unfold PM.addRrs
      rw [T_A_eq, hR.cls]
      have := Does.bindOpt ⟨.additional, owner, A, sz.cls, r.ttl, r.rdatas, opt, .ok ()⟩
        (withHv [] (addRrsetOp .additional hint owner A sz.cls r.ttl r.rdatas)) (fun _ => rfl)
        (fun hW => faith_addRrs hW .additional hint owner A sz.cls r.ttl r.rdatas opt _)
        (k := fun _ => Server.addAaaa z Hint.mostRecentOwner owner opt aaaa) (b := ()) (fun _ => hk) True.intro
      have e : Spec.Resolve.rrs (fold owner) A sz.cls ⟨A, r.ttl, r.rdatas⟩ = optRrs (fold owner) A sz.cls (some r) := by
        simp [optRrs, Spec.Resolve.rrs]
      rw [evRecords_eq, e] at this
      exact this
  | referral c ns => simpa [okAdd_nil] using Does.weaken (Does.pure ()) (fun _ _ => True.intro)
  | nxDomain => simpa [okAdd_nil] using Does.weaken (Does.pure ()) (fun _ _ => True.intro)
  | wrongZone => simpa [okAdd_nil] using Does.weaken (Does.pure ()) (fun _ _ => True.intro)

/-! ### case folding -/

theorem lowerU8_idem (b : UInt8) : lowerU8 (lowerU8 b) = lowerU8 b := by
  revert b; apply QV.Wire.forall_uint8; unfold lowerU8; decide +kernel

/-- a name all of whose labels are lower-case already -/
def Folded (n : NameL.Name) : Prop := n.map NameL.lowerLabel = n

theorem lowerLabel_idem (l : NameL.Label) : NameL.lowerLabel (NameL.lowerLabel l) = NameL.lowerLabel l := by
  simp [NameL.lowerLabel, List.map_map, Function.comp_def, lowerU8_idem]

theorem folded_fold (n : WName) : Folded (fold n) := by
  simp [Folded, fold, List.map_map, Function.comp_def, lowerLabel_idem]

theorem Folded.suffix {c n : NameL.Name} (h : Folded n) (hs : c <:+ n) : Folded c := by
  obtain ⟨p, rfl⟩ := hs
  unfold Folded at h ⊢
  rw [List.map_append] at h
  exact (List.append_inj h (by simp)).2

theorem fold_unfold {n : NameL.Name} (h : Folded n) : fold (unfold n) = n := h

/-! ### the loops of additional-section processing -/

/-- the specification's additional records for the targets of an RRset, `start` octets in -/
def loopS (sz : SZone) (start : Nat) (rds : List (List UInt8)) : OD :=
  match allSome (rds.map (targetAt start)) with
  | some ts => okAdd .additional (ts.flatMap (fun n => addrRRs sz n false))
  | none => none

theorem Does.additionalLoop {z : Zone.Zone} {sz : SZone} (hR : Rel z sz) (start : Nat) (hv : Option HV)
    (rds : List (List UInt8)) (idx : Nat) :
    Does (Server.additionalLoop z start hv rds idx) (loopS sz start rds) (fun _ => True) := by
  induction rds generalizing idx with
  | nil =>
    simpa [Server.additionalLoop, loopS, allSome, okAdd_nil] using
      Does.weaken (Does.pure ()) (fun _ _ => True.intro)
  | cons rd rest ih =>
    unfold Server.additionalLoop
    have h1 := Does.readName rd start
    have h2 : ∀ (hint : Hint) (n : WName), targetAt start rd = some (fold n) →
        Does (do
          Server.addAdditionalAddresses z hint n false true
          Server.additionalLoop z start hv rest (idx + 1))
          (match targetAt start rd with
            | some t => OD.seq (okAdd .additional (addrRRs sz t false)) (loopS sz start rest)
            | none => none) (fun _ => True) := by
      intro hint n hn
      rw [hn]
      exact Does.bind (Does.addrs hR _ n false true) (fun _ _ => ih (idx + 1))
    refine Does.congr (Does.bind h1 (fun n hn => h2 _ n hn)) ?_
    unfold loopS
    cases ht : targetAt start rd with
    | none => simp [allSome, ht]
    | some t =>
      simp only [List.map_cons, ht, allSome, Option.isSome_some, if_true, OD.seq_id_left]
      cases allSome (List.map (targetAt start) rest) with
      | none => simp
      | some ts => simp [List.flatMap_cons, okAdd_append]

theorem T_MB : T "MB" = MB := by decide
theorem T_MD : T "MD" = MD := by decide
theorem T_MF : T "MF" = MF := by decide
theorem T_NS : T "NS" = NS := by decide
theorem T_MX : T "MX" = MX := by decide
theorem T_SRV : T "SRV" = SRV := by decide
theorem T_SOA : T "SOA" = SOA := by decide
theorem T_CNAME : T "CNAME" = CNAME := by decide
theorem RC_NXDOMAIN : RC "NXDOMAIN" = NXDOMAIN := by decide
theorem RC_SERVFAIL : RC "SERVFAIL" = SERVFAIL := by decide
theorem QT_ANY : QT "ANY" = ANY := by decide

/-- additional-section processing of the specification, as an optional delta -/
def additionalS (sz : SZone) (t : Nat) (s : Rrset) : OD :=
  match additionalFor sz t s with
  | some ar => okAdd .additional ar
  | none => none

theorem Does.additionalProcessing {z : Zone.Zone} {sz : SZone} (hR : Rel z sz) (t : Nat) (s : Rrset) (hv : Option HV) :
    Does (doAdditionalSectionProcessing z t s hv) (additionalS sz t s) (fun _ => True) := by
  unfold doAdditionalSectionProcessing additionalS additionalFor
  rw [CLASS_IN_eq, CLASS_CH_eq, hR.cls, T_MB, T_MD, T_MF, T_NS, T_MX, T_SRV]
  by_cases hc : sz.cls ≠ IN ∧ sz.cls ≠ CH
  · rw [if_pos hc, if_pos hc]
    simpa [okAdd_nil] using Does.weaken (Does.pure ()) (fun _ _ => True.intro)
  · rw [if_neg hc, if_neg hc]
    have key : ∀ start, (∀ rd, targetOf t rd = targetAt start rd) →
        Does (Server.additionalLoop z start hv s.rdatas 0)
          (match (allSome (List.map (targetOf t) s.rdatas)).map
              (fun ts => List.flatMap (fun n => addrRRs sz n false) ts) with
            | some ar => okAdd .additional ar
            | none => none) (fun _ => True) := by
      intro start hst
      have := Does.additionalLoop hR start hv s.rdatas 0
      refine Does.congr this ?_
      unfold loopS
      have e : List.map (targetOf t) s.rdatas = List.map (targetAt start) s.rdatas :=
        List.map_congr_left (fun rd _ => hst rd)
      rw [e]
      cases allSome (List.map (targetAt start) s.rdatas) <;> rfl
    by_cases h1 : t = MB ∨ t = MD ∨ t = MF ∨ t = NS
    · have hp : hasAdditionalProcessing t = true := by
        rcases h1 with h | h | h | h <;> subst h <;> decide
      simp only [h1, if_true, hp]
      apply key 0
      intro rd
      rw [targetOf_eq]
      rcases h1 with h | h | h | h <;> subst h <;> simp [MB, MD, MF, NS, MX, SRV]
    · simp only [h1, if_false]
      by_cases h2 : t = MX
      · subst h2
        simp only [if_true]
        have hp : hasAdditionalProcessing MX = true := by decide
        simp only [hp, if_true]
        apply key 2
        intro rd; rw [targetOf_eq]; simp
      · simp only [h2, if_false]
        by_cases h3 : t = SRV
        · subst h3
          simp only [if_true]
          have hp : hasAdditionalProcessing SRV = true := by decide
          simp only [hp, if_true]
          apply key 6
          intro rd; rw [targetOf_eq]; simp [SRV, MX]
        · simp only [h3, if_false]
          have hp : hasAdditionalProcessing t = false := by
            simp only [hasAdditionalProcessing, Bool.or_eq_false_iff, beq_eq_false_iff_ne, ne_eq]
            simp only [not_or] at h1
            exact ⟨⟨⟨⟨⟨h1.2.2.2, h1.2.1⟩, h1.2.2.1⟩, h1.1⟩, h2⟩, h3⟩
          simp only [hp]
          simpa [okAdd_nil] using Does.weaken (Does.pure ()) (fun _ _ => True.intro)

/-! ### referrals -/

theorem eqOrSub_eq (n c : NameL.Name) : NameL.eqOrSubdomainOf n c = c.isSuffixOf n := by
  rw [Bool.eq_iff_iff, eqOrSubdomainOf_iff, List.isSuffixOf_iff_suffix]

theorem Does.classifyNs (child : NameL.Name) (hc : Folded child) (rds : List (List UInt8)) (idx : Nat) :
    Does (Server.classifyNs (unfold child) rds idx)
      (if (allSome (rds.map (targetAt 0))).isSome then some {} else none)
      (fun p => ∃ ts, allSome (rds.map (targetAt 0)) = some ts ∧
        p.1.map (fun x => fold x.2) = ts.filter (fun n => child.isSuffixOf n) ∧
        p.2.map (fun x => fold x.2) = ts.filter (fun n => !child.isSuffixOf n)) := by
  induction rds generalizing idx with
  | nil =>
    simp only [Server.classifyNs, List.map_nil, allSome, Option.isSome_some, if_true]
    exact Does.weaken (Does.pure ([], [])) (fun a ha => by subst ha; exact ⟨[], rfl, rfl, rfl⟩)
  | cons rd rest ih =>
    unfold Server.classifyNs
    have h1 := Does.readName rd 0
    have h2 : ∀ n : WName, targetAt 0 rd = some (fold n) →
        Does (do
          let (g, a) ← Server.classifyNs (unfold child) rest (idx + 1)
          if NameL.eqOrSubdomainOf (fold n) (fold (unfold child)) then (Pure.pure ((idx, n) :: g, a) : PM _)
          else Pure.pure (g, (idx, n) :: a))
          (if (allSome (rest.map (targetAt 0))).isSome then some {} else none)
          (fun p => ∃ ts, allSome ((rd :: rest).map (targetAt 0)) = some ts ∧
            p.1.map (fun x => fold x.2) = ts.filter (fun n => child.isSuffixOf n) ∧
            p.2.map (fun x => fold x.2) = ts.filter (fun n => !child.isSuffixOf n)) := by
      intro n hn
      have h3 := Does.bind (ih (idx + 1)) (S2 := some {})
        (p2 := fun p => ∃ ts, allSome ((rd :: rest).map (targetAt 0)) = some ts ∧
            p.1.map (fun x => fold x.2) = ts.filter (fun n => child.isSuffixOf n) ∧
            p.2.map (fun x => fold x.2) = ts.filter (fun n => !child.isSuffixOf n))
        (f := fun (p : List (Nat × WName) × List (Nat × WName)) =>
          if NameL.eqOrSubdomainOf (fold n) (fold (unfold child)) then (Pure.pure ((idx, n) :: p.1, p.2) : PM _)
          else Pure.pure (p.1, (idx, n) :: p.2)) ?_
      · rw [OD.seq_id_right] at h3
        exact h3
      · rintro ⟨g, a⟩ ⟨ts, hts, hg, ha⟩
        rw [fold_unfold hc, eqOrSub_eq]
        by_cases hb : child.isSuffixOf (fold n) = true
        · simp only [hb, if_true]
          refine Does.weaken (Does.pure _) (fun x hx => ?_)
          subst hx
          refine ⟨fold n :: ts, by simp [allSome, hn, hts], ?_, ?_⟩
          · simp [hb, hg]
          · simp [hb, ha]
        · simp only [hb]
          refine Does.weaken (Does.pure _) (fun x hx => ?_)
          subst hx
          refine ⟨fold n :: ts, by simp [allSome, hn, hts], ?_, ?_⟩
          · simp [hb, hg]
          · simp [hb, ha]
    refine Does.congr (Does.bind h1 h2) ?_
    cases ht : targetAt 0 rd with
    | none => simp [allSome, ht]
    | some t =>
      simp only [List.map_cons, ht, allSome, Option.isSome_some, if_true, OD.seq_id_left]
      cases allSome (List.map (targetAt 0) rest) <;> simp

theorem Does.glueLoop {z : Zone.Zone} {sz : SZone} (hR : Rel z sz) (hv : HV) (opt : Bool) (l : List (Nat × WName)) :
    Does (Server.glueLoop z hv opt l)
      (okAdd .additional ((l.map (fun x => fold x.2)).flatMap (fun n => addrRRs sz n true))) (fun _ => True) := by
  induction l with
  | nil => simpa [Server.glueLoop, okAdd_nil] using Does.weaken (Does.pure ()) (fun _ _ => True.intro)
  | cons p rest ih =>
    unfold Server.glueLoop
    refine Does.congr (Does.bind (Does.addrs hR _ p.2 true opt) (fun _ _ => ih)) ?_
    simp [List.flatMap_cons, okAdd_append]

/-- the referral part of the specification as an optional delta -/
def referralS (sz : SZone) (child : NameL.Name) (ns : Rrset) : OD :=
  OD.seq (okAdd .authority (Spec.Resolve.rrs child NS sz.cls ns))
    (match nsTargets child ns with
     | some (inb, others) =>
       okAdd .additional (inb.flatMap (fun n => addrRRs sz n true) ++ others.flatMap (fun n => addrRRs sz n true))
     | none => none)

theorem targetOf_NS (rd : List UInt8) : targetOf NS rd = targetAt 0 rd := by
  rw [targetOf_eq]; simp [NS, MX, SRV]

theorem Does.referral {z : Zone.Zone} {sz : SZone} (hR : Rel z sz) (child : NameL.Name) (hc : Folded child)
    (ns : Rrset) : Does (doReferral z child ns) (referralS sz child ns) (fun _ => True) := by
  unfold doReferral referralS
  rw [T_NS, hR.cls]
  have h1 := Does.addRrs false .authority .none (unfold child) NS sz.cls ns.ttl ns.rdatas (by simp)
  rw [fold_unfold hc] at h1
  have e1 : Spec.Resolve.rrs child NS sz.cls ⟨NS, ns.ttl, ns.rdatas⟩ = Spec.Resolve.rrs child NS sz.cls ns := by
    simp [Spec.Resolve.rrs]
  rw [e1] at h1
  refine Does.congr (Does.bind h1 (fun hv _ => Does.bind (Does.classifyNs child hc ns.rdatas 0)
    (p2 := fun _ => True)
    (S2 := match nsTargets child ns with
     | some (inb, others) =>
       OD.seq (okAdd .additional (inb.flatMap (fun n => addrRRs sz n true)))
        (okAdd .additional (others.flatMap (fun n => addrRRs sz n true)))
     | none => none) ?_)) ?_
  · rintro ⟨g, a⟩ ⟨ts, hts, hg, ha⟩
    have e : nsTargets child ns = some (ts.filter (fun n => child.isSuffixOf n), ts.filter (fun n => !child.isSuffixOf n)) := by
      unfold nsTargets
      have : List.map (targetOf NS) ns.rdatas = List.map (targetAt 0) ns.rdatas :=
        List.map_congr_left (fun rd _ => targetOf_NS rd)
      rw [this, hts]; rfl
    rw [e]
    simp only []
    rw [← hg, ← ha]
    exact Does.bind (Does.glueLoop hR _ false g) (fun _ _ => Does.glueLoop hR _ true a)
  · congr 1
    unfold nsTargets
    have : List.map (targetOf NS) ns.rdatas = List.map (targetAt 0) ns.rdatas :=
      List.map_congr_left (fun rd _ => targetOf_NS rd)
    rw [this]
    cases allSome (List.map (targetAt 0) ns.rdatas) with
    | none => simp
    | some ts => simp [okAdd_append]

/-! ### the negative-caching SOA -/

/-- the five 32-bit fields after the two names: exactly 20 octets, MINIMUM last -/
def soaTail (r2 : List UInt8) : Option Nat :=
  if r2.length = 20 then
    match r2.drop 16 with
    | [a, b, c, d] => some (a.toNat * 16777216 + b.toNat * 65536 + c.toNat * 256 + d.toNat)
    | _ => none
  else none

theorem soaMinimum_eq (rd : List UInt8) :
    soaMinimum rd = match WName.parse rd with
      | some (_, r1) => (match WName.parse r1 with
        | some (_, r2) => soaTail r2
        | none => none)
      | none => none := by
  unfold soaMinimum soaTail
  simp only [nameAt_eq]
  rcases WName.parse rd with _ | ⟨n1, r1⟩
  · rfl
  · simp only [Option.map_some]
    rcases WName.parse r1 with _ | ⟨n2, r2⟩
    · rfl
    · rfl

theorem Does.readSoaMinimum (rd : List UInt8) :
    Does (Server.readSoaMinimum rd) (if (soaMinimum rd).isSome then some {} else none)
      (fun m => soaMinimum rd = some m) := by
  have key := soaMinimum_eq rd
  unfold Server.readSoaMinimum
  cases hp1 : WName.parse rd with
  | none =>
    rw [hp1] at key; simp only [] at key
    rw [key]; simpa using Does.fail _
  | some p1 =>
    obtain ⟨n1, r1⟩ := p1
    rw [hp1] at key; simp only [] at key ⊢
    cases hp2 : WName.parse r1 with
    | none =>
      rw [hp2] at key; simp only [] at key
      rw [key]; simpa using Does.fail _
    | some p2 =>
      obtain ⟨n2, r2⟩ := p2
      rw [hp2] at key; simp only [] at key ⊢
      rw [key]
      unfold soaTail
      by_cases h16 : 16 > r2.length
      · have : ¬ r2.length = 20 := by omega
        simp only [h16, if_true, this, if_false]
        simpa using Does.fail _
      · simp only [h16, if_false]
        by_cases h4 : (List.drop 16 r2).length = 4
        · have h20 : r2.length = 20 := by rw [List.length_drop] at h4; omega
          simp only [h4, h20, if_true]
          match hd : List.drop 16 r2, h4 with
          | [a, b, c, d], _ =>
            simp only [Option.isSome_some, if_true]
            refine Does.weaken (Does.pure _) (fun x hx => ?_)
            subst hx
            simp [be32]
        · have h20 : ¬ r2.length = 20 := by rw [List.length_drop] at h4; omega
          simp only [h4, h20, if_false]
          simpa using Does.fail _

/-- the negative answer's authority section as an optional delta -/
def negativeS (sz : SZone) : OD :=
  match negativeSoa sz with
  | some soa => okAdd .authority [soa]
  | none => none

theorem Does.negativeSoa {z : Zone.Zone} {sz : SZone} (hR : Rel z sz) (ha : Folded sz.apex) :
    Does (addNegativeCachingSoa z) (negativeS sz) (fun _ => True) := by
  unfold addNegativeCachingSoa negativeS Spec.Resolve.negativeSoa
  rw [soa_eq_spec hR]
  cases specSoa sz with
  | none => simpa using Does.fail _
  | some s =>
    simp only []
    cases hrd : s.rdatas with
    | nil => simpa using Does.fail _
    | cons rd rest =>
      simp only []
      rw [T_SOA, hR.cls, hR.apex]
      have h2 : ∀ m, soaMinimum rd = some m →
          Does (PM.addRr1 .authority .none (unfold sz.apex) SOA sz.cls (Nat.min (ttlFrom m) s.ttl) rd)
            (match soaMinimum rd with
              | some m => okAdd .authority [⟨sz.apex, SOA, sz.cls, min (if 2147483648 ≤ m then 0 else m) s.ttl, rd⟩]
              | none => none) (fun _ => True) := by
        intro m hm
        rw [hm]
        have := Does.addRr1 .authority .none (unfold sz.apex) SOA sz.cls (Nat.min (ttlFrom m) s.ttl) rd
        rw [fold_unfold ha] at this
        have e : Nat.min (ttlFrom m) s.ttl = min (if 2147483648 ≤ m then 0 else m) s.ttl := by
          unfold ttlFrom
          by_cases h : m > 2147483647
          · have : 2147483648 ≤ m := h
            simp [h, this]
          · have : ¬ 2147483648 ≤ m := by omega
            simp [h, this]
        rw [e] at this
        exact this
      refine Does.congr (Does.bind (Does.readSoaMinimum rd) h2) ?_
      cases soaMinimum rd <;> simp

/-! ### the end of the last query cycle, and the CNAME chain -/

/-- what the specification prescribes after the CNAME records, as an optional delta -/
def endS (sz : SZone) (qtype : Nat) : End → OD
  | .data owner s => OD.seq (okAdd .answer (Spec.Resolve.rrs owner qtype sz.cls s)) (additionalS sz qtype s)
  | .referral c ns => referralS sz c ns
  | .noData => negativeS sz
  | .nxDomain => OD.seq (some { rcode := some NXDOMAIN }) (negativeS sz)
  | .outOfZone => some {}
  | .fail => none

def chainS (sz : SZone) (qtype : Nat) (links : Nat) (visited : List NameL.Name) (owner : NameL.Name) (cn : Rrset) : OD :=
  match chase sz qtype links visited owner cn with
  | (_, .fail) => none
  | (ls, e) => OD.seq (okAdd .answer ls) (endS sz qtype e)

theorem chainS_zero (sz : SZone) (qtype : Nat) (visited : List NameL.Name) (owner : NameL.Name) (cn : Rrset) :
    chainS sz qtype 0 visited owner cn = none := by
  simp [chainS, chase]

theorem chainS_succ (sz : SZone) (qtype : Nat) (links : Nat) (visited : List NameL.Name) (owner : NameL.Name)
    (cn : Rrset) :
    chainS sz qtype (links + 1) visited owner cn =
      match cn.rdatas with
      | [] => none
      | rd :: _ =>
        match exactName rd with
        | none => none
        | some target =>
          if visited.contains target then none
          else OD.seq (okAdd .answer [⟨owner, CNAME, sz.cls, cn.ttl, rd⟩])
            (match specLookup sz target qtype ⟨false, false⟩ with
             | .cname next _ => chainS sz qtype links (target :: visited) target next
             | r => endS sz qtype ((cycleEnd target r).getD .fail)) := by
  unfold chainS
  rw [chase]
  cases cn.rdatas with
  | nil => rfl
  | cons rd rest =>
    simp only []
    cases exactName rd with
    | none => rfl
    | some target =>
      simp only []
      by_cases hv : visited.contains target = true
      · rw [if_pos hv, if_pos hv]
      · rw [if_neg hv, if_neg hv]
        have hcons : ∀ ls, okAdd .answer ((⟨owner, CNAME, sz.cls, cn.ttl, rd⟩ : RR) :: ls) =
            OD.seq (okAdd .answer [⟨owner, CNAME, sz.cls, cn.ttl, rd⟩]) (okAdd .answer ls) := by
          intro ls
          rw [← okAdd_append]; rfl
        cases hl : specLookup sz target qtype ⟨false, false⟩ with
        | cname next sos =>
          simp only []
          rcases hc : chase sz qtype links (target :: visited) target next with ⟨ls, e⟩
          cases e <;> simp only [] <;> (try rw [hcons ls]) <;> simp [OD.seq_assoc]
        | found s sos => simp [cycleEnd, endS]
        | referral c ns => simp [cycleEnd, endS]
        | noRecords sos => simp [cycleEnd, endS]
        | nxDomain => simp [cycleEnd, endS]
        | wrongZone => simp [cycleEnd, endS]

theorem specLookup_referral_suffix {sz : SZone} {n : NameL.Name} {t : Nat} {o : Opts} {c : NameL.Name} {ns : Rrset}
    (h : specLookup sz n t o = .referral c ns) : c <:+ n := by
  unfold specLookup at h
  have hs := specLookupBase_sound sz n o.searchBelowCuts
  cases hb : specLookupBase sz n o.searchBelowCuts with
  | found rrsets sos =>
    rw [hb] at h
    simp only [] at h
    split at h
    · cases h
    · split at h <;> cases h
  | referral c' s =>
    rw [hb] at h hs
    simp only [] at h
    cases h
    cases hs with
    | referral _ _ hc _ => exact hc.2.1
  | nxDomain => rw [hb] at h; cases h
  | wrongZone => rw [hb] at h; cases h

theorem specLookupAll_referral_suffix {sz : SZone} {n : NameL.Name} {o : Opts} {c : NameL.Name} {ns : Rrset}
    (h : specLookupAll sz n o = .referral c ns) : c <:+ n := by
  unfold specLookupAll at h
  have hs := specLookupBase_sound sz n o.searchBelowCuts
  cases hb : specLookupBase sz n o.searchBelowCuts with
  | found rrsets sos => rw [hb] at h; cases h
  | referral c' s =>
    rw [hb] at h hs
    simp only [] at h
    cases h
    cases hs with
    | referral _ _ hc _ => exact hc.2.1
  | nxDomain => rw [hb] at h; cases h
  | wrongZone => rw [hb] at h; cases h

theorem rrs_mk (o : NameL.Name) (t c : Nat) (s : Rrset) :
    Spec.Resolve.rrs o t c ⟨t, s.ttl, s.rdatas⟩ = Spec.Resolve.rrs o t c s := by
  simp [Spec.Resolve.rrs]

/-- the model's loop test is membership in the specification's visited list -/
theorem loop_test (cname qname : WName) (os : List WName) :
    ((os.map fold).reverse ++ [fold qname]).contains (fold cname) =
      (nameEq cname qname || os.any (nameEq cname)) := by
  rw [Bool.eq_iff_iff]
  simp only [List.contains_iff_mem, List.mem_append, List.mem_reverse, List.mem_map, List.mem_singleton,
    Bool.or_eq_true, List.any_eq_true, nameEq, beq_iff_eq]
  constructor
  · rintro (⟨o, ho, he⟩ | h)
    · exact Or.inr ⟨o, ho, he.symm⟩
    · exact Or.inl h
  · rintro (h | ⟨o, ho, he⟩)
    · exact Or.inr h
    · exact Or.inl ⟨o, ho, he.symm⟩

/-- the end of a query cycle for the name `cname`, in the model -/
theorem Does.cycleEnd {z : Zone.Zone} {sz : SZone} (hR : Rel z sz) (ha : Folded sz.apex)
    (cname : WName) (qtype : Nat) (r : LookupResult) (hr : specLookup sz (fold cname) qtype ⟨false, false⟩ = r)
    (hnc : ∀ c sos, r ≠ .cname c sos) (hint : Hint) :
    Does (match r with
      | .found found _ => do
        let hv ← PM.addRrs false .answer hint cname qtype z.cls found.ttl found.rdatas
        doAdditionalSectionProcessing z qtype found hv
      | .cname _ _ => PM.fail .servFail
      | .referral child ns => doReferral z child ns
      | .noRecords _ => addNegativeCachingSoa z
      | .nxDomain => do
        PM.setRcode (RC "NXDOMAIN")
        addNegativeCachingSoa z
      | .wrongZone => Pure.pure ())
      (endS sz qtype ((Spec.Resolve.cycleEnd (fold cname) r).getD .fail)) (fun _ => True) := by
  cases r with
  | found s sos =>
    simp only [Spec.Resolve.cycleEnd, Option.getD_some, endS]
    rw [hR.cls]
    have h1 := Does.addRrs false .answer hint cname qtype sz.cls s.ttl s.rdatas (by simp)
    rw [rrs_mk] at h1
    exact Does.bind h1 (fun hv _ => Does.additionalProcessing hR qtype s hv)
  | cname c sos => exact absurd rfl (hnc c sos)
  | referral c ns =>
    simp only [Spec.Resolve.cycleEnd, Option.getD_some, endS]
    exact Does.referral hR c ((folded_fold cname).suffix (specLookup_referral_suffix hr)) ns
  | noRecords sos =>
    simp only [Spec.Resolve.cycleEnd, Option.getD_some, endS]
    exact Does.negativeSoa hR ha
  | nxDomain =>
    simp only [Spec.Resolve.cycleEnd, Option.getD_some, endS]
    rw [RC_NXDOMAIN]
    exact Does.bind (Does.setRcode NXDOMAIN) (fun _ _ => Does.negativeSoa hR ha)
  | wrongZone =>
    simp only [Spec.Resolve.cycleEnd, Option.getD_some, endS]
    exact Does.weaken (Does.pure ()) (fun _ _ => True.intro)

theorem MAX_CHAIN : Gen.MAX_CNAME_CHAIN_LEN = 8 := rfl

theorem Does.followCname {z : Zone.Zone} {sz : SZone} (hR : Rel z sz) (ha : Folded sz.apex)
    (qname : WName) (qtype : Nat) :
    ∀ (fuel : Nat) (cn : Rrset) (os : List WName), os.length + fuel = 9 → 2 ≤ fuel →
      Does (Server.followCname z qname qtype fuel cn os)
        (chainS sz qtype (fuel - 1) ((os.map fold).reverse ++ [fold qname]) (fold (os.getLast?.getD qname)) cn)
        (fun _ => True) := by
  intro fuel
  induction fuel with
  | zero => intro cn os _ h2; omega
  | succ f ih =>
    intro cn os hlen h2
    obtain ⟨f', rfl⟩ : ∃ f', f = f' + 1 := ⟨f - 1, by omega⟩
    rw [Server.followCname]
    have e1 : f' + 1 + 1 - 1 = f' + 1 := by omega
    rw [e1, chainS_succ]
    cases cn.rdatas with
    | nil => exact Does.fail _
    | cons rd rest =>
      simp only []
      rw [exactName_eq]
      cases hp : WName.parse rd with
      | none => exact Does.fail _
      | some p =>
        obtain ⟨cname, r⟩ := p
        cases r with
        | cons x xs => exact Does.fail _
        | nil =>
          simp only []
          rw [loop_test]
          by_cases hloop : (nameEq cname qname || os.any (nameEq cname)) = true
          · rw [if_pos hloop, if_pos hloop]; exact Does.fail _
          · rw [if_neg hloop, if_neg hloop]
            have hw : cname.wire = rd := parse_wire rd cname hp
            -- the CNAME record, then the next query cycle
            have hlink : ∀ hint,
                Does (PM.addRr1 .answer hint (os.getLast?.getD qname) (T "CNAME") z.cls cn.ttl cname.wire)
                  (okAdd .answer [⟨fold (os.getLast?.getD qname), CNAME, sz.cls, cn.ttl, rd⟩]) (fun _ => True) := by
              intro hint
              rw [T_CNAME, hR.cls, hw]
              exact Does.addRr1 .answer hint _ CNAME sz.cls cn.ttl rd
            have hstep : ∀ hint owner, fold owner = fold (os.getLast?.getD qname) →
                Does (do
                  PM.addRr1 .answer hint owner (T "CNAME") z.cls cn.ttl cname.wire
                  match Zone.lookup z (fold cname) qtype ⟨false, false⟩ with
                    | .ok (.found found _) => do
                      let hv ← PM.addRrs false .answer .mostRecentNameInRdata cname qtype z.cls found.ttl found.rdatas
                      doAdditionalSectionProcessing z qtype found hv
                    | .ok (.cname next _) =>
                      if os.length < Gen.MAX_CNAME_CHAIN_LEN - 1 then
                        Server.followCname z qname qtype (f' + 1) next (os ++ [cname])
                      else PM.fail .servFail
                    | .ok (.referral child ns) => doReferral z child ns
                    | .ok (.noRecords _) => addNegativeCachingSoa z
                    | .ok .nxDomain => do
                      PM.setRcode (RC "NXDOMAIN")
                      addNegativeCachingSoa z
                    | .ok .wrongZone => Pure.pure ()
                    | .err _ => Pure.pure ()
                    | .panic => PM.panic)
                  (OD.seq (okAdd .answer [⟨fold (os.getLast?.getD qname), CNAME, sz.cls, cn.ttl, rd⟩])
                    (match specLookup sz (fold cname) qtype ⟨false, false⟩ with
                     | .cname next _ => chainS sz qtype f' (fold cname :: ((os.map fold).reverse ++ [fold qname])) (fold cname) next
                     | r => endS sz qtype ((Spec.Resolve.cycleEnd (fold cname) r).getD .fail))) (fun _ => True) := by
              intro hint owner ho
              have hl0 : Does (PM.addRr1 .answer hint owner (T "CNAME") z.cls cn.ttl cname.wire)
                  (okAdd .answer [⟨fold (os.getLast?.getD qname), CNAME, sz.cls, cn.ttl, rd⟩]) (fun _ => True) := by
                rw [T_CNAME, hR.cls, hw, ← ho]
                exact Does.addRr1 .answer hint owner CNAME sz.cls cn.ttl rd
              refine Does.bind hl0 (fun _ _ => ?_)
              rw [lookup_eq_spec hR (fold cname) qtype ⟨false, false⟩ (by simp [constrained])]
              cases hl : specLookup sz (fold cname) qtype ⟨false, false⟩ with
              | cname next sos =>
                simp only []
                rw [MAX_CHAIN]
                by_cases hk : os.length < 8 - 1
                · rw [if_pos hk]
                  have := ih next (os ++ [cname]) (by simp; omega) (by omega)
                  simpa using this
                · rw [if_neg hk]
                  have : f' = 0 := by omega
                  subst this
                  rw [chainS_zero]
                  exact Does.fail _
              | found s sos =>
                exact Does.cycleEnd hR ha cname qtype (.found s sos) hl (by intro c s h; cases h) _
              | referral c ns =>
                exact Does.cycleEnd hR ha cname qtype (.referral c ns) hl (by intro c s h; cases h) .none
              | noRecords sos =>
                exact Does.cycleEnd hR ha cname qtype (.noRecords sos) hl (by intro c s h; cases h) .none
              | nxDomain =>
                exact Does.cycleEnd hR ha cname qtype .nxDomain hl (by intro c s h; cases h) .none
              | wrongZone =>
                exact Does.cycleEnd hR ha cname qtype .wrongZone hl (by intro c s h; cases h) .none
            cases hgl : os.getLast? with
            | none =>
              rw [hgl] at hstep
              exact hstep _ _ rfl
            | some o =>
              rw [hgl] at hstep
              exact hstep _ _ rfl

/-! ### `answer` and `answer_any` -/

theorem specLookup_unchecked (sz : SZone) (n : NameL.Name) (t : Nat) (u sbc : Bool) :
    specLookup sz n t ⟨u, sbc⟩ = specLookup sz n t ⟨false, sbc⟩ := rfl

theorem specLookupAll_unchecked (sz : SZone) (n : NameL.Name) (u sbc : Bool) :
    specLookupAll sz n ⟨u, sbc⟩ = specLookupAll sz n ⟨false, sbc⟩ := rfl

theorem specLookupBase_ne_wrongZone {sz : SZone} {n : NameL.Name} (hq : sz.apex <:+ n) (sbc : Bool) :
    specLookupBase sz n sbc ≠ .wrongZone := by
  intro h
  have hs := specLookupBase_sound sz n sbc
  rw [h] at hs
  cases hs with
  | wrongZone hn => exact hn hq

theorem specLookup_ne_wrongZone {sz : SZone} {n : NameL.Name} (hq : sz.apex <:+ n) (t : Nat) (o : Opts) :
    specLookup sz n t o ≠ .wrongZone := by
  unfold specLookup
  have := specLookupBase_ne_wrongZone hq o.searchBelowCuts
  cases hb : specLookupBase sz n o.searchBelowCuts with
  | found rrsets sos =>
    simp only []
    split
    · simp
    · split <;> simp
  | referral c s => simp
  | nxDomain => simp
  | wrongZone => exact absurd hb this

theorem specLookupAll_ne_wrongZone {sz : SZone} {n : NameL.Name} (hq : sz.apex <:+ n) (o : Opts) :
    specLookupAll sz n o ≠ .wrongZone := by
  unfold specLookupAll
  have := specLookupBase_ne_wrongZone hq o.searchBelowCuts
  cases hb : specLookupBase sz n o.searchBelowCuts with
  | found rrsets sos => simp
  | referral c s => simp
  | nxDomain => simp
  | wrongZone => exact absurd hb this

/-- `answer` (a specific QTYPE) of the specification, as an optional delta -/
def answerS (sz : SZone) (qn : NameL.Name) (qt : Nat) : OD :=
  match specLookup sz qn qt ⟨false, false⟩ with
  | .found s _ => OD.seq (some { aa := some true }) (endS sz qt (.data qn s))
  | .cname cn _ => OD.seq (some { aa := some true }) (chainS sz qt 8 [qn] qn cn)
  | .referral c ns => endS sz qt (.referral c ns)
  | .noRecords _ => OD.seq (some { aa := some true }) (negativeS sz)
  | .nxDomain => OD.seq (some { rcode := some NXDOMAIN }) (OD.seq (some { aa := some true }) (negativeS sz))
  | .wrongZone => none

theorem Does.answer {z : Zone.Zone} {sz : SZone} (hR : Rel z sz) (ha : Folded sz.apex)
    (qname : WName) (qtype : Nat) (hq : sz.apex <:+ fold qname) :
    Does (Server.answer z qname qtype) (answerS sz (fold qname) qtype) (fun _ => True) := by
  unfold Server.answer answerS
  rw [lookup_eq_spec hR (fold qname) qtype ⟨true, false⟩
    (by simp [constrained, List.isSuffixOf_iff_suffix.mpr hq]), specLookup_unchecked]
  cases hl : specLookup sz (fold qname) qtype ⟨false, false⟩ with
  | found s sos =>
    simp only [endS]
    refine Does.bind (Does.setAa true) (fun _ _ => ?_)
    rw [hR.cls]
    have h1 := Does.addRrs false .answer .qname qname qtype sz.cls s.ttl s.rdatas (by simp)
    rw [rrs_mk] at h1
    exact Does.bind h1 (fun hv _ => Does.additionalProcessing hR qtype s hv)
  | cname cn sos =>
    simp only []
    unfold Server.doCname
    refine Does.bind (Does.setAa true) (fun _ _ => ?_)
    have := Does.followCname hR ha qname qtype 9 cn [] (by simp) (by omega)
    simpa [MAX_CHAIN] using this
  | referral c ns =>
    simp only [endS]
    exact Does.referral hR c ((folded_fold qname).suffix (specLookup_referral_suffix hl)) ns
  | noRecords sos =>
    simp only []
    exact Does.bind (Does.setAa true) (fun _ _ => Does.negativeSoa hR ha)
  | nxDomain =>
    simp only []
    rw [RC_NXDOMAIN]
    exact Does.bind (Does.setRcode NXDOMAIN) (fun _ _ => Does.bind (Does.setAa true) (fun _ _ => Does.negativeSoa hR ha))
  | wrongZone => exact absurd hl (specLookup_ne_wrongZone hq _ _)

/-- QTYPE `*` of the specification, as an optional delta -/
def anyS (sz : SZone) (qn : NameL.Name) : OD :=
  match specLookupAll sz qn ⟨false, false⟩ with
  | .found rrsets _ =>
    OD.seq (some { aa := some true })
      (if rrsets.isEmpty then negativeS sz
       else okAdd .answer (rrsets.flatMap (fun s => Spec.Resolve.rrs qn s.rtype sz.cls s)))
  | .referral c ns => referralS sz c ns
  | .nxDomain => OD.seq (some { rcode := some NXDOMAIN }) (OD.seq (some { aa := some true }) (negativeS sz))
  | .wrongZone => none

theorem Does.answerAnyLoop {z : Zone.Zone} {sz : SZone} (hR : Rel z sz) (qname : WName) (rrsets : List Rrset) (n : Nat) :
    Does (Server.answerAnyLoop z qname rrsets n)
      (okAdd .answer (rrsets.flatMap (fun s => Spec.Resolve.rrs (fold qname) s.rtype sz.cls s)))
      (fun m => m = n + rrsets.length) := by
  induction rrsets generalizing n with
  | nil =>
    simp only [Server.answerAnyLoop, List.flatMap_nil, okAdd_nil, List.length_nil, Nat.add_zero]
    exact Does.pure n
  | cons r rest ih =>
    unfold Server.answerAnyLoop
    rw [hR.cls]
    have h1 := Does.addRrs false .answer .qname qname r.rtype sz.cls r.ttl r.rdatas (by simp)
    have e : Spec.Resolve.rrs (fold qname) r.rtype sz.cls ⟨r.rtype, r.ttl, r.rdatas⟩
        = Spec.Resolve.rrs (fold qname) r.rtype sz.cls r := by simp [Spec.Resolve.rrs]
    rw [e] at h1
    refine Does.congr (Does.bind h1 (fun _ _ => Does.weaken (ih (n + 1)) (fun m hm => ?_))) ?_
    · simp only [List.length_cons]; omega
    · simp [List.flatMap_cons, okAdd_append]

theorem Does.answerAny {z : Zone.Zone} {sz : SZone} (hR : Rel z sz) (ha : Folded sz.apex)
    (qname : WName) (hq : sz.apex <:+ fold qname) :
    Does (Server.answerAny z qname) (anyS sz (fold qname)) (fun _ => True) := by
  unfold Server.answerAny anyS
  rw [lookupAll_eq_spec hR (fold qname) ⟨true, false⟩
    (by simp [constrained, List.isSuffixOf_iff_suffix.mpr hq]), specLookupAll_unchecked]
  cases hl : specLookupAll sz (fold qname) ⟨false, false⟩ with
  | found rrsets sos =>
    simp only []
    refine Does.bind (Does.setAa true) (fun _ _ => ?_)
    have h2 : ∀ n : Nat, n = 0 + rrsets.length →
        Does (if n = 0 then addNegativeCachingSoa z else (Pure.pure () : PM Unit))
          (if rrsets.isEmpty then negativeS sz else some {}) (fun _ => True) := by
      intro n hn
      cases rrsets with
      | nil =>
        simp only [List.length_nil] at hn
        subst hn
        simpa using Does.negativeSoa hR ha
      | cons r rest =>
        have : n ≠ 0 := by simp at hn; omega
        simp only [this, if_false, List.isEmpty_cons]
        exact Does.weaken (Does.pure ()) (fun _ _ => True.intro)
    refine Does.congr (Does.bind (Does.answerAnyLoop hR qname rrsets 0) h2) ?_
    cases rrsets with
    | nil => simp [okAdd_nil]
    | cons r rest => simp
  | referral c ns =>
    simp only []
    exact Does.referral hR c ((folded_fold qname).suffix (specLookupAll_referral_suffix hl)) ns
  | nxDomain =>
    simp only []
    rw [RC_NXDOMAIN]
    exact Does.bind (Does.setRcode NXDOMAIN) (fun _ _ => Does.bind (Does.setAa true) (fun _ _ => Does.negativeSoa hR ha))
  | wrongZone => exact absurd hl (specLookupAll_ne_wrongZone hq _)

/-! ### the specification in delta form: `specResolve` is the view of `resolveS` -/

def servfailView : View := { rcode := SERVFAIL, aa := false, tc := false }

/-- the view an optional delta amounts to, starting from the empty response -/
def OD.view : OD → View
  | some d => d.apply {}
  | none => servfailView

@[simp] theorem allRenderable_nil : allRenderable [] = true := rfl

theorem finish_data (sz : SZone) (qt : Nat) (ls : List RR) (o : NameL.Name) (s : Rrset) :
    View.ofResolution (Spec.Resolve.finish sz qt ls (.data o s)) =
      OD.view (OD.seq (some { aa := some true }) (OD.seq (okAdd .answer ls) (endS sz qt (.data o s)))) := by
  simp only [Spec.Resolve.finish, endS, additionalS, checked, okAdd, allRenderable_append]
  cases additionalFor sz qt s with
  | none => cases allRenderable ls <;> cases allRenderable (Spec.Resolve.rrs o qt sz.cls s) <;> rfl
  | some ar =>
    dsimp only
    cases allRenderable ls <;> cases allRenderable (Spec.Resolve.rrs o qt sz.cls s) <;> cases allRenderable ar <;>
      simp [OD.view, OD.seq, Delta.seq, Delta.apply, Delta.add, View.ofResolution, servfailView, servfail, NOERROR]

theorem finish_negative (sz : SZone) (rcode : Nat) (ls : List RR) :
    View.ofResolution (negative sz rcode ls) =
      OD.view (OD.seq (some { aa := some true, rcode := some rcode }) (OD.seq (okAdd .answer ls) (negativeS sz))) := by
  simp only [negative, negativeS, checked, okAdd]
  cases Spec.Resolve.negativeSoa sz with
  | none => simp [OD.view, View.ofResolution, servfailView, servfail]
  | some soa =>
    dsimp only
    cases allRenderable ls <;> cases allRenderable [soa] <;>
      simp [OD.view, OD.seq, Delta.seq, Delta.apply, Delta.add, View.ofResolution, servfailView, servfail]

theorem finish_outOfZone (sz : SZone) (qt : Nat) (ls : List RR) :
    View.ofResolution (Spec.Resolve.finish sz qt ls .outOfZone) =
      OD.view (OD.seq (some { aa := some true }) (OD.seq (okAdd .answer ls) (endS sz qt .outOfZone))) := by
  simp only [Spec.Resolve.finish, endS, checked, okAdd]
  cases allRenderable ls <;>
    simp [OD.view, OD.seq, Delta.seq, Delta.apply, Delta.add, View.ofResolution, servfailView, servfail, NOERROR]

theorem finish_referral (sz : SZone) (qt : Nat) (ls : List RR) (c : NameL.Name) (ns : Rrset) :
    View.ofResolution (Spec.Resolve.finish sz qt ls (.referral c ns)) =
      OD.view (OD.seq (some { aa := some (!ls.isEmpty) }) (OD.seq (okAdd .answer ls) (endS sz qt (.referral c ns)))) := by
  simp only [Spec.Resolve.finish, endS, referralS, checked, okAdd, allRenderable_append]
  cases nsTargets c ns with
  | none => cases allRenderable ls <;> cases allRenderable (Spec.Resolve.rrs c NS sz.cls ns) <;> rfl
  | some p =>
    obtain ⟨inb, others⟩ := p
    dsimp only
    cases allRenderable ls <;> cases allRenderable (Spec.Resolve.rrs c NS sz.cls ns) <;>
      cases allRenderable (List.flatMap (fun n => addrRRs sz n true) inb) <;>
      cases allRenderable (List.flatMap (fun n => addrRRs sz n true) others) <;>
      simp [OD.view, OD.seq, Delta.seq, Delta.apply, Delta.add, View.ofResolution, servfailView, servfail, NOERROR]

theorem okAdd_plain {sec : RrSection} {rs : List RR} {d : Delta} (h : okAdd sec rs = some d) :
    d.rcode = none ∧ d.aa = none := by
  unfold okAdd at h
  split at h
  · cases h; cases sec <;> simp [Delta.add]
  · cases h

theorem negativeS_plain {sz : SZone} {d : Delta} (h : negativeS sz = some d) : d.rcode = none ∧ d.aa = none := by
  unfold negativeS at h
  split at h
  · exact okAdd_plain h
  · cases h

/-- a chain that does not fail has collected at least one CNAME record -/
theorem chase_nonempty (sz : SZone) (qt links : Nat) (visited : List NameL.Name) (owner : NameL.Name) (cn : Rrset)
    (ls : List RR) (e : End) (h : chase sz qt links visited owner cn = (ls, e)) (he : e ≠ .fail) : ls ≠ [] := by
  cases links with
  | zero => simp [chase] at h; exact absurd h.2.symm he
  | succ k =>
    rw [chase] at h
    split at h
    · cases h; exact absurd rfl he
    · split at h
      · cases h; exact absurd rfl he
      · split at h
        · cases h; exact absurd rfl he
        · split at h
          · split at h
            · cases h; exact absurd rfl he
            · cases h; simp
          · cases h; simp

/-- the answer phase of the specification, as an optional delta (mirrors `specResolve`) -/
def resolveS (sz : SZone) (qn : NameL.Name) (qt : Nat) : OD :=
  if qt = ANY then anyS sz qn else answerS sz qn qt

theorem answerS_view (sz : SZone) (qn : NameL.Name) (qt : Nat) (hne : qt ≠ ANY) (hq : sz.apex <:+ qn) :
    OD.view (answerS sz qn qt) = View.ofResolution (specResolve sz qn qt) := by
  unfold answerS specResolve
  rw [if_neg hne]
  cases hl : specLookup sz qn qt ⟨false, false⟩ with
  | found s sos =>
    simp only [Spec.Resolve.cycleEnd, Option.getD_some]
    rw [finish_data]; simp [okAdd_nil]
  | cname cn sos =>
    simp only []
    unfold chainS
    rcases hc : chase sz qt 8 [qn] qn cn with ⟨ls, e⟩
    cases e with
    | fail => simp [Spec.Resolve.finish, OD.view, View.ofResolution, servfailView, servfail]
    | data o s => simp only []; rw [finish_data]
    | referral c ns =>
      simp only []
      rw [finish_referral]
      have : ls ≠ [] := chase_nonempty sz qt 8 [qn] qn cn ls _ hc (by simp)
      cases ls with
      | nil => exact absurd rfl this
      | cons x xs => simp
    | noData =>
      simp only [Spec.Resolve.finish]
      rw [finish_negative]
      simp only [endS]
      cases h1 : okAdd .answer ls with
      | none => simp [OD.view, OD.seq]
      | some d1 =>
        cases h2 : negativeS sz with
        | none => simp [OD.view, OD.seq]
        | some d2 => simp [OD.view, OD.seq, Delta.seq, Delta.apply, NOERROR, okAdd_plain h1, negativeS_plain h2]
    | nxDomain =>
      simp only [Spec.Resolve.finish]
      rw [finish_negative]
      simp only [endS]
      cases h1 : okAdd .answer ls with
      | none => simp [OD.view, OD.seq]
      | some d1 =>
        cases h2 : negativeS sz with
        | none => simp [OD.view, OD.seq]
        | some d2 => simp [OD.view, OD.seq, Delta.seq, Delta.apply, okAdd_plain h1, negativeS_plain h2]
    | outOfZone => simp only []; rw [finish_outOfZone]
  | referral c ns =>
    simp only [Spec.Resolve.cycleEnd, Option.getD_some]
    rw [finish_referral]
    simp only [okAdd_nil, OD.seq_id_left, List.isEmpty_nil, Bool.not_true]
    cases endS sz qt (.referral c ns) with
    | none => rfl
    | some d => cases d with | mk an ns ar aa rc => cases aa <;> simp [OD.view, OD.seq, Delta.seq, Delta.apply]
  | noRecords sos =>
    simp only [Spec.Resolve.cycleEnd, Option.getD_some, Spec.Resolve.finish]
    rw [finish_negative]
    cases h2 : negativeS sz with
    | none => simp [OD.view, OD.seq]
    | some d2 => simp [okAdd_nil, OD.view, OD.seq, Delta.seq, Delta.apply, NOERROR, negativeS_plain h2]
  | nxDomain =>
    simp only [Spec.Resolve.cycleEnd, Option.getD_some, Spec.Resolve.finish]
    rw [finish_negative]
    cases h2 : negativeS sz with
    | none => simp [OD.view, OD.seq]
    | some d2 => simp [okAdd_nil, OD.view, OD.seq, Delta.seq, Delta.apply, negativeS_plain h2]
  | wrongZone => exact absurd hl (specLookup_ne_wrongZone hq _ _)

theorem anyS_view (sz : SZone) (qn : NameL.Name) (hq : sz.apex <:+ qn) :
    OD.view (anyS sz qn) = View.ofResolution (resolveAny sz qn) := by
  unfold anyS resolveAny
  cases hl : specLookupAll sz qn ⟨false, false⟩ with
  | found rrsets sos =>
    simp only []
    by_cases he : rrsets.isEmpty = true
    · rw [if_pos he, if_pos he, finish_negative]
      cases h2 : negativeS sz with
      | none => simp [OD.view, OD.seq]
      | some d2 => simp [okAdd_nil, OD.view, OD.seq, Delta.seq, Delta.apply, NOERROR, negativeS_plain h2]
    · rw [if_neg he, if_neg he]
      simp only [checked, okAdd]
      cases allRenderable (List.flatMap (fun s => Spec.Resolve.rrs qn s.rtype sz.cls s) rrsets) <;>
        simp [OD.view, OD.seq, Delta.seq, Delta.apply, Delta.add, View.ofResolution, servfailView, servfail, NOERROR]
  | referral c ns =>
    simp only []
    rw [finish_referral]
    simp only [okAdd_nil, OD.seq_id_left, List.isEmpty_nil, Bool.not_true, endS]
    cases referralS sz c ns with
    | none => rfl
    | some d => cases d with | mk an ns ar aa rc => cases aa <;> simp [OD.view, OD.seq, Delta.seq, Delta.apply]
  | nxDomain =>
    simp only []
    rw [finish_negative]
    cases h2 : negativeS sz with
    | none => simp [OD.view, OD.seq]
    | some d2 => simp [okAdd_nil, OD.view, OD.seq, Delta.seq, Delta.apply, negativeS_plain h2]
  | wrongZone => exact absurd hl (specLookupAll_ne_wrongZone hq _)

/-- **the specification is the view of its delta form** -/
theorem resolveS_view (sz : SZone) (qn : NameL.Name) (qt : Nat) (hq : sz.apex <:+ qn) :
    OD.view (resolveS sz qn qt) = View.ofResolution (specResolve sz qn qt) := by
  unfold resolveS
  by_cases h : qt = ANY
  · rw [if_pos h, anyS_view sz qn hq]
    unfold specResolve
    rw [if_pos h]
  · rw [if_neg h, answerS_view sz qn qt h hq]

/-! ### `handle_non_axfr_query`: the epilogue -/

/-- no header operation failed -/
def NoBad (evs : List Ev) : Prop := Ev.bad ∉ evs

theorem GoodLog.noBad {evs : List Ev} (h : GoodLog evs) : NoBad evs := by
  intro hb
  exact h _ hb

theorem hdrOp_log (ev : Ev) (m : M Unit) (ps : PS) :
    ((PM.hdrOp ev m ps).2.log = ps.log ++ [ev] ∧ (PM.hdrOp ev m ps).1 = .ok ()) ∨
    (PM.hdrOp ev m ps).2.log = ps.log ++ [.bad] := by
  unfold PM.hdrOp
  rcases h : m ps.w with ⟨(u | e | _), w'⟩ <;> simp

/-- the events `handle_non_axfr_query` appends after the answering logic returned `r` -/
def tailEvs (tr : Transport) : Out PErr Unit → List Ev
  | .ok _ => []
  | .err .servFail => [.aa false, .rcode SERVFAIL, .clear]
  | .err .truncation => if tr = .tcp then [.clear, .aa false, .rcode SERVFAIL] else [.clear, .tc true]
  | .panic => []

/-- three header operations in a row -/
theorem hdr3_log (e1 e2 e3 : Ev) (m1 m2 m3 : M Unit) (ps : PS)
    (hnb : NoBad ((do PM.hdrOp e1 m1; PM.hdrOp e2 m2; PM.hdrOp e3 m3 : PM Unit) ps).2.log) :
    ((do PM.hdrOp e1 m1; PM.hdrOp e2 m2; PM.hdrOp e3 m3 : PM Unit) ps).2.log = ps.log ++ [e1, e2, e3] ∧
    ((do PM.hdrOp e1 m1; PM.hdrOp e2 m2; PM.hdrOp e3 m3 : PM Unit) ps).1 = .ok () := by
  simp only [bind_def, PM.hdrOp] at hnb ⊢
  rcases h1 : m1 ps.w with ⟨(u | e | _), w1⟩
  · rw [h1] at hnb; simp only [] at hnb ⊢
    rcases h2 : m2 w1 with ⟨(u | e | _), w2⟩
    · rw [h2] at hnb; simp only [] at hnb ⊢
      rcases h3 : m3 w2 with ⟨(u | e | _), w3⟩
      · simp
      · rw [h3] at hnb; simp [NoBad] at hnb
      · rw [h3] at hnb; simp [NoBad] at hnb
    · rw [h2] at hnb; simp [NoBad] at hnb
    · rw [h2] at hnb; simp [NoBad] at hnb
  · rw [h1] at hnb; simp [NoBad] at hnb
  · rw [h1] at hnb; simp [NoBad] at hnb

theorem hdr2_log (e1 e2 : Ev) (m1 m2 : M Unit) (ps : PS)
    (hnb : NoBad ((do PM.hdrOp e1 m1; PM.hdrOp e2 m2 : PM Unit) ps).2.log) :
    ((do PM.hdrOp e1 m1; PM.hdrOp e2 m2 : PM Unit) ps).2.log = ps.log ++ [e1, e2] ∧
    ((do PM.hdrOp e1 m1; PM.hdrOp e2 m2 : PM Unit) ps).1 = .ok () := by
  simp only [bind_def, PM.hdrOp] at hnb ⊢
  rcases h1 : m1 ps.w with ⟨(u | e | _), w1⟩
  · rw [h1] at hnb; simp only [] at hnb ⊢
    rcases h2 : m2 w1 with ⟨(u | e | _), w2⟩
    · simp
    · rw [h2] at hnb; simp [NoBad] at hnb
    · rw [h2] at hnb; simp [NoBad] at hnb
  · rw [h1] at hnb; simp [NoBad] at hnb
  · rw [h1] at hnb; simp [NoBad] at hnb

/-- the answering logic proper: `answer_any` for QTYPE `*`, `answer` otherwise -/
def inner (z : Zone.Zone) (qname : WName) (qtype : Nat) : PM Unit :=
  if qtype = QT "ANY" then answerAny z qname else Server.answer z qname qtype

/-- **the epilogue of `handle_non_axfr_query`**: after the answering logic returned `r`, exactly the
    events `tailEvs tr r` are appended (provided no header operation fails), and the result is `Ok`
    unless the answering logic panicked -/
theorem handle_log (z : Zone.Zone) (qname : WName) (qtype : Nat) (tr : Transport) (ps : PS)
    (hnb : NoBad (handleNonAxfrQueryL z qname qtype tr ps).2.log) :
    (handleNonAxfrQueryL z qname qtype tr ps).2.log
      = (inner z qname qtype ps).2.log ++ tailEvs tr (inner z qname qtype ps).1 ∧
    ((inner z qname qtype ps).1 ≠ .panic → (handleNonAxfrQueryL z qname qtype tr ps).1 = .ok ()) := by
  have hin : (if qtype = QT "ANY" then answerAny z qname ps else Server.answer z qname qtype ps)
      = inner z qname qtype ps := by
    unfold inner; split <;> rfl
  unfold handleNonAxfrQueryL at hnb ⊢
  simp only [hin] at hnb ⊢
  rcases hr : inner z qname qtype ps with ⟨(u | e | _), ps1⟩
  · simp [tailEvs]
  · cases e with
    | servFail =>
      rw [hr] at hnb
      simp only [PM.setAa, PM.setRcode, PM.clearRrs, RC_SERVFAIL] at hnb ⊢
      have := hdr3_log (.aa false) (.rcode SERVFAIL) .clear _ _ _ ps1 hnb
      simp only [tailEvs]
      exact ⟨this.1, fun _ => this.2⟩
    | truncation =>
      rw [hr] at hnb
      by_cases htr : tr = Transport.tcp
      · simp only [htr, if_true, PM.setAa, PM.setRcode, PM.clearRrs, RC_SERVFAIL] at hnb ⊢
        have := hdr3_log .clear (.aa false) (.rcode SERVFAIL) _ _ _ ps1 hnb
        simp only [tailEvs, if_true]
        exact ⟨this.1, fun _ => this.2⟩
      · simp only [htr, if_false, PM.setTc, PM.clearRrs] at hnb ⊢
        have := hdr2_log .clear (.tc true) _ _ ps1 hnb
        simp only [tailEvs, htr, if_false]
        exact ⟨this.1, fun _ => this.2⟩
  · simp [tailEvs]

theorem Does.inner {z : Zone.Zone} {sz : SZone} (hR : Rel z sz) (ha : Folded sz.apex)
    (qname : WName) (qtype : Nat) (hq : sz.apex <:+ fold qname) :
    Does (inner z qname qtype) (resolveS sz (fold qname) qtype) (fun _ => True) := by
  unfold ServerAnswer.inner resolveS
  rw [QT_ANY]
  by_cases h : qtype = ANY
  · rw [if_pos h, if_pos h]; exact Does.answerAny hR ha qname hq
  · rw [if_neg h, if_neg h]; exact Does.answer hR ha qname qtype hq

theorem foldl_tc {evs : List Ev} (hi : Inv evs) (v : View) : (evs.foldl View.step v).tc = v.tc := by
  induction evs generalizing v with
  | nil => rfl
  | cons e rest ih =>
    rw [List.foldl_cons, ih (fun x hx => hi x (List.mem_cons_of_mem _ hx))]
    have := hi e (List.mem_cons_self)
    cases e with
    | add a =>
      simp only [View.step]
      split
      · cases a.sec <;> rfl
      · rfl
    | aa b => rfl
    | rcode r => rfl
    | tc b => exact absurd rfl (this.1 b)
    | clear => rfl
    | bad => rfl

/-- **C05, model side**: started with an empty log, if every logged writer call is good (no
    capacity error, no panic, RDATA check faithful), `handle_non_axfr_query` returns `Ok` and the
    view of its log is the specification's resolution of `(qname, qtype)` -/
theorem handle_view {z : Zone.Zone} {sz : SZone} (hR : Rel z sz) (ha : Folded sz.apex)
    (qname : WName) (qtype : Nat) (hq : sz.apex <:+ fold qname) (tr : Transport) (ps : PS) (h0 : ps.log = [])
    (hg : GoodLog (handleNonAxfrQueryL z qname qtype tr ps).2.log) :
    (handleNonAxfrQueryL z qname qtype tr ps).1 = .ok () ∧
    view (handleNonAxfrQueryL z qname qtype tr ps).2.log
      = View.ofResolution (specResolve sz (fold qname) qtype) := by
  obtain ⟨hlog, hres⟩ := handle_log z qname qtype tr ps hg.noBad
  obtain ⟨evs, hl, hi, _, hc⟩ := Does.inner hR ha qname qtype hq ps
  rw [h0, List.nil_append] at hl
  rw [hlog, hl] at hg
  obtain ⟨hg1, hg2⟩ := GoodLog.append.mp hg
  have c := hc hg1
  rw [← resolveS_view sz (fold qname) qtype hq]
  cases hS : resolveS sz (fold qname) qtype with
  | some d =>
    rw [hS] at c
    obtain ⟨⟨a, hok⟩, hv⟩ := c
    refine ⟨hres (by rw [hok]; simp), ?_⟩
    rw [hlog, hl, hok]
    simp [tailEvs, view, hv, OD.view]
  | none =>
    rw [hS] at c
    simp only [] at c
    refine ⟨hres (by rw [c]; simp), ?_⟩
    rw [hlog, hl, c]
    simp only [tailEvs, view, List.foldl_append, List.foldl_cons, List.foldl_nil, View.step, OD.view, servfailView]
    have := foldl_tc hi ({} : View)
    simp [this]



/-! ### from "no capacity error" to `GoodLog` -/

/-- no logged writer call hit a capacity limit (`Truncation`, `CountOverflow`), was out of order
    or panicked, and no header operation failed: every record-adding call ended `Ok` or
    `InvalidRdata` -/
def NoCapErr (evs : List Ev) : Prop :=
  ∀ e ∈ evs, e ≠ .bad ∧ ∀ a, e = .add a → a.res = .ok () ∨ a.res = .err .InvalidRdata

theorem goodLog_of_inv (hW : WriterRdataFaithful) {evs : List Ev} (hi : Inv evs) (hn : NoCapErr evs) : GoodLog evs := by
  intro e he
  have h1 := hi e he
  have h2 := hn e he
  cases e with
  | add a =>
    have hf := (h1.2.2 a rfl).2 hW
    rcases h2.2 a rfl with h | h
    · exact Or.inl ⟨h, hf.1 h⟩
    · exact Or.inr ⟨h, hf.2 h⟩
  | aa b => trivial
  | rcode r => trivial
  | tc b => trivial
  | clear => trivial
  | bad => exact absurd rfl h2.1

theorem NoCapErr.append {a b : List Ev} : NoCapErr (a ++ b) ↔ NoCapErr a ∧ NoCapErr b := by
  unfold NoCapErr
  constructor
  · intro h
    exact ⟨fun e he => h e (List.mem_append_left _ he), fun e he => h e (List.mem_append_right _ he)⟩
  · rintro ⟨h1, h2⟩ e he
    rcases List.mem_append.mp he with h | h
    · exact h1 e h
    · exact h2 e h

theorem NoCapErr.noBad {evs : List Ev} (h : NoCapErr evs) : NoBad evs := fun hb => (h _ hb).1 rfl

theorem goodLog_tail (tr : Transport) (r : Out PErr Unit) : GoodLog (tailEvs tr r) := by
  intro e he
  cases r with
  | ok u => simp [tailEvs] at he
  | err x =>
    cases x with
    | servFail =>
      simp only [tailEvs, List.mem_cons, List.not_mem_nil, or_false] at he
      rcases he with h | h | h <;> subst h <;> trivial
    | truncation =>
      simp only [tailEvs] at he
      split at he
      · simp only [List.mem_cons, List.not_mem_nil, or_false] at he
        rcases he with h | h | h <;> subst h <;> trivial
      · simp only [List.mem_cons, List.not_mem_nil, or_false] at he
        rcases he with h | h <;> subst h <;> trivial
  | panic => simp [tailEvs] at he

/-- **C05, model side, in its final form**: started with an empty log, if no logged writer call
    reports a capacity error (or panics), `handle_non_axfr_query` returns `Ok` and the view of its
    log — RCODE, AA, TC, the three sections — is the specification's resolution -/
theorem handle_view_nocap (hW : WriterRdataFaithful) {z : Zone.Zone} {sz : SZone} (hR : Rel z sz) (ha : Folded sz.apex)
    (qname : WName) (qtype : Nat) (hq : sz.apex <:+ fold qname) (tr : Transport) (ps : PS) (h0 : ps.log = [])
    (hn : NoCapErr (handleNonAxfrQueryL z qname qtype tr ps).2.log) :
    (handleNonAxfrQueryL z qname qtype tr ps).1 = .ok () ∧
    view (handleNonAxfrQueryL z qname qtype tr ps).2.log
      = View.ofResolution (specResolve sz (fold qname) qtype) := by
  refine handle_view hR ha qname qtype hq tr ps h0 ?_
  obtain ⟨hlog, _⟩ := handle_log z qname qtype tr ps hn.noBad
  obtain ⟨evs, hl, hi, _, _⟩ := Does.inner hR ha qname qtype hq ps
  rw [h0, List.nil_append] at hl
  rw [hlog, hl] at hn ⊢
  exact GoodLog.append.mpr ⟨goodLog_of_inv hW hi (NoCapErr.append.mp hn).1, goodLog_tail _ _⟩



/-! ### C04: truncation, and which calls may be dropped -/

/-- the view after the epilogue, in terms of the view of the answering logic's own log -/
theorem view_tail (l : List Ev) (tr : Transport) (r : Out PErr Unit) :
    view (l ++ tailEvs tr r) =
      match r with
      | .ok _ => view l
      | .panic => view l
      | .err .servFail => { rcode := SERVFAIL, aa := false, tc := (view l).tc }
      | .err .truncation =>
        if tr = .tcp then { rcode := SERVFAIL, aa := false, tc := (view l).tc }
        else { rcode := (view l).rcode, aa := (view l).aa, tc := true } := by
  cases r with
  | ok u => simp [tailEvs]
  | panic => simp [tailEvs]
  | err e =>
    cases e with
    | servFail => simp [tailEvs, view, List.foldl_append, View.step]
    | truncation =>
      by_cases h : tr = Transport.tcp
      · simp [tailEvs, h, view, List.foldl_append, View.step]
      · simp [tailEvs, h, view, List.foldl_append, View.step]

/-- a lighter judgement than `Does`: `m` only appends events satisfying `P`, and yields only values
    satisfying `post` — for every writer behaviour, good or not -/
def Logs {α} (m : PM α) (P : Ev → Prop) (post : α → Prop) : Prop :=
  ∀ ps : PS, ∃ evs, (m ps).2.log = ps.log ++ evs ∧ (∀ e ∈ evs, P e) ∧ ∀ a, (m ps).1 = .ok a → post a

theorem Logs.pure {α} (a : α) (P : Ev → Prop) : Logs (Pure.pure a : PM α) P (fun x => x = a) := by
  intro ps
  exact ⟨[], by simp [pure_def], by simp, fun x hx => by simp [pure_def] at hx; exact hx.symm⟩

theorem Logs.fail {α} (e : PErr) (P : Ev → Prop) (post : α → Prop) : Logs (PM.fail e : PM α) P post := by
  intro ps
  exact ⟨[], by simp [PM.fail], by simp, fun x hx => by simp [PM.fail] at hx⟩

theorem Logs.panic {α} (P : Ev → Prop) (post : α → Prop) : Logs (PM.panic : PM α) P post := by
  intro ps
  exact ⟨[], by simp [PM.panic], by simp, fun x hx => by simp [PM.panic] at hx⟩

theorem Logs.weaken {α} {m : PM α} {P Q : Ev → Prop} {p q : α → Prop} (h : Logs m P p)
    (hPQ : ∀ e, P e → Q e) (hpq : ∀ a, p a → q a) : Logs m Q q := by
  intro ps
  obtain ⟨evs, h1, h2, h3⟩ := h ps
  exact ⟨evs, h1, fun e he => hPQ e (h2 e he), fun a ha => hpq a (h3 a ha)⟩

theorem Logs.bind {α β} {m : PM α} {f : α → PM β} {P : Ev → Prop} {p1 : α → Prop} {p2 : β → Prop}
    (h1 : Logs m P p1) (h2 : ∀ a, p1 a → Logs (f a) P p2) : Logs (m >>= f) P p2 := by
  intro ps
  obtain ⟨evs1, hl1, hP1, hp1⟩ := h1 ps
  rw [bind_def]
  rcases hm : m ps with ⟨(a | e | _), ps1⟩
  · rw [hm] at hl1 hp1
    obtain ⟨evs2, hl2, hP2, hp2⟩ := h2 a (hp1 a rfl) ps1
    refine ⟨evs1 ++ evs2, ?_, ?_, hp2⟩
    · simp only [] at hl1 ⊢; rw [hl2, hl1, List.append_assoc]
    · intro e he
      rcases List.mem_append.mp he with h | h
      · exact hP1 e h
      · exact hP2 e h
  · rw [hm] at hl1
    exact ⟨evs1, hl1, hP1, by intro x hx; simp at hx⟩
  · rw [hm] at hl1
    exact ⟨evs1, hl1, hP1, by intro x hx; simp at hx⟩

theorem Logs.addCall (ev : AddEv) (m : M HV) (P : Ev → Prop) (hP : ∀ r, P (.add { ev with res := r })) :
    Logs (PM.addCall ev m) P (fun _ => True) := by
  intro ps
  unfold PM.addCall
  rcases h : m ps.w with ⟨(hv | e | _), w'⟩
  · exact ⟨[.add { ev with res := .ok () }], by simp, by simpa using hP _, by simp⟩
  · refine ⟨[.add { ev with res := .err e }], ?_, by simpa using hP _, by simp⟩
    simp only []; split <;> rfl
  · exact ⟨[.add { ev with res := .panic }], by simp, by simpa using hP _, by simp⟩

/-- what is recorded of a call made by `add_additional_addresses` for `owner` -/
def AddrEv (owner : WName) (opt : Bool) (e : Ev) : Prop :=
  ∀ a, e = .add a → a.sec = .additional ∧ a.optional = opt ∧ a.owner = owner

theorem Logs.addRrs (opt : Bool) (sec : RrSection) (hint : Hint) (owner : WName) (ty cls ttl : Nat)
    (rds : List (List UInt8)) (P : Ev → Prop) (hP : ∀ r, P (.add ⟨sec, owner, ty, cls, ttl, rds, opt, r⟩)) :
    Logs (PM.addRrs opt sec hint owner ty cls ttl rds) P (fun _ => True) :=
  Logs.addCall _ _ P hP

theorem Logs.aaaaPart (z : Zone.Zone) (hint : Hint) (owner : WName) (opt : Bool) (aaaa : Option Rrset) :
    Logs (Server.addAaaa z hint owner opt aaaa) (AddrEv owner opt) (fun _ => True) := by
  unfold Server.addAaaa
  split
  · cases aaaa with
    | none => exact Logs.weaken (Logs.pure () _) (fun _ h => h) (fun _ _ => True.intro)
    | some r =>
      refine Logs.bind (Logs.addRrs opt .additional hint owner _ _ _ _ _ ?_)
        (fun _ _ => Logs.weaken (Logs.pure () _) (fun _ h => h) (fun _ _ => True.intro))
      intro r a ha; cases ha; exact ⟨rfl, rfl, rfl⟩
  · exact Logs.weaken (Logs.pure () _) (fun _ h => h) (fun _ _ => True.intro)

theorem Logs.addrs (z : Zone.Zone) (hint : Hint) (owner : WName) (sbc opt : Bool) :
    Logs (addAdditionalAddresses z hint owner sbc opt) (AddrEv owner opt) (fun _ => True) := by
  unfold addAdditionalAddresses
  have hpure : Logs (Pure.pure () : PM Unit) (AddrEv owner opt) (fun _ => True) :=
    Logs.weaken (Logs.pure () _) (fun _ h => h) (fun _ _ => True.intro)
  split
  · next a aaaa sos _ =>
    cases a with
    | none => exact Logs.aaaaPart z hint owner opt aaaa
    | some r =>
      refine Logs.bind (Logs.addRrs opt .additional hint owner _ _ _ _ _ ?_) (fun o _ => ?_)
      · intro r a ha; cases ha; exact ⟨rfl, rfl, rfl⟩
      · cases o with
        | none => exact hpure
        | some x => exact Logs.aaaaPart z _ owner opt aaaa
  · exact hpure
  · exact hpure
  · exact Logs.panic _ _

theorem Logs.readName (rd : List UInt8) (start : Nat) (P : Ev → Prop) :
    Logs (readNameFromRdata rd start) P (fun _ => True) := by
  unfold readNameFromRdata
  split
  · exact Logs.fail _ _ _
  · split
    · exact Logs.weaken (Logs.pure _ _) (fun _ h => h) (fun _ _ => True.intro)
    · exact Logs.fail _ _ _

theorem Logs.glueLoop (z : Zone.Zone) (hv : HV) (opt : Bool) (l : List (Nat × WName)) :
    Logs (Server.glueLoop z hv opt l)
      (fun e => ∀ a, e = .add a → a.sec = .additional ∧ a.optional = opt ∧ a.owner ∈ l.map (·.2)) (fun _ => True) := by
  induction l with
  | nil =>
    unfold Server.glueLoop
    exact Logs.weaken (Logs.pure () _) (fun _ h => h) (fun _ _ => True.intro)
  | cons p rest ih =>
    unfold Server.glueLoop
    refine Logs.bind (Logs.weaken (Logs.addrs z _ p.2 true opt) ?_ (fun _ h => h))
      (fun _ _ => Logs.weaken ih ?_ (fun _ h => h))
    · intro e he a ha
      obtain ⟨h1, h2, h3⟩ := he a ha
      exact ⟨h1, h2, by simp [h3]⟩
    · intro e he a ha
      obtain ⟨h1, h2, h3⟩ := he a ha
      exact ⟨h1, h2, by simp only [List.map_cons, List.mem_cons]; exact Or.inr h3⟩

theorem Logs.classifyNs (child : WName) (rds : List (List UInt8)) (idx : Nat) (P : Ev → Prop) :
    Logs (Server.classifyNs child rds idx) P
      (fun p => (∀ x ∈ p.1, NameL.eqOrSubdomainOf (fold x.2) (fold child) = true) ∧
                (∀ x ∈ p.2, NameL.eqOrSubdomainOf (fold x.2) (fold child) = false)) := by
  induction rds generalizing idx with
  | nil =>
    unfold Server.classifyNs
    exact Logs.weaken (Logs.pure ([], []) _) (fun _ h => h) (fun a ha => by subst ha; simp)
  | cons rd rest ih =>
    unfold Server.classifyNs
    refine Logs.bind (Logs.readName rd 0 P) (fun n _ => Logs.bind (ih (idx + 1)) ?_)
    rintro ⟨g, a⟩ ⟨hg, ha⟩
    by_cases hb : NameL.eqOrSubdomainOf (fold n) (fold child) = true
    · simp only [hb, if_true]
      refine Logs.weaken (Logs.pure _ _) (fun _ h => h) (fun x hx => ?_)
      subst hx
      refine ⟨?_, ha⟩
      intro x hx
      simp only [List.mem_cons] at hx
      rcases hx with h | h
      · subst h; exact hb
      · exact hg x h
    · simp only [hb]
      refine Logs.weaken (Logs.pure _ _) (fun _ h => h) (fun x hx => ?_)
      subst hx
      refine ⟨hg, ?_⟩
      intro x hx
      simp only [List.mem_cons] at hx
      rcases hx with h | h
      · subst h; simpa using hb
      · exact ha x h

/-- **mandatory glue is never wrapped in `execute_allowing_truncation`** (and only name servers
    outside the delegated zone are): every call `do_referral` logs is either the NS RRset
    (authority, mandatory), or an address RRset in the additional section that is optional exactly
    when its owner is *not* at or below the delegation point -/
theorem Logs.referral (z : Zone.Zone) (child : NameL.Name) (ns : Rrset) :
    Logs (doReferral z child ns)
      (fun e => ∀ a, e = .add a →
        (a.sec = .authority ∧ a.optional = false) ∨
        (a.sec = .additional ∧
          (a.optional = !NameL.eqOrSubdomainOf (fold a.owner) (fold (unfold child))))) (fun _ => True) := by
  unfold doReferral
  refine Logs.bind (Logs.addRrs false .authority .none _ _ _ _ _ _ ?_) (fun hv _ =>
    Logs.bind (Logs.classifyNs (unfold child) ns.rdatas 0 _) ?_)
  · intro r a ha; cases ha; exact Or.inl ⟨rfl, rfl⟩
  · rintro ⟨g, a⟩ ⟨hg, ha⟩
    refine Logs.bind (Logs.weaken (Logs.glueLoop z _ false g) ?_ (fun _ h => h))
      (fun _ _ => Logs.weaken (Logs.glueLoop z _ true a) ?_ (fun _ h => h))
    · intro e he x hx
      obtain ⟨h1, h2, h3⟩ := he x hx
      obtain ⟨y, hy, hyx⟩ := List.mem_map.mp h3
      refine Or.inr ⟨h1, ?_⟩
      rw [h2, ← hyx, hg y hy]; rfl
    · intro e he x hx
      obtain ⟨h1, h2, h3⟩ := he x hx
      obtain ⟨y, hy, hyx⟩ := List.mem_map.mp h3
      refine Or.inr ⟨h1, ?_⟩
      rw [h2, ← hyx, ha y hy]; rfl

end QV.ServerAnswer
