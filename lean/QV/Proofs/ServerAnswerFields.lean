/-
  QV.Proofs.ServerAnswerFields — the answering phase does not look at the writer's `limit`, its TSIG
  slot, or (except for the overflow check of the additional count) ARCOUNT: running any of its writer
  operations on a state with these three fields changed (`modS`: another limit, another TSIG slot,
  ARCOUNT + 1 — what `set_tsig` does besides reserving room) gives the same outcome and the same state
  with the same change — for every outcome, errors and panics included.  Together with the room
  simulation of Proofs/ServerAnswerLimit.lean this relates the run of `handle_non_axfr_query` for a
  TSIG-signed request to the run for the same request without its TSIG record (C10, row 3).
-/
import QV.Proofs.ServerAnswerLimit

namespace QV.ServerAnswer
open QV QV.Writer QV.Server

/-- the fields `set_tsig` changes besides `available` (and the limit, which C04 varies) -/
def modS (L : Nat) (T : Option Writer.Tsig) (s : State) : State :=
  { s with limit := L, tsig := T, arcount := s.arcount + 1 }

/-- `f` commutes with `modS`, whatever the outcome -/
def Com {α} (f : M α) : Prop := ∀ L T s, f (modS L T s) = ((f s).1, modS L T (f s).2)

theorem com_bind {α β} {f : M α} {g : α → M β} (hf : Com f) (hg : ∀ a, Com (g a)) : Com (f >>= g) := by
  intro L T s
  simp only [M.bind_apply]
  rw [hf L T s]
  rcases f s with ⟨(a | e | _), s1⟩
  · exact hg a L T s1
  · rfl
  · rfl

theorem com_pure {α} (a : α) : Com (pure a : M α) := fun _ _ _ => rfl
theorem com_fail {α} (e : WriterErr) : Com (M.fail e : M α) := fun _ _ _ => rfl
theorem com_panic {α} : Com (M.panic : M α) := fun _ _ _ => rfl

theorem com_gets {α} (f : State → α) (hf : ∀ L T s, f (modS L T s) = f s) : Com (M.gets f) := by
  intro L T s
  simp only [M.gets_apply]
  rw [hf]

theorem com_gets_bind {α β} {f : State → α} {g : α → M β} (hf : ∀ L T s, f (modS L T s) = f s)
    (hg : ∀ a, Com (g a)) : Com (M.gets f >>= g) := com_bind (com_gets f hf) hg

theorem com_modify (f : State → State) (hc : ∀ L T s, f (modS L T s) = modS L T (f s)) : Com (M.modify f) := by
  intro L T s
  simp only [M.modify_apply]
  rw [hc]

theorem com_tryPush (dd : List UInt8) : Com (tryPush dd) := by
  intro L T s
  have e1 : (modS L T s).available = s.available := rfl
  have e2 : (modS L T s).cursor = s.cursor := rfl
  have e3 : (modS L T s).octets = s.octets := rfl
  unfold tryPush
  simp only [e1, e2, e3]
  by_cases h1 : s.available < s.cursor
  · simp only [h1, if_true]
  · simp only [h1, if_false]
    by_cases h2 : s.available - s.cursor ≥ dd.length
    · simp only [h2, if_true]
      by_cases h3 : s.cursor + dd.length ≤ s.octets.size
      · simp only [h3, if_true]; rfl
      · simp only [h3, if_false]
    · simp only [h2, if_false]

theorem com_write (pos : Nat) (dd : List UInt8) : Com (write pos dd) := by
  intro L T s
  have e3 : (modS L T s).octets = s.octets := rfl
  unfold write
  simp only [e3]
  by_cases h : pos + dd.length ≤ s.octets.size
  · simp only [h, if_true]; rfl
  · simp only [h, if_false]

theorem com_hvPush (p : Option Nat) : Com (hvPush p) := by
  unfold hvPush
  refine com_modify _ (fun L T s => ?_)
  show (match s.hv with
    | some v => if v.length < Gen.HINT_POINTER_VEC_SIZE then { modS L T s with hv := some (v ++ [p]) } else modS L T s
    | none => modS L T s) = _
  cases s.hv with
  | none => rfl
  | some v => simp only []; split <;> rfl

theorem com_setCtx (c : NameCtx) : Com (setCtx c) :=
  com_modify _ (fun _ _ _ => rfl)

theorem com_ghostLabels (p : Nat) (l : List Label) (b : Bool) : Com (ghostLabels p l b) :=
  com_modify _ (fun _ _ _ => rfl)

theorem com_pushPointer (p : Nat) : Com (pushPointer p) := by
  unfold pushPointer
  exact com_gets_bind (fun _ _ _ => rfl) fun ev => com_bind (com_tryPush _) fun _ =>
    com_modify _ (fun _ _ _ => rfl)

theorem com_writeUncompressedName (n : WName) : Com (writeUncompressedName n) := by
  unfold writeUncompressedName
  exact com_gets_bind (fun _ _ _ => rfl) fun cur => com_bind (com_tryPush _) fun _ =>
    com_bind (com_ghostLabels _ _ _) fun _ => com_pure _

theorem com_writeCompressedUnhintedName (n : WName) : Com (writeCompressedUnhintedName n) := by
  unfold writeCompressedUnhintedName
  refine com_gets_bind (fun _ _ _ => rfl) fun dcs => com_gets_bind (fun _ _ _ => rfl) fun cur => ?_
  cases dcs with
  | panic => exact com_panic
  | err e => exact com_panic
  | ok r =>
    cases r with
    | none => exact com_writeUncompressedName n
    | some m =>
      simp only []
      split
      · exact com_bind (com_pushPointer _) fun _ => com_pure _
      · exact com_bind (com_tryPush _) fun _ => com_bind (com_ghostLabels _ _ _) fun _ =>
          com_bind (com_pushPointer _) fun _ => com_pure _

theorem com_writeUnhintedName (n : WName) : Com (writeUnhintedName n) := by
  unfold writeUnhintedName
  refine com_gets_bind (fun _ _ _ => rfl) fun mode => ?_
  split
  · exact com_writeCompressedUnhintedName n
  · exact com_writeUncompressedName n

theorem com_pushHinted (p : Prior) : Com (pushHinted p) := by
  unfold pushHinted
  exact com_bind (com_pushPointer _) fun _ => com_pure _

theorem com_writeHintedName (h : Hint) (n : WName) : Com (writeHintedName h n) := by
  unfold writeHintedName
  refine com_gets_bind (fun _ _ _ => rfl) fun mode => ?_
  split
  · exact com_writeUncompressedName n
  · split
    · exact com_writeCompressedUnhintedName n
    · cases h with
      | qname =>
        refine com_gets_bind (fun _ _ _ => rfl) fun q => ?_
        cases q with
        | some q => exact com_pushHinted q
        | none => exact com_writeCompressedUnhintedName n
      | mostRecentOwner =>
        refine com_gets_bind (fun _ _ _ => rfl) fun q => ?_
        cases q with
        | some q => exact com_pushHinted q
        | none => exact com_writeCompressedUnhintedName n
      | mostRecentNameInRdata =>
        refine com_gets_bind (fun _ _ _ => rfl) fun q => ?_
        cases q with
        | some q => exact com_pushHinted q
        | none => exact com_writeCompressedUnhintedName n
      | explicit p =>
        refine com_gets_bind (fun _ _ _ => rfl) fun cur => ?_
        split
        · exact com_pushHinted _
        · exact com_writeCompressedUnhintedName n
      | none => exact com_writeCompressedUnhintedName n

theorem com_writeComponents (ts : List CompType) (rd : List UInt8) : Com (writeComponents ts rd) := by
  induction ts generalizing rd with
  | nil =>
    unfold writeComponents
    split
    · exact com_pure _
    · exact com_tryPush _
  | cons t ts ih =>
    cases t with
    | compressibleName =>
      unfold writeComponents
      cases WName.parse rd with
      | none => exact com_fail _
      | some p =>
        obtain ⟨n, rest⟩ := p
        exact com_bind (com_setCtx _) fun _ => com_bind (com_writeUnhintedName n) fun p =>
          com_bind (com_setCtx _) fun _ =>
          com_bind (com_modify _ (fun _ _ _ => rfl)) fun _ =>
          com_bind (com_hvPush _) fun _ => ih rest
    | uncompressibleName =>
      unfold writeComponents
      cases WName.parse rd with
      | none => exact com_fail _
      | some p =>
        obtain ⟨n, rest⟩ := p
        exact com_bind (com_setCtx _) fun _ => com_bind (com_writeUncompressedName n) fun p =>
          com_bind (com_setCtx _) fun _ =>
          com_bind (com_modify _ (fun _ _ _ => rfl)) fun _ =>
          com_bind (com_hvPush _) fun _ => ih rest
    | fixedLen k =>
      unfold writeComponents
      split
      · exact com_fail _
      · exact com_bind (com_tryPush _) fun _ => ih _

theorem com_writeRdata (cls ty : Nat) (rd : List UInt8) : Com (writeRdata cls ty rd) := by
  unfold writeRdata
  cases componentTypes cls ty with
  | none => exact com_panic
  | some ts => exact com_writeComponents ts rd

theorem com_rrTail (cls ty : Nat) (rd : List UInt8) (st : Nat) : Com (rrTail cls ty rd st) := by
  unfold rrTail
  refine com_bind (com_modify _ (fun _ _ _ => rfl)) fun _ =>
    com_bind (com_writeRdata cls ty rd) fun _ => com_gets_bind (fun _ _ _ => rfl) fun cur' => ?_
  split
  · exact com_panic
  · exact com_write _ _


theorem com_rrCheck (cls ty : Nat) (rd : List UInt8) : Com (rrCheck cls ty rd) := by
  unfold rrCheck
  refine com_gets_bind (fun _ _ _ => rfl) fun av => com_gets_bind (fun _ _ _ => rfl) fun st => ?_
  split
  · exact com_panic
  · split
    · exact com_fail _
    · exact com_rrTail cls ty rd st

theorem com_addRr (hint : Hint) (owner : WName) (ty cls ttl : Nat) (rd : List UInt8) :
    Com (addRr hint owner ty cls ttl rd) := by
  rw [addRr_eq]
  exact com_bind (com_setCtx _) fun _ => com_bind (com_writeHintedName hint owner) fun p =>
    com_bind (com_setCtx _) fun _ =>
    com_bind (com_modify _ (fun _ _ _ => rfl)) fun _ =>
    com_bind (com_tryPush _) fun _ => com_bind (com_tryPush _) fun _ =>
    com_bind (com_tryPush _) fun _ => com_rrCheck cls ty rd

theorem com_addRrset (owner : WName) (ty cls ttl : Nat) :
    ∀ (rds : List (List UInt8)) (hint : Hint) (n : Nat), Com (addRrset hint owner ty cls ttl rds n) := by
  intro rds
  induction rds with
  | nil => intro hint n; unfold addRrset; exact com_pure _
  | cons rd rest ih =>
    intro hint n
    unfold addRrset
    exact com_bind (com_addRr hint owner ty cls ttl rd) fun _ => ih _ _

theorem com_changeSection (sec : RrSection) : Com (changeSection sec) := by
  intro L T s
  unfold changeSection
  have hs : (modS L T s).sect = s.sect := rfl
  rw [hs]
  cases sec <;> cases hsec : s.sect <;> simp only [hsec] <;> rfl

/-! ### `add_*_rr(set)`: the additional count is the one thing that is looked at -/

/-- 1 for the additional section -/
def addOne : RrSection → Nat
  | .additional => 1
  | _ => 0

theorem getCount_modS (sec : RrSection) (L : Nat) (T : Option Writer.Tsig) (s : State) :
    getCount sec (modS L T s) = getCount sec s + addOne sec := by
  cases sec <;> rfl

theorem setCount_modS (sec : RrSection) (n : Nat) (L : Nat) (T : Option Writer.Tsig) (s : State) :
    (setCount sec (n + addOne sec) (modS L T s)) =
      (.ok (), modS L T (setCount sec n s).2) := by
  cases sec <;> rfl

theorem restore_modS (L : Nat) (T : Option Writer.Tsig) (s s' : State) :
    restore (modS L T s) (modS L T s') = modS L T (restore s s') := rfl

/-- commutation at one state, given that the additional count stays below its maximum -/
theorem addRrsetOp_modS (sec : RrSection) (hint : Hint) (owner : WName) (ty cls ttl : Nat)
    (rds : List (List UInt8)) (L : Nat) (T : Option Writer.Tsig) (s : State)
    (h : (addRrsetOp sec hint owner ty cls ttl rds s).2.arcount + 1 ≤ 65535) :
    addRrsetOp sec hint owner ty cls ttl rds (modS L T s) =
      ((addRrsetOp sec hint owner ty cls ttl rds s).1, modS L T (addRrsetOp sec hint owner ty cls ttl rds s).2) := by
  have hP : Com (changeSection sec >>= fun _ => addRrset hint owner ty cls (ttlFrom ttl) rds 0) :=
    com_bind (com_changeSection sec) fun _ => com_addRrset owner ty cls (ttlFrom ttl) rds hint 0
  have hp := hP L T s
  unfold addRrsetOp at h ⊢
  rw [withRollback_apply] at h ⊢
  rw [withRollback_apply]
  simp only [M.bind_apply] at hp h ⊢
  rcases hcs : changeSection sec s with ⟨(u | e | _), s0⟩
  · rw [hcs] at hp h
    have hcm := com_changeSection sec L T s
    rw [hcs] at hcm
    rw [hcm]
    simp only at hp h ⊢
    rcases hrs : addRrset hint owner ty cls (ttlFrom ttl) rds 0 s0 with ⟨(n | e | _), s1⟩
    · have hcr := com_addRrset owner ty cls (ttlFrom ttl) rds hint 0 L T s0
      rw [hrs] at hcr h
      rw [hcr]
      simp only [M.gets_apply] at h ⊢
      rw [getCount_modS]
      by_cases h1 : n > 65535
      · have h1a : getCount sec s1 + addOne sec + n > 65535 := by omega
        have h1b : getCount sec s1 + n > 65535 := by omega
        simp only [h1, h1a, h1b, if_true]; rfl
      · simp only [h1, if_false] at h ⊢
        by_cases h2 : getCount sec s1 + n > 65535
        · have : getCount sec s1 + addOne sec + n > 65535 := by omega
          simp only [h2, this, if_true]; rfl
        · simp only [h2, if_false] at h
          have hfin : (setCount sec (getCount sec s1 + n) s1).2.arcount + 1 ≤ 65535 := h
          have h3 : ¬ getCount sec s1 + addOne sec + n > 65535 := by
            cases sec
            · simp only [addOne]; omega
            · simp only [addOne]; omega
            · simp only [setCount, M.modify_apply, getCount, addOne] at hfin ⊢; omega
          simp only [h2, h3, if_false]
          have e : getCount sec s1 + addOne sec + n =
              getCount sec s1 + n + addOne sec := by omega
          rw [e, setCount_modS]
          rfl
    · have hcr := com_addRrset owner ty cls (ttlFrom ttl) rds hint 0 L T s0
      rw [hrs] at hcr
      rw [hcr]; rfl
    · have hcr := com_addRrset owner ty cls (ttlFrom ttl) rds hint 0 L T s0
      rw [hrs] at hcr
      rw [hcr]
  · have hcm := com_changeSection sec L T s
    rw [hcs] at hcm
    rw [hcm]; rfl
  · have hcm := com_changeSection sec L T s
    rw [hcs] at hcm
    rw [hcm]

theorem addRrOp_modS (sec : RrSection) (hint : Hint) (owner : WName) (ty cls ttl : Nat)
    (rd : List UInt8) (L : Nat) (T : Option Writer.Tsig) (s : State)
    (h : (addRrOp sec hint owner ty cls ttl rd s).2.arcount + 1 ≤ 65535) :
    addRrOp sec hint owner ty cls ttl rd (modS L T s) =
      ((addRrOp sec hint owner ty cls ttl rd s).1, modS L T (addRrOp sec hint owner ty cls ttl rd s).2) := by
  unfold addRrOp at h ⊢
  rw [withRollback_apply] at h ⊢
  rw [withRollback_apply]
  simp only [M.bind_apply] at h ⊢
  rcases hcs : changeSection sec s with ⟨(u | e | _), s0⟩
  · rw [hcs] at h
    have hcm := com_changeSection sec L T s
    rw [hcs] at hcm
    rw [hcm]
    simp only at h ⊢
    rcases hrs : addRr hint owner ty cls (ttlFrom ttl) rd s0 with ⟨(n | e | _), s1⟩
    · have hcr := com_addRr hint owner ty cls (ttlFrom ttl) rd L T s0
      rw [hrs] at hcr h
      rw [hcr]
      simp only [M.gets_apply] at h ⊢
      rw [getCount_modS]
      by_cases h2 : getCount sec s1 + 1 > 65535
      · have : getCount sec s1 + addOne sec + 1 > 65535 := by omega
        simp only [h2, this, if_true]; rfl
      · simp only [h2, if_false] at h
        have hfin : (setCount sec (getCount sec s1 + 1) s1).2.arcount + 1 ≤ 65535 := h
        have h3 : ¬ getCount sec s1 + addOne sec + 1 > 65535 := by
          cases sec
          · simp only [addOne]; omega
          · simp only [addOne]; omega
          · simp only [setCount, M.modify_apply, getCount, addOne] at hfin ⊢; omega
        simp only [h2, h3, if_false]
        have e : getCount sec s1 + addOne sec + 1 = getCount sec s1 + 1 + addOne sec := by omega
        rw [e, setCount_modS]
        rfl
    · have hcr := com_addRr hint owner ty cls (ttlFrom ttl) rd L T s0
      rw [hrs] at hcr
      rw [hcr]; rfl
    · have hcr := com_addRr hint owner ty cls (ttlFrom ttl) rd L T s0
      rw [hrs] at hcr
      rw [hcr]
  · have hcm := com_changeSection sec L T s
    rw [hcs] at hcm
    rw [hcm]; rfl
  · have hcm := com_changeSection sec L T s
    rw [hcs] at hcm
    rw [hcm]

/-! ### the answer phase (on the writer plus the ghost log) -/

/-- the run commutes with `modS`, provided the additional count it ends with leaves room for one more -/
def ComP {α} (m : PM α) : Prop :=
  ∀ L T (ps : PS), (m ps).2.w.arcount + 1 ≤ 65535 →
    m ⟨modS L T ps.w, ps.log⟩ = ((m ps).1, ⟨modS L T (m ps).2.w, (m ps).2.log⟩)

/-- ARCOUNT never decreases (the answering logic proper does not call `clear_rrs`) -/
def CMP {α} (m : PM α) : Prop := ∀ ps : PS, ps.w.arcount ≤ (m ps).2.w.arcount

def ComPF {α} (m : PM α) : Prop := ComP m ∧ CMP m

theorem comPF_pure {α} (a : α) : ComPF (Pure.pure a : PM α) :=
  ⟨fun _ _ _ _ => rfl, fun _ => Nat.le_refl _⟩

theorem comPF_fail {α} (e : PErr) : ComPF (PM.fail e : PM α) :=
  ⟨fun _ _ _ _ => rfl, fun _ => Nat.le_refl _⟩

theorem comPF_panic {α} : ComPF (PM.panic : PM α) :=
  ⟨fun _ _ _ _ => rfl, fun _ => Nat.le_refl _⟩

theorem comPF_bind {α β} {m : PM α} {f : α → PM β} (hm : ComPF m) (hf : ∀ a, ComPF (f a)) : ComPF (m >>= f) := by
  refine ⟨?_, ?_⟩
  · intro L T ps h
    rw [bind_def] at h ⊢
    rw [bind_def]
    rcases hmm : m ps with ⟨(a | e | _), ps1⟩
    · rw [hmm] at h
      simp only at h ⊢
      have h1 : (m ps).2.w.arcount + 1 ≤ 65535 := by
        have := (hf a).2 ps1; rw [hmm]; simp only; omega
      rw [hm.1 L T ps h1, hmm]
      simp only
      exact (hf a).1 L T ps1 h
    · rw [hmm] at h
      simp only at h
      rw [hm.1 L T ps (by rw [hmm]; exact h), hmm]
    · rw [hmm] at h
      simp only at h
      rw [hm.1 L T ps (by rw [hmm]; exact h), hmm]
  · intro ps
    rw [bind_def]
    have h0 := hm.2 ps
    rcases hmm : m ps with ⟨(a | e | _), ps1⟩
    · rw [hmm] at h0
      simp only at h0 ⊢
      exact Nat.le_trans h0 ((hf a).2 ps1)
    · rw [hmm] at h0; exact h0
    · rw [hmm] at h0; exact h0

theorem comPF_hdrOp (ev : Ev) (m : M Unit) (hc : Com m) (hk : ∀ s, (m s).2.arcount = s.arcount) :
    ComPF (PM.hdrOp ev m) := by
  refine ⟨?_, ?_⟩
  · intro L T ps _
    unfold PM.hdrOp
    simp only
    rw [hc L T ps.w]
    rcases m ps.w with ⟨(u | e | _), t⟩ <;> rfl
  · intro ps
    unfold PM.hdrOp
    have := hk ps.w
    rcases hm : m ps.w with ⟨(u | e | _), t⟩ <;> rw [hm] at this <;> simp only at this ⊢ <;> omega

theorem com_setHdr (i : Nat) (f : UInt8 → UInt8) : Com (setHdr i f) := by
  intro L T s
  have e3 : (modS L T s).octets = s.octets := rfl
  unfold setHdr
  by_cases h : i < s.octets.size
  · rw [dif_pos (by rw [e3]; exact h), dif_pos h]; rfl
  · rw [dif_neg (by rw [e3]; exact h), dif_neg h]

theorem comPF_setAa (b : Bool) : ComPF (PM.setAa b) :=
  comPF_hdrOp _ _ (show Com (setBit Gen.AA_BYTE Gen.AA_MASK b) from by unfold setBit; exact com_setHdr _ _)
    (fun s => ((hdrKeeps_setBit _ _ b (by decide)).hdr s).ar)

theorem com_setRcode (v : Nat) : Com (setRcode v) := by
  unfold setRcode
  refine com_bind (com_setHdr _ _) fun _ => com_modify _ (fun L T s => ?_)
  show (match s.edns with
    | some e => { modS L T s with edns := some { e with upper := 0 } }
    | none => modS L T s) = _
  cases s.edns <;> rfl

theorem comPF_setRcode (v : Nat) : ComPF (PM.setRcode v) :=
  comPF_hdrOp _ _ (com_setRcode v) (fun s => ((hdrKeeps_setRcode v).hdr s).ar)

theorem comPF_addCall (ev : AddEv) (f : M Unit)
    (hf : ∀ L T s, (f s).2.arcount + 1 ≤ 65535 → f (modS L T s) = ((f s).1, modS L T (f s).2))
    (hm : ∀ s, s.arcount ≤ (f s).2.arcount) : ComPF (PM.addCall ev (Server.withHv [] f)) := by
  refine ⟨?_, ?_⟩
  · intro L T ps h
    unfold PM.addCall Server.withHv at h ⊢
    simp only at h ⊢
    have hl : ({ modS L T ps.w with hv := some [] } : State) = modS L T { ps.w with hv := some [] } := rfl
    rw [hl]
    have hfin : (f { ps.w with hv := some [] }).2.arcount + 1 ≤ 65535 := by
      rcases hr : f { ps.w with hv := some [] } with ⟨(u | e | _), t⟩ <;> rw [hr] at h <;> simp only at h ⊢
      · exact h
      · split at h <;> exact h
      · exact h
    rw [hf L T _ hfin]
    rcases f { ps.w with hv := some [] } with ⟨(u | e | _), t⟩
    · rfl
    · simp only; split <;> rfl
    · rfl
  · intro ps
    unfold PM.addCall Server.withHv
    have := hm { ps.w with hv := some [] }
    simp only
    rcases hr : f { ps.w with hv := some [] } with ⟨(u | e | _), t⟩ <;> rw [hr] at this <;> simp only at this ⊢
    · exact this
    · split <;> exact this
    · exact this

theorem addRrsetOp_ar_le (sec : RrSection) (hint : Hint) (owner : WName) (ty cls ttl : Nat)
    (rds : List (List UInt8)) (s : State) : s.arcount ≤ (addRrsetOp sec hint owner ty cls ttl rds s).2.arcount := by
  have h := addRrsetOp_cases sec hint owner ty cls ttl rds s
  generalize addRrsetOp sec hint owner ty cls ttl rds s = r at h
  obtain ⟨o, s'⟩ := r
  cases o with
  | ok u =>
    obtain ⟨s1, n, e, _, hs'⟩ := h
    rw [hs']
    cases sec <;> simp only [setCount, M.modify_apply, getCount] <;> rw [← e.ar] <;> omega
  | err e => rw [h.ar]; exact Nat.le_refl _
  | panic => rw [h.ar]; exact Nat.le_refl _

theorem addRrOp_ar_le (sec : RrSection) (hint : Hint) (owner : WName) (ty cls ttl : Nat)
    (rd : List UInt8) (s : State) : s.arcount ≤ (addRrOp sec hint owner ty cls ttl rd s).2.arcount := by
  have h := addRrOp_cases sec hint owner ty cls ttl rd s
  generalize addRrOp sec hint owner ty cls ttl rd s = r at h
  obtain ⟨o, s'⟩ := r
  cases o with
  | ok u =>
    obtain ⟨s1, e, _, hs'⟩ := h
    rw [hs']
    cases sec <;> simp only [setCount, M.modify_apply, getCount] <;> rw [← e.ar] <;> omega
  | err e => rw [h.ar]; exact Nat.le_refl _
  | panic => rw [h.ar]; exact Nat.le_refl _

theorem comPF_addRrs (opt : Bool) (sec : RrSection) (hint : Hint) (owner : WName) (ty cls ttl : Nat)
    (rds : List (List UInt8)) : ComPF (PM.addRrs opt sec hint owner ty cls ttl rds) :=
  comPF_addCall _ _ (fun L T s h => addRrsetOp_modS sec hint owner ty cls ttl rds L T s h)
    (addRrsetOp_ar_le sec hint owner ty cls ttl rds)

theorem comPF_addRr1 (sec : RrSection) (hint : Hint) (owner : WName) (ty cls ttl : Nat) (rd : List UInt8) :
    ComPF (PM.addRr1 sec hint owner ty cls ttl rd) := by
  unfold PM.addRr1
  exact comPF_bind (comPF_addCall _ _ (fun L T s h => addRrOp_modS sec hint owner ty cls ttl rd L T s h)
    (addRrOp_ar_le sec hint owner ty cls ttl rd)) (fun _ => comPF_pure ())

/-! ### the functions of query.rs -/

theorem comPF_readName (rd : List UInt8) (start : Nat) : ComPF (readNameFromRdata rd start) := by
  unfold readNameFromRdata
  split
  · exact comPF_fail _
  · split
    · exact comPF_pure _
    · exact comPF_fail _

theorem comPF_aaaaPart (z : Zone.Zone) (hint : Hint) (owner : WName) (opt : Bool) (aaaa : Option Zone.Rrset) :
    ComPF (Server.addAaaa z hint owner opt aaaa) := by
  unfold Server.addAaaa
  split
  · cases aaaa with
    | none => exact comPF_pure ()
    | some r => exact comPF_bind (comPF_addRrs opt .additional hint owner _ _ _ _) (fun _ => comPF_pure ())
  · exact comPF_pure ()

theorem comPF_addrs (z : Zone.Zone) (hint : Hint) (owner : WName) (sbc opt : Bool) :
    ComPF (addAdditionalAddresses z hint owner sbc opt) := by
  unfold addAdditionalAddresses
  split
  · next a aaaa sos _ =>
    cases a with
    | none => exact comPF_aaaaPart z hint owner opt aaaa
    | some r =>
      refine comPF_bind (comPF_addRrs opt .additional hint owner _ _ _ _) (fun o => ?_)
      cases o with
      | none => exact comPF_pure ()
      | some x => exact comPF_aaaaPart z _ owner opt aaaa
  · exact comPF_pure ()
  · exact comPF_pure ()
  · exact comPF_panic

theorem comPF_additionalLoop (z : Zone.Zone) (start : Nat) (hv : Option HV) (rds : List (List UInt8)) (idx : Nat) :
    ComPF (Server.additionalLoop z start hv rds idx) := by
  induction rds generalizing idx with
  | nil => unfold Server.additionalLoop; exact comPF_pure ()
  | cons rd rest ih =>
    unfold Server.additionalLoop
    exact comPF_bind (comPF_readName rd start) (fun n =>
      comPF_bind (comPF_addrs z _ n false true) (fun _ => ih (idx + 1)))

theorem comPF_additionalProcessing (z : Zone.Zone) (t : Nat) (s : Zone.Rrset) (hv : Option HV) :
    ComPF (doAdditionalSectionProcessing z t s hv) := by
  unfold doAdditionalSectionProcessing
  split
  · exact comPF_pure ()
  · split
    · exact comPF_additionalLoop z 0 hv s.rdatas 0
    · split
      · exact comPF_additionalLoop z 2 hv s.rdatas 0
      · split
        · exact comPF_additionalLoop z 6 hv s.rdatas 0
        · exact comPF_pure ()

theorem comPF_readSoaMinimum (rd : List UInt8) : ComPF (Server.readSoaMinimum rd) := by
  unfold Server.readSoaMinimum
  split
  · split
    · split
      · exact comPF_fail _
      · dsimp only
        split
        · exact comPF_pure _
        · exact comPF_fail _
    · exact comPF_fail _
  · exact comPF_fail _

theorem comPF_negativeSoa (z : Zone.Zone) : ComPF (addNegativeCachingSoa z) := by
  unfold addNegativeCachingSoa
  split
  · exact comPF_fail _
  · split
    · exact comPF_fail _
    · exact comPF_bind (comPF_readSoaMinimum _) (fun m => comPF_addRr1 .authority _ _ _ _ _ _)

theorem comPF_classifyNs (child : WName) (rds : List (List UInt8)) (idx : Nat) :
    ComPF (Server.classifyNs child rds idx) := by
  induction rds generalizing idx with
  | nil => unfold Server.classifyNs; exact comPF_pure _
  | cons rd rest ih =>
    unfold Server.classifyNs
    refine comPF_bind (comPF_readName rd 0) (fun n => comPF_bind (ih (idx + 1)) (fun p => ?_))
    obtain ⟨g, a⟩ := p
    simp only []
    split
    · exact comPF_pure _
    · exact comPF_pure _

theorem comPF_glueLoop (z : Zone.Zone) (hv : HV) (opt : Bool) (l : List (Nat × WName)) :
    ComPF (Server.glueLoop z hv opt l) := by
  induction l with
  | nil => unfold Server.glueLoop; exact comPF_pure ()
  | cons p rest ih =>
    unfold Server.glueLoop
    exact comPF_bind (comPF_addrs z _ p.2 true opt) (fun _ => ih)

theorem comPF_referral (z : Zone.Zone) (child : NameL.Name) (ns : Zone.Rrset) : ComPF (doReferral z child ns) := by
  unfold doReferral
  refine comPF_bind (comPF_addRrs false .authority .none _ _ _ _ _) (fun hv =>
    comPF_bind (comPF_classifyNs _ ns.rdatas 0) (fun p => ?_))
  obtain ⟨g, a⟩ := p
  simp only []
  exact comPF_bind (comPF_glueLoop z _ false g) (fun _ => comPF_glueLoop z _ true a)

theorem comPF_followCname (z : Zone.Zone) (qname : WName) (qtype : Nat) :
    ∀ (fuel : Nat) (cn : Zone.Rrset) (os : List WName), ComPF (Server.followCname z qname qtype fuel cn os) := by
  intro fuel
  induction fuel with
  | zero => intro cn os; unfold Server.followCname; exact comPF_fail _
  | succ f ih =>
    intro cn os
    rw [Server.followCname]
    split
    · exact comPF_fail _
    · split
      · split
        · exact comPF_fail _
        · refine comPF_bind (comPF_addRr1 .answer _ _ _ _ _ _) (fun _ => ?_)
          split
          · exact comPF_bind (comPF_addRrs false .answer _ _ _ _ _ _)
              (fun hv => comPF_additionalProcessing z qtype _ hv)
          · split
            · exact ih _ _
            · exact comPF_fail _
          · exact comPF_referral z _ _
          · exact comPF_negativeSoa z
          · exact comPF_bind (comPF_setRcode _) (fun _ => comPF_negativeSoa z)
          · exact comPF_pure ()
          · exact comPF_pure ()
          · exact comPF_panic
      · exact comPF_fail _

theorem comPF_answer (z : Zone.Zone) (qname : WName) (qtype : Nat) : ComPF (Server.answer z qname qtype) := by
  unfold Server.answer
  split
  · exact comPF_bind (comPF_setAa true) (fun _ => comPF_bind (comPF_addRrs false .answer _ _ _ _ _ _)
      (fun hv => comPF_additionalProcessing z qtype _ hv))
  · unfold Server.doCname
    exact comPF_bind (comPF_setAa true) (fun _ => comPF_followCname z qname qtype _ _ _)
  · exact comPF_referral z _ _
  · exact comPF_bind (comPF_setAa true) (fun _ => comPF_negativeSoa z)
  · exact comPF_bind (comPF_setRcode _) (fun _ => comPF_bind (comPF_setAa true) (fun _ => comPF_negativeSoa z))
  · exact comPF_panic
  · exact comPF_panic
  · exact comPF_panic

theorem comPF_answerAnyLoop (z : Zone.Zone) (qname : WName) (rrsets : List Zone.Rrset) (n : Nat) :
    ComPF (Server.answerAnyLoop z qname rrsets n) := by
  induction rrsets generalizing n with
  | nil => unfold Server.answerAnyLoop; exact comPF_pure _
  | cons r rest ih =>
    unfold Server.answerAnyLoop
    exact comPF_bind (comPF_addRrs false .answer _ _ _ _ _ _) (fun _ => ih (n + 1))

theorem comPF_answerAny (z : Zone.Zone) (qname : WName) : ComPF (Server.answerAny z qname) := by
  unfold Server.answerAny
  split
  · refine comPF_bind (comPF_setAa true) (fun _ => comPF_bind (comPF_answerAnyLoop z qname _ 0) (fun n => ?_))
    split
    · exact comPF_negativeSoa z
    · exact comPF_pure ()
  · exact comPF_referral z _ _
  · exact comPF_bind (comPF_setRcode _) (fun _ => comPF_bind (comPF_setAa true) (fun _ => comPF_negativeSoa z))
  · exact comPF_panic
  · exact comPF_panic
  · exact comPF_panic

theorem comPF_inner (z : Zone.Zone) (qname : WName) (qtype : Nat) : ComPF (inner z qname qtype) := by
  unfold ServerAnswer.inner
  split
  · exact comPF_answerAny z qname
  · exact comPF_answer z qname qtype


end QV.ServerAnswer
