/-
  QV.Proofs.RdataRead — helper lemmas for C18: the type-specific `read_*` functions of the model
  accept exactly the regions that expand along the format's layout (`Expands`, via the deterministic
  `expand?`), yield that expansion, and never panic.
-/
import QV.Proofs.Rdata
import QV.Properties.C14
namespace QV.Rdata
open QV QV.Wire QV.Spec

/-- deterministic expansion of the fields of a layout at `pos` of `buf`, by the model's parser -/
def expand? (buf : Bytes) : List Field → Nat → Option (List UInt8 × Nat)
  | [], pos => some ([], pos)
  | .name :: ls, pos =>
    match parseCompressed buf pos with
    | .ok p => (expand? buf ls (pos + p.len)).map (fun x => (p.wire ++ x.1, x.2))
    | _ => none
  | .fixed n :: ls, pos =>
    if pos + n ≤ buf.size then
      (expand? buf ls (pos + n)).map (fun x => ((buf.extract pos (pos + n)).toList ++ x.1, x.2))
    else none

theorem expand?_iff (buf : Bytes) (l : List Field) : ∀ (pos : Nat) (r : List UInt8) (e : Nat),
    expand? buf l pos = some (r, e) ↔ Expands buf l pos r e := by
  induction l with
  | nil =>
    intro pos r e
    simp only [expand?, Option.some.injEq, Prod.mk.injEq]
    constructor
    · rintro ⟨rfl, rfl⟩; exact Expands.nil
    · intro h; cases h; exact ⟨rfl, rfl⟩
  | cons f ls ih =>
    intro pos r e
    cases f with
    | name =>
      simp only [expand?]
      constructor
      · intro h
        cases hp : parseCompressed buf pos with
        | ok p =>
          rw [hp] at h
          simp only [Option.map_eq_some_iff] at h
          obtain ⟨⟨r', e'⟩, h1, h2⟩ := h
          simp only [Prod.mk.injEq] at h2
          obtain ⟨rfl, rfl⟩ := h2
          exact Expands.name ((QV.C14.C14_parse_ok_iff buf pos p).mp hp) ((ih _ _ _).mp h1)
        | err _ => rw [hp] at h; cases h
        | panic => rw [hp] at h; cases h
      · intro h
        cases h with
        | @name _ _ w n k out _ hd tl =>
          have hp := (QV.C14.C14_parse_ok_iff buf pos ⟨w, n, k⟩).mpr hd
          rw [hp]
          simp [(ih _ _ _).mpr tl]
    | fixed n =>
      simp only [expand?]
      constructor
      · intro h
        split at h
        · rename_i hn
          simp only [Option.map_eq_some_iff] at h
          obtain ⟨⟨r', e'⟩, h1, h2⟩ := h
          simp only [Prod.mk.injEq] at h2
          obtain ⟨rfl, rfl⟩ := h2
          exact Expands.fixed hn ((ih _ _ _).mp h1)
        · cases h
      · intro h
        cases h with
        | fixed hin tl => simp [hin, (ih _ _ _).mpr tl]

theorem parseC_facts (buf : Bytes) (pos : Nat) (p : Parsed) (h : parseCompressed buf pos = .ok p) :
    pos + p.len ≤ buf.size ∧ 0 < p.len ∧ p.wire.length ≤ 255 ∧ LName p.wire p.nlabels := by
  obtain ⟨hd, hl⟩ := (QV.C14.C14_parse_ok_iff buf pos p).mp h
  obtain ⟨a, b⟩ := decodes_len_le hd
  exact ⟨a, b, hl, decodes_lname hd⟩

theorem prepare_cases (msg : Bytes) (cur len : Nat) :
    (cur + len > USIZE_MAX ∧ prepareToReadRdata msg cur len = .panic) ∨
    (cur + len ≤ USIZE_MAX ∧ cur + len > msg.size ∧ prepareToReadRdata msg cur len = .err .UnexpectedEom) ∨
    (cur + len ≤ USIZE_MAX ∧ cur + len ≤ msg.size ∧ prepareToReadRdata msg cur len = .ok (msg.extract 0 (cur + len))) := by
  unfold prepareToReadRdata
  by_cases h1 : cur + len > USIZE_MAX
  · exact Or.inl ⟨h1, by simp [h1]⟩
  · by_cases h2 : cur + len > msg.size
    · exact Or.inr (Or.inl ⟨by omega, h2, by simp [h1, h2]⟩)
    · exact Or.inr (Or.inr ⟨by omega, by omega, by simp [h1, h2]⟩)

theorem mkRdata_ok (b : Bytes) (h : b.size ≤ 65535) : mkRdata b = .ok b := by
  unfold mkRdata RDATA_MAX
  have : ¬ b.size > 65535 := by omega
  simp [this]

theorem liftName_parse (buf : Bytes) (pos : Nat) :
    (∃ p, parseCompressed buf pos = .ok p ∧ liftName (parseCompressed buf pos) = .ok p) ∨
    (∃ e, parseCompressed buf pos = .err e ∧ liftName (parseCompressed buf pos) = .err (.InvalidName e)) := by
  cases h : parseCompressed buf pos with
  | ok p => exact Or.inl ⟨p, rfl, rfl⟩
  | err e => exact Or.inr ⟨e, rfl, rfl⟩
  | panic => exact absurd h (QV.C14.C14_no_panic buf pos)

/-- `read_name_rdata`: never panics (given no `usize` overflow); accepts exactly when the region
    is one name; yields its expansion -/
theorem readNameRdata_spec (msg : Bytes) (cur len : Nat) (hov : cur + len ≤ USIZE_MAX) :
    readNameRdata msg cur len ≠ .panic ∧
    ∀ r, readNameRdata msg cur len = .ok r ↔
      (cur + len ≤ msg.size ∧ expand? (msg.extract 0 (cur + len)) [.name] cur = some (r.toList, cur + len)) := by
  unfold readNameRdata
  rcases prepare_cases msg cur len with ⟨h, _⟩ | ⟨_, h2, hp⟩ | ⟨_, h2, hp⟩
  · omega
  · rw [hp]; simp; omega
  · rw [hp]
    have hsz : (msg.extract 0 (cur + len)).size = cur + len := by simp; omega
    simp only [Out.bind_ok, expand?, hsz]
    rcases liftName_parse (msg.extract 0 (cur + len)) cur with ⟨p, hp1, hp2⟩ | ⟨e, hp1, hp2⟩
    · obtain ⟨f1, f2, f3, f4⟩ := parseC_facts _ _ _ hp1
      rw [hsz] at f1
      rw [hp1]
      simp only [liftName, Out.mapErr, Out.bind_ok, csub_ok (cur + len) cur (by omega)]
      have ecl : cur + len - cur = len := by omega
      rw [ecl]
      by_cases hl : len ≠ p.len
      · rw [if_pos hl]
        refine ⟨by simp, fun r => ?_⟩
        simp; intro _ _; omega
      · rw [if_neg hl]
        rw [mkRdata_ok _ (by simp; omega)]
        refine ⟨by simp, fun r => ?_⟩
        simp only [Out.ok.injEq, Option.map_some, Option.some.injEq, Prod.mk.injEq, List.append_nil, h2, true_and]
        constructor
        · intro e; subst e; simp; omega
        · rintro ⟨e, _⟩; rw [e]
    · rw [hp1]; simp [liftName, Out.mapErr]

end QV.Rdata

namespace QV.Rdata
open QV QV.Wire QV.Spec

theorem toArray_inj_toList (r : Bytes) (l : List UInt8) : l.toArray = r ↔ r.toList = l := by
  constructor
  · intro e; subst e; rfl
  · intro e; subst e; rfl

theorem readChA_spec (msg : Bytes) (cur len : Nat) (hov : cur + len ≤ USIZE_MAX) :
    readChA msg cur len ≠ .panic ∧
    ∀ r, readChA msg cur len = .ok r ↔
      (cur + len ≤ msg.size ∧ expand? (msg.extract 0 (cur + len)) [.name, .fixed 2] cur = some (r.toList, cur + len)) := by
  unfold readChA
  rcases prepare_cases msg cur len with ⟨h, _⟩ | ⟨_, h2, hp⟩ | ⟨_, h2, hp⟩
  · omega
  · rw [hp]; simp; omega
  · rw [hp]
    have hsz : (msg.extract 0 (cur + len)).size = cur + len := by simp; omega
    simp only [Out.bind_ok, expand?, hsz]
    rcases liftName_parse (msg.extract 0 (cur + len)) cur with ⟨p, hp1, _⟩ | ⟨e, hp1, _⟩
    · obtain ⟨f1, f2, f3, f4⟩ := parseC_facts _ _ _ hp1
      rw [hsz] at f1
      rw [hp1]
      simp only [liftName, Out.mapErr, Out.bind_ok, csub_ok (cur + len) cur (by omega)]
      have ecl : cur + len - cur = len := by omega
      rw [ecl]
      by_cases hl : len = p.len + 2
      · rw [if_pos hl, sliceFrom_ok _ _ (by rw [hsz]; omega)]
        have e2 : cur + p.len + 2 ≤ cur + len := by omega
        simp only [Out.bind_ok, e2, if_true, Option.map_some, hsz]
        rw [mkRdata_ok _ (by simp; omega)]
        refine ⟨by simp, fun r => ?_⟩
        simp only [Out.ok.injEq, Option.some.injEq, Prod.mk.injEq, List.append_nil, h2, true_and]
        have e3 : cur + p.len + 2 = cur + len := by omega
        rw [e3]
        constructor
        · intro e; subst e; simp
        · rintro ⟨e, _⟩
          apply Array.toList_inj.mp
          rw [← e]; simp
      · rw [if_neg hl]
        refine ⟨by simp, fun r => ?_⟩
        by_cases e2 : cur + p.len + 2 ≤ cur + len
        · simp [e2]; intro _ _; omega
        · simp [e2]
    · rw [hp1]; simp [liftName, Out.mapErr]

end QV.Rdata

namespace QV.Rdata
open QV QV.Wire QV.Spec

theorem readSoa_spec (msg : Bytes) (cur len : Nat) (hov : cur + len ≤ USIZE_MAX) :
    readSoa msg cur len ≠ .panic ∧
    ∀ r, readSoa msg cur len = .ok r ↔
      (cur + len ≤ msg.size ∧
        expand? (msg.extract 0 (cur + len)) [.name, .name, .fixed 20] cur = some (r.toList, cur + len)) := by
  unfold readSoa
  rcases prepare_cases msg cur len with ⟨h, _⟩ | ⟨_, h2, hp⟩ | ⟨_, h2, hp⟩
  · omega
  · rw [hp]; simp; omega
  · rw [hp]
    have hsz : (msg.extract 0 (cur + len)).size = cur + len := by simp; omega
    simp only [Out.bind_ok, expand?, hsz]
    rcases liftName_parse (msg.extract 0 (cur + len)) cur with ⟨p, hp1, _⟩ | ⟨e, hp1, _⟩
    · obtain ⟨f1, f2, f3, f4⟩ := parseC_facts _ _ _ hp1
      rw [hsz] at f1
      rw [hp1]
      simp only [liftName, Out.mapErr, Out.bind_ok]
      rcases liftName_parse (msg.extract 0 (cur + len)) (cur + p.len) with ⟨q, hq1, _⟩ | ⟨e, hq1, _⟩
      · obtain ⟨g1, g2, g3, g4⟩ := parseC_facts _ _ _ hq1
        rw [hsz] at g1
        rw [hq1]
        simp only [Out.bind_ok, csub_ok (cur + len) cur (by omega)]
        have ecl : cur + len - cur = len := by omega
        rw [ecl]
        simp only [csub_ok len p.len (by omega), Out.bind_ok, csub_ok (len - p.len) q.len (by omega)]
        by_cases hl : len - p.len - q.len ≠ 20
        · rw [if_pos hl]
          refine ⟨by simp, fun r => ?_⟩
          by_cases e2 : cur + p.len + q.len + 20 ≤ cur + len
          · simp [e2]; intro _ _; omega
          · simp [e2]
        · rw [if_neg hl, sliceFrom_ok _ _ (by rw [hsz]; omega)]
          have e2 : cur + p.len + q.len + 20 ≤ cur + len := by omega
          simp only [Out.bind_ok, e2, if_true, Option.map_some, hsz]
          rw [mkRdata_ok _ (by simp; omega)]
          refine ⟨by simp, fun r => ?_⟩
          simp only [Out.ok.injEq, Option.some.injEq, Prod.mk.injEq, List.append_nil, h2, true_and]
          have e3 : cur + p.len + q.len + 20 = cur + len := by omega
          rw [e3]
          constructor
          · intro e; subst e; simp
          · rintro ⟨e, _⟩
            apply Array.toList_inj.mp
            rw [← e]; simp
      · rw [hq1]; simp
    · rw [hp1]; simp [liftName, Out.mapErr]

theorem readMinfo_spec (msg : Bytes) (cur len : Nat) (hov : cur + len ≤ USIZE_MAX) :
    readMinfo msg cur len ≠ .panic ∧
    ∀ r, readMinfo msg cur len = .ok r ↔
      (cur + len ≤ msg.size ∧
        expand? (msg.extract 0 (cur + len)) [.name, .name] cur = some (r.toList, cur + len)) := by
  unfold readMinfo
  rcases prepare_cases msg cur len with ⟨h, _⟩ | ⟨_, h2, hp⟩ | ⟨_, h2, hp⟩
  · omega
  · rw [hp]; simp; omega
  · rw [hp]
    have hsz : (msg.extract 0 (cur + len)).size = cur + len := by simp; omega
    simp only [Out.bind_ok, expand?, hsz]
    rcases liftName_parse (msg.extract 0 (cur + len)) cur with ⟨p, hp1, _⟩ | ⟨e, hp1, _⟩
    · obtain ⟨f1, f2, f3, f4⟩ := parseC_facts _ _ _ hp1
      rw [hsz] at f1
      rw [hp1]
      simp only [liftName, Out.mapErr, Out.bind_ok]
      rcases liftName_parse (msg.extract 0 (cur + len)) (cur + p.len) with ⟨q, hq1, _⟩ | ⟨e, hq1, _⟩
      · obtain ⟨g1, g2, g3, g4⟩ := parseC_facts _ _ _ hq1
        rw [hsz] at g1
        rw [hq1]
        simp only [Out.bind_ok, csub_ok (cur + len) cur (by omega)]
        have ecl : cur + len - cur = len := by omega
        rw [ecl]
        by_cases hl : len ≠ p.len + q.len
        · rw [if_pos hl]
          refine ⟨by simp, fun r => ?_⟩
          simp; intro _ _; omega
        · rw [if_neg hl]
          simp only [Option.map_some]
          rw [mkRdata_ok _ (by simp; omega)]
          refine ⟨by simp, fun r => ?_⟩
          simp only [Out.ok.injEq, Option.some.injEq, Prod.mk.injEq, List.append_nil, h2, true_and]
          constructor
          · intro e; subst e; simp; omega
          · rintro ⟨e, _⟩
            apply Array.toList_inj.mp
            rw [← e]; simp
      · rw [hq1]; simp
    · rw [hp1]; simp [liftName, Out.mapErr]

theorem readFixedThenName_spec (n : Nat) (hn : n ≤ 20) (msg : Bytes) (cur len : Nat) (hov : cur + len ≤ USIZE_MAX) :
    readFixedThenName n msg cur len ≠ .panic ∧
    ∀ r, readFixedThenName n msg cur len = .ok r ↔
      (cur + len ≤ msg.size ∧
        expand? (msg.extract 0 (cur + len)) [.fixed n, .name] cur = some (r.toList, cur + len)) := by
  unfold readFixedThenName
  rcases prepare_cases msg cur len with ⟨h, _⟩ | ⟨_, h2, hp⟩ | ⟨_, h2, hp⟩
  · omega
  · rw [hp]; simp; omega
  · rw [hp]
    have hsz : (msg.extract 0 (cur + len)).size = cur + len := by simp; omega
    simp only [Out.bind_ok, expand?, hsz, csub_ok (cur + len) cur (by omega)]
    have ecl : cur + len - cur = len := by omega
    rw [ecl]
    by_cases hlt : len < n
    · rw [if_pos hlt]
      have : ¬ cur + n ≤ cur + len := by omega
      simp [this]
    · rw [if_neg hlt]
      have e1 : cur + n ≤ cur + len := by omega
      simp only [e1, if_true]
      rcases liftName_parse (msg.extract 0 (cur + len)) (cur + n) with ⟨p, hp1, _⟩ | ⟨e, hp1, _⟩
      · obtain ⟨f1, f2, f3, f4⟩ := parseC_facts _ _ _ hp1
        rw [hsz] at f1
        rw [hp1]
        simp only [liftName, Out.mapErr, Out.bind_ok]
        by_cases hl : len ≠ p.len + n
        · rw [if_pos hl]
          refine ⟨by simp, fun r => ?_⟩
          simp; intro _ _; omega
        · rw [if_neg hl, slice_ok _ _ _ (by rw [hsz]; omega)]
          simp only [Out.bind_ok, Option.map_some]
          rw [mkRdata_ok _ (by simp; omega)]
          refine ⟨by simp, fun r => ?_⟩
          simp only [Out.ok.injEq, Option.some.injEq, Prod.mk.injEq, List.append_nil, h2, true_and]
          constructor
          · intro e; subst e; simp; omega
          · rintro ⟨e, _⟩
            apply Array.toList_inj.mp
            rw [← e]; simp
      · rw [hp1]; simp [liftName, Out.mapErr]

end QV.Rdata

namespace QV.Rdata
open QV QV.Wire QV.Spec

theorem extract_extract0 (msg : Bytes) (cur len : Nat) (h : cur + len ≤ msg.size) :
    (msg.extract 0 (cur + len)).extract cur (msg.extract 0 (cur + len)).size = msg.extract cur (cur + len) := by
  apply Array.toList_inj.mp
  simp
  have : min (cur + len) msg.size = cur + len := by omega
  rw [this]
  have e : cur + len - cur = len := by omega
  rw [e]

theorem withoutDecompression_spec (v : Bytes → Out RErr Unit) (hv : ∀ r, v r ≠ .panic)
    (msg : Bytes) (cur len : Nat) (hov : cur + len ≤ USIZE_MAX) (hlen : len ≤ 65535) :
    withoutDecompression v msg cur len ≠ .panic ∧
    ∀ r, withoutDecompression v msg cur len = .ok r ↔
      (cur + len ≤ msg.size ∧ r = msg.extract cur (cur + len) ∧ v r = .ok ()) := by
  unfold withoutDecompression
  rcases prepare_cases msg cur len with ⟨h, _⟩ | ⟨_, h2, hp⟩ | ⟨_, h2, hp⟩
  · omega
  · rw [hp]; simp; omega
  · rw [hp]
    have hsz : (msg.extract 0 (cur + len)).size = cur + len := by simp; omega
    rw [Out.bind_ok, sliceFrom_ok _ _ (by rw [hsz]; omega), Out.bind_ok, extract_extract0 msg cur len h2]
    rw [mkRdata_ok _ (by simp; omega)]
    simp only [Out.bind_ok]
    have := hv (msg.extract cur (cur + len))
    cases hvr : v (msg.extract cur (cur + len)) with
    | ok u =>
      refine ⟨by simp, fun r => ?_⟩
      simp only [Out.bind_ok, Out.ok.injEq, h2, true_and]
      constructor
      · intro e; subst e; exact ⟨rfl, hvr⟩
      · rintro ⟨e, _⟩; exact e.symm
    | err e =>
      refine ⟨by simp, fun r => ?_⟩
      simp only [Out.bind_err, reduceCtorEq, false_iff]
      rintro ⟨_, e', h'⟩
      subst e'; rw [hvr] at h'; cases h'
    | panic => exact absurd hvr this


/-- `SpecRead` with the format made explicit -/
def SpecReadFmt (f : Fmt) (msg : Bytes) (cursor rdlength : Nat) (r : List UInt8) : Prop :=
  cursor + rdlength ≤ msg.size ∧
  match layoutOf f with
  | some l => Expands (msg.extract 0 (cursor + rdlength)) l cursor r (cursor + rdlength)
  | none => r = (msg.extract cursor (cursor + rdlength)).toList ∧ FmtSpec f r

theorem readFmt_spec (f : Fmt) (msg : Bytes) (cur len : Nat) (hov : cur + len ≤ USIZE_MAX)
    (hlen : layoutOf f = none → len ≤ 65535) :
    readFmt f msg cur len ≠ .panic ∧
    ∀ r, readFmt f msg cur len = .ok r ↔ SpecReadFmt f msg cur len r.toList := by
  have nonlayout : ∀ g : Fmt, layoutOf g = none → len ≤ 65535 →
      withoutDecompression (validateFmt g) msg cur len ≠ .panic ∧
      ∀ r, withoutDecompression (validateFmt g) msg cur len = .ok r ↔ SpecReadFmt g msg cur len r.toList := by
    intro g hg hlen'
    obtain ⟨h1, h2⟩ := withoutDecompression_spec (validateFmt g) (validateFmt_no_panic g) msg cur len hov hlen'
    refine ⟨h1, fun r => ?_⟩
    rw [h2 r]
    unfold SpecReadFmt
    rw [hg]
    simp only [validateFmt_iff, Array.toList_inj]
  cases f
  case name =>
    obtain ⟨h1, h2⟩ := readNameRdata_spec msg cur len hov
    exact ⟨h1, fun r => by rw [show readFmt .name = readNameRdata from rfl, h2 r, expand?_iff]; rfl⟩
  case chA =>
    obtain ⟨h1, h2⟩ := readChA_spec msg cur len hov
    exact ⟨h1, fun r => by rw [show readFmt .chA = readChA from rfl, h2 r, expand?_iff]; rfl⟩
  case soa =>
    obtain ⟨h1, h2⟩ := readSoa_spec msg cur len hov
    exact ⟨h1, fun r => by rw [show readFmt .soa = readSoa from rfl, h2 r, expand?_iff]; rfl⟩
  case minfo =>
    obtain ⟨h1, h2⟩ := readMinfo_spec msg cur len hov
    exact ⟨h1, fun r => by rw [show readFmt .minfo = readMinfo from rfl, h2 r, expand?_iff]; rfl⟩
  case mx =>
    obtain ⟨h1, h2⟩ := readFixedThenName_spec 2 (by omega) msg cur len hov
    exact ⟨h1, fun r => by rw [show readFmt .mx = readFixedThenName 2 from rfl, h2 r, expand?_iff]; rfl⟩
  case srv =>
    obtain ⟨h1, h2⟩ := readFixedThenName_spec 6 (by omega) msg cur len hov
    exact ⟨h1, fun r => by rw [show readFmt .srv = readFixedThenName 6 from rfl, h2 r, expand?_iff]; rfl⟩
  all_goals exact nonlayout _ rfl (hlen rfl)


theorem prepare_overflow (msg : Bytes) (cur len : Nat) (h : cur + len > USIZE_MAX) :
    prepareToReadRdata msg cur len = .panic := by
  simp [prepareToReadRdata, h]

theorem readFmt_overflow (f : Fmt) (msg : Bytes) (cur len : Nat) (h : cur + len > USIZE_MAX) :
    readFmt f msg cur len = .panic := by
  have hp := prepare_overflow msg cur len h
  cases f <;>
    simp [readFmt, readNameRdata, readChA, readSoa, readMinfo, readMx, readInSrv, readFixedThenName,
      withoutDecompression, hp]

theorem withoutDecompression_long (v : Bytes → Out RErr Unit) (msg : Bytes) (cur len : Nat) (h : len > 65535)
    (r : Bytes) : withoutDecompression v msg cur len ≠ .ok r := by
  unfold withoutDecompression
  rcases prepare_cases msg cur len with ⟨_, hp⟩ | ⟨_, h2, hp⟩ | ⟨_, h2, hp⟩
  · rw [hp]; simp
  · rw [hp]; simp
  · rw [hp]
    have hsz : (msg.extract 0 (cur + len)).size = cur + len := by simp; omega
    rw [Out.bind_ok, sliceFrom_ok _ _ (by rw [hsz]; omega), Out.bind_ok, extract_extract0 msg cur len h2]
    have : mkRdata (msg.extract cur (cur + len)) = .panic := by
      unfold mkRdata RDATA_MAX
      have : (msg.extract cur (cur + len)).size > 65535 := by simp; omega
      rw [if_pos this]
    rw [this]; simp

/-- whenever `read` succeeds, the two preconditions of `readFmt_spec` held -/
theorem readFmt_ok_bounds (f : Fmt) (msg : Bytes) (cur len : Nat) (r : Bytes) (h : readFmt f msg cur len = .ok r) :
    cur + len ≤ USIZE_MAX ∧ (layoutOf f = none → len ≤ 65535) := by
  constructor
  · apply Decidable.byContradiction; intro hc
    rw [readFmt_overflow f msg cur len (by omega)] at h; cases h
  · intro hl
    apply Decidable.byContradiction; intro hc
    have hlong : len > 65535 := by omega
    cases f <;> simp [layoutOf] at hl <;> exact withoutDecompression_long _ msg cur len hlong r h

/-! ### spec-level facts about expansion -/

/-- the expansion of the fields of a layout is well-formed RDATA of that layout -/
theorem expands_splits {buf : Bytes} {l : List Field} {pos : Nat} {r : List UInt8} {e : Nat}
    (h : Expands buf l pos r e) : ∃ fs, Splits l r fs := by
  induction h with
  | nil => exact ⟨[], Splits.nil⟩
  | name hd tl ih =>
    obtain ⟨fs, hfs⟩ := ih
    obtain ⟨hdec, hlen⟩ := hd
    exact ⟨_, Splits.name ((wireName_iff _).mpr ⟨_, decodes_lname hdec, hlen⟩) hfs⟩
  | @fixed n ls pos out e hin tl ih =>
    obtain ⟨fs, hfs⟩ := ih
    exact ⟨_, Splits.fixed (by simp; omega) hfs⟩

/-- well-formed RDATA lying uncompressed in a buffer is its own expansion -/
theorem splits_expands {l : List Field} {R : List UInt8} {fs : List (List UInt8)} (h : Splits l R fs) :
    ∀ (buf : Bytes) (pos : Nat), (buf.extract pos (pos + R.length)).toList = R → pos + R.length ≤ buf.size →
      Expands buf l pos R (pos + R.length) := by
  induction h with
  | nil => intro buf pos _ _; simpa using Expands.nil
  | @name w rest ls fs hw tl ih =>
    intro buf pos hx hs
    simp only [List.length_append] at hx hs
    obtain ⟨n, hl, h255⟩ := (wireName_iff w).mp hw
    have hsplit := extract_split buf pos (pos + w.length) (pos + (w.length + rest.length)) (by omega) (by omega)
    rw [hx] at hsplit
    obtain ⟨e1, e2⟩ := List.append_inj hsplit (by simp; omega)
    have hd : DecodesName buf pos w n w.length := ⟨lname_decodes hl buf pos pos e1.symm (by omega), h255⟩
    have e3 : pos + (w ++ rest).length = pos + w.length + rest.length := by simp; omega
    rw [e3]
    have e4 : pos + w.length + rest.length = pos + (w.length + rest.length) := by omega
    exact Expands.name hd (ih buf (pos + w.length) (by rw [e4]; exact e2.symm) (by omega))
  | @fixed n f rest ls fs hf tl ih =>
    intro buf pos hx hs
    simp only [List.length_append] at hx hs
    have hsplit := extract_split buf pos (pos + n) (pos + (f.length + rest.length)) (by omega) (by omega)
    rw [hx] at hsplit
    obtain ⟨e1, e2⟩ := List.append_inj hsplit (by simp; omega)
    have e3 : pos + (f ++ rest).length = pos + n + rest.length := by simp; omega
    rw [e3, e1]
    have e4 : pos + n + rest.length = pos + (f.length + rest.length) := by omega
    exact Expands.fixed (by omega) (ih buf (pos + n) (by rw [e4]; exact e2.symm) (by omega))



/-! ### components -/

def compTypesFmt : Fmt → List CompType
  | .name => [("C", 0)]
  | .chA => [("U", 0)]
  | .soa => [("C", 0), ("C", 0)]
  | .minfo => [("C", 0), ("C", 0)]
  | .mx => [("F", 2), ("C", 0)]
  | .srv => [("F", 6), ("U", 0)]
  | _ => []

theorem components_eq (c t : Nat) (r : Bytes) : components c t r = componentsAux (compTypesFmt (fmtOf c t)) r := by
  unfold components fmtOf
  simp only [lookup, Gen.rdataComponentsArms, Gen.rdataComponentsDefault]
  simp only [List.contains_cons, List.contains_nil, Bool.or_false, beq_iff_eq, Bool.and_true, Bool.and_eq_true, Bool.or_eq_true]
  dispatch_cases t c with (simp_all [componentTypesOf, Gen.rdataComponentTypes, compTypesFmt])

theorem parseU_of_prefix (b : Bytes) (w rest : List UInt8) (hb : b.toList = w ++ rest) (hw : WireName w) :
    ∃ n, parseUncompressed b false = .ok ⟨w, n, w.length⟩ := by
  obtain ⟨n, hl, h255⟩ := (wireName_iff w).mp hw
  refine ⟨n, ?_⟩
  unfold parseUncompressed
  rw [uncompAux_track b 0 0 (by omega) (by omega)]
  rw [(uncompAux_ok_iff b w.length n).mpr ⟨w, rest, hb, hl, rfl, h255⟩]
  simp [hb]

/-- the components the writer is handed for well-formed RDATA of each format (`fs` = its fields) -/
def tagComps : Fmt → List (List UInt8) → List Comp
  | .name, [a] => [.compressibleName a]
  | .chA, [a, b] => [.uncompressibleName a, .other b]
  | .soa, [a, b, c] => [.compressibleName a, .compressibleName b, .other c]
  | .minfo, [a, b] => [.compressibleName a, .compressibleName b]
  | .mx, [a, b] => [.other a, .compressibleName b]
  | .srv, [a, b] => [.other a, .uncompressibleName b]
  | _, _ => []

theorem drop_toArray' (b : Bytes) (w rest : List UInt8) (hb : b.toList = w ++ rest) :
    b.extract w.length b.size = rest.toArray := by
  apply Array.toList_inj.mp
  rw [toList_extract_from, hb]; simp

theorem wireName_len_le (w rest : List UInt8) (b : Bytes) (hb : b.toList = w ++ rest) : w.length ≤ b.size := by
  have := congrArg List.length hb; simp at this; omega

theorem componentsAux_nil (r : Bytes) :
    componentsAux [] r = .ok (if r.size = 0 then [] else [.other r.toList]) := by
  unfold componentsAux; split <;> simp_all

theorem components_name (r : Bytes) (fs : List (List UInt8)) (h : Splits [.name] r.toList fs) :
    componentsAux (compTypesFmt .name) r = .ok (tagComps .name fs) := by
  simp only [splits_name_iff, splits_nil_iff] at h
  obtain ⟨w, rest, fs', hr, rfl, hw, rfl, rfl⟩ := h
  obtain ⟨n, hp⟩ := parseU_of_prefix r w [] hr hw
  have hle := wireName_len_le w [] r hr
  simp only [compTypesFmt, componentsAux, hp, liftName, Out.mapErr, Out.bind_ok, sliceFrom_ok r _ hle,
    drop_toArray' r w [] hr, tagComps]
  simp


theorem components_chA (r : Bytes) (fs : List (List UInt8)) (h : Splits [.name, .fixed 2] r.toList fs) :
    componentsAux (compTypesFmt .chA) r = .ok (tagComps .chA fs) := by
  simp only [splits_name_iff, splits_fixed_iff, splits_nil_iff] at h
  obtain ⟨w, rest, fs', hr, rfl, hw, f, rest2, fs2, rfl, rfl, hf, rfl, rfl⟩ := h
  obtain ⟨n, hp⟩ := parseU_of_prefix r w _ hr hw
  have hle := wireName_len_le w _ r hr
  simp only [compTypesFmt, componentsAux, hp, liftName, Out.mapErr, Out.bind_ok, sliceFrom_ok r _ hle,
    drop_toArray' r w _ hr, tagComps]
  simp [hf]

theorem components_two_names (r : Bytes) (tail : List Field) (fs : List (List UInt8))
    (h : Splits (.name :: .name :: tail) r.toList fs) :
    ∃ a b rest fs', fs = a :: b :: fs' ∧ r.toList = a ++ (b ++ rest) ∧ Splits tail rest fs' ∧
      componentsAux [("C", 0), ("C", 0)] r =
        .ok (.compressibleName a :: .compressibleName b :: (if rest.length = 0 then [] else [.other rest])) := by
  simp only [splits_name_iff] at h
  obtain ⟨w, rest, fs', hr, rfl, hw, w2, rest2, fs2, rfl, rfl, hw2, htl⟩ := h
  refine ⟨w, w2, rest2, fs2, rfl, hr, htl, ?_⟩
  obtain ⟨n, hp⟩ := parseU_of_prefix r w _ hr hw
  have hle := wireName_len_le w _ r hr
  obtain ⟨n2, hp2⟩ := parseU_of_prefix (w2 ++ rest2).toArray w2 rest2 (by simp) hw2
  have hle2 : w2.length ≤ (w2 ++ rest2).toArray.size := by simp
  simp only [componentsAux, hp, liftName, Out.mapErr, Out.bind_ok, sliceFrom_ok r _ hle,
    drop_toArray' r w _ hr, hp2, sliceFrom_ok _ _ hle2, drop_toArray' (w2 ++ rest2).toArray w2 rest2 (by simp)]
  by_cases h0 : rest2.length = 0
  · simp [h0]
  · simp [h0]

theorem components_soa (r : Bytes) (fs : List (List UInt8)) (h : Splits [.name, .name, .fixed 20] r.toList fs) :
    componentsAux (compTypesFmt .soa) r = .ok (tagComps .soa fs) := by
  obtain ⟨a, b, rest, fs', rfl, _, htl, hc⟩ := components_two_names r _ fs h
  simp only [splits_fixed_iff, splits_nil_iff] at htl
  obtain ⟨f, rest2, fs2, rfl, rfl, hf, rfl, rfl⟩ := htl
  simp only [compTypesFmt, hc, tagComps]
  simp [hf]

theorem components_minfo (r : Bytes) (fs : List (List UInt8)) (h : Splits [.name, .name] r.toList fs) :
    componentsAux (compTypesFmt .minfo) r = .ok (tagComps .minfo fs) := by
  obtain ⟨a, b, rest, fs', rfl, _, htl, hc⟩ := components_two_names r _ fs h
  simp only [splits_nil_iff] at htl
  obtain ⟨rfl, rfl⟩ := htl
  simp only [compTypesFmt, hc, tagComps]
  simp

theorem components_fixed_name (k : Nat) (tag : String) (htag : tag = "C" ∨ tag = "U") (r : Bytes)
    (fs : List (List UInt8)) (h : Splits [.fixed k, .name] r.toList fs) :
    ∃ f w, fs = [f, w] ∧ f.length = k ∧
      componentsAux [("F", k), (tag, 0)] r =
        .ok [.other f, if tag = "C" then .compressibleName w else .uncompressibleName w] := by
  simp only [splits_name_iff, splits_fixed_iff, splits_nil_iff] at h
  obtain ⟨f, rest, fs', hr, rfl, hf, w, rest2, fs2, rfl, rfl, hw, rfl, rfl⟩ := h
  refine ⟨f, w, rfl, hf, ?_⟩
  have hk : k ≤ r.size := by have := congrArg List.length hr; simp at this; omega
  have hx : r.extract k r.size = (w ++ []).toArray := by
    apply Array.toList_inj.mp
    rw [toList_extract_from, hr, ← hf]; simp
  obtain ⟨n, hp⟩ := parseU_of_prefix (w ++ []).toArray w [] (by simp) hw
  have hle2 : w.length ≤ (w ++ []).toArray.size := by simp
  have hne : ¬ (tag = "F") := by rcases htag with h | h <;> (subst h; decide)
  have hf0 : (r.extract 0 k).toList = f := by simp [hr, ← hf]
  simp only [componentsAux, hk, if_true, sliceFrom_ok r k hk, Out.bind_ok, hx, hne, if_false, htag, hp, liftName,
    Out.mapErr, sliceFrom_ok _ _ hle2, drop_toArray' (w ++ []).toArray w [] (by simp), hf0]
  simp

theorem components_mx (r : Bytes) (fs : List (List UInt8)) (h : Splits [.fixed 2, .name] r.toList fs) :
    componentsAux (compTypesFmt .mx) r = .ok (tagComps .mx fs) := by
  obtain ⟨f, w, rfl, _, hc⟩ := components_fixed_name 2 "C" (Or.inl rfl) r fs h
  simp only [compTypesFmt, hc, tagComps]; simp

theorem components_srv (r : Bytes) (fs : List (List UInt8)) (h : Splits [.fixed 6, .name] r.toList fs) :
    componentsAux (compTypesFmt .srv) r = .ok (tagComps .srv fs) := by
  obtain ⟨f, w, rfl, _, hc⟩ := components_fixed_name 6 "U" (Or.inr rfl) r fs h
  simp only [compTypesFmt, hc, tagComps]; simp


/-! ### what the reader needs from the writer -/

/-- the message holds the components `comps` from `pos` to `e`: each name in *some* encoding that
    decodes (RFC 1035 §4.1.4) to it, everything else verbatim -/
inductive Written (buf : Bytes) : List Comp → Nat → Nat → Prop
  | nil {pos} : Written buf [] pos pos
  | cname {w n k rest pos e} (hd : DecodesName buf pos w n k) (tl : Written buf rest (pos + k) e) :
      Written buf (.compressibleName w :: rest) pos e
  | uname {w n rest pos e} (hd : DecodesName buf pos w n w.length) (tl : Written buf rest (pos + w.length) e) :
      Written buf (.uncompressibleName w :: rest) pos e
  | other {o rest pos e} (hin : pos + o.length ≤ buf.size) (ho : (buf.extract pos (pos + o.length)).toList = o)
      (tl : Written buf rest (pos + o.length) e) : Written buf (.other o :: rest) pos e

/-- `comps` are the fields `fs` of layout `l`, names tagged either way -/
inductive Tagged : List Field → List (List UInt8) → List Comp → Prop
  | nil : Tagged [] [] []
  | cname {ls fs cs w} (tl : Tagged ls fs cs) : Tagged (.name :: ls) (w :: fs) (.compressibleName w :: cs)
  | uname {ls fs cs w} (tl : Tagged ls fs cs) : Tagged (.name :: ls) (w :: fs) (.uncompressibleName w :: cs)
  | fixed {ls fs cs f n} (hf : f.length = n) (tl : Tagged ls fs cs) :
      Tagged (.fixed n :: ls) (f :: fs) (.other f :: cs)

theorem written_expands {l : List Field} {fs : List (List UInt8)} {cs : List Comp} (ht : Tagged l fs cs) :
    ∀ {buf : Bytes} {pos e : Nat}, Written buf cs pos e → Expands buf l pos fs.flatten e := by
  induction ht with
  | nil => intro buf pos e hw; cases hw; exact Expands.nil
  | cname tl ih =>
    intro buf pos e hw
    cases hw with
    | cname hd tl' => simpa using Expands.name hd (ih tl')
  | uname tl ih =>
    intro buf pos e hw
    cases hw with
    | uname hd tl' => simpa using Expands.name hd (ih tl')
  | @fixed ls fs cs f n hf tl ih =>
    intro buf pos e hw
    cases hw with
    | other hin ho tl' =>
      subst hf
      have := Expands.fixed hin (ih tl')
      rw [ho] at this
      simpa using this

theorem splits_flatten {l : List Field} {R : List UInt8} {fs : List (List UInt8)} (h : Splits l R fs) :
    fs.flatten = R := split?_flatten l R fs ((split?_iff l R fs).mpr h)

theorem tagged_tagComps (f : Fmt) (l : List Field) (hl : layoutOf f = some l) (R : List UInt8)
    (fs : List (List UInt8)) (h : Splits l R fs) : Tagged l fs (tagComps f fs) := by
  cases f <;> simp only [layoutOf, Option.some.injEq, reduceCtorEq] at hl <;> subst hl <;>
    simp only [splits_name_iff, splits_fixed_iff, splits_nil_iff] at h
  · obtain ⟨w, rest, fs', _, rfl, _, rfl, rfl⟩ := h
    exact Tagged.cname Tagged.nil
  · obtain ⟨w, rest, fs', _, rfl, _, f, rest2, fs2, _, rfl, hf, _, rfl⟩ := h
    exact Tagged.uname (Tagged.fixed hf Tagged.nil)
  · obtain ⟨w, rest, fs', _, rfl, _, w2, rest2, fs2, _, rfl, _, f, rest3, fs3, _, rfl, hf, _, rfl⟩ := h
    exact Tagged.cname (Tagged.cname (Tagged.fixed hf Tagged.nil))
  · obtain ⟨w, rest, fs', _, rfl, _, w2, rest2, fs2, _, rfl, _, _, rfl⟩ := h
    exact Tagged.cname (Tagged.cname Tagged.nil)
  · obtain ⟨f, rest, fs', _, rfl, hf, w, rest2, fs2, _, rfl, _, _, rfl⟩ := h
    exact Tagged.fixed hf (Tagged.cname Tagged.nil)
  · obtain ⟨f, rest, fs', _, rfl, hf, w, rest2, fs2, _, rfl, _, _, rfl⟩ := h
    exact Tagged.fixed hf (Tagged.uname Tagged.nil)

/-- `Rdata::components` on well-formed RDATA of a name-bearing format: its fields, tagged -/
theorem componentsFmt_valid (f : Fmt) (l : List Field) (hl : layoutOf f = some l) (r : Bytes)
    (fs : List (List UInt8)) (h : Splits l r.toList fs) :
    componentsAux (compTypesFmt f) r = .ok (tagComps f fs) := by
  cases f <;> simp only [layoutOf, Option.some.injEq, reduceCtorEq] at hl <;> subst hl
  · exact components_name r fs h
  · exact components_chA r fs h
  · exact components_soa r fs h
  · exact components_minfo r fs h
  · exact components_mx r fs h
  · exact components_srv r fs h

theorem extract_extract_prefix (msg : Bytes) (e i j : Nat) (hj : j ≤ e) (he : e ≤ msg.size) :
    ((msg.extract 0 e).extract i j).toList = (msg.extract i j).toList := by
  simp
  omega


end QV.Rdata
