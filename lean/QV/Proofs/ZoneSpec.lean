/-
  QV.Proofs.ZoneSpec — facts about the flat-list specification `QV.Spec.Zone` alone (no tree):
  Bool ↔ Prop forms, RRsets of a list and of a list extended by one record, sortedness of
  `rrsetsAt`, upward closure of existence.
-/
import QV.Spec.Zone

namespace QV.Spec.Zone
open QV QV.NameL QV.Zone

/-! ### Bool ↔ Prop -/

theorem nameExists_iff (z : SZone) (n : Name) : nameExists z n = true ↔ NameExists z n := by
  simp [nameExists, NameExists, List.any_eq_true]

theorem owns_iff (z : SZone) (n : Name) (t : Nat) : owns z n t = true ↔ Owns z n t := by
  simp [owns, Owns, List.any_eq_true]

theorem suffix_antisymm {a b : Name} (h1 : a <:+ b) (h2 : b <:+ a) : a = b :=
  h1.eq_of_length_le h2.length_le

theorem Owns.exists {z : SZone} {n : Name} {t : Nat} (h : Owns z n t) : NameExists z n := by
  obtain ⟨r, hr, ho, _⟩ := h
  exact Or.inr ⟨r, hr, by rw [ho]; exact List.suffix_refl _⟩

/-- existence is upward closed within the zone -/
theorem NameExists.up {z : SZone} {n m : Name} (h : NameExists z n) (hm : m <:+ n) (ha : z.apex <:+ m) :
    NameExists z m := by
  rcases h with h | ⟨r, hr, hs⟩
  · subst h; exact Or.inl (suffix_antisymm hm ha)
  · exact Or.inr ⟨r, hr, hm.trans hs⟩

/-! ### RRsets -/

theorem findType_eq (l : List Rrset) (t : Nat) :
    findType l t = (l.find? (fun s => s.rtype == t)) := rfl

theorem rrset_eq_none (z : SZone) (n : Name) (t : Nat) : rrset z n t = none ↔ ¬ Owns z n t := by
  unfold rrset Owns
  split
  · rename_i h
    simp only [true_iff]
    intro ⟨r, hr, ho, ht⟩
    have : r ∈ z.recs.filter (fun r => r.owner == n && r.rtype == t) := by simp [hr, ho, ht]
    rw [h] at this; simp at this
  · rename_i r rs h
    simp only [reduceCtorEq, false_iff]
    have : r ∈ z.recs.filter (fun r => r.owner == n && r.rtype == t) := by rw [h]; simp
    simp at this
    exact fun hn => hn ⟨r, this.1, this.2.1, this.2.2⟩

theorem rrset_rtype {z : SZone} {n : Name} {t : Nat} {x : Rrset} (h : rrset z n t = some x) : x.rtype = t := by
  unfold rrset at h
  split at h
  · cases h
  · cases h; rfl

theorem rrset_some_owns {z : SZone} {n : Name} {t : Nat} {x : Rrset} (h : rrset z n t = some x) : Owns z n t := by
  have : rrset z n t ≠ none := by rw [h]; simp
  exact Classical.not_not.mp (fun hn => this ((rrset_eq_none z n t).mpr hn))

/-- the RRset after appending one record to the list -/
theorem rrset_append (z : SZone) (r : Rec) (n : Name) (t : Nat) :
    rrset { z with recs := z.recs ++ [r] } n t =
      if r.owner = n ∧ r.rtype = t then
        some (match rrset z n t with
              | some x => ⟨t, x.ttl, x.rdatas ++ [r.rdata]⟩
              | none => ⟨t, r.ttl, [r.rdata]⟩)
      else rrset z n t := by
  unfold rrset
  simp only [List.filter_append]
  by_cases h : r.owner = n ∧ r.rtype = t
  · have hf : List.filter (fun r => r.owner == n && r.rtype == t) [r] = [r] := by simp [h.1, h.2]
    rw [hf, if_pos h]
    cases List.filter (fun r => r.owner == n && r.rtype == t) z.recs with
    | nil => simp
    | cons a rest => simp
  · have hf : List.filter (fun r => r.owner == n && r.rtype == t) [r] = [] := by
      simp only [List.filter_cons, List.filter_nil]
      split
      · rename_i hh; simp at hh; exact absurd hh h
      · rfl
    rw [hf, if_neg h, List.append_nil]

/-- rdatas of an RRset = the RDATAs of its records, in order -/
theorem rrset_rdatas {z : SZone} {n : Name} {t : Nat} {x : Rrset} (h : rrset z n t = some x) :
    x.rdatas = (z.recs.filter (fun r => r.owner == n && r.rtype == t)).map (·.rdata) := by
  unfold rrset at h
  split at h
  · cases h
  · rename_i r rs hf; cases h; rw [hf]

/-- the TTL of an RRset is the TTL of its first record, a member of the list -/
theorem rrset_ttl {z : SZone} {n : Name} {t : Nat} {x : Rrset} (h : rrset z n t = some x) :
    ∃ r ∈ z.recs, r.owner = n ∧ r.rtype = t ∧ r.ttl = x.ttl := by
  unfold rrset at h
  split at h
  · cases h
  · rename_i r rs hf
    cases h
    have : r ∈ z.recs.filter (fun r => r.owner == n && r.rtype == t) := by rw [hf]; simp
    simp at this
    exact ⟨r, this.1, this.2.1, this.2.2, rfl⟩

/-! ### `typesAt`, `rrsetsAt` -/

def SortedN : List Nat → Prop
  | [] => True
  | a :: rest => (∀ b ∈ rest, a < b) ∧ SortedN rest

theorem mem_insertType (t u : Nat) (l : List Nat) : u ∈ insertType t l ↔ u = t ∨ u ∈ l := by
  induction l with
  | nil => simp [insertType]
  | cons a rest ih =>
    simp only [insertType]
    split
    · simp
    · split
      · rename_i h; subst h; simp
      · simp [ih]; constructor
        · rintro (h | h | h) <;> simp [h]
        · rintro (h | h | h) <;> simp [h]

theorem sorted_insertType (t : Nat) (l : List Nat) (h : SortedN l) : SortedN (insertType t l) := by
  induction l with
  | nil => simp [insertType, SortedN]
  | cons a rest ih =>
    simp only [insertType]
    split
    · rename_i hlt
      refine ⟨?_, h⟩
      intro b hb
      simp at hb
      rcases hb with hb | hb
      · subst hb; exact hlt
      · exact Nat.lt_trans hlt (h.1 b hb)
    · split
      · exact h
      · rename_i h1 h2
        refine ⟨?_, ih h.2⟩
        intro b hb
        rw [mem_insertType] at hb
        rcases hb with hb | hb
        · subst hb; omega
        · exact h.1 b hb

theorem sorted_typesAt (z : SZone) (n : Name) : SortedN (typesAt z n) := by
  unfold typesAt
  induction (List.map (fun x => x.rtype) (List.filter (fun r => r.owner == n) z.recs)) with
  | nil => simp [SortedN]
  | cons a rest ih => simp only [List.foldr_cons]; exact sorted_insertType a _ ih

theorem mem_typesAt (z : SZone) (n : Name) (t : Nat) : t ∈ typesAt z n ↔ Owns z n t := by
  unfold typesAt Owns
  have : ∀ l : List Nat, t ∈ l.foldr insertType [] ↔ t ∈ l := by
    intro l
    induction l with
    | nil => simp
    | cons a rest ih => simp only [List.foldr_cons, mem_insertType, ih]; simp
  rw [this]
  simp only [List.mem_map, List.mem_filter, beq_iff_eq]
  constructor
  · rintro ⟨r, ⟨hr, ho⟩, ht⟩; exact ⟨r, hr, ho, ht⟩
  · rintro ⟨r, hr, ho, ht⟩; exact ⟨r, ⟨hr, ho⟩, ht⟩

/-! ### the tests of `specAdd` in terms of the RRset -/

/-- all records of an RRset carry the same TTL (RFC 2181 §5.2) -/
def TtlUniform (z : SZone) : Prop :=
  ∀ r ∈ z.recs, ∀ r' ∈ z.recs, r.owner = r'.owner → r.rtype = r'.rtype → r.ttl = r'.ttl

theorem ttlAny_iff (z : SZone) (hu : TtlUniform z) (n : Name) (t ttl : Nat) :
    z.recs.any (fun r' => r'.owner == n && r'.rtype == t && r'.ttl != ttl) = true ↔
      ∃ x, rrset z n t = some x ∧ x.ttl ≠ ttl := by
  simp only [List.any_eq_true, Bool.and_eq_true, beq_iff_eq, bne_iff_ne]
  constructor
  · rintro ⟨r', hr', ⟨ho, ht⟩, hne⟩
    cases hx : rrset z n t with
    | none => exact absurd ⟨r', hr', ho, ht⟩ ((rrset_eq_none z n t).mp hx)
    | some x =>
      obtain ⟨r0, hr0, ho0, ht0, httl⟩ := rrset_ttl hx
      refine ⟨x, rfl, ?_⟩
      rw [← httl, hu r0 hr0 r' hr' (by rw [ho0, ho]) (by rw [ht0, ht])]
      exact hne
  · rintro ⟨x, hx, hne⟩
    obtain ⟨r0, hr0, ho0, ht0, httl⟩ := rrset_ttl hx
    exact ⟨r0, hr0, ⟨ho0, ht0⟩, by rw [httl]; exact hne⟩

theorem dupAny_eq (z : SZone) (n : Name) (t : Nat) (f : Rdata → Bool) :
    z.recs.any (fun r' => r'.owner == n && r'.rtype == t && f r'.rdata) =
      match rrset z n t with
      | some x => x.rdatas.any f
      | none => false := by
  have key : z.recs.any (fun r' => r'.owner == n && r'.rtype == t && f r'.rdata) =
      ((z.recs.filter (fun r => r.owner == n && r.rtype == t)).map (·.rdata)).any f := by
    induction z.recs with
    | nil => rfl
    | cons a rest ih =>
      simp only [List.any_cons, List.filter_cons]
      by_cases h : (a.owner == n && a.rtype == t) = true
      · simp only [h, if_true, List.map_cons, List.any_cons, Bool.true_and]; rw [ih]
      · have h' : (a.owner == n && a.rtype == t) = false := by simpa using h
        simp only [h', Bool.false_and, Bool.false_or]; rw [ih]; simp
  rw [key]
  cases hx : rrset z n t with
  | some x => simp only [rrset_rdatas hx]
  | none =>
    unfold rrset at hx
    split at hx
    · rename_i hf; rw [hf]; rfl
    · cases hx

/-! ### the executable lookup satisfies the declarative specification -/

theorem mem_tails_iff {e n : Name} : e ∈ tails n ↔ e <:+ n := by
  induction n with
  | nil => simp [tails]
  | cons l n ih =>
    simp only [tails, List.mem_cons, ih, List.suffix_cons_iff]

theorem tails_pairwise (n : Name) : (tails n).Pairwise (fun a b => b.length < a.length) := by
  induction n with
  | nil => simp [tails]
  | cons l n ih =>
    simp only [tails, List.pairwise_cons]
    refine ⟨?_, ih⟩
    intro a ha
    have := (mem_tails_iff.mp ha).length_le
    simp; omega

/-- first match in a list sorted by strictly decreasing length: nothing longer matches -/
theorem find?_longest {l : List Name} (hp : l.Pairwise (fun a b => b.length < a.length)) {f : Name → Bool} {c : Name}
    (h : l.find? f = some c) : c ∈ l ∧ f c = true ∧ ∀ e ∈ l, f e = true → e.length ≤ c.length := by
  rw [List.find?_eq_some_iff_append] at h
  obtain ⟨hfc, as, bs, hl, has⟩ := h
  refine ⟨by rw [hl]; simp, hfc, ?_⟩
  intro e he hfe
  rw [hl] at he hp
  simp only [List.mem_append, List.mem_cons] at he
  rcases he with he | he | he
  · have := has e he; simp [hfe] at this
  · subst he; exact Nat.le_refl _
  · rw [List.pairwise_append] at hp
    have := (List.pairwise_cons.mp hp.2.1).1 e he
    omega

theorem find?_shortest {l : List Name} (hp : l.Pairwise (fun a b => a.length < b.length)) {f : Name → Bool} {c : Name}
    (h : l.find? f = some c) : c ∈ l ∧ f c = true ∧ ∀ e ∈ l, f e = true → c.length ≤ e.length := by
  rw [List.find?_eq_some_iff_append] at h
  obtain ⟨hfc, as, bs, hl, has⟩ := h
  refine ⟨by rw [hl]; simp, hfc, ?_⟩
  intro e he hfe
  rw [hl] at he hp
  simp only [List.mem_append, List.mem_cons] at he
  rcases he with he | he | he
  · have := has e he; simp [hfe] at this
  · subst he; exact Nat.le_refl _
  · rw [List.pairwise_append] at hp
    have := (List.pairwise_cons.mp hp.2.1).1 e he
    omega

theorem mem_pathBelow {apex n c : Name} : c ∈ pathBelow apex n ↔ c <:+ n ∧ apex <:+ c ∧ c ≠ apex := by
  simp [pathBelow, mem_tails_iff]

theorem pathBelow_pairwise (apex n : Name) : (pathBelow apex n).Pairwise (fun a b => a.length < b.length) := by
  unfold pathBelow
  rw [List.pairwise_reverse]
  exact (tails_pairwise n).filter _

theorem isDelegation_iff {z : SZone} {n c : Name} (hcn : c <:+ n) :
    IsDelegation z c ↔ c ∈ pathBelow z.apex n ∧ owns z c NS = true := by
  rw [mem_pathBelow, owns_iff]
  unfold IsDelegation
  constructor
  · rintro ⟨h1, h2, h3⟩; exact ⟨⟨hcn, h2, h1⟩, h3⟩
  · rintro ⟨⟨_, h2, h1⟩, h3⟩; exact ⟨h1, h2, h3⟩

theorem specCut_some {z : SZone} {n c : Name} (h : specCut z n = some c) : IsCut z n c := by
  obtain ⟨hm, hf, hmin⟩ := find?_shortest (pathBelow_pairwise z.apex n) h
  have hcn := (mem_pathBelow.mp hm).1
  refine ⟨(isDelegation_iff hcn).mpr ⟨hm, hf⟩, hcn, ?_⟩
  intro c' hd hc'n
  obtain ⟨hm', hf'⟩ := (isDelegation_iff hc'n).mp hd
  exact List.suffix_of_suffix_length_le hcn hc'n (hmin c' hm' hf')

theorem specCut_none {z : SZone} {n : Name} (h : specCut z n = none) : ¬ ∃ c, IsCut z n c := by
  rintro ⟨c, hd, hcn, _⟩
  obtain ⟨hm, hf⟩ := (isDelegation_iff hcn).mp hd
  have := List.find?_eq_none.mp h c hm
  exact this hf

theorem closestEncloser_some {z : SZone} {n ce : Name} (hz : z.apex <:+ n) (h : closestEncloser z n = some ce) :
    IsClosestEncloser z n ce := by
  have hp : ((tails n).filter (fun s => z.apex.isSuffixOf s)).Pairwise (fun a b => b.length < a.length) :=
    (tails_pairwise n).filter _
  obtain ⟨hm, hf, hmax⟩ := find?_longest hp h
  simp only [List.mem_filter, mem_tails_iff, List.isSuffixOf_iff_suffix] at hm
  refine ⟨hm.1, (nameExists_iff z ce).mp hf, ?_⟩
  intro e hen hex
  by_cases hae : z.apex <:+ e
  · have : e ∈ (tails n).filter (fun s => z.apex.isSuffixOf s) := by
      simp [mem_tails_iff, hen, List.isSuffixOf_iff_suffix.mpr hae]
    exact List.suffix_of_suffix_length_le hen hm.1 (hmax e this ((nameExists_iff z e).mpr hex))
  · -- `e` lies above the apex
    have : e <:+ z.apex := by
      by_cases hl : e.length ≤ z.apex.length
      · exact List.suffix_of_suffix_length_le hen hz hl
      · exact absurd (List.suffix_of_suffix_length_le hz hen (by omega)) hae
    exact this.trans hm.2

theorem closestEncloser_isSome {z : SZone} {n : Name} (hz : z.apex <:+ n) : (closestEncloser z n).isSome = true := by
  unfold closestEncloser
  rw [List.find?_isSome]
  refine ⟨z.apex, ?_, by simp [nameExists]⟩
  simp [mem_tails_iff, hz]

/-- the executable node search satisfies the declarative specification -/
theorem specLookupBase_sound (z : SZone) (n : Name) (sbc : Bool) : BaseSpec z n sbc (specLookupBase z n sbc) := by
  unfold specLookupBase
  by_cases hz : z.apex <:+ n
  · have hsuf : z.apex.isSuffixOf n = true := List.isSuffixOf_iff_suffix.mpr hz
    simp only [hsuf, Bool.not_true, Bool.false_eq_true, if_false]
    cases hcut : (if sbc = true then none else specCut z n) with
    | some c =>
      have hs : sbc = false := by cases sbc <;> simp at hcut ⊢
      subst hs
      simp only [Bool.false_eq_true, if_false] at hcut
      have hic := specCut_some hcut
      simp only
      cases hr : rrset z c NS with
      | some ns => exact BaseSpec.referral hz rfl hic hr
      | none => exact absurd hic.1.2.2 ((rrset_eq_none z c NS).mp hr)
    | none =>
      have hs : sbc = true ∨ ¬ ∃ c, IsCut z n c := by
        cases sbc with
        | true => exact Or.inl rfl
        | false => simp only [Bool.false_eq_true, if_false] at hcut; exact Or.inr (specCut_none hcut)
      simp only
      by_cases hex : nameExists z n = true
      · simp only [hex, if_true]
        exact BaseSpec.found hz hs ((nameExists_iff z n).mp hex)
      · have hex' : ¬ NameExists z n := fun h => hex ((nameExists_iff z n).mpr h)
        simp only [hex]
        cases hce : closestEncloser z n with
        | none => have := closestEncloser_isSome hz; rw [hce] at this; cases this
        | some ce =>
          have hic := closestEncloser_some hz hce
          simp only
          by_cases hw : nameExists z (asterisk :: ce) = true
          · simp only [hw, if_true]
            exact BaseSpec.synthesized hz hs hex' hic ((nameExists_iff z _).mp hw)
          · simp only [hw]
            exact BaseSpec.nxDomain hz hs hex' hic (fun h => hw ((nameExists_iff z _).mpr h))
  · have hsuf : z.apex.isSuffixOf n = false := by
      cases he : z.apex.isSuffixOf n with
      | false => rfl
      | true => exact absurd (List.isSuffixOf_iff_suffix.mp he) hz
    simp only [hsuf, Bool.not_false, if_true]
    exact BaseSpec.wrongZone hz

theorem IsCut.unique {z : SZone} {n c c' : Name} (h : IsCut z n c) (h' : IsCut z n c') : c = c' :=
  suffix_antisymm (h.2.2 c' h'.1 h'.2.1) (h'.2.2 c h.1 h.2.1)

theorem IsClosestEncloser.unique {z : SZone} {n c c' : Name} (h : IsClosestEncloser z n c)
    (h' : IsClosestEncloser z n c') : c = c' :=
  suffix_antisymm (h'.2.2 c h.1 h.2.1) (h.2.2 c' h'.1 h'.2.1)

/-- the declarative specification determines the outcome -/
theorem BaseSpec.unique {z : SZone} {n : Name} {sbc : Bool} {b b' : Base} (h : BaseSpec z n sbc b)
    (h' : BaseSpec z n sbc b') : b = b' := by
  cases h with
  | wrongZone hz => cases h' <;> first | rfl | contradiction
  | referral hz hs hc hr =>
    cases h' with
    | wrongZone hz' => contradiction
    | referral _ _ hc' hr' => have := hc.unique hc'; subst this; rw [hr] at hr'; cases hr'; rfl
    | found _ hs' _ => rcases hs' with hs' | hs'; (rw [hs] at hs'; cases hs'); exact absurd ⟨_, hc⟩ hs'
    | synthesized _ hs' _ _ _ => rcases hs' with hs' | hs'; (rw [hs] at hs'; cases hs'); exact absurd ⟨_, hc⟩ hs'
    | nxDomain _ hs' _ _ _ => rcases hs' with hs' | hs'; (rw [hs] at hs'; cases hs'); exact absurd ⟨_, hc⟩ hs'
  | found hz hs he =>
    cases h' with
    | wrongZone hz' => contradiction
    | referral _ hs' hc' _ => rcases hs with hs | hs; (rw [hs'] at hs; cases hs); exact absurd ⟨_, hc'⟩ hs
    | found _ _ _ => rfl
    | synthesized _ _ he' _ _ => contradiction
    | nxDomain _ _ he' _ _ => contradiction
  | synthesized hz hs he hce hw =>
    cases h' with
    | wrongZone hz' => contradiction
    | referral _ hs' hc' _ => rcases hs with hs | hs; (rw [hs'] at hs; cases hs); exact absurd ⟨_, hc'⟩ hs
    | found _ _ he' => contradiction
    | synthesized _ _ _ hce' _ => have := hce.unique hce'; subst this; rfl
    | nxDomain _ _ _ hce' hw' => have := hce.unique hce'; subst this; contradiction
  | nxDomain hz hs he hce hw =>
    cases h' with
    | wrongZone hz' => contradiction
    | referral _ hs' hc' _ => rcases hs with hs | hs; (rw [hs'] at hs; cases hs); exact absurd ⟨_, hc'⟩ hs
    | found _ _ he' => contradiction
    | synthesized _ _ _ hce' hw' => have := hce.unique hce'; subst this; contradiction
    | nxDomain _ _ _ _ _ => rfl

/-! ### `specAdd` keeps apex, class and glue policy -/

theorem specAddM_fields (eqv : Eqv) (z : SZone) (r : Rec) :
    (specAddM eqv z r).apex = z.apex ∧ (specAddM eqv z r).cls = z.cls ∧ (specAddM eqv z r).glue = z.glue := by
  unfold specAddM specAdd
  split <;> rename_i h <;> (try exact ⟨rfl, rfl, rfl⟩)
  split at h <;> try cases h
  split at h <;> try cases h
  split at h <;> try cases h
  split at h <;> cases h <;> exact ⟨rfl, rfl, rfl⟩

theorem specBuild_fields (eqv : Eqv) (z : SZone) (rs : List Rec) :
    (specBuild eqv z rs).apex = z.apex ∧ (specBuild eqv z rs).cls = z.cls ∧ (specBuild eqv z rs).glue = z.glue := by
  induction rs generalizing z with
  | nil => exact ⟨rfl, rfl, rfl⟩
  | cons r rs ih =>
    simp only [specBuild, List.foldl_cons]
    obtain ⟨a, b, c⟩ := specAddM_fields eqv z r
    obtain ⟨a', b', c'⟩ := ih (specAddM eqv z r)
    exact ⟨a'.trans a, b'.trans b, c'.trans c⟩

end QV.Spec.Zone
