import QV.Proofs.WriterLayout
namespace QV.Writer
open QV QV.Wire QV.ServerSafety

/-- bytes appended, prefix kept (weaker than `App`: says nothing about the bookkeeping) -/
structure AppB (s s' : State) (d : List UInt8) : Prop where
  cur : s'.cursor = s.cursor + d.length
  bytes : BytesAt s'.octets s.cursor d
  pre : ∀ i, i < s.cursor → s'.octets[i]? = s.octets[i]?
  mode : s'.mode = s.mode

theorem AppB.of_app {s s' : State} {d : List UInt8} (a : App s s' d) : AppB s s' d :=
  ⟨a.cur, a.bytes, a.ext.pre, a.mode⟩

theorem AppB.refl (s : State) : AppB s s [] := ⟨by simp, (fun i hi => by simp at hi), (fun _ _ => rfl), rfl⟩

theorem AppB.trans {a b c : State} {d1 d2 : List UInt8} (h1 : AppB a b d1) (h2 : AppB b c d2) :
    AppB a c (d1 ++ d2) := by
  refine ⟨by rw [h2.cur, h1.cur]; simp; omega, ?_, ?_, by rw [h2.mode, h1.mode]⟩
  · intro i hi
    by_cases hlt : i < d1.length
    · rw [List.getElem?_append_left hlt, h2.pre _ (by rw [h1.cur]; omega)]
      exact h1.bytes i hlt
    · rw [List.getElem?_append_right (by omega)]
      have := h2.bytes (i - d1.length) (by simp at hi; omega)
      rw [h1.cur, show a.cursor + d1.length + (i - d1.length) = a.cursor + i by omega] at this
      exact this
  · intro i hi
    rw [h2.pre i (by rw [h1.cur]; omega), h1.pre i hi]

/-- what `finish` appends for EDNS: the OPT record (RFC 6891 §6.1.2) -/
def optEnc : Option Edns → List UInt8
  | some e => encRR WName.root T_OPT e.payload ((e.upper * 16777216) % 4294967296) []
  | none => []

theorem appB_finishOpt (edns : Option Edns) (s s' : State) (hm : s.mode = .disabled)
    (h : finishOpt edns s = (.ok (), s')) : AppB s s' (optEnc edns) := by
  unfold finishOpt at h
  cases edns with
  | none => simp only [M.pure_apply] at h; cases h; exact AppB.refl s
  | some e =>
    simp only [M.bind_apply, M.modify_apply] at h
    unfold unwrap at h
    cases ha : addRr .none WName.root T_OPT e.payload ((e.upper * 16777216) % 4294967296) []
        { s with available := s.available + Gen.OPT_RECORD_SIZE } with
    | mk r s1 =>
      rw [ha] at h
      cases r with
      | ok u =>
        have a := wr_addRr .none WName.root T_OPT e.payload ((e.upper * 16777216) % 4294967296) []
          { s with available := s.available + Gen.OPT_RECORD_SIZE } hm () s1 ha
        cases h
        exact ⟨a.cur, a.bytes, a.ext.pre, a.mode⟩
      | err e' => cases h
      | panic => cases h

/-- what `finish` appends for TSIG (RFC 8945 §4.2), given the MAC -/
def tsigEnc (ts : Tsig) (mac : Option (List UInt8)) : List UInt8 :=
  encRR ts.rr.keyName T_TSIG QC_ANY (ttlFrom 0) (tsigRdata ts.rr (tsigAlgName ts.mode) (mac.getD []))

theorem appB_tsigTail (ts : Tsig) (mac : Option (List UInt8)) (s s' : State) (hm : s.mode = .disabled)
    (r : Nat × Option (List UInt8))
    (h : (do
      M.modify fun s => { s with tsig := none, available := s.available + ts.reservedLen }
      unwrap (addRr .none ts.rr.keyName T_TSIG QC_ANY (ttlFrom 0)
        (tsigRdata ts.rr (tsigAlgName ts.mode) (mac.getD [])))
      let len ← M.gets (·.cursor)
      pure (len, mac) : M (Nat × Option (List UInt8))) s = (.ok r, s')) :
    AppB s s' (tsigEnc ts mac) ∧ r = (s'.cursor, mac) := by
  simp only [M.bind_apply, M.modify_apply] at h
  unfold unwrap at h
  cases ha : addRr .none ts.rr.keyName T_TSIG QC_ANY (ttlFrom 0)
      (tsigRdata ts.rr (tsigAlgName ts.mode) (mac.getD []))
      { s with tsig := none, available := s.available + ts.reservedLen } with
  | mk r1 s1 =>
    rw [ha] at h
    cases r1 with
    | ok u =>
      have a := wr_addRr .none ts.rr.keyName T_TSIG QC_ANY (ttlFrom 0)
        (tsigRdata ts.rr (tsigAlgName ts.mode) (mac.getD []))
        { s with tsig := none, available := s.available + ts.reservedLen } hm () s1 ha
      simp only [M.gets_apply, M.pure_apply] at h
      cases h
      exact ⟨⟨a.cur, a.bytes, a.ext.pre, a.mode⟩, rfl⟩
    | err e' => cases h
    | panic => cases h

theorem appB_finishTsig (macFn : Tsig → List UInt8 → List UInt8) (ts : Tsig) (s s' : State)
    (hm : s.mode = .disabled) (r : Nat × Option (List UInt8))
    (h : finishTsig macFn (some ts) s = (.ok r, s')) :
    AppB s s' (tsigEnc ts r.2) ∧ r.1 = s'.cursor ∧ (r.2 = none ∨ ∃ msg, r.2 = some (macFn ts msg)) := by
  unfold finishTsig at h
  simp only [M.bind_apply, M.gets_apply] at h
  by_cases hc : s.cursor > s.octets.size
  · rw [if_pos hc] at h; cases h
  rw [if_neg hc] at h
  simp only [] at h
  cases hmode : ts.mode with
  | request a k =>
    rw [hmode] at h
    simp only [] at h
    have := appB_tsigTail ts (some (macFn ts (s.octets.extract 0 s.cursor).toList)) s s' hm r
      (by rw [hmode]; exact h)
    rw [this.2]; exact ⟨this.1, rfl, Or.inr ⟨_, rfl⟩⟩
  | response a m k =>
    rw [hmode] at h
    simp only [] at h
    have := appB_tsigTail ts (some (macFn ts (s.octets.extract 0 s.cursor).toList)) s s' hm r
      (by rw [hmode]; exact h)
    rw [this.2]; exact ⟨this.1, rfl, Or.inr ⟨_, rfl⟩⟩
  | subsequent a m k =>
    rw [hmode] at h
    simp only [] at h
    have := appB_tsigTail ts (some (macFn ts (s.octets.extract 0 s.cursor).toList)) s s' hm r
      (by rw [hmode]; exact h)
    rw [this.2]; exact ⟨this.1, rfl, Or.inr ⟨_, rfl⟩⟩
  | unsigned n =>
    rw [hmode] at h
    simp only [] at h
    have := appB_tsigTail ts none s s' hm r (by rw [hmode]; exact h)
    rw [this.2]; exact ⟨this.1, rfl, Or.inl rfl⟩


theorem writeAt_append_split (a : Bytes) (pos : Nat) (d1 d2 : List UInt8) :
    writeAt a pos (d1 ++ d2) = writeAt (writeAt a pos d1) (pos + d1.length) d2 := by
  induction d1 generalizing a pos with
  | nil => simp [writeAt]
  | cons x xs ih =>
    simp only [List.cons_append, writeAt, List.length_cons]
    rw [ih, show pos + 1 + xs.length = pos + (xs.length + 1) by omega]

theorem write_ok_inv (pos : Nat) (d : List UInt8) (s s' : State) (u : Unit)
    (h : write pos d s = (.ok u, s')) :
    pos + d.length ≤ s.octets.size ∧ s' = { s with octets := writeAt s.octets pos d } := by
  unfold write at h
  split at h
  · rename_i hb; cases h; exact ⟨hb, rfl⟩
  · cases h

theorem finishCounts_bytes (a b c d : Nat) (s sA : State) (h : finishCounts a b c d s = (.ok (), sA)) :
    (∀ i, i < 4 ∨ 12 ≤ i → sA.octets[i]? = s.octets[i]?) ∧
    BytesAt sA.octets 4 (u16be a ++ u16be b ++ u16be c ++ u16be d) ∧
    sA.cursor = s.cursor ∧ sA.mode = s.mode ∧ sA.edns = s.edns ∧ sA.tsig = s.tsig ∧ 12 ≤ s.octets.size := by
  unfold finishCounts at h
  simp only [M.bind_apply] at h
  have hl : ∀ x, (u16be x).length = 2 := fun _ => rfl
  cases w1 : write Gen.QDCOUNT_START (u16be a) s with
  | mk r1 s1 =>
    rw [w1] at h
    cases r1 with
    | err e => cases h
    | panic => cases h
    | ok u1 =>
      simp only [] at h
      obtain ⟨b1, rfl⟩ := write_ok_inv _ _ _ _ _ w1
      cases w2 : write Gen.ANCOUNT_START (u16be b) { s with octets := writeAt s.octets Gen.QDCOUNT_START (u16be a) } with
      | mk r2 s2 =>
        rw [w2] at h
        cases r2 with
        | err e => cases h
        | panic => cases h
        | ok u2 =>
          simp only [] at h
          obtain ⟨b2, rfl⟩ := write_ok_inv _ _ _ _ _ w2
          cases w3 : write Gen.NSCOUNT_START (u16be c)
              { s with octets := writeAt (writeAt s.octets Gen.QDCOUNT_START (u16be a)) Gen.ANCOUNT_START (u16be b) } with
          | mk r3 s3 =>
            rw [w3] at h
            cases r3 with
            | err e => cases h
            | panic => cases h
            | ok u3 =>
              simp only [] at h
              obtain ⟨b3, rfl⟩ := write_ok_inv _ _ _ _ _ w3
              obtain ⟨b4, rfl⟩ := write_ok_inv _ _ _ _ _ h
              simp only [writeAt_size] at b2 b3 b4
              have c4 : Gen.QDCOUNT_START = 4 := rfl
              have c6 : Gen.ANCOUNT_START = 4 + (u16be a).length := rfl
              have c8 : Gen.NSCOUNT_START = 4 + (u16be a ++ u16be b).length := rfl
              have c10 : Gen.ARCOUNT_START = 4 + (u16be a ++ u16be b ++ u16be c).length := rfl
              have hcomb : writeAt (writeAt (writeAt (writeAt s.octets Gen.QDCOUNT_START (u16be a))
                  Gen.ANCOUNT_START (u16be b)) Gen.NSCOUNT_START (u16be c)) Gen.ARCOUNT_START (u16be d) =
                  writeAt s.octets 4 (u16be a ++ u16be b ++ u16be c ++ u16be d) := by
                rw [c4, c6, c8, c10, ← writeAt_append_split, ← writeAt_append_split, ← writeAt_append_split]
              simp only [hcomb]
              have hlen : (u16be a ++ u16be b ++ u16be c ++ u16be d).length = 8 := rfl
              have hsz : 12 ≤ s.octets.size := by rw [hl] at b4; exact b4
              refine ⟨?_, bytesAt_writeAt _ _ _ (by rw [hlen]; omega), trivial, trivial, trivial, trivial, hsz⟩
              intro i hi
              rcases hi with hi | hi
              · exact writeAt_get_lt _ _ _ _ (by omega)
              · exact writeAt_get_ge _ _ _ _ (by rw [hlen]; omega)


theorem bytesAt_append_intro {oct : Bytes} {c : Nat} {d1 d2 : List UInt8} (h1 : BytesAt oct c d1)
    (h2 : BytesAt oct (c + d1.length) d2) : BytesAt oct c (d1 ++ d2) := by
  intro i hi
  by_cases hlt : i < d1.length
  · rw [List.getElem?_append_left hlt]; exact h1 i hlt
  · rw [List.getElem?_append_right (by omega)]
    have := h2 (i - d1.length) (by simp at hi; omega)
    rw [show c + d1.length + (i - d1.length) = c + i by omega] at this
    exact this

/-- the TSIG record `finish` appends -/
def tsigEncOpt : Option Tsig → Option (List UInt8) → List UInt8
  | some ts, mac => tsigEnc ts mac
  | none, _ => []

/-- **C12 (d), model side.** In `Disabled` mode the finished message is: the first four header
    octets as set, the four counts, the canonical encoding of the questions and records of the
    calls that succeeded, then the OPT record and the TSIG record. -/
theorem finish_bytes (macFn : Tsig → List UInt8 → List UInt8) (s : State) (b : Body) (h : Lay s b)
    (m : Bytes) (mac : Option (List UInt8)) (hf : finish s macFn = .ok (m, mac)) :
    m.toList = s.octets.toList.take 4 ++ (u16be s.qdcount ++ u16be s.ancount ++ u16be s.nscount ++
      u16be s.arcount) ++ b.enc ++ (optEnc s.edns ++ tsigEncOpt s.tsig mac) ∧
    (mac = none ∨ ∃ ts msg, s.tsig = some ts ∧ mac = some (macFn ts msg)) := by
  unfold finish at hf
  cases hw : finishWithMac macFn s with
  | mk r sF =>
    rw [hw] at hf
    cases r with
    | err e => cases hf
    | panic => cases hf
    | ok p =>
      obtain ⟨len, mc⟩ := p
      simp only [Out.ok.injEq, Prod.mk.injEq] at hf
      obtain ⟨hm, hmc⟩ := hf
      subst hmc
      unfold finishWithMac at hw
      simp only [M.bind_apply, M.gets_apply] at hw
      cases hc : finishCounts s.qdcount s.ancount s.nscount s.arcount s with
      | mk r1 sA =>
        rw [hc] at hw
        cases r1 with
        | err e => cases hw
        | panic => cases hw
        | ok u1 =>
          simp only [] at hw
          obtain ⟨kpre, kcnt, kcur, kmode, kedns, ktsig, ksz⟩ := finishCounts_bytes _ _ _ _ s sA hc
          cases ho : finishOpt s.edns sA with
          | mk r2 s1 =>
            rw [ho] at hw
            cases r2 with
            | err e => cases hw
            | panic => cases hw
            | ok u2 =>
              simp only [] at hw
              have a1 := appB_finishOpt s.edns sA s1 (by rw [kmode]; exact h.mode) ho
              -- the TSIG part
              have key : AppB s1 sF (tsigEncOpt s.tsig mc) ∧ len = sF.cursor ∧
                  (mc = none ∨ ∃ ts msg, s.tsig = some ts ∧ mc = some (macFn ts msg)) := by
                cases hts : s.tsig with
                | none =>
                  rw [hts] at hw
                  simp only [finishTsig, M.bind_apply, M.gets_apply, M.pure_apply] at hw
                  cases hw
                  exact ⟨AppB.refl _, rfl, Or.inl rfl⟩
                | some ts =>
                  rw [hts] at hw
                  have hm1 : s1.mode = .disabled := by rw [a1.mode, kmode]; exact h.mode
                  obtain ⟨k1, k2, k3⟩ := appB_finishTsig macFn ts s1 sF hm1 (len, mc) hw
                  refine ⟨k1, k2, ?_⟩
                  rcases k3 with k3 | ⟨msg, k3⟩
                  · exact Or.inl k3
                  · exact Or.inr ⟨ts, msg, rfl, k3⟩
              obtain ⟨a2, hlen, hmacp⟩ := key
              have a12 := AppB.trans a1 a2
              have hcurA : sA.cursor = 12 + b.enc.length := by rw [kcur]; exact h.cur
              have hl : ∀ x, (u16be x).length = 2 := fun _ => rfl
              -- the four pieces of the final buffer
              have p1 : BytesAt sF.octets 0 (s.octets.toList.take 4) := by
                intro i hi
                simp only [List.length_take, Array.length_toList] at hi
                rw [Nat.zero_add, a12.pre i (by omega), kpre i (Or.inl (by omega)), List.getElem?_take]
                simp [show i < 4 by omega]
              have p2 : BytesAt sF.octets 4 (u16be s.qdcount ++ u16be s.ancount ++ u16be s.nscount ++
                  u16be s.arcount) := by
                intro i hi
                simp only [List.length_append, hl] at hi
                rw [a12.pre _ (by omega)]
                exact kcnt i (by simp only [List.length_append, hl]; omega)
              have p3 : BytesAt sF.octets 12 b.enc := by
                intro i hi
                rw [a12.pre _ (by omega), kpre _ (Or.inr (by omega))]
                exact h.bytes i hi
              have p4 : BytesAt sF.octets (12 + b.enc.length) (optEnc s.edns ++ tsigEncOpt s.tsig mc) := by
                rw [← hcurA]; exact a12.bytes
              have hlen4 : (s.octets.toList.take 4).length = 4 := by simp; omega
              have hlen8 : (u16be s.qdcount ++ u16be s.ancount ++ u16be s.nscount ++ u16be s.arcount).length = 8 := rfl
              have hall := bytesAt_append_intro (bytesAt_append_intro (bytesAt_append_intro p1
                (by rw [hlen4]; exact p2)) (by rw [List.length_append, hlen4, hlen8]; exact p3))
                (by rw [List.length_append, List.length_append, hlen4, hlen8]
                    rw [show 0 + (4 + 8 + b.enc.length) = 12 + b.enc.length by omega]; exact p4)
              have hcurF : sF.cursor = (s.octets.toList.take 4 ++ (u16be s.qdcount ++ u16be s.ancount ++
                  u16be s.nscount ++ u16be s.arcount) ++ b.enc ++
                  (optEnc s.edns ++ tsigEncOpt s.tsig mc)).length := by
                rw [a12.cur, hcurA]
                simp only [List.length_append, hlen4, hlen8]
              refine ⟨?_, hmacp⟩
              rw [← hm, hlen, hcurF]
              have := bytesAt_extract hall
              rw [Nat.zero_add] at this
              exact this

end QV.Writer
