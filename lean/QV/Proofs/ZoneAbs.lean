/-
  QV.Proofs.ZoneAbs — the abstraction `abs` (all records stored in the tree) is a permutation of
  the specification's flat record list.
-/
import QV.Proofs.ZoneValidate

set_option linter.unusedSimpArgs false

namespace QV.Zone
open QV QV.NameL QV.Spec.Zone

theorem filter_or_perm {α : Type} (p q : α → Bool) (hd : ∀ a, ¬ (p a = true ∧ q a = true)) (l : List α) :
    (l.filter p ++ l.filter q).Perm (l.filter (fun a => p a || q a)) := by
  induction l with
  | nil => simp
  | cons a l ih =>
    simp only [List.filter_cons]
    cases hp : p a <;> cases hq : q a
    · simpa using ih
    · simp only [Bool.false_eq_true, if_false, if_true, Bool.false_or]
      exact List.perm_middle.trans (List.Perm.cons a ih)
    · simp only [if_true, Bool.false_eq_true, if_false, Bool.true_or, List.cons_append]
      exact List.Perm.cons a ih
    · exact absurd ⟨hp, hq⟩ (hd a)

theorem partition_perm {α κ : Type} [BEq κ] [LawfulBEq κ] (key : α → κ) (ks : List κ) (hnd : ks.Nodup) (l : List α) :
    (ks.flatMap (fun k => l.filter (fun a => key a == k))).Perm (l.filter (fun a => ks.contains (key a))) := by
  induction ks with
  | nil => simp
  | cons k ks ih =>
    rw [List.nodup_cons] at hnd
    simp only [List.flatMap_cons, List.contains_cons]
    refine (List.Perm.append_left _ (ih hnd.2)).trans ?_
    apply filter_or_perm
    intro a ⟨h1, h2⟩
    simp only [beq_iff_eq] at h1
    rw [h1] at h2
    exact hnd.1 (by simpa using h2)

theorem partition_perm_all {α κ : Type} [BEq κ] [LawfulBEq κ] (key : α → κ) (ks : List κ) (hnd : ks.Nodup) (l : List α)
    (hcov : ∀ a ∈ l, key a ∈ ks) :
    (ks.flatMap (fun k => l.filter (fun a => key a == k))).Perm l := by
  have := partition_perm key ks hnd l
  rwa [List.filter_eq_self.mpr (by intro a ha; simpa using hcov a ha)] at this

theorem flatMap_perm_congr {α β : Type} (l : List α) (f g : α → List β) (h : ∀ a ∈ l, (f a).Perm (g a)) :
    (l.flatMap f).Perm (l.flatMap g) := by
  induction l with
  | nil => simp
  | cons a l ih =>
    simp only [List.flatMap_cons]
    exact (h a (by simp)).append (ih (fun b hb => h b (by simp [hb])))

theorem nodup_of_sortedN {l : List Nat} (h : SortedN l) : l.Nodup := by
  induction l with
  | nil => simp
  | cons a l ih =>
    rw [List.nodup_cons]
    refine ⟨fun hm => ?_, ih h.2⟩
    have := h.1 a hm
    omega

/-- exploding one RRset of the flat zone into records gives back its records -/
theorem explode_rrset {z : Zone} {s : SZone} (h : Rel z s) {n : Name} {t : Nat} {x : Rrset} (hx : rrset s n t = some x) :
    x.rdatas.map (fun rd => (⟨n, x.rtype, z.cls, x.ttl, rd⟩ : Rec)) =
      s.recs.filter (fun r => r.owner == n && r.rtype == t) := by
  rw [rrset_rdatas hx, List.map_map, rrset_rtype hx, h.cls]
  obtain ⟨r0, hr0, ho0, ht0, httl0⟩ := rrset_ttl hx
  conv => rhs; rw [← List.map_id (s.recs.filter (fun r => r.owner == n && r.rtype == t))]
  apply List.map_congr_left
  intro r hr
  simp only [List.mem_filter, Bool.and_eq_true, beq_iff_eq] at hr
  obtain ⟨hr, ho, ht⟩ := hr
  have h1 := h.clsOk r hr
  have h2 := h.ttl r hr r0 hr0 (by rw [ho, ho0]) (by rw [ht, ht0])
  cases r
  simp_all

theorem explode_node {z : Zone} {s : SZone} (h : Rel z s) (n : Name) (ts : List Nat) (hts : ∀ t ∈ ts, Owns s n t) :
    (ts.filterMap (rrset s n)).flatMap (fun x => x.rdatas.map (fun rd => (⟨n, x.rtype, z.cls, x.ttl, rd⟩ : Rec))) =
      ts.flatMap (fun t => s.recs.filter (fun r => r.owner == n && r.rtype == t)) := by
  induction ts with
  | nil => simp
  | cons t ts ih =>
    obtain ⟨x, hx⟩ := (owns_iff_rrset s n t).mp (hts t (by simp))
    simp only [List.filterMap_cons, hx, List.flatMap_cons]
    rw [explode_rrset h hx, ih (fun t' ht' => hts t' (by simp [ht']))]

/-- the records stored in the tree are, up to order, the records of the flat zone -/
theorem abs_perm {z : Zone} {s : SZone} (h : Rel z s) (hw : Node.WF z.root) : (abs z).Perm s.recs := by
  unfold abs
  refine ((iterByRrset_perm h hw).flatMap_right _).trans ?_
  unfold specIterByRrset
  rw [List.flatMap_assoc]
  simp only [List.flatMap_map]
  -- per node: its RRsets explode to the records owned by the node
  have hnode : ∀ n ∈ specNodes s,
      ((rrsetsAt s n).flatMap (fun x => x.rdatas.map (fun rd => (⟨n, x.rtype, z.cls, x.ttl, rd⟩ : Rec)))).Perm
        (s.recs.filter (fun r => r.owner == n)) := by
    intro n _
    unfold rrsetsAt
    rw [explode_node h n (typesAt s n) (fun t ht => (mem_typesAt s n t).mp ht)]
    have := partition_perm_all (fun r : Rec => r.rtype) (typesAt s n) (nodup_of_sortedN (sorted_typesAt s n))
      (s.recs.filter (fun r => r.owner == n)) (by
        intro r hr
        simp only [List.mem_filter, beq_iff_eq] at hr
        exact (mem_typesAt s n r.rtype).mpr ⟨r, hr.1, hr.2, rfl⟩)
    simp only [List.filter_filter] at this
    have hc : ∀ t, (fun a : Rec => a.rtype == t && a.owner == n) = (fun r : Rec => r.owner == n && r.rtype == t) := by
      intro t; funext a; exact Bool.and_comm _ _
    simp only [hc] at this
    exact this
  refine (flatMap_perm_congr _ _ _ hnode).trans ?_
  exact partition_perm_all (fun r : Rec => r.owner) (specNodes s) (nodup_dedup _) s.recs
    (fun r hr => (mem_specNodes s r.owner).mpr (by
      have hz := h.inZone r hr
      rw [isNode_iff, nameExists_iff]
      exact ⟨hz, Or.inr ⟨r, hr, List.suffix_refl _⟩⟩))

end QV.Zone
