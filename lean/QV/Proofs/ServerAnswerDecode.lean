/-
  QV.Proofs.ServerAnswerDecode — the final writer of a response that a loaded zone produces is
  `Good` (writer invariant + content layout, Proofs/ServerSignedDecode.lean), and its body is the
  question plus the records of the successful logged calls of the answering phase: the threading
  lemma of Proofs/ServerAnswerContent.lean put on the state the scan hands over.
-/
import QV.Proofs.ServerAnswerContent
import QV.Proofs.ServerAnswerEntry
import QV.Proofs.ServerAnswerTypes
import QV.Proofs.ServerSignedDecode
import QV.Proofs.ServerEcho

namespace QV.ServerContent
open QV QV.Writer QV.Server QV.ServerSafety QV.ServerScan QV.ServerAnswer QV.Spec.Resolve QV.Spec

/-! ### the body of the log and the view of the log -/

/-- a record of the content layout as a record of the resolution spec (owner case-folded) -/
def recRR (r : RRec) : RR := ⟨fold r.owner, r.ty, r.cls, r.ttl, r.rdata⟩

/-- the TTL as `Ttl::from` stores it -/
def clampTtl (x : RR) : RR := { x with ttl := Writer.ttlFrom x.ttl }

/-- the records of a body are those of a view -/
def BodyView (b : Body) (v : View) : Prop :=
  b.an.map recRR = v.answer.map clampTtl ∧ b.ns.map recRR = v.authority.map clampTtl ∧
  b.ar.map recRR = v.additional.map clampTtl

theorem evRecs_view (a : AddEv) : (evRecs a).map recRR = (evRecords a).map clampTtl := by
  simp only [evRecs, evRecords, List.map_map]
  rfl

theorem bodyView_step (b : Body) (v : View) (h : BodyView b v) (e : Ev) : BodyView (evBody b e) (v.step e) := by
  obtain ⟨h1, h2, h3⟩ := h
  cases e with
  | add a =>
    simp only [evBody, View.step]
    cases hr : a.res with
    | ok u =>
      cases u
      simp only
      have := evRecs_view a
      cases a.sec
      · exact ⟨by simp only [Body.add, View.addTo, List.map_append, h1, this], h2, h3⟩
      · exact ⟨h1, by simp only [Body.add, View.addTo, List.map_append, h2, this], h3⟩
      · exact ⟨h1, h2, by simp only [Body.add, View.addTo, List.map_append, h3, this]⟩
    | err x => exact ⟨h1, h2, h3⟩
    | panic => exact ⟨h1, h2, h3⟩
  | aa x => exact ⟨h1, h2, h3⟩
  | rcode x => exact ⟨h1, h2, h3⟩
  | tc x => exact ⟨h1, h2, h3⟩
  | clear => exact ⟨rfl, rfl, rfl⟩
  | bad => exact ⟨h1, h2, h3⟩

theorem bodyView_foldl (log : List Ev) : ∀ (b : Body) (v : View), BodyView b v →
    BodyView (log.foldl evBody b) (log.foldl View.step v) := by
  induction log with
  | nil => intro b v h; exact h
  | cons e rest ih => intro b v h; exact ih _ _ (bodyView_step b v h e)

/-- **the body the log denotes is the view the log denotes** (C05's abstraction), record for
    record: owner case-folded, TYPE, CLASS, RDATA as handed over, TTL as `Ttl::from` stores it -/
theorem bodyOf_view (b0 : Body) (hb : b0.an = [] ∧ b0.ns = [] ∧ b0.ar = []) (log : List Ev) :
    BodyView (bodyOf b0 log) (view log) :=
  bodyView_foldl log b0 {} ⟨by rw [hb.1]; rfl, by rw [hb.2.1]; rfl, by rw [hb.2.2]; rfl⟩

theorem evBody_qs (b : Body) (e : Ev) : (evBody b e).qs = b.qs := by
  cases e with
  | add a =>
    simp only [evBody]
    cases a.res with
    | ok u => simp only; cases a.sec <;> rfl
    | err x => rfl
    | panic => rfl
  | aa x => rfl
  | rcode x => rfl
  | tc x => rfl
  | clear => rfl
  | bad => rfl

/-- the answering phase never touches the questions -/
theorem bodyOf_qs (b0 : Body) (log : List Ev) : (bodyOf b0 log).qs = b0.qs := by
  unfold bodyOf
  induction log generalizing b0 with
  | nil => rfl
  | cons e rest ih => rw [List.foldl_cons, ih, evBody_qs]

/-- the types of the records of a section carry over from the view -/
theorem bodyView_types {b : Body} {v : View} (h : BodyView b v) (Q : Nat → Prop)
    (hv : ∀ r ∈ v.additional, Q r.rtype) : ∀ r ∈ b.ar, Q r.ty := by
  intro r hr
  have : recRR r ∈ b.ar.map recRR := List.mem_map.mpr ⟨r, hr, rfl⟩
  rw [h.2.2] at this
  obtain ⟨x, hx, hxe⟩ := List.mem_map.mp this
  have := hv x hx
  have e : x.rtype = r.ty := by
    have := congrArg RR.rtype hxe
    exact this
  rw [e] at this; exact this

/-! ### `handle_non_axfr_query` on a `Good` writer -/

theorem handleNonAxfrQuery_state (z : Zone.Zone) (qname : WName) (qtype : Nat) (tr : Transport) (w : State) :
    (handleNonAxfrQuery z qname qtype tr w).2 = (handleNonAxfrQueryL z qname qtype tr ⟨w, []⟩).2.w := by
  unfold handleNonAxfrQuery
  rcases handleNonAxfrQueryL z qname qtype tr ⟨w, []⟩ with ⟨(u | e | _), s'⟩ <;> rfl

/-- **the writer `handle_non_axfr_query` leaves is `Good`**, and it holds the questions it held
    plus the records of the logged `add_*` calls that succeeded -/
theorem good_handleNonAxfrQueryL (z : Zone.Zone) (hz : ZoneOK z) (qname : WName) (hq : qname.WF)
    (qtype : Nat) (tr : Transport) (hsub : z.apex <:+ fold qname) (w : State) (b0 : Body) (hG : Good w b0)
    (hh : HintOK Writer.Den w .qname qname) :
    Good (handleNonAxfrQueryL z qname qtype tr ⟨w, []⟩).2.w
      (bodyOf b0 (handleNonAxfrQueryL z qname qtype tr ⟨w, []⟩).2.log) := by
  obtain ⟨hI, hl, mb, hc⟩ := hG
  obtain ⟨v0, hv0⟩ := hdrView_exists w
  obtain ⟨h1, h2, h3, _⟩ := clay_handleNonAxfrQueryL z hz qname hq qtype tr hsub w hI hh hl mb hc v0 hv0
  exact ⟨h1, h2, h3⟩

/-- … and its header shows the AA, TC and RCODE of the view of the log, if AA, TC and RCODE were
    clear before -/
theorem hdr_handleNonAxfrQueryL (z : Zone.Zone) (hz : ZoneOK z) (qname : WName) (hq : qname.WF)
    (qtype : Nat) (tr : Transport) (hsub : z.apex <:+ fold qname) (w : State) (b0 : Body) (hG : Good w b0)
    (hh : HintOK Writer.Den w .qname qname) (h0 : HdrView w {}) :
    HdrView (handleNonAxfrQueryL z qname qtype tr ⟨w, []⟩).2.w
      (view (handleNonAxfrQueryL z qname qtype tr ⟨w, []⟩).2.log) := by
  obtain ⟨hI, hl, mb, hc⟩ := hG
  exact (clay_handleNonAxfrQueryL z hz qname hq qtype tr hsub w hI hh hl mb hc {} h0).2.2.2

/-- … in particular its own additional records are address records (C05's log-level fact
    `LogsT.inner`, carried to the layout) -/
theorem bodyOf_handle_ar_types (z : Zone.Zone) (qname : WName) (qtype : Nat) (tr : Transport) (w : State)
    (b0 : Body) (hb : b0.an = [] ∧ b0.ns = [] ∧ b0.ar = [])
    (hnp : (handleNonAxfrQueryL z qname qtype tr ⟨w, []⟩).1 ≠ .panic) :
    ∀ r ∈ (bodyOf b0 (handleNonAxfrQueryL z qname qtype tr ⟨w, []⟩).2.log).ar, r.ty = 1 ∨ r.ty = 28 := by
  refine bodyView_types (bodyOf_view b0 hb _) (fun t => t = 1 ∨ t = 28) ?_
  obtain ⟨hlog, _⟩ := handle_log_np z qname qtype tr ⟨w, []⟩ hnp
  obtain ⟨evs, hl, hP, _⟩ := LogsT.inner z qname qtype ⟨w, []⟩
  simp only [List.nil_append] at hl
  apply view_additional_types
  rw [hlog, hl]
  intro e he
  rcases List.mem_append.mp he with h | h
  · exact hP e h
  · intro a ha
    subst ha
    rcases hr : (inner z qname qtype ⟨w, []⟩).1 with u | x | _
    · rw [hr] at h; simp [tailEvs] at h
    · rw [hr] at h
      cases x with
      | servFail => simp [tailEvs] at h
      | truncation =>
        simp only [tailEvs] at h
        split at h <;> simp at h
    · rw [hr] at h; simp [tailEvs] at h

/-! ### `handle_query` on a `Good` writer -/

/-- whatever branch `handle_query` takes (NOTIMP / REFUSED / SERVFAIL by `set_rcode`, or a loaded
    zone answering), the writer it leaves is `Good`; its questions are those it held, and its own
    additional records are address records -/
theorem good_handleQuery (cfg : Cfg) (hcfg : CfgWF cfg) (tr : Transport) (qn : WName) (qt qc : Nat)
    (S : State) (b0 : Body) (hG : Good S b0) (hb : b0.an = [] ∧ b0.ns = [] ∧ b0.ar = []) (hq : qn.WF)
    (hh : HintOK Writer.Den S .qname qn) (h3 : 3 < S.octets.size) :
    ∃ bd, Good (handleQuery cfg (some (qn, qt, qc)) tr S).2 bd ∧ bd.qs = b0.qs ∧
      ∀ r ∈ bd.ar, r.ty = 1 ∨ r.ty = 28 := by
  have hrc : ∀ rc, ∃ bd, Good (setRcode rc S).2 bd ∧ bd.qs = b0.qs ∧ ∀ r ∈ bd.ar, r.ty = 1 ∨ r.ty = 28 := by
    intro rc
    rw [setRcode_eq rc S h3]
    exact ⟨b0, good_stRcode rc S b0 hG h3, rfl, by rw [hb.2.2]; simp⟩
  unfold handleQuery
  simp only
  split
  · exact hrc _
  · split
    · exact hrc _
    · cases hl : Catalog.lookup (mkCatalog cfg.zones) qn.labels qc with
      | none => exact hrc _
      | some e =>
        simp only
        obtain ⟨ze, hze, hname, hkind, hsuf⟩ := mkCatalog_lookup cfg.zones qn.labels qc e hl
        cases hk : e.kind with
        | Loaded =>
          simp only [hze]
          obtain ⟨hawf, haeq, hnode⟩ := hcfg.zones ze (List.mem_of_getElem? hze)
          have hz : ZoneOK ze.zone := ⟨by rw [haeq]; exact fold_wf _ hawf, hnode⟩
          have hsub : ze.zone.apex <:+ fold qn := by rw [haeq]; exact hsuf
          rw [handleNonAxfrQuery_state]
          have hnp := (handleNonAxfrQueryL_safe Writer.writerSafe ze.zone hz qn hq qt tr hsub ⟨S, []⟩ hG.1 hh).1
          exact ⟨_, good_handleNonAxfrQueryL ze.zone hz qn hq qt tr hsub S b0 hG hh, bodyOf_qs _ _,
            bodyOf_handle_ar_types ze.zone qn qt tr S b0 hb hnp⟩
        | NotYetLoaded => exact hrc _
        | FailedToLoad => exact hrc _

/-! ### the final writer of a response that a loaded zone produces -/

theorem specTail_answer (lookup : List UInt8 → Nat → Option Spec.Server.ZoneKind) (S : Nat) (msg : Bytes)
    (q : Option Spec.DQuestion) (p1 an ns ar op : Nat)
    (hv : (specTail lookup S msg q p1 an ns ar op).verdict = .answer) :
    ∃ qq, q = some qq ∧ ¬ (251 ≤ qq.qtype ∧ qq.qtype ≤ 254) ∧ qq.qclass ≠ 255 ∧
      lookup qq.qname qq.qclass = some .loaded := by
  unfold specTail at hv
  split at hv
  · cases hv
  · split at hv
    · cases hv
    · cases hv
    · cases hv
    · simp only at hv
      split at hv
      · cases hv
      · split at hv
        · cases hv
        · cases q with
          | none => cases hv
          | some qq =>
            simp only at hv
            split at hv
            · cases hv
            · split at hv
              · cases hv
              · rename_i h1 h2
                refine ⟨qq, rfl, h1, h2, ?_⟩
                split at hv
                · cases hv
                · rename_i h; exact h
                · rename_i x hx _
                  cases x <;> simp_all


/-- `handle_query` when the catalog selects a loaded zone -/
theorem handleQuery_loaded (cfg : Cfg) (tr : Transport) (qn : WName) (qt qc : Nat) (S : State)
    (h1 : ¬ (251 ≤ qt ∧ qt ≤ 254)) (h2 : qc ≠ 255) (e : Catalog.Entry Unit)
    (hl : Catalog.lookup (mkCatalog cfg.zones) qn.labels qc = some e) (hk : e.kind = .Loaded)
    (ze : ZoneEntry) (hze : cfg.zones[e.zone]? = some ze) :
    handleQuery cfg (some (qn, qt, qc)) tr S = handleNonAxfrQuery ze.zone qn qt tr S := by
  unfold handleQuery
  simp only [QT_IXFR, QT_AXFR, QT_MAILB, QT_MAILA, QC_ANY_eq]
  have hm : (qt = 251 ∨ qt = 252 ∨ qt = 253 ∨ qt = 254) ↔ (251 ≤ qt ∧ qt ≤ 254) := by omega
  simp only [hm, h1, if_false, h2, hl, hk, hze]

theorem h2val_clear (opcode : Nat) (rd : Bool) : aaBit (h2val opcode rd) = false ∧ tcBit (h2val opcode rd) = false := by
  unfold h2val opF bitF
  generalize UInt8.ofNat opcode = y
  split <;> cases rd <;> (revert y; apply Wire.forall_uint8; unfold aaBit tcBit; decide +kernel)

/-- the writer the scan hands over has AA, TC and RCODE clear -/
theorem hdrView_scan_state (bufLen : Nat) (tr : Transport) (payload id opcode : Nat) (rd : Bool)
    (hbuf : minBuf tr payload ≤ bufLen) (hpay : 512 ≤ payload) (msg : Bytes) (q : Option Spec.DQuestion)
    (hq : ∀ x, q = some x → ∃ nx, Spec.specQuestionAt msg 12 = some (x.qname, x.qtype, x.qclass, nx))
    (e : Bool) (l : Nat) :
    HdrView (arSt (qSt (hdrSt (w0 bufLen (lim0 tr)) id opcode rd) q) tr payload e l) {} := by
  obtain ⟨_, _, _, _, o2, h30, _⟩ := s1_facts bufLen tr payload id opcode rd hbuf hpay msg q hq
  obtain ⟨f1, _⟩ := arSt_fields (qSt (hdrSt (w0 bufLen (lim0 tr)) id opcode rd) q) tr payload e l
  obtain ⟨c1, c2⟩ := h2val_clear opcode rd
  unfold HdrView
  rw [f1, h30, Array.getD_eq_getD_getElem?, o2]
  exact ⟨c1, c2, rfl⟩


/-- **when a loaded zone answers** (verdict `answer`, no TSIG), explicitly: the request carries one
    question `q` whose QNAME parses to `qn`, QTYPE is no transfer type, QCLASS is not ANY, the catalog
    has a loaded zone for it, and `handle_message_with_context` is `handle_query` run on the state the
    scan leaves — `Writer::new`, the header setters, `add_question`, then `set_edns` / `set_limit` as
    the scan's `edns` / `limitUdp` say -/
theorem hwc_answer_state (cfg : Cfg) (tr : Transport) (now bufLen : Nat) (req : Bytes)
    (hbuf : minBuf tr cfg.payload ≤ bufLen) (hpay : 512 ≤ cfg.payload)
    (h12 : 12 ≤ req.size) (hreq : req.size ≤ Rdata.USIZE_MAX) (id opcode : Nat) (rd : Bool)
    (hv : (specBody (catKind cfg) cfg.payload req).verdict = .answer) :
    ∃ (q : Spec.DQuestion) (qn : WName) (nx : Nat),
      (specBody (catKind cfg) cfg.payload req).question = some q ∧
      Spec.specQuestionAt req 12 = some (q.qname, q.qtype, q.qclass, nx) ∧
      WName.parse q.qname = some (qn, []) ∧ qn.wire = q.qname ∧ q.qname.length ≤ 255 ∧
      ¬ (251 ≤ q.qtype ∧ q.qtype ≤ 254) ∧ q.qclass ≠ 255 ∧ catKind cfg q.qname q.qclass = some .loaded ∧
      handleWithContext cfg tr now ⟨req, 12, none⟩ (hdrSt (w0 bufLen (lim0 tr)) id opcode rd) =
        (handleQuery cfg (some (qn, q.qtype, q.qclass)) tr >>= fun _ => pure true)
          (arSt (qSt (hdrSt (w0 bufLen (lim0 tr)) id opcode rd) (some q)) tr cfg.payload
            (specBody (catKind cfg) cfg.payload req).edns (specBody (catKind cfg) cfg.payload req).limitUdp) := by
  obtain ⟨hqd, han, hns, har, _, hop, _, _⟩ := reader_header req h12
  have hH := hdrSt_ok bufLen tr cfg.payload id opcode rd hbuf hpay
  rw [Server.handleWithContext_split]
  unfold Server.handleWithContext'
  simp only [hqd, han, hns, har, hop, opcode_bits]
  by_cases hq0 : Spec.Server.hdr req 4 = 0
  · exfalso
    have : specBody (catKind cfg) cfg.payload req = specTail (catKind cfg) cfg.payload req none 12
        (Spec.Server.hdr req 6) (Spec.Server.hdr req 8) (Spec.Server.hdr req 10) ((req.getD 2 0).toNat / 8 % 16) := by
      unfold specBody
      simp only [hq0, show ¬ (0 > 1) by omega, if_false, if_true]
    rw [this] at hv
    exact specTail_none_not_answer _ _ _ _ _ _ _ _ hv
  · by_cases hq1 : Spec.Server.hdr req 4 = 1
    · simp only [hq1, show ¬ ((1 : Nat) = 0) by omega, if_false, if_true]
      have hrq := readQuestion_spec (⟨req, 12, none⟩ : Reader.Reader)
      cases hsq : Spec.specQuestionAt req 12 with
      | none =>
        exfalso
        have : specBody (catKind cfg) cfg.payload req = { respond := true, verdict := .formErr } := by
          unfold specBody
          simp only [hq1, show ¬ ((1 : Nat) > 1) by omega, if_false, show ¬ ((1 : Nat) = 0) by omega, hsq]
        rw [this] at hv; cases hv
      | some v =>
        obtain ⟨w, t, c, nx⟩ := v
        rw [show (⟨req, 12, none⟩ : Reader.Reader).octets = req from rfl,
          show (⟨req, 12, none⟩ : Reader.Reader).cursor = 12 from rfl, hsq] at hrq
        simp only at hrq
        obtain ⟨p, hp, hpw, hnx, hnxs, hwl⟩ := specQuestionAt_some req 12 w t c nx hsq
        obtain ⟨qn, hqn, hqw⟩ := wname_of_parse req 12 p hp
        rw [hpw] at hqn hqw
        have hsc : specBody (catKind cfg) cfg.payload req = specTail (catKind cfg) cfg.payload req (some ⟨w, t, c⟩) nx
            (Spec.Server.hdr req 6) (Spec.Server.hdr req 8) (Spec.Server.hdr req 10) ((req.getD 2 0).toNat / 8 % 16) := by
          unfold specBody
          simp only [hq1, show ¬ ((1 : Nat) > 1) by omega, if_false, show ¬ ((1 : Nat) = 0) by omega, hsq]
        rw [hsc] at hv ⊢
        obtain ⟨hadd, hbase, _⟩ := qSt_some _ tr cfg.payload hH ⟨w, t, c⟩ qn hqn hqw hwl
        simp only [hrq, hqn]
        have hQ : Server.addQuestionOrServfail (some (qn, t, c)) (hdrSt (w0 bufLen (lim0 tr)) id opcode rd) =
            (.ok true, qSt (hdrSt (w0 bufLen (lim0 tr)) id opcode rd) (some ⟨w, t, c⟩)) := by
          show (match addQuestion qn t c _ with
            | (.ok (), s') => ((.ok true : Out WriterErr Bool), s')
            | (.err _, s') => (do setRcode (Server.RC "SERVFAIL"); pure false : M Bool) s'
            | (.panic, s') => (.panic, s')) = _
          rw [hadd]
        rw [bind_ok hQ]
        simp only [Bool.not_true, Bool.false_eq_true, if_false]
        rw [scanAndDispatch_answer cfg tr now req (some ⟨w, t, c⟩) (some (qn, t, c))
          ⟨req, nx, none⟩ ⟨h12, hnxs⟩ rfl _ hbase hreq tsigFacts _ _ _ _ hv]
        obtain ⟨_, _, _, hqq⟩ := specTail_props (catKind cfg) cfg.payload req (some ⟨w, t, c⟩) nx
          (Spec.Server.hdr req 6) (Spec.Server.hdr req 8) (Spec.Server.hdr req 10) ((req.getD 2 0).toNat / 8 % 16)
        obtain ⟨qq, hqq', c1, c2, c3⟩ := specTail_answer _ _ _ _ _ _ _ _ _ hv
        cases hqq'
        exact ⟨⟨w, t, c⟩, qn, nx, hqq, rfl, hqn, hqw, hwl, c1, c2, c3, rfl⟩
    · exfalso
      have hgt : Spec.Server.hdr req 4 > 1 := by omega
      have : specBody (catKind cfg) cfg.payload req = { respond := false } := by
        unfold specBody
        simp only [hgt, if_true]
      rw [this] at hv; cases hv

/-- the state `handle_query` is entered in, for a request with question `q` -/
abbrev scanState (cfg : Cfg) (tr : Transport) (bufLen : Nat) (req : Bytes) (id opcode : Nat) (rd : Bool)
    (q : Spec.DQuestion) : State :=
  arSt (qSt (hdrSt (w0 bufLen (lim0 tr)) id opcode rd) (some q)) tr cfg.payload
    (specBody (catKind cfg) cfg.payload req).edns (specBody (catKind cfg) cfg.payload req).limitUdp

/-- that state is `Good` with the question as its body, `QueryReady`, with AA / TC / RCODE clear -/
theorem scanState_facts (cfg : Cfg) (tr : Transport) (bufLen : Nat) (req : Bytes)
    (hbuf : minBuf tr cfg.payload ≤ bufLen) (hpay : 512 ≤ cfg.payload) (hp16 : cfg.payload ≤ 65535)
    (id opcode : Nat) (rd : Bool) (q : Spec.DQuestion) (qn : WName) (nx : Nat)
    (hsq : Spec.specQuestionAt req 12 = some (q.qname, q.qtype, q.qclass, nx))
    (hqn : WName.parse q.qname = some (qn, [])) (hqw : qn.wire = q.qname) (hwl : q.qname.length ≤ 255) :
    Good (scanState cfg tr bufLen req id opcode rd q) (qBody (some q)) ∧
    QueryReady (scanState cfg tr bufLen req id opcode rd q) qn ∧
    HdrView (scanState cfg tr bufLen req id opcode rd q) {} ∧
    3 < (scanState cfg tr bufLen req id opcode rd q).octets.size := by
  obtain ⟨_, hl1, hl2⟩ := specBody_props (catKind cfg) cfg.payload req
  have hq : ∀ x, (some q) = some x → ∃ nx, Spec.specQuestionAt req 12 = some (x.qname, x.qtype, x.qclass, nx) := by
    intro x hx; cases hx; exact ⟨nx, hsq⟩
  have hH := hdrSt_ok bufLen tr cfg.payload id opcode rd hbuf hpay
  obtain ⟨_, hbase, _⟩ := qSt_some _ tr cfg.payload hH q qn hqn hqw hwl
  have g1 := good_s1 bufLen tr cfg.payload id opcode rd hbuf hpay req (some q) hq
  refine ⟨good_arSt _ tr cfg.payload _ _ _ g1 hbase hl1 hl2 hp16,
    queryReady_scan_state bufLen tr cfg.payload id opcode rd hbuf hpay hp16 q qn hqn hqw hwl (parse_wf hqn) _ _ hl1 hl2,
    hdrView_scan_state bufLen tr cfg.payload id opcode rd hbuf hpay req (some q) hq _ _, ?_⟩
  show 3 < (arSt _ tr cfg.payload _ _).octets.size
  rw [arSt_size]; exact hbase.size3

/-- **when a loaded zone answers** (verdict `answer`, no TSIG): the writer `handle_message` hands to
    `finish` is `Good` — the writer's invariant, a limit of at most 65 535 octets, and the content
    layout of: the question, then the records of the successful `add_*` calls of the answering
    phase; its own additional records are address records. -/
theorem answer_final_good (cfg : Cfg) (hcfg : CfgWF cfg) (tr : Transport) (now bufLen : Nat) (req : Bytes)
    (hbuf : minBuf tr cfg.payload ≤ bufLen) (hpay : 512 ≤ cfg.payload) (hp16 : cfg.payload ≤ 65535)
    (h12 : 12 ≤ req.size) (hreq : req.size ≤ Rdata.USIZE_MAX) (id opcode : Nat) (rd : Bool)
    (hv : (specBody (catKind cfg) cfg.payload req).verdict = .answer) :
    ∃ bd, Good (handleWithContext cfg tr now ⟨req, 12, none⟩ (hdrSt (w0 bufLen (lim0 tr)) id opcode rd)).2 bd ∧
      bd.qs = (qBody (specBody (catKind cfg) cfg.payload req).question).qs ∧
      ∀ r ∈ bd.ar, r.ty = 1 ∨ r.ty = 28 := by
  obtain ⟨q, qn, nx, hq0, hsq, hqn, hqw, hwl, _, _, _, heq⟩ :=
    hwc_answer_state cfg tr now bufLen req hbuf hpay h12 hreq id opcode rd hv
  obtain ⟨g2, hqr, _, h3⟩ := scanState_facts cfg tr bufLen req hbuf hpay hp16 id opcode rd q qn nx hsq hqn hqw hwl
  obtain ⟨bd, hgd, hqs, hty⟩ := good_handleQuery cfg hcfg tr qn q.qtype q.qclass _ _ g2 (qBody_norecs _)
    (parse_wf hqn) hqr.hint h3
  rw [heq, hq0]
  refine ⟨bd, ?_, hqs, hty⟩
  rw [bind_apply]
  generalize Server.handleQuery cfg (some (qn, q.qtype, q.qclass)) tr
    (arSt (qSt (hdrSt (w0 bufLen (lim0 tr)) id opcode rd) (some q)) tr cfg.payload
      (specBody (catKind cfg) cfg.payload req).edns (specBody (catKind cfg) cfg.payload req).limitUdp) = res at hgd
  obtain ⟨o, s'⟩ := res
  cases o <;> exact hgd

/-- **authenticated signed requests that a loaded zone answers**: the writer handed to `finish` is
    `Good` — the question, then the records of the successful `add_*` calls of the answering phase,
    address records only in the additional section — and it carries the response TSIG; its EDNS slot
    is set, with the server's payload size, iff the scan reached an OPT. -/
theorem signed_answer_final (cfg : Cfg) (hcfg : CfgWF cfg) (tr : Transport) (now bufLen : Nat) (req : Bytes)
    (hbuf : minBuf tr cfg.payload ≤ bufLen) (hpay : 512 ≤ cfg.payload) (hp16 : cfg.payload ≤ 65535)
    (hreq : req.size ≤ Rdata.USIZE_MAX)
    (hr : (Spec.Server.specScanWith (catKind cfg) cfg.payload req).respond = true)
    (hv : (Spec.Server.specScanWith (catKind cfg) cfg.payload req).verdict = .tsigReached) :
    ∃ (t : Tsig.ReadTsigRr) (mw : Bytes) (r' : Reader.Reader), r'.octets = req ∧ r'.cursor ≤ req.size ∧
      ∀ r'' S, Server.tsigAfter cfg now t mw r' (preTsigState cfg tr bufLen req) = (.ok (some r''), S) →
        endVerdict (catKind cfg) req.size (Spec.Server.specScanWith (catKind cfg) cfg.payload req).question
          r'.cursor ((req.getD 2 0).toNat / 8 % 16) = .answer →
      ∀ b, Server.handleMessage cfg tr now bufLen req = .ok (some b) →
        ∃ nowT alg key kn F mac bd, Tsig.TimeSigned.tryFromUnix now = some nowT ∧
          Tsig.Algorithm.fromName t.algorithm = some alg ∧ Server.findKey cfg.keys t.keyName alg = some key ∧
          WName.parse t.keyName = some (kn, []) ∧
          Tsig.verifyRequest Tsig.realHmac t mw.toList alg key.secret nowT = .ok () ∧
          Writer.finish F Server.macFn = .ok (b, mac) ∧ Good F bd ∧
          bd.qs = (qBody (Spec.Server.specScanWith (catKind cfg) cfg.payload req).question).qs ∧
          (∀ r ∈ bd.ar, r.ty = 1 ∨ r.ty = 28) ∧
          F.tsig = some (respTsig alg key kn t nowT) ∧
          F.edns.map (·.payload) =
            (if (Spec.Server.specScanWith (catKind cfg) cfg.payload req).edns then some cfg.payload else none) := by
  obtain ⟨t, mw, r', question, h1, h2, hqrel, h4⟩ := handleMessage_tsig_eq cfg tr now bufLen req hbuf hpay hreq hr hv
  refine ⟨t, mw, r', h1, h2, fun r'' S hT hev b hb => ?_⟩
  rw [hT, hb] at h4
  simp only [afterTsig, hev, if_true] at h4
  obtain ⟨_, _, hsce⟩ := specScanWith_respond _ _ _ hr
  unfold preTsigState at hT
  rw [hsce] at hT hqrel hev ⊢
  -- the question
  cases hq0 : (specBody (catKind cfg) cfg.payload req).question with
  | none =>
    exfalso
    rw [hq0] at hev
    unfold endVerdict at hev
    split at hev
    · cases hev
    · split at hev <;> cases hev
  | some q =>
    obtain ⟨nx, hsq⟩ := specBody_question (catKind cfg) cfg.payload req q hq0
    obtain ⟨p, hp, hpw, _, _, hwl⟩ := specQuestionAt_some req 12 _ _ _ nx hsq
    obtain ⟨qn, hqn, hqw⟩ := wname_of_parse req 12 p hp
    rw [hpw] at hqn hqw
    rw [hq0] at hqrel
    cases question with
    | none => exact absurd hqrel (by simp [QRel])
    | some qq =>
      obtain ⟨qn', qt, qc⟩ := qq
      obtain ⟨hqn', hqt, hqc⟩ := hqrel
      have : qn = qn' := by rw [hqn] at hqn'; cases hqn'; rfl
      subst this
      obtain ⟨_, p2, p3⟩ := specBody_props (catKind cfg) cfg.payload req
      have hq : ∀ x, (specBody (catKind cfg) cfg.payload req).question = some x →
          ∃ nx, Spec.specQuestionAt req 12 = some (x.qname, x.qtype, x.qclass, nx) :=
        fun x hx => specBody_question (catKind cfg) cfg.payload req x hx
      obtain ⟨hbase, hcur, _, _, _, h30, hs3, _, _, _, _, _, hrrs, hsz⟩ :=
        s1_facts bufLen tr cfg.payload (Spec.Server.hdr req 0) (((req.getD 2 0).toNat &&& 120) >>> 3)
          (((req.getD 2 0).toNat &&& 1) != 0) hbuf hpay req (specBody (catKind cfg) cfg.payload req).question hq
      have g1 := good_s1 bufLen tr cfg.payload (Spec.Server.hdr req 0) (((req.getD 2 0).toNat &&& 120) >>> 3)
          (((req.getD 2 0).toNat &&& 1) != 0) hbuf hpay req (specBody (catKind cfg) cfg.payload req).question hq
      rw [hq0] at hT g1 hbase hs3 hsz h30 hcur hrrs
      generalize hsce' : (specBody (catKind cfg) cfg.payload req).edns = e at *
      generalize hscl' : (specBody (catKind cfg) cfg.payload req).limitUdp = l at *
      unfold Server.tsigAfter at hT
      cases hnow : Tsig.TimeSigned.tryFromUnix now with
      | none => rw [hnow] at hT; cases hT
      | some nowT =>
        rw [hnow] at hT
        simp only at hT
        have h3s : 3 < (arSt (qSt (hdrSt (w0 bufLen (lim0 tr)) (Spec.Server.hdr req 0)
            (((req.getD 2 0).toNat &&& 120) >>> 3) (((req.getD 2 0).toNat &&& 1) != 0)) (some q)) tr cfg.payload e l).octets.size := by
          rw [arSt_size]; exact hs3
        have h12s : 12 ≤ (arSt (qSt (hdrSt (w0 bufLen (lim0 tr)) (Spec.Server.hdr req 0)
            (((req.getD 2 0).toNat &&& 120) >>> 3) (((req.getD 2 0).toNat &&& 1) != 0)) (some q)) tr cfg.payload e l).octets.size := by
          rw [arSt_size, hsz]; cases tr <;> simp only [minBuf] at hbuf <;> omega
        obtain ⟨alg, key, kn, ha, hk, hkn, hver, _, hfit, hS⟩ :=
          tsigProcess_some_state Tsig.realHmac cfg.keys _ h12s t mw.toList nowT r' r'' S hT
        obtain ⟨hX, _⟩ := sigSt_facts _ tr cfg.payload e l 0 0 (by omega) (by omega)
          hbase h30 hs3 p2 p3 (.response (Server.toWriterAlg alg) t.mac key.secret) (ServerTsig.prepOf kn t nowT 0)
        rw [← hS] at hX
        -- the state handed to `handle_query` is `Good` and `QueryReady`
        have gA := good_arSt _ tr cfg.payload e l _ g1 hbase p2 p3 hp16
        have gB := good_stRcode 0 _ _ gA h3s
        obtain ⟨l1, l2⟩ := prepOf_lengths kn t nowT 0
        have hfit' := (stRcode_fits 0 _ _ _).mpr hfit
        have gC := good_withTsig (.response (Server.toWriterAlg alg) t.mac key.secret) (ServerTsig.prepOf kn t nowT 0) _ _ gB
          hfit' (parse_wf hkn) (algName_wf _) l1 l2
        have hqr := queryReady_signed_state bufLen tr cfg.payload (Spec.Server.hdr req 0)
          (((req.getD 2 0).toNat &&& 120) >>> 3) (((req.getD 2 0).toNat &&& 1) != 0) hbuf hpay hp16 q qn hqn hqw hwl
          (parse_wf hqn) e l p2 p3 alg t.mac key.secret t kn nowT hkn hfit'
        rw [← hS] at gC hqr
        have h3c : 3 < S.octets.size := by
          rw [hS]
          show 3 < (stRcode 0 _).octets.size
          have : ∀ x : State, (stRcode 0 x).octets.size = x.octets.size := by
            intro x; unfold stRcode stHdr; cases x.edns <;> simp
          rw [this]; exact h3s
        have hSrr : S.rrStart = (qSt (hdrSt (w0 bufLen (lim0 tr)) (Spec.Server.hdr req 0)
            (((req.getD 2 0).toNat &&& 120) >>> 3) (((req.getD 2 0).toNat &&& 1) != 0)) (some q)).rrStart := by
          rw [hS]
          show (stRcode 0 (arSt _ tr cfg.payload e l)).rrStart = _
          have : ∀ x : State, (stRcode 0 x).rrStart = x.rrStart := by
            intro x; unfold stRcode stHdr; cases x.edns <;> rfl
          rw [this]
          cases e <;> cases tr <;> rfl
        -- the answering phase keeps the TSIG slot and the EDNS payload
        have hfr := framed_bind (k := true) (Server.framed_handleQuery 12 (by omega) cfg (some (qn, qt, qc)) tr)
          (fun _ => framed_pure 12 true) S (by rw [hX.cur, hcur]; omega) (by rw [hSrr, hrrs]; omega)
        obtain ⟨k1, k2⟩ := hfr.keep rfl
        obtain ⟨bd, hgd, hqs, hty⟩ := good_handleQuery cfg hcfg tr qn qt qc S _ gC (qBody_norecs _) (parse_wf hqn)
          hqr.hint h3c
        have hgd' : Good ((Server.handleQuery cfg (some (qn, qt, qc)) tr >>= fun _ => (pure true : M Bool)) S).2 bd := by
          rw [bind_apply]
          generalize Server.handleQuery cfg (some (qn, qt, qc)) tr S = res at hgd
          obtain ⟨o, s'⟩ := res
          cases o <;> exact hgd
        rcases hq : (Server.handleQuery cfg (some (qn, qt, qc)) tr >>= fun _ => (pure true : M Bool)) S with ⟨(bb | e | _), w1⟩
        · rw [hq] at h4 k1 k2 hgd'
          simp only at k1 k2 hgd'
          cases bb with
          | false => simp only at h4; cases h4
          | true =>
            simp only at h4
            rcases hfin : Writer.finish w1 Server.macFn with ⟨bytes, mac⟩ | e | _
            · rw [hfin] at h4
              simp only [Out.ok.injEq, Option.some.injEq] at h4
              subst h4
              refine ⟨nowT, alg, key, kn, w1, mac, bd, rfl, ha, hk, hkn, hver, hfin, hgd', hqs, hty, ?_, ?_⟩
              · rw [k1, hX.tsig]; rfl
              · rw [k2, hX.edns]; cases e <;> rfl
            · rw [hfin] at h4; cases h4
            · rw [hfin] at h4; cases h4
        · rw [hq] at h4; cases h4
        · rw [hq] at h4; cases h4

/-! ### from the final writer to the decoded response -/

/-- a decoded record is a record of the resolution: owner equal up to ASCII case, TYPE, CLASS, TTL
    (as `Ttl::from` stores it) as 16/16/32-bit values, RDATA octet for octet if its type holds no
    compressible name -/
def RRMatch (x : RR) (dr : DRr) : Prop :=
  ∃ o : WName, fold o = x.owner ∧ dr.owner.map lowerU8 = o.wire.map lowerU8 ∧
    dr.ty = x.rtype % 65536 ∧ dr.cls = x.cls % 65536 ∧ dr.rawTtl = Writer.ttlFrom x.ttl % 4294967296 ∧
    (x.rtype < 65536 → ∀ ts, componentTypes x.cls x.rtype = some ts → CompType.compressibleName ∉ ts →
      dr.rdata = x.rdata ∧ dr.rdOk = true)

theorem all2_rrmatch : ∀ (its : List RItC) (xs : List RR) (ds : List DRr),
    its.map (fun it => recRR it.r) = xs.map clampTtl → All2 RMatch its ds → All2 RRMatch xs ds := by
  intro its
  induction its with
  | nil =>
    intro xs ds hm h
    cases h
    cases xs with
    | nil => exact .nil
    | cons x r => simp at hm
  | cons it rest ih =>
    intro xs ds hm h
    cases h with
    | cons hr t =>
      cases xs with
      | nil => simp at hm
      | cons x xr =>
        simp only [List.map_cons, List.cons.injEq] at hm
        obtain ⟨he, hrest⟩ := hm
        refine .cons ?_ (ih xr _ hrest t)
        obtain ⟨r1, _, r3, r4, r5, _, r7⟩ := hr
        have e1 : fold it.r.owner = x.owner := congrArg RR.owner he
        have e2 : it.r.ty = x.rtype := congrArg RR.rtype he
        have e3 : it.r.cls = x.cls := congrArg RR.cls he
        have e4 : it.r.ttl = Writer.ttlFrom x.ttl := congrArg RR.ttl he
        have e5 : it.r.rdata = x.rdata := congrArg RR.rdata he
        exact ⟨it.r.owner, e1, r1, by rw [r3, e2], by rw [r4, e3], by rw [r5, e4], by
          rw [← e2, ← e3, ← e5]; exact r7⟩

theorem all2_append_left {α β : Type} {R : α → β → Prop} : ∀ (as1 as2 : List α) (bs : List β),
    All2 R (as1 ++ as2) bs → ∃ b1 b2, bs = b1 ++ b2 ∧ All2 R as1 b1 ∧ All2 R as2 b2 := by
  intro as1
  induction as1 with
  | nil => intro as2 bs h; exact ⟨[], bs, rfl, .nil, h⟩
  | cons a r ih =>
    intro as2 bs h
    cases h with
    | cons hr t =>
      obtain ⟨b1, b2, e, h1, h2⟩ := ih as2 _ t
      exact ⟨_ :: b1, b2, by rw [e]; rfl, .cons hr h1, h2⟩

theorem u8_and15 (y : UInt8) : (y &&& 15).toNat = y.toNat % 16 := by
  revert y; apply Wire.forall_uint8; decide +kernel

theorem u8_flagbits (x : UInt8) : aaBit x = (x.toNat / 4 % 2 == 1) ∧ tcBit x = (x.toNat / 2 % 2 == 1) := by
  revert x; apply Wire.forall_uint8; unfold aaBit tcBit; decide +kernel

/-- the decoded RCODE, AA and TC are those the header octets of the final writer show -/
theorem flags_of_hdrView (b : Bytes) (F : State) (v : View) (h2 : b[2]? = F.octets[2]?) (h3 : b[3]? = F.octets[3]?)
    (hh : HdrView F v) (d : DMsg) (hd : specDecodeMsg b = some d) :
    d.rcode = v.rcode % 16 ∧ d.aa = v.aa ∧ d.tc = v.tc := by
  have hf := decode_flags b d hd
  obtain ⟨a1, a2, a3⟩ := hh
  have e2 : b.getD 2 0 = F.octets.getD 2 0 := by
    rw [Array.getD_eq_getD_getElem?, Array.getD_eq_getD_getElem?, h2]
  have e3 : b.getD 3 0 = F.octets.getD 3 0 := by
    rw [Array.getD_eq_getD_getElem?, Array.getD_eq_getD_getElem?, h3]
  unfold DMsg.rcode DMsg.aa DMsg.tc
  rw [hf]
  unfold Spec.Server.hdr
  rw [e2, e3]
  obtain ⟨f1, f2⟩ := u8_flagbits (F.octets.getD 2 0)
  have hy := (F.octets.getD 3 0).toNat_lt
  have hr : (F.octets.getD 3 0).toNat % 16 = v.rcode % 16 := by
    have := congrArg UInt8.toNat a3
    rw [u8_and15, u8_and15] at this
    rw [this]
    simp only [UInt8.toNat_ofNat']
    omega
  refine ⟨?_, ?_, ?_⟩
  · rw [← hr]; omega
  · rw [← a1, f1]
    congr 2; omega
  · rw [← a2, f2]
    congr 2; omega


theorem withCounts_hdr (s : State) (i : Nat) (h : i < 4) : (withCounts s)[i]? = s.octets[i]? := by
  unfold withCounts
  rw [writeAt_get_lt _ _ _ _ (by omega), writeAt_get_lt _ _ _ _ (by omega), writeAt_get_lt _ _ _ _ (by omega),
    writeAt_get_lt _ _ _ _ (by omega)]

/-- `finish` without a pending TSIG leaves the flag octets alone -/
theorem finish_flags_plain (F : State) (hI : Writer.I F) (ht : F.tsig = none) (b : Bytes) (mac : Option (List UInt8))
    (hf : Writer.finish F Server.macFn = .ok (b, mac)) : b[2]? = F.octets[2]? ∧ b[3]? = F.octets[3]? := by
  have hi := hI.inv
  have hsz : 12 ≤ F.octets.size := by
    have := hi.hdr; have := hi.cur_av; have := hi.av_lim; have := hi.lim_size; omega
  obtain ⟨_, ft⟩ := finish_inv_tail F Server.macFn ht hsz b mac hf
  have hc := hi.hdr
  have hcs : F.cursor ≤ F.octets.size := by
    have := hi.cur_av; have := hi.av_lim; have := hi.lim_size; omega
  cases he : F.edns with
  | none =>
    rw [he] at ft
    simp only at ft
    have key : ∀ i, i < 4 → b[i]? = F.octets[i]? := by
      intro i hi4
      rw [ft, ← withCounts_hdr F i hi4]
      have hws : (withCounts F).size = F.octets.size := by unfold withCounts; simp
      rw [Array.getElem?_extract]
      simp only [Nat.zero_add, Nat.sub_zero]
      rw [if_pos (by rw [hws]; omega)]
    exact ⟨key 2 (by omega), key 3 (by omega)⟩
  | some e =>
    rw [he] at ft
    simp only at ft
    exact ⟨by rw [ft.2.2 2 (by omega), withCounts_hdr F 2 (by omega)],
      by rw [ft.2.2 3 (by omega), withCounts_hdr F 3 (by omega)]⟩

/-- **from a `Good` final writer to the decoded response** (no TSIG pending): if the body of the
    writer is — record for record — a view `v`, and the header octets show `v`'s RCODE / AA / TC,
    then every decoding of what `finish` returns has RCODE `v.rcode` (4 bits), AA and TC as in `v`,
    answer and authority sections matching `v`'s one for one in order, and an additional section
    that is `v`'s followed by the OPT record iff the EDNS slot is set -/
theorem decoded_of_good_view (F : State) (bd : Body) (v : View) (hG : Good F bd) (hbv : BodyView bd v)
    (hts : F.tsig = none) (hhv : HdrView F v) (b : Bytes) (mac : Option (List UInt8))
    (hf : Writer.finish F Server.macFn = .ok (b, mac)) (d : DMsg) (hd : specDecodeMsg b = some d) :
    d.rcode = v.rcode % 16 ∧ d.aa = v.aa ∧ d.tc = v.tc ∧
    All2 RRMatch v.answer d.an ∧ All2 RRMatch v.authority d.ns ∧
    ∃ ar' opt, d.ar = ar' ++ opt ∧ All2 RRMatch v.additional ar' ∧
      opt.length = (if F.edns.isSome then 1 else 0) ∧ ∀ o ∈ opt, o.ty = 41 := by
  obtain ⟨hI, hlim, mb, hL⟩ := hG
  obtain ⟨f2, f3⟩ := finish_flags_plain F hI hts b mac hf
  obtain ⟨g1, g2, g3⟩ := flags_of_hdrView b F v f2 f3 hhv d hd
  have hsz : b.size ≤ 65535 := Nat.le_trans (finish_size_le_limit Server.macFn F hI.inv b mac hf) hlim
  obtain ⟨d', qs, ian, ins, iar, hd', _, e2, e3, e4, _, m2, m3, m4, _, _⟩ :=
    finish_decodes_content Server.macFn F bd mb hI hL b mac hf hsz
  rw [hd] at hd'
  cases hd'
  obtain ⟨v1, v2, v3⟩ := hbv
  refine ⟨g1, g2, g3, all2_rrmatch ian _ _ (by rw [← v1, ← e2, List.map_map]; rfl) m2,
    all2_rrmatch ins _ _ (by rw [← v2, ← e3, List.map_map]; rfl) m3, ?_⟩
  rw [hts] at e4
  simp only [tsigRecs, List.append_nil] at e4
  obtain ⟨t1, t2⟩ := map_take_eq (·.r) iar bd.ar (optRecs' F.edns) e4
  have hsplit : iar = iar.take bd.ar.length ++ iar.drop bd.ar.length := (List.take_append_drop _ _).symm
  rw [hsplit] at m4
  obtain ⟨d1, d2, hd12, a1, a2⟩ := all2_append_left _ _ _ m4
  have hm1 : (iar.take bd.ar.length).map (fun it => recRR it.r) = v.additional.map clampTtl := by
    have : (iar.take bd.ar.length).map (fun it => recRR it.r) = ((iar.take bd.ar.length).map (·.r)).map recRR := by
      rw [List.map_map]; rfl
    rw [this, t1, v3]
  refine ⟨d1, d2, hd12, all2_rrmatch _ _ _ hm1 a1, ?_, ?_⟩
  · rw [← a2.length, ← List.length_map (f := (·.r)), t2]
    cases F.edns <;> rfl
  · intro o ho
    obtain ⟨it, hit, hm⟩ := all2_mem_right a2 o ho
    have : it.r ∈ optRecs' F.edns := by rw [← t2]; exact List.mem_map.mpr ⟨it, hit, rfl⟩
    cases hed : F.edns with
    | none => rw [hed] at this; simp [optRecs'] at this
    | some e =>
      rw [hed] at this
      simp only [optRecs', List.mem_singleton] at this
      rw [hm.2.2.1, this]
      show Writer.T_OPT % 65536 = 41
      rw [T_OPT_eq]


/-! ### authenticated (TSIG) answers, decoded -/

theorem endVerdict_answer (lookup : List UInt8 → Nat → Option Spec.Server.ZoneKind) (sz : Nat)
    (q : Option Spec.DQuestion) (pos op : Nat) (hv : endVerdict lookup sz q pos op = .answer) :
    ∃ qq, q = some qq ∧ ¬ (251 ≤ qq.qtype ∧ qq.qtype ≤ 254) ∧ qq.qclass ≠ 255 ∧
      lookup qq.qname qq.qclass = some .loaded := by
  unfold endVerdict at hv
  split at hv
  · cases hv
  · split at hv
    · cases hv
    · cases q with
      | none => cases hv
      | some qq =>
        simp only at hv
        split at hv
        · cases hv
        · split at hv
          · cases hv
          · rename_i h1 h2
            refine ⟨qq, rfl, h1, h2, ?_⟩
            split at hv
            · cases hv
            · rename_i h; exact h
            · rename_i x hx _
              cases x <;> simp_all

/-- `set_rcode(0)` and `set_tsig` leave AA / TC / RCODE clear -/
theorem hdrView_withTsig (S : State) (h3 : 3 < S.octets.size) (h : HdrView S {}) (mode : TsigMode) (rr : TsigRr) :
    HdrView (ServerTsig.withTsig (stRcode 0 S) mode rr) {} := by
  have h1 := ((hdrStep_setRcode 0) S {} h).1
  rw [setRcode_eq 0 S h3] at h1
  exact hdrView_congr (h1 rfl) rfl rfl

/-- `finish` with a pending TSIG leaves the flag octets alone -/
theorem finish_flags_tsig (F : State) (hI : Writer.I F) (ts : Writer.Tsig) (hts : F.tsig = some ts) (b : Bytes)
    (mac : Option (List UInt8)) (hf : Writer.finish F Server.macFn = .ok (b, mac)) :
    b[2]? = F.octets[2]? ∧ b[3]? = F.octets[3]? := by
  have hi := hI.inv
  obtain ⟨_, _, oe, sT, _, _, _, _, hbl⟩ := finish_octets_tsig Server.macFn F hi.hdr ts hts b mac hf
  have hsz : 12 ≤ F.octets.size := by
    have := hi.hdr; have := hi.cur_av; have := hi.av_lim; have := hi.lim_size; omega
  have key : ∀ i, i < 4 → b[i]? = F.octets[i]? := by
    intro i hi4
    rw [← Array.getElem?_toList, hbl]
    unfold finishPrefix
    have hl : (F.octets.toList.take 4).length = 4 := by
      rw [List.length_take, Array.length_toList]; omega
    rw [List.append_assoc, List.append_assoc, List.append_assoc, List.getElem?_append_left (by rw [hl]; exact hi4),
      List.getElem?_take, if_pos hi4, Array.getElem?_toList]
  exact ⟨key 2 (by omega), key 3 (by omega)⟩

/-- **from a `Good` final writer to the decoded response**, whatever is pending: the additional
    section is the view's, followed by the OPT record (iff the EDNS slot is set) and the TSIG record
    (iff a TSIG is pending) -/
theorem decoded_of_good_view' (F : State) (bd : Body) (v : View) (hG : Good F bd) (hbv : BodyView bd v)
    (hhv : HdrView F v) (b : Bytes) (mac : Option (List UInt8))
    (hf : Writer.finish F Server.macFn = .ok (b, mac))
    (hfl : b[2]? = F.octets[2]? ∧ b[3]? = F.octets[3]?) (d : DMsg) (hd : specDecodeMsg b = some d) :
    d.rcode = v.rcode % 16 ∧ d.aa = v.aa ∧ d.tc = v.tc ∧
    All2 RRMatch v.answer d.an ∧ All2 RRMatch v.authority d.ns ∧
    ∃ ar' rest, d.ar = ar' ++ rest ∧ All2 RRMatch v.additional ar' ∧
      rest.length = (if F.edns.isSome then 1 else 0) + (if F.tsig.isSome then 1 else 0) ∧
      ∀ o ∈ rest, o.ty = 41 ∨ o.ty = 250 := by
  obtain ⟨hI, hlim, mb, hL⟩ := hG
  obtain ⟨g1, g2, g3⟩ := flags_of_hdrView b F v hfl.1 hfl.2 hhv d hd
  have hsz : b.size ≤ 65535 := Nat.le_trans (finish_size_le_limit Server.macFn F hI.inv b mac hf) hlim
  obtain ⟨d', qs, ian, ins, iar, hd', _, e2, e3, e4, _, m2, m3, m4, _, _⟩ :=
    finish_decodes_content Server.macFn F bd mb hI hL b mac hf hsz
  rw [hd] at hd'
  cases hd'
  obtain ⟨v1, v2, v3⟩ := hbv
  refine ⟨g1, g2, g3, all2_rrmatch ian _ _ (by rw [← v1, ← e2, List.map_map]; rfl) m2,
    all2_rrmatch ins _ _ (by rw [← v2, ← e3, List.map_map]; rfl) m3, ?_⟩
  rw [List.append_assoc] at e4
  obtain ⟨t1, t2⟩ := map_take_eq (·.r) iar bd.ar (optRecs' F.edns ++ tsigRecs F.tsig mac) e4
  have hsplit : iar = iar.take bd.ar.length ++ iar.drop bd.ar.length := (List.take_append_drop _ _).symm
  rw [hsplit] at m4
  obtain ⟨d1, d2, hd12, a1, a2⟩ := all2_append_left _ _ _ m4
  have hm1 : (iar.take bd.ar.length).map (fun it => recRR it.r) = v.additional.map clampTtl := by
    have : (iar.take bd.ar.length).map (fun it => recRR it.r) = ((iar.take bd.ar.length).map (·.r)).map recRR := by
      rw [List.map_map]; rfl
    rw [this, t1, v3]
  refine ⟨d1, d2, hd12, all2_rrmatch _ _ _ hm1 a1, ?_, ?_⟩
  · rw [← a2.length, ← List.length_map (f := (·.r)), t2, List.length_append]
    cases F.edns <;> cases F.tsig <;> rfl
  · intro o ho
    obtain ⟨it, hit, hm⟩ := all2_mem_right a2 o ho
    have : it.r ∈ optRecs' F.edns ++ tsigRecs F.tsig mac := by rw [← t2]; exact List.mem_map.mpr ⟨it, hit, rfl⟩
    rcases List.mem_append.mp this with h | h
    · left
      cases hed : F.edns with
      | none => rw [hed] at h; simp [optRecs'] at h
      | some e =>
        rw [hed] at h
        simp only [optRecs', List.mem_singleton] at h
        rw [hm.2.2.1, h]
        show Writer.T_OPT % 65536 = 41
        rw [T_OPT_eq]
    · right
      cases hts : F.tsig with
      | none => rw [hts] at h; simp [tsigRecs] at h
      | some ts =>
        rw [hts] at h
        simp only [tsigRecs, List.mem_singleton] at h
        rw [hm.2.2.1, h]
        show Writer.T_TSIG % 65536 = 250
        rw [T_TSIG_eq]

/-- **authenticated signed requests that a loaded zone answers, explicitly**: the request carries one
    question `q`; the TSIG step leaves the state `S` = `set_rcode(0)` + `set_tsig(response TSIG)` on
    the scan state; `S` is `Good`, `QueryReady`, has AA / TC / RCODE clear; and `handle_message` is
    `handle_query` on `S`, then `finish` -/
theorem signed_answer_state (cfg : Cfg) (tr : Transport) (now bufLen : Nat) (req : Bytes)
    (hbuf : minBuf tr cfg.payload ≤ bufLen) (hpay : 512 ≤ cfg.payload) (hp16 : cfg.payload ≤ 65535)
    (hreq : req.size ≤ Rdata.USIZE_MAX)
    (hr : (Spec.Server.specScanWith (catKind cfg) cfg.payload req).respond = true)
    (hv : (Spec.Server.specScanWith (catKind cfg) cfg.payload req).verdict = .tsigReached) :
    ∃ (t : Tsig.ReadTsigRr) (mw : Bytes) (r' : Reader.Reader), r'.octets = req ∧ r'.cursor ≤ req.size ∧
      ∀ r'' S, Server.tsigAfter cfg now t mw r' (preTsigState cfg tr bufLen req) = (.ok (some r''), S) →
        endVerdict (catKind cfg) req.size (Spec.Server.specScanWith (catKind cfg) cfg.payload req).question
          r'.cursor ((req.getD 2 0).toNat / 8 % 16) = .answer →
      ∀ b, Server.handleMessage cfg tr now bufLen req = .ok (some b) →
        ∃ q qn nowT alg key kn,
          (Spec.Server.specScanWith (catKind cfg) cfg.payload req).question = some q ∧
          WName.parse q.qname = some (qn, []) ∧
          ¬ (251 ≤ q.qtype ∧ q.qtype ≤ 254) ∧ q.qclass ≠ 255 ∧ catKind cfg q.qname q.qclass = some .loaded ∧
          Tsig.TimeSigned.tryFromUnix now = some nowT ∧
          Tsig.Algorithm.fromName t.algorithm = some alg ∧ Server.findKey cfg.keys t.keyName alg = some key ∧
          WName.parse t.keyName = some (kn, []) ∧
          Tsig.verifyRequest Tsig.realHmac t mw.toList alg key.secret nowT = .ok () ∧
          S = ServerTsig.withTsig (stRcode 0 (scanState cfg tr bufLen req (Spec.Server.hdr req 0)
                (((req.getD 2 0).toNat &&& 120) >>> 3) (((req.getD 2 0).toNat &&& 1) != 0) q))
              (.response (Server.toWriterAlg alg) t.mac key.secret) (ServerTsig.prepOf kn t nowT 0) ∧
          Good S (qBody (some q)) ∧ QueryReady S qn ∧ HdrView S {} ∧
          (∀ bb w1, (Server.handleQuery cfg (some (qn, q.qtype, q.qclass)) tr >>= fun _ => (pure true : M Bool)) S = (.ok bb, w1) →
            w1.tsig = some (respTsig alg key kn t nowT) ∧
            w1.edns.map (·.payload) =
              (if (Spec.Server.specScanWith (catKind cfg) cfg.payload req).edns then some cfg.payload else none)) ∧
          (.ok (some b) : Out Unit (Option Bytes)) =
            match (Server.handleQuery cfg (some (qn, q.qtype, q.qclass)) tr >>= fun _ => (pure true : M Bool)) S with
            | (.ok true, w1) =>
              (match Writer.finish w1 Server.macFn with
               | .ok (bytes, _) => .ok (some bytes)
               | _ => .panic)
            | (.ok false, _) => .ok none
            | _ => .panic := by
  obtain ⟨t, mw, r', question, h1, h2, hqrel, h4⟩ := handleMessage_tsig_eq cfg tr now bufLen req hbuf hpay hreq hr hv
  refine ⟨t, mw, r', h1, h2, fun r'' S hT hev b hb => ?_⟩
  rw [hT, hb] at h4
  simp only [afterTsig, hev, if_true] at h4
  obtain ⟨_, _, hsce⟩ := specScanWith_respond _ _ _ hr
  unfold preTsigState at hT
  rw [hsce] at hT hqrel hev ⊢
  obtain ⟨q, hq0, c1, c2, c3⟩ := endVerdict_answer _ _ _ _ _ hev
  obtain ⟨nx, hsq⟩ := specBody_question (catKind cfg) cfg.payload req q hq0
  obtain ⟨p, hp, hpw, _, _, hwl⟩ := specQuestionAt_some req 12 _ _ _ nx hsq
  obtain ⟨qn, hqn, hqw⟩ := wname_of_parse req 12 p hp
  rw [hpw] at hqn hqw
  rw [hq0] at hqrel
  cases question with
  | none => exact absurd hqrel (by simp [QRel])
  | some qq =>
    obtain ⟨qn', qt, qc⟩ := qq
    obtain ⟨hqn', hqt, hqc⟩ := hqrel
    have : qn = qn' := by rw [hqn] at hqn'; cases hqn'; rfl
    subst this
    subst hqt hqc
    obtain ⟨gS, hqrS, hvS, h3S⟩ := scanState_facts cfg tr bufLen req hbuf hpay hp16 (Spec.Server.hdr req 0)
      (((req.getD 2 0).toNat &&& 120) >>> 3) (((req.getD 2 0).toNat &&& 1) != 0) q qn nx hsq hqn hqw hwl
    obtain ⟨_, p2, p3⟩ := specBody_props (catKind cfg) cfg.payload req
    have hq : ∀ x, (specBody (catKind cfg) cfg.payload req).question = some x →
        ∃ nx, Spec.specQuestionAt req 12 = some (x.qname, x.qtype, x.qclass, nx) :=
      fun x hx => specBody_question (catKind cfg) cfg.payload req x hx
    obtain ⟨hbase, hcur, _, _, _, h30, hs3, _, _, _, _, _, hrrs, hsz⟩ :=
      s1_facts bufLen tr cfg.payload (Spec.Server.hdr req 0) (((req.getD 2 0).toNat &&& 120) >>> 3)
        (((req.getD 2 0).toNat &&& 1) != 0) hbuf hpay req (specBody (catKind cfg) cfg.payload req).question hq
    rw [hq0] at hT hbase hs3 hsz h30 hcur hrrs
    unfold Server.tsigAfter at hT
    cases hnow : Tsig.TimeSigned.tryFromUnix now with
    | none => rw [hnow] at hT; cases hT
    | some nowT =>
      rw [hnow] at hT
      simp only at hT
      have h12s : 12 ≤ (scanState cfg tr bufLen req (Spec.Server.hdr req 0)
          (((req.getD 2 0).toNat &&& 120) >>> 3) (((req.getD 2 0).toNat &&& 1) != 0) q).octets.size := by
        show 12 ≤ (arSt _ tr cfg.payload _ _).octets.size
        rw [arSt_size, hsz]; cases tr <;> simp only [minBuf] at hbuf <;> omega
      obtain ⟨alg, key, kn, ha, hk, hkn, hver, _, hfit, hS⟩ :=
        tsigProcess_some_state Tsig.realHmac cfg.keys _ h12s t mw.toList nowT r' r'' S hT
      obtain ⟨hX, _⟩ := sigSt_facts _ tr cfg.payload (specBody (catKind cfg) cfg.payload req).edns
        (specBody (catKind cfg) cfg.payload req).limitUdp 0 0 (by omega) (by omega)
        hbase h30 hs3 p2 p3 (.response (Server.toWriterAlg alg) t.mac key.secret) (ServerTsig.prepOf kn t nowT 0)
      have gB := good_stRcode 0 _ _ gS h3S
      obtain ⟨l1, l2⟩ := prepOf_lengths kn t nowT 0
      have hfit' := (stRcode_fits 0 _ _ _).mpr hfit
      have gC := good_withTsig (.response (Server.toWriterAlg alg) t.mac key.secret) (ServerTsig.prepOf kn t nowT 0) _ _ gB
        hfit' (parse_wf hkn) (algName_wf _) l1 l2
      have hqr := queryReady_withTsig _ qn hqrS (.response (Server.toWriterAlg alg) t.mac key.secret)
        (ServerTsig.prepOf kn t nowT 0) hfit' ⟨parse_wf hkn, algName_wf _, l1, l2⟩
      have hhv := hdrView_withTsig _ h3S hvS (.response (Server.toWriterAlg alg) t.mac key.secret)
        (ServerTsig.prepOf kn t nowT 0)
      have hSrr : S.rrStart = (qSt (hdrSt (w0 bufLen (lim0 tr)) (Spec.Server.hdr req 0)
          (((req.getD 2 0).toNat &&& 120) >>> 3) (((req.getD 2 0).toNat &&& 1) != 0)) (some q)).rrStart := by
        rw [hS]
        show (stRcode 0 (arSt _ tr cfg.payload _ _)).rrStart = _
        have : ∀ x : State, (stRcode 0 x).rrStart = x.rrStart := by
          intro x; unfold stRcode stHdr; cases x.edns <;> rfl
        rw [this]
        cases (specBody (catKind cfg) cfg.payload req).edns <;> cases tr <;> rfl
      have hX' := hX
      rw [← hS] at hX'
      have hfr := framed_bind (k := true) (Server.framed_handleQuery 12 (by omega) cfg (some (qn, q.qtype, q.qclass)) tr)
        (fun _ => framed_pure 12 true) S (by rw [hX'.cur, hcur]; omega) (by rw [hSrr, hrrs]; omega)
      refine ⟨q, qn, nowT, alg, key, kn, hq0, hqn, c1, c2, c3, rfl, ha, hk, hkn, hver, hS, by rw [hS]; exact gC,
        by rw [hS]; exact hqr, by rw [hS]; exact hhv, ?_, h4⟩
      intro bb w1 hres
      rw [hres] at hfr
      obtain ⟨k1, k2⟩ := hfr.keep rfl
      simp only at k1 k2
      refine ⟨by rw [k1, hX'.tsig]; rfl, ?_⟩
      rw [k2, hX'.edns]
      cases (specBody (catKind cfg) cfg.payload req).edns <;> rfl


end QV.ServerContent
