/-
  QV.Proofs.ServerAnswerDecode — the final writer of a response that a loaded zone produces is
  `Good` (writer invariant + content layout, Proofs/ServerSignedDecode.lean), and its body is the
  question plus the records of the successful logged calls of the answering phase: the threading
  lemma of Proofs/ServerAnswerContent.lean put on the state the scan hands over.
-/
import QV.Proofs.ServerAnswerContent
import QV.Proofs.ServerAnswerEntry
import QV.Proofs.ServerAnswerTypes
import QV.Proofs.ServerSignedDecode
import QV.Proofs.ServerEcho

namespace QV.ServerContent
open QV QV.Writer QV.Server QV.ServerSafety QV.ServerScan QV.ServerAnswer QV.Spec.Resolve

/-! ### the body of the log and the view of the log -/

/-- a record of the content layout as a record of the resolution spec (owner case-folded) -/
def recRR (r : RRec) : RR := ⟨fold r.owner, r.ty, r.cls, r.ttl, r.rdata⟩

/-- the TTL as `Ttl::from` stores it -/
def clampTtl (x : RR) : RR := { x with ttl := Writer.ttlFrom x.ttl }

/-- the records of a body are those of a view -/
def BodyView (b : Body) (v : View) : Prop :=
  b.an.map recRR = v.answer.map clampTtl ∧ b.ns.map recRR = v.authority.map clampTtl ∧
  b.ar.map recRR = v.additional.map clampTtl

theorem evRecs_view (a : AddEv) : (evRecs a).map recRR = (evRecords a).map clampTtl := by
  simp only [evRecs, evRecords, List.map_map]
  rfl

theorem bodyView_step (b : Body) (v : View) (h : BodyView b v) (e : Ev) : BodyView (evBody b e) (v.step e) := by
  obtain ⟨h1, h2, h3⟩ := h
  cases e with
  | add a =>
    simp only [evBody, View.step]
    cases hr : a.res with
    | ok u =>
      cases u
      simp only
      have := evRecs_view a
      cases a.sec
      · exact ⟨by simp only [Body.add, View.addTo, List.map_append, h1, this], h2, h3⟩
      · exact ⟨h1, by simp only [Body.add, View.addTo, List.map_append, h2, this], h3⟩
      · exact ⟨h1, h2, by simp only [Body.add, View.addTo, List.map_append, h3, this]⟩
    | err x => exact ⟨h1, h2, h3⟩
    | panic => exact ⟨h1, h2, h3⟩
  | aa x => exact ⟨h1, h2, h3⟩
  | rcode x => exact ⟨h1, h2, h3⟩
  | tc x => exact ⟨h1, h2, h3⟩
  | clear => exact ⟨rfl, rfl, rfl⟩
  | bad => exact ⟨h1, h2, h3⟩

theorem bodyView_foldl (log : List Ev) : ∀ (b : Body) (v : View), BodyView b v →
    BodyView (log.foldl evBody b) (log.foldl View.step v) := by
  induction log with
  | nil => intro b v h; exact h
  | cons e rest ih => intro b v h; exact ih _ _ (bodyView_step b v h e)

/-- **the body the log denotes is the view the log denotes** (C05's abstraction), record for
    record: owner case-folded, TYPE, CLASS, RDATA as handed over, TTL as `Ttl::from` stores it -/
theorem bodyOf_view (b0 : Body) (hb : b0.an = [] ∧ b0.ns = [] ∧ b0.ar = []) (log : List Ev) :
    BodyView (bodyOf b0 log) (view log) :=
  bodyView_foldl log b0 {} ⟨by rw [hb.1]; rfl, by rw [hb.2.1]; rfl, by rw [hb.2.2]; rfl⟩

theorem evBody_qs (b : Body) (e : Ev) : (evBody b e).qs = b.qs := by
  cases e with
  | add a =>
    simp only [evBody]
    cases a.res with
    | ok u => simp only; cases a.sec <;> rfl
    | err x => rfl
    | panic => rfl
  | aa x => rfl
  | rcode x => rfl
  | tc x => rfl
  | clear => rfl
  | bad => rfl

/-- the answering phase never touches the questions -/
theorem bodyOf_qs (b0 : Body) (log : List Ev) : (bodyOf b0 log).qs = b0.qs := by
  unfold bodyOf
  induction log generalizing b0 with
  | nil => rfl
  | cons e rest ih => rw [List.foldl_cons, ih, evBody_qs]

/-- the types of the records of a section carry over from the view -/
theorem bodyView_types {b : Body} {v : View} (h : BodyView b v) (Q : Nat → Prop)
    (hv : ∀ r ∈ v.additional, Q r.rtype) : ∀ r ∈ b.ar, Q r.ty := by
  intro r hr
  have : recRR r ∈ b.ar.map recRR := List.mem_map.mpr ⟨r, hr, rfl⟩
  rw [h.2.2] at this
  obtain ⟨x, hx, hxe⟩ := List.mem_map.mp this
  have := hv x hx
  have e : x.rtype = r.ty := by
    have := congrArg RR.rtype hxe
    exact this
  rw [e] at this; exact this

/-! ### `handle_non_axfr_query` on a `Good` writer -/

theorem handleNonAxfrQuery_state (z : Zone.Zone) (qname : WName) (qtype : Nat) (tr : Transport) (w : State) :
    (handleNonAxfrQuery z qname qtype tr w).2 = (handleNonAxfrQueryL z qname qtype tr ⟨w, []⟩).2.w := by
  unfold handleNonAxfrQuery
  rcases handleNonAxfrQueryL z qname qtype tr ⟨w, []⟩ with ⟨(u | e | _), s'⟩ <;> rfl

/-- **the writer `handle_non_axfr_query` leaves is `Good`**, and it holds the questions it held
    plus the records of the logged `add_*` calls that succeeded -/
theorem good_handleNonAxfrQueryL (z : Zone.Zone) (hz : ZoneOK z) (qname : WName) (hq : qname.WF)
    (qtype : Nat) (tr : Transport) (hsub : z.apex <:+ fold qname) (w : State) (b0 : Body) (hG : Good w b0)
    (hh : HintOK Writer.Den w .qname qname) :
    Good (handleNonAxfrQueryL z qname qtype tr ⟨w, []⟩).2.w
      (bodyOf b0 (handleNonAxfrQueryL z qname qtype tr ⟨w, []⟩).2.log) := by
  obtain ⟨hI, hl, mb, hc⟩ := hG
  exact clay_handleNonAxfrQueryL z hz qname hq qtype tr hsub w hI hh hl mb hc

/-- … in particular its own additional records are address records (C05's log-level fact
    `LogsT.inner`, carried to the layout) -/
theorem bodyOf_handle_ar_types (z : Zone.Zone) (qname : WName) (qtype : Nat) (tr : Transport) (w : State)
    (b0 : Body) (hb : b0.an = [] ∧ b0.ns = [] ∧ b0.ar = [])
    (hnp : (handleNonAxfrQueryL z qname qtype tr ⟨w, []⟩).1 ≠ .panic) :
    ∀ r ∈ (bodyOf b0 (handleNonAxfrQueryL z qname qtype tr ⟨w, []⟩).2.log).ar, r.ty = 1 ∨ r.ty = 28 := by
  refine bodyView_types (bodyOf_view b0 hb _) (fun t => t = 1 ∨ t = 28) ?_
  obtain ⟨hlog, _⟩ := handle_log_np z qname qtype tr ⟨w, []⟩ hnp
  obtain ⟨evs, hl, hP, _⟩ := LogsT.inner z qname qtype ⟨w, []⟩
  simp only [List.nil_append] at hl
  apply view_additional_types
  rw [hlog, hl]
  intro e he
  rcases List.mem_append.mp he with h | h
  · exact hP e h
  · intro a ha
    subst ha
    rcases hr : (inner z qname qtype ⟨w, []⟩).1 with u | x | _
    · rw [hr] at h; simp [tailEvs] at h
    · rw [hr] at h
      cases x with
      | servFail => simp [tailEvs] at h
      | truncation =>
        simp only [tailEvs] at h
        split at h <;> simp at h
    · rw [hr] at h; simp [tailEvs] at h

/-! ### `handle_query` on a `Good` writer -/

/-- whatever branch `handle_query` takes (NOTIMP / REFUSED / SERVFAIL by `set_rcode`, or a loaded
    zone answering), the writer it leaves is `Good`; its questions are those it held, and its own
    additional records are address records -/
theorem good_handleQuery (cfg : Cfg) (hcfg : CfgWF cfg) (tr : Transport) (qn : WName) (qt qc : Nat)
    (S : State) (b0 : Body) (hG : Good S b0) (hb : b0.an = [] ∧ b0.ns = [] ∧ b0.ar = []) (hq : qn.WF)
    (hh : HintOK Writer.Den S .qname qn) (h3 : 3 < S.octets.size) :
    ∃ bd, Good (handleQuery cfg (some (qn, qt, qc)) tr S).2 bd ∧ bd.qs = b0.qs ∧
      ∀ r ∈ bd.ar, r.ty = 1 ∨ r.ty = 28 := by
  have hrc : ∀ rc, ∃ bd, Good (setRcode rc S).2 bd ∧ bd.qs = b0.qs ∧ ∀ r ∈ bd.ar, r.ty = 1 ∨ r.ty = 28 := by
    intro rc
    rw [setRcode_eq rc S h3]
    exact ⟨b0, good_stRcode rc S b0 hG h3, rfl, by rw [hb.2.2]; simp⟩
  unfold handleQuery
  simp only
  split
  · exact hrc _
  · split
    · exact hrc _
    · cases hl : Catalog.lookup (mkCatalog cfg.zones) qn.labels qc with
      | none => exact hrc _
      | some e =>
        simp only
        obtain ⟨ze, hze, hname, hkind, hsuf⟩ := mkCatalog_lookup cfg.zones qn.labels qc e hl
        cases hk : e.kind with
        | Loaded =>
          simp only [hze]
          obtain ⟨hawf, haeq, hnode⟩ := hcfg.zones ze (List.mem_of_getElem? hze)
          have hz : ZoneOK ze.zone := ⟨by rw [haeq]; exact fold_wf _ hawf, hnode⟩
          have hsub : ze.zone.apex <:+ fold qn := by rw [haeq]; exact hsuf
          rw [handleNonAxfrQuery_state]
          have hnp := (handleNonAxfrQueryL_safe Writer.writerSafe ze.zone hz qn hq qt tr hsub ⟨S, []⟩ hG.1 hh).1
          exact ⟨_, good_handleNonAxfrQueryL ze.zone hz qn hq qt tr hsub S b0 hG hh, bodyOf_qs _ _,
            bodyOf_handle_ar_types ze.zone qn qt tr S b0 hb hnp⟩
        | NotYetLoaded => exact hrc _
        | FailedToLoad => exact hrc _

/-! ### the final writer of a response that a loaded zone produces -/

/-- **when a loaded zone answers** (verdict `answer`, no TSIG): the writer `handle_message` hands to
    `finish` is `Good` — the writer's invariant, a limit of at most 65 535 octets, and the content
    layout of: the question, then the records of the successful `add_*` calls of the answering
    phase; its own additional records are address records. -/
theorem answer_final_good (cfg : Cfg) (hcfg : CfgWF cfg) (tr : Transport) (now bufLen : Nat) (req : Bytes)
    (hbuf : minBuf tr cfg.payload ≤ bufLen) (hpay : 512 ≤ cfg.payload) (hp16 : cfg.payload ≤ 65535)
    (h12 : 12 ≤ req.size) (hreq : req.size ≤ Rdata.USIZE_MAX) (id opcode : Nat) (rd : Bool)
    (hv : (specBody (catKind cfg) cfg.payload req).verdict = .answer) :
    ∃ bd, Good (handleWithContext cfg tr now ⟨req, 12, none⟩ (hdrSt (w0 bufLen (lim0 tr)) id opcode rd)).2 bd ∧
      bd.qs = (qBody (specBody (catKind cfg) cfg.payload req).question).qs ∧
      ∀ r ∈ bd.ar, r.ty = 1 ∨ r.ty = 28 := by
  obtain ⟨hqd, han, hns, har, _, hop, _, _⟩ := reader_header req h12
  have hH := hdrSt_ok bufLen tr cfg.payload id opcode rd hbuf hpay
  rw [Server.handleWithContext_split]
  unfold Server.handleWithContext'
  simp only [hqd, han, hns, har, hop, opcode_bits]
  by_cases hq0 : Spec.Server.hdr req 4 = 0
  · exfalso
    have : specBody (catKind cfg) cfg.payload req = specTail (catKind cfg) cfg.payload req none 12
        (Spec.Server.hdr req 6) (Spec.Server.hdr req 8) (Spec.Server.hdr req 10) ((req.getD 2 0).toNat / 8 % 16) := by
      unfold specBody
      simp only [hq0, show ¬ (0 > 1) by omega, if_false, if_true]
    rw [this] at hv
    exact specTail_none_not_answer _ _ _ _ _ _ _ _ hv
  · by_cases hq1 : Spec.Server.hdr req 4 = 1
    · simp only [hq1, show ¬ ((1 : Nat) = 0) by omega, if_false, if_true]
      have hrq := readQuestion_spec (⟨req, 12, none⟩ : Reader.Reader)
      cases hsq : Spec.specQuestionAt req 12 with
      | none =>
        exfalso
        have : specBody (catKind cfg) cfg.payload req = { respond := true, verdict := .formErr } := by
          unfold specBody
          simp only [hq1, show ¬ ((1 : Nat) > 1) by omega, if_false, show ¬ ((1 : Nat) = 0) by omega, hsq]
        rw [this] at hv; cases hv
      | some v =>
        obtain ⟨w, t, c, nx⟩ := v
        rw [show (⟨req, 12, none⟩ : Reader.Reader).octets = req from rfl,
          show (⟨req, 12, none⟩ : Reader.Reader).cursor = 12 from rfl, hsq] at hrq
        simp only at hrq
        obtain ⟨p, hp, hpw, hnx, hnxs, hwl⟩ := specQuestionAt_some req 12 w t c nx hsq
        obtain ⟨qn, hqn, hqw⟩ := wname_of_parse req 12 p hp
        rw [hpw] at hqn hqw
        have hsc : specBody (catKind cfg) cfg.payload req = specTail (catKind cfg) cfg.payload req (some ⟨w, t, c⟩) nx
            (Spec.Server.hdr req 6) (Spec.Server.hdr req 8) (Spec.Server.hdr req 10) ((req.getD 2 0).toNat / 8 % 16) := by
          unfold specBody
          simp only [hq1, show ¬ ((1 : Nat) > 1) by omega, if_false, show ¬ ((1 : Nat) = 0) by omega, hsq]
        rw [hsc] at hv ⊢
        obtain ⟨hadd, hbase, _, hcur, _, _, _, _, hrrs⟩ := qSt_some _ tr cfg.payload hH ⟨w, t, c⟩ qn hqn hqw hwl
        simp only [hrq, hqn]
        have hQ : Server.addQuestionOrServfail (some (qn, t, c)) (hdrSt (w0 bufLen (lim0 tr)) id opcode rd) =
            (.ok true, qSt (hdrSt (w0 bufLen (lim0 tr)) id opcode rd) (some ⟨w, t, c⟩)) := by
          show (match addQuestion qn t c _ with
            | (.ok (), s') => ((.ok true : Out WriterErr Bool), s')
            | (.err _, s') => (do setRcode (Server.RC "SERVFAIL"); pure false : M Bool) s'
            | (.panic, s') => (.panic, s')) = _
          rw [hadd]
        rw [bind_ok hQ]
        simp only [Bool.not_true, Bool.false_eq_true, if_false]
        rw [scanAndDispatch_answer cfg tr now req (some ⟨w, t, c⟩) (some (qn, t, c))
          ⟨req, nx, none⟩ ⟨h12, hnxs⟩ rfl _ hbase hreq tsigFacts _ _ _ _ hv]
        obtain ⟨_, hl1, hl2, hqq⟩ := specTail_props (catKind cfg) cfg.payload req (some ⟨w, t, c⟩) nx
          (Spec.Server.hdr req 6) (Spec.Server.hdr req 8) (Spec.Server.hdr req 10) ((req.getD 2 0).toNat / 8 % 16)
        rw [hqq]
        generalize hsce : (specTail (catKind cfg) cfg.payload req (some ⟨w, t, c⟩) nx (Spec.Server.hdr req 6)
          (Spec.Server.hdr req 8) (Spec.Server.hdr req 10) ((req.getD 2 0).toNat / 8 % 16)).edns = e
        generalize hscl : (specTail (catKind cfg) cfg.payload req (some ⟨w, t, c⟩) nx (Spec.Server.hdr req 6)
          (Spec.Server.hdr req 8) (Spec.Server.hdr req 10) ((req.getD 2 0).toNat / 8 % 16)).limitUdp = l at hl1 hl2
        have hqwf : qn.WF := parse_wf hqn
        have hqr := queryReady_scan_state bufLen tr cfg.payload id opcode rd hbuf hpay hp16 ⟨w, t, c⟩ qn hqn hqw hwl
          hqwf e l hl1 hl2
        have hq : ∀ x, (some (⟨w, t, c⟩ : Spec.DQuestion)) = some x →
            ∃ nx, Spec.specQuestionAt req 12 = some (x.qname, x.qtype, x.qclass, nx) := by
          intro x hx; cases hx; exact ⟨nx, hsq⟩
        have g1 := good_s1 bufLen tr cfg.payload id opcode rd hbuf hpay req (some ⟨w, t, c⟩) hq
        have g2 := good_arSt _ tr cfg.payload e l _ g1 hbase hl1 hl2 hp16
        have h3 : 3 < (arSt (qSt (hdrSt (w0 bufLen (lim0 tr)) id opcode rd) (some ⟨w, t, c⟩)) tr cfg.payload e l).octets.size := by
          rw [arSt_size]; exact hbase.size3
        obtain ⟨bd, hgd, hqs, hty⟩ := good_handleQuery cfg hcfg tr qn t c _ _ g2 (qBody_norecs _) hqwf hqr.hint h3
        refine ⟨bd, ?_, hqs, hty⟩
        rw [bind_apply]
        generalize Server.handleQuery cfg (some (qn, t, c)) tr
          (arSt (qSt (hdrSt (w0 bufLen (lim0 tr)) id opcode rd) (some ⟨w, t, c⟩)) tr cfg.payload e l) = res at hgd
        obtain ⟨o, s'⟩ := res
        cases o <;> exact hgd
    · exfalso
      have hgt : Spec.Server.hdr req 4 > 1 := by omega
      have : specBody (catKind cfg) cfg.payload req = { respond := false } := by
        unfold specBody
        simp only [hgt, if_true]
      rw [this] at hv; cases hv

/-- **authenticated signed requests that a loaded zone answers**: the writer handed to `finish` is
    `Good` — the question, then the records of the successful `add_*` calls of the answering phase,
    address records only in the additional section — and it carries the response TSIG; its EDNS slot
    is set, with the server's payload size, iff the scan reached an OPT. -/
theorem signed_answer_final (cfg : Cfg) (hcfg : CfgWF cfg) (tr : Transport) (now bufLen : Nat) (req : Bytes)
    (hbuf : minBuf tr cfg.payload ≤ bufLen) (hpay : 512 ≤ cfg.payload) (hp16 : cfg.payload ≤ 65535)
    (hreq : req.size ≤ Rdata.USIZE_MAX)
    (hr : (Spec.Server.specScanWith (catKind cfg) cfg.payload req).respond = true)
    (hv : (Spec.Server.specScanWith (catKind cfg) cfg.payload req).verdict = .tsigReached) :
    ∃ (t : Tsig.ReadTsigRr) (mw : Bytes) (r' : Reader.Reader), r'.octets = req ∧ r'.cursor ≤ req.size ∧
      ∀ r'' S, Server.tsigAfter cfg now t mw r' (preTsigState cfg tr bufLen req) = (.ok (some r''), S) →
        endVerdict (catKind cfg) req.size (Spec.Server.specScanWith (catKind cfg) cfg.payload req).question
          r'.cursor ((req.getD 2 0).toNat / 8 % 16) = .answer →
      ∀ b, Server.handleMessage cfg tr now bufLen req = .ok (some b) →
        ∃ nowT alg key kn F mac bd, Tsig.TimeSigned.tryFromUnix now = some nowT ∧
          Tsig.Algorithm.fromName t.algorithm = some alg ∧ Server.findKey cfg.keys t.keyName alg = some key ∧
          WName.parse t.keyName = some (kn, []) ∧
          Tsig.verifyRequest Tsig.realHmac t mw.toList alg key.secret nowT = .ok () ∧
          Writer.finish F Server.macFn = .ok (b, mac) ∧ Good F bd ∧
          bd.qs = (qBody (Spec.Server.specScanWith (catKind cfg) cfg.payload req).question).qs ∧
          (∀ r ∈ bd.ar, r.ty = 1 ∨ r.ty = 28) ∧
          F.tsig = some (respTsig alg key kn t nowT) ∧
          F.edns.map (·.payload) =
            (if (Spec.Server.specScanWith (catKind cfg) cfg.payload req).edns then some cfg.payload else none) := by
  obtain ⟨t, mw, r', question, h1, h2, hqrel, h4⟩ := handleMessage_tsig_eq cfg tr now bufLen req hbuf hpay hreq hr hv
  refine ⟨t, mw, r', h1, h2, fun r'' S hT hev b hb => ?_⟩
  rw [hT, hb] at h4
  simp only [afterTsig, hev, if_true] at h4
  obtain ⟨_, _, hsce⟩ := specScanWith_respond _ _ _ hr
  unfold preTsigState at hT
  rw [hsce] at hT hqrel hev ⊢
  -- the question
  cases hq0 : (specBody (catKind cfg) cfg.payload req).question with
  | none =>
    exfalso
    rw [hq0] at hev
    unfold endVerdict at hev
    split at hev
    · cases hev
    · split at hev <;> cases hev
  | some q =>
    obtain ⟨nx, hsq⟩ := specBody_question (catKind cfg) cfg.payload req q hq0
    obtain ⟨p, hp, hpw, _, _, hwl⟩ := specQuestionAt_some req 12 _ _ _ nx hsq
    obtain ⟨qn, hqn, hqw⟩ := wname_of_parse req 12 p hp
    rw [hpw] at hqn hqw
    rw [hq0] at hqrel
    cases question with
    | none => exact absurd hqrel (by simp [QRel])
    | some qq =>
      obtain ⟨qn', qt, qc⟩ := qq
      obtain ⟨hqn', hqt, hqc⟩ := hqrel
      have : qn = qn' := by rw [hqn] at hqn'; cases hqn'; rfl
      subst this
      obtain ⟨_, p2, p3⟩ := specBody_props (catKind cfg) cfg.payload req
      have hq : ∀ x, (specBody (catKind cfg) cfg.payload req).question = some x →
          ∃ nx, Spec.specQuestionAt req 12 = some (x.qname, x.qtype, x.qclass, nx) :=
        fun x hx => specBody_question (catKind cfg) cfg.payload req x hx
      obtain ⟨hbase, hcur, _, _, _, h30, hs3, _, _, _, _, _, hrrs, hsz⟩ :=
        s1_facts bufLen tr cfg.payload (Spec.Server.hdr req 0) (((req.getD 2 0).toNat &&& 120) >>> 3)
          (((req.getD 2 0).toNat &&& 1) != 0) hbuf hpay req (specBody (catKind cfg) cfg.payload req).question hq
      have g1 := good_s1 bufLen tr cfg.payload (Spec.Server.hdr req 0) (((req.getD 2 0).toNat &&& 120) >>> 3)
          (((req.getD 2 0).toNat &&& 1) != 0) hbuf hpay req (specBody (catKind cfg) cfg.payload req).question hq
      rw [hq0] at hT g1 hbase hs3 hsz h30 hcur hrrs
      generalize hsce' : (specBody (catKind cfg) cfg.payload req).edns = e at *
      generalize hscl' : (specBody (catKind cfg) cfg.payload req).limitUdp = l at *
      unfold Server.tsigAfter at hT
      cases hnow : Tsig.TimeSigned.tryFromUnix now with
      | none => rw [hnow] at hT; cases hT
      | some nowT =>
        rw [hnow] at hT
        simp only at hT
        have h3s : 3 < (arSt (qSt (hdrSt (w0 bufLen (lim0 tr)) (Spec.Server.hdr req 0)
            (((req.getD 2 0).toNat &&& 120) >>> 3) (((req.getD 2 0).toNat &&& 1) != 0)) (some q)) tr cfg.payload e l).octets.size := by
          rw [arSt_size]; exact hs3
        have h12s : 12 ≤ (arSt (qSt (hdrSt (w0 bufLen (lim0 tr)) (Spec.Server.hdr req 0)
            (((req.getD 2 0).toNat &&& 120) >>> 3) (((req.getD 2 0).toNat &&& 1) != 0)) (some q)) tr cfg.payload e l).octets.size := by
          rw [arSt_size, hsz]; cases tr <;> simp only [minBuf] at hbuf <;> omega
        obtain ⟨alg, key, kn, ha, hk, hkn, hver, _, hfit, hS⟩ :=
          tsigProcess_some_state Tsig.realHmac cfg.keys _ h12s t mw.toList nowT r' r'' S hT
        obtain ⟨hX, _⟩ := sigSt_facts _ tr cfg.payload e l 0 0 (by omega) (by omega)
          hbase h30 hs3 p2 p3 (.response (Server.toWriterAlg alg) t.mac key.secret) (ServerTsig.prepOf kn t nowT 0)
        rw [← hS] at hX
        -- the state handed to `handle_query` is `Good` and `QueryReady`
        have gA := good_arSt _ tr cfg.payload e l _ g1 hbase p2 p3 hp16
        have gB := good_stRcode 0 _ _ gA h3s
        obtain ⟨l1, l2⟩ := prepOf_lengths kn t nowT 0
        have hfit' := (stRcode_fits 0 _ _ _).mpr hfit
        have gC := good_withTsig (.response (Server.toWriterAlg alg) t.mac key.secret) (ServerTsig.prepOf kn t nowT 0) _ _ gB
          hfit' (parse_wf hkn) (algName_wf _) l1 l2
        have hqr := queryReady_signed_state bufLen tr cfg.payload (Spec.Server.hdr req 0)
          (((req.getD 2 0).toNat &&& 120) >>> 3) (((req.getD 2 0).toNat &&& 1) != 0) hbuf hpay hp16 q qn hqn hqw hwl
          (parse_wf hqn) e l p2 p3 alg t.mac key.secret t kn nowT hkn hfit'
        rw [← hS] at gC hqr
        have h3c : 3 < S.octets.size := by
          rw [hS]
          show 3 < (stRcode 0 _).octets.size
          have : ∀ x : State, (stRcode 0 x).octets.size = x.octets.size := by
            intro x; unfold stRcode stHdr; cases x.edns <;> simp
          rw [this]; exact h3s
        have hSrr : S.rrStart = (qSt (hdrSt (w0 bufLen (lim0 tr)) (Spec.Server.hdr req 0)
            (((req.getD 2 0).toNat &&& 120) >>> 3) (((req.getD 2 0).toNat &&& 1) != 0)) (some q)).rrStart := by
          rw [hS]
          show (stRcode 0 (arSt _ tr cfg.payload e l)).rrStart = _
          have : ∀ x : State, (stRcode 0 x).rrStart = x.rrStart := by
            intro x; unfold stRcode stHdr; cases x.edns <;> rfl
          rw [this]
          cases e <;> cases tr <;> rfl
        -- the answering phase keeps the TSIG slot and the EDNS payload
        have hfr := framed_bind (k := true) (Server.framed_handleQuery 12 (by omega) cfg (some (qn, qt, qc)) tr)
          (fun _ => framed_pure 12 true) S (by rw [hX.cur, hcur]; omega) (by rw [hSrr, hrrs]; omega)
        obtain ⟨k1, k2⟩ := hfr.keep rfl
        obtain ⟨bd, hgd, hqs, hty⟩ := good_handleQuery cfg hcfg tr qn qt qc S _ gC (qBody_norecs _) (parse_wf hqn)
          hqr.hint h3c
        have hgd' : Good ((Server.handleQuery cfg (some (qn, qt, qc)) tr >>= fun _ => (pure true : M Bool)) S).2 bd := by
          rw [bind_apply]
          generalize Server.handleQuery cfg (some (qn, qt, qc)) tr S = res at hgd
          obtain ⟨o, s'⟩ := res
          cases o <;> exact hgd
        rcases hq : (Server.handleQuery cfg (some (qn, qt, qc)) tr >>= fun _ => (pure true : M Bool)) S with ⟨(bb | e | _), w1⟩
        · rw [hq] at h4 k1 k2 hgd'
          simp only at k1 k2 hgd'
          cases bb with
          | false => simp only at h4; cases h4
          | true =>
            simp only at h4
            rcases hfin : Writer.finish w1 Server.macFn with ⟨bytes, mac⟩ | e | _
            · rw [hfin] at h4
              simp only [Out.ok.injEq, Option.some.injEq] at h4
              subst h4
              refine ⟨nowT, alg, key, kn, w1, mac, bd, rfl, ha, hk, hkn, hver, hfin, hgd', hqs, hty, ?_, ?_⟩
              · rw [k1, hX.tsig]; rfl
              · rw [k2, hX.edns]; cases e <;> rfl
            · rw [hfin] at h4; cases h4
            · rw [hfin] at h4; cases h4
        · rw [hq] at h4; cases h4
        · rw [hq] at h4; cases h4

end QV.ServerContent
