/-
  QV.Proofs.ZoneOracle — the executable reference checker `specValidate` (the oracle the driver
  runs) computes exactly the declarative one (`InvalidRdata`, `HasIssue`).
-/
import QV.Proofs.ZoneValidate

set_option linter.unusedSimpArgs false
namespace QV.Spec.Zone
open QV QV.NameL QV.Zone

theorem specValidate_none (nameOf : NameOf) (s : SZone) : specValidate nameOf s = none ↔ InvalidRdata nameOf s := by
  unfold specValidate InvalidRdata
  simp only []
  split
  · rename_i hc
    simp only [true_iff]
    simp only [Bool.and_eq_true, Bool.or_eq_true, List.any_eq_true, List.mem_filter, beq_iff_eq, Option.isNone_iff_eq_none] at hc
    refine ⟨hc.1, ?_⟩
    rcases hc.2 with ⟨r, ⟨hr, ht⟩, hn⟩ | ⟨r, ⟨hr, ht⟩, hn⟩
    · exact ⟨r, hr, Or.inl ⟨ht, hn⟩⟩
    · exact ⟨r, hr, Or.inr ⟨ht, hn⟩⟩
  · rename_i hc
    simp only [reduceCtorEq, false_iff]
    rintro ⟨hac, r, hr, hcase⟩
    apply hc
    simp only [Bool.and_eq_true, Bool.or_eq_true, List.any_eq_true, List.mem_filter, beq_iff_eq, Option.isNone_iff_eq_none]
    refine ⟨hac, ?_⟩
    rcases hcase with ⟨ht, hn⟩ | ⟨ht, hn⟩
    · exact Or.inl ⟨r, ⟨hr, ht⟩, hn⟩
    · exact Or.inr ⟨r, ⟨hr, ht⟩, hn⟩

theorem mem_apexIssues (s : SZone) (i : Issue) :
    i ∈ apexIssues s ↔ (i = .MissingApexSoa ∧ ¬ Owns s s.apex SOA) ∨
      (i = .TooManyApexSoas ∧ 2 ≤ (s.recs.filter (fun r => r.owner == s.apex && r.rtype == SOA)).length) ∨
      (i = .MissingApexNs ∧ ¬ Owns s s.apex NS) := by
  unfold apexIssues
  simp only [List.mem_append]
  have h1 : (s.recs.filter (fun r => r.owner == s.apex && r.rtype == SOA)).isEmpty = true ↔ ¬ Owns s s.apex SOA := by
    rw [List.isEmpty_iff, ← rrset_eq_none]
    unfold rrset
    split <;> simp_all
  have h3 : (!owns s s.apex NS) = true ↔ ¬ Owns s s.apex NS := by
    rw [← owns_iff]; simp
  constructor
  · rintro ((hi | hi) | hi)
    · split at hi
      · rename_i hc; simp at hi; exact Or.inl ⟨hi, h1.mp hc⟩
      · simp at hi
    · split at hi
      · rename_i hc; simp at hi; exact Or.inr (Or.inl ⟨hi, hc⟩)
      · simp at hi
    · split at hi
      · rename_i hc; simp at hi; exact Or.inr (Or.inr ⟨hi, h3.mp hc⟩)
      · simp at hi
  · rintro (⟨hi, hc⟩ | ⟨hi, hc⟩ | ⟨hi, hc⟩)
    · left; left; rw [if_pos (h1.mpr hc)]; simp [hi]
    · left; right; rw [if_pos hc]; simp [hi]
    · right; rw [if_pos (h3.mpr hc)]; simp [hi]

theorem mem_nsRecIssues (nameOf : NameOf) (s : SZone) (r : Rec) (i : Issue) :
    i ∈ nsRecIssues nameOf s r ↔ ∃ g, nameOf r.rdata = some g ∧
      ((i = .MissingNsAddress g ∧ noAddress s g = true) ∨
       (i = .MissingGlue g ∧ r.owner ≠ s.apex ∧ needsGlue s r.owner g = true ∧ glueOk s g = false)) := by
  unfold nsRecIssues
  cases hn : nameOf r.rdata with
  | none => simp
  | some g =>
    simp only [List.mem_append, Option.some.injEq, exists_eq_left']
    constructor
    · rintro (hi | hi)
      · split at hi
        · rename_i hc; simp at hi; exact Or.inl ⟨hi, hc⟩
        · simp at hi
      · split at hi
        · rename_i hc; simp at hi
          simp only [Bool.and_eq_true, bne_iff_ne, ne_eq, Bool.not_eq_true'] at hc
          exact Or.inr ⟨hi, hc.1.1, hc.1.2, hc.2⟩
        · simp at hi
    · rintro (⟨hi, hc⟩ | ⟨hi, h1, h2, h3⟩)
      · left; rw [if_pos hc]; simp [hi]
      · right
        rw [if_pos (by simp [h1, h2, h3])]; simp [hi]

theorem mem_mxRecIssues (nameOf : NameOf) (s : SZone) (r : Rec) (i : Issue) :
    i ∈ mxRecIssues nameOf s r ↔ ∃ g, mxName nameOf r.rdata = some g ∧ i = .MissingMxAddress g ∧ noAddress s g = true := by
  unfold mxRecIssues
  cases hn : mxName nameOf r.rdata with
  | none => simp
  | some g =>
    simp only [Option.some.injEq, exists_eq_left']
    split
    · rename_i hc; simp [hc]
    · rename_i hc; simp [hc]

theorem mem_ownerIssues (s : SZone) (o : Name) (i : Issue) :
    i ∈ ownerIssues s o ↔
      (i = .DuplicateCname o ∧ 2 ≤ (s.recs.filter (fun r => r.owner == o && r.rtype == CNAME)).length) ∨
      (i = .OtherRecordsAtCname o ∧ Owns s o CNAME ∧ ∃ t, t ≠ CNAME ∧ Owns s o t) ∨
      (i = .NsAtWildcard o ∧ Owns s o NS ∧ isWildcard o = true) := by
  unfold ownerIssues
  have h2 : (owns s o CNAME && s.recs.any (fun r => r.owner == o && r.rtype != CNAME)) = true ↔
      (Owns s o CNAME ∧ ∃ t, t ≠ CNAME ∧ Owns s o t) := by
    simp only [Bool.and_eq_true, owns_iff, List.any_eq_true, beq_iff_eq, bne_iff_ne]
    constructor
    · rintro ⟨h1, r, hr, ho, ht⟩; exact ⟨h1, r.rtype, ht, r, hr, ho, rfl⟩
    · rintro ⟨h1, t, ht, r, hr, ho, hrt⟩; exact ⟨h1, r, hr, ho, by rw [hrt]; exact ht⟩
  have h3 : (owns s o NS && isWildcard o) = true ↔ (Owns s o NS ∧ isWildcard o = true) := by
    simp only [Bool.and_eq_true, owns_iff]
  simp only [List.mem_append]
  constructor
  · rintro ((hi | hi) | hi)
    · split at hi
      · rename_i hc; simp at hi; exact Or.inl ⟨hi, hc⟩
      · simp at hi
    · split at hi
      · rename_i hc; simp at hi; exact Or.inr (Or.inl ⟨hi, h2.mp hc⟩)
      · simp at hi
    · split at hi
      · rename_i hc; simp at hi; exact Or.inr (Or.inr ⟨hi, h3.mp hc⟩)
      · simp at hi
  · rintro (⟨hi, hc⟩ | ⟨hi, hc⟩ | ⟨hi, hc⟩)
    · left; left; rw [if_pos hc]; simp [hi]
    · left; right; rw [if_pos (h2.mpr hc)]; simp [hi]
    · right; rw [if_pos (h3.mpr hc)]; simp [hi]

theorem specValidate_mem (nameOf : NameOf) (s : SZone) (l : List Issue) (h : specValidate nameOf s = some l) (i : Issue) :
    i ∈ l ↔ HasIssue nameOf s i := by
  unfold specValidate at h
  simp only [] at h
  split at h
  · cases h
  · simp only [Option.some.injEq] at h
    subst h
    have hD : ∀ i, i ∈ (if hasAddrClass s.cls = true then
        (s.recs.filter (fun r => r.rtype == NS)).flatMap (nsRecIssues nameOf s) else []) ↔
        (hasAddrClass s.cls = true ∧ ∃ r ∈ s.recs, r.rtype = NS ∧ i ∈ nsRecIssues nameOf s r) := by
      intro i
      split
      · rename_i hc; simp [hc, List.mem_flatMap, and_assoc]
      · rename_i hc; simp [hc]
    have hE : ∀ i, i ∈ (if hasAddrClass s.cls = true then
        (s.recs.filter (fun r => r.rtype == MX)).flatMap (mxRecIssues nameOf s) else []) ↔
        (hasAddrClass s.cls = true ∧ ∃ r ∈ s.recs, r.rtype = MX ∧ i ∈ mxRecIssues nameOf s r) := by
      intro i
      split
      · rename_i hc; simp [hc, List.mem_flatMap, and_assoc]
      · rename_i hc; simp [hc]
    have hF : ∀ i, i ∈ (dedup (s.recs.map (·.owner))).flatMap (ownerIssues s) ↔
        ∃ r ∈ s.recs, i ∈ ownerIssues s r.owner := by
      intro i
      simp only [List.mem_flatMap, mem_dedup, List.mem_map]
      constructor
      · rintro ⟨o, ⟨r, hr, rfl⟩, hi⟩; exact ⟨r, hr, hi⟩
      · rintro ⟨r, hr, hi⟩; exact ⟨r.owner, ⟨r, hr, rfl⟩, hi⟩
    simp only [List.mem_append, hD, hE, hF, mem_apexIssues, mem_nsRecIssues, mem_mxRecIssues, mem_ownerIssues]
    cases i with
    | MissingApexSoa => simp [HasIssue]
    | TooManyApexSoas => simp [HasIssue]
    | MissingApexNs => simp [HasIssue]
    | MissingNsAddress g =>
      simp [HasIssue]
      intro _
      constructor
      · rintro ⟨r, hr, ht, g1, hg, rfl, hn⟩; exact ⟨r, hr, ht, hg, hn⟩
      · rintro ⟨r, hr, ht, hg, hn⟩; exact ⟨r, hr, ht, g, hg, rfl, hn⟩
    | MissingMxAddress g =>
      simp [HasIssue]
      intro _
      constructor
      · rintro ⟨r, hr, ht, g1, hg, rfl, hn⟩; exact ⟨r, hr, ht, hg, hn⟩
      · rintro ⟨r, hr, ht, hg, hn⟩; exact ⟨r, hr, ht, g, hg, rfl, hn⟩
    | MissingGlue g =>
      simp [HasIssue]
      intro _
      constructor
      · rintro ⟨r, hr, ht, g1, hg, rfl, h1, h2, h3⟩; exact ⟨r, hr, ht, h1, hg, h2, h3⟩
      · rintro ⟨r, hr, ht, h1, hg, h2, h3⟩; exact ⟨r, hr, ht, g, hg, rfl, h1, h2, h3⟩
    | DuplicateCname o =>
      simp [HasIssue]
      constructor
      · rintro ⟨r, hr, rfl, h⟩; exact h
      · intro h
        cases hf : s.recs.filter (fun r => r.owner == o && r.rtype == CNAME) with
        | nil => rw [hf] at h; simp at h
        | cons r rest =>
          have : r ∈ s.recs.filter (fun r => r.owner == o && r.rtype == CNAME) := by rw [hf]; simp
          simp at this
          exact ⟨r, this.1, this.2.1.symm, by rw [this.2.1]; exact h⟩
    | OtherRecordsAtCname o =>
      simp [HasIssue]
      constructor
      · rintro ⟨r, hr, rfl, h1, h2⟩; exact ⟨h1, h2⟩
      · rintro ⟨h1, h2⟩
        obtain ⟨r, hr, ho, _⟩ := h1
        exact ⟨r, hr, ho.symm, by rw [ho]; exact ⟨r, hr, ho, by assumption⟩, by rw [ho]; exact h2⟩
    | NsAtWildcard o =>
      simp [HasIssue]
      constructor
      · rintro ⟨r, hr, rfl, h1, h2⟩; exact ⟨h1, h2⟩
      · rintro ⟨h1, h2⟩
        obtain ⟨r, hr, ho, ht⟩ := h1
        exact ⟨r, hr, ho.symm, by rw [ho]; exact ⟨r, hr, ho, ht⟩, by rw [ho]; exact h2⟩

end QV.Spec.Zone
