/-
  QV.Proofs.ServerSignedCompare — the assembly for C10 row 3's comparison clause: the signed answer
  and the answer to the request without its TSIG record, decoded, agree on RCODE, AA, the answer and
  authority sections and (one way) the additional section, under the audit's guards.

  Modulo two named hypotheses about the writer / decoder, neither proved here:
  `ScratchIndepI` (Proofs/ServerAnswerTwoRunI.lean) and `DecodeCongr` (below).
-/
import QV.Proofs.ServerSignedPlain
import QV.Proofs.ServerAnswerTyped

namespace QV.ServerContent
open QV QV.Wire QV.Reader QV.Writer QV.Server QV.ServerSafety QV.ServerScan QV.ServerAnswer QV.Spec QV.ServerTsig
open QV.Spec.Server QV.Spec.ServerTsig

/-- **the answering writer, exposed**: `handle_query` for a question a loaded zone answers, run on a
    `Good` state that is ready for the answering phase, leaves the writer of
    `handle_non_axfr_query`'s logged run — `Good` with the body of the log, header showing the view of
    the log, own additional records address records -/
theorem answer_exposed (cfg : Cfg) (hcfg : CfgWF cfg) (tr : Transport) (qn : WName) (hqnwf : qn.WF)
    (q : Spec.DQuestion) (c1 : ¬ (251 ≤ q.qtype ∧ q.qtype ≤ 254)) (c2 : q.qclass ≠ 255)
    (e : Catalog.Entry Unit) (hl : Catalog.lookup (mkCatalog cfg.zones) qn.labels q.qclass = some e)
    (hk : e.kind = .Loaded) (ze : ZoneEntry) (hze : cfg.zones[e.zone]? = some ze)
    (S : State) (gS : Good S (qBody (some q))) (hqrS : QueryReady S qn) (hvS : HdrView S {}) :
    ∀ H, H = handleNonAxfrQueryL ze.zone qn q.qtype tr ⟨S, []⟩ →
      H.1 ≠ .panic ∧ Good H.2.w (bodyOf (qBody (some q)) H.2.log) ∧ HdrView H.2.w (view H.2.log) ∧
      BodyView (bodyOf (qBody (some q)) H.2.log) (view H.2.log) ∧
      (∀ r ∈ (bodyOf (qBody (some q)) H.2.log).ar, r.ty = 1 ∨ r.ty = 28) ∧
      ((handleQuery cfg (some (qn, q.qtype, q.qclass)) tr >>= fun _ => (pure true : M Bool)) S).2 = H.2.w ∧
      (EdnsUp0 S → EdnsUp0 H.2.w) := by
  intro H hH
  subst hH
  obtain ⟨ze', hze', _, _, hsuf⟩ := mkCatalog_lookup cfg.zones qn.labels q.qclass e hl
  rw [hze] at hze'
  cases hze'
  obtain ⟨hawf, haeq, hnode⟩ := hcfg.zones ze (List.mem_of_getElem? hze)
  have hz : ZoneOK ze.zone := ⟨by rw [haeq]; exact fold_wf _ hawf, hnode⟩
  have hsub : ze.zone.apex <:+ fold qn := by rw [haeq]; exact hsuf
  have hHQ := handleQuery_loaded cfg tr qn q.qtype q.qclass S c1 c2 e hl hk ze hze
  have hnp := (handleNonAxfrQueryL_safe Writer.writerSafe ze.zone hz qn hqnwf q.qtype tr hsub ⟨S, []⟩
    gS.1 hqrS.hint).1
  have hG := good_handleNonAxfrQueryL ze.zone hz qn hqnwf q.qtype tr hsub _ _ gS hqrS.hint
  have hH := hdr_handleNonAxfrQueryL ze.zone hz qn hqnwf q.qtype tr hsub _ _ gS hqrS.hint hvS
  have hty := bodyOf_handle_ar_types ze.zone qn q.qtype tr S (qBody (some q)) (qBody_norecs _) hnp
  have hBV := bodyOf_view (qBody (some q)) (qBody_norecs _) (handleNonAxfrQueryL ze.zone qn q.qtype tr ⟨S, []⟩).2.log
  refine ⟨hnp, hG, hH, hBV, hty, ?_, ?_⟩
  · rw [Writer.bind_apply, hHQ, ← handleNonAxfrQuery_state]
    rcases handleNonAxfrQuery ze.zone qn q.qtype tr _ with ⟨(u | x | _), s'⟩ <;> rfl
  · intro huS
    obtain ⟨gI, gl, gmb, gc⟩ := gS
    exact ednsUp0_handleNonAxfrQueryL ze.zone hz qn hqnwf q.qtype tr hsub S gI hqrS.hint gl gmb _ gc huS

/-- the response-size limit of the transport -/
def limOf (tr : Transport) (l : Nat) : Nat :=
  match tr with
  | .udp => l
  | .tcp => 65535

/-- the room of the scan state: no TSIG pending, the EDNS slot set iff the scan reached an OPT, and
    `available` is the response-size limit of the transport minus the reserved OPT -/
theorem scanState_room (cfg : Cfg) (tr : Transport) (bufLen : Nat) (req : Bytes)
    (hbuf : minBuf tr cfg.payload ≤ bufLen) (hpay : 512 ≤ cfg.payload) (id opcode : Nat) (rd : Bool)
    (q : Spec.DQuestion) (nx : Nat) (hsq : Spec.specQuestionAt req 12 = some (q.qname, q.qtype, q.qclass, nx)) :
    (scanState cfg tr bufLen req id opcode rd q).tsig = none ∧
    12 ≤ (scanState cfg tr bufLen req id opcode rd q).cursor ∧
    12 ≤ (scanState cfg tr bufLen req id opcode rd q).rrStart ∧
    (scanState cfg tr bufLen req id opcode rd q).edns.isSome = (specBody (catKind cfg) cfg.payload req).edns ∧
    (scanState cfg tr bufLen req id opcode rd q).available +
        (if (specBody (catKind cfg) cfg.payload req).edns then 11 else 0) =
      limOf tr (specBody (catKind cfg) cfg.payload req).limitUdp := by
  generalize hsc : specBody (catKind cfg) cfg.payload req = sc
  obtain ⟨_, p2, p3⟩ := specBody_props (catKind cfg) cfg.payload req
  rw [hsc] at p2 p3
  have hne : sc.edns = false → sc.limitUdp = 512 := by
    intro he
    rw [← hsc] at he ⊢
    unfold specBody at he ⊢
    by_cases hq4 : Spec.Server.hdr req 4 > 1
    · simp only [hq4, if_true]
    · simp only [hq4, if_false] at he ⊢
      generalize (if Spec.Server.hdr req 4 = 0 then some ((none : Option Spec.DQuestion), 12)
        else match Spec.specQuestionAt req 12 with
          | some (w, t, c, nx) => some (some ⟨w, t, c⟩, nx)
          | none => none) = qres at he ⊢
      cases qres with
      | none => rfl
      | some qp =>
        obtain ⟨q, p1⟩ := qp
        simp only at he ⊢
        exact specTail_noedns _ _ _ _ _ _ _ _ _ he
  have hq : ∀ x, (some q) = some x → ∃ nx, Spec.specQuestionAt req 12 = some (x.qname, x.qtype, x.qclass, nx) := by
    intro x hx; cases hx; exact ⟨nx, hsq⟩
  obtain ⟨hbase, hcur, _, _, _, _, _, _, _, _, _, har, hrrs, hsz⟩ :=
    s1_facts bufLen tr cfg.payload id opcode rd hbuf hpay req (some q) hq
  unfold scanState
  rw [hsc]
  generalize qSt (hdrSt (w0 bufLen (lim0 tr)) id opcode rd) (some q) = s1 at *
  have hav := hbase.avail
  have hlim := hbase.lim
  have hts := hbase.tsig
  have hed := hbase.edns
  have l1 : lim0 .udp = 512 := rfl
  have l2 : lim0 .tcp = 65535 := rfl
  cases he : sc.edns with
  | false =>
    have hl := hne he
    have hS : arSt s1 tr cfg.payload false sc.limitUdp = s1 := rfl
    rw [hS]
    refine ⟨hts, by omega, by omega, by rw [hed]; rfl, ?_⟩
    cases tr with
    | udp => simp only [Bool.false_eq_true, if_false, limOf]; omega
    | tcp => simp only [Bool.false_eq_true, if_false, limOf]; omega
  | true =>
    have c11 : Gen.OPT_RECORD_SIZE = 11 := rfl
    cases tr with
    | udp =>
      have hS : arSt s1 .udp cfg.payload true sc.limitUdp = stLimit sc.limitUdp (stEdns cfg.payload s1) := rfl
      rw [hS]
      refine ⟨hts, ?_, ?_, rfl, ?_⟩
      · show 12 ≤ s1.cursor; omega
      · show 12 ≤ s1.rrStart; omega
      · show s1.available - Gen.OPT_RECORD_SIZE + (sc.limitUdp - s1.limit) + (if true = true then 11 else 0) =
          limOf .udp sc.limitUdp
        have := hbase.room
        unfold limOf
        simp only [if_true]; omega
    | tcp =>
      have hS : arSt s1 .tcp cfg.payload true sc.limitUdp = stEdns cfg.payload s1 := rfl
      rw [hS]
      refine ⟨hts, ?_, ?_, rfl, ?_⟩
      · show 12 ≤ s1.cursor; omega
      · show 12 ≤ s1.rrStart; omega
      · show s1.available - Gen.OPT_RECORD_SIZE + (if true = true then 11 else 0) =
          limOf .tcp sc.limitUdp
        have := hbase.room
        unfold limOf
        simp only [if_true]; omega

/-- reading `handle_message`'s epilogue: a response was sent ⇒ the handler succeeded and `finish` produced it -/
theorem finish_of_match (r : Out WriterErr Bool × State) (b : Bytes)
    (h : (.ok (some b) : Out Unit (Option Bytes)) =
      match r with
      | (.ok true, w1) =>
        (match Writer.finish w1 Server.macFn with
         | .ok (bytes, _) => .ok (some bytes)
         | _ => .panic)
      | (.ok false, _) => .ok none
      | _ => .panic) :
    ∃ mac, Writer.finish r.2 Server.macFn = .ok (b, mac) := by
  obtain ⟨(bb | x | _), w1⟩ := r
  · cases bb with
    | false => simp only at h; cases h
    | true =>
      simp only at h
      rcases hf : Writer.finish w1 Server.macFn with ⟨bytes, mac⟩ | x | _
      · rw [hf] at h
        simp only [Out.ok.injEq, Option.some.injEq] at h
        subst h
        exact ⟨mac, rfl⟩
      · rw [hf] at h; cases h
      · rw [hf] at h; cases h
  · cases h
  · cases h

/-- **decoder congruence** (named hypothesis; a fact about `finish` and the decoder, not proved here):
    two `Good` writers with the same body — own additional records being address records — that agree
    on everything below the cursor, up to the room, the TSIG slot and ARCOUNT + 1 (`modS`, `lift`,
    `Same`), finish into messages whose decodings carry the same answer and authority records and the
    same additional records apart from OPT and TSIG (compared as the audit compares them: `rrKey`).
    True because both decodings read the same octets: the records lie below the common cursor and the
    writer emits backward pointers only. -/
def DecodeCongr : Prop :=
  ∀ (F1 F2 t0 : State) (bd : Body) (L : Nat) (T : Option Writer.Tsig) (R : Nat) (b1 b2 : Bytes)
    (m1 m2 : Option (List UInt8)) (d1 d2 : DMsg),
    Good F1 bd → Good F2 bd → (∀ r ∈ bd.ar, r.ty = 1 ∨ r.ty = 28) → modS L T F2 = lift R t0 → Same F1 t0 →
    Writer.finish F1 Server.macFn = .ok (b1, m1) → Writer.finish F2 Server.macFn = .ok (b2, m2) →
    specDecodeMsg b1 = some d1 → specDecodeMsg b2 = some d2 →
    d1.an.map rrKey = d2.an.map rrKey ∧ d1.ns.map rrKey = d2.ns.map rrKey ∧ plainRrs d1.ar = plainRrs d2.ar

/-- **decoder congruence, typed** (proved by the writer side: `decodeCongrT : DecodeCongrT`,
    Proofs/ServerDecodeCongr.lean, the same statement word for word): `DecodeCongr` with the extra
    hypothesis that the answer and authority records have 16-bit TYPEs.  `DecodeCongr` itself is false of
    the model: a record of type 65536 + 2 is written opaque but decoded as type 2, and `Good` does not
    give typedness. -/
def DecodeCongrTy : Prop :=
  ∀ (F1 F2 t0 : State) (bd : Body) (L : Nat) (T : Option Writer.Tsig) (R : Nat) (b1 b2 : Bytes)
    (m1 m2 : Option (List UInt8)) (d1 d2 : DMsg),
    Good F1 bd → Good F2 bd → (∀ r ∈ bd.ar, r.ty = 1 ∨ r.ty = 28) → (∀ r ∈ bd.an ++ bd.ns, r.ty < 65536) →
    modS L T F2 = lift R t0 → Same F1 t0 →
    Writer.finish F1 Server.macFn = .ok (b1, m1) → Writer.finish F2 Server.macFn = .ok (b2, m2) →
    specDecodeMsg b1 = some d1 → specDecodeMsg b2 = some d2 →
    d1.an.map rrKey = d2.an.map rrKey ∧ d1.ns.map rrKey = d2.ns.map rrKey ∧ plainRrs d1.ar = plainRrs d2.ar

theorem specField16_lt (m : Bytes) (p t : Nat) (h : Spec.specField16 m p = some t) : t < 65536 := by
  unfold Spec.specField16 at h
  split at h
  · cases h
    rename_i a b _ _
    have := a.toNat_lt; have := b.toNat_lt; omega
  · cases h

theorem specQuestionAt_qtype_lt (m : Bytes) (p : Nat) (w : List UInt8) (t c nx : Nat)
    (h : Spec.specQuestionAt m p = some (w, t, c, nx)) : t < 65536 := by
  unfold Spec.specQuestionAt at h
  split at h
  · split at h
    · rename_i t' c' ht _
      simp only [Option.some.injEq, Prod.mk.injEq] at h
      obtain ⟨_, h2, _, _⟩ := h
      subst h2
      exact specField16_lt _ _ _ ht
    · cases h
  · cases h

/-- the answer and authority records of a body built from a log of typed calls are typed -/
theorem bodyOf_typed : ∀ (log : List Ev) (b0 : Body), (∀ r ∈ b0.an ++ b0.ns, r.ty < 65536) →
    (∀ e ∈ log, TyEv e) → ∀ r ∈ (bodyOf b0 log).an ++ (bodyOf b0 log).ns, r.ty < 65536 := by
  intro log
  induction log with
  | nil => intro b0 h0 _; exact h0
  | cons e rest ih =>
    intro b0 h0 hl
    have e1 : bodyOf b0 (e :: rest) = bodyOf (evBody b0 e) rest := rfl
    rw [e1]
    refine ih _ ?_ (fun x hx => hl x (List.mem_cons_of_mem _ hx))
    have he := hl e List.mem_cons_self
    cases e with
    | add a =>
      have hta := he a rfl
      simp only [evBody]
      split
      · have hrec : ∀ r ∈ evRecs a, r.ty < 65536 := by
          intro r hr
          unfold evRecs at hr
          rw [List.mem_map] at hr
          obtain ⟨rd, _, rfl⟩ := hr
          exact hta
        intro r hr
        cases hs : a.sec <;> simp only [hs, Body.add, List.mem_append] at hr
        · rcases hr with (hr | hr) | hr
          · exact h0 r (List.mem_append_left _ hr)
          · exact hrec r hr
          · exact h0 r (List.mem_append_right _ hr)
        · rcases hr with hr | hr | hr
          · exact h0 r (List.mem_append_left _ hr)
          · exact h0 r (List.mem_append_right _ hr)
          · exact hrec r hr
        · rcases hr with hr | hr
          · exact h0 r (List.mem_append_left _ hr)
          · exact h0 r (List.mem_append_right _ hr)
      · exact h0
    | clear => intro r hr; simp [evBody] at hr
    | aa x => exact h0
    | rcode x => exact h0
    | tc x => exact h0
    | bad => exact h0

theorem sameMultiset_self (l : List RrKey) : sameMultiset l l = true := by
  simp [sameMultiset, subMultiset]

theorem all2_nil_left {α β : Type} {R : α → β → Prop} (l : List β) (h : All2 R [] l) : l = [] := by
  cases h; rfl

/-- **the comparison clause of "answered normally", for an authenticated request that a loaded zone
    answers** — modulo `ScratchIndepI` and `DecodeCongrTy` (the latter proved by the writer side), for
    zones whose RRsets have 16-bit TYPEs.  `b` is the signed response, `pb` the response
    to the request without its TSIG record; neither decoding has TC; the plain response leaves room for
    the TSIG record; a plain SERVFAIL is a signed SERVFAIL.  Then both show the same RCODE and AA, the
    same answer and authority records, and the same additional records apart from OPT / TSIG. -/
theorem compare_core (hSI : ScratchIndepI) (hDC : DecodeCongrTy)
    (cfg : Cfg) (hcfg : CfgWF cfg)
    (hzty : ∀ ze ∈ cfg.zones, NodeOK (fun r => r.rtype < 65536) ze.zone.root) (cat : List ZoneCfg) (tr : Transport) (now : Nat) (req : Bytes)
    (hbuf : minBuf tr cfg.payload ≤ 65535) (hpay : 512 ≤ cfg.payload) (hp16 : cfg.payload ≤ 65535)
    (hreq : req.size ≤ Rdata.USIZE_MAX)
    (hrM : (specScanWith (catKind cfg) cfg.payload req).respond = true)
    (iq : (specScan cat cfg.payload req).question = (specScanWith (catKind cfg) cfg.payload req).question)
    (ie : (specScan cat cfg.payload req).edns = (specScanWith (catKind cfg) cfg.payload req).edns)
    (il : (specScan cat cfg.payload req).limitUdp = (specScanWith (catKind cfg) cfg.payload req).limitUdp)
    (t : Tsig.ReadTsigRr) (mw : Bytes) (r' : Reader.Reader) (question : Option (WName × Nat × Nat))
    (hrun : TsigRun cfg tr now 65535 req t mw r' question)
    (r'' : Reader.Reader) (S : State)
    (hT : Server.tsigAfter cfg now t mw r' (preTsigState cfg tr 65535 req) = (.ok (some r''), S))
    (hev : endVerdict (catKind cfg) req.size (specScanWith (catKind cfg) cfg.payload req).question
      r'.cursor ((req.getD 2 0).toNat / 8 % 16) = .answer)
    (b : Bytes) (hb : Server.handleMessage cfg tr now 65535 req = .ok (some b))
    (d : Delim) (hfind : findTsig req = some d) (h12 : 12 ≤ d.pos) (hdsz : d.pos ≤ req.size)
    (hnext : d.pos ≤ d.next) (hnsz : d.next ≤ req.size) (hcur : r'.cursor = d.next)
    (hcmp : plainComparable cat cfg.payload req = true)
    (pb : Bytes) (hpb : ∀ p, stripTsigRr req = some p → Server.handleMessage cfg tr now 65535 p = .ok (some pb))
    (dm pd : DMsg) (hdm : specDecodeMsg b = some dm) (hpd : specDecodeMsg pb = some pd)
    (htc : dm.tc = false) (hptc : pd.tc = false)
    (hroom : ∀ alg key kn nowT, Tsig.TimeSigned.tryFromUnix now = some nowT →
      Tsig.Algorithm.fromName t.algorithm = some alg → Server.findKey cfg.keys t.keyName alg = some key →
      WName.parse t.keyName = some (kn, []) →
      pb.size + reservedLen (.response (Server.toWriterAlg alg) t.mac key.secret) (prepOf kn t nowT 0) ≤
        limOf tr (specScanWith (catKind cfg) cfg.payload req).limitUdp)
    (hrc2 : pd.rcode = 2 → dm.rcode = 2) :
    dm.rcode = pd.rcode ∧ dm.aa = pd.aa ∧
    sameMultiset (dm.an.map rrKey) (pd.an.map rrKey) = true ∧
    sameMultiset (dm.ns.map rrKey) (pd.ns.map rrKey) = true ∧
    subMultiset (plainRrs dm.ar) (plainRrs pd.ar) = true := by
  -- the signed run
  obtain ⟨q, qn, nowT, alg, key, kn, hq0, hqn, c1, c2, c3, e1, e2, e3, e4, e5, hS, gS, hqrS, hvS, hkeep, h4⟩ :=
    signed_answer_state_of_run cfg tr now 65535 req hbuf hpay hp16 hrM t mw r' question hrun r'' S hT hev b hb
  have hroom' := hroom alg key kn nowT e1 e2 e3 e4
  -- the plain run
  rw [hcur] at hev
  obtain ⟨p, q', qn', hstrip, hq0', hqn', heqP⟩ := plain_answer_run cfg cat tr now req hpay hp16 hreq d hfind h12 hdsz
    hnext hnsz iq ie il hev hcmp hrM
  rw [hq0] at hq0'
  cases hq0'
  rw [hqn] at hqn'
  cases hqn'
  have hpb' := hpb p hstrip
  rw [heqP] at hpb'
  -- the question, the scan state
  obtain ⟨_, _, hsce⟩ := specScanWith_respond _ _ _ hrM
  have hq0b := hq0
  rw [hsce] at hq0b hroom'
  obtain ⟨nx, hsq⟩ := specBody_question (catKind cfg) cfg.payload req q hq0b
  obtain ⟨pp, hp, hpw, _, _, hwl⟩ := specQuestionAt_some req 12 _ _ _ nx hsq
  obtain ⟨qn2, hqn2, hqw⟩ := wname_of_parse req 12 pp hp
  rw [hpw] at hqn2 hqw
  rw [hqn] at hqn2
  cases hqn2
  obtain ⟨gP, hqrP, hvP, h3P⟩ := scanState_facts cfg tr 65535 req hbuf hpay hp16 (Spec.Server.hdr req 0)
    (((req.getD 2 0).toNat &&& 120) >>> 3) (((req.getD 2 0).toNat &&& 1) != 0) q qn nx hsq hqn hqw hwl
  obtain ⟨rT, rC, rR, rE, rA⟩ := scanState_room cfg tr 65535 req hbuf hpay (Spec.Server.hdr req 0)
    (((req.getD 2 0).toNat &&& 120) >>> 3) (((req.getD 2 0).toNat &&& 1) != 0) q nx hsq
  -- the zone
  unfold catKind at c3
  rw [hqn] at c3
  simp only at c3
  cases hl : Catalog.lookup (mkCatalog cfg.zones) qn.labels q.qclass with
  | none => rw [hl] at c3; cases c3
  | some e =>
    rw [hl] at c3
    simp only [Option.map_some, Option.some.injEq] at c3
    have hk : e.kind = .Loaded := by
      cases hk : e.kind <;> rw [hk] at c3 <;> first | rfl | cases c3
    obtain ⟨ze, hze, _, _, hsuf⟩ := mkCatalog_lookup cfg.zones qn.labels q.qclass e hl
    obtain ⟨hawf, haeq, hnode⟩ := hcfg.zones ze (List.mem_of_getElem? hze)
    have hz : ZoneOK ze.zone := ⟨by rw [haeq]; exact fold_wf _ hawf, hnode⟩
    have hsub : ze.zone.apex <:+ fold qn := by rw [haeq]; exact hsuf
    generalize hSS : scanState cfg tr 65535 req (Spec.Server.hdr req 0) (((req.getD 2 0).toNat &&& 120) >>> 3)
      (((req.getD 2 0).toNat &&& 1) != 0) q = SS at *
    -- both writers, exposed
    obtain ⟨hnpS, hGS, hHS, hBS, htyS, hstS, hupS⟩ := answer_exposed cfg hcfg tr qn (parse_wf hqn) q c1 c2 e hl hk ze hze
      S gS hqrS hvS _ rfl
    obtain ⟨hnpP, hGP, hHP, hBP, htyP, hstP, _⟩ := answer_exposed cfg hcfg tr qn (parse_wf hqn) q c1 c2 e hl hk ze hze
      SS gP hqrP hvP _ rfl
    obtain ⟨macS, hfS⟩ := finish_of_match _ b h4
    obtain ⟨macP, hfP⟩ := finish_of_match _ pb hpb'.symm
    rw [hstS] at hfS
    rw [hstP] at hfP
    -- the slots of the final writers
    have hslotS : (handleNonAxfrQueryL ze.zone qn q.qtype tr ⟨S, []⟩).2.w.tsig = some (respTsig alg key kn t nowT) := by
      rcases hh : (Server.handleQuery cfg (some (qn, q.qtype, q.qclass)) tr >>= fun _ => (pure true : M Bool)) S
        with ⟨o, w1⟩
      rw [hh] at hstS h4
      simp only at hstS
      subst hstS
      cases o with
      | ok bb => exact (hkeep bb _ hh).1
      | err x => cases h4
      | panic => cases h4
    have hfr := framed_bind (k := true) (Server.framed_handleQuery 12 (by omega) cfg (some (qn, q.qtype, q.qclass)) tr)
      (fun _ => framed_pure 12 true) SS rC rR
    obtain ⟨kP1, kP2⟩ := hfr.keep rfl
    rw [hstP] at kP1 kP2
    rw [rT] at kP1
    have hednsP : (handleNonAxfrQueryL ze.zone qn q.qtype tr ⟨SS, []⟩).2.w.edns.isSome = SS.edns.isSome := by
      have := congrArg Option.isSome kP2
      simpa using this
    -- decoding both
    have huS : EdnsUp0 S := by
      rw [hS]
      exact ednsUp0_of_eq (ednsUp0_stRcode 0 _) rfl
    obtain ⟨l1, l2⟩ := prepOf_lengths kn t nowT 0
    obtain ⟨s1, s2, s3, s4, s5, _, ar', opt, o, q1, qA, qT, qO, q3, _⟩ :=
      decoded_answer_tsig _ _ _ hGS htyS hBS hHS _ hslotS (algName_wf _) l1 l2 (hupS huS) b macS hfS dm hdm
    have hflP := finish_flags_plain _ hGP.1 kP1 pb macP hfP
    obtain ⟨p1, p2, p3, p4, p5, arP, restP, pq1, pqA, pqL, pqT⟩ :=
      decoded_of_good_view' _ _ _ hGP hBP hHP pb macP hfP hflP pd hpd
    -- the guards, on the views
    obtain ⟨hflS, _⟩ := view_handle_flags ze.zone qn q.qtype tr S hnpS
    have hSeq : S = withTsig (stRcode 0 SS) (.response (Server.toWriterAlg alg) t.mac key.secret) (prepOf kn t nowT 0) := hS
    -- the size of the plain response
    have hsizeP : pb.size = (handleNonAxfrQueryL ze.zone qn q.qtype tr ⟨SS, []⟩).2.w.cursor +
        (if (specBody (catKind cfg) cfg.payload req).edns then 11 else 0) := by
      have hi := hGP.1.inv
      have hsz : 12 ≤ (handleNonAxfrQueryL ze.zone qn q.qtype tr ⟨SS, []⟩).2.w.octets.size := by
        have := hi.hdr; have := hi.cur_av; have := hi.av_lim; have := hi.lim_size; omega
      obtain ⟨_, ft⟩ := finish_inv_tail _ Server.macFn kP1 hsz pb macP hfP
      rw [← rE, ← hednsP]
      cases hed : (handleNonAxfrQueryL ze.zone qn q.qtype tr ⟨SS, []⟩).2.w.edns with
      | none =>
        rw [hed] at ft
        simp only at ft
        rw [ft]
        have hws : (withCounts (handleNonAxfrQueryL ze.zone qn q.qtype tr ⟨SS, []⟩).2.w).size =
            (handleNonAxfrQueryL ze.zone qn q.qtype tr ⟨SS, []⟩).2.w.octets.size := by
          simp only [withCounts, Writer.writeAt_size]
        have := hi.cur_av; have := hi.av_lim; have := hi.lim_size
        simp [ByteArray.size_extract, hws]
        omega
      | some ee =>
        rw [hed] at ft
        simp only at ft
        simp [ft.1]
    have hcmpV := signed_handler_eq_plain hSI cfg tr 65535 req hbuf hpay (Spec.Server.hdr req 0)
      (((req.getD 2 0).toNat &&& 120) >>> 3) (((req.getD 2 0).toNat &&& 1) != 0) q nx hsq ze.zone hz qn (parse_wf hqn) hsub
    rw [hSS] at hcmpV
    replace hcmpV := hcmpV gP.1 hqrP.hint
      (.response (Server.toWriterAlg alg) t.mac key.secret) (prepOf kn t nowT 0)
    rw [← hSeq] at hcmpV
    have hcurP : SS.cursor ≤ (handleNonAxfrQueryL ze.zone qn q.qtype tr ⟨SS, []⟩).2.w.cursor ∨ True := Or.inr trivial
    obtain ⟨hview, hokc⟩ := hcmpV
      (by omega)
      hnpP hnpS (by rw [← p3]; exact hptc) (by rw [← s3]; exact htc)
      (fun h2 => by
        have : dm.rcode = 2 := hrc2 (by rw [p1, h2])
        rw [s1] at this
        rcases hflS with h | h | h <;> omega)
      (fun pt hpt => by
        have hho := handle_of_inner_ok ze.zone qn q.qtype tr _ _ hpt
        rw [hho] at hsizeP
        simp only at hsizeP
        obtain ⟨evs, _, _, _, hcap⟩ := CapJ.inner ze.zone qn q.qtype ⟨SS, []⟩ hqrP.capPre
        have hcp := hcap () (by rw [hpt])
        rw [hpt] at hcp
        dsimp only at hcp
        obtain ⟨ci, cl, cc, _⟩ := hcp
        refine ⟨by omega, ?_⟩
        unfold CountInv resv at cc
        have := ci.cur_av; have := ci.av_lim
        split at cc <;> split at cc <;> omega)
    refine ⟨by rw [s1, p1, hview], by rw [s2, p2, hview], ?_⟩
    rcases hr : inner ze.zone qn q.qtype ⟨SS, []⟩ with ⟨(u | x | _), pt⟩
    · obtain ⟨k1, ps', t0, k2, k3, k4, k5⟩ := hokc pt hr
      rw [k1] at hGP hfP htyP
      rw [k2] at hGS hfS
      simp only at hGP hfP hGS hfS htyP
      rw [k3] at hGS
      have htyped : ∀ r ∈ (bodyOf (qBody (some q)) pt.log).an ++ (bodyOf (qBody (some q)) pt.log).ns, r.ty < 65536 := by
        obtain ⟨evs, hl1, hl2, _⟩ := LogsY.inner ze.zone (hzty ze (List.mem_of_getElem? hze)) qn q.qtype
          (specQuestionAt_qtype_lt _ _ _ _ _ _ hsq) ⟨SS, []⟩
        rw [hr] at hl1
        simp only [List.nil_append] at hl1
        rw [hl1]
        exact bodyOf_typed evs _ (by rw [(qBody_norecs _).1, (qBody_norecs _).2.1]; intro r hr'; cases hr') hl2
      obtain ⟨r1, r2, r3⟩ := hDC ps'.w pt.w t0 _ _ _ _ b pb macS macP dm pd hGS hGP htyP htyped k4 k5 hfS hfP hdm hpd
      rw [r1, r2, r3]
      exact ⟨sameMultiset_self _, sameMultiset_self _, by simp [subMultiset]⟩
    · have vP := view_handle_err ze.zone qn q.qtype tr SS x pt hr hnpP (by rw [← p3]; exact hptc)
      rw [vP] at p4 p5 hview
      rw [hview] at s4 s5 qA
      simp only at p4 p5 s4 s5 qA
      have a1 := all2_nil_left _ p4
      have a2 := all2_nil_left _ p5
      have a3 := all2_nil_left _ s4
      have a4 := all2_nil_left _ s5
      have a5 := all2_nil_left _ qA
      rw [a1, a2, a3, a4]
      refine ⟨rfl, rfl, ?_⟩
      have : plainRrs dm.ar = [] := by
        unfold plainRrs
        rw [List.map_eq_nil_iff, List.filter_eq_nil_iff, q1, a5]
        intro y hy
        simp only [List.nil_append, List.mem_append, List.mem_singleton] at hy
        rcases hy with hy | hy
        · simp [qO y hy]
        · subst hy; simp [q3]
      rw [this]
      rfl
    · have := (handle_log_np ze.zone qn q.qtype tr ⟨SS, []⟩ hnpP).2
      rw [hr] at this
      exact absurd rfl this

end QV.ServerContent
