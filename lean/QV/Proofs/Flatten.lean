/-
  QV.Proofs.Flatten — reading a file tree and reading its flattened text (C25).
-/
import QV.Proofs.ZoneFile.Compose
import QV.Spec.Include

namespace QV.Inc
open QV QV.ZF QV.Spec.Inc

variable {κ : Type}

/-- the records among the items of a file, tagged with the file -/
def tagRecs (file : κ) (ys : List Yield) : List (SY κ) :=
  ys.filterMap fun y => match y with
    | .item (.record l r) => some (SY.record file l r)
    | _ => none

/-- two reader states from which `parse_lines_until_returnable_data_found` behaves the same are
    read the same way as (the rest of) a file of a tree -/
theorem readFile_of_untilData_eq (resolve : κ → List UInt8 → Option (κ × List UInt8)) (D : Nat) (file : κ)
    (depth : Nat) {ctx1 ctx2 : Ctx} {st1 st2 : St} (h : untilData ctx1 st1 = untilData ctx2 st2)
    (hctx : CtxWF ctx2) (hlen : st2.inp.length ≤ st1.inp.length) :
    readFile resolve D file depth ⟨false, st1, ctx1⟩ = readFile resolve D file depth ⟨false, st2, ctx2⟩ := by
  have g := next_spec (p := ⟨false, st2, ctx2⟩) hctx
  rw [readFile, readFile]
  simp only [Parser.next, Bool.false_eq_true, ↓reduceIte, h] at g ⊢
  cases hu : untilData ctx2 st2 with
  | ok r =>
    obtain ⟨⟨it?, ctx'⟩, st'⟩ := r
    rw [hu] at g
    cases it? with
    | none => rfl
    | some item =>
      simp only [NextOK] at g
      have h2 : st'.inp.length < st2.inp.length := g.2.2
      have h1 : st'.inp.length < st1.inp.length := by omega
      cases item with
      | record l r => simp [h1, h2]
      | incl l path o => simp [h1, h2]
  | err e => rfl
  | panic => rfl

/-- reading `x ++ b` as part of a tree, where `x` consists of records: the records of `x`, then
    `b` from where `x` ended -/
theorem readFile_append (resolve : κ → List UInt8 → Option (κ × List UInt8)) (D : Nat) (file : κ) (depth : Nat)
    (b : List UInt8) (n : Nat) : ∀ (x : List UInt8), x.length ≤ n → (x = [] ∨ Term x) →
    ∀ (ctx : Ctx) (hctx : CtxWF ctx) (line : Nat) (p : Bool),
    (∀ y ∈ collect ⟨false, ⟨x, line, p⟩, ctx⟩, ∃ l r, y = .item (.record l r)) →
    readFile resolve D file depth ⟨false, ⟨x ++ b, line, p⟩, ctx⟩ =
      (tagRecs file (collect ⟨false, ⟨x, line, p⟩, ctx⟩) ++
        (readFile resolve D file depth ⟨false, ⟨b, (Parser.finish ⟨false, ⟨x, line, p⟩, ctx⟩).st.line,
          (Parser.finish ⟨false, ⟨x, line, p⟩, ctx⟩).st.paren⟩, (Parser.finish ⟨false, ⟨x, line, p⟩, ctx⟩).ctx⟩).1,
       (readFile resolve D file depth ⟨false, ⟨b, (Parser.finish ⟨false, ⟨x, line, p⟩, ctx⟩).st.line,
          (Parser.finish ⟨false, ⟨x, line, p⟩, ctx⟩).st.paren⟩, (Parser.finish ⟨false, ⟨x, line, p⟩, ctx⟩).ctx⟩).2) := by
  induction n with
  | zero =>
    intro x hlen hx ctx hctx line p hrec
    have : x = [] := List.length_eq_zero_iff.mp (by omega)
    subst this
    have hn : (⟨false, ⟨[], line, p⟩, ctx⟩ : Parser).next = (none, ⟨false, ⟨[], line, p⟩, ctx⟩) := by
      simp [Parser.next, untilData]
    rw [collect_none hn, finish_of_none hn]
    simp [tagRecs]
  | succ n ih =>
    intro x hlen hx ctx hctx line p hrec
    rcases hx with rfl | hT
    · exact ih [] (by simp) (.inl rfl) ctx hctx line p hrec
    · obtain ⟨a1, a2⟩ := untilData_append ctx b x.length x (Nat.le_refl _) hT ctx line p
      have g := next_spec (p := ⟨false, ⟨x, line, p⟩, ctx⟩) hctx
      cases hu : untilData ctx ⟨x, line, p⟩ with
      | ok r =>
        obtain ⟨⟨it?, ctx'⟩, st'⟩ := r
        cases it? with
        | some item =>
          obtain ⟨k1, k2⟩ := a1 item ctx' st' hu
          have hn := next_of_untilData hu
          have hn' := next_of_untilData k1
          rw [hn] at g
          obtain ⟨_, hctx', hlt⟩ := g
          simp only at hlt hctx'
          have hlt' : (st'.inp ++ b).length < (x ++ b).length := by simp; omega
          have hc := collect_item hn hlt
          obtain ⟨l, r, hlr⟩ := hrec (.item item) (by rw [hc]; simp)
          cases hlr
          rw [readFile, hn', finish_of_item hn hlt, hc]
          simp only [hlt', ↓reduceIte]
          rw [ih st'.inp (by omega) k2 ctx' hctx' st'.line st'.paren
            (fun y hy => hrec y (by rw [hc]; exact List.mem_cons_of_mem _ hy))]
          simp [tagRecs]
        | none =>
          obtain ⟨k1, k2⟩ := a2 ctx' st' hu
          have hn : (⟨false, ⟨x, line, p⟩, ctx⟩ : Parser).next = (none, ⟨false, st', ctx'⟩) := by
            simp [Parser.next, hu]
          rw [hn] at g
          have hctx' : CtxWF ctx' := g
          rw [collect_none hn, finish_of_none hn]
          simp only [tagRecs, List.filterMap_nil, List.nil_append]
          exact readFile_of_untilData_eq resolve D file depth k2 hctx' (by simp)
      | err e =>
        exfalso
        have hmem : Yield.err e ∈ collect ⟨false, ⟨x, line, p⟩, ctx⟩ := by
          rw [collect]; simp [Parser.next, hu]
        obtain ⟨l, r, hi⟩ := hrec _ hmem
        cases hi
      | panic =>
        exfalso
        have hmem : Yield.panic ∈ collect ⟨false, ⟨x, line, p⟩, ctx⟩ := by
          rw [collect]; simp [Parser.next, hu]
        obtain ⟨l, r, hi⟩ := hrec _ hmem
        cases hi

/-! ### reading texts from line 0: items, end context -/

/-- what reading `text` in the context `ctx` yields (lines counted from 0) -/
def items0 (ctx : Ctx) (text : List UInt8) : List Yield := collect ⟨false, ⟨text, 0, false⟩, ctx⟩

/-- the context after reading `text` -/
def endCtx (ctx : Ctx) (text : List UInt8) : Ctx := (Parser.finish ⟨false, ⟨text, 0, false⟩, ctx⟩).ctx

/-- reading yields records only: no errors, no `$INCLUDE` -/
def RecOnly (ys : List Yield) : Prop := ∀ y ∈ ys, ∃ l r, y = .item (.record l r)

theorem RecOnly.ok {ys : List Yield} (h : RecOnly ys) : ∀ y ∈ ys, ∃ i, y = .item i :=
  fun y hy => let ⟨l, r, e⟩ := h y hy; ⟨_, e⟩

theorem RecOnly_shift {ys : List Yield} (h : RecOnly ys) (k : Nat) : RecOnly (ys.map (shiftY k)) := by
  intro y hy
  obtain ⟨y0, hy0, rfl⟩ := List.mem_map.mp hy
  obtain ⟨l, r, rfl⟩ := h y0 hy0
  exact ⟨l + k, r, rfl⟩

theorem collect_at_line (x : List UInt8) (l : Nat) (ctx : Ctx) :
    collect ⟨false, ⟨x, l, false⟩, ctx⟩ = (items0 ctx x).map (shiftY l) := by
  have := collect_shift ⟨false, ⟨x, 0, false⟩, ctx⟩ l
  simpa [shiftParser, shiftSt, items0] using this

theorem RecOnly_at_line {x : List UInt8} {ctx : Ctx} (h : RecOnly (items0 ctx x)) (l : Nat) :
    RecOnly (collect ⟨false, ⟨x, l, false⟩, ctx⟩) := by
  rw [collect_at_line]; exact RecOnly_shift h l

theorem finish_at_line (x : List UInt8) (l : Nat) (ctx : Ctx) :
    (Parser.finish ⟨false, ⟨x, l, false⟩, ctx⟩).ctx = endCtx ctx x ∧
    (Parser.finish ⟨false, ⟨x, l, false⟩, ctx⟩).st.paren = false :=
  ⟨finish_ctx_line x l 0 false ctx, finish_paren _ rfl⟩

theorem recs_append {a : List UInt8} (b : List UInt8) {ctx : Ctx} (ha : a = [] ∨ Term a) (hctx : CtxWF ctx)
    (hok : RecOnly (items0 ctx a)) :
    recsOfY (items0 ctx (a ++ b)) = recsOfY (items0 ctx a) ++ recsOfY (items0 (endCtx ctx a) b) := by
  unfold items0
  rw [collect_append b a.length a (Nat.le_refl _) ha ctx hctx 0 false hok.ok]
  obtain ⟨h1, h2⟩ := finish_at_line a 0 ctx
  rw [h1, h2]
  simp only [recsOfY, List.filterMap_append]
  congr 1
  exact recsOfY_line _ _ _ _ _

theorem recOnly_append {a b : List UInt8} {ctx : Ctx} (ha : a = [] ∨ Term a) (hctx : CtxWF ctx)
    (hok : RecOnly (items0 ctx a)) (hb : RecOnly (items0 (endCtx ctx a) b)) : RecOnly (items0 ctx (a ++ b)) := by
  unfold items0
  rw [collect_append b a.length a (Nat.le_refl _) ha ctx hctx 0 false hok.ok]
  obtain ⟨h1, h2⟩ := finish_at_line a 0 ctx
  rw [h1, h2]
  intro y hy
  rcases List.mem_append.mp hy with h | h
  · exact hok y h
  · exact RecOnly_at_line hb _ y h

theorem endCtx_append {a b : List UInt8} {ctx : Ctx} (ha : a = [] ∨ Term a) (hctx : CtxWF ctx)
    (hok : RecOnly (items0 ctx a)) (hb : RecOnly (items0 (endCtx ctx a) b)) :
    endCtx ctx (a ++ b) = endCtx (endCtx ctx a) b := by
  obtain ⟨h1, h2⟩ := finish_at_line a 0 ctx
  unfold endCtx
  rw [finish_append b a.length a (Nat.le_refl _) ha ctx hctx 0 false hok.ok (by
    rw [h1, h2]; exact (RecOnly_at_line hb _).ok)]
  rw [h1, h2]
  exact (finish_at_line b _ _).1

theorem endCtx_WF {ctx : Ctx} (hctx : CtxWF ctx) (x : List UInt8) : CtxWF (endCtx ctx x) :=
  finish_ctxWF _ hctx

theorem items0_nil (ctx : Ctx) : items0 ctx [] = [] ∧ endCtx ctx [] = ctx := by
  have hn : (⟨false, ⟨[], 0, false⟩, ctx⟩ : Parser).next = (none, ⟨false, ⟨[], 0, false⟩, ctx⟩) := by
    simp [Parser.next, untilData]
  exact ⟨collect_none hn, by unfold endCtx; rw [finish_of_none hn]⟩

/-! ### file trees cut at their `$INCLUDE` lines, and their flattening -/

/-- A file of a tree: `leaf text` has no `$INCLUDE`; `node pre L path origin childFile child post`
    is `pre`, the `$INCLUDE` line `L` (which asks for `path`, with `origin` the origin the included
    file starts with, as the parser reports it), and `post`; `child` is the included file. -/
inductive Tree (κ : Type) where
  | leaf (text : List UInt8)
  | node (pre L path : List UInt8) (origin : Option (List UInt8)) (childFile : κ) (child post : Tree κ)

/-- the text of the file -/
def Tree.content : Tree κ → List UInt8
  | .leaf t => t
  | .node pre L _ _ _ _ post => pre ++ (L ++ post.content)

/-- an origin directive line (or nothing when there is no origin to set) -/
def originLines (oline : List UInt8 → List UInt8) : Option (List UInt8) → List UInt8
  | none => []
  | some o => oline o

/-- The flattened text: every `$INCLUDE` line is replaced by a line setting the origin the
    included file starts with, the included file's flattened text, and a line setting the
    includer's origin again.  `oline o` is the text of the line `$ORIGIN o`. -/
def Tree.flat (oline : List UInt8 → List UInt8) : Ctx → Tree κ → List UInt8
  | _, .leaf t => t
  | ctx, .node pre _ _ origin _ child post =>
    let ctxA := endCtx ctx pre
    let cctx := childContext ctxA origin
    let F := Tree.flat oline cctx child
    let c := endCtx cctx F
    pre ++ (originLines oline cctx.origin ++ (F ++ (originLines oline ctxA.origin ++
      Tree.flat oline { c with origin := ctxA.origin } post)))

/-- `oline o` is a line that sets the origin to `o` and does nothing else -/
def OLine (oline : List UInt8 → List UInt8) (o : List UInt8) : Prop :=
  Term (oline o) ∧ ∀ ctx : Ctx, items0 ctx (oline o) = [] ∧ endCtx ctx (oline o) = { ctx with origin := some o }

/-- What the flattening theorem asks of a tree (all of it can be checked by evaluation): the
    pieces between `$INCLUDE` lines end with an unescaped newline and consist of records; each
    `$INCLUDE` line, read on its own, is the request for `path` with `origin`; the path resolves
    to the child; the depth limit is respected; the origins that must be set have `$ORIGIN`
    lines; and where the includer has no origin, the included file leaves none behind. -/
def TreeOK (resolve : κ → List UInt8 → Option (κ × List UInt8)) (D : Nat) (oline : List UInt8 → List UInt8) :
    κ → Nat → Ctx → Tree κ → Prop
  | _, _, ctx, .leaf t => (t = [] ∨ Term t) ∧ RecOnly (items0 ctx t)
  | file, depth, ctx, .node pre L path origin cf child post =>
    let ctxA := endCtx ctx pre
    let cctx := childContext ctxA origin
    let c := endCtx cctx (Tree.flat oline cctx child)
    (pre = [] ∨ Term pre) ∧ RecOnly (items0 ctx pre) ∧ Term L ∧
    (∃ kL, (⟨false, ⟨L, 0, false⟩, ctxA⟩ : Parser).next =
      (some (.item (.incl 0 path origin)), ⟨false, ⟨[], kL, false⟩, ctxA⟩)) ∧
    depth < D ∧ resolve file path = some (cf, child.content) ∧
    TreeOK resolve D oline cf (depth + 1) cctx child ∧
    (∀ o, cctx.origin = some o → OLine oline o) ∧ (∀ o, ctxA.origin = some o → OLine oline o) ∧
    (ctxA.origin = none → c.origin = none) ∧
    TreeOK resolve D oline file depth { c with origin := ctxA.origin } post

theorem untilData_of_next {p p' : Parser} {i : Item} (h : p.next = (some (.item i), p')) :
    untilData p.ctx p.st = .ok ((some i, p'.ctx), p'.st) := by
  obtain ⟨e, st, ctx⟩ := p
  unfold Parser.next at h
  cases e with
  | true => simp at h
  | false =>
    simp only [Bool.false_eq_true, ↓reduceIte] at h
    cases hu : untilData ctx st with
    | ok r =>
      obtain ⟨⟨it?, ctx'⟩, st'⟩ := r
      rw [hu] at h
      cases it? <;> simp at h
      obtain ⟨rfl, rfl⟩ := h
      rfl
    | err e => rw [hu] at h; simp at h
    | panic => rw [hu] at h; simp at h

/-- an origin-line step of the flattened text -/
theorem originLines_step (oline : List UInt8 → List UInt8) (X : Option (List UInt8)) (ctx ctx' : Ctx)
    (hX : ∀ o, X = some o → OLine oline o)
    (hs : ∀ o, X = some o → ({ ctx with origin := some o } : Ctx) = ctx') (hn : X = none → ctx = ctx') :
    (originLines oline X = [] ∨ Term (originLines oline X)) ∧ items0 ctx (originLines oline X) = [] ∧
      endCtx ctx (originLines oline X) = ctx' := by
  cases X with
  | none =>
    obtain ⟨h1, h2⟩ := items0_nil ctx
    exact ⟨.inl rfl, h1, by rw [show originLines oline none = [] from rfl, h2]; exact hn rfl⟩
  | some o =>
    obtain ⟨ht, ho⟩ := hX o rfl
    obtain ⟨h1, h2⟩ := ho ctx
    exact ⟨.inr ht, h1, by rw [show originLines oline (some o) = oline o from rfl, h2]; exact hs o rfl⟩

/-- the records a tree reading reports, without file and line -/
def recsOfSY (ys : List (SY κ)) : List Rec :=
  ys.filterMap fun y => match y with
    | .record _ _ r => some r
    | _ => none

theorem recsOfSY_append (a b : List (SY κ)) : recsOfSY (a ++ b) = recsOfSY a ++ recsOfSY b := by
  simp [recsOfSY]

theorem recsOfY_append (a b : List Yield) : recsOfY (a ++ b) = recsOfY a ++ recsOfY b := by
  simp [recsOfY]

theorem recsOfSY_tagRecs (file : κ) (ys : List Yield) : recsOfSY (tagRecs file ys) = recsOfY ys := by
  induction ys with
  | nil => rfl
  | cons y ys ih =>
    simp only [recsOfSY, recsOfY, tagRecs, List.filterMap_cons] at ih ⊢
    cases y with
    | item i => cases i <;> simp [ih]
    | err e => simp [ih]
    | panic => simp [ih]

theorem childContext_WF {ctx : Ctx} (hctx : CtxWF ctx) (origin : Option (List UInt8))
    (ho : ∀ o, origin = some o → NameWF o) : CtxWF (childContext ctx origin) := by
  unfold childContext
  cases origin with
  | none => exact hctx
  | some o => exact ⟨by intro o' ho'; simp at ho'; subst ho'; exact ho o rfl, hctx.2⟩

/-- **Reading a tree is reading its flattened text.**  For every tree that satisfies `TreeOK`:
    the records the tree reading reports are the records of the flattened text, in order; both
    readings end in the same context; and the flattened text again ends with an unescaped
    newline and consists of records. -/
theorem flatten_tree (resolve : κ → List UInt8 → Option (κ × List UInt8)) (D : Nat)
    (oline : List UInt8 → List UInt8) : ∀ (t : Tree κ) (file : κ) (depth : Nat) (ctx : Ctx), CtxWF ctx →
    TreeOK resolve D oline file depth ctx t → ∀ line1 : Nat,
    recsOfSY (readFile resolve D file depth ⟨false, ⟨t.content, line1, false⟩, ctx⟩).1 =
      recsOfY (items0 ctx (t.flat oline ctx)) ∧
    (readFile resolve D file depth ⟨false, ⟨t.content, line1, false⟩, ctx⟩).2 = some (endCtx ctx (t.flat oline ctx)) ∧
    (t.flat oline ctx = [] ∨ Term (t.flat oline ctx)) ∧ RecOnly (items0 ctx (t.flat oline ctx)) := by
  intro t
  induction t with
  | leaf text =>
    intro file depth ctx hctx hok line1
    obtain ⟨hT, hR⟩ := hok
    have h := readFile_append resolve D file depth [] text.length text (Nat.le_refl _) hT ctx hctx line1 false
      (RecOnly_at_line hR line1)
    obtain ⟨f1, f2⟩ := finish_at_line text line1 ctx
    simp only [List.append_nil] at h
    have hnil : ∀ l q c, readFile resolve D file depth ⟨false, ⟨[], l, q⟩, c⟩ = ([], some c) := by
      intro l q c
      have hn : (⟨false, ⟨[], l, q⟩, c⟩ : Parser).next = (none, ⟨false, ⟨[], l, q⟩, c⟩) := by
        simp [Parser.next, untilData]
      rw [readFile, hn]
    rw [hnil] at h
    simp only [Tree.content, Tree.flat]
    rw [h]
    refine ⟨?_, by simp [f1], hT, hR⟩
    simp only [List.append_nil, recsOfSY_tagRecs]
    exact recsOfY_line _ _ _ _ _
  | node pre L path origin cf child post ihc ihp =>
    intro file depth ctx hctx hok line1
    obtain ⟨hpreT, hpreR, hLT, ⟨kL, hL⟩, hd, hres, hchild, hO1, hO2, hnone, hpost⟩ := hok
    -- contexts
    have hA : CtxWF (endCtx ctx pre) := endCtx_WF hctx pre
    have hitem := next_spec (p := ⟨false, ⟨L, 0, false⟩, endCtx ctx pre⟩) hA
    rw [hL] at hitem
    have horig : ∀ o, origin = some o → NameWF o := by
      intro o ho; have := hitem.1; simp only [ItemOK] at this; exact this o ho
    have hcc : CtxWF (childContext (endCtx ctx pre) origin) := childContext_WF hA origin horig
    obtain ⟨rc1, rc2, rc3, rc4⟩ := ihc cf (depth + 1) _ hcc hchild 1
    have hc : CtxWF (endCtx (childContext (endCtx ctx pre) origin)
        (child.flat oline (childContext (endCtx ctx pre) origin))) := endCtx_WF hcc _
    have hcB : CtxWF ({ endCtx (childContext (endCtx ctx pre) origin)
        (child.flat oline (childContext (endCtx ctx pre) origin)) with origin := (endCtx ctx pre).origin } : Ctx) :=
      ⟨fun o ho => hA.1 o ho, fun o ho => hc.2 o ho⟩
    -- names for the pieces
    generalize hctxA : endCtx ctx pre = ctxA at *
    generalize hcctx : childContext ctxA origin = cctx at *
    generalize hF : child.flat oline cctx = F at *
    generalize hcdef : endCtx cctx F = c at *
    generalize hctxB : ({ c with origin := ctxA.origin } : Ctx) = ctxB at *
    generalize hFp : post.flat oline ctxB = Fp at *
    -- the flattened text, from the inside out
    obtain ⟨t3, i3, e3⟩ := originLines_step oline ctxA.origin c ctxB hO2
      (fun o ho => by rw [← hctxB, ho]) (fun ho => by
        rw [← hctxB, ho]
        have := hnone ho
        cases c; simp at this ⊢; exact this)
    have r3 : RecOnly (items0 c (originLines oline ctxA.origin)) := by rw [i3]; intro y hy; cases hy
    obtain ⟨t1, i1, e1⟩ := originLines_step oline cctx.origin ctxA cctx hO1
      (fun o ho => by
        rw [← hcctx] at ho ⊢
        unfold childContext at ho ⊢
        cases origin with
        | none => simp at ho ⊢; cases ctxA; simp at ho ⊢; exact ho.symm
        | some o' => simp at ho ⊢; exact ho.symm)
      (fun ho => by
        rw [← hcctx] at ho ⊢
        unfold childContext at ho ⊢
        cases origin with
        | none => rfl
        | some o' => simp at ho)
    have r1 : RecOnly (items0 ctxA (originLines oline cctx.origin)) := by rw [i1]; intro y hy; cases hy
    have hpostIH := ihp file depth ctxB hcB hpost
    simp only [hFp] at hpostIH
    obtain ⟨_, _, rp3, rp4⟩ := hpostIH 0
    -- `$ORIGIN` (includer) ++ post, read in the context `c`
    have x3R : RecOnly (items0 c (originLines oline ctxA.origin ++ Fp)) :=
      recOnly_append t3 hc r3 (by rw [e3]; exact rp4)
    have x3E : endCtx c (originLines oline ctxA.origin ++ Fp) = endCtx ctxB Fp := by
      rw [endCtx_append t3 hc r3 (by rw [e3]; exact rp4), e3]
    have x3V : recsOfY (items0 c (originLines oline ctxA.origin ++ Fp)) = recsOfY (items0 ctxB Fp) := by
      rw [recs_append _ t3 hc r3, i3, e3]; rfl
    have x3T := Term_append t3 rp3
    -- the included file's flattened text before that, read in `cctx`
    have x2R : RecOnly (items0 cctx (F ++ (originLines oline ctxA.origin ++ Fp))) :=
      recOnly_append rc3 hcc rc4 (by rw [hcdef]; exact x3R)
    have x2E : endCtx cctx (F ++ (originLines oline ctxA.origin ++ Fp)) = endCtx ctxB Fp := by
      rw [endCtx_append rc3 hcc rc4 (by rw [hcdef]; exact x3R), hcdef, x3E]
    have x2V : recsOfY (items0 cctx (F ++ (originLines oline ctxA.origin ++ Fp))) =
        recsOfY (items0 cctx F) ++ recsOfY (items0 ctxB Fp) := by
      rw [recs_append _ rc3 hcc rc4, hcdef, x3V]
    have x2T := Term_append rc3 x3T
    -- `$ORIGIN` (included file) before that, read in `ctxA`
    have x1R : RecOnly (items0 ctxA (originLines oline cctx.origin ++ (F ++ (originLines oline ctxA.origin ++ Fp)))) :=
      recOnly_append t1 hA r1 (by rw [e1]; exact x2R)
    have x1E : endCtx ctxA (originLines oline cctx.origin ++ (F ++ (originLines oline ctxA.origin ++ Fp))) =
        endCtx ctxB Fp := by
      rw [endCtx_append t1 hA r1 (by rw [e1]; exact x2R), e1, x2E]
    have x1V : recsOfY (items0 ctxA (originLines oline cctx.origin ++ (F ++ (originLines oline ctxA.origin ++ Fp)))) =
        recsOfY (items0 cctx F) ++ recsOfY (items0 ctxB Fp) := by
      rw [recs_append _ t1 hA r1, i1, e1, x2V]; rfl
    have x1T := Term_append t1 x2T
    -- the whole flattened text, read in `ctx`
    have hflat : (Tree.node pre L path origin cf child post).flat oline ctx =
        pre ++ (originLines oline cctx.origin ++ (F ++ (originLines oline ctxA.origin ++ Fp))) := by
      simp only [Tree.flat, hctxA, hcctx, hF, hcdef, hctxB, hFp]
    have x0R := recOnly_append hpreT hctx hpreR (by rw [hctxA]; exact x1R)
    have x0E := endCtx_append hpreT hctx hpreR (by rw [hctxA]; exact x1R)
    have x0V := recs_append (originLines oline cctx.origin ++ (F ++ (originLines oline ctxA.origin ++ Fp))) hpreT hctx hpreR
    rw [hctxA] at x0E x0V
    rw [x1E] at x0E
    rw [x1V] at x0V
    have x0T := Term_append hpreT x1T
    rw [hflat]
    -- the tree reading: `pre`, then the `$INCLUDE` line, the included file, and `post`
    have hTa := readFile_append resolve D file depth (L ++ post.content) pre.length pre (Nat.le_refl _) hpreT ctx hctx
      line1 false (RecOnly_at_line hpreR line1)
    obtain ⟨f1, f2⟩ := finish_at_line pre line1 ctx
    rw [f1, f2, hctxA] at hTa
    generalize hlA : (Parser.finish ⟨false, ⟨pre, line1, false⟩, ctx⟩).st.line = lA at hTa
    have hnextL : (⟨false, ⟨L, lA, false⟩, ctxA⟩ : Parser).next =
        (some (.item (.incl lA path origin)), ⟨false, ⟨[], kL + lA, false⟩, ctxA⟩) := by
      have := next_shift ⟨false, ⟨L, 0, false⟩, ctxA⟩ lA
      rw [hL] at this
      simpa [shiftParser, shiftSt, shiftY, shItem] using this
    have hu := untilData_of_next hnextL
    simp only at hu
    obtain ⟨a1, _⟩ := untilData_append ctxA post.content L.length L (Nat.le_refl _) hLT ctxA lA false
    obtain ⟨k1, _⟩ := a1 _ _ _ hu
    have hnext := next_of_untilData k1
    simp only [List.nil_append] at hnext
    obtain ⟨rp1, rp2, _, _⟩ := hpostIH (kL + lA)
    have hR : readFile resolve D file depth ⟨false, ⟨L ++ post.content, lA, false⟩, ctxA⟩ =
        ((readFile resolve D cf (depth + 1) ⟨false, ⟨child.content, 1, false⟩, cctx⟩).1 ++
          (readFile resolve D file depth ⟨false, ⟨post.content, kL + lA, false⟩, ctxB⟩).1,
         (readFile resolve D file depth ⟨false, ⟨post.content, kL + lA, false⟩, ctxB⟩).2) := by
      rw [readFile, hnext]
      have hd' : ¬ depth ≥ D := by omega
      simp only [hd', ↓reduceDIte, hres]
      have hcp : Parser.withContext child.content (childContext ctxA origin) =
          ⟨false, ⟨child.content, 1, false⟩, cctx⟩ := by rw [hcctx]; rfl
      rw [hcp]
      cases hTc : readFile resolve D cf (depth + 1) ⟨false, ⟨child.content, 1, false⟩, cctx⟩ with
      | mk ys oc =>
        rw [hTc] at rc2
        simp only at rc2
        subst rc2
        have hlt : post.content.length < (L ++ post.content).length := by
          have : 0 < L.length := List.length_pos_iff.mpr hLT.ne_nil
          simp; omega
        simp only [hlt, ↓reduceIte, hctxB]
    have hT : readFile resolve D file depth ⟨false, ⟨(Tree.node pre L path origin cf child post).content, line1, false⟩, ctx⟩ =
        (tagRecs file (collect ⟨false, ⟨pre, line1, false⟩, ctx⟩) ++
          ((readFile resolve D cf (depth + 1) ⟨false, ⟨child.content, 1, false⟩, cctx⟩).1 ++
            (readFile resolve D file depth ⟨false, ⟨post.content, kL + lA, false⟩, ctxB⟩).1),
         (readFile resolve D file depth ⟨false, ⟨post.content, kL + lA, false⟩, ctxB⟩).2) := by
      show readFile resolve D file depth ⟨false, ⟨pre ++ (L ++ post.content), line1, false⟩, ctx⟩ = _
      rw [hTa, hR]
    refine ⟨?_, ?_, x0T, x0R⟩
    · rw [hT, x0V]
      simp only [recsOfSY_append, recsOfSY_tagRecs, rc1, rp1]
      congr 1
      exact recsOfY_line _ _ _ _ _
    · rw [hT, x0E]
      exact rp2

/-! ### `$ORIGIN` lines for every name -/

open QV.Spec.ZF in
/-- a label with every octet written as `\DDD` -/
def decLabel (l : List UInt8) : PLabel := l.map fun b => (b, OctetForm.dec)

/-- the labels of a name in wire form (root label excluded) -/
def decodeLabels : Nat → List UInt8 → List (List UInt8)
  | 0, _ => []
  | _, [] => []
  | fuel + 1, c :: rest => if c == 0 then [] else rest.take c.toNat :: decodeLabels fuel (rest.drop c.toNat)

open QV.Spec.ZF in
/-- the line `$ORIGIN <name>` for a name given in wire form: every octet written as `\DDD` -/
def originLine (o : List UInt8) : List UInt8 :=
  [36, 79, 82, 73, 71, 73, 78] ++ ([32] ++ (renderAbsName ((decodeLabels o.length o).map decLabel) ++ [10]))

theorem decodeLabels_encode (ls : List (List UInt8)) (h : LabelsOK ls) (fuel : Nat) (hf : ls.length < fuel) :
    decodeLabels fuel (flatLabels ls ++ [0]) = ls := by
  induction ls generalizing fuel with
  | nil =>
    cases fuel with
    | zero => omega
    | succ f => simp [flatLabels, decodeLabels]
  | cons l ls ih =>
    cases fuel with
    | zero => omega
    | succ f =>
      obtain ⟨hpos, h63⟩ := h l (by simp)
      have hlen : (UInt8.ofNat l.length).toNat = l.length := by
        simp [UInt8.toNat_ofNat']; omega
      have hne : (UInt8.ofNat l.length == 0) = false := by
        cases hb : (UInt8.ofNat l.length == 0) with
        | false => rfl
        | true =>
          have hb' : UInt8.ofNat l.length = 0 := by simpa using hb
          have h0 := congrArg UInt8.toNat hb'
          rw [hlen] at h0
          have : (0 : UInt8).toNat = 0 := rfl
          omega
      have e : flatLabels (l :: ls) ++ [0] = UInt8.ofNat l.length :: (l ++ (flatLabels ls ++ [0])) := by
        simp [flatLabels, encLabel]
      rw [e, decodeLabels]
      simp only [hne, Bool.false_eq_true, ↓reduceIte, hlen, List.take_left', List.drop_left']
      rw [ih (fun x hx => h x (by simp [hx])) f (by simp at hf; omega)]

theorem single_line_none {ctx ctx' : Ctx} {text : List UInt8} {line' : Nat}
    (hline : parseLine ctx ⟨text, 0, false⟩ = .ok ((none, ctx'), ⟨[], line', false⟩)) (hne : text ≠ []) :
    items0 ctx text = [] ∧ endCtx ctx text = ctx' := by
  have hu : untilData ctx ⟨text, 0, false⟩ = .ok ((none, ctx'), ⟨[], line', false⟩) := by
    rw [untilData]
    cases ht : text with
    | nil => exact absurd ht hne
    | cons c t =>
      simp only
      rw [← ht, hline]
      have : ([] : List UInt8).length < text.length := List.length_pos_iff.mpr hne
      simp only [this, ↓reduceIte]
      rw [untilData]
  have hn : (⟨false, ⟨text, 0, false⟩, ctx⟩ : Parser).next = (none, ⟨false, ⟨[], line', false⟩, ctx'⟩) := by
    simp [Parser.next, hu]
  exact ⟨collect_none hn, by unfold endCtx; rw [finish_of_none hn]⟩

open QV.Spec.ZF in
/-- **`$ORIGIN` lines exist for every name**: the line written by `originLine` sets the origin to
    the given name and yields nothing -/
theorem OLine_originLine (o : List UInt8) (ho : NameWF o) : OLine originLine o := by
  obtain ⟨ls, hls, rfl, hlen⟩ := ho
  have hdec : decodeLabels (encodeName ls).length (encodeName ls) = ls := by
    apply decodeLabels_encode ls hls
    have := flatLabels_length_ge hls
    simp [encodeName]; omega
  have hterm : Term (originLine (encodeName ls)) := by
    refine ⟨[36, 79, 82, 73, 71, 73, 78] ++ ([32] ++ renderAbsName ((decodeLabels (encodeName ls).length (encodeName ls)).map decLabel)),
      by simp [originLine], ?_⟩
    rw [hdec]
    have : ∀ P : List PLabel, (renderAbsName P).getLast? = some 46 := by
      intro P
      unfold renderAbsName
      cases P with
      | nil => rfl
      | cons l P' =>
        simp only [List.isEmpty_cons, Bool.false_eq_true, ↓reduceIte]
        induction P' generalizing l with
        | nil => simp
        | cons l2 P'' ih =>
          rw [List.flatMap_cons, List.getLast?_append]
          rw [ih l2]
          rfl
    rw [List.getLast?_append, List.getLast?_append, this]
    simp
  refine ⟨hterm, fun ctx => ?_⟩
  unfold originLine
  rw [hdec]
  cases ls with
  | nil =>
    -- the root: `$ORIGIN .`
    have hline : parseLine ctx ⟨[36, 79, 82, 73, 71, 73, 78] ++ ([32] ++ (renderAbsName (([] : List (List UInt8)).map decLabel) ++ [10])), 0, false⟩ =
        .ok ((none, { ctx with origin := some (encodeName []) }), ⟨[], 1, false⟩) := by
      have hexp : expectFieldCI [36, 79, 82, 73, 71, 73, 78] ⟨[36, 79, 82, 73, 71, 73, 78, 32, 46, 10], 0, false⟩ =
          (true, ⟨[32, 46, 10], 0, false⟩) := by decide +kernel
      have hrest : parseOriginDirective ctx ⟨[32, 46, 10], 0, false⟩ =
          .ok ({ ctx with origin := some [0] }, ⟨[], 1, false⟩) := by
        unfold parseOriginDirective
        have h1 : skipToNextField Kind.ExpectedName ⟨[32, 46, 10], 0, false⟩ = .ok ((), ⟨[46, 10], 0, false⟩) := by
          decide +kernel
        have h2 : pName ctx ⟨[46, 10], 0, false⟩ = .ok ([0], ⟨[10], 0, false⟩) := by
          unfold pName parseName
          simp [expectField, expectFieldImpl, atFieldEnd, eolLen]
        have h3 : expectEol ⟨[10], 0, false⟩ = .ok ((), ⟨[], 1, false⟩) := by decide +kernel
        simp only [bind, P.bind, h1, h2, h3, pure, P.pure]
      show parseLine ctx ⟨[36, 79, 82, 73, 71, 73, 78, 32, 46, 10], 0, false⟩ = _
      unfold parseLine
      simp only [beq_self_eq_true, ↓reduceIte]
      unfold parseDirective
      simp only [bind, P.bind, liftB, origin_bytes, hexp, ↓reduceIte, hrest, pure, P.pure]
      rfl
    exact single_line_none hline (by simp)
  | cons l ls' =>
    have hwf : WFName (.abs ((l :: ls').map decLabel)) := by
      refine ⟨by simp, ?_, ?_, ?_⟩
      · intro P hP x hx
        obtain ⟨l0, _, rfl⟩ := List.mem_map.mp hP
        obtain ⟨b, _, rfl⟩ := List.mem_map.mp hx
        rfl
      · have : ((l :: ls').map decLabel).map labelOctets = l :: ls' := by
          simp [decLabel, labelOctets, Function.comp_def]
        rw [this]; exact hls
      · have : ((l :: ls').map decLabel).map labelOctets = l :: ls' := by
          simp [decLabel, labelOctets, Function.comp_def]
        rw [this]
        simp [encodeName] at hlen
        simpa using hlen
    have hline := parseLine_origin ctx ((l :: ls').map decLabel) hwf [32] [] [] false [] (by simp) (by decide)
      (by simp) (.inl rfl) 0
    have hw : wireName (((l :: ls').map decLabel).map labelOctets) = encodeName (l :: ls') := by
      have : ((l :: ls').map decLabel).map labelOctets = l :: ls' := by
        simp [decLabel, labelOctets, Function.comp_def]
      rw [this]; rfl
    rw [hw] at hline
    simp only [eolText, Bool.false_eq_true, ↓reduceIte, List.nil_append, List.append_nil] at hline
    exact single_line_none hline (by simp)

end QV.Inc
