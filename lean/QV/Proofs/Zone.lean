/-
  QV.Proofs.Zone — lemmas relating the zone model (`QV.Model.Zone`, `QV.Model.Validation`) to the
  flat-list specification (`QV.Spec.Zone`).
-/
import QV.Model.Zone
import QV.Model.Validation
import QV.Spec.Zone

namespace QV.Zone
open QV QV.NameL QV.Spec.Zone

end QV.Zone
