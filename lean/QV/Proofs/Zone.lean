/-
  QV.Proofs.Zone — the tree of `QV.Model.Zone` seen as a partial function from paths to RRset
  lists (`rrs`), and how `add` changes that function.
-/
import QV.Model.Zone
import QV.Model.Validation
import QV.Spec.Zone

namespace QV.Zone
open QV QV.NameL

/-! ### hash map of children -/

theorem childGet_childSet (cs : List (Label × Node)) (l l' : Label) (n : Node) :
    childGet (childSet cs l n) l' = if l = l' then some n else childGet cs l' := by
  induction cs with
  | nil => simp [childSet, childGet]
  | cons kv rest ih =>
    obtain ⟨k, v⟩ := kv
    by_cases hk : k = l
    · subst hk
      by_cases h2 : k = l' <;> simp [childSet, childGet, h2]
    · by_cases h2 : l = l'
      · subst h2; simp [childSet, childGet, hk, ih]
      · simp [childSet, childGet, hk, ih, h2]

theorem childSet_of_childGet (cs : List (Label × Node)) (l : Label) (n : Node)
    (h : childGet cs l = some n) : childSet cs l n = cs := by
  induction cs with
  | nil => simp [childGet] at h
  | cons kv rest ih =>
    obtain ⟨k, v⟩ := kv
    by_cases hk : k = l
    · simp [childGet, hk] at h; simp [childSet, hk, h]
    · simp [childGet, hk] at h; simp [childSet, hk, ih h]

/-! ### the tree as a function of paths -/

/-- the node reached by the labels `p` (top-down) -/
def find : Node → List Label → Option Node
  | n, [] => some n
  | .mk _ ch, l :: rest =>
    match childGet ch l with
    | some c => find c rest
    | none => none

/-- the RRset list of the node at `p`, if that node exists -/
def rrs (n : Node) (p : List Label) : Option (List Rrset) := (find n p).map Node.rrsets

@[simp] theorem rrs_nil (rr : List Rrset) (ch) : rrs (.mk rr ch) [] = some rr := rfl

theorem rrs_cons (rr : List Rrset) (ch) (l : Label) (p : List Label) :
    rrs (.mk rr ch) (l :: p) = match childGet ch l with | some c => rrs c p | none => none := by
  simp only [rrs, find]; cases childGet ch l <;> rfl

theorem rrs_empty (p : List Label) : rrs Node.empty p = if p = [] then some [] else none := by
  cases p with
  | nil => rfl
  | cons l p => simp [Node.empty, rrs_cons, childGet]

/-- existence is upward closed: a node's ancestors exist -/
theorem rrs_prefix_isSome (n : Node) (p q : List Label) (h : (rrs n (p ++ q)).isSome) : (rrs n p).isSome := by
  induction p generalizing n with
  | nil => cases n; simp
  | cons l p ih =>
    obtain ⟨rr, ch⟩ := n
    simp only [List.cons_append, rrs_cons] at h ⊢
    cases hc : childGet ch l with
    | none => simp [hc] at h
    | some c => simp only [hc] at h ⊢; exact ih c h

/-! ### RrsetList -/

/-- `RrsetList` invariant: strictly ascending types -/
def SortedT : List Rrset → Prop
  | [] => True
  | s :: rest => (∀ s' ∈ rest, s.rtype < s'.rtype) ∧ SortedT rest

/-- the RRset that `add` leaves for type `t` -/
def addedRrset (eqv : Eqv) (cls t ttl : Nat) (rd : Rdata) (old : Option Rrset) : Rrset :=
  match old with
  | some s => ⟨s.rtype, s.ttl, rdataInsert eqv cls t s.rdatas rd⟩
  | none => ⟨t, ttl, [rd]⟩

theorem lookupRrset_rtype {l : List Rrset} {t : Nat} {s : Rrset} (h : lookupRrset l t = some s) : s.rtype = t := by
  induction l with
  | nil => simp [lookupRrset] at h
  | cons a rest ih =>
    simp only [lookupRrset] at h
    split at h
    · cases h; assumption
    · exact ih h

theorem lookupRrset_mem {l : List Rrset} {t : Nat} {s : Rrset} (h : lookupRrset l t = some s) : s ∈ l := by
  induction l with
  | nil => simp [lookupRrset] at h
  | cons a rest ih =>
    simp only [lookupRrset] at h
    split at h
    · cases h; simp
    · simp [ih h]

theorem lookupRrset_none_of_lt {l : List Rrset} {t : Nat} (h : ∀ s ∈ l, t < s.rtype) : lookupRrset l t = none := by
  induction l with
  | nil => rfl
  | cons a rest ih =>
    have := h a (by simp)
    simp only [lookupRrset]
    rw [if_neg (by omega)]
    exact ih (fun s hs => h s (by simp [hs]))

/-- error ⇔ an RRset of that type exists with a different TTL -/
theorem rrsetsAdd_error (eqv : Eqv) (cls t ttl : Nat) (rd : Rdata) (l : List Rrset) (hs : SortedT l) (e : AddErr) :
    rrsetsAdd eqv cls t ttl rd l = .error e ↔ e = .TtlMismatch ∧ ∃ s, lookupRrset l t = some s ∧ s.ttl ≠ ttl := by
  induction l with
  | nil => simp [rrsetsAdd, lookupRrset]
  | cons a rest ih =>
    simp only [rrsetsAdd, lookupRrset]
    by_cases h1 : a.rtype = t
    · simp only [h1, if_true]
      by_cases h2 : a.ttl = ttl
      · simp [h2]
      · simp [h2]; exact eq_comm
    · simp only [h1, if_false]
      by_cases h3 : t < a.rtype
      · simp only [h3, if_true]
        have : lookupRrset rest t = none :=
          lookupRrset_none_of_lt (fun s hm => Nat.lt_trans h3 (hs.1 s hm))
        simp [this]
      · simp only [h3, if_false]
        have ih' := ih hs.2
        cases hr : rrsetsAdd eqv cls t ttl rd rest with
        | ok r => simp [hr] at ih' ⊢; intro he; exact ih' he
        | error e' => simp only [hr] at ih' ⊢; exact ih'

/-- on success: the RRset of type `t` is the updated / new one, all others are untouched -/
theorem rrsetsAdd_lookup (eqv : Eqv) (cls t ttl : Nat) (rd : Rdata) (l l' : List Rrset) (hs : SortedT l)
    (h : rrsetsAdd eqv cls t ttl rd l = .ok l') (t' : Nat) :
    lookupRrset l' t' = if t' = t then some (addedRrset eqv cls t ttl rd (lookupRrset l t)) else lookupRrset l t' := by
  induction l generalizing l' with
  | nil =>
    simp only [rrsetsAdd] at h; cases h
    by_cases ht : t' = t <;> simp [lookupRrset, addedRrset, ht]
    intro h; exact absurd h.symm ht
  | cons a rest ih =>
    simp only [rrsetsAdd] at h
    by_cases h1 : a.rtype = t
    · simp only [h1, if_true] at h
      by_cases h2 : a.ttl = ttl
      · simp [h2] at h; subst h
        by_cases ht : t' = t
        · subst ht; simp [lookupRrset, h1, addedRrset]; exact h2.symm
        · simp [lookupRrset, ht, h1, Ne.symm ht]
      · simp [h2] at h
    · simp only [h1, if_false] at h
      by_cases h3 : t < a.rtype
      · simp only [h3, if_true] at h; cases h
        have hn : lookupRrset rest t = none :=
          lookupRrset_none_of_lt (fun s hm => Nat.lt_trans h3 (hs.1 s hm))
        by_cases ht : t' = t
        · subst ht; simp [lookupRrset, h1, hn, addedRrset]
        · simp [lookupRrset, ht, Ne.symm ht]
      · simp only [h3, if_false] at h
        cases hr : rrsetsAdd eqv cls t ttl rd rest with
        | error e' => simp [hr] at h
        | ok r =>
          simp only [hr] at h; cases h
          have ih' := ih r hs.2 hr
          by_cases ht : t' = t
          · subst ht; simp [lookupRrset, h1] at ih' ⊢; exact ih'
          · simp only [lookupRrset, ht, if_false] at ih' ⊢
            rw [ih']

theorem rrsetsAdd_mem (eqv : Eqv) (cls t ttl : Nat) (rd : Rdata) (l l' : List Rrset)
    (h : rrsetsAdd eqv cls t ttl rd l = .ok l') (s : Rrset) (hm : s ∈ l') : s ∈ l ∨ s.rtype = t ∨ ∃ a ∈ l, a.rtype = s.rtype := by
  induction l generalizing l' with
  | nil => simp only [rrsetsAdd] at h; cases h; simp at hm; subst hm; simp
  | cons a rest ih =>
    simp only [rrsetsAdd] at h
    by_cases h1 : a.rtype = t
    · simp only [h1, if_true] at h
      by_cases h2 : a.ttl = ttl
      · simp [h2] at h; subst h
        simp at hm
        rcases hm with hm | hm
        · subst hm; right; left; rfl
        · left; simp [hm]
      · simp [h2] at h
    · simp only [h1, if_false] at h
      by_cases h3 : t < a.rtype
      · simp only [h3, if_true] at h; cases h
        simp at hm
        rcases hm with hm | hm | hm
        · subst hm; right; left; rfl
        · left; simp [hm]
        · left; simp [hm]
      · simp only [h3, if_false] at h
        cases hr : rrsetsAdd eqv cls t ttl rd rest with
        | error e' => simp [hr] at h
        | ok r =>
          simp only [hr] at h; cases h
          simp at hm
          rcases hm with hm | hm
          · left; simp [hm]
          · rcases ih r hr hm with h' | h' | ⟨a', ha', h'⟩
            · left; simp [h']
            · right; left; exact h'
            · right; right; exact ⟨a', by simp [ha'], h'⟩

theorem rrsetsAdd_sorted (eqv : Eqv) (cls t ttl : Nat) (rd : Rdata) (l l' : List Rrset) (hs : SortedT l)
    (h : rrsetsAdd eqv cls t ttl rd l = .ok l') : SortedT l' := by
  induction l generalizing l' with
  | nil => simp only [rrsetsAdd] at h; cases h; simp [SortedT]
  | cons a rest ih =>
    simp only [rrsetsAdd] at h
    by_cases h1 : a.rtype = t
    · simp only [h1, if_true] at h
      by_cases h2 : a.ttl = ttl
      · simp [h2] at h; subst h
        refine ⟨fun s' hm => ?_, hs.2⟩
        have := hs.1 s' hm
        simp; omega
      · simp [h2] at h
    · simp only [h1, if_false] at h
      by_cases h3 : t < a.rtype
      · simp only [h3, if_true] at h; cases h
        refine ⟨?_, hs⟩
        intro s' hm
        simp at hm
        rcases hm with hm | hm
        · subst hm; exact h3
        · exact Nat.lt_trans h3 (hs.1 s' hm)
      · simp only [h3, if_false] at h
        cases hr : rrsetsAdd eqv cls t ttl rd rest with
        | error e' => simp [hr] at h
        | ok r =>
          simp only [hr] at h; cases h
          refine ⟨?_, ih r hs.2 hr⟩
          intro s' hm
          rcases rrsetsAdd_mem eqv cls t ttl rd rest r hr s' hm with h' | h' | ⟨a', ha', h'⟩
          · exact hs.1 s' h'
          · omega
          · rw [← h']; exact hs.1 a' ha'

/-- two strictly sorted RRset lists with the same lookup function are equal -/
theorem sortedT_ext (l₁ l₂ : List Rrset) (h₁ : SortedT l₁) (h₂ : SortedT l₂)
    (h : ∀ t, lookupRrset l₁ t = lookupRrset l₂ t) : l₁ = l₂ := by
  induction l₁ generalizing l₂ with
  | nil =>
    cases l₂ with
    | nil => rfl
    | cons b r => have := h b.rtype; simp [lookupRrset] at this
  | cons a r ih =>
    cases l₂ with
    | nil => have := h a.rtype; simp [lookupRrset] at this
    | cons b r₂ =>
      have ha := h a.rtype
      have hb := h b.rtype
      simp only [lookupRrset, if_true] at ha hb
      have hab : a = b := by
        by_cases e : b.rtype = a.rtype
        · simp [e] at ha; exact ha
        · simp only [e, if_false] at ha
          by_cases e' : a.rtype = b.rtype
          · exact absurd e'.symm e
          · simp only [e', if_false] at hb
            have m1 := lookupRrset_mem ha.symm
            have m2 := lookupRrset_mem hb
            have := h₂.1 a m1
            have := h₁.1 b m2
            omega
      subst hab
      congr 1
      apply ih r₂ h₁.2 h₂.2
      intro t
      have ht := h t
      simp only [lookupRrset] at ht
      by_cases e : a.rtype = t
      · subst e
        rw [lookupRrset_none_of_lt (fun s hm => h₁.1 s hm), lookupRrset_none_of_lt (fun s hm => h₂.1 s hm)]
      · simpa [e] using ht

/-! ### `add` on the tree -/

/-- the RRset list that `RrsetList::add` leaves (unchanged on error) -/
def addedList (eqv : Eqv) (cls t ttl : Nat) (rd : Rdata) (old : List Rrset) : List Rrset :=
  match rrsetsAdd eqv cls t ttl rd old with
  | .ok r => r
  | .error _ => old

def addErrOf (eqv : Eqv) (cls t ttl : Nat) (rd : Rdata) (old : List Rrset) : Option AddErr :=
  match rrsetsAdd eqv cls t ttl rd old with
  | .ok _ => none
  | .error e => some e

theorem addErrOf_nil (eqv : Eqv) (cls t ttl : Nat) (rd : Rdata) : addErrOf eqv cls t ttl rd [] = none := by
  simp [addErrOf, rrsetsAdd]

theorem getD_rrs_cons (rr : List Rrset) (ch) (l : Label) (p : List Label) :
    (rrs (.mk rr ch) (l :: p)).getD [] = (rrs ((childGet ch l).getD .empty) p).getD [] := by
  rw [rrs_cons]
  cases childGet ch l with
  | none => simp [rrs_empty]; split <;> rfl
  | some c => rfl

/-- the error of `add` is decided by the RRset list at the target (empty if the node is new) -/
theorem addAt_snd (eqv : Eqv) (cls t ttl : Nat) (rd : Rdata) (node : Node) (q : List Label) :
    (addAt eqv cls t ttl rd node q).2 = addErrOf eqv cls t ttl rd ((rrs node q).getD []) := by
  induction q generalizing node with
  | nil =>
    obtain ⟨rr, ch⟩ := node
    simp only [addAt, addErrOf, rrs_nil, Option.getD_some]
    cases rrsetsAdd eqv cls t ttl rd rr <;> rfl
  | cons l rest ih =>
    obtain ⟨rr, ch⟩ := node
    simp only [addAt]
    rw [ih, getD_rrs_cons]

/-- how `add` changes the tree, as a function of paths -/
theorem rrs_addAt (eqv : Eqv) (cls t ttl : Nat) (rd : Rdata) (node : Node) (q p : List Label) :
    rrs (addAt eqv cls t ttl rd node q).1 p =
      if p = q then some (addedList eqv cls t ttl rd ((rrs node q).getD []))
      else if p <+: q then some ((rrs node p).getD [])
      else rrs node p := by
  induction q generalizing node p with
  | nil =>
    obtain ⟨rr, ch⟩ := node
    cases p with
    | nil =>
      simp only [addAt, addedList, rrs_nil, Option.getD_some, if_true]
      cases rrsetsAdd eqv cls t ttl rd rr <;> rfl
    | cons l' p' =>
      have : ¬ (l' :: p' <+: ([] : List Label)) := by simp
      simp only [addAt, this, if_false, reduceCtorEq]
      cases rrsetsAdd eqv cls t ttl rd rr <;> simp [rrs_cons]
  | cons l rest ih =>
    obtain ⟨rr, ch⟩ := node
    cases p with
    | nil => simp [addAt]
    | cons l' p' =>
      simp only [addAt, rrs_cons, childGet_childSet]
      by_cases hl : l = l'
      · subst hl
        simp only [if_true, ih, List.cons.injEq, true_and, List.cons_prefix_cons]
        cases hc : childGet ch l with
        | some c => simp
        | none =>
          simp only [Option.getD_none, rrs_empty]
          by_cases h1 : p' = rest
          · simp only [h1, if_true]; split <;> rfl
          · simp only [h1, if_false]
            by_cases h2 : p' <+: rest
            · simp only [h2, if_true]; split <;> rfl
            · have : p' ≠ [] := fun e => h2 (by simp [e])
              simp [h2, this]
      · have h1 : ¬ (l' :: p' = l :: rest) := by simp [Ne.symm hl]
        have h2 : ¬ (l' :: p' <+: l :: rest) := by simp [List.cons_prefix_cons, Ne.symm hl]
        simp [hl, h1, h2]

theorem addAt_empty_ok (eqv : Eqv) (cls t ttl : Nat) (rd : Rdata) (q : List Label) :
    (addAt eqv cls t ttl rd .empty q).2 = none := by
  rw [addAt_snd, rrs_empty]
  split <;> simp [addErrOf_nil]

/-- a failing `add` leaves the tree as it was: `TtlMismatch` needs an RRset at the target node,
    so that node — and every node on the way — existed already and nothing was created -/
theorem addAt_err_eq (eqv : Eqv) (cls t ttl : Nat) (rd : Rdata) (node : Node) (q : List Label) (e : AddErr)
    (h : (addAt eqv cls t ttl rd node q).2 = some e) : (addAt eqv cls t ttl rd node q).1 = node := by
  induction q generalizing node with
  | nil =>
    obtain ⟨rr, ch⟩ := node
    simp only [addAt] at h ⊢
    cases hr : rrsetsAdd eqv cls t ttl rd rr with
    | ok r => simp [hr] at h
    | error e' => rfl
  | cons l rest ih =>
    obtain ⟨rr, ch⟩ := node
    simp only [addAt] at h ⊢
    cases hc : childGet ch l with
    | none =>
      simp only [hc, Option.getD_none] at h
      rw [addAt_empty_ok] at h; cases h
    | some c =>
      simp only [hc, Option.getD_some] at h ⊢
      rw [ih c h, childSet_of_childGet ch l c hc]

end QV.Zone
