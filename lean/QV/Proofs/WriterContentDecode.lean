/-
  QV.Proofs.WriterContentDecode — the independent message decoder reads, item by item, the
  questions and records that were given (content half of C12 (d) in every compression mode).
-/
import QV.Proofs.WriterContent

namespace QV.Writer
open QV QV.Wire QV.Spec QV.ServerSafety

theorem be16_of_bytesAt_mod {msg : Bytes} {pos n : Nat} (h : BytesAt msg pos (u16be n)) :
    be16 msg pos = n % 65536 := by
  have h0 := bytesAt_getD h (i := 0) (by simp [u16be])
  have h1 := bytesAt_getD h (i := 1) (by simp [u16be])
  simp only [Nat.add_zero] at h0
  unfold be16
  rw [h0, h1]
  simp only [u16be, List.getElem_cons_zero, List.getElem_cons_succ, UInt8.toNat_ofNat']
  omega

/-- what the decoder reads at an item whose name is known -/
theorem item_decodes_name {s : State} {a k : Nat} {m : CMode} {n : WName} (hw : WInv s) (hit : Item s a k)
    (hnm : NameIs s a m n) :
    ∃ w, specDecodeName (s.octets.extract 0 s.cursor) a = some (w, n.len, k) ∧
      w.map lowerU8 = n.wire.map lowerU8 ∧ (m ≠ .standard → w = n.wire) := by
  obtain ⟨q, ls, hop, hst, hm⟩ := hnm
  have hcs : s.cursor ≤ s.octets.size := Nat.le_trans hw.cur_av hw.av_size
  have hqg : q ∈ s.gLabels := (nameAt_start hst).1
  obtain ⟨ls', hn, hb⟩ := hw.clabs q hqg
  have := nameAtC_unique hn hst
  subst this
  have hr : ReadsAt s a ls' := by
    refine ⟨q, q, hop, ?_, hn, hb⟩
    cases hop with
    | here _ _ _ => exact Or.inl ⟨rfl, rfl⟩
    | jump _ _ _ _ hlt _ _ => exact Or.inr ⟨hlt, rfl⟩
  obtain ⟨k', hd⟩ := readsAt_specDecodeName hr hcs
  have hcm : ChunkAt (s.octets.extract 0 s.cursor) a k :=
    chunkAt_frame hit.2.1 (fun i _ h2 => extract_prefix_get _ _ hcs _ (by have := hit.2.2; omega))
  have hk := specDecodeName_chunk hcm hd
  subst hk
  have hlen : ls'.length + 1 = n.len := by
    have := labelsMatch_length hm
    unfold WName.len; omega
  rw [hlen] at hd
  refine ⟨wireOf ls', hd, ?_, ?_⟩
  · rw [← wireOf_labels n]
    have hstd : labelsMatch .standard n.labels ls' = true := by
      unfold effMode at hm
      split at hm
      · exact hm
      · exact labelsMatch_std hm
    exact (labelsMatch_std_wire hstd).symm
  · intro hne
    have hcp : effMode m = .casePreserving := by unfold effMode; rw [if_neg hne]
    rw [hcp] at hm
    have : n.labels = ls' := labelsMatch_cp_eq hm
    rw [← this]; rfl

end QV.Writer
