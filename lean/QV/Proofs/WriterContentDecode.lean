/-
  QV.Proofs.WriterContentDecode — the independent message decoder reads, item by item, the
  questions and records that were given (content half of C12 (d) in every compression mode).
-/
import QV.Proofs.WriterContent
import QV.Proofs.WriterRefine

namespace QV.Writer
open QV QV.Wire QV.Spec QV.ServerSafety

variable {P : CMode → Prop}

/-- two lists related element by element -/
inductive All2 {α β : Type} (R : α → β → Prop) : List α → List β → Prop
  | nil : All2 R [] []
  | cons {a b as bs} (h : R a b) (t : All2 R as bs) : All2 R (a :: as) (b :: bs)

theorem All2.length {α β : Type} {R : α → β → Prop} {as : List α} {bs : List β} (h : All2 R as bs) :
    as.length = bs.length := by
  induction h with
  | nil => rfl
  | cons _ _ ih => simp [ih]

theorem All2.append {α β : Type} {R : α → β → Prop} {as as' : List α} {bs bs' : List β} (h : All2 R as bs)
    (h' : All2 R as' bs') : All2 R (as ++ as') (bs ++ bs') := by
  induction h with
  | nil => exact h'
  | cons hr _ ih => exact .cons hr ih

theorem be16_of_bytesAt_mod {msg : Bytes} {pos n : Nat} (h : BytesAt msg pos (u16be n)) :
    be16 msg pos = n % 65536 := by
  have h0 := bytesAt_getD h (i := 0) (by simp [u16be])
  have h1 := bytesAt_getD h (i := 1) (by simp [u16be])
  simp only [Nat.add_zero] at h0
  unfold be16
  rw [h0, h1]
  simp only [u16be, List.getElem_cons_zero, List.getElem_cons_succ, UInt8.toNat_ofNat']
  omega

/-- what the decoder reads at an item whose name is known -/
theorem item_decodes_name {s : State} {a k : Nat} {m : CMode} {n : WName} (hw : WInv s) (hit : Item s a k)
    (hnm : NameIs s a m n) :
    ∃ w, specDecodeName (s.octets.extract 0 s.cursor) a = some (w, n.len, k) ∧
      w.map lowerU8 = n.wire.map lowerU8 ∧ (m ≠ .standard → w = n.wire) := by
  obtain ⟨⟨q, ls, hop, hst, hm⟩, _⟩ := hnm
  have hcs : s.cursor ≤ s.octets.size := Nat.le_trans hw.cur_av hw.av_size
  have hqg : q ∈ s.gLabels := (nameAt_start hst).1
  obtain ⟨ls', hn, hb⟩ := hw.clabs q hqg
  have := nameAtC_unique hn hst
  subst this
  have hr : ReadsAt s a ls' := by
    refine ⟨q, q, hop, ?_, hn, hb⟩
    cases hop with
    | here _ _ _ => exact Or.inl ⟨rfl, rfl⟩
    | jump _ _ _ _ hlt _ _ => exact Or.inr ⟨hlt, rfl⟩
  obtain ⟨k', hd⟩ := readsAt_specDecodeName hr hcs
  have hcm : ChunkAt (s.octets.extract 0 s.cursor) a k :=
    chunkAt_frame hit.2.1 (fun i _ h2 => extract_prefix_get _ _ hcs _ (by have := hit.2.2; omega))
  have hk := specDecodeName_chunk hcm hd
  subst hk
  have hlen : ls'.length + 1 = n.len := by
    have := labelsMatch_length hm
    unfold WName.len; omega
  rw [hlen] at hd
  refine ⟨wireOf ls', hd, ?_, ?_⟩
  · rw [← wireOf_labels n]
    have hstd : labelsMatch .standard n.labels ls' = true := by
      unfold effMode at hm
      split at hm
      · exact hm
      · exact labelsMatch_std hm
    exact (labelsMatch_std_wire hstd).symm
  · intro hne
    have hcp : effMode m = .casePreserving := by unfold effMode; rw [if_neg hne]
    rw [hcp] at hm
    have : n.labels = ls' := labelsMatch_cp_eq hm
    rw [← this]; rfl


theorem specField32_of_bytesAt {m : Bytes} {i n : Nat} (h : BytesAt m i (u32be n)) :
    specField32 m i = some (n % 4294967296) := by
  have hl : (u32be n).length = 4 := rfl
  have g : ∀ j (hj : j < 4), m[i + j]? = some ((u32be n)[j]'(by rw [hl]; exact hj)) :=
    fun j hj => bytesAt_get h (by rw [hl]; exact hj)
  have g0 := g 0 (by omega); have g1 := g 1 (by omega); have g2 := g 2 (by omega); have g3 := g 3 (by omega)
  simp only [Nat.add_zero] at g0
  unfold specField32 specField16
  rw [g0, g1, show i + 2 = i + 2 from rfl, g2, show i + 2 + 1 = i + 3 by omega, g3]
  simp only [u32be, List.getElem_cons_zero, List.getElem_cons_succ, UInt8.toNat_ofNat', Option.some.injEq]
  omega

/-- a decoded question is the question given -/
def QMatch (it : QItC) (dq : DQuestion) : Prop :=
  dq.qname.map lowerU8 = it.q.qname.wire.map lowerU8 ∧ (it.m ≠ .standard → dq.qname = it.q.qname.wire) ∧
  dq.qtype = it.q.qtype % 65536 ∧ dq.qclass = it.q.qclass % 65536

/-- a decoded record is the record given (owner, TYPE, CLASS, TTL; RDATA octet for octet if its
    type holds no compressible name) -/
def RMatch (it : RItC) (dr : DRr) : Prop :=
  dr.owner.map lowerU8 = it.r.owner.wire.map lowerU8 ∧ (it.m ≠ .standard → dr.owner = it.r.owner.wire) ∧
  dr.ty = it.r.ty % 65536 ∧ dr.cls = it.r.cls % 65536 ∧ dr.rawTtl = it.r.ttl % 4294967296 ∧ dr.pos = it.a ∧
  (it.r.ty < 65536 → ∀ ts, componentTypes it.r.cls it.r.ty = some ts → CompType.compressibleName ∉ ts →
    dr.rdata = it.r.rdata ∧ dr.rdOk = true)

theorem bytesAt_extract_prefix {o : Bytes} {c p : Nat} {d : List UInt8} (hc : c ≤ o.size) (h : BytesAt o p d)
    (hp : p + d.length ≤ c) : BytesAt (o.extract 0 c) p d := by
  intro i hi
  rw [extract_prefix_get o c hc _ (by omega)]
  exact h i hi

theorem decodeQuestions_chainC (s : State) (hw : WInv s) :
    ∀ (qs : List QItC) (p e : Nat), QChainC s qs p e → e ≤ s.cursor →
      ∃ l, decodeQuestions (s.octets.extract 0 s.cursor) qs.length p = some (l, e) ∧ All2 QMatch qs l := by
  have hcs : s.cursor ≤ s.octets.size := Nat.le_trans hw.cur_av hw.av_size
  have hsz := extract_size s.octets s.cursor hcs
  intro qs
  induction qs with
  | nil => intro p e h _; exact ⟨[], by simp [decodeQuestions, QChainC] at h ⊢; exact h, .nil⟩
  | cons x r ih =>
    intro p e h he
    obtain ⟨h1, ⟨hit, hnm, hby⟩, h3⟩ := h
    subst h1
    obtain ⟨w, hd, hcase, hex⟩ := item_decodes_name hw hit hnm
    have hle := qchainC_le h3
    obtain ⟨l, hl, hfa⟩ := ih _ _ h3 he
    have hl2 : ∀ y, (u16be y).length = 2 := fun _ => rfl
    obtain ⟨b1, b2⟩ := bytesAt_append hby
    rw [hl2] at b2
    have e1 : be16 (s.octets.extract 0 s.cursor) (x.a + x.k) = x.q.qtype % 65536 :=
      be16_of_bytesAt_mod (bytesAt_extract_prefix hcs b1 (by rw [hl2]; omega))
    have e2 : be16 (s.octets.extract 0 s.cursor) (x.a + x.k + 2) = x.q.qclass % 65536 :=
      be16_of_bytesAt_mod (bytesAt_extract_prefix hcs b2 (by rw [hl2]; omega))
    refine ⟨⟨w, x.q.qtype % 65536, x.q.qclass % 65536⟩ :: l, ?_, .cons ⟨hcase, hex, rfl, rfl⟩ hfa⟩
    simp only [List.length_cons, decodeQuestions, specQuestionAt, hd]
    rw [specField16_some (by rw [hsz]; omega), specField16_some (by rw [hsz]; omega), e1, e2]
    simp only [hl]

/-! ### the expanded RDATA of the types with compressible names -/

/-- the decoded name `w` is the name given: equal up to ASCII case, octet for octet if `ex` -/
def NameSim (ex : Prop) (n : WName) (w : List UInt8) : Prop :=
  n.WF ∧ w.map lowerU8 = n.wire.map lowerU8 ∧ (ex → w = n.wire)

/-- the RDATA given is well formed for its type, as far as the decoder's expansion looks: the
    RFC 1035 types with compressible names consist of exactly the names (and fixed octets) of
    their layout — one name (NS, MD, MF, CNAME, MB, MG, MR, PTR), two names and 20 octets (SOA),
    two names (MINFO), two octets and a name (MX) -/
def RdShape (ty : Nat) (rd : List UInt8) : Prop :=
  if ty = 2 ∨ ty = 3 ∨ ty = 4 ∨ ty = 5 ∨ ty = 7 ∨ ty = 8 ∨ ty = 9 ∨ ty = 12 then ∃ n, WName.parse rd = some (n, [])
  else if ty = 6 then ∃ a r1 b tl, WName.parse rd = some (a, r1) ∧ WName.parse r1 = some (b, tl) ∧ tl.length = 20
  else if ty = 14 then ∃ a r1 b, WName.parse rd = some (a, r1) ∧ WName.parse r1 = some (b, [])
  else if ty = 15 then 2 ≤ rd.length ∧ ∃ a, WName.parse (rd.drop 2) = some (a, [])
  else True

/-- **the expanded RDATA `d` is the RDATA given `g` with every compressible name written out**: the
    names equal to those given up to ASCII case (octet for octet if `ex`), all other octets as
    given -/
def RdExpands (ex : Prop) (ty : Nat) (g d : List UInt8) : Prop :=
  if ty = 2 ∨ ty = 3 ∨ ty = 4 ∨ ty = 5 ∨ ty = 7 ∨ ty = 8 ∨ ty = 9 ∨ ty = 12 then
    ∃ n w, g = n.wire ∧ d = w ∧ NameSim ex n w
  else if ty = 6 then
    ∃ a b tl wa wb, g = a.wire ++ b.wire ++ tl ∧ d = wa ++ wb ++ tl ∧ NameSim ex a wa ∧ NameSim ex b wb ∧
      tl.length = 20
  else if ty = 14 then ∃ a b wa wb, g = a.wire ++ b.wire ∧ d = wa ++ wb ∧ NameSim ex a wa ∧ NameSim ex b wb
  else if ty = 15 then ∃ pre a wa, pre.length = 2 ∧ g = pre ++ a.wire ∧ d = pre ++ wa ∧ NameSim ex a wa
  else d = g

theorem nameSim_lower {ex : Prop} {n : WName} {w : List UInt8} (h : NameSim ex n w) :
    w.map lowerU8 = n.wire.map lowerU8 := h.2.1

/-- up to ASCII case the expanded RDATA is the RDATA given; octet for octet if `ex` -/
theorem rdExpands_lower {ex : Prop} {ty : Nat} {g d : List UInt8} (h : RdExpands ex ty g d) :
    d.map lowerU8 = g.map lowerU8 ∧ (ex → d = g) := by
  unfold RdExpands at h
  split at h
  · obtain ⟨n, w, rfl, rfl, hs⟩ := h
    exact ⟨hs.2.1, hs.2.2⟩
  · split at h
    · obtain ⟨a, b, tl, wa, wb, rfl, rfl, ha, hb, _⟩ := h
      exact ⟨by simp only [List.map_append, ha.2.1, hb.2.1], fun hx => by rw [ha.2.2 hx, hb.2.2 hx]⟩
    · split at h
      · obtain ⟨a, b, wa, wb, rfl, rfl, ha, hb⟩ := h
        exact ⟨by simp only [List.map_append, ha.2.1, hb.2.1], fun hx => by rw [ha.2.2 hx, hb.2.2 hx]⟩
      · split at h
        · obtain ⟨pre, a, wa, _, rfl, rfl, ha⟩ := h
          exact ⟨by simp only [List.map_append, ha.2.1], fun hx => by rw [ha.2.2 hx]⟩
        · exact ⟨by rw [h], fun _ => h⟩

theorem rdName_item {s : State} {a k e : Nat} {m : CMode} {n : WName} (hw : WInv s) (hit : Item s a k)
    (hnm : NameIs s a m n) (hn : n.WF) (he : a + k ≤ e) :
    ∃ w, rdName (s.octets.extract 0 s.cursor) a e = some (w, k) ∧ NameSim (m ≠ .standard) n w := by
  obtain ⟨w, hd, hc, hx⟩ := item_decodes_name hw hit hnm
  refine ⟨w, ?_, hn, hc, hx⟩
  unfold rdName
  rw [hd]
  simp only [if_pos he]

/-- **the MsgDecode decoder's RDATA expansion on what the writer wrote**: where the parts of an
    RDATA lie (`RdAt`) and the RDATA given is well formed for its type, `expandRdata` succeeds and
    returns the RDATA given with its compressible names written out -/
theorem expandRdata_rdAt (s : State) (hw : WInv s) (m : CMode) (cls ty : Nat) (ts : List CompType)
    (rd : List UInt8) (p len : Nat) (ps : List Nat) (hct : componentTypes cls ty = some ts)
    (h : RdAt s m ts rd p (p + len) ps) (hstop : p + len ≤ s.cursor) (hsh : RdShape ty rd) :
    ∃ rd', expandRdata (s.octets.extract 0 s.cursor) ty p len = some rd' ∧
      RdExpands (m ≠ .standard) ty rd rd' := by
  have hcs : s.cursor ≤ s.octets.size := Nat.le_trans hw.cur_av hw.av_size
  rw [componentTypes_layout] at hct
  simp only [Option.some.injEq] at hct
  subst hct
  unfold RdShape at hsh
  unfold RdExpands expandRdata Message.layoutOf at *
  by_cases h1 : ty = 2 ∨ ty = 3 ∨ ty = 4 ∨ ty = 5 ∨ ty = 7 ∨ ty = 8 ∨ ty = 9 ∨ ty = 12
  · simp only [h1, if_true, List.map_cons, List.map_nil, layToComp, RdAt] at h hsh ⊢
    obtain ⟨n, rest, k, hp, hit, hnm, _, _, hb, he, _⟩ := h
    obtain ⟨n', hp'⟩ := hsh
    rw [hp] at hp'
    simp only [Option.some.injEq, Prod.mk.injEq] at hp'
    obtain ⟨rfl, rfl⟩ := hp'
    simp only [List.length_nil, Nat.add_zero] at he
    obtain ⟨w, hrn, hsim⟩ := rdName_item (e := p + len) hw hit hnm (parse_wf hp) (by omega)
    refine ⟨w, ?_, n, w, by have := parse_content hp; simpa using this, rfl, hsim⟩
    rw [hrn]
    simp only [if_pos he.symm]
  · simp only [h1, if_false] at h hsh ⊢
    by_cases h6 : ty = 6
    · subst h6
      simp only [true_or, if_true, List.map_cons, List.map_nil, layToComp, RdAt] at h hsh ⊢
      obtain ⟨a, r1, k1, hp1, hit1, hnm1, _, _, b, r2, k2, hp2, hit2, hnm2, _, _, hb, he, _⟩ := h
      obtain ⟨a', r1', b', tl, hq1, hq2, htl⟩ := hsh
      rw [hp1] at hq1
      simp only [Option.some.injEq, Prod.mk.injEq] at hq1
      obtain ⟨rfl, rfl⟩ := hq1
      rw [hp2] at hq2
      simp only [Option.some.injEq, Prod.mk.injEq] at hq2
      obtain ⟨rfl, rfl⟩ := hq2
      obtain ⟨wa, hra, hsa⟩ := rdName_item (e := p + len) hw hit1 hnm1 (parse_wf hp1) (by omega)
      obtain ⟨wb, hrb, hsb⟩ := rdName_item (e := p + len) hw hit2 hnm2 (parse_wf hp2) (by omega)
      have hex : ((s.octets.extract 0 s.cursor).extract (p + k1 + k2) (p + len)).toList = r2 := by
        have := bytesAt_extract (bytesAt_extract_prefix hcs hb (by omega))
        rw [← he] at this; exact this
      refine ⟨wa ++ wb ++ r2, ?_, a, b, r2, wa, wb, ?_, rfl, hsa, hsb, htl⟩
      · rw [hra]
        simp only []
        rw [hrb]
        simp only []
        rw [if_pos (by omega), hex]
      · have c1 := parse_content hp1
        have c2 := parse_content hp2
        rw [c1, c2, List.append_assoc]
    · by_cases h14 : ty = 14
      · subst h14
        simp only [Nat.reduceEqDiff, or_true, if_true, if_false, List.map_cons, List.map_nil, layToComp, RdAt] at h hsh ⊢
        obtain ⟨a, r1, k1, hp1, hit1, hnm1, _, _, b, r2, k2, hp2, hit2, hnm2, _, _, hb, he, _⟩ := h
        obtain ⟨a', r1', b', hq1, hq2⟩ := hsh
        rw [hp1] at hq1
        simp only [Option.some.injEq, Prod.mk.injEq] at hq1
        obtain ⟨rfl, rfl⟩ := hq1
        rw [hp2] at hq2
        simp only [Option.some.injEq, Prod.mk.injEq] at hq2
        obtain ⟨rfl, rfl⟩ := hq2
        simp only [List.length_nil, Nat.add_zero] at he
        obtain ⟨wa, hra, hsa⟩ := rdName_item (e := p + len) hw hit1 hnm1 (parse_wf hp1) (by omega)
        obtain ⟨wb, hrb, hsb⟩ := rdName_item (e := p + len) hw hit2 hnm2 (parse_wf hp2) (by omega)
        refine ⟨wa ++ wb, ?_, a, b, wa, wb, ?_, rfl, hsa, hsb⟩
        · rw [hra]
          simp only []
          rw [hrb]
          simp only []
          rw [if_pos he.symm]
        · have c1 := parse_content hp1
          have c2 := parse_content hp2
          rw [c1, c2]; simp
      · by_cases h15 : ty = 15
        · subst h15
          simp only [Nat.reduceEqDiff, or_self, if_true, if_false, List.map_cons, List.map_nil, layToComp, RdAt] at h hsh ⊢
          obtain ⟨h2, hb2, a, r1, k1, hp1, hit1, hnm1, _, _, hb, he, _⟩ := h
          obtain ⟨_, a', hq1⟩ := hsh
          rw [hp1] at hq1
          simp only [Option.some.injEq, Prod.mk.injEq] at hq1
          obtain ⟨rfl, rfl⟩ := hq1
          simp only [List.length_nil, Nat.add_zero] at he
          obtain ⟨wa, hra, hsa⟩ := rdName_item (e := p + len) hw hit1 hnm1 (parse_wf hp1) (by omega)
          have htl : (rd.take 2).length = 2 := by rw [List.length_take]; omega
          have hex : ((s.octets.extract 0 s.cursor).extract p (p + 2)).toList = rd.take 2 := by
            have := bytesAt_extract (bytesAt_extract_prefix hcs hb2 (by rw [htl]; omega))
            rw [htl] at this; exact this
          refine ⟨rd.take 2 ++ wa, ?_, rd.take 2, a, wa, htl, ?_, rfl, hsa⟩
          · rw [if_neg (by omega), hra]
            simp only []
            rw [if_pos he.symm, hex]
          · have c1 := parse_content hp1
            rw [List.append_nil] at c1
            rw [← c1, List.take_append_drop]
        · have hn : CompType.compressibleName ∉ List.map layToComp
              (if ty = 6 ∨ ty = 14 then [Message.Lay.cname, Message.Lay.cname]
               else if ty = 15 then [Message.Lay.fixed 2, Message.Lay.cname]
               else if ty = 33 ∧ cls = 1 then [Message.Lay.fixed 6, Message.Lay.uname]
               else if ty = 1 ∧ cls = 3 then [Message.Lay.uname] else []) := by
            rw [if_neg (by omega), if_neg h15]
            split
            · simp [layToComp]
            · split <;> simp [layToComp]
          obtain ⟨hbb, hee⟩ := rdAt_literal h hn
          have hrl : len = rd.length := by omega
          refine ⟨rd, ?_, ?_⟩
          · simp only [h6, h14, h15, if_false]
            rw [hrl]
            congr 1
            exact bytesAt_extract (bytesAt_extract_prefix hcs hbb (by omega))
          · simp only [h6, h14, h15, if_false]

/-- the decoder's expanded RDATA is the RDATA given with its compressible names written out (for
    16-bit types and RDATA that is well formed for its type) -/
def RdMatch (it : RItC) (dr : DRr) : Prop :=
  it.r.ty < 65536 → RdShape it.r.ty it.r.rdata →
    RdExpands (it.m ≠ .standard) it.r.ty it.r.rdata dr.rdata ∧ dr.rdOk = true

/-- `RMatch` and `RdMatch` together -/
def RMatchX (it : RItC) (dr : DRr) : Prop := RMatch it dr ∧ RdMatch it dr

theorem All2.imp {α β : Type} {R S : α → β → Prop} (hRS : ∀ a b, R a b → S a b) {as : List α} {bs : List β}
    (h : All2 R as bs) : All2 S as bs := by
  induction h with
  | nil => exact .nil
  | cons hh _ ih => exact .cons (hRS _ _ hh) ih

theorem decodeRrs_chainCX (s : State) (hw : WInv s) :
    ∀ (rs : List RItC) (p e : Nat), RChainC s rs p e → e ≤ s.cursor → ∀ n, n ≤ rs.length →
      ∃ l p', decodeRrs (s.octets.extract 0 s.cursor) n p = some (l, p') ∧
        All2 RMatchX (rs.take n) l ∧ RChainC s (rs.drop n) p' e := by
  have hcs : s.cursor ≤ s.octets.size := Nat.le_trans hw.cur_av hw.av_size
  have hsz := extract_size s.octets s.cursor hcs
  intro rs
  induction rs with
  | nil =>
    intro p e h _ n hn
    have : n = 0 := by simpa using hn
    subst this
    exact ⟨[], p, rfl, .nil, h⟩
  | cons x r ih =>
    intro p e h he n hn
    cases n with
    | zero => exact ⟨[], p, rfl, .nil, h⟩
    | succ n =>
      obtain ⟨h1, ⟨hit, hnm, hby, hb, ts, hct, hrd⟩, h4⟩ := h
      subst h1
      obtain ⟨w, hd, hcase, hex⟩ := item_decodes_name hw hit hnm
      have hle := rchainC_le h4
      have hlit : x.r.ty < 65536 → ∀ ts', componentTypes x.r.cls x.r.ty = some ts' → CompType.compressibleName ∉ ts' →
          expandRdata (s.octets.extract 0 s.cursor) (x.r.ty % 65536) (x.a + x.k + 10) x.rdlen = some x.r.rdata := by
        intro hty ts' hct' hn
        rw [hct] at hct'
        simp only [Option.some.injEq] at hct'
        subst hct'
        obtain ⟨n1, n2, n3, n4⟩ := literal_types hct hn
        obtain ⟨hbb, hee⟩ := rdAt_literal hrd hn
        have hrl : x.rdlen = x.r.rdata.length := by omega
        unfold expandRdata
        rw [Nat.mod_eq_of_lt hty]
        simp only [n1, n2, n3, n4, if_false]
        rw [hrl]
        congr 1
        exact bytesAt_extract (bytesAt_extract_prefix hcs hbb (by omega))
      have hexp : x.r.ty < 65536 → RdShape x.r.ty x.r.rdata →
          ∃ rd', expandRdata (s.octets.extract 0 s.cursor) (x.r.ty % 65536) (x.a + x.k + 10) x.rdlen = some rd' ∧
            RdExpands (x.m ≠ .standard) x.r.ty x.r.rdata rd' := by
        intro hty hsh
        rw [Nat.mod_eq_of_lt hty]
        exact expandRdata_rdAt s hw x.m x.r.cls x.r.ty ts x.r.rdata _ _ x.ps hct hrd (by omega) hsh
      obtain ⟨l, p', hl, hfa, hch⟩ := ih _ _ h4 he n (by simpa using hn)
      have hl2 : ∀ y, (u16be y).length = 2 := fun _ => rfl
      obtain ⟨b12, b3⟩ := bytesAt_append hby
      obtain ⟨b1, b2⟩ := bytesAt_append b12
      simp only [List.length_append, hl2] at b2 b3
      have e1 : be16 (s.octets.extract 0 s.cursor) (x.a + x.k) = x.r.ty % 65536 :=
        be16_of_bytesAt_mod (bytesAt_extract_prefix hcs b1 (by rw [hl2]; omega))
      have e2 : be16 (s.octets.extract 0 s.cursor) (x.a + x.k + 2) = x.r.cls % 65536 :=
        be16_of_bytesAt_mod (bytesAt_extract_prefix hcs b2 (by rw [hl2]; omega))
      have e3 : specField32 (s.octets.extract 0 s.cursor) (x.a + x.k + 4) = some (x.r.ttl % 4294967296) :=
        specField32_of_bytesAt (bytesAt_extract_prefix hcs (by rw [show x.a + x.k + 4 = x.a + x.k + (2 + 2) by omega]; exact b3)
          (by show _ + 4 ≤ _; omega))
      have e8 : be16 (s.octets.extract 0 s.cursor) (x.a + x.k + 8) = x.rdlen := by
        rw [be16_extract _ _ _ hcs (by omega)]; exact hb
      cases hex2 : expandRdata (s.octets.extract 0 s.cursor) (x.r.ty % 65536) (x.a + x.k + 10) x.rdlen with
      | some rd =>
        refine ⟨⟨w, x.r.ty % 65536, x.r.cls % 65536, x.r.ttl % 4294967296, rd, x.a, true⟩ :: l, p', ?_,
          .cons ⟨⟨hcase, hex, rfl, rfl, rfl, rfl, fun hty ts' hct' hn => by
            rw [hlit hty ts' hct' hn] at hex2
            simp only [Option.some.injEq] at hex2
            exact ⟨hex2.symm, rfl⟩⟩, fun hty hsh => by
            obtain ⟨rd', h1, h2⟩ := hexp hty hsh
            rw [hex2] at h1
            simp only [Option.some.injEq] at h1
            subst h1
            exact ⟨h2, rfl⟩⟩ (by simpa using hfa), by simpa using hch⟩
        simp only [decodeRrs, hd]
        rw [specField16_some (by rw [hsz]; omega), specField16_some (by rw [hsz]; omega), e3,
          specField16_some (by rw [hsz]; omega)]
        simp only [e1, e2, e8]
        rw [if_pos (by rw [hsz]; omega), hl]
        simp only [hex2]
      | none =>
        refine ⟨⟨w, x.r.ty % 65536, x.r.cls % 65536, x.r.ttl % 4294967296,
          ((s.octets.extract 0 s.cursor).extract (x.a + x.k + 10) (x.a + x.k + 10 + x.rdlen)).toList, x.a, false⟩ :: l,
          p', ?_, .cons ⟨⟨hcase, hex, rfl, rfl, rfl, rfl, fun hty ts' hct' hn => by
            rw [hlit hty ts' hct' hn] at hex2; cases hex2⟩, fun hty hsh => by
            obtain ⟨rd', h1, _⟩ := hexp hty hsh
            rw [hex2] at h1; cases h1⟩ (by simpa using hfa), by simpa using hch⟩
        simp only [decodeRrs, hd]
        rw [specField16_some (by rw [hsz]; omega), specField16_some (by rw [hsz]; omega), e3,
          specField16_some (by rw [hsz]; omega)]
        simp only [e1, e2, e8]
        rw [if_pos (by rw [hsz]; omega), hl]
        simp only [hex2]


theorem decodeRrs_chainC (s : State) (hw : WInv s) :
    ∀ (rs : List RItC) (p e : Nat), RChainC s rs p e → e ≤ s.cursor → ∀ n, n ≤ rs.length →
      ∃ l p', decodeRrs (s.octets.extract 0 s.cursor) n p = some (l, p') ∧
        All2 RMatch (rs.take n) l ∧ RChainC s (rs.drop n) p' e := by
  intro rs p e h he n hn
  obtain ⟨l, p', h1, h2, h3⟩ := decodeRrs_chainCX s hw rs p e h he n hn
  exact ⟨l, p', h1, h2.imp (fun _ _ hx => hx.1), h3⟩

/-! ### what `finish` appends, with content -/

/-- the OPT record as `finish` hands it to `add_rr` (class = the payload size as stored) -/
def optRecs' : Option Edns → List RRec
  | some e => [⟨WName.root, T_OPT, e.payload, (e.upper * 16777216) % 4294967296, []⟩]
  | none => []

/-- every recorded label start is the first octet of a label of a name of the chains: of a question
    below `r`, of a record (owner or RDATA) from `r` on -/
def Labs (s : State) (r : Nat) (qs : List QItC) (rs : List RItC) : Prop :=
  ∀ g ∈ s.gLabels, (g < r → ∃ it ∈ qs, PhysLab s.octets it.a g) ∧
    (r ≤ g → ∃ it ∈ rs, ∃ a ∈ it.a :: it.ps, PhysLab s.octets a g)

theorem labs_of {s : State} {qs : List QItC} {rs : List RItC} (h1 : QLab s qs) (h2 : RLab s rs) :
    Labs s s.rrStart qs rs := fun g hg => ⟨h1 g hg, h2 g hg⟩

theorem labs_move {s s' : State} {r e : Nat} {qs : List QItC} {rs : List RItC} (hq : QChainC s qs 12 r)
    (hr : RChainC s rs r e) (hpre : ∀ i, 12 ≤ i → i < e → s'.octets[i]? = s.octets[i]?)
    (hg : ∀ g ∈ s'.gLabels, g ∈ s.gLabels) (h : Labs s r qs rs) : Labs s' r qs rs := by
  intro g hg'
  have hre := rchainC_le hr
  have h12 := qchainC_le hq
  obtain ⟨a1, a2⟩ := h g (hg g hg')
  refine ⟨fun hlt => ?_, fun hge => ?_⟩
  · obtain ⟨it, b1, b2⟩ := a1 hlt
    obtain ⟨c1, c2, c3⟩ := qchainC_mem hq it b1
    exact ⟨it, b1, physLab_frame c2.1.2.1 b2 (fun i d1 d2 => hpre i (by omega) (by omega))⟩
  · obtain ⟨it, b1, x, b2, b3⟩ := a2 hge
    obtain ⟨c1, c2, c3⟩ := rchainC_mem hr it b1
    obtain ⟨d0, k, d1, d2⟩ := rfacts_chunk c2 x b2
    exact ⟨it, b1, x, b2, physLab_frame d1 b3 (fun i f1 f2 => hpre i (by omega) (by omega))⟩

/-- one record appended by `finish` (no hint), with content -/
theorem chainsC_addRr_none {s s' : State} (hw : WInv s) (hl : PtrLogOK s) (owner : WName) (ty cls ttl : Nat)
    (rd : List UInt8) (hwf : owner.WF)
    (h : addRr .none owner ty cls ttl rd s = (.ok (), s')) (hle : s'.cursor ≤ 65535)
    {qs : List QItC} {rs : List RItC} {r : Nat} (hr12 : r ≤ s.cursor)
    (hq : QChainC s qs 12 r) (hr : RChainC s rs r s.cursor) (hlab : Labs s r qs rs) :
    WInv s' ∧ PtrLogOK s' ∧ Ext s s' ∧ QChainC s' qs 12 r ∧
      ∃ it : RItC, RChainC s' (rs ++ [it]) r s'.cursor ∧ it.r = ⟨owner, ty, cls, ttl, rd⟩ ∧ it.m = s.mode ∧
        Labs s' r qs (rs ++ [it]) := by
  obtain ⟨_, hok⟩ := sp_addRr (track := s.hv = some []) (s0 := s) (names := []) .none owner ty cls ttl rd hwf s
    ⟨[], _, none, recSt_init hw hl, trivial⟩
  obtain ⟨p, hrec⟩ := hok () s' h
  have e : Ext s s' := by
    have := frame_addRr .none owner ty cls ttl rd s
    rw [h] at this; exact this
  obtain ⟨it, hch, hrr, hm, hpv⟩ := addRr_itemC .none owner ty cls ttl rd s s' hw hl hwf trivial h hle
  refine ⟨hrec.winv, hrec.log, e, qchainC_ext e hr12 hq, it,
    rchainC_append (rchainC_ext e (Nat.le_refl _) hr) hch, hrr, hm, fun g hg => ?_⟩
  rcases hpv g hg with a1 | ⟨a, a1, a2⟩
  · obtain ⟨b1, b2⟩ := labs_move hq hr (fun i _ f2 => e.pre i f2) (fun _ x => x)
      (s' := { s with octets := s'.octets }) hlab g a1
    refine ⟨b1, fun hge => ?_⟩
    obtain ⟨x, c1, c2⟩ := b2 hge
    exact ⟨x, List.mem_append_left _ c1, c2⟩
  · obtain ⟨c1, c2, c3⟩ := rchainC_mem hch it List.mem_cons_self
    obtain ⟨d0, k, d1, d2⟩ := rfacts_chunk c2 a a1
    have hrng := physLab_range d1 a2
    refine ⟨fun hlt => ?_, fun _ => ⟨it, List.mem_append_right _ List.mem_cons_self, a, a1, a2⟩⟩
    omega

/-- the final chains with content -/
structure FinLayC (P : CMode → Prop) (s sF : State) (len : Nat) (mac : Option (List UInt8)) (b : Body)
    (mb : MBody) : Prop where
  winv : WInv sF
  len : len = sF.cursor
  /-- the first four header octets are untouched -/
  hdr : ∀ i, i < 4 → sF.octets[i]? = s.octets[i]?
  counts : BytesAt sF.octets 4 (u16be s.qdcount ++ u16be s.ancount ++ u16be s.nscount ++ u16be s.arcount)
  chains : ∃ qs rs, QChainC sF qs 12 s.rrStart ∧ RChainC sF rs s.rrStart sF.cursor ∧
    qs.map (·.q) = b.qs ∧
    rs.map (·.r) = b.an ++ b.ns ++ (b.ar ++ optRecs' s.edns ++ tsigRecs s.tsig mac) ∧
    (∀ it ∈ qs, P it.m) ∧ (∀ it ∈ rs, P it.m) ∧ qs.map (·.m) = mb.qs ∧
    rs.map (·.m) = mb.an ++ mb.ns ++ (mb.ar ++ (optRecs' s.edns).map (fun _ => s.mode) ++
      (tsigRecs s.tsig mac).map (fun _ => s.mode)) ∧
    -- the items are those of the state before `finish`, followed by the pseudo-records
    ∃ rs0 ex, rs = rs0 ++ ex ∧ QChainC s qs 12 s.rrStart ∧ RChainC s rs0 s.rrStart s.cursor ∧
      -- every recorded label start belongs to a name of the chains
      Labs sF s.rrStart qs rs

theorem finishWithMac_finLayC (macFn : Tsig → List UInt8 → List UInt8) (s : State) (b : Body) (mb : MBody)
    (hI : I s) (hL : CLay P s b mb) (len : Nat) (mac : Option (List UInt8)) (sF : State)
    (hw : finishWithMac macFn s = (.ok (len, mac), sF)) (hle : sF.cursor ≤ 65535) :
    FinLayC P s sF len mac b mb := by
  unfold finishWithMac at hw
  simp only [M.bind_apply, M.gets_apply] at hw
  obtain ⟨o, hceq, hIA, hosz⟩ := finishCounts_spec s.qdcount s.ancount s.nscount s.arcount s hI
  obtain ⟨kpre, kcnt, _, _, _, _, _⟩ := finishCounts_bytes _ _ _ _ s _ hceq
  rw [hceq] at hw
  simp only [] at hw
  generalize hsA : ({ s with octets := o } : State) = sA at hw hIA kpre kcnt
  have cA : sA.cursor = s.cursor := by rw [← hsA]
  have mA : sA.mode = s.mode := by rw [← hsA]
  have gA : sA.gLabels = s.gLabels := by rw [← hsA]
  have eA : sA.edns = s.edns := by rw [← hsA]
  have tA : sA.tsig = s.tsig := by rw [← hsA]
  have avA : sA.available = s.available := by rw [← hsA]
  have szA : sA.octets.size = s.octets.size := by rw [← hsA]; exact hosz
  have h12 : 12 ≤ s.cursor := hI.inv.hdr
  have hrr := hI.inv.rr_hi
  have hres := inv_reserved' hI.inv
  have hav := hI.inv.av_lim; have hls := hI.inv.lim_size
  have h11 : Gen.OPT_RECORD_SIZE = 11 := rfl
  obtain ⟨qs, hq, hqm, hqP, hqM, hqJ⟩ := hL.q
  have hq12 : 12 ≤ s.rrStart := qchainC_le hq
  cases ho : finishOpt s.edns sA with
  | mk r2 s1 =>
    rw [ho] at hw
    cases r2 with
    | err e => cases hw
    | panic => cases hw
    | ok u2 =>
      simp only [] at hw
      have hT := finishTsig_inv hw
      have hO := finishOpt_inv ho
      have hmono : s1.cursor ≤ sF.cursor := by
        rcases hT with ⟨_, e, _⟩ | ⟨ts, rdata, _, _, hadd, _⟩
        · rw [e]; exact Nat.le_refl _
        · have := frame_addRr .none ts.rr.keyName T_TSIG QC_ANY (ttlFrom 0) rdata
            { s1 with tsig := none, available := s1.available + ts.reservedLen }
          rw [hadd] at this; exact this.cur
      have hmonoA : sA.cursor ≤ s1.cursor := by
        rcases hO with ⟨_, e⟩ | ⟨e, _, hadd⟩
        · rw [e]; exact Nat.le_refl _
        · have := frame_addRr .none WName.root T_OPT e.payload ((e.upper * 16777216) % 4294967296) []
            { sA with available := sA.available + Gen.OPT_RECORD_SIZE }
          rw [hadd] at this; exact this.cur
      have hle1 : s1.cursor ≤ 65535 := by omega
      have hle0 : s.cursor ≤ 65535 := by omega
      obtain ⟨rs, hr, hrm, hrP, hrM, hrJ⟩ := hL.r hle0
      have hpreA : ∀ i, 12 ≤ i → i < s.cursor → sA.octets[i]? = s.octets[i]? := fun i hi _ => kpre i (Or.inr hi)
      have hqA : QChainC sA qs 12 s.rrStart :=
        qchainC_move (lo := 12) (fun it hlo hk hf => qfacts_frame (lo := 12) hf hlo (by omega) hI.winv.g12 hpreA
          (by rw [cA]; exact Nat.le_refl _) (fun g hg => by rw [gA]; exact hg)) (Nat.le_refl _) hq
      have hrA : RChainC sA rs s.rrStart sA.cursor := by
        rw [cA]
        exact rchainC_move (lo := 12) (fun it hlo hk hf => rfacts_frame (lo := 12) hf hlo hk hI.winv.g12 hpreA
          (by rw [cA]; exact Nat.le_refl _) (fun g hg => by rw [gA]; exact hg)) hq12 hr
      have hlabA : Labs sA s.rrStart qs rs :=
        labs_move hq hr hpreA (fun g hg => by rw [gA] at hg; exact hg) (labs_of hqJ hrJ)
      -- stage 1: the OPT record
      have stage1 : ∃ o1 : List RItC, WInv s1 ∧ PtrLogOK s1 ∧ QChainC s1 qs 12 s.rrStart ∧
          RChainC s1 (rs ++ o1) s.rrStart s1.cursor ∧ o1.map (·.r) = optRecs' s.edns ∧
          (∀ i, i < 12 → s1.octets[i]? = sA.octets[i]?) ∧ s1.tsig = s.tsig ∧
          s1.available + tsigReserved s.tsig ≤ s1.octets.size ∧ (∀ it ∈ o1, it.m = s.mode) ∧ s1.mode = s.mode ∧
          o1.map (·.m) = (optRecs' s.edns).map (fun _ => s.mode) ∧ Labs s1 s.rrStart qs (rs ++ o1) := by
        rcases hO with ⟨he, e⟩ | ⟨e, he, hadd⟩
        · subst e
          refine ⟨[], hIA.winv, hIA.log, hqA, by simpa using hrA, by rw [he]; rfl, fun _ _ => rfl, tA, ?_,
            (fun _ hx => by cases hx), mA, by rw [he]; rfl, by simpa using hlabA⟩
          rw [avA, szA]; rw [he] at hres; simp at hres; omega
        · rw [he] at hres
          simp only [Option.isSome_some, if_true, h11] at hres
          have wA' : WInv { sA with available := sA.available + Gen.OPT_RECORD_SIZE } := by
            have := winv_raise hIA.winv Gen.OPT_RECORD_SIZE (by rw [avA, szA, h11]; omega) sA.tsig
            exact this
          have hqA' : QChainC { sA with available := sA.available + Gen.OPT_RECORD_SIZE } qs 12 s.rrStart :=
            qchainC_fields (s := sA) (s' := { sA with available := sA.available + Gen.OPT_RECORD_SIZE }) rfl rfl rfl hqA
          have hrA' : RChainC { sA with available := sA.available + Gen.OPT_RECORD_SIZE } rs s.rrStart sA.cursor :=
            rchainC_fields (s := sA) (s' := { sA with available := sA.available + Gen.OPT_RECORD_SIZE }) rfl rfl rfl hrA
          obtain ⟨w1, l1, e1, hq1, it, hr1, hit1, hitm, hlab1⟩ := chainsC_addRr_none
            (s := { sA with available := sA.available + Gen.OPT_RECORD_SIZE }) wA' hIA.log WName.root T_OPT
            e.payload ((e.upper * 16777216) % 4294967296) [] (by decide) hadd hle1
            (r := s.rrStart) (by show s.rrStart ≤ sA.cursor; rw [cA]; exact hrr) hqA' hrA' hlabA
          refine ⟨[it], w1, l1, hq1, hr1, ?_, fun i hi => e1.pre i (by show i < sA.cursor; rw [cA]; omega),
            by rw [e1.tsig]; exact tA, ?_, fun x hx => by
              simp only [List.mem_singleton] at hx; subst hx; rw [hitm]; exact mA,
            by rw [e1.mode]; exact mA, by rw [he]; simp only [List.map_cons, List.map_nil, optRecs', hitm]; show [sA.mode] = _; rw [mA], hlab1⟩
          · rw [he]; simp only [List.map_cons, List.map_nil, hit1]; rfl
          · rw [e1.available, e1.size]
            show sA.available + Gen.OPT_RECORD_SIZE + _ ≤ sA.octets.size
            rw [avA, szA, h11]; omega
      obtain ⟨o1, w1, l1, hq1, hr1, hom, hpre1, ht1, hroom1, hom1, hm1, homM, hlab1⟩ := stage1
      have hP1 : ∀ it ∈ rs ++ o1, P it.m := by
        intro it hx
        rcases List.mem_append.mp hx with hx | hx
        · exact hrP it hx
        · rw [hom1 it hx]; exact hL.pm
      have hhdr1 : ∀ i, i < 4 → s1.octets[i]? = s.octets[i]? := fun i hi => by
        rw [hpre1 i (by omega)]; exact kpre i (Or.inl hi)
      have c12 : 12 ≤ s1.cursor := by rw [cA] at hmonoA; omega
      have hl8 : (u16be s.qdcount ++ u16be s.ancount ++ u16be s.nscount ++ u16be s.arcount).length = 8 := rfl
      rcases hT with ⟨hts, e, hlen⟩ | ⟨ts, rdata, hts, hlen, hadd, hrd⟩
      · subst e
        refine ⟨w1, hlen, hhdr1, ?_, qs, rs ++ o1, hq1, hr1, hqm, ?_, hqP, hP1, hqM, by
          rw [List.map_append, hrM, homM, hts]; simp [tsigRecs, List.append_assoc], rs, o1, rfl, hq, hr, hlab1⟩
        · intro i hi
          rw [hl8] at hi
          rw [hpre1 _ (by omega)]
          exact kcnt i (by rw [hl8]; exact hi)
        · rw [List.map_append, hrm, hom, hts]
          simp [tsigRecs, List.append_assoc]
      · obtain ⟨_, hkey, _, _, _⟩ := hI.tsig ts hts
        rw [hts] at hroom1
        simp only [tsigReserved] at hroom1
        have w1' : WInv { s1 with tsig := none, available := s1.available + ts.reservedLen } := by
          have := winv_raise w1 ts.reservedLen hroom1 none
          exact this
        have hq1' : QChainC { s1 with tsig := none, available := s1.available + ts.reservedLen } qs 12 s.rrStart :=
          qchainC_fields (s := s1) (s' := { s1 with tsig := none, available := s1.available + ts.reservedLen }) rfl rfl rfl hq1
        have hr1' : RChainC { s1 with tsig := none, available := s1.available + ts.reservedLen } (rs ++ o1)
            s.rrStart s1.cursor :=
          rchainC_fields (s := s1) (s' := { s1 with tsig := none, available := s1.available + ts.reservedLen }) rfl rfl rfl hr1
        obtain ⟨w2, l2, e2, hq2, it, hr2, hit2, hitm2, hlab2⟩ := chainsC_addRr_none
          (s := { s1 with tsig := none, available := s1.available + ts.reservedLen }) w1' l1 ts.rr.keyName T_TSIG
          QC_ANY (ttlFrom 0) rdata hkey hadd hle
          (r := s.rrStart) (by show s.rrStart ≤ s1.cursor; rw [cA] at hmonoA; omega) hq1' hr1' hlab1
        refine ⟨w2, hlen, fun i hi => by
            rw [e2.pre _ (by show i < s1.cursor; omega)]; exact hhdr1 i hi, ?_, qs, rs ++ o1 ++ [it], hq2, hr2, hqm, ?_,
          hqP, fun x hx => by
            rcases List.mem_append.mp hx with hx | hx
            · exact hP1 x hx
            · simp only [List.mem_singleton] at hx; subst hx; rw [hitm2]; show P s1.mode; rw [hm1]; exact hL.pm,
          hqM, by
            rw [List.map_append, List.map_append, hrM, homM, hts]
            simp only [List.map_cons, List.map_nil, tsigRecs, hitm2, List.append_assoc]
            show _ ++ (_ ++ (_ ++ (_ ++ [s1.mode]))) = _
            rw [hm1], rs, o1 ++ [it], by simp [List.append_assoc], hq, hr, hlab2⟩
        · intro i hi
          rw [hl8] at hi
          rw [e2.pre _ (by show 4 + i < s1.cursor; omega), hpre1 _ (by omega)]
          exact kcnt i (by rw [hl8]; exact hi)
        · rw [List.map_append, List.map_append, hrm, hom, hts]
          simp only [List.map_cons, List.map_nil, hit2, tsigRecs, hrd, List.append_assoc]


theorem map_take_eq {α β : Type} (f : α → β) (l : List α) (a b : List β) (h : l.map f = a ++ b) :
    (l.take a.length).map f = a ∧ (l.drop a.length).map f = b := by
  constructor
  · rw [List.map_take, h, List.take_left']; rfl
  · rw [List.map_drop, h, List.drop_left']; rfl

/-- **C12 (d) in every compression mode, content and expanded RDATA.** As `finish_decodes_content`
    below, and in addition (`RdMatch`): for every record of a 16-bit type whose given RDATA is well
    formed for its type (`RdShape`), the RDATA the decoder reports — with the names of the RFC 1035
    types NS, MD, MF, CNAME, SOA, MB, MG, MR, PTR, MINFO, MX expanded — is the RDATA given with those
    names written out: equal up to ASCII case, octet for octet when the record was written outside
    `Standard` mode (`RdExpands`, `rdExpands_lower`), and `rdOk = true`. -/
theorem finish_decodes_core (macFn : Tsig → List UInt8 → List UInt8) (s : State) (b : Body) (mb : MBody)
    (hI : I s) (hL : CLay P s b mb) (m : Bytes) (mac : Option (List UInt8)) (hf : finish s macFn = .ok (m, mac))
    (hsz : m.size ≤ 65535) :
    ∃ (d : DMsg) (qs : List QItC) (ian ins iar : List RItC), specDecodeMsg m = some d ∧
      qs.map (·.q) = b.qs ∧ ian.map (·.r) = b.an ∧ ins.map (·.r) = b.ns ∧
      iar.map (·.r) = b.ar ++ optRecs' s.edns ++ tsigRecs s.tsig mac ∧
      All2 QMatch qs d.questions ∧ All2 RMatchX ian d.an ∧ All2 RMatchX ins d.ns ∧ All2 RMatchX iar d.ar ∧
      (∀ it ∈ qs, P it.m) ∧ (∀ it ∈ ian ++ ins ++ iar, P it.m) ∧
      -- how the message came about: the final buffer, and the answer / authority sections as the
      -- decoder's record loop returns them
      ∃ sF len p2 p3, finishWithMac macFn s = (.ok (len, mac), sF) ∧ m = sF.octets.extract 0 sF.cursor ∧ WInv sF ∧
        decodeRrs m s.ancount s.rrStart = some (d.an, p2) ∧ decodeRrs m s.nscount p2 = some (d.ns, p3) := by
  unfold finish at hf
  cases hw : finishWithMac macFn s with
  | mk r sF =>
    rw [hw] at hf
    cases r with
    | err e => cases hf
    | panic => cases hf
    | ok p =>
      obtain ⟨len, mc⟩ := p
      simp only [Out.ok.injEq, Prod.mk.injEq] at hf
      obtain ⟨hm, hmc⟩ := hf
      subst hmc
      obtain ⟨hlim, hlc, hszF⟩ := finishWithMac_len macFn s hI.inv len mc sF hw
      have hls := hI.inv.lim_size
      have hcF : sF.cursor ≤ sF.octets.size := by omega
      have hmsz : m.size = sF.cursor := by rw [← hm, hlc]; exact extract_size _ _ hcF
      have hle : sF.cursor ≤ 65535 := by omega
      obtain ⟨wF, _, hhdr, hcnt, qs, rs, hq, hr, hqm, hrm, hqP, hrP, _, _, _⟩ := finishWithMac_finLayC macFn s b mb hI hL len mc sF hw hle
      rw [hlc] at hm
      subst hm
      have hsz' := extract_size sF.octets sF.cursor hcF
      have h12 : 12 ≤ sF.cursor := wF.c12
      have hl2 : ∀ x, (u16be x).length = 2 := fun _ => rfl
      obtain ⟨c123, c4⟩ := bytesAt_append hcnt
      obtain ⟨c12, c3⟩ := bytesAt_append c123
      obtain ⟨c1, c2⟩ := bytesAt_append c12
      simp only [List.length_append, hl2] at c2 c3 c4
      have e4 : be16 (sF.octets.extract 0 sF.cursor) 4 = s.qdcount := by
        rw [be16_extract _ _ _ hcF (by omega)]; exact be16_of_bytesAt c1 (by have := hI.inv.qd; omega)
      have e6 : be16 (sF.octets.extract 0 sF.cursor) 6 = s.ancount := by
        rw [be16_extract _ _ _ hcF (by omega)]; exact be16_of_bytesAt c2 (by have := hI.inv.an; omega)
      have e8 : be16 (sF.octets.extract 0 sF.cursor) 8 = s.nscount := by
        rw [be16_extract _ _ _ hcF (by omega)]; exact be16_of_bytesAt c3 (by have := hI.inv.ns; omega)
      have e10 : be16 (sF.octets.extract 0 sF.cursor) 10 = s.arcount := by
        rw [be16_extract _ _ _ hcF (by omega)]; exact be16_of_bytesAt c4 (by have := hI.inv.ar; omega)
      -- the lengths
      have hql : qs.length = s.qdcount := by
        have := congrArg List.length hqm; rw [List.length_map] at this; rw [this, hL.qd]
      have hpl : (optRecs' s.edns ++ tsigRecs s.tsig mc).length = pend s := by
        unfold pend
        cases s.edns <;> cases s.tsig <;> simp [optRecs', tsigRecs]
      have hrl : rs.length = s.ancount + s.nscount + s.arcount := by
        have := congrArg List.length hrm
        rw [List.length_map] at this
        rw [this, hL.an, hL.ns, hL.ar]
        simp only [List.length_append] at hpl ⊢
        omega
      have hrrle : s.rrStart ≤ sF.cursor := rchainC_le hr
      -- questions
      obtain ⟨lq, hdq, hmq⟩ := decodeQuestions_chainC sF wF qs 12 s.rrStart hq hrrle
      rw [hql] at hdq
      -- the sections of the given records
      obtain ⟨ha1, ha2⟩ := map_take_eq (·.r) rs (b.an ++ b.ns) (b.ar ++ optRecs' s.edns ++ tsigRecs s.tsig mc)
        (by rw [hrm]; try simp [List.append_assoc])
      obtain ⟨hb1, hb2⟩ := map_take_eq (·.r) (rs.take (b.an ++ b.ns).length) b.an b.ns ha1
      have hanl : b.an.length = s.ancount := hL.an.symm
      have hnsl : b.ns.length = s.nscount := hL.ns.symm
      -- the three record sections
      obtain ⟨la, p2, hda, hma, hch2⟩ := decodeRrs_chainCX sF wF _ _ _ hr (Nat.le_refl _) s.ancount (by omega)
      obtain ⟨ln, p3, hdn, hmn, hch3⟩ := decodeRrs_chainCX sF wF _ _ _ hch2 (Nat.le_refl _) s.nscount
        (by rw [List.length_drop]; omega)
      obtain ⟨lr, p4, hdr, hmr, hch4⟩ := decodeRrs_chainCX sF wF _ _ _ hch3 (Nat.le_refl _) s.arcount
        (by rw [List.length_drop, List.length_drop]; omega)
      have hnil : (((rs.drop s.ancount).drop s.nscount).drop s.arcount) = [] := by
        apply List.eq_nil_of_length_eq_zero
        rw [List.length_drop, List.length_drop, List.length_drop]; omega
      rw [hnil] at hch4
      have hp4 : p4 = sF.cursor := hch4
      have htk : ((rs.drop s.ancount).drop s.nscount).take s.arcount = (rs.drop s.ancount).drop s.nscount := by
        apply List.take_of_length_le
        rw [List.length_drop, List.length_drop]; omega
      rw [htk] at hmr
      refine ⟨⟨be16 (sF.octets.extract 0 sF.cursor) 0, be16 (sF.octets.extract 0 sF.cursor) 2, lq, la, ln, lr⟩,
        qs, rs.take s.ancount, (rs.drop s.ancount).take s.nscount, (rs.drop s.ancount).drop s.nscount, ?_, hqm,
        ?_, ?_, ?_, hmq, hma, hmn, hmr, hqP, fun it hx => by
          rcases List.mem_append.mp hx with hx | hx
          · rcases List.mem_append.mp hx with hx | hx
            · exact hrP it (List.mem_of_mem_take hx)
            · exact hrP it (List.mem_of_mem_drop (List.mem_of_mem_take hx))
          · exact hrP it (List.mem_of_mem_drop (List.mem_of_mem_drop hx)),
        sF, sF.cursor, p2, p3, by rw [← hlc], rfl, wF, hda, hdn⟩
      · unfold specDecodeMsg
        rw [if_neg (by rw [hsz']; omega)]
        rw [specField16_some (by rw [hsz']; omega), specField16_some (by rw [hsz']; omega),
          specField16_some (by rw [hsz']; omega), specField16_some (by rw [hsz']; omega),
          specField16_some (by rw [hsz']; omega), specField16_some (by rw [hsz']; omega)]
        simp only [e4, e6, e8, e10, hdq, hda, hdn, hdr]
        rw [if_pos (by rw [hp4, hsz'])]
      · -- answers
        have : (rs.take (b.an ++ b.ns).length).take b.an.length = rs.take s.ancount := by
          rw [List.take_take, List.length_append, hanl]; congr 1; omega
        rw [← this]; exact hb1
      · -- authorities
        have : (rs.take (b.an ++ b.ns).length).drop b.an.length = (rs.drop s.ancount).take s.nscount := by
          rw [List.drop_take, List.length_append, hanl, hnsl]; congr 1; omega
        rw [← this]; exact hb2
      · -- additionals
        have : rs.drop (b.an ++ b.ns).length = (rs.drop s.ancount).drop s.nscount := by
          rw [List.drop_drop, List.length_append, hanl, hnsl]
        rw [← this]; exact ha2

/-- `finish_decodes_core` without the description of how the message came about -/
theorem finish_decodes_rdata (macFn : Tsig → List UInt8 → List UInt8) (s : State) (b : Body) (mb : MBody)
    (hI : I s) (hL : CLay P s b mb) (m : Bytes) (mac : Option (List UInt8)) (hf : finish s macFn = .ok (m, mac))
    (hsz : m.size ≤ 65535) :
    ∃ (d : DMsg) (qs : List QItC) (ian ins iar : List RItC), specDecodeMsg m = some d ∧
      qs.map (·.q) = b.qs ∧ ian.map (·.r) = b.an ∧ ins.map (·.r) = b.ns ∧
      iar.map (·.r) = b.ar ++ optRecs' s.edns ++ tsigRecs s.tsig mac ∧
      All2 QMatch qs d.questions ∧ All2 RMatchX ian d.an ∧ All2 RMatchX ins d.ns ∧ All2 RMatchX iar d.ar ∧
      (∀ it ∈ qs, P it.m) ∧ ∀ it ∈ ian ++ ins ++ iar, P it.m := by
  obtain ⟨d, qs, ian, ins, iar, h1, h2, h3, h4, h5, h6, h7, h8, h9, h10, h11, _⟩ :=
    finish_decodes_core macFn s b mb hI hL m mac hf hsz
  exact ⟨d, qs, ian, ins, iar, h1, h2, h3, h4, h5, h6, h7, h8, h9, h10, h11⟩

/-- **C12 (d) in every compression mode, content.** From a valid writer state whose layout holds the
    questions and records `b`: whatever `finish` returns (if at most 65535 octets) decodes completely
    under the independent message decoder, and — section by section, in order — every decoded
    question and record is the one given: name equal up to ASCII case (octet for octet when it was
    written in `CasePreserving` or `Disabled` mode), TYPE, CLASS, TTL as given (as 16/16/32-bit
    values); the additional section ends with the OPT and TSIG records `finish` appends. -/
theorem finish_decodes_content (macFn : Tsig → List UInt8 → List UInt8) (s : State) (b : Body) (mb : MBody)
    (hI : I s) (hL : CLay P s b mb) (m : Bytes) (mac : Option (List UInt8)) (hf : finish s macFn = .ok (m, mac))
    (hsz : m.size ≤ 65535) :
    ∃ (d : DMsg) (qs : List QItC) (ian ins iar : List RItC), specDecodeMsg m = some d ∧
      qs.map (·.q) = b.qs ∧ ian.map (·.r) = b.an ∧ ins.map (·.r) = b.ns ∧
      iar.map (·.r) = b.ar ++ optRecs' s.edns ++ tsigRecs s.tsig mac ∧
      All2 QMatch qs d.questions ∧ All2 RMatch ian d.an ∧ All2 RMatch ins d.ns ∧ All2 RMatch iar d.ar ∧
      (∀ it ∈ qs, P it.m) ∧ ∀ it ∈ ian ++ ins ++ iar, P it.m := by
  obtain ⟨d, qs, ian, ins, iar, h1, h2, h3, h4, h5, h6, h7, h8, h9, h10, h11⟩ :=
    finish_decodes_rdata macFn s b mb hI hL m mac hf hsz
  exact ⟨d, qs, ian, ins, iar, h1, h2, h3, h4, h5, h6, h7.imp (fun _ _ hx => hx.1), h8.imp (fun _ _ hx => hx.1),
    h9.imp (fun _ _ hx => hx.1), h10, h11⟩

end QV.Writer
