/-
  QV.Proofs.WriterContentDecode — the independent message decoder reads, item by item, the
  questions and records that were given (content half of C12 (d) in every compression mode).
-/
import QV.Proofs.WriterContent

namespace QV.Writer
open QV QV.Wire QV.Spec QV.ServerSafety

/-- two lists related element by element -/
inductive All2 {α β : Type} (R : α → β → Prop) : List α → List β → Prop
  | nil : All2 R [] []
  | cons {a b as bs} (h : R a b) (t : All2 R as bs) : All2 R (a :: as) (b :: bs)

theorem All2.length {α β : Type} {R : α → β → Prop} {as : List α} {bs : List β} (h : All2 R as bs) :
    as.length = bs.length := by
  induction h with
  | nil => rfl
  | cons _ _ ih => simp [ih]

theorem All2.append {α β : Type} {R : α → β → Prop} {as as' : List α} {bs bs' : List β} (h : All2 R as bs)
    (h' : All2 R as' bs') : All2 R (as ++ as') (bs ++ bs') := by
  induction h with
  | nil => exact h'
  | cons hr _ ih => exact .cons hr ih

theorem be16_of_bytesAt_mod {msg : Bytes} {pos n : Nat} (h : BytesAt msg pos (u16be n)) :
    be16 msg pos = n % 65536 := by
  have h0 := bytesAt_getD h (i := 0) (by simp [u16be])
  have h1 := bytesAt_getD h (i := 1) (by simp [u16be])
  simp only [Nat.add_zero] at h0
  unfold be16
  rw [h0, h1]
  simp only [u16be, List.getElem_cons_zero, List.getElem_cons_succ, UInt8.toNat_ofNat']
  omega

/-- what the decoder reads at an item whose name is known -/
theorem item_decodes_name {s : State} {a k : Nat} {m : CMode} {n : WName} (hw : WInv s) (hit : Item s a k)
    (hnm : NameIs s a m n) :
    ∃ w, specDecodeName (s.octets.extract 0 s.cursor) a = some (w, n.len, k) ∧
      w.map lowerU8 = n.wire.map lowerU8 ∧ (m ≠ .standard → w = n.wire) := by
  obtain ⟨q, ls, hop, hst, hm⟩ := hnm
  have hcs : s.cursor ≤ s.octets.size := Nat.le_trans hw.cur_av hw.av_size
  have hqg : q ∈ s.gLabels := (nameAt_start hst).1
  obtain ⟨ls', hn, hb⟩ := hw.clabs q hqg
  have := nameAtC_unique hn hst
  subst this
  have hr : ReadsAt s a ls' := by
    refine ⟨q, q, hop, ?_, hn, hb⟩
    cases hop with
    | here _ _ _ => exact Or.inl ⟨rfl, rfl⟩
    | jump _ _ _ _ hlt _ _ => exact Or.inr ⟨hlt, rfl⟩
  obtain ⟨k', hd⟩ := readsAt_specDecodeName hr hcs
  have hcm : ChunkAt (s.octets.extract 0 s.cursor) a k :=
    chunkAt_frame hit.2.1 (fun i _ h2 => extract_prefix_get _ _ hcs _ (by have := hit.2.2; omega))
  have hk := specDecodeName_chunk hcm hd
  subst hk
  have hlen : ls'.length + 1 = n.len := by
    have := labelsMatch_length hm
    unfold WName.len; omega
  rw [hlen] at hd
  refine ⟨wireOf ls', hd, ?_, ?_⟩
  · rw [← wireOf_labels n]
    have hstd : labelsMatch .standard n.labels ls' = true := by
      unfold effMode at hm
      split at hm
      · exact hm
      · exact labelsMatch_std hm
    exact (labelsMatch_std_wire hstd).symm
  · intro hne
    have hcp : effMode m = .casePreserving := by unfold effMode; rw [if_neg hne]
    rw [hcp] at hm
    have : n.labels = ls' := labelsMatch_cp_eq hm
    rw [← this]; rfl


theorem specField32_of_bytesAt {m : Bytes} {i n : Nat} (h : BytesAt m i (u32be n)) :
    specField32 m i = some (n % 4294967296) := by
  have hl : (u32be n).length = 4 := rfl
  have g : ∀ j (hj : j < 4), m[i + j]? = some ((u32be n)[j]'(by rw [hl]; exact hj)) :=
    fun j hj => bytesAt_get h (by rw [hl]; exact hj)
  have g0 := g 0 (by omega); have g1 := g 1 (by omega); have g2 := g 2 (by omega); have g3 := g 3 (by omega)
  simp only [Nat.add_zero] at g0
  unfold specField32 specField16
  rw [g0, g1, show i + 2 = i + 2 from rfl, g2, show i + 2 + 1 = i + 3 by omega, g3]
  simp only [u32be, List.getElem_cons_zero, List.getElem_cons_succ, UInt8.toNat_ofNat', Option.some.injEq]
  omega

/-- a decoded question is the question given -/
def QMatch (it : QItC) (dq : DQuestion) : Prop :=
  dq.qname.map lowerU8 = it.q.qname.wire.map lowerU8 ∧ (it.m ≠ .standard → dq.qname = it.q.qname.wire) ∧
  dq.qtype = it.q.qtype % 65536 ∧ dq.qclass = it.q.qclass % 65536

/-- a decoded record is the record given (owner, TYPE, CLASS, TTL) -/
def RMatch (it : RItC) (dr : DRr) : Prop :=
  dr.owner.map lowerU8 = it.r.owner.wire.map lowerU8 ∧ (it.m ≠ .standard → dr.owner = it.r.owner.wire) ∧
  dr.ty = it.r.ty % 65536 ∧ dr.cls = it.r.cls % 65536 ∧ dr.rawTtl = it.r.ttl % 4294967296 ∧ dr.pos = it.a

theorem bytesAt_extract_prefix {o : Bytes} {c p : Nat} {d : List UInt8} (hc : c ≤ o.size) (h : BytesAt o p d)
    (hp : p + d.length ≤ c) : BytesAt (o.extract 0 c) p d := by
  intro i hi
  rw [extract_prefix_get o c hc _ (by omega)]
  exact h i hi

theorem decodeQuestions_chainC (s : State) (hw : WInv s) :
    ∀ (qs : List QItC) (p e : Nat), QChainC s qs p e → e ≤ s.cursor →
      ∃ l, decodeQuestions (s.octets.extract 0 s.cursor) qs.length p = some (l, e) ∧ All2 QMatch qs l := by
  have hcs : s.cursor ≤ s.octets.size := Nat.le_trans hw.cur_av hw.av_size
  have hsz := extract_size s.octets s.cursor hcs
  intro qs
  induction qs with
  | nil => intro p e h _; exact ⟨[], by simp [decodeQuestions, QChainC] at h ⊢; exact h, .nil⟩
  | cons x r ih =>
    intro p e h he
    obtain ⟨h1, ⟨hit, hnm, hby⟩, h3⟩ := h
    subst h1
    obtain ⟨w, hd, hcase, hex⟩ := item_decodes_name hw hit hnm
    have hle := qchainC_le h3
    obtain ⟨l, hl, hfa⟩ := ih _ _ h3 he
    have hl2 : ∀ y, (u16be y).length = 2 := fun _ => rfl
    obtain ⟨b1, b2⟩ := bytesAt_append hby
    rw [hl2] at b2
    have e1 : be16 (s.octets.extract 0 s.cursor) (x.a + x.k) = x.q.qtype % 65536 :=
      be16_of_bytesAt_mod (bytesAt_extract_prefix hcs b1 (by rw [hl2]; omega))
    have e2 : be16 (s.octets.extract 0 s.cursor) (x.a + x.k + 2) = x.q.qclass % 65536 :=
      be16_of_bytesAt_mod (bytesAt_extract_prefix hcs b2 (by rw [hl2]; omega))
    refine ⟨⟨w, x.q.qtype % 65536, x.q.qclass % 65536⟩ :: l, ?_, .cons ⟨hcase, hex, rfl, rfl⟩ hfa⟩
    simp only [List.length_cons, decodeQuestions, specQuestionAt, hd]
    rw [specField16_some (by rw [hsz]; omega), specField16_some (by rw [hsz]; omega), e1, e2]
    simp only [hl]

theorem decodeRrs_chainC (s : State) (hw : WInv s) :
    ∀ (rs : List RItC) (p e : Nat), RChainC s rs p e → e ≤ s.cursor → ∀ n, n ≤ rs.length →
      ∃ l p', decodeRrs (s.octets.extract 0 s.cursor) n p = some (l, p') ∧
        All2 RMatch (rs.take n) l ∧ RChainC s (rs.drop n) p' e := by
  have hcs : s.cursor ≤ s.octets.size := Nat.le_trans hw.cur_av hw.av_size
  have hsz := extract_size s.octets s.cursor hcs
  intro rs
  induction rs with
  | nil =>
    intro p e h _ n hn
    have : n = 0 := by simpa using hn
    subst this
    exact ⟨[], p, rfl, .nil, h⟩
  | cons x r ih =>
    intro p e h he n hn
    cases n with
    | zero => exact ⟨[], p, rfl, .nil, h⟩
    | succ n =>
      obtain ⟨h1, ⟨hit, hnm, hby, hb⟩, h4⟩ := h
      subst h1
      obtain ⟨w, hd, hcase, hex⟩ := item_decodes_name hw hit hnm
      have hle := rchainC_le h4
      obtain ⟨l, p', hl, hfa, hch⟩ := ih _ _ h4 he n (by simpa using hn)
      have hl2 : ∀ y, (u16be y).length = 2 := fun _ => rfl
      obtain ⟨b12, b3⟩ := bytesAt_append hby
      obtain ⟨b1, b2⟩ := bytesAt_append b12
      simp only [List.length_append, hl2] at b2 b3
      have e1 : be16 (s.octets.extract 0 s.cursor) (x.a + x.k) = x.r.ty % 65536 :=
        be16_of_bytesAt_mod (bytesAt_extract_prefix hcs b1 (by rw [hl2]; omega))
      have e2 : be16 (s.octets.extract 0 s.cursor) (x.a + x.k + 2) = x.r.cls % 65536 :=
        be16_of_bytesAt_mod (bytesAt_extract_prefix hcs b2 (by rw [hl2]; omega))
      have e3 : specField32 (s.octets.extract 0 s.cursor) (x.a + x.k + 4) = some (x.r.ttl % 4294967296) :=
        specField32_of_bytesAt (bytesAt_extract_prefix hcs (by rw [show x.a + x.k + 4 = x.a + x.k + (2 + 2) by omega]; exact b3)
          (by show _ + 4 ≤ _; omega))
      have e8 : be16 (s.octets.extract 0 s.cursor) (x.a + x.k + 8) = x.rdlen := by
        rw [be16_extract _ _ _ hcs (by omega)]; exact hb
      cases hex2 : expandRdata (s.octets.extract 0 s.cursor) (x.r.ty % 65536) (x.a + x.k + 10) x.rdlen with
      | some rd =>
        refine ⟨⟨w, x.r.ty % 65536, x.r.cls % 65536, x.r.ttl % 4294967296, rd, x.a, true⟩ :: l, p', ?_,
          .cons ⟨hcase, hex, rfl, rfl, rfl, rfl⟩ (by simpa using hfa), by simpa using hch⟩
        simp only [decodeRrs, hd]
        rw [specField16_some (by rw [hsz]; omega), specField16_some (by rw [hsz]; omega), e3,
          specField16_some (by rw [hsz]; omega)]
        simp only [e1, e2, e8]
        rw [if_pos (by rw [hsz]; omega), hl]
        simp only [hex2]
      | none =>
        refine ⟨⟨w, x.r.ty % 65536, x.r.cls % 65536, x.r.ttl % 4294967296,
          ((s.octets.extract 0 s.cursor).extract (x.a + x.k + 10) (x.a + x.k + 10 + x.rdlen)).toList, x.a, false⟩ :: l,
          p', ?_, .cons ⟨hcase, hex, rfl, rfl, rfl, rfl⟩ (by simpa using hfa), by simpa using hch⟩
        simp only [decodeRrs, hd]
        rw [specField16_some (by rw [hsz]; omega), specField16_some (by rw [hsz]; omega), e3,
          specField16_some (by rw [hsz]; omega)]
        simp only [e1, e2, e8]
        rw [if_pos (by rw [hsz]; omega), hl]
        simp only [hex2]

end QV.Writer
