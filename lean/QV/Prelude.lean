/-
  QV.Prelude — conventions shared by every model (DESIGN.md §3).

  * `Out ε α`     : outcome of a Rust operation: `ok`, `err`, or `panic` (first-class).
  * `Bytes`       : `Array UInt8`; positions are `Nat`.
  * hex helpers   : the line protocol carries byte strings as lower-case hex, `-` for empty.

  Core Lean + Std only (this file is linked into the native driver).
-/

namespace QV

/-- Outcome of a modelled Rust operation. `panic` models every unwinding panic: index out of
    range, `unwrap` on `None`/`Err`, `ArrayVec::push` past capacity, debug overflow. -/
inductive Out (ε : Type) (α : Type) where
  | ok (a : α)
  | err (e : ε)
  | panic
  deriving Repr, DecidableEq, Inhabited

namespace Out

@[inline] def bind {ε α β} (x : Out ε α) (f : α → Out ε β) : Out ε β :=
  match x with
  | ok a => f a
  | err e => err e
  | panic => panic

instance {ε} : Monad (Out ε) where
  pure := ok
  bind := bind

def isOk {ε α} : Out ε α → Bool
  | ok _ => true
  | _ => false

def isErr {ε α} : Out ε α → Bool
  | err _ => true
  | _ => false

def isPanic {ε α} : Out ε α → Bool
  | panic => true
  | _ => false

def mapErr {ε ε' α} (f : ε → ε') : Out ε α → Out ε' α
  | ok a => ok a
  | err e => err (f e)
  | panic => panic

def toOption {ε α} : Out ε α → Option α
  | ok a => some a
  | _ => none

@[simp] theorem bind_ok {ε α β} (a : α) (f : α → Out ε β) : (ok a : Out ε α) >>= f = f a := rfl
@[simp] theorem bind_err {ε α β} (e : ε) (f : α → Out ε β) : (err e : Out ε α) >>= f = err e := rfl
@[simp] theorem bind_panic {ε α β} (f : α → Out ε β) : (panic : Out ε α) >>= f = panic := rfl
@[simp] theorem pure_eq {ε α} (a : α) : (pure a : Out ε α) = ok a := rfl

end Out

abbrev Bytes := Array UInt8

/-! ### hex -/

def hexDigit (n : Nat) : Char :=
  if n < 10 then Char.ofNat (48 + n) else Char.ofNat (87 + n)

def hexOfList (l : List UInt8) : String :=
  if l.isEmpty then "-" else
  String.ofList (l.foldr (fun b acc => hexDigit (b.toNat / 16) :: hexDigit (b.toNat % 16) :: acc) [])

def hexOf (b : Bytes) : String := hexOfList b.toList

def hexVal (c : Char) : Option Nat :=
  if '0' ≤ c ∧ c ≤ '9' then some (c.toNat - 48)
  else if 'a' ≤ c ∧ c ≤ 'f' then some (c.toNat - 87)
  else if 'A' ≤ c ∧ c ≤ 'F' then some (c.toNat - 55)
  else none

def unhexList : List Char → Option (List UInt8)
  | [] => some []
  | [_] => none
  | a :: b :: rest => do
    let x ← hexVal a
    let y ← hexVal b
    let r ← unhexList rest
    pure (UInt8.ofNat (x * 16 + y) :: r)

def unhex (s : String) : Option Bytes :=
  if s = "-" then some #[] else (unhexList s.toList).map List.toArray

/-- lower-case one ASCII octet (Rust `u8::to_ascii_lowercase`). -/
def lowerU8 (b : UInt8) : UInt8 := if 65 ≤ b.toNat ∧ b.toNat ≤ 90 then b + 32 else b

/-- big-endian u16 at `i` (caller guarantees bounds; out-of-range octets read as 0). -/
def be16 (b : Bytes) (i : Nat) : Nat := (b.getD i 0).toNat * 256 + (b.getD (i+1) 0).toNat

def be32 (b : Bytes) (i : Nat) : Nat :=
  (b.getD i 0).toNat * 16777216 + (b.getD (i+1) 0).toNat * 65536 + (b.getD (i+2) 0).toNat * 256 + (b.getD (i+3) 0).toNat

def u16be (n : Nat) : List UInt8 := [UInt8.ofNat (n / 256 % 256), UInt8.ofNat (n % 256)]
def u32be (n : Nat) : List UInt8 :=
  [UInt8.ofNat (n / 16777216 % 256), UInt8.ofNat (n / 65536 % 256), UInt8.ofNat (n / 256 % 256), UInt8.ofNat (n % 256)]

end QV
