/-
  QV.Spec.Server — what the request handler owes its callers, stated over the request octets and
  the response octets only (RFC 1035 §4.1, RFC 6891, RFC 8945 §5, and the property texts of
  C01–C04, C07–C09). Nothing here calls the server model.

  `specScan` walks the request *in message order* and stops at the first problem — exactly the
  reading of C08 ("the server reports the first problem in message order"). A record "can be
  delimited" when its owner field is a syntactically valid first chunk (labels of ≤ 63 octets,
  ≤ 255 octets in all, ended by the root label or a pointer), followed by the ten fixed octets and
  RDLENGTH octets inside the message.
-/
import QV.Prelude
import QV.Spec.NameWire
import QV.Spec.Reader
import QV.Spec.MsgDecode

namespace QV.Spec.Server
open QV QV.Spec

/-! ### configuration (what the public API was given) -/

structure Rec where
  owner : List UInt8
  ty : Nat
  ttl : Nat
  rdata : List UInt8
  deriving Repr, DecidableEq, Inhabited

inductive ZoneKind | loaded | notYetLoaded | failedToLoad
  deriving Repr, DecidableEq, Inhabited

structure ZoneCfg where
  kind : ZoneKind
  apex : List UInt8
  cls : Nat
  glueWide : Bool
  recs : List Rec
  deriving Repr, Inhabited

/-! ### names as label lists -/

def lowerOctet (b : UInt8) : UInt8 := if 65 ≤ b.toNat ∧ b.toNat ≤ 90 then UInt8.ofNat (b.toNat + 32) else b

/-- labels of an uncompressed wire name (without the root label), lower-cased; fuel = length -/
def labelsAux : Nat → List UInt8 → List (List UInt8)
  | 0, _ => []
  | _, [] => []
  | fuel+1, l :: rest =>
    if l = 0 then [] else (rest.take l.toNat).map lowerOctet :: labelsAux fuel (rest.drop l.toNat)

def labels (w : List UInt8) : List (List UInt8) := labelsAux w.length w

/-- `a` is at or below `b` (label-wise suffix, ASCII case-insensitive) -/
def atOrBelow (a b : List UInt8) : Bool :=
  let la := labels a
  let lb := labels b
  lb.length ≤ la.length && la.drop (la.length - lb.length) == lb

/-- RFC 1034 §4.3.2 step 2: the catalog entry of class `cls` whose name is the longest suffix of `qname` -/
def specCatalogLookup (cat : List ZoneCfg) (qname : List UInt8) (cls : Nat) : Option ZoneCfg :=
  (cat.filter (fun z => z.cls = cls && atOrBelow qname z.apex)).foldl
    (fun best z => match best with
      | none => some z
      | some b => if (labels z.apex).length > (labels b.apex).length then some z else some b) none

/-! ### delimiting a record -/

/-- length of the syntactically valid first chunk of a name at `pos` -/
def specSkipName (msg : Bytes) (pos : Nat) : Nat → Nat → Option Nat
  | 0, _ => none
  | fuel+1, o =>
    match msg[pos + o]? with
    | none => none
    | some b =>
      if 192 ≤ b.toNat then (if o + 1 ≤ 255 then some (o + 2) else none)
      else if 63 < b.toNat then none
      else if b = 0 then (if o + 1 ≤ 255 then some (o + 1) else none)
      else if o + 1 + b.toNat > 255 then none
      else specSkipName msg pos fuel (o + 1 + b.toNat)

structure Delim where
  pos : Nat
  ownerEnd : Nat
  ty : Nat
  cls : Nat
  rawTtl : Nat
  rdlen : Nat
  next : Nat
  deriving Repr, Inhabited

def specDelimit (msg : Bytes) (pos : Nat) : Option Delim :=
  match specSkipName msg pos 300 0 with
  | none => none
  | some k =>
    match specField16 msg (pos + k), specField16 msg (pos + k + 2), specField32 msg (pos + k + 4),
          specField16 msg (pos + k + 8) with
    | some t, some c, some ttl, some rdlen =>
      if pos + k + 10 + rdlen ≤ msg.size then some ⟨pos, pos + k, t, c, ttl, rdlen, pos + k + 10 + rdlen⟩ else none
    | _, _, _, _ => none

/-- EDNS option TLVs exactly fill the RDATA (RFC 6891 §6.1.2) -/
def optRdataOk (msg : Bytes) : Nat → Nat → Nat → Bool
  | 0, p, e => p == e
  | fuel+1, p, e =>
    if p == e then true else
    match specField16 msg (p + 2) with
    | some len => if p + 4 + len ≤ e then optRdataOk msg fuel (p + 4 + len) e else false
    | none => false

/-- TSIG RDATA layout (RFC 8945 §4.2): algorithm name, 6+2 octets, MAC size + MAC, 2+2 octets, other len + other -/
def tsigRdataOk (msg : Bytes) (s e : Nat) : Bool :=
  match specDecodeUncompressed (msg.extract s e) false with
  | some (w, _) =>
    let a := w.length
    match specField16 (msg.extract s e) (a + 8) with
    | some macSize =>
      match specField16 (msg.extract s e) (a + macSize + 14) with
      | some otherLen => a + macSize + otherLen + 16 == e - s
      | none => false
    | none => false
  | none => false

/-! ### the scan -/

inductive Verdict
  | formErr                 -- RCODE 1, no answer/authority data
  | badVers                 -- extended RCODE 16
  | tsigReached             -- a syntactically acceptable TSIG record was reached (C10 decides)
  | notImp | refused | servFailZone
  | answer                  -- a loaded zone answers (C05 decides the contents)
  deriving Repr, DecidableEq, Inhabited

structure Scan where
  respond : Bool
  question : Option DQuestion := none
  edns : Bool := false
  limitUdp : Nat := 512
  verdict : Verdict := .formErr
  deriving Repr, Inhabited

def hdr (msg : Bytes) (i : Nat) : Nat := (msg.getD i 0).toNat * 256 + (msg.getD (i + 1) 0).toNat

/-- answer + authority sections: every counted record must be delimitable and none may be OPT/TSIG -/
def scanPlain (msg : Bytes) : Nat → Nat → Option Nat
  | 0, pos => some pos
  | n+1, pos =>
    match specDelimit msg pos with
    | none => none
    | some d => if d.ty = 41 ∨ d.ty = 250 then none else scanPlain msg n d.next

inductive ArEnd
  | formErr | badVers | tsig | done (pos : Nat)
  deriving Repr, Inhabited

/-- additional section; state = (edns seen, udp limit). Returns how it ended and the state. -/
def scanAr (msg : Bytes) (serverSize : Nat) : Nat → Nat → Nat → Bool → Nat → ArEnd × Bool × Nat
  | 0, _, pos, edns, lim => (.done pos, edns, lim)
  | n+1, total, pos, edns, lim =>
    match specDelimit msg pos with
    | none => (.formErr, edns, lim)
    | some d =>
      if d.ty = 41 then
        if edns then (.formErr, edns, lim)            -- more than one OPT (RFC 6891 §6.1.1)
        else
          -- from here on the response is an EDNS response (RFC 6891 §7)
          match specDecodeName msg pos with
          | none => (.formErr, true, lim)
          | some (owner, _, _) =>
            if !optRdataOk msg (d.rdlen + 1) (d.ownerEnd + 10) d.next then (.formErr, true, lim) else
            let lim' := max 512 (min d.cls serverSize)
            if owner ≠ [0] then (.formErr, true, lim')
            else if d.rawTtl / 65536 % 256 ≠ 0 then (.badVers, true, lim')
            else scanAr msg serverSize n total d.next true lim'
      else if d.ty = 250 then
        if n ≠ 0 then (.formErr, edns, lim)            -- TSIG must be the last record (RFC 8945 §5.1)
        else
          match specDecodeName msg pos with
          | none => (.formErr, edns, lim)
          | some _ =>
            if !tsigRdataOk msg (d.ownerEnd + 10) d.next then (.formErr, edns, lim)
            else if d.cls ≠ 255 ∨ d.rawTtl ≠ 0 then (.formErr, edns, lim)   -- RFC 8945 §4.2: class ANY, TTL 0
            else (.tsig, edns, lim)
      else scanAr msg serverSize n total d.next edns lim

/-- the scan, parametric in the catalog lookup (`lookup qname qclass` = the kind of the catalog
    entry of that class whose name is the longest suffix of `qname`, if any) -/
def specScanWith (lookup : List UInt8 → Nat → Option ZoneKind) (serverSize : Nat) (msg : Bytes) : Scan :=
  if msg.size < 12 then { respond := false }
  else if (msg.getD 2 0).toNat ≥ 128 then { respond := false }       -- QR set: a response
  else
    let qd := hdr msg 4
    if qd > 1 then { respond := false }
    else
      let opcode := (msg.getD 2 0).toNat / 8 % 16
      -- the question
      let qres : Option (Option DQuestion × Nat) :=
        if qd = 0 then some (none, 12)
        else match specQuestionAt msg 12 with
          | some (w, t, c, nx) => some (some ⟨w, t, c⟩, nx)
          | none => none
      match qres with
      | none => { respond := true, verdict := .formErr }
      | some (q, p1) =>
        match scanPlain msg (hdr msg 6 + hdr msg 8) p1 with
        | none => { respond := true, question := q, verdict := .formErr }
        | some p2 =>
          match scanAr msg serverSize (hdr msg 10) (hdr msg 10) p2 false 512 with
          | (.formErr, e, l) => { respond := true, question := q, edns := e, limitUdp := l, verdict := .formErr }
          | (.badVers, e, l) => { respond := true, question := q, edns := e, limitUdp := l, verdict := .badVers }
          | (.tsig, e, l) => { respond := true, question := q, edns := e, limitUdp := l, verdict := .tsigReached }
          | (.done p3, e, l) =>
            let base : Scan := { respond := true, question := q, edns := e, limitUdp := l }
            if p3 < msg.size then { base with verdict := .formErr }      -- octets after the last record
            else if opcode ≠ 0 then { base with verdict := .notImp }
            else match q with
              | none => { base with verdict := .formErr }                -- a QUERY without a question
              | some qq =>
                if 251 ≤ qq.qtype ∧ qq.qtype ≤ 254 then { base with verdict := .notImp }
                else if qq.qclass = 255 then { base with verdict := .notImp }
                else match lookup qq.qname qq.qclass with
                  | none => { base with verdict := .refused }
                  | some .loaded => { base with verdict := .answer }
                  | some _ => { base with verdict := .servFailZone }

def specScan (cat : List ZoneCfg) (serverSize : Nat) (msg : Bytes) : Scan :=
  specScanWith (fun qn qc => (specCatalogLookup cat qn qc).map (·.kind)) serverSize msg

/-! ### the response for the verdicts the scan decides alone -/

/-- RCODE (the four header bits) and the upper eight bits of the extended RCODE (OPT TTL) -/
def verdictRcode : Verdict → Nat × Nat
  | .formErr => (1, 0)
  | .badVers => (0, 1)        -- BADVERS = 16
  | .notImp => (4, 0)
  | .refused => (5, 0)
  | .servFailZone => (2, 0)
  | _ => (0, 0)

/-- The complete response for FORMERR / BADVERS / NOTIMP / REFUSED / SERVFAIL-for-a-zone-not-loaded:
    request ID and opcode echoed, QR set, RD copied for QUERY only, every other flag bit clear, the
    RCODE, the question as decoded (uncompressed encoding), and no record except — iff the scan
    reached an OPT — one OPT: owner root, CLASS = the server's payload size, version 0, the upper
    extended-RCODE bits, no flags, no options (RFC 1035 §4.1.1, RFC 6891 §6.1.2). -/
def specErrorResponse (req : Bytes) (serverSize : Nat) (sc : Scan) : List UInt8 :=
  let x := req.getD 2 0
  let h2 : UInt8 := 128 ||| (x &&& 120) ||| (if x.toNat / 8 % 16 = 0 then x &&& 1 else 0)
  let rc := verdictRcode sc.verdict
  let q : List UInt8 := match sc.question with
    | none => []
    | some q => q.qname ++ u16be q.qtype ++ u16be q.qclass
  let opt : List UInt8 :=
    if sc.edns then [0, 0, 41] ++ u16be serverSize ++ [UInt8.ofNat rc.2, 0, 0, 0, 0, 0] else []
  [req.getD 0 0, req.getD 1 0, h2, UInt8.ofNat rc.1, 0, (if sc.question.isSome then 1 else 0), 0, 0, 0, 0, 0,
   (if sc.edns then 1 else 0)] ++ q ++ opt

/-! ### audits of a response -/

/-- the RDATA of a stored record is well formed as far as embedded (compressible) names go -/
def recNamesOk (r : Rec) : Bool :=
  let b : Bytes := r.rdata.toArray
  match expandRdata b r.ty 0 b.size with
  | some _ => true
  | none => false

def catalogNamesOk (cat : List ZoneCfg) : Bool := cat.all (fun z => z.recs.all recNamesOk)

inductive Resp
  | none | panic | bytes (b : Bytes)
  deriving Inhabited

def noData (d : DMsg) : Bool :=
  d.an.isEmpty && d.ns.isEmpty && d.ar.all (fun r => r.ty = 41 || r.ty = 250)

/-- the first OPT record of the additional section (the one the scan reaches first), if the records
    before it can be delimited: position of the record -/
def firstOpt (msg : Bytes) : Nat → Nat → Option Delim
  | 0, _ => none
  | n+1, pos =>
    match specDelimit msg pos with
    | none => none
    | some d => if d.ty = 41 then some d else firstOpt msg n d.next

/-- "an OPT whose owner is not the root": the OPT the scan reaches decodes, has well-formed options,
    and its owner is not the root (C09 asks for FORMERR here) -/
def optOwnerNotRoot (msg : Bytes) : Bool :=
  if msg.size < 12 then false else
  let qd := hdr msg 4
  let p1 : Option Nat := if qd = 0 then some 12 else match specQuestionAt msg 12 with
    | some (_, _, _, nx) => some nx
    | none => none
  match p1 with
  | none => false
  | some p1 =>
    match scanPlain msg (hdr msg 6 + hdr msg 8) p1 with
    | none => false
    | some p2 =>
      match firstOpt msg (hdr msg 10) p2 with
      | none => false
      | some d =>
        match specDecodeName msg d.pos with
        | some (owner, _, _) => owner ≠ [0] && optRdataOk msg (d.rdlen + 1) (d.ownerEnd + 10) d.next
        | none => false

/-- audit one response; returns tags `Cxx:reason` of the properties it violates -/
def auditOne (cat : List ZoneCfg) (serverSize : Nat) (req : Bytes) (udp : Bool) (r : Resp) : List String :=
  let sc := specScan cat serverSize req
  let tr := if udp then "udp" else "tcp"
  match r with
  | .panic =>
    -- a panic is C01's violation; it also withholds a response the other properties prescribe
    [s!"C01:panic-{tr}"] ++
    (if sc.respond then
      [s!"C03:no-response-panic-{tr}"] ++
      (match sc.verdict with
        | .formErr => [s!"C08:no-response-panic-{tr}"]
        | .badVers => [s!"C09:no-response-panic-{tr}"]
        | .notImp | .refused | .servFailZone => [s!"C07:no-response-panic-{tr}"]
        | .tsigReached => [s!"C10:no-response-panic-{tr}"]
        | .answer => [s!"C05:no-response-panic-{tr}"])
     else [])
  | .none => if sc.respond then [s!"C03:no-response-{tr}"] else []
  | .bytes b =>
    if !sc.respond then [s!"C03:unexpected-response-{tr}"] else
    match specDecodeMsg b with
    | none =>
      -- an undecodable response cannot echo the question either, unless its question section is
      -- intact octet for octet (the server writes the question first and uncompressed)
      [s!"C02:undecodable-{tr}"] ++
      (match sc.question with
        | some q =>
          let want := q.qname ++ u16be q.qtype ++ u16be q.qclass
          if hdr b 4 ≠ 1 ∨ (b.extract 12 (12 + want.length)).toList ≠ want then [s!"C03:question-lost-{tr}"] else []
        | none => [])
    | some d =>
      let opts := d.ar.filter (fun r => r.ty = 41)
      let c02 :=
        (if (d.an ++ d.ns).any (fun r => r.ty = 41 || r.ty = 250) then [s!"C02:pseudo-rr-outside-additional-{tr}"] else []) ++
        (if opts.length > 1 then [s!"C02:two-opt-{tr}"] else []) ++
        (match (d.ar.filter (fun r => r.ty = 250)) with
          | [] => []
          | [_] => if (d.ar.getLast?.map (·.ty)) = some 250 then [] else [s!"C02:tsig-not-last-{tr}"]
          | _ => [s!"C02:two-tsig-{tr}"]) ++
        -- malformed RDATA may only be a verbatim copy of malformed RDATA loaded through the API
        (if (d.an ++ d.ns ++ d.ar).any (fun r => !r.rdOk) ∧ catalogNamesOk cat then [s!"C02:rdata-names-{tr}"] else [])
      -- C03: header echo and question
      let reqOpcode := (req.getD 2 0).toNat / 8 % 16
      let reqRd := (req.getD 2 0).toNat % 2 == 1
      let c03 :=
        (if d.id ≠ hdr req 0 then [s!"C03:id-{tr}"] else []) ++
        (if !d.qr then [s!"C03:qr-{tr}"] else []) ++
        (if d.opcode ≠ reqOpcode then [s!"C03:opcode-{tr}"] else []) ++
        (if d.rd ≠ (reqOpcode == 0 && reqRd) then [s!"C03:rd-{tr}"] else []) ++
        (if d.ra then [s!"C03:ra-{tr}"] else []) ++
        (if d.zbits ≠ 0 then [s!"C03:zbits-{tr}"] else []) ++
        (match sc.question with
          | some q =>
            if d.questions ≠ [q] then [s!"C03:question-{tr}"]
            else
              -- octet-for-octet when the request's QNAME is not compressed
              let qlen := q.qname.length + 4
              if (req.extract 12 (12 + q.qname.length)).toList = q.qname
                 ∧ (b.extract 12 (12 + qlen)).toList ≠ (req.extract 12 (12 + qlen)).toList
              then [s!"C03:question-octets-{tr}"] else []
          | none => if d.questions ≠ [] then [s!"C03:spurious-question-{tr}"] else [])
      -- C04: size and truncation
      let c04 :=
        (if udp ∧ b.size > sc.limitUdp then [s!"C04:size-{b.size}>{sc.limitUdp}"] else []) ++
        (if d.tc ∧ !noData d then [s!"C04:tc-with-data-{tr}"] else []) ++
        (if !udp ∧ d.tc then ["C04:tc-over-tcp"] else [])
      -- C09: EDNS
      let c09 :=
        (if sc.edns ∧ opts.length ≠ 1 then [s!"C09:opt-missing-{tr}"] else []) ++
        (if !sc.edns ∧ opts.length ≠ 0 then [s!"C09:opt-unexpected-{tr}"] else []) ++
        (match opts with
          | [o] =>
            (if o.owner ≠ [0] then [s!"C09:opt-owner-{tr}"] else []) ++
            (if o.cls ≠ serverSize then [s!"C09:opt-class-{tr}"] else []) ++
            (if o.rawTtl / 65536 % 256 ≠ 0 then [s!"C09:opt-version-{tr}"] else [])
          | _ => [])
      let extRcode := d.rcode + 16 * (match opts with | [o] => o.rawTtl / 16777216 | _ => 0)
      -- verdict-specific
      let cv := match sc.verdict with
        | .formErr =>
          (if extRcode ≠ 1 then [s!"C08:rcode-{extRcode}-{tr}"] else []) ++
          (if extRcode ≠ 1 ∧ sc.edns ∧ optOwnerNotRoot req then [s!"C09:owner-rcode-{extRcode}-{tr}"] else []) ++
          (if !noData d then [s!"C08:data-{tr}"] else [])
        | .badVers =>
          (if extRcode ≠ 16 then [s!"C09:badvers-rcode-{extRcode}-{tr}"] else []) ++
          (if !noData d then [s!"C09:badvers-data-{tr}"] else [])
        | .notImp =>
          (if extRcode ≠ 4 then [s!"C07:notimp-rcode-{extRcode}-{tr}"] else []) ++
          (if !noData d ∨ d.aa then [s!"C07:notimp-data-{tr}"] else [])
        | .refused =>
          (if extRcode ≠ 5 then [s!"C07:refused-rcode-{extRcode}-{tr}"] else []) ++
          (if !noData d ∨ d.aa then [s!"C07:refused-data-{tr}"] else [])
        | .servFailZone =>
          (if extRcode ≠ 2 then [s!"C07:servfail-rcode-{extRcode}-{tr}"] else []) ++
          (if !noData d ∨ d.aa then [s!"C07:servfail-data-{tr}"] else [])
        | .tsigReached => []
        | .answer =>
          -- FORMERR is never produced by the answering phase; NOTIMP/REFUSED neither
          (if extRcode = 1 ∨ extRcode = 4 ∨ extRcode = 5 then [s!"C07:answer-rcode-{extRcode}-{tr}"] else [])
      c02 ++ c03 ++ c04 ++ c09 ++ cv

/-- audit the UDP/TCP pair for one request -/
def audit (cat : List ZoneCfg) (serverSize : Nat) (req : Bytes) (u t : Resp) : List String :=
  let sc := specScan cat serverSize req
  let pair := match u, t with
    | .bytes ub, .bytes tb =>
      if tb.size ≤ sc.limitUdp ∧ ub ≠ tb then
        match specDecodeMsg ub, specDecodeMsg tb with
        | some du, some dt =>
          if dt.rcode = 2 ∧ du.tc then ["C04:T3-tcp-servfail-after-udp-overflow"]   -- known corner (DESIGN §6 C04)
          else ["C04:udp-differs-from-fitting-tcp"]
        | _, _ => []
      else []
    | _, _ => []
  auditOne cat serverSize req true u ++ auditOne cat serverSize req false t ++ pair

end QV.Spec.Server
