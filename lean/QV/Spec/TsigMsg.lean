/-
  QV.Spec.TsigMsg — finding the TSIG RR of a received message, written from RFC 1035 §4.1 and
  RFC 8945 §5.2 independently of the reader model (oracle of op `tvmsg`).

  RFC 1035 §4.1: header (12 octets; QDCOUNT, ANCOUNT, NSCOUNT, ARCOUNT at octets 4..11), QDCOUNT
  questions (QNAME, QTYPE, QCLASS), then ANCOUNT + NSCOUNT + ARCOUNT resource records (NAME, TYPE,
  CLASS, TTL, RDLENGTH, RDATA).  §4.1.4: a name is "a sequence of labels ending in a zero octet, a
  pointer, [or] a sequence of labels ending with a pointer".
  RFC 8945 §5.2: the TSIG RR is the last record of the additional section; §4.2: its CLASS "MUST
  be ANY", its TTL "MUST be 0".
-/
import QV.Spec.Tsig
import QV.Spec.NameWire

namespace QV.Spec.Tsig
open QV

/-- position after the name that starts at `pos` (only the part stored at `pos` is looked at; a
    name takes at most 255 octets) -/
def nameEnd (msg : Bytes) (start : Nat) : Nat → Nat → Option Nat
  | 0, _ => none
  | fuel + 1, pos =>
    match msg[pos]? with
    | none => none
    | some b =>
      if pos + 1 - start > 255 then none
      else if b = 0 then some (pos + 1)
      else if b.toNat ≤ 63 then
        if pos + 1 + b.toNat - start > 255 then none else nameEnd msg start fuel (pos + 1 + b.toNat)
      else if 192 ≤ b.toNat then some (pos + 2)
      else none

def f16 (msg : Bytes) (i : Nat) : Nat := (msg.getD i 0).toNat * 256 + (msg.getD (i + 1) 0).toNat
def f32 (msg : Bytes) (i : Nat) : Nat := f16 msg i * 65536 + f16 msg (i + 2)

def skipQuestions (msg : Bytes) : Nat → Nat → Option Nat
  | 0, pos => some pos
  | n + 1, pos =>
    match nameEnd msg pos (msg.size + 1) pos with
    | none => none
    | some e => if e + 4 ≤ msg.size then skipQuestions msg n (e + 4) else none

/-- end of the record that starts at `pos`, with the position of its fixed part -/
def rrEnd (msg : Bytes) (pos : Nat) : Option (Nat × Nat) :=
  match nameEnd msg pos (msg.size + 1) pos with
  | none => none
  | some e =>
    if e + 10 ≤ msg.size ∧ e + 10 + f16 msg (e + 8) ≤ msg.size then some (e, e + 10 + f16 msg (e + 8)) else none

def skipRrs (msg : Bytes) : Nat → Nat → Option Nat
  | 0, pos => some pos
  | n + 1, pos =>
    match rrEnd msg pos with
    | none => none
    | some (_, e) => skipRrs msg n e

/-- the last record of a message that consists of exactly its counted questions and records -/
structure LastRecord where
  start : Nat
  owner : List UInt8      -- decompressed owner name (RFC 1035 §4.1.4)
  rrType : Nat
  cls : Nat
  ttl : Nat
  rdata : Octets

def lastRecord (msg : Bytes) : Option LastRecord :=
  if msg.size < 12 then none
  else
    let total := f16 msg 6 + f16 msg 8 + f16 msg 10
    if total = 0 then none
    else match skipQuestions msg (f16 msg 4) 12 with
      | none => none
      | some p0 =>
        match skipRrs msg (total - 1) p0 with
        | none => none
        | some p =>
          match rrEnd msg p with
          | none => none
          | some (fixed, e) =>
            if e ≠ msg.size then none
            else match specDecodeName msg p with
              | none => none
              | some (owner, _, _) =>
                some ⟨p, owner, f16 msg fixed, f16 msg (fixed + 2), f32 msg (fixed + 4),
                      (msg.extract (fixed + 10) e).toList⟩

end QV.Spec.Tsig
