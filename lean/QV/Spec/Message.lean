/-
  QV.Spec.Message — DNS messages, written from RFC 1035 §4.1 (message format), §3.3 (RDATA
  formats), RFC 3597 §4 (which RDATA may contain compression pointers), RFC 2181 §8 (TTL),
  RFC 6891 §6.1 (OPT), RFC 8945 §4.2 (TSIG RDATA).  Nothing here mentions the Rust code or the
  models; every name is decoded with `QV.Spec.specDecodeName` (the executable form of the RFC
  1035 §4.1.4 relation `QV.Spec.Decodes`).

  Exports (shared with C02, C03, C05 as "independent RFC 1035 decoder"):
    * `AMsg`, `Header`, `Question`, `Record`, `Field`            abstract messages
    * `specDecodeMsg : Bytes → Option Decoded`                   full-message decoder that must
      consume the message exactly and records, for every name occurrence, the positions of the
      label length octets it occupies and the compression pointer that ends it (if any)
    * `ednsOf`, `tsigOf`                                         the pseudo-records
  and, for C12/C13:
    * `SOp`, `absStep`-style checking of a writer session: `checkSession`.
-/
import QV.Prelude
import QV.Spec.NameWire

namespace QV.Spec.Message
open QV QV.Spec

/-- a domain name in uncompressed wire form -/
abbrev Name := List UInt8

/-- one RDATA field after expansion: an embedded domain name or opaque octets -/
inductive Field where
  | name (n : Name)
  | bytes (b : List UInt8)
  deriving Repr, DecidableEq, Inhabited

structure Question where
  qname : Name
  qtype : Nat
  qclass : Nat
  deriving Repr, DecidableEq, Inhabited

structure Record where
  owner : Name
  type : Nat
  cls : Nat
  ttl : Nat                 -- the raw 32-bit field
  rdata : List Field        -- names expanded; adjacent octet fields merged, empty ones dropped
  deriving Repr, DecidableEq, Inhabited

/-- RFC 1035 §4.1.1 -/
structure Header where
  id : Nat
  qr : Bool
  opcode : Nat
  aa : Bool
  tc : Bool
  rd : Bool
  ra : Bool
  z : Nat
  rcode : Nat
  deriving Repr, DecidableEq, Inhabited

structure AMsg where
  header : Header
  questions : List Question
  answers : List Record
  authorities : List Record
  additionals : List Record
  deriving Repr, DecidableEq, Inhabited

/-! ### RDATA layouts -/

/-- layout element: a domain name (which RFC 3597 §4 allows to be compressed, or not), or a
    fixed number of octets -/
inductive Lay where
  | cname            -- name that may be compressed (RFC 1035 types)
  | uname            -- name that must not be compressed
  | fixed (n : Nat)
  deriving Repr, DecidableEq, Inhabited

/-- RFC 1035 §3.3: NS MD MF CNAME MB MG MR PTR hold one name; SOA and MINFO two; MX a 16-bit
    preference and a name. RFC 3597 §4: only these may be compressed. Known layouts whose names
    must stay uncompressed: SRV (RFC 2782; class IN) and the Chaosnet A record (RFC 1035 §3.4.1
    is IN-specific; the CH form is a domain name followed by a 16-bit address). Every other
    (type, class) is opaque. -/
def layoutOf (ty cls : Nat) : List Lay :=
  if ty = 2 ∨ ty = 3 ∨ ty = 4 ∨ ty = 5 ∨ ty = 7 ∨ ty = 8 ∨ ty = 9 ∨ ty = 12 then [.cname]
  else if ty = 6 ∨ ty = 14 then [.cname, .cname]
  else if ty = 15 then [.fixed 2, .cname]
  else if ty = 33 ∧ cls = 1 then [.fixed 6, .uname]
  else if ty = 1 ∧ cls = 3 then [.uname]
  else []

def layoutCompressible (l : List Lay) : Bool := l.any (· == .cname)

/-- merge adjacent octet fields, drop empty ones -/
def normFields : List Field → List Field
  | [] => []
  | .bytes [] :: r => normFields r
  | .bytes a :: r =>
    match normFields r with
    | .bytes b :: r' => .bytes (a ++ b) :: r'
    | r' => .bytes a :: r'
  | .name n :: r => .name n :: normFields r

/-! ### pointer information -/

/-- where a name occurrence sits -/
inductive Where where
  | qname | owner | rdataCompressible | rdataUncompressible
  deriving Repr, DecidableEq, Inhabited

/-- one name physically present in the message: where it starts, the positions of the label
    length octets it occupies itself (up to its root label or its pointer), and its pointer -/
structure NameOcc where
  start : Nat
  labelStarts : List Nat
  ptr : Option (Nat × Nat)       -- (position of the pointer, target)
  place : Where
  item : Nat                     -- index of the question / record containing it
  deriving Repr, DecidableEq, Inhabited

structure Decoded where
  msg : AMsg
  /-- (start, end) of every question and record, in message order -/
  extents : List (Nat × Nat)
  names : List NameOcc
  deriving Repr, Inhabited

/-- the labels a name occupies physically at `pos` and the pointer that ends it -/
def physical (msg : Bytes) : Nat → Nat → List Nat → Option (List Nat × Option (Nat × Nat))
  | 0, _, _ => none
  | fuel+1, pos, acc =>
    match msg[pos]? with
    | none => none
    | some b =>
      if b = 0 then some ((pos :: acc).reverse, none)
      else if b.toNat ≤ 63 then physical msg fuel (pos + b.toNat + 1) (pos :: acc)
      else if 192 ≤ b.toNat then
        match msg[pos+1]? with
        | some b2 => some (acc.reverse, some (pos, (b.toNat - 192) * 256 + b2.toNat))
        | none => none
      else none

/-- decode the name at `pos`: its expansion, the octets it occupies, its physical description -/
def decodeNameAt (msg : Bytes) (pos : Nat) (place : Where) (item : Nat) :
    Option (Name × Nat × NameOcc) :=
  match specDecodeName msg pos, physical msg 130 pos [] with
  | some (w, _, k), some (ls, p) => some (w, k, ⟨pos, ls, p, place, item⟩)
  | _, _ => none

/-- RDATA of `rdlen` octets at `pos`, expanded along a layout -/
def decodeFields (msg : Bytes) (item : Nat) (stop : Nat) :
    List Lay → Nat → List Field → List NameOcc → Option (List Field × List NameOcc)
  | [], pos, fs, ns =>
    if pos ≤ stop then some ((Field.bytes (msg.extract pos stop).toList :: fs).reverse, ns.reverse)
    else none
  | .fixed n :: ls, pos, fs, ns =>
    if pos + n ≤ stop then
      decodeFields msg item stop ls (pos + n) (.bytes (msg.extract pos (pos + n)).toList :: fs) ns
    else none
  | .cname :: ls, pos, fs, ns =>
    match decodeNameAt msg pos .rdataCompressible item with
    | some (w, k, occ) =>
      if pos + k ≤ stop then decodeFields msg item stop ls (pos + k) (.name w :: fs) (occ :: ns)
      else none
    | none => none
  | .uname :: ls, pos, fs, ns =>
    match decodeNameAt msg pos .rdataUncompressible item with
    | some (w, k, occ) =>
      if pos + k ≤ stop then decodeFields msg item stop ls (pos + k) (.name w :: fs) (occ :: ns)
      else none
    | none => none

def decodeRdata (msg : Bytes) (item ty cls pos rdlen : Nat) : Option (List Field × List NameOcc) :=
  let lay := layoutOf ty cls
  match decodeFields msg item (pos + rdlen) lay pos [] [] with
  | some (fs, ns) => some (normFields fs, ns)
  | none =>
    -- an opaque reading is acceptable only for layouts that RFC 3597 does not let us expand
    if layoutCompressible lay then none
    else some (normFields [.bytes (msg.extract pos (pos + rdlen)).toList], [])

structure Acc where
  extents : List (Nat × Nat) := []
  names : List NameOcc := []
  item : Nat := 0

/-- `n` questions starting at `pos` -/
def decodeQuestions (msg : Bytes) : Nat → Nat → List Question → Acc → Option (Nat × List Question × Acc)
  | 0, pos, qs, a => some (pos, qs.reverse, a)
  | n+1, pos, qs, a =>
    match decodeNameAt msg pos .qname a.item with
    | some (w, k, occ) =>
      if pos + k + 4 ≤ msg.size then
        decodeQuestions msg n (pos + k + 4) (⟨w, be16 msg (pos + k), be16 msg (pos + k + 2)⟩ :: qs)
          { extents := (pos, pos + k + 4) :: a.extents, names := occ :: a.names, item := a.item + 1 }
      else none
    | none => none

/-- `n` resource records starting at `pos` -/
def decodeRecords (msg : Bytes) : Nat → Nat → List Record → Acc → Option (Nat × List Record × Acc)
  | 0, pos, rs, a => some (pos, rs.reverse, a)
  | n+1, pos, rs, a =>
    match decodeNameAt msg pos .owner a.item with
    | some (w, k, occ) =>
      let p := pos + k
      if p + 10 ≤ msg.size then
        let ty := be16 msg p
        let cls := be16 msg (p + 2)
        let ttl := be32 msg (p + 4)
        let rdlen := be16 msg (p + 8)
        if p + 10 + rdlen ≤ msg.size then
          match decodeRdata msg a.item ty cls (p + 10) rdlen with
          | some (fs, ns) =>
            decodeRecords msg n (p + 10 + rdlen) (⟨w, ty, cls, ttl, fs⟩ :: rs)
              { extents := (pos, p + 10 + rdlen) :: a.extents,
                names := ns.reverse ++ (occ :: a.names), item := a.item + 1 }
          | none => none
        else none
      else none
    | none => none

def bit (b : UInt8) (mask : Nat) : Bool := (b.toNat / mask) % 2 = 1

/-- RFC 1035 §4.1: header, QDCOUNT questions, ANCOUNT + NSCOUNT + ARCOUNT records, nothing
    else. -/
def specDecodeMsg (msg : Bytes) : Option Decoded :=
  if msg.size < 12 then none else
  let b2 := msg.getD 2 0
  let b3 := msg.getD 3 0
  let hdr : Header :=
    { id := be16 msg 0, qr := bit b2 128, opcode := (b2.toNat / 8) % 16, aa := bit b2 4,
      tc := bit b2 2, rd := bit b2 1, ra := bit b3 128, z := (b3.toNat / 16) % 8,
      rcode := b3.toNat % 16 }
  match decodeQuestions msg (be16 msg 4) 12 [] {} with
  | some (p1, qs, a1) =>
    match decodeRecords msg (be16 msg 6) p1 [] a1 with
    | some (p2, an, a2) =>
      match decodeRecords msg (be16 msg 8) p2 [] a2 with
      | some (p3, ns, a3) =>
        match decodeRecords msg (be16 msg 10) p3 [] a3 with
        | some (p4, ar, a4) =>
          if p4 = msg.size then
            some { msg := ⟨hdr, qs, an, ns, ar⟩, extents := a4.extents.reverse,
                   names := a4.names.reverse }
          else none
        | none => none
      | none => none
    | none => none
  | none => none

/-- RFC 6891 §6.1.2-3: the OPT pseudo-record of a message: (UDP payload size, upper eight bits
    of the extended RCODE, version, flags) -/
def ednsOf (m : AMsg) : Option (Nat × Nat × Nat × Nat) :=
  match m.additionals.find? (·.type = 41) with
  | some r => some (r.cls, r.ttl / 16777216, (r.ttl / 65536) % 256, r.ttl % 65536)
  | none => none

/-- RFC 8945 §5.1: a TSIG record, if present, is the last record of the additional section -/
def tsigOf (m : AMsg) : Option Record :=
  match m.additionals.getLast? with
  | some r => if r.type = 250 then some r else none
  | none => none

/-- the 12-bit extended RCODE of a decoded message (RFC 6891 §6.1.3) -/
def extRcodeOf (m : AMsg) : Nat :=
  match ednsOf m with
  | some (_, upper, _, _) => upper * 16 + m.header.rcode
  | none => m.header.rcode

/-! ### writer sessions, abstractly -/

inductive Mode where
  | standard | casePreserving | disabled
  deriving Repr, DecidableEq, Inhabited

inductive Flag where
  | qr | aa | tc | rd | ra
  deriving Repr, DecidableEq, Inhabited

/-- one call on the writer API, reduced to what it means for the message -/
inductive SOp where
  | setId (v : Nat)
  | setFlag (f : Flag) (b : Bool)
  | setOpcode (v : Nat)
  | setRcode (v : Nat)
  | setExtRcode (v : Nat)
  | setLimit (v : Nat)
  | setMode (m : Mode)
  | addQuestion (qname : Name) (qtype qclass : Nat)
  /-- `sec` 1 = answer, 2 = authority, 3 = additional; `ttl` as handed to the API (a 32-bit
      number, interpreted per RFC 2181 §8); one record per element of `rdatas` -/
  | addRrs (sec : Nat) (owner : Name) (ty cls ttl : Nat) (rdatas : List (List UInt8))
  | clearRrs
  | setEdns (payload : Nat)
  /-- `signed` = `some outputSize` for the signing modes -/
  | setTsig (signed : Option Nat) (algName keyName : Name) (time : List UInt8)
      (fudge origId error : Nat) (serverTime : List UInt8)
  | updateTime (t : List UInt8)
  | template (buflen : Nat)
  | templateSubsequent (buflen : Nat)
  | getters
  deriving Repr, Inhabited

/-- RFC 8945 §6: algorithm names and MAC sizes (1 = HMAC-SHA1, 256 = HMAC-SHA256) -/
def algWireName (a : Nat) : Name :=
  if a = 1 then (9 :: "hmac-sha1".toUTF8.toList) ++ [0]
  else (11 :: "hmac-sha256".toUTF8.toList) ++ [0]

def algOutputSize (a : Nat) : Nat := if a = 1 then 20 else 32

structure ATsig where
  signed : Option Nat
  algName : Name
  keyName : Name
  time : List UInt8
  fudge : Nat
  origId : Nat
  error : Nat
  serverTime : List UInt8
  deriving Repr, Inhabited

/-- RFC 8945 §4.2 with the MAC left out: the octets before and after the MAC field contents -/
def tsigRdataAround (t : ATsig) (macLen : Nat) : List UInt8 × List UInt8 :=
  let other := if t.error = 18 then t.serverTime else []     -- RFC 8945 §5.2.3 (BADTIME)
  (t.algName ++ t.time ++ u16be t.fudge ++ u16be macLen,
   u16be t.origId ++ u16be t.error ++ u16be other.length ++ other)

def ATsig.macLen (t : ATsig) : Nat := t.signed.getD 0

/-- length of the TSIG record with an uncompressed owner -/
def ATsig.rrLen (t : ATsig) : Nat :=
  let (a, b) := tsigRdataAround t t.macLen
  t.keyName.length + 10 + a.length + t.macLen + b.length

/-- the abstract state of a session -/
structure AState where
  hdr : Header := ⟨0, false, 0, false, false, false, false, 0, 0⟩
  questions : List Question := []        -- reversed
  an : List Record := []                 -- reversed
  ns : List Record := []
  ar : List Record := []
  /-- compression mode in effect when item `i` was written (reversed, questions included) -/
  itemModes : List Mode := []
  edns : Option (Nat × Nat) := none      -- payload, upper eight bits of the extended RCODE
  tsig : Option ATsig := none
  sect : Nat := 0
  mode : Mode
  buflen : Nat
  limit : Nat
  reserved : Nat := 0
  /-- length of the message written so far (without the reserved pseudo-records) -/
  cur : Nat := 12
  /-- items of the current segment's decoded message consumed so far -/
  itemIdx : Nat := 0
  deriving Repr, Inhabited

def lowerName (n : Name) : Name := n.map lowerU8

/-- "decompressed names equal the names given (exactly in case-preserving or disabled
    compression mode, ignoring ASCII case otherwise)" -/
def nameEq (m : Mode) (given decoded : Name) : Bool :=
  if m = .standard then lowerName given == lowerName decoded else given == decoded

def fieldEq (m : Mode) : Field → Field → Bool
  | .name a, .name b => nameEq m a b
  | .bytes a, .bytes b => a == b
  | _, _ => false

def fieldsEq (m : Mode) : List Field → List Field → Bool
  | [], [] => true
  | a :: as, b :: bs => fieldEq m a b && fieldsEq m as bs
  | _, _ => false

def recordEq (m : Mode) (given decoded : Record) : Bool :=
  nameEq m given.owner decoded.owner && given.type == decoded.type && given.cls == decoded.cls &&
  given.ttl == decoded.ttl && fieldsEq m given.rdata decoded.rdata

/-- an uncompressed name at the head of `b`: (name, rest) -/
def takeName (b : List UInt8) : Option (Name × List UInt8) :=
  match specDecodeUncompressed b.toArray false with
  | some (w, _) => some (w, b.drop w.length)
  | none => none

/-- the fields of RDATA given in uncompressed form; `none` = malformed for its layout -/
def givenFields : List Lay → List UInt8 → Option (List Field)
  | [], b => some [.bytes b]
  | .fixed n :: ls, b =>
    if b.length < n then none
    else (givenFields ls (b.drop n)).map (.bytes (b.take n) :: ·)
  | .cname :: ls, b | .uname :: ls, b =>
    match takeName b with
    | some (w, rest) => (givenFields ls rest).map (.name w :: ·)
    | none => none

def givenRdata (ty cls : Nat) (b : List UInt8) : Option (List Field) :=
  (givenFields (layoutOf ty cls) b).map normFields

/-- RFC 2181 §8: a TTL is an unsigned number up to 2^31 - 1; a value with the top bit set is
    treated as zero -/
def ttlOf (raw : Nat) : Nat := if raw > 2147483647 then 0 else raw

def remaining (s : AState) : Nat := s.limit - s.reserved - s.cur

def secCount (s : AState) (sec : Nat) : Nat :=
  if sec = 1 then s.an.length
  else if sec = 2 then s.ns.length
  else s.ar.length + (if s.edns.isSome then 1 else 0) + (if s.tsig.isSome then 1 else 0)

/-- size of the uncompressed encoding of the records of an `addRrs` call -/
def rrsLen (owner : Name) (rdatas : List (List UInt8)) : Nat :=
  (rdatas.map fun rd => owner.length + 10 + rd.length).sum

/-- Is the failure `e` of `op` in state `s` justified? (Each error has a necessary condition;
    `Truncation` is justified only when the uncompressed encoding does not fit in the remaining
    space — "an operation whose uncompressed encoding fits never fails with truncation".) -/
def justified (s : AState) (op : SOp) (e : String) : Bool :=
  match op with
  | .setExtRcode v =>
    (e == "err:NotEdns" && s.edns.isNone) || (e == "err:ExtendedRcodeOverflow" && v > 4095)
  | .addQuestion qn _ _ =>
    (e == "err:OutOfOrder" && s.sect ≠ 0) || (e == "err:CountOverflow" && s.questions.length + 1 > 65535)
    || (e == "err:Truncation" && qn.length + 4 > remaining s)
  | .addRrs sec owner ty cls _ rds =>
    (e == "err:OutOfOrder" && s.sect > sec)
    || (e == "err:CountOverflow" && secCount s sec + rds.length > 65535)
    || (e == "err:InvalidRdata" && rds.any (fun rd => (givenRdata ty cls rd).isNone))
    || (e == "err:Truncation" && rrsLen owner rds > remaining s)
  | .setEdns _ =>
    (e == "err:AlreadyEdns" && s.edns.isSome) || (e == "err:CountOverflow" && secCount s 3 + 1 > 65535)
    || (e == "err:Truncation" && 11 > remaining s)
  | .setTsig sg alg key t f o er st =>
    (e == "err:AlreadyTsig" && s.tsig.isSome) || (e == "err:CountOverflow" && secCount s 3 + 1 > 65535)
    || (e == "err:Truncation" && (ATsig.rrLen ⟨sg, alg, key, t, f, o, er, st⟩) > remaining s)
  | .updateTime _ => e == "err:NotTsig" && s.tsig.isNone
  | .template n => e == "err:Truncation" && n < s.cur + s.reserved
  | .templateSubsequent n =>
    (e == "err:NotTsig" && s.tsig.isNone)
    || (e == "err:NotSignedTsig" && (match s.tsig with | some t => t.signed.isNone | none => false))
    || (e == "err:Truncation" && n < s.cur + s.reserved)
  | _ => false

def setFlag (h : Header) : Flag → Bool → Header
  | .qr, b => { h with qr := b }
  | .aa, b => { h with aa := b }
  | .tc, b => { h with tc := b }
  | .rd, b => { h with rd := b }
  | .ra, b => { h with ra := b }

def b01 (b : Bool) : String := if b then "1" else "0"

/-- what the getters must report -/
def gettersStr (s : AState) : String :=
  let x := match s.edns with | some (_, u) => u * 16 + s.hdr.rcode | none => s.hdr.rcode
  s!"g={s.hdr.id}.{b01 s.hdr.qr}{b01 s.hdr.aa}{b01 s.hdr.tc}{b01 s.hdr.rd}{b01 s.hdr.ra}." ++
  s!"{s.hdr.opcode}.{s.hdr.rcode}.{x}.{s.questions.length}.{s.an.length}.{s.ns.length}.{secCount s 3}"

/-- end offset of item `i` of a decoded message -/
def endOf (d : Decoded) (i : Nat) : Option Nat := (d.extents[i]?).map (·.2)

/-- The abstract effect of a *successful* call (`absStep`). `d` is the decoded message of the
    current segment (it tells where the items written by this call end). `none` = the call
    cannot have succeeded according to the specification (reason in the string). -/
def absOk (s : AState) (d : Decoded) : SOp → Except String AState
  | .setId v => .ok { s with hdr := { s.hdr with id := v } }
  | .setFlag f b => .ok { s with hdr := setFlag s.hdr f b }
  | .setOpcode v => .ok { s with hdr := { s.hdr with opcode := v } }
  | .setRcode v =>
    .ok { s with hdr := { s.hdr with rcode := v }, edns := s.edns.map fun (p, _) => (p, 0) }
  | .setExtRcode v =>
    match s.edns with
    | none => .error "extended RCODE accepted without EDNS"
    | some (p, _) =>
      if v > 4095 then .error "extended RCODE above 4095 accepted"
      else .ok { s with hdr := { s.hdr with rcode := v % 16 }, edns := some (p, v / 16) }
  | .setLimit v =>
    .ok { s with limit := min s.buflen (max v (s.cur + s.reserved)) }
  | .setMode m => .ok { s with mode := m }
  | .addQuestion qn qt qc =>
    match endOf d s.itemIdx with
    | some e =>
      .ok { s with questions := ⟨qn, qt, qc⟩ :: s.questions, itemModes := s.mode :: s.itemModes,
                   cur := e, itemIdx := s.itemIdx + 1 }
    | none => .error "question missing from the message"
  | .addRrs sec owner ty cls ttl rds =>
    match rds.mapM (givenRdata ty cls) with
    | none => .error "malformed RDATA accepted"
    | some fss =>
      let recs : List Record := fss.map fun fs => ⟨owner, ty, cls, ttlOf ttl, fs⟩
      let n := rds.length
      if n = 0 then .error "empty RRset" else
      match endOf d (s.itemIdx + n - 1) with
      | none => .error "record missing from the message"
      | some e =>
        let s' := { s with itemModes := List.replicate n s.mode ++ s.itemModes, cur := e,
                           itemIdx := s.itemIdx + n, sect := max s.sect sec }
        if sec = 1 then .ok { s' with an := recs.reverse ++ s.an }
        else if sec = 2 then .ok { s' with ns := recs.reverse ++ s.ns }
        else .ok { s' with ar := recs.reverse ++ s.ar }
  | .clearRrs =>
    let nq := s.questions.length
    .ok { s with an := [], ns := [], ar := [], sect := 0, itemIdx := nq,
                 itemModes := s.itemModes.drop (s.itemModes.length - nq),
                 cur := if nq = 0 then 12 else (endOf d (nq - 1)).getD 12 }
  | .setEdns p =>
    if s.edns.isSome then .error "EDNS set twice"
    else .ok { s with edns := some (p, 0), reserved := s.reserved + 11 }
  | .setTsig sg alg key t f o er st =>
    if s.tsig.isSome then .error "TSIG set twice"
    else
      let ts : ATsig := ⟨sg, alg, key, t, f, o, er, st⟩
      .ok { s with tsig := some ts, reserved := s.reserved + ts.rrLen }
  | .updateTime t =>
    match s.tsig with
    | some ts => .ok { s with tsig := some { ts with time := t } }
    | none => .error "time signed updated without TSIG"
  | .template n =>
    if n < s.cur + s.reserved then .error "template accepted a buffer that is too small"
    else .ok { s with buflen := n, limit := min s.limit n }
  | .templateSubsequent n =>
    match s.tsig with
    | some ts =>
      if ts.signed.isNone then .error "subsequent-message template accepted for unsigned TSIG"
      else if n < s.cur + s.reserved then .error "template accepted a buffer that is too small"
      else .ok { s with buflen := n, limit := min s.limit n }
    | none => .error "subsequent-message template accepted without TSIG"
  | .getters => .ok s

/-- the message a session state stands for (`mac`: the MAC to expect; `none` = any) -/
def expectedRecords (s : AState) : List Record × List Record × List Record :=
  let opt : List Record := match s.edns with
    | some (p, u) => [⟨[0], 41, p, u * 16777216, []⟩]
    | none => []
  (s.an.reverse, s.ns.reverse, s.ar.reverse ++ opt)

def listEq {α β} (f : α → β → Bool) : List α → List β → Bool
  | [], [] => true
  | a :: as, b :: bs => f a b && listEq f as bs
  | _, _ => false

/-- compare a section with the per-item modes -/
def recsEq : List Mode → List Record → List Record → Bool
  | m :: ms, a :: as, b :: bs => recordEq m a b && recsEq ms as bs
  | _, [], [] => true
  | _, _, _ => false

/-- the TSIG record must be: owner = key name, type 250, class ANY, TTL 0, RDATA per RFC 8945
    §4.2 with the given MAC (or any MAC of the right size) -/
def tsigRecordOk (m : Mode) (t : ATsig) (mac : Option (List UInt8)) (r : Record) : Bool :=
  let (pre, post) := tsigRdataAround t t.macLen
  nameEq m t.keyName r.owner && r.type == 250 && r.cls == 255 && r.ttl == 0 &&
  (match r.rdata with
   | [.bytes b] =>
     b.length == pre.length + t.macLen + post.length && b.take pre.length == pre &&
     b.drop (pre.length + t.macLen) == post &&
     (match mac with
      | some mc => (b.drop pre.length).take t.macLen == mc
      | none => true)
   | _ => false)

/-- the pointer audit (C13) on a decoded message; `modes` = compression mode per item, then the
    mode in effect at `finish` for the pseudo-records -/
def auditPointers (d : Decoded) (modes : List Mode) (finMode : Mode) : Except String Unit :=
  let rec go : List NameOcc → List Nat → Except String Unit
    | [], _ => .ok ()
    | o :: rest, seen =>
      match o.ptr with
      | none => go rest (o.labelStarts ++ seen)
      | some (pos, target) =>
        if target ≥ pos then .error s!"pointer at {pos} does not point backwards ({target})"
        else if target > 16383 then .error s!"pointer at {pos}: target {target} above 0x3fff"
        else if !(seen.contains target) then
          .error s!"pointer at {pos}: target {target} is not the first octet of a label of an earlier name"
        else if o.place == .rdataUncompressible then
          .error s!"pointer at {pos} inside RDATA that must not be compressed (RFC 3597 §4)"
        else if (modes.getD o.item finMode) == .disabled then
          .error s!"pointer at {pos} although compression was disabled"
        else go rest (o.labelStarts ++ seen)
  go d.names []

/-- does the decoded message `d` (of `octets`) say exactly what the session state stands for? -/
def checkSegment (ptrOnly : Bool) (s : AState) (d : Decoded) (size : Nat) (mac : Option (List UInt8)) :
    Except String Unit := do
  if ptrOnly then
    -- C13 alone: the pointer audit on the decoded message
    return ← auditPointers d s.itemModes.reverse s.mode
  let m := d.msg
  let h := m.header
  if h.id ≠ s.hdr.id ∨ h.qr ≠ s.hdr.qr ∨ h.opcode ≠ s.hdr.opcode ∨ h.aa ≠ s.hdr.aa ∨ h.tc ≠ s.hdr.tc
      ∨ h.rd ≠ s.hdr.rd ∨ h.ra ≠ s.hdr.ra ∨ h.z ≠ 0 ∨ h.rcode ≠ s.hdr.rcode then
    throw "header differs from the values set"
  let modes := s.itemModes.reverse
  let qs := s.questions.reverse
  let nq := qs.length
  if m.questions.length ≠ nq then throw "question count differs"
  if !(listEq (fun (p : Mode × Question) (q : Question) =>
        nameEq p.1 p.2.qname q.qname && p.2.qtype == q.qtype && p.2.qclass == q.qclass)
        ((modes.take nq).zip qs) m.questions) then
    throw "questions differ"
  let (an, ns, ar) := expectedRecords s
  let rmodes := modes.drop nq
  if !(recsEq rmodes an m.answers) then throw "answer section differs"
  if !(recsEq (rmodes.drop an.length) ns m.authorities) then throw "authority section differs"
  let arModes := (rmodes.drop (an.length + ns.length)) ++ [s.mode, s.mode]
  match s.tsig with
  | none =>
    if !(recsEq arModes ar m.additionals) then throw "additional section differs"
  | some t =>
    match m.additionals.getLast? with
    | none => throw "TSIG record missing"
    | some r =>
      if !(recsEq arModes ar m.additionals.dropLast) then throw "additional section differs"
      if !(tsigRecordOk s.mode t mac r) then throw "TSIG record differs"
  if size > s.limit then throw s!"message of {size} octets exceeds the limit in effect ({s.limit})"
  auditPointers d modes s.mode

/-- Walk through the calls of a session with the statuses reported for them.
    `msgs`: the finished messages of the prefixes that end before each `clearRrs` call, then the
    finished message of the whole session. -/
def walk (ptrOnly : Bool) : AState → List SOp → List String → List Bytes → Option Decoded →
    Option (List UInt8) → Except String Unit
  | s, [], sts, msgs, d, mac =>
    match sts, msgs, d with
    | ["ok"], [m], some d => checkSegment ptrOnly s d m.size mac
    | ["ok"], _, _ => throw "message list does not match the session"
    | _, _, _ => throw "finish did not succeed"
  | s, op :: ops, st :: sts, msgs, some d, mac =>
    match op with
    | .getters =>
      if ptrOnly || st == gettersStr s then walk ptrOnly s ops sts msgs (some d) mac
      else throw s!"getters report {st}, expected {gettersStr s}"
    | .clearRrs =>
      if st != "ok" then throw "clear_rrs failed" else
      match msgs with
      | m :: m2 :: rest => do
        checkSegment ptrOnly s d m.size none
        match specDecodeMsg m2 with
        | none => throw "message does not decode"
        | some d2 =>
          let s' ← absOk s d2 .clearRrs
          walk ptrOnly s' ops sts (m2 :: rest) (some d2) mac
      | _ => throw "message list does not match the session"
    | _ =>
      if st == "ok" then do
        let s' ← absOk s d op
        walk ptrOnly s' ops sts msgs (some d) mac
      else if ptrOnly || justified s op st then walk ptrOnly s ops sts msgs (some d) mac
      else throw s!"failure {st} is not justified (remaining space {remaining s})"
  | _, _, _, _, _, _ => throw "status list does not match the session"

/-- The specification of a whole writer session (C12 + C13), evaluated on reported statuses and
    finished octets. Result `ok` or `viol:<reason>`. -/
def checkSession (buflen limit : Nat) (mode : Mode) (ops : List SOp) (statuses : List String)
    (msgs : List Bytes) (mac : Option (List UInt8)) (ptrOnly : Bool := false) : String :=
  let limit := min limit buflen
  if statuses.contains "panic" then "viol:a call panicked" else
  match msgs with
  | [] => "viol:no message"
  | m :: _ =>
    match specDecodeMsg m with
    | none => "viol:message does not decode"
    | some d =>
      match walk ptrOnly { mode := mode, buflen := buflen, limit := limit } ops statuses msgs (some d) mac with
      | .ok () => "ok"
      | .error e => "viol:" ++ e

end QV.Spec.Message
