/-
  QV.Spec.Include — what `$INCLUDE` means (C25), written from RFC 1035 §5.1 and the property
  text, as a *recursive* semantics — no stack, no `next`:

    to read a file with an initial context at nesting depth `d`: read its entries in order;
    a record is reported with the file and its line; an `$INCLUDE f [origin]` at depth
    `d ≥ maxDepth` is the error "includes too deep"; otherwise `f` is resolved against the
    including file, read *completely* at depth `d + 1` starting from the includer's current
    context (with the origin replaced if the directive gives one), and reading of the includer
    then continues with the context the included file ended with — except for the origin, which
    is the includer's own again (RFC 1035 §5.1: "the origin of the parent file is not changed
    by the included file").  Any error ends everything.

  The semantics is parametric in the file identity `κ`, in how an include path is resolved
  (`resolve`), and in the meaning of a single file's entries, which is given by the in-memory
  parser's iterator (`QV.ZF.Parser.next`: the subject of C23/C24, not of C25).
-/
import QV.Model.ZoneFile.Parser

namespace QV.Spec.Inc
open QV QV.ZF

inductive SErr where
  | Syntax (k : Kind)
  | IncludesTooDeep
  | FailedToOpenInclude
  | Stuck
  deriving Repr, DecidableEq, Inhabited

/-- what reading a file tree reports, in order -/
inductive SY (κ : Type) where
  | record (file : κ) (line : Nat) (r : Rec)
  | err (file : κ) (kind : SErr) (line : Nat)
  | panic
  deriving Repr, DecidableEq, Inhabited

/-- the context an included file starts with: the includer's, with the origin replaced if the
    directive names one -/
def childContext (ctx : Ctx) (origin : Option (List UInt8)) : Ctx :=
  match origin with
  | some o => { ctx with origin := some o }
  | none => ctx

/-- Read the rest of a file.  `p` is the in-memory parser over the file's remaining entries
    (its `ctx` is the current context).  Result: the reports, and the final context (`none`
    when reading stopped with an error). -/
def readFile {κ : Type} (resolve : κ → List UInt8 → Option (κ × List UInt8)) (maxDepth : Nat)
    (file : κ) (depth : Nat) (p : Parser) : List (SY κ) × Option Ctx :=
  match p.next with
  | (none, p') => ([], some p'.ctx)
  | (some (.err e), _) => ([.err file (.Syntax e.kind) e.line], none)
  | (some .panic, _) => ([.panic], none)
  | (some (.item (.record line r)), p') =>
    if p'.st.inp.length < p.st.inp.length then
      let rest := readFile resolve maxDepth file depth p'
      (.record file line r :: rest.1, rest.2)
    else ([.record file line r, .err file .Stuck line], none)
  | (some (.item (.incl line path origin)), p') =>
    if h : depth ≥ maxDepth then ([.err file .IncludesTooDeep line], none)
    else match resolve file path with
      | none => ([.err file .FailedToOpenInclude line], none)
      | some (child, content) =>
        -- the included file starts from the includer's context, origin replaced if given
        let childCtx : Ctx := childContext p'.ctx origin
        match readFile resolve maxDepth child (depth + 1) (Parser.withContext content childCtx) with
        | (ys, none) => (ys, none)
        | (ys, some c) =>
          -- continue with the included file's final context, but the includer's own origin
          if p'.st.inp.length < p.st.inp.length then
            let rest := readFile resolve maxDepth file depth
                          { p' with ctx := { c with origin := p'.ctx.origin } }
            (ys ++ rest.1, rest.2)
          else (ys ++ [.err file .Stuck line], none)
termination_by (maxDepth - depth, p.st.inp.length)
decreasing_by
  · apply Prod.Lex.right; assumption
  · apply Prod.Lex.left; omega
  · apply Prod.Lex.right; assumption

/-- reading a whole tree from its main file -/
def readTree {κ : Type} (resolve : κ → List UInt8 → Option (κ × List UInt8)) (maxDepth : Nat)
    (main : κ) (content : List UInt8) : List (SY κ) :=
  (readFile resolve maxDepth main 0 (Parser.new content)).1

end QV.Spec.Inc
