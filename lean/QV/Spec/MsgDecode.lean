/-
  QV.Spec.MsgDecode — an independent RFC 1035 §4.1 message decoder (executable).

  Decodes a whole message: header, QDCOUNT questions, then ANCOUNT/NSCOUNT/ARCOUNT records, each
  delimited by owner name (RFC 1035 §4.1.4 decoding via `specDecodeName`), fixed fields and
  RDLENGTH; the names inside RDATA of the RFC 1035 types that may be compressed are expanded.
  Succeeds only if the message ends exactly after the last counted record.

  Used as the oracle of C02 ("decodes completely under an independent decoder"), and to read the
  implementation's responses in the audits of C03–C05, C07–C09.
-/
import QV.Prelude
import QV.Spec.NameWire
import QV.Spec.Reader

namespace QV.Spec
open QV

structure DRr where
  owner : List UInt8
  ty : Nat
  cls : Nat
  rawTtl : Nat
  /-- RDATA with embedded names of RFC 1035 types expanded -/
  rdata : List UInt8
  /-- position of the record in the message -/
  pos : Nat
  /-- the names inside the RDATA decoded (always true for types without compressible names) -/
  rdOk : Bool := true
  deriving Repr, DecidableEq, Inhabited

structure DQuestion where
  qname : List UInt8
  qtype : Nat
  qclass : Nat
  deriving Repr, DecidableEq, Inhabited

structure DMsg where
  id : Nat
  flags : Nat
  questions : List DQuestion
  an : List DRr
  ns : List DRr
  ar : List DRr
  deriving Repr, Inhabited

def DMsg.qr (m : DMsg) : Bool := m.flags / 32768 % 2 == 1
def DMsg.opcode (m : DMsg) : Nat := m.flags / 2048 % 16
def DMsg.aa (m : DMsg) : Bool := m.flags / 1024 % 2 == 1
def DMsg.tc (m : DMsg) : Bool := m.flags / 512 % 2 == 1
def DMsg.rd (m : DMsg) : Bool := m.flags / 256 % 2 == 1
def DMsg.ra (m : DMsg) : Bool := m.flags / 128 % 2 == 1
/-- the three bits between RA and RCODE (Z, AD, CD) -/
def DMsg.zbits (m : DMsg) : Nat := m.flags / 16 % 8
def DMsg.rcode (m : DMsg) : Nat := m.flags % 16

/-- a name inside RDATA at `p`, lying inside the RDATA `[.., e)` -/
def rdName (msg : Bytes) (p e : Nat) : Option (List UInt8 × Nat) :=
  match specDecodeName msg p with
  | some (w, _, k) => if p + k ≤ e then some (w, k) else none
  | none => none

/-- expand RDATA of the RFC 1035 types whose names may be compressed (RFC 3597 §4) -/
def expandRdata (msg : Bytes) (ty s len : Nat) : Option (List UInt8) :=
  let e := s + len
  if ty = 2 ∨ ty = 3 ∨ ty = 4 ∨ ty = 5 ∨ ty = 7 ∨ ty = 8 ∨ ty = 9 ∨ ty = 12 then
    match rdName msg s e with
    | some (w, k) => if s + k = e then some w else none
    | none => none
  else if ty = 6 then
    match rdName msg s e with
    | some (a, k1) =>
      match rdName msg (s + k1) e with
      | some (b, k2) =>
        if s + k1 + k2 + 20 = e then some (a ++ b ++ (msg.extract (s + k1 + k2) e).toList) else none
      | none => none
    | none => none
  else if ty = 14 then
    match rdName msg s e with
    | some (a, k1) =>
      match rdName msg (s + k1) e with
      | some (b, k2) => if s + k1 + k2 = e then some (a ++ b) else none
      | none => none
    | none => none
  else if ty = 15 then
    if len < 2 then none else
    match rdName msg (s + 2) e with
    | some (a, k) => if s + 2 + k = e then some ((msg.extract s (s + 2)).toList ++ a) else none
    | none => none
  else some (msg.extract s e).toList

def decodeQuestions (msg : Bytes) : Nat → Nat → Option (List DQuestion × Nat)
  | 0, pos => some ([], pos)
  | n+1, pos =>
    match specQuestionAt msg pos with
    | some (w, t, c, nx) =>
      match decodeQuestions msg n nx with
      | some (qs, e) => some (⟨w, t, c⟩ :: qs, e)
      | none => none
    | none => none

def decodeRrs (msg : Bytes) : Nat → Nat → Option (List DRr × Nat)
  | 0, pos => some ([], pos)
  | n+1, pos =>
    match specDecodeName msg pos with
    | some (w, _, k) =>
      match specField16 msg (pos + k), specField16 msg (pos + k + 2), specField32 msg (pos + k + 4),
            specField16 msg (pos + k + 8) with
      | some t, some c, some raw, some rdlen =>
        if pos + k + 10 + rdlen ≤ msg.size then
          -- RDATA whose embedded names do not decode is kept as is and flagged (`rdOk = false`)
          let (rd, ok) := match expandRdata msg t (pos + k + 10) rdlen with
            | some rd => (rd, true)
            | none => ((msg.extract (pos + k + 10) (pos + k + 10 + rdlen)).toList, false)
          match decodeRrs msg n (pos + k + 10 + rdlen) with
          | some (rs, e) => some (⟨w, t, c, raw, rd, pos, ok⟩ :: rs, e)
          | none => none
        else none
      | _, _, _, _ => none
    | none => none

/-- the whole message; `none` unless everything decodes and the message ends after the last record -/
def specDecodeMsg (msg : Bytes) : Option DMsg :=
  if msg.size < 12 then none else
  match specField16 msg 0, specField16 msg 2, specField16 msg 4, specField16 msg 6, specField16 msg 8,
        specField16 msg 10 with
  | some id, some fl, some qd, some an, some ns, some ar =>
    match decodeQuestions msg qd 12 with
    | some (qs, p1) =>
      match decodeRrs msg an p1 with
      | some (a, p2) =>
        match decodeRrs msg ns p2 with
        | some (n, p3) =>
          match decodeRrs msg ar p3 with
          | some (r, p4) => if p4 = msg.size then some ⟨id, fl, qs, a, n, r⟩ else none
          | none => none
        | none => none
      | none => none
    | none => none
  | _, _, _, _, _, _ => none

end QV.Spec
