/-
  QV.Spec.Codes — presentation format of DNS TYPE / CLASS / QTYPE / QCLASS codes, written from
  RFC 3597 §5 and the IANA "Domain Name System (DNS) Parameters" registries; 4-bit OPCODE / RCODE
  fields per RFC 1035 §4.1.1; the extended RCODE space per RFC 6895 §2.3.

  Nothing here mentions the model or the generated tables.  The mnemonic tables are written out
  literally (the rows of the IANA registries that the server is required to know).

  RFC 3597 §5: "… the word 'TYPE' immediately followed by a decimal RR type number, without
  intervening whitespace" / "… the word 'CLASS' immediately followed by a decimal class number".
  RFC 1035 §5.1 / RFC 4343: mnemonics and these words are case-insensitive (ASCII).

  Interpretation: a "decimal number" here is the canonical numeral (digits only, no sign, no
  leading zeros).  Whether other spellings (`TYPE065`, `TYPE+5`) are accepted, and which texts
  are rejected, the property does not say — the spec is silent (`-`) on those.
-/
import QV.Prelude

namespace QV.Spec.Codes
open QV

inductive Kind where
  | type | class | qtype | qclass
  deriving Repr, DecidableEq, Inhabited

/-- IANA "Resource Record (RR) TYPEs" (RFC 1035, 3596, 2782, 6891, 8945) -/
def ianaTypes : List (String × Nat) :=
  [("A", 1), ("NS", 2), ("MD", 3), ("MF", 4), ("CNAME", 5), ("SOA", 6), ("MB", 7), ("MG", 8),
   ("MR", 9), ("NULL", 10), ("WKS", 11), ("PTR", 12), ("HINFO", 13), ("MINFO", 14), ("MX", 15),
   ("TXT", 16), ("AAAA", 28), ("SRV", 33), ("OPT", 41), ("TSIG", 250)]

/-- IANA RR TYPEs that are QTYPEs only (RFC 1995, RFC 1035 §3.2.3); 255 is written `*`, with the
    customary alias `ANY` (RFC 8482) -/
def ianaQtypes : List (String × Nat) :=
  [("IXFR", 251), ("AXFR", 252), ("MAILB", 253), ("MAILA", 254), ("*", 255), ("ANY", 255)]

/-- IANA "DNS CLASSes" (RFC 1035 §3.2.4; CS is obsolete and not listed) -/
def ianaClasses : List (String × Nat) := [("IN", 1), ("CH", 3), ("HS", 4)]

/-- QCLASS-only values (RFC 2136 NONE, RFC 1035 §3.2.5 `*` alias ANY) -/
def ianaQclasses : List (String × Nat) := [("NONE", 254), ("*", 255), ("ANY", 255)]

/-- mnemonics valid for a kind (RFC 1035 §3.2.3: QTYPEs are a superset of TYPEs; §3.2.5 likewise) -/
def mnemonics : Kind → List (String × Nat)
  | .type => ianaTypes
  | .class => ianaClasses
  | .qtype => ianaQtypes ++ ianaTypes
  | .qclass => ianaQclasses ++ ianaClasses

/-- the RFC 3597 §5 word for a kind -/
def word : Kind → String
  | .type | .qtype => "TYPE"
  | .class | .qclass => "CLASS"

/-- ASCII octets of a (pure ASCII) registry string -/
def ascii (s : String) : List UInt8 := s.toList.map (fun c => UInt8.ofNat c.toNat)

/-- ASCII lower-casing of text (RFC 4343 §3) -/
def lower (t : List UInt8) : List UInt8 :=
  t.map (fun b => if 65 ≤ b.toNat ∧ b.toNat ≤ 90 then UInt8.ofNat (b.toNat + 32) else b)

/-- `ds` is the canonical decimal numeral of `n` -/
inductive IsDecimal : List UInt8 → Nat → Prop
  | digit (d : Nat) (h : d < 10) : IsDecimal [UInt8.ofNat (48 + d)] d
  | snoc {ds : List UInt8} {n : Nat} (d : Nat) (h : d < 10) (hn : 0 < n) (r : IsDecimal ds n) :
      IsDecimal (ds ++ [UInt8.ofNat (48 + d)]) (n * 10 + d)

/-- `text` is a presentation of the 16-bit code `v` of kind `k` -/
inductive Presents (k : Kind) : List UInt8 → Nat → Prop
  /-- a registered mnemonic, in any ASCII case -/
  | mnemonic {m : String} {v : Nat} {t : List UInt8} (hm : (m, v) ∈ mnemonics k)
      (ht : lower t = lower (ascii m)) : Presents k t v
  /-- RFC 3597 §5: the word (any case) immediately followed by the decimal number -/
  | generic {p ds : List UInt8} {v : Nat} (hp : lower p = lower (ascii (word k)))
      (hd : IsDecimal ds v) (hv : v < 65536) : Presents k (p ++ ds) v

/-- 4-bit header fields (RFC 1035 §4.1.1): OPCODE and RCODE values are exactly 0..15 -/
def fitsFourBits (x : Nat) : Prop := x < 16
instance (x : Nat) : Decidable (fitsFourBits x) := by unfold fitsFourBits; infer_instance

/-! ### executable form (oracle) -/

def specLookup (tbl : List (String × Nat)) (t : List UInt8) : Option Nat :=
  (tbl.find? (fun r => lower (ascii r.1) == lower t)).map (·.2)

/-- value of a canonical decimal numeral (`none`: not canonical, or ≥ 65536) -/
def specDecimalValue (ds : List UInt8) : Option Nat :=
  if ds.isEmpty then none
  else if !(ds.all (fun b => 48 ≤ b.toNat ∧ b.toNat ≤ 57)) then none
  else if ds.length > 1 ∧ ds.head? = some 48 then none
  else
    let v := ds.foldl (fun a b => a * 10 + (b.toNat - 48)) 0
    if v < 65536 then some v else none

/-- `some v`: the text presents `v` (the parser must return `v`); `none`: the spec is silent -/
def specParse (k : Kind) (t : List UInt8) : Option Nat :=
  match specLookup (mnemonics k) t with
  | some v => some v
  | none =>
    let w := ascii (word k)
    if lower (t.take w.length) == lower w then specDecimalValue (t.drop w.length) else none

def specFourBit (x : Nat) : Option Nat := if x < 16 then some x else none

end QV.Spec.Codes
