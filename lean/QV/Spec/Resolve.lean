/-
  QV.Spec.Resolve — what an authoritative server answers to a QUERY out of one zone, written from
  RFC 1034 §4.3.2 (the algorithm), RFC 4592 (wildcards, through `specLookup*`), RFC 6604 (RCODE and
  AA of CNAME chains), RFC 2308 §3 (negative answers), RFC 3596 §3 / RFC 2782 (additional section
  processing) and the text of C05 / C04.  A zone is the flat record list of `QV.Spec.Zone`; all
  look-ups go through `specLookup`, `specLookupAddrs`, `specLookupAll`.  Nothing here mentions the
  server model, the writer, or a tree.  RR types, classes and RCODEs are IANA's numbers.

  `specResolve z qname qtype : Resolution` = RCODE, AA, and the three sections as record lists
  (owners are case-folded label lists; sections are compared as multisets by the oracle, the order
  chosen here is: answer = the CNAME chain in chain order, then the final RRset; additional =
  mandatory glue first, then the optional addresses, each in the order of the triggering RRs).

  Interpretation choices (DESIGN.md §6 C05; where RFC 1034 leaves latitude the spec follows the
  property's wording, then the code, and says so):
  * CNAME chasing (RFC 1034 §3.6.2, §4.3.2 step 3a) stays inside the zone of the original QNAME;
    a target outside the zone ends the chain with what has been collected (NOERROR, AA set).
  * At most 8 CNAME links are followed; a chain needing a ninth link, a link whose target was an
    owner earlier in the chain (a loop — the QNAME included), and a CNAME whose RDATA is not
    exactly one domain name are all SERVFAIL with empty sections and AA clear.
  * A node with several CNAME records (an invalid zone, C21 `DuplicateCname`) contributes its
    first record only.
  * RCODE is that of the last query cycle (RFC 6604 §3); AA reflects the first owner of the
    answer section (RFC 6604 §2.1), so a chain that ends in a referral keeps AA set, while a
    plain referral has AA clear.
  * Referral (RFC 1034 §4.3.2 step 3b): NS RRset of the topmost cut in authority; for every NS
    record, A (and AAAA in class IN) at the name-server name, found *below cuts*, go into
    additional; those of name servers at or below the delegation point are *mandatory glue*
    (`Resolution.glue`), the others optional (C04). Type A is looked up for glue in every class.
  * Additional section processing (answer RRset of type NS, MD, MF, MB, MX or SRV; classes IN and
    CH only): A (+ AAAA in IN) at each target, *not* searching below cuts, once per RR of the RRset
    (two MX records naming one host contribute its addresses twice), wildcard synthesis included.
  * QTYPE ANY: every RRset at the node (a CNAME RRset is returned, not chased); a node without
    records (empty non-terminal) gives the negative answer.
  * Negative answer (RFC 2308 §3, §5): the SOA record in authority with TTL
    min(TTL of the SOA record, SOA.MINIMUM); a MINIMUM ≥ 2^31 counts as 0 (RFC 2181 §8).
    NXDOMAIN when the last name does not exist, NOERROR when it exists without the type.
  * Malformed zone data (the public API accepts any octets as RDATA): SERVFAIL whenever the
    server would need something it cannot read — a CNAME / NS / MD / MF / MB / MX / SRV target
    that must be followed is not exactly one name, the SOA for a negative answer is missing or
    not `name name 5×u32`, or a record to be sent has an embedded (compressible or not) name that
    cannot be located (`renderable`).  RDATA that needs no interpretation is sent as stored.
-/
import QV.Spec.Zone
import QV.Spec.Rdata

namespace QV.Spec.Resolve
open QV QV.NameL QV.Zone QV.Spec.Zone

/-! ### records and resolutions -/

structure RR where
  owner : Name          -- case-folded labels
  rtype : Nat
  cls : Nat
  ttl : Nat
  rdata : List UInt8
  deriving DecidableEq, Repr, Inhabited

structure Resolution where
  rcode : Nat
  aa : Bool
  answer : List RR
  authority : List RR
  additional : List RR
  /-- the prefix of `additional` that is mandatory glue -/
  glue : List RR := []
  deriving DecidableEq, Repr, Inhabited

def NOERROR : Nat := 0
def SERVFAIL : Nat := 2
def NXDOMAIN : Nat := 3
def ANY : Nat := 255
def MD : Nat := 3
def MF : Nat := 4
def MB : Nat := 7
def SRV : Nat := 33
def HS : Nat := 4

def servfail : Resolution := ⟨SERVFAIL, false, [], [], [], []⟩

/-! ### domain names inside RDATA (RFC 1035 §3.1: labels of 1..63 octets, 255 octets in all) -/

/-- the labels of an uncompressed name at the start of `r` and what follows it; `fuel` ≥ number of
    labels + 1 -/
def labelsAt : Nat → List UInt8 → Option (List Label × List UInt8)
  | 0, _ => none
  | _ + 1, [] => none
  | fuel + 1, l :: rest =>
    if l = 0 then some ([], rest)
    else if 63 < l.toNat then none
    else if rest.length < l.toNat then none
    else match labelsAt fuel (rest.drop l.toNat) with
      | some (ls, r) => some (rest.take l.toNat :: ls, r)
      | none => none

/-- wire length of a name with these labels -/
def wireLen (ls : List Label) : Nat := (ls.map (fun l => l.length + 1)).sum + 1

/-- the (case-folded) name at the start of `r`, and the rest of `r` -/
def nameAt (r : List UInt8) : Option (Name × List UInt8) :=
  match labelsAt (r.length + 1) r with
  | some (ls, rest) => if wireLen ls ≤ 255 then some (ls.map lowerLabel, rest) else none
  | none => none

/-- `r` is exactly one name -/
def exactName (r : List UInt8) : Option Name :=
  match nameAt r with
  | some (n, []) => some n
  | _ => none

/-- the domain name a record of type `t` points to, when the server has to follow it:
    NS, MD, MF, MB, CNAME: the RDATA; MX: after the 16-bit preference; SRV: after three 16-bit fields -/
def targetOf (t : Nat) (rd : List UInt8) : Option Name :=
  if t = MX then (if rd.length < 2 then none else exactName (rd.drop 2))
  else if t = SRV then (if rd.length < 6 then none else exactName (rd.drop 6))
  else exactName rd

/-- the fields of a layout up to its last name -/
def uptoLastName : List Field → List Field
  | [] => []
  | f :: fs =>
    match uptoLastName fs with
    | [] => (match f with | .name => [.name] | .fixed _ => [])
    | r => f :: r

/-- the embedded names of `r` can be located: fixed fields before a name are present and every
    name is well formed (what follows the last name is not interpreted) -/
def locatable : List Field → List UInt8 → Bool
  | [], _ => true
  | .name :: fs, r =>
    match nameAt r with
    | some (_, rest) => locatable fs rest
    | none => false
  | .fixed n :: fs, r => decide (n ≤ r.length) && locatable fs (r.drop n)

/-- a record of class `c`, type `t` with RDATA `rd` can be put into a message (its embedded names,
    if its type has any, can be found — RFC 1035 §3.3, RFC 1034 §3.6 for CH A, RFC 2782) -/
def renderable (c t : Nat) (rd : List UInt8) : Bool :=
  match layoutOf (fmtOf c t) with
  | some l => locatable (uptoLastName l) rd
  | none => true

/-! ### building blocks -/

/-- the records of an RRset, as type `t` owned by `owner` -/
def rrs (owner : Name) (t cls : Nat) (s : Rrset) : List RR :=
  s.rdatas.map (fun rd => ⟨owner, t, cls, s.ttl, rd⟩)

def optRrs (owner : Name) (t cls : Nat) : Option Rrset → List RR
  | some s => rrs owner t cls s
  | none => []

/-- the address records of `n`: A, and AAAA in class IN (RFC 3596 §3) -/
def addrRRs (z : SZone) (n : Name) (belowCuts : Bool) : List RR :=
  match specLookupAddrs z n ⟨false, belowCuts⟩ with
  | .found a aaaa _ => optRrs n A z.cls a ++ (if z.cls = IN then optRrs n AAAA IN aaaa else [])
  | _ => []

/-- all of them, or none if one is missing -/
def allSome {α} : List (Option α) → Option (List α)
  | [] => some []
  | none :: _ => none
  | some a :: rest => (allSome rest).map (a :: ·)

def hasAdditionalProcessing (t : Nat) : Bool :=
  t == NS || t == MD || t == MF || t == MB || t == MX || t == SRV

/-- additional section processing for an answer RRset of type `t` (`none`: a target is malformed) -/
def additionalFor (z : SZone) (t : Nat) (s : Rrset) : Option (List RR) :=
  if z.cls ≠ IN ∧ z.cls ≠ CH then some []
  else if hasAdditionalProcessing t then
    (allSome (s.rdatas.map (targetOf t))).map (fun ts => ts.flatMap (fun n => addrRRs z n false))
  else some []

/-- the MINIMUM field of SOA RDATA `mname rname serial refresh retry expire minimum` -/
def soaMinimum (rd : List UInt8) : Option Nat :=
  match nameAt rd with
  | some (_, r1) =>
    match nameAt r1 with
    | some (_, r2) =>
      if r2.length = 20 then
        match r2.drop 16 with
        | [a, b, c, d] => some (a.toNat * 16777216 + b.toNat * 65536 + c.toNat * 256 + d.toNat)
        | _ => none
      else none
    | none => none
  | none => none

/-- RFC 2308 §3/§5: the SOA record for the authority section of a negative answer -/
def negativeSoa (z : SZone) : Option RR :=
  match specSoa z with
  | some s =>
    match s.rdatas with
    | rd :: _ =>
      match soaMinimum rd with
      | some m => some ⟨z.apex, SOA, z.cls, min (if 2147483648 ≤ m then 0 else m) s.ttl, rd⟩
      | none => none
    | [] => none
  | none => none

/-! ### the CNAME chain -/

/-- how the last query cycle ended -/
inductive End where
  | data (owner : Name) (s : Rrset)          -- the RRset asked for, at `owner`
  | referral (child : Name) (ns : Rrset)     -- a zone cut
  | noData                                   -- the name exists, the type does not
  | nxDomain                                 -- the name does not exist
  | outOfZone                                -- the chain left the zone
  | fail                                     -- loop, chain too long, unreadable target
  deriving DecidableEq, Repr, Inhabited

/-- one query cycle for `n` (a CNAME target; `first` = the QNAME itself) -/
def cycleEnd (owner : Name) : LookupResult → Option End
  | .found s _ => some (.data owner s)
  | .cname _ _ => none
  | .referral c ns => some (.referral c ns)
  | .noRecords _ => some .noData
  | .nxDomain => some .nxDomain
  | .wrongZone => some .outOfZone

/-- follow the CNAME `cn` owned by `owner`; `visited` = the owners seen so far (`owner` included),
    `links` = how many more links may be followed.  Result: the CNAME records collected, in chain
    order, and how the chain ended. -/
def chase (z : SZone) (qtype : Nat) : Nat → List Name → Name → Rrset → List RR × End
  | 0, _, _, _ => ([], .fail)                                     -- a ninth link
  | links + 1, visited, owner, cn =>
    match cn.rdatas with
    | [] => ([], .fail)
    | rd :: _ =>
      match exactName rd with
      | none => ([], .fail)
      | some target =>
        if visited.contains target then ([], .fail)               -- a loop
        else
          let link : RR := ⟨owner, CNAME, z.cls, cn.ttl, rd⟩
          match specLookup z target qtype ⟨false, false⟩ with
          | .cname next _ =>
            match chase z qtype links (target :: visited) target next with
            | (_, .fail) => ([], .fail)
            | (ls, e) => (link :: ls, e)
          | r => ([link], (cycleEnd target r).getD .fail)

/-- the chain as a relation (the declarative reading of `chase`): `Chain z qtype visited owner cn k ls e`
    — starting at the CNAME RRset `cn` of `owner`, with `visited` the owners so far, following at most
    `k` links collects the CNAME records `ls` and ends with `e ≠ fail`. -/
inductive Chain (z : SZone) (qtype : Nat) : List Name → Name → Rrset → Nat → List RR → End → Prop
  | last {visited owner cn k rd rest target r e}
      (hrd : cn.rdatas = rd :: rest) (ht : exactName rd = some target)
      (hv : visited.contains target = false)
      (hl : specLookup z target qtype ⟨false, false⟩ = r) (he : cycleEnd target r = some e) :
      Chain z qtype visited owner cn (k + 1) [⟨owner, CNAME, z.cls, cn.ttl, rd⟩] e
  | link {visited owner cn k rd rest target next sos ls e}
      (hrd : cn.rdatas = rd :: rest) (ht : exactName rd = some target)
      (hv : visited.contains target = false)
      (hl : specLookup z target qtype ⟨false, false⟩ = .cname next sos)
      (tl : Chain z qtype (target :: visited) target next k ls e) :
      Chain z qtype visited owner cn (k + 1) (⟨owner, CNAME, z.cls, cn.ttl, rd⟩ :: ls) e

/-! ### putting the response together -/

def allRenderable (rs : List RR) : Bool := rs.all (fun r => renderable r.cls r.rtype r.rdata)

/-- SERVFAIL if something to be sent cannot be rendered -/
def checked (r : Resolution) : Resolution :=
  if allRenderable r.answer && allRenderable r.authority && allRenderable r.additional then r else servfail

/-- the name-server names of an NS RRset, split into those at or below `child` and the others -/
def nsTargets (child : Name) (ns : Rrset) : Option (List Name × List Name) :=
  (allSome (ns.rdatas.map (targetOf NS))).map
    (fun ts => (ts.filter (fun n => child.isSuffixOf n), ts.filter (fun n => !child.isSuffixOf n)))

def negative (z : SZone) (rcode : Nat) (links : List RR) : Resolution :=
  match negativeSoa z with
  | some soa => checked ⟨rcode, true, links, [soa], [], []⟩
  | none => servfail

/-- the response, given the CNAME records collected and the end of the last query cycle -/
def finish (z : SZone) (qtype : Nat) (links : List RR) : End → Resolution
  | .data owner s =>
    match additionalFor z qtype s with
    | some ar => checked ⟨NOERROR, true, links ++ rrs owner qtype z.cls s, [], ar, []⟩
    | none => servfail
  | .referral child ns =>
    match nsTargets child ns with
    | some (inb, others) =>
      let glue := inb.flatMap (fun n => addrRRs z n true)
      checked ⟨NOERROR, !links.isEmpty, links, rrs child NS z.cls ns,
               glue ++ others.flatMap (fun n => addrRRs z n true), glue⟩
    | none => servfail
  | .noData => negative z NOERROR links
  | .nxDomain => negative z NXDOMAIN links
  | .outOfZone => checked ⟨NOERROR, true, links, [], [], []⟩
  | .fail => servfail

/-- QTYPE `*` -/
def resolveAny (z : SZone) (qname : Name) : Resolution :=
  match specLookupAll z qname ⟨false, false⟩ with
  | .found rrsets _ =>
    if rrsets.isEmpty then negative z NOERROR []
    else checked ⟨NOERROR, true, rrsets.flatMap (fun s => rrs qname s.rtype z.cls s), [], [], []⟩
  | .referral c ns => finish z ANY [] (.referral c ns)
  | .nxDomain => negative z NXDOMAIN []
  | .wrongZone => servfail

/-- **the answer to `(qname, qtype)` out of zone `z`** (`qname` at or below the apex) -/
def specResolve (z : SZone) (qname : Name) (qtype : Nat) : Resolution :=
  if qtype = ANY then resolveAny z qname
  else
    match specLookup z qname qtype ⟨false, false⟩ with
    | .cname cn _ =>
      match chase z qtype 8 [qname] qname cn with
      | (ls, e) => finish z qtype ls e
    | r => finish z qtype [] ((cycleEnd qname r).getD .fail)

/-! ### comparison as multisets (the oracle's view of a decoded response) -/

/-- remove the first element `E`-equal to `a` -/
def removeFirst {α} (E : α → α → Bool) (a : α) : List α → Option (List α)
  | [] => none
  | b :: bs => if E a b then some bs else (removeFirst E a bs).map (b :: ·)

/-- `l₁` is a sub-multiset of `l₂` (up to `E`); returns what is left of `l₂` -/
def subMultiset {α} (E : α → α → Bool) : List α → List α → Option (List α)
  | [], l₂ => some l₂
  | a :: l₁, l₂ =>
    match removeFirst E a l₂ with
    | some l₂' => subMultiset E l₁ l₂'
    | none => none

def multisetEq {α} (E : α → α → Bool) (l₁ l₂ : List α) : Bool :=
  match subMultiset E l₁ l₂ with
  | some [] => true
  | _ => false

/-- RDATA with its locatable embedded names case-folded (what follows the last name is kept) -/
def foldNames : List Field → List UInt8 → Option (List UInt8)
  | [], r => some r
  | .name :: fs, r =>
    match nameAt r with
    | some (n, rest) => (foldNames fs rest).map (toWire n ++ ·)
    | none => none
  | .fixed n :: fs, r => if n ≤ r.length then (foldNames fs (r.drop n)).map (r.take n ++ ·) else none

/-- RDATA equality for comparing a decoded response with the zone: embedded names of the formats
    that have them are compared case-insensitively (name compression may change their case, RFC
    1035 §4.1.4 / RFC 4343), everything else octet for octet -/
def rdataEq (c t : Nat) (a b : List UInt8) : Bool :=
  match layoutOf (fmtOf c t) with
  | some l =>
    match foldNames (uptoLastName l) a, foldNames (uptoLastName l) b with
    | some x, some y => x == y
    | _, _ => a == b
  | none => a == b

/-- two records are the same: owner (folded), type, class, TTL equal; RDATA equal per `rdataEq` -/
def rrEq (a b : RR) : Bool :=
  a.owner == b.owner && a.rtype == b.rtype && a.cls == b.cls && a.ttl == b.ttl &&
    rdataEq a.cls a.rtype a.rdata b.rdata

end QV.Spec.Resolve
